(* C11 - proofs about string value normalisation: validStringValue, appendValidStringValue, ForceValidStringValue(Bytes). *)
From Coq Require Import ZArith List Bool Lia.
From SH Require Import Common.Wrap Gen.TagValueUnicode TagValue.Model TagValue.Spec TagValue.Utf8.
Import ListNotations.
Open Scope Z_scope.

(* the space discipline as a state machine over runes: [prev] = "the previous rune was a space (or start)";
   None = a space followed a space/start; Some q = final state *)
Fixpoint walk (prev : bool) (rs : list Z) : option bool :=
  match rs with
  | [] => Some prev
  | r :: t => let isp := r =? 32 in if isp && prev then None else walk isp t
  end.

Lemma walk_app a : forall prev b,
  walk prev (a ++ b) = match walk prev a with None => None | Some q => walk q b end.
Proof.
  induction a as [|r t IH]; intros; simpl; [reflexivity|].
  destruct ((r =? 32) && prev); [reflexivity|apply IH].
Qed.

Lemma walk_trimmed rs : walk true rs = Some false -> trimmed rs /\ single_spaces rs.
Proof.
  intros W. unfold trimmed, single_spaces. split; [split|]; intros; intro E; subst rs.
  - simpl in W. discriminate.
  - rewrite walk_app in W. destruct (walk true t) as [q|]; [|discriminate].
    simpl in W. destruct q; simpl in W; discriminate.
  - rewrite walk_app in W. destruct (walk true a) as [q|]; [|discriminate].
    simpl in W. destruct q; simpl in W; discriminate.
Qed.

Lemma trimmed_walk_gen : forall rs prev,
  (prev = true -> forall t, rs <> 32 :: t) -> single_spaces rs ->
  exists q, walk prev rs = Some q /\ (q = true -> (rs = [] /\ prev = true) \/ exists t, rs = t ++ [32]).
Proof.
  induction rs as [|r t IH]; intros prev Hlead Hs.
  - exists prev. split; [reflexivity|]. intros ->. left; auto.
  - simpl. destruct (r =? 32) eqn:E; zb.
    + subst r. destruct prev.
      * exfalso. apply (Hlead eq_refl t). reflexivity.
      * simpl. destruct (IH true) as [q [Wq Hq]].
        { intros _ t' ->. apply (Hs [] t'). reflexivity. }
        { intros a b ->. apply (Hs (32 :: a) b). reflexivity. }
        exists q. split; [exact Wq|]. intros Q. right. destruct (Hq Q) as [[-> _]|[t' ->]].
        -- exists []. reflexivity.
        -- exists (32 :: t'). reflexivity.
    + simpl. destruct (IH false) as [q [Wq Hq]].
      { discriminate. }
      { intros a b ->. apply (Hs (r :: a) b). reflexivity. }
      exists q. split; [exact Wq|]. intros Q. right. destruct (Hq Q) as [[_ F]|[t' ->]]; [discriminate|].
      exists (r :: t'). reflexivity.
Qed.

Lemma trimmed_walk rs : trimmed rs -> single_spaces rs -> rs = [] \/ walk true rs = Some false.
Proof.
  intros [Hl Ht] Hs. destruct (trimmed_walk_gen rs true (fun _ => Hl) Hs) as [q [W Hq]].
  destruct q; [|right; exact W].
  destruct (Hq eq_refl) as [[-> _]|[t ->]]; [left; reflexivity|]. exfalso. apply (Ht t). reflexivity.
Qed.

Lemma bytes_skipn n : forall s, bytes s -> bytes (skipn n s).
Proof.
  induction n; intros s B; simpl; [exact B|]. destruct s; [exact B|]. inversion B; subst. apply IHn. assumption.
Qed.

Lemma removelast_snoc {A} (l : list A) x : removelast (l ++ [x]) = l.
Proof. rewrite removelast_app by discriminate. simpl. apply app_nil_r. Qed.

Lemma not_err_token r : scalar r -> (r =? rune_error) && (len (encode_rune r) <=? 1) = false.
Proof.
  intros S. destruct (r =? rune_error) eqn:A; [|reflexivity]. destruct (len (encode_rune r) <=? 1) eqn:B; [|reflexivity].
  zb. pose proof (enc_len1 r S B). unfold rune_error in A. lia.
Qed.

Section Generic.
  Variables sp pr : Z -> bool.
  (* the facts about unicode.IsSpace / unicode.IsPrint the code relies on *)
  Hypothesis H_ascii_print : forall c, 0 <= c <= 127 -> pr c = byte_print c.
  Hypothesis H_ascii_space : forall c, 33 <= c <= 126 -> sp c = false.
  Hypothesis H_space_32 : sp 32 = true.
  Hypothesis H_fffd : pr rune_error = true /\ sp rune_error = false.

  Notation good := (good_rune sp pr).

  (* internal form of valid_value *)
  Definition valid_int (s : list Z) : Prop :=
    exists rs, s = utf8 rs /\ Forall scalar rs /\ Forall good rs /\ len s <= max_string_len /\
               (rs = [] \/ walk true rs = Some false).

  Lemma valid_int_value s : valid_int s <-> valid_value sp pr s.
  Proof.
    unfold valid_int, valid_value. change max_string_len with 128. split.
    - intros [rs [E [S [G [L W]]]]]. exists rs. repeat split; auto.
      + destruct W as [->|W]; [intros t; destruct t; discriminate|apply walk_trimmed; exact W].
      + destruct W as [->|W]; [intros t; destruct t; discriminate|apply walk_trimmed; exact W].
      + destruct W as [->|W]; [intros a b; destruct a; discriminate|apply walk_trimmed; exact W].
    - intros [rs [E [S [L [G [T D]]]]]]. exists rs. repeat split; auto. apply trimmed_walk; auto.
  Qed.

  Lemma good_sp r : good r -> sp r = (r =? 32).
  Proof.
    intros [->|[_ S]]; [exact H_space_32|]. rewrite S. symmetry. apply Z.eqb_neq. intros ->. congruence.
  Qed.
  Lemma good_keep r : good r -> (if sp r then 32 else if negb (pr r) then rune_error else r) = r.
  Proof.
    intros G. pose proof (good_sp r G) as S. destruct G as [->|[P S']].
    - rewrite H_space_32. reflexivity.
    - rewrite S', P. reflexivity.
  Qed.

  Lemma slow_step force f src w prev c nr : src <> [] -> decode_rune src = (c, nr) ->
    slow_loop sp pr force (S f) src w prev =
    if (c =? rune_error) && (nr <=? 1) && negb force then None else
    if sp c && prev then slow_loop sp pr force f (skipn (Z.to_nat nr) src) w prev else
    let enc := encode_rune (if sp c then 32 else if negb (pr c) then rune_error else c) in
    if w + len enc >? max_string_len then Some ([], prev) else
    match slow_loop sp pr force f (skipn (Z.to_nat nr) src) (w + len enc) (sp c) with
    | None => None | Some (o, p) => Some (enc ++ o, p) end.
  Proof.
    intros N D. destruct src as [|x xs]; [congruence|]. cbn [slow_loop]. rewrite D. reflexivity.
  Qed.

  (* ---- the slow path leaves a valid rune sequence untouched *)
  Lemma slow_id force : forall rs fuel w prev,
    Forall scalar rs -> Forall good rs -> walk prev rs = Some false ->
    w + len (utf8 rs) <= max_string_len -> (length (utf8 rs) < fuel)%nat ->
    slow_loop sp pr force fuel (utf8 rs) w prev = Some (utf8 rs, false).
  Proof.
    induction rs as [|r t IH]; intros fuel w prev S G W L F.
    - simpl in W. inversion W; subst. destruct fuel; reflexivity.
    - destruct fuel as [|f]; [inversion F|].
      inversion S as [|? ? Sr St]; subst. inversion G as [|? ? Gr Gt]; subst.
      rewrite utf8_cons in *. rewrite len_app in L. rewrite app_length in F.
      pose proof (enc_len r Sr) as EL.
      assert (NE : encode_rune r ++ utf8 t <> []).
      { intro E. apply app_eq_nil in E. destruct E as [E _]. exact (enc_nonempty r E). }
      rewrite (slow_step force f _ w prev r (len (encode_rune r)) NE (decode_encode r _ Sr)).
      rewrite (not_err_token r Sr). cbn [andb].
      rewrite (good_keep r Gr), (good_sp r Gr). cbv zeta.
      simpl in W. destruct ((r =? 32) && prev) eqn:SP; [discriminate|].
      replace (w + len (encode_rune r) >? max_string_len) with false
        by (symmetry; rewrite Z.gtb_ltb; apply Z.ltb_ge; pose proof (len_nonneg (utf8 t)); lia).
      rewrite skipn_enc. rewrite (IH f (w + len (encode_rune r)) (r =? 32)); auto; try lia.
      unfold len in EL. lia.
  Qed.

  Lemma fast_scan_walk : forall s prev q, fast_scan s prev = Some q ->
    walk prev s = Some q /\ Forall (fun c => byte_print c = true) s.
  Proof.
    induction s as [|c t IH]; intros prev q; simpl; intros E.
    - inversion E; subst. split; [reflexivity|constructor].
    - destruct (byte_print c) eqn:BP; simpl in E; [|discriminate].
      destruct ((c =? 32) && prev); [discriminate|]. destruct (IH _ _ E) as [W Fa]. split; [exact W|constructor; auto].
  Qed.

  Lemma ascii_utf8 s : Forall (fun c => byte_print c = true) s -> utf8 s = s /\ Forall scalar s /\ Forall good s.
  Proof.
    induction 1 as [|c t BP _ [IH1 [IH2 IH3]]]; [repeat split; constructor|].
    unfold byte_print in BP. zb. rewrite utf8_cons, enc1 by lia. rewrite IH1. split; [reflexivity|].
    split; constructor; auto; [unfold scalar; lia|].
    destruct (Z.eq_dec c 32) as [->|N]; [left; reflexivity|right]. split.
    - rewrite H_ascii_print by lia. unfold byte_print. apply andb_true_intro. split; apply Z.leb_le; lia.
    - apply H_ascii_space. lia.
  Qed.

  Lemma fast_ok_valid s : fast_ok s = true -> len s <= max_string_len -> valid_int s.
  Proof.
    unfold fast_ok. intros F L. destruct (fast_scan s true) as [[|]|] eqn:E; try discriminate.
    destruct (fast_scan_walk _ _ _ E) as [W A]. destruct (ascii_utf8 s A) as [U [S G]].
    exists s. repeat split; auto.
  Qed.

  (* ---- "… equals the input when the input was already valid" *)
  Theorem append_valid_id force s : valid_int s -> append_valid_g sp pr force s = Some s.
  Proof.
    intros [rs [E [S [G [L W]]]]]. unfold append_valid_g. destruct s as [|c t] eqn:Es; [reflexivity|].
    rewrite <- Es in *. destruct ((len s <=? max_string_len) && fast_ok s); [reflexivity|].
    destruct W as [->|W]; [simpl in E; congruence|].
    rewrite E. rewrite (slow_id force rs (Datatypes.S (length (utf8 rs))) 0 true S G W); [reflexivity| |lia].
    rewrite <- E. lia.
  Qed.

  (* ---- what the slow path writes is always a well-formed rune sequence *)
  Lemma slow_out : forall fuel src w prev o p, bytes src ->
    slow_loop sp pr true fuel src w prev = Some (o, p) -> 0 <= w <= max_string_len ->
    exists rs, o = utf8 rs /\ Forall scalar rs /\ Forall good rs /\ w + len o <= max_string_len /\
               walk prev rs = Some p.
  Proof.
    induction fuel as [|f IH]; intros src w prev o p B E Hw.
    - simpl in E. inversion E; subst. exists []. repeat split; auto. rewrite len_nil. lia.
    - destruct src as [|x xs] eqn:Es.
      { simpl in E. inversion E; subst. exists []. repeat split; auto. rewrite len_nil. lia. }
      rewrite <- Es in *. assert (NE : src <> []) by (rewrite Es; discriminate).
      destruct (decode_rune src) as [c nr] eqn:D.
      rewrite (slow_step true f src w prev c nr NE D) in E.
      cbn [negb] in E. rewrite andb_false_r in E.
      pose proof (decode_scalar src B) as Sc. rewrite D in Sc. simpl in Sc.
      pose proof (bytes_skipn (Z.to_nat nr) src B) as Bs.
      destruct (sp c && prev) eqn:SP.
      { apply (IH _ _ _ _ _ Bs E Hw). }
      cbv zeta in E.
      set (c' := if sp c then 32 else if negb (pr c) then rune_error else c) in *.
      assert (Sc' : scalar c').
      { unfold c'. destruct (sp c); [unfold scalar; lia|]. destruct (negb (pr c)); [apply rune_error_scalar|exact Sc]. }
      assert (Gc' : good c').
      { unfold c'. destruct (sp c) eqn:A; [left; reflexivity|]. destruct (pr c) eqn:P; simpl.
        - right. auto.
        - right. exact H_fffd. }
      assert (Eq32 : (c' =? 32) = sp c).
      { unfold c'. destruct (sp c) eqn:A; [reflexivity|]. destruct (negb (pr c)); [reflexivity|].
        apply Z.eqb_neq. intros ->. congruence. }
      destruct (w + len (encode_rune c') >? max_string_len) eqn:BR.
      { inversion E; subst. exists []. repeat split; auto. rewrite len_nil. lia. }
      rewrite Z.gtb_ltb in BR. zb.
      destruct (slow_loop sp pr true f _ _ _) as [[o' p']|] eqn:R; [|discriminate].
      inversion E; subst; clear E.
      pose proof (len_nonneg (encode_rune c')) as LN.
      destruct (IH _ _ _ _ _ Bs R ltac:(lia)) as [rs [Eo [S [G [L W]]]]].
      exists (c' :: rs). rewrite utf8_cons, Eo. repeat split; auto.
      + rewrite len_app. rewrite <- Eo. lia.
      + simpl. rewrite Eq32, SP. exact W.
  Qed.

  Lemma walk_last_space : forall rs prev, rs <> [] -> walk prev rs = Some true ->
    exists rs', rs = rs' ++ [32] /\ (rs' = [] /\ prev = false \/ walk prev rs' = Some false).
  Proof.
    intros rs prev NE W. destruct (exists_last NE) as [rs' [r ->]].
    rewrite walk_app in W. destruct (walk prev rs') as [q|] eqn:Q; [|discriminate].
    simpl in W. destruct (r =? 32) eqn:R; simpl in W.
    - destruct q; [discriminate|]. zb. subst. exists rs'. split; [reflexivity|]. right. exact Q.
    - inversion W.
  Qed.

  (* ---- "Forcing any byte string into a tag value yields a valid value" *)
  Theorem force_bytes_valid s : bytes s -> valid_int (force_bytes_g sp pr s).
  Proof.
    intros B. unfold force_bytes_g, append_valid_g.
    assert (V0 : valid_int []).
    { exists []. split; [reflexivity|]. split; [constructor|]. split; [constructor|]. split; [rewrite len_nil; unfold max_string_len; lia|left; reflexivity]. }
    destruct s as [|c t] eqn:Es; [exact V0|]. rewrite <- Es in *.
    destruct ((len s <=? max_string_len) && fast_ok s) eqn:FP.
    { zb. apply fast_ok_valid; auto. }
    destruct (slow_loop sp pr true (S (length s)) s 0 true) as [[o p]|] eqn:R; [|exact V0].
    destruct (slow_out _ _ _ _ _ _ B R ltac:(unfold max_string_len; lia)) as [rs [Eo [S [G [L W]]]]].
    destruct p.
    - destruct (len o =? 0) eqn:Z0; cbn [andb negb].
      + zb. destruct o; [exact V0|]. rewrite len_cons in Z0. pose proof (len_nonneg o). lia.
      + assert (NE : rs <> []) by (intros ->; simpl in Eo; subst o; discriminate).
        destruct (walk_last_space rs true NE W) as [rs' [-> Hrs']].
        rewrite utf8_app in Eo. change (utf8 [32]) with [32] in Eo. subst o. rewrite removelast_snoc.
        apply Forall_app in S. apply Forall_app in G. destruct S as [S _]. destruct G as [G _].
        exists rs'. split; [reflexivity|]. split; [exact S|]. split; [exact G|]. split.
        * rewrite len_app in L. unfold len at 2 in L. simpl in L. lia.
        * destruct Hrs' as [[_ F]|W']; [discriminate|right; exact W'].
    - cbn [andb]. exists rs. split; [exact Eo|]. split; [exact S|]. split; [exact G|]. split; [lia|right; exact W].
  Qed.

  (* ---- validStringValue decides validity *)
  Lemma valid_loop_sound : forall fuel s prev, bytes s -> valid_loop sp pr fuel s prev = true ->
    exists rs, s = utf8 rs /\ Forall scalar rs /\ Forall good rs /\ walk prev rs = Some false.
  Proof.
    induction fuel as [|f IH]; intros s prev B V; [discriminate|].
    destruct s as [|c t] eqn:Es.
    { simpl in V. destruct prev; [discriminate|]. exists []. repeat split; constructor. }
    cbn [valid_loop] in V. inversion B as [|? ? Bc Bt]; subst.
    destruct (byte_print c) eqn:BP.
    - destruct ((c =? 32) && prev) eqn:SP; [discriminate|].
      destruct (IH _ _ Bt V) as [rs [E [S [G W]]]].
      destruct (ascii_utf8 [c]) as [U [S1 G1]]; [constructor; auto|].
      inversion S1; subst. inversion G1; subst.
      exists (c :: rs). rewrite utf8_cons. change (utf8 [c]) with (encode_rune c ++ []) in U. rewrite app_nil_r in U.
      rewrite U. repeat split; auto. simpl. rewrite SP. exact W.
    - destruct (decode_rune (c :: t)) as [r nr] eqn:D.
      destruct ((r =? rune_error) && (nr <=? 1)) eqn:ER; [discriminate|].
      destruct (sp r) eqn:SPr; [discriminate|]. destruct (pr r) eqn:PRr; [|discriminate]. simpl in V.
      destruct (decode_inv _ _ _ B D) as [[A1 [A2 _]]|[Sr [rest [Ep [En _]]]]].
      { subst r. rewrite Z.eqb_refl in ER. simpl in ER. apply Z.leb_gt in ER. lia. }
      rewrite Ep in V. rewrite En in V. rewrite skipn_enc in V.
      assert (Br : bytes rest). { rewrite Ep in B. apply Forall_app in B. tauto. }
      destruct (IH _ _ Br V) as [rs [E [S [G W]]]].
      exists (r :: rs). rewrite utf8_cons, <- E. repeat split; auto.
      + constructor; auto. right. auto.
      + simpl. replace (r =? 32) with false; [exact W|]. symmetry. apply Z.eqb_neq. intros ->. congruence.
  Qed.

  Lemma valid_loop_complete : forall rs fuel prev,
    Forall scalar rs -> Forall good rs -> walk prev rs = Some false -> (length (utf8 rs) < fuel)%nat ->
    valid_loop sp pr fuel (utf8 rs) prev = true.
  Proof.
    induction rs as [|r t IH]; intros fuel prev S G W F.
    - simpl in W. inversion W; subst. destruct fuel; [inversion F|reflexivity].
    - destruct fuel as [|f]; [inversion F|].
      inversion S as [|? ? Sr St]; subst. inversion G as [|? ? Gr Gt]; subst.
      simpl in W. destruct ((r =? 32) && prev) eqn:SP; [discriminate|].
      rewrite utf8_cons in *. rewrite app_length in F.
      destruct (Z_lt_le_dec r 128) as [Lt|Ge].
      + assert (R0 : 0 <= r) by (unfold scalar in Sr; lia).
        rewrite enc1 in * by lia. cbn [app valid_loop]. simpl in F.
        assert (BP : byte_print r = true).
        { destruct Gr as [->|[P _]]; [reflexivity|]. rewrite H_ascii_print in P by lia. exact P. }
        rewrite BP, SP. apply IH; auto. lia.
      + destruct (enc_head r Sr Ge) as [b [tl [Eb Hb]]].
        pose proof (decode_encode r (utf8 t) Sr) as D.
        pose proof (enc_len r Sr) as EL.
        rewrite Eb in *. cbn [app valid_loop] in *.
        replace (byte_print b) with false
          by (symmetry; unfold byte_print; apply andb_false_intro2; apply Z.leb_gt; lia).
        rewrite D. rewrite <- Eb. rewrite (not_err_token r Sr).
        assert (N32 : r <> 32) by lia.
        destruct Gr as [->|[P Sp]]; [lia|]. rewrite Sp, P. cbn [negb].
        replace (b :: tl ++ utf8 t) with (encode_rune r ++ utf8 t) by (rewrite Eb; reflexivity).
        rewrite skipn_enc. apply IH; auto.
        * replace (r =? 32) with false in W by (symmetry; apply Z.eqb_neq; exact N32). exact W.
        * simpl in F. lia.
  Qed.

  Theorem valid_g_iff s : bytes s -> (valid_g sp pr s = true <-> valid_int s).
  Proof.
    intros B. unfold valid_g. split.
    - destruct (len s >? max_string_len) eqn:L; [discriminate|]. rewrite Z.gtb_ltb in L. zb.
      destruct s as [|c t] eqn:Es.
      { intros _. exists []. repeat split; auto; constructor. }
      rewrite <- Es in *. intros V. destruct (valid_loop_sound _ _ _ B V) as [rs [E [S [G W]]]].
      exists rs. repeat split; auto.
    - intros [rs [E [S [G [L W]]]]].
      replace (len s >? max_string_len) with false by (symmetry; rewrite Z.gtb_ltb; apply Z.ltb_ge; lia).
      destruct s as [|c t] eqn:Es; [reflexivity|]. rewrite <- Es in *.
      destruct W as [->|W]; [simpl in E; congruence|].
      rewrite E. apply valid_loop_complete; auto.
  Qed.

  (* ---- ForceValidStringValue (string version, with its ValidStringValue shortcut) *)
  Theorem force_str_eq_bytes s : bytes s -> force_str_g sp pr s = force_bytes_g sp pr s.
  Proof.
    intros B. unfold force_str_g. destruct (valid_g sp pr s) eqn:V; [|reflexivity].
    apply (valid_g_iff s B) in V. unfold force_bytes_g. rewrite (append_valid_id true s V). reflexivity.
  Qed.

  Theorem force_bytes_id s : valid_int s -> force_bytes_g sp pr s = s.
  Proof. intros V. unfold force_bytes_g. rewrite (append_valid_id true s V). reflexivity. Qed.

  Theorem force_bytes_idem s : bytes s -> force_bytes_g sp pr (force_bytes_g sp pr s) = force_bytes_g sp pr s.
  Proof. intros B. apply force_bytes_id. apply force_bytes_valid. exact B. Qed.

  Lemma valid_int_bytes s : valid_int s -> bytes s.
  Proof. intros [rs [-> [S _]]]. apply utf8_bytes. exact S. Qed.

  (* ---- strict mode *)
  Lemma slow_loop_strict_force fuel : forall src w prev r,
    slow_loop sp pr false fuel src w prev = Some r -> slow_loop sp pr true fuel src w prev = Some r.
  Proof.
    induction fuel as [|f IH]; intros src w prev r; simpl; [auto|].
    destruct src as [|c0 t]; [auto|].
    destruct (decode_rune (c0 :: t)) as [c nr].
    rewrite andb_true_r.
    destruct ((c =? rune_error) && (nr <=? 1)); simpl; [discriminate|].
    destruct (sp c && prev); [apply IH|].
    destruct (_ >? _); [auto|].
    destruct (slow_loop sp pr false f _ _ _) as [[o p]|] eqn:E; [|discriminate].
    rewrite (IH _ _ _ _ E). auto.
  Qed.

  Theorem strict_agrees_with_force s o :
    append_valid_g sp pr false s = Some o -> force_bytes_g sp pr s = o.
  Proof.
    unfold force_bytes_g, append_valid_g. destruct s as [|c t]; [congruence|].
    destruct (_ && _); [congruence|].
    destruct (slow_loop sp pr false _ _ _ _) as [[o' p]|] eqn:E; [|discriminate].
    rewrite (slow_loop_strict_force _ _ _ _ _ E). congruence.
  Qed.

  Lemma slow_strict_total : forall rs fuel w prev, Forall scalar rs -> (length (utf8 rs) < fuel)%nat ->
    slow_loop sp pr false fuel (utf8 rs) w prev <> None.
  Proof.
    clear H_ascii_print H_ascii_space H_space_32 H_fffd.
    induction rs as [|r t IH]; intros fuel w prev S F.
    - destruct fuel; simpl; discriminate.
    - destruct fuel as [|f]; [inversion F|]. inversion S as [|? ? Sr St]; subst.
      rewrite utf8_cons in *. rewrite app_length in F. pose proof (enc_len r Sr) as EL. unfold len in EL.
      assert (NE : encode_rune r ++ utf8 t <> []).
      { intro E. apply app_eq_nil in E. destruct E as [E _]. exact (enc_nonempty r E). }
      rewrite (slow_step false f _ w prev r (len (encode_rune r)) NE (decode_encode r _ Sr)).
      rewrite (not_err_token r Sr). cbn [andb]. rewrite skipn_enc.
      destruct (sp r && prev); [apply IH; auto; lia|]. cbv zeta.
      destruct (_ >? _); [discriminate|].
      destruct (slow_loop sp pr false f (utf8 t) _ _) as [[o p]|] eqn:E; [discriminate|].
      exfalso. revert E. apply IH; auto. lia.
  Qed.

  (* "strict normalization fails only on invalid UTF-8" *)
  Theorem strict_fails_only_on_bad_utf8 s : append_valid_g sp pr false s = None -> ~ is_utf8 s.
  Proof.
    clear H_ascii_print H_ascii_space H_space_32 H_fffd.
    intros E [rs [S ->]]. unfold append_valid_g in E. destruct (utf8 rs) as [|c t] eqn:U; [discriminate|].
    rewrite <- U in *. destruct (_ && _); [discriminate|].
    destruct (slow_loop sp pr false (Datatypes.S (length (utf8 rs))) (utf8 rs) 0 true) as [[o p]|] eqn:R; [discriminate|].
    revert R. apply slow_strict_total; auto.
  Qed.
End Generic.
