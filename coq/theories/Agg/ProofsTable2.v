(* C04, table level, part 2: the in-place reorganisation loops (rehash, resize) keep the set of stored hashes
   and the non-probing part of the table invariant. *)
From Coq Require Import ZArith List Bool Lia MSets.MSetPositive FSets.FMapPositive Permutation.
From SH Require Import Gen.AggConsts Agg.Model Agg.ProofsUnique Agg.ProofsTable.
Import ListNotations.
Open Scope Z_scope.

Lemma cell_neg_alias s i : i < 0 -> cell s i = cell s 0.
Proof.
  intros H. unfold cell, bget. replace (Z.to_pos (i + 1)) with 1%positive by (destruct (i + 1) eqn:E; simpl; auto; lia).
  reflexivity.
Qed.

(* same record fields except the buffer *)
Definition sf (s s' : tsk) : Prop :=
  t_nil s' = t_nil s /\ t_sd s' = t_sd s /\ t_skip s' = t_skip s /\ t_zero s' = t_zero s /\ t_cnt s' = t_cnt s.

(* the invariant without probing and without divisibility; delta = itemsCount - (occupied + zero flag) *)
Record wkc (s : tsk) (delta : Z) : Prop := {
  k_nonnil : t_nil s = false;
  k_sd : 1 <= t_sd s <= uniques_max_size_degree;
  k_range : forall i, tn s <= i -> cell s i = 0;
  k_vals : forall i, 0 <= i -> cell s i <> 0 -> 0 < cell s i < 2 ^ 32;
  k_nodup : forall i j, 0 <= i < tn s -> 0 <= j < tn s -> cell s i <> 0 -> cell s i = cell s j -> i = j;
  k_cnt : t_cnt s = occ s + b2z (t_zero s) + delta
}.

Lemma occ_ext s s' : t_sd s' = t_sd s -> (forall j, 0 <= j < tn s -> cell s' j = cell s j) -> occ s' = occ s.
Proof.
  intros Hs H. unfold occ. rewrite (tn_same s s' Hs). f_equal. f_equal. apply filter_ext_in.
  intros j Ij. apply zrange_in in Ij. unfold occf. rewrite (H j Ij). reflexivity.
Qed.

Lemma L_same s s' delta : sf s s' -> (forall j, 0 <= j -> cell s' j = cell s j) -> wkc s delta ->
  wkc s' delta /\ (forall y, holds s' y <-> holds s y).
Proof.
  intros (Fn & Fs & Fk & Fz & Fc) C K. pose proof (tn_same s s' Fs) as T. pose proof (k_sd s delta K).
  assert (Tp : 0 < tn s) by (apply tn_pos; lia).
  split.
  - constructor.
    + rewrite Fn. apply (k_nonnil s delta K).
    + rewrite Fs. apply (k_sd s delta K).
    + rewrite T. intros i Hi. rewrite C by lia. apply (k_range s delta K). exact Hi.
    + intros i Hi N. rewrite C in * by lia. apply (k_vals s delta K); auto.
    + rewrite T. intros i j Hi Hj N E. rewrite !C in * by lia. apply (k_nodup s delta K); auto.
    + rewrite Fc, Fz, (occ_ext s s' Fs) by (intros; apply C; lia). apply (k_cnt s delta K).
  - intros y. unfold holds. rewrite T. split; intros (i & Hi & Ci & Ny); exists i; rewrite C in * by lia; auto.
Qed.

Lemma L_clear s s' delta i : sf s s' -> 0 <= i < tn s -> cell s i <> 0 ->
  (forall j, 0 <= j -> cell s' j = if j =? i then 0 else cell s j) -> wkc s delta ->
  wkc s' (delta + 1) /\ (forall y, holds s' y <-> holds s y /\ y <> cell s i).
Proof.
  intros (Fn & Fs & Fk & Fz & Fc) Hi Ni C K. pose proof (tn_same s s' Fs) as T.
  assert (Ci : cell s' i = 0) by (rewrite C by lia; rewrite Z.eqb_refl; reflexivity).
  assert (Co : forall j, 0 <= j -> j <> i -> cell s' j = cell s j).
  { intros j Hj N. rewrite C by lia. destruct (j =? i) eqn:E; [apply Z.eqb_eq in E; congruence|reflexivity]. }
  split.
  - constructor.
    + rewrite Fn. apply (k_nonnil s delta K).
    + rewrite Fs. apply (k_sd s delta K).
    + rewrite T. intros j Hj. rewrite Co by lia. apply (k_range s delta K). exact Hj.
    + intros j Hj N. destruct (Z.eq_dec j i) as [->|Nj]; [congruence|]. rewrite Co in * by lia. apply (k_vals s delta K); auto.
    + rewrite T. intros a b Ha Hb N E.
      destruct (Z.eq_dec a i) as [->|Na]; [congruence|]. destruct (Z.eq_dec b i) as [->|Nb]; [rewrite Ci in E; congruence|].
      rewrite !Co in * by lia. apply (k_nodup s delta K); auto.
    + rewrite (occ_change s s' i Fs Hi) by (intros j Hj N; apply Co; lia).
      rewrite Ci. simpl. replace (cell s i =? 0) with false by (symmetry; apply Z.eqb_neq; exact Ni).
      rewrite Fc, Fz, (k_cnt s delta K). lia.
  - intros y. unfold holds. rewrite T. split.
    + intros (j & Hj & Cj & Ny). destruct (Z.eq_dec j i) as [->|Nj]; [congruence|]. rewrite Co in Cj by lia.
      split; [exists j; auto|]. intros E. apply Nj. apply (k_nodup s delta K); auto; congruence.
    + intros [(j & Hj & Cj & Ny) Ne]. exists j. split; auto. split; auto. rewrite Co; auto; try lia. intros ->. congruence.
Qed.

Lemma L_put s s' delta p x : sf s s' -> 0 <= p < tn s -> cell s p = 0 -> 0 < x < 2 ^ 32 -> ~ holds s x ->
  (forall j, 0 <= j -> cell s' j = if j =? p then x else cell s j) -> wkc s delta ->
  wkc s' (delta - 1) /\ (forall y, holds s' y <-> holds s y \/ y = x).
Proof.
  intros (Fn & Fs & Fk & Fz & Fc) Hp C0 Hx NH C K. pose proof (tn_same s s' Fs) as T.
  assert (Cp : cell s' p = x) by (rewrite C by lia; rewrite Z.eqb_refl; reflexivity).
  assert (Co : forall j, 0 <= j -> j <> p -> cell s' j = cell s j).
  { intros j Hj N. rewrite C by lia. destruct (j =? p) eqn:E; [apply Z.eqb_eq in E; congruence|reflexivity]. }
  split.
  - constructor.
    + rewrite Fn. apply (k_nonnil s delta K).
    + rewrite Fs. apply (k_sd s delta K).
    + rewrite T. intros j Hj. rewrite Co by lia. apply (k_range s delta K). exact Hj.
    + intros j Hj N. destruct (Z.eq_dec j p) as [->|Nj]; [rewrite Cp; exact Hx|]. rewrite Co in * by lia. apply (k_vals s delta K); auto.
    + rewrite T. intros a b Ha Hb N E.
      destruct (Z.eq_dec a p) as [->|Na], (Z.eq_dec b p) as [->|Nb]; auto.
      * rewrite Cp, Co in E by lia. exfalso. apply NH. exists b. repeat split; auto; lia.
      * rewrite Cp, Co in E by lia. rewrite Co in N by lia. exfalso. apply NH. exists a. repeat split; auto; lia.
      * rewrite !Co in * by lia. apply (k_nodup s delta K); auto.
    + rewrite (occ_change s s' p Fs Hp) by (intros j Hj N; apply Co; lia).
      rewrite Cp, C0. simpl. replace (x =? 0) with false by (symmetry; apply Z.eqb_neq; lia).
      rewrite Fc, Fz, (k_cnt s delta K). lia.
  - intros y. unfold holds. rewrite T. split.
    + intros (j & Hj & Cj & Ny). destruct (Z.eq_dec j p) as [->|Nj]; [right; congruence|]. rewrite Co in Cj by lia.
      left. exists j. auto.
    + intros [(j & Hj & Cj & Ny)| ->].
      * exists j. split; auto. split; auto. rewrite Co; auto; try lia. intros ->. congruence.
      * exists p. repeat split; auto; lia.
Qed.

Lemma L_cnt s delta c : wkc s delta -> wkc (t_with_cnt s c) (delta + c - t_cnt s).
Proof.
  intros K. constructor; try (destruct K; assumption).
  change (occ (t_with_cnt s c)) with (occ s). simpl. rewrite (k_cnt s delta K) at 1. pose proof (k_cnt s delta K). simpl. lia.
Qed.

(* reinsertImpl: the first empty cell on the probe path *)
Lemma reinsert_spec s x : 0 <= t_sd s <= uniques_max_size_degree + 1 ->
  (exists e, 0 <= e < tn s /\ cell s e = 0) ->
  exists k, 0 <= k < tn s /\ cell s (pos s x k) = 0 /\ (forall k', 0 <= k' < k -> cell s (pos s x k') <> 0) /\
            t_reinsert s x = set_cell s (pos s x k) x.
Proof.
  intros Hsd (e & He & Ce). assert (Hsd0 : 0 <= t_sd s) by lia. pose proof (tn_pos s Hsd0) as Hn.
  unfold t_reinsert.
  match goal with |- context [loop ?f _] => set (step := f) end.
  set (Inv := fun st : tsk * Z => fst st = s /\ exists k, 0 <= k /\ snd st = pos s x k /\
                 forall k', 0 <= k' < k -> cell s (pos s x k') <> 0).
  destruct (loop_rule step Inv (fun st => (e - snd st) mod tn s) (s, t_place s x)) as (st0 & I0 & Stop & Res).
  - split; [reflexivity|]. exists 0. split; [lia|]. split; [cbn [snd]; symmetry; apply pos_0; auto|]. intros; lia.
  - intros [s1 p] [E (k & Hk & Ep & Path)] C. cbn [fst snd] in E, Ep. subst s1 p.
    unfold step in *. cbn [fst snd] in *. fold (cell s (pos s x k)) in *.
    destruct (cell s (pos s x k) =? 0) eqn:E2; [discriminate|]. cbn [fst snd].
    apply Z.eqb_neq in E2. split.
    + split; [reflexivity|]. exists (k + 1). split; [lia|]. split; [apply t_next_pos; auto|].
      intros k' Hk'. destruct (Z.eq_dec k' k) as [->|]; [auto|apply Path; lia].
    + rewrite t_next_pos by auto. pose proof (pos_range s x k Hsd0) as Pr.
      assert (e <> pos s x k) by (intros C0; apply E2; rewrite <- C0; exact Ce).
      pose proof (cyc_dist_step (tn s) e (pos s x k) Hn He Pr H) as D.
      assert (Ep : pos s x (k + 1) = (pos s x k + 1) mod tn s).
      { unfold pos. rewrite Zplus_mod_idemp_l. f_equal. lia. }
      rewrite Ep. exact D.
  - cbn [snd]. pose proof (tn_small s Hsd). pose proof (Z.mod_pos_bound (e - t_place s x) (tn s) Hn). lia.
  - destruct st0 as [s1 p]. destruct I0 as [E (k & Hk & Ep & Path)]. cbn [fst snd] in E, Ep. subst s1 p.
    assert (Hkn : k < tn s).
    { destruct (pos_reach s x e Hsd0 He) as (ke & Hke & Eke).
      destruct (Z_lt_dec ke k); [|lia]. specialize (Path ke ltac:(lia)). rewrite Eke in Path. contradiction. }
    exists k. split; [lia|].
    rewrite Res. unfold step in *. cbn [fst snd] in *. fold (cell s (pos s x k)) in *.
    destruct (cell s (pos s x k) =? 0) eqn:E2; [|discriminate]. apply Z.eqb_eq in E2.
    split; [exact E2|]. split; [exact Path|]. reflexivity.
Qed.

(* ---------- relocation: remove the hash at cell i and reinsert it ---------- *)
Lemma sf_refl s : sf s s.
Proof. repeat split. Qed.
Lemma sf_trans a b c : sf a b -> sf b c -> sf a c.
Proof. intros (A1 & A2 & A3 & A4 & A5) (B1 & B2 & B3 & B4 & B5). repeat split; congruence. Qed.
Lemma sf_set_cell s p x : sf s (set_cell s p x).
Proof. repeat split. Qed.

Lemma cell_set_cell' s p x j : 0 <= p -> 0 <= j -> cell (set_cell s p x) j = if j =? p then x else cell s j.
Proof. intros. rewrite cell_set_cell by lia. rewrite Z.eqb_sym. reflexivity. Qed.

Lemma L_relocate c i : wkc c 0 -> 0 <= i < tn c -> cell c i <> 0 ->
  let x := cell c i in let r := t_reinsert (set_cell c i 0) x in
  wkc r 0 /\ sf c r /\ (forall y, holds r y <-> holds c y) /\
  exists k, 0 <= k < tn c /\ (forall k', 0 <= k' < k -> cell r (pos c x k') <> 0 /\ pos c x k' <> i) /\
    (forall j, 0 <= j -> cell r j = if j =? pos c x k then x else if j =? i then 0 else cell c j).
Proof.
  intros K Hi Ni x r. pose proof (k_sd c 0 K) as Hsd.
  set (c1 := set_cell c i 0).
  assert (C1 : forall j, 0 <= j -> cell c1 j = if j =? i then 0 else cell c j) by (intros; apply cell_set_cell'; lia).
  destruct (L_clear c c1 0 i (sf_set_cell _ _ _) Hi Ni C1 K) as [K1 H1].
  assert (T1 : tn c1 = tn c) by reflexivity.
  assert (E1 : exists e, 0 <= e < tn c1 /\ cell c1 e = 0).
  { exists i. split; [rewrite T1; exact Hi|]. rewrite C1 by lia. rewrite Z.eqb_refl. reflexivity. }
  destruct (reinsert_spec c1 x ltac:(change (t_sd c1) with (t_sd c); lia) E1) as (k & Hk & C0 & Path & Er).
  assert (Ps : forall k', pos c1 x k' = pos c x k') by (intros; apply pos_same; reflexivity).
  rewrite Ps in C0, Er. rewrite T1 in Hk.
  assert (Hp : 0 <= pos c x k < tn c) by (apply pos_range; lia).
  assert (Hx : 0 < x < 2 ^ 32) by (apply (k_vals c 0 K); [lia|exact Ni]).
  assert (NH : ~ holds c1 x) by (intros H; apply H1 in H; destruct H as [_ H]; apply H; reflexivity).
  assert (Cr : forall j, 0 <= j -> cell r j = if j =? pos c x k then x else cell c1 j).
  { intros j Hj. unfold r. fold c1. rewrite Er. apply cell_set_cell'; lia. }
  assert (Sr : sf c1 r) by (unfold r; fold c1; rewrite Er; apply sf_set_cell).
  destruct (L_put c1 r 1 (pos c x k) x Sr ltac:(rewrite T1; exact Hp) C0 Hx NH Cr K1) as [Kr Hr].
  split; [exact Kr|]. split; [eapply sf_trans; [apply sf_set_cell|exact Sr]|]. split.
  - intros y. rewrite Hr, H1. split.
    + intros [[H _]| ->]; [exact H|]. exists i. split; [exact Hi|]. split; [reflexivity|exact Ni].
    + intros H. destruct (Z.eq_dec y x) as [->|N]; [right; reflexivity|left; split; auto].
  - exists k. split; [exact Hk|]. split.
    + intros k' Hk'. specialize (Path k' Hk'). rewrite Ps in Path.
      assert (Hp' : 0 <= pos c x k' < tn c) by (apply pos_range; lia).
      assert (Ni' : pos c x k' <> i).
      { intros E. rewrite E, C1 in Path by lia. rewrite Z.eqb_refl in Path. congruence. }
      split; [|exact Ni']. rewrite Cr by lia. destruct (pos c x k' =? pos c x k); [lia|exact Path].
    + intros j Hj. rewrite Cr by lia. rewrite C1 by lia. reflexivity.
Qed.

(* ---------- rehash ---------- *)
Definition all_good (c : tsk) (d i : Z) : Prop := forall j, 0 <= j < i -> cell c j <> 0 -> good d (cell c j) = true.

Lemma rehash1_weak s0 d : wkc s0 0 -> t_skip s0 = d ->
  let r := t_rehash1 s0 in
  wkc r 0 /\ t_nil r = t_nil s0 /\ t_sd r = t_sd s0 /\ t_skip r = d /\ t_zero r = t_zero s0 /\
  (forall y, holds r y <-> holds s0 y /\ good d y = true) /\ all_good r d (tn s0).
Proof.
  intros K0 Hd r. pose proof (k_sd s0 0 K0) as Hsd. assert (Hsd0 : 0 <= t_sd s0) by lia.
  pose proof (tn_pos s0 Hsd0) as Hn.
  unfold r, t_rehash1.
  match goal with |- context [loop ?f _] => set (step := f) end.
  set (Inv := fun st : tsk * Z => let c := fst st in let i := snd st in
     wkc c 0 /\ t_nil c = t_nil s0 /\ t_sd c = t_sd s0 /\ t_skip c = d /\ t_zero c = t_zero s0 /\
     0 <= i <= tn s0 /\ (forall y, holds c y -> holds s0 y) /\
     (forall y, holds s0 y -> good d y = true -> holds c y) /\ all_good c d i).
  destruct (loop_rule step Inv (fun st => tn s0 - snd st) (s0, 0)) as (st0 & I0 & Stop & Res).
  - unfold Inv. cbn [fst snd]. split; [exact K0|]. split; [reflexivity|]. split; [reflexivity|]. split; [exact Hd|].
    split; [reflexivity|]. split; [lia|]. split; [auto|]. split; [auto|]. intros j Hj; lia.
  - intros [c i] I C. unfold Inv in I. cbn [fst snd] in I.
    destruct I as (K & Fn & Fs & Fk & Fz & Hi & H1 & H2 & G).
    assert (T : tn c = tn s0) by (apply tn_same; exact Fs).
    unfold step in C |- *. cbn [fst snd] in C |- *. rewrite t_size_tn in * by lia. rewrite T in *.
    destruct (tn s0 <=? i) eqn:E; [discriminate|]. apply Z.leb_gt in E. fold (cell c i) in *.
    destruct (cell c i =? 0) eqn:E0.
    { apply Z.eqb_eq in E0. cbn [fst snd]. split; [|lia]. unfold Inv. cbn [fst snd].
      split; [exact K|]. split; [exact Fn|]. split; [exact Fs|]. split; [exact Fk|]. split; [exact Fz|].
      split; [lia|]. split; [exact H1|]. split; [exact H2|].
      intros j Hj. destruct (Z.eq_dec j i) as [->|]; [congruence|apply G; lia]. }
    apply Z.eqb_neq in E0. rewrite Fk.
    destruct (good d (cell c i)) eqn:Gd; cbn [negb].
    + destruct (i =? t_place c (cell c i)) eqn:Ep; cbn [negb fst snd].
      * split; [|lia]. unfold Inv. cbn [fst snd].
        split; [exact K|]. split; [exact Fn|]. split; [exact Fs|]. split; [exact Fk|]. split; [exact Fz|].
        split; [lia|]. split; [exact H1|]. split; [exact H2|].
        intros j Hj. destruct (Z.eq_dec j i) as [->|]; [intros _; exact Gd|apply G; lia].
      * destruct (L_relocate c i K ltac:(lia) E0) as (Kr & (S1 & S2 & S3 & S4 & S5) & Hr & (k & Hk & _ & Cr)).
        unfold set_cell in S1, S2, S3, S4, S5, Kr, Hr, Cr.
        split; [|lia]. unfold Inv. cbn [fst snd].
        split; [exact Kr|]. split; [congruence|]. split; [congruence|]. split; [congruence|]. split; [congruence|].
        split; [lia|]. split; [intros y H; apply H1; apply Hr; exact H|].
        split; [intros y H Gy; apply Hr; apply H2; auto|].
        intros j Hj. rewrite Cr by lia. destruct (j =? pos c (cell c i) k); [intros _; exact Gd|].
        destruct (j =? i) eqn:Ej; [congruence|]. apply Z.eqb_neq in Ej. apply G. lia.
    + cbn [fst snd]. split; [|lia].
      set (c1 := set_cell c i 0).
      assert (C1 : forall j, 0 <= j -> cell c1 j = if j =? i then 0 else cell c j) by (intros; apply cell_set_cell'; lia).
      destruct (L_clear c c1 0 i (sf_set_cell _ _ _) ltac:(lia) E0 C1 K) as [K1 Hh].
      pose proof (L_cnt c1 1 (t_cnt c - 1) K1) as K2. replace (1 + (t_cnt c - 1) - t_cnt c1) with 0 in K2 by (change (t_cnt c1) with (t_cnt c); lia).
      change (t_with_cnt (t_with_buf c (bset (t_buf c) i 0)) (t_cnt c - 1)) with (t_with_cnt c1 (t_cnt c - 1)).
      assert (Hh2 : forall y, holds (t_with_cnt c1 (t_cnt c - 1)) y <-> holds c1 y).
      { intros y. apply (same_cells c1 (t_with_cnt c1 (t_cnt c - 1)) eq_refl eq_refl). }
      unfold Inv. cbn [fst snd].
      split; [exact K2|]. split; [exact Fn|]. split; [exact Fs|]. split; [exact Fk|]. split; [exact Fz|].
      split; [lia|]. split; [intros y H; apply H1; apply Hh2 in H; apply Hh in H; tauto|].
      split.
      * intros y H Gy. apply Hh2. apply Hh. split; [apply H2; auto|]. intros ->. congruence.
      * intros j Hj. change (cell (t_with_cnt c1 (t_cnt c - 1)) j) with (cell c1 j). rewrite C1 by lia.
        destruct (j =? i) eqn:Ej; [congruence|]. apply Z.eqb_neq in Ej. apply G. lia.
  - cbn [snd]. pose proof (tn_small s0 ltac:(lia)). lia.
  - rewrite Res. destruct st0 as [c i]. unfold Inv in I0. cbn [fst snd] in I0.
    destruct I0 as (K & Fn & Fs & Fk & Fz & Hi & H1 & H2 & G).
    assert (T : tn c = tn s0) by (apply tn_same; exact Fs).
    unfold step in Stop |- *. cbn [fst snd] in Stop |- *. rewrite t_size_tn in * by lia. rewrite T in *.
    destruct (tn s0 <=? i) eqn:E.
    + apply Z.leb_le in E. cbn [fst]. assert (i = tn s0) by lia. subst i.
      split; [exact K|]. split; [exact Fn|]. split; [exact Fs|]. split; [exact Fk|]. split; [exact Fz|].
      split; [|exact G]. intros y. split.
      * intros H. split; [apply H1; exact H|]. destruct H as (j & Hj & Cj & Ny). rewrite <- Cj. apply G; [lia|congruence].
      * intros [H Gy]. apply H2; auto.
    + exfalso. fold (cell c i) in Stop. destruct (cell c i =? 0); [discriminate|].
      destruct (negb (good (t_skip c) (cell c i))); [discriminate|].
      destruct (negb (i =? t_place c (cell c i))); discriminate.
Qed.

Lemma rehash2_weak s0 d : wkc s0 0 -> all_good s0 d (tn s0) ->
  let r := t_rehash2 s0 in
  wkc r 0 /\ sf s0 r /\ (forall y, holds r y <-> holds s0 y) /\ all_good r d (tn s0).
Proof.
  intros K0 G0 r. pose proof (k_sd s0 0 K0) as Hsd. assert (Hsd0 : 0 <= t_sd s0) by lia.
  pose proof (tn_pos s0 Hsd0) as Hn.
  unfold r, t_rehash2.
  match goal with |- context [loop ?f _] => set (step := f) end.
  set (Inv := fun st : tsk * Z => let c := fst st in let i := snd st in
     wkc c 0 /\ sf s0 c /\ 0 <= i <= tn s0 /\ (forall y, holds c y <-> holds s0 y) /\ all_good c d (tn s0)).
  assert (StepInv : forall c i, Inv (c, i) -> i < tn s0 -> cell c i <> 0 ->
            Inv (fst (fst (step (c, i))), i + 1) /\ snd (fst (step (c, i))) = i + 1 /\ snd (step (c, i)) = true).
  { intros c i (K & F & Hi & Hh & G) Li Ni. cbn [fst snd] in *. pose proof F as (Fn & Fs & Fk & Fz & Fc).
    assert (T : tn c = tn s0) by (apply tn_same; exact Fs).
    unfold step. cbn [fst snd]. rewrite t_size_tn by lia. rewrite T.
    replace (tn s0 <=? i) with false by (symmetry; apply Z.leb_gt; lia). fold (cell c i).
    replace (cell c i =? 0) with false by (symmetry; apply Z.eqb_neq; exact Ni).
    destruct (i =? t_place c (cell c i)); cbn [negb fst snd].
    - split; [|split; reflexivity]. unfold Inv. cbn [fst snd]. split; [exact K|]. split; [exact F|]. split; [lia|]. split; [exact Hh|exact G].
    - destruct (L_relocate c i K ltac:(lia) Ni) as (Kr & Sr & Hr & (k & Hk & _ & Cr)).
      unfold set_cell in Kr, Sr, Hr, Cr.
      split; [|split; reflexivity]. unfold Inv. cbn [fst snd].
      split; [exact Kr|]. split; [eapply sf_trans; eauto|]. split; [lia|].
      split; [intros y; rewrite Hr; apply Hh|].
      intros j Hj. rewrite Cr by lia. destruct (j =? pos c (cell c i) k); [intros _; apply G; [lia|exact Ni]|].
      destruct (j =? i); [congruence|]. apply G. exact Hj. }
  destruct (loop_rule step Inv (fun st => tn s0 - snd st) (s0, 0)) as (st0 & I0 & Stop & Res).
  - unfold Inv. cbn [fst snd]. split; [exact K0|]. split; [apply sf_refl|]. split; [lia|]. split; [tauto|exact G0].
  - intros [c i] I C. pose proof I as (K & F & Hi & Hh & G). cbn [fst snd] in K, F, Hi, Hh, G.
    pose proof F as (Fn & Fs & Fk & Fz & Fc). assert (T : tn c = tn s0) by (apply tn_same; exact Fs).
    assert (Li : i < tn s0).
    { destruct (Z_lt_dec i (tn s0)); auto. exfalso. unfold step in C. cbn [fst snd] in C. rewrite t_size_tn, T in C by lia.
      replace (tn s0 <=? i) with true in C by (symmetry; apply Z.leb_le; lia). discriminate. }
    assert (Ni : cell c i <> 0).
    { intros E. unfold step in C. cbn [fst snd] in C. rewrite t_size_tn, T in C by lia.
      replace (tn s0 <=? i) with false in C by (symmetry; apply Z.leb_gt; lia). fold (cell c i) in C. rewrite E in C.
      discriminate. }
    destruct (StepInv c i I Li Ni) as (I' & Ei & _).
    destruct (step (c, i)) as [[c' i'] b] eqn:Es. cbn [fst snd] in *. subst i'. split; [exact I'|lia].
  - cbn [snd]. pose proof (tn_small s0 ltac:(lia)). lia.
  - rewrite Res. destruct st0 as [c i]. pose proof I0 as (K & F & Hi & Hh & G). cbn [fst snd] in K, F, Hi, Hh, G.
    pose proof F as (Fn & Fs & Fk & Fz & Fc). assert (T : tn c = tn s0) by (apply tn_same; exact Fs).
    assert (E : fst (fst (step (c, i))) = c).
    { unfold step in Stop |- *. cbn [fst snd] in Stop |- *. rewrite t_size_tn, T in * by lia.
      destruct (tn s0 <=? i); [reflexivity|]. fold (cell c i) in *. destruct (cell c i =? 0); [reflexivity|].
      destruct (negb (i =? t_place c (cell c i))); discriminate. }
    rewrite E. split; [exact K|]. split; [exact F|]. split; [exact Hh|exact G].
Qed.

(* rehash as a whole, without the probing invariant *)
Lemma winv_wkc s : winv s -> wkc s 0.
Proof.
  intros W. constructor; try (destruct W; assumption).
  - intros i _ N. apply (w_vals s W i N).
  - rewrite (w_cnt s W). lia.
Qed.

Lemma wkc_with_skip s d delta : wkc s delta -> wkc (t_with_skip s d) delta.
Proof. intros K. destruct K. constructor; assumption. Qed.

Lemma rehash_weak s d : winv s -> t_skip s <= d ->
  let s' := t_rehash (t_with_skip s d) in
  winv s' /\ t_sd s' = t_sd s /\ t_skip s' = d /\ t_zero s' = t_zero s /\
  (forall y, holds s' y <-> holds s y /\ good d y = true).
Proof.
  intros W Hd. cbv zeta. set (s0 := t_with_skip s d).
  assert (K0 : wkc s0 0) by (apply wkc_with_skip; apply winv_wkc; exact W).
  destruct (rehash1_weak s0 d K0 eq_refl) as (K1 & Fn & Fs & Fk & Fz & H1 & G1).
  set (r1 := t_rehash1 s0) in *.
  assert (T1 : tn r1 = tn s0) by (apply tn_same; exact Fs).
  assert (G1' : all_good r1 d (tn r1)) by (rewrite T1; exact G1).
  destruct (rehash2_weak r1 d K1 G1') as (K2 & (Gn & Gs & Gk & Gz & Gc) & H2 & G2).
  change (t_rehash s0) with (t_rehash2 r1).
  set (s' := t_rehash2 r1) in *.
  assert (Hh0 : forall y, holds s0 y <-> holds s y) by (intros y; apply (same_cells s s0 eq_refl eq_refl)).
  assert (Esd : t_sd s0 = t_sd s) by reflexivity. assert (Ezr : t_zero s0 = t_zero s) by reflexivity.
  split; [|split; [congruence|split; [congruence|split; [congruence|]]]].
  - constructor.
    + apply (k_nonnil s' 0 K2).
    + apply (k_sd s' 0 K2).
    + rewrite Gk, Fk. pose proof (w_skip s W). lia.
    + apply (k_range s' 0 K2).
    + assert (V : forall i, 0 <= i -> cell s' i <> 0 -> 0 < cell s' i < 2 ^ 32 /\ good (t_skip s') (cell s' i) = true).
      { intros i Hi N. split; [apply (k_vals s' 0 K2); auto|]. rewrite Gk, Fk.
        destruct (Z_lt_dec i (tn r1)); [apply G2; [lia|exact N]|].
        assert (tn s' = tn r1) by (apply tn_same; exact Gs).
        rewrite (k_range s' 0 K2) in N by lia. congruence. }
      intros i N. destruct (Z_lt_dec i 0); [|apply V; [lia|exact N]].
      rewrite (cell_neg_alias s' i) in * by lia. apply V; [lia|exact N].
    + apply (k_nodup s' 0 K2).
    + rewrite (k_cnt s' 0 K2). lia.
  - intros y. rewrite H2, H1, Hh0. reflexivity.
Qed.

(* what remains of rehash_ok: rehash re-establishes the probing invariant *)
Definition rehash_probing : Prop :=
  forall s d, winv s -> probing s -> t_skip s <= d -> probing (t_rehash (t_with_skip s d)).

Lemma rehash_ok_of_probing : rehash_probing -> rehash_ok.
Proof.
  intros Hp s d W P Hd. cbv zeta. destruct (rehash_weak s d W Hd) as (W' & Sd & Sk & Zr & Hh).
  split; [exact W'|]. split; [apply Hp; auto|]. split; [exact Sd|]. split; [exact Sk|]. split; [exact Zr|exact Hh].
Qed.

Theorem table_merge_tree_perm_2 : rehash_probing -> resize_ok -> forall t1 t2,
  Forall tinv (leaves t1) -> Permutation (leaves t1) (leaves t2) ->
  t_skip (t_eval t1) = t_skip (t_eval t2) /\ t_cnt (t_eval t1) = t_cnt (t_eval t2) /\
  t_zero (t_eval t1) = t_zero (t_eval t2) /\ (forall y, holds (t_eval t1) y <-> holds (t_eval t2) y) /\
  t_size_as_is (t_eval t1) = t_size_as_is (t_eval t2) /\ tinv (t_eval t1) /\ tinv (t_eval t2).
Proof. intros Hp Hz. apply table_merge_tree_perm; [apply rehash_ok_of_probing; exact Hp|exact Hz]. Qed.
