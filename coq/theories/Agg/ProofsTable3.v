(* C04, table level, part 3: resize keeps the set of stored hashes and the non-probing part of the invariant. *)
From Coq Require Import ZArith List Bool Lia MSets.MSetPositive FSets.FMapPositive Permutation.
From SH Require Import Gen.AggConsts Agg.Model Agg.ProofsUnique Agg.ProofsTable Agg.ProofsTable2.
Import ListNotations.
Open Scope Z_scope.

Definition grow (s : tsk) : tsk :=
  {| t_nil := t_nil s; t_buf := t_buf s; t_cnt := t_cnt s; t_sd := t_sd s + 1; t_skip := t_skip s; t_zero := t_zero s |}.

Lemma tn_grow s : 0 <= t_sd s -> tn (grow s) = 2 * tn s.
Proof. intros H. unfold tn, grow. cbn [t_sd]. rewrite Z.pow_add_r by lia. lia. Qed.

Lemma occ_grow s : 0 <= t_sd s -> (forall i, tn s <= i -> cell s i = 0) -> occ (grow s) = occ s.
Proof.
  intros Hsd R. pose proof (tn_grow s Hsd) as T. pose proof (tn_pos s Hsd) as Hn.
  unfold occ. f_equal. apply Permutation_length. apply NoDup_Permutation.
  - apply NoDup_filter. apply zrange_nodup.
  - apply NoDup_filter. apply zrange_nodup.
  - intros i. rewrite !filter_In, !zrange_in. unfold occf. change (cell (grow s) i) with (cell s i). rewrite T.
    split; intros [H1 H2]; split; auto; try lia.
    destruct (Z_lt_dec i (tn s)); [lia|]. rewrite R in H2 by lia. discriminate.
Qed.

Lemma wkc_grow s : winv s -> t_sd s + 1 <= uniques_max_size_degree -> wkc (grow s) 0 /\ (forall y, holds (grow s) y <-> holds s y).
Proof.
  intros W Hs. pose proof (w_sd s W) as Hsd. pose proof (tn_grow s ltac:(lia)) as T. pose proof (tn_pos s ltac:(lia)) as Hn.
  split.
  - constructor.
    + apply (w_nonnil s W).
    + cbn [t_sd grow]. lia.
    + rewrite T. intros i Hi. change (cell (grow s) i) with (cell s i). apply (w_range s W). lia.
    + intros i _ N. change (cell (grow s) i) with (cell s i) in *. apply (w_vals s W i N).
    + rewrite T. intros i j Hi Hj N E. change (cell (grow s) i) with (cell s i) in *. change (cell (grow s) j) with (cell s j) in *.
      assert (i < tn s) by (destruct (Z_lt_dec i (tn s)); auto; rewrite (w_range s W) in N by lia; congruence).
      assert (j < tn s) by (destruct (Z_lt_dec j (tn s)); auto; rewrite (w_range s W j) in E by lia; congruence).
      apply (w_nodup s W); auto; lia.
    + rewrite occ_grow by (try lia; apply (w_range s W)). cbn [t_cnt t_zero grow]. rewrite (w_cnt s W). lia.
  - intros y. unfold holds. rewrite T. change (cell (grow s)) with (cell s). split; intros (i & Hi & Ci & Ny); exists i; split; auto; try lia.
    destruct (Z_lt_dec i (tn s)); [lia|]. rewrite (w_range s W) in Ci by lia. congruence.
Qed.

(* the inner probe of resize: first cell on the path that is empty or already holds x *)
Lemma resize_find_spec c x : 0 <= t_sd c <= uniques_max_size_degree + 1 ->
  (exists e, 0 <= e < tn c /\ cell c e = 0) ->
  exists k, 0 <= k < tn c /\ t_resize_find c (t_place c x) x = pos c x k /\
    (cell c (pos c x k) = 0 \/ cell c (pos c x k) = x).
Proof.
  intros Hsd (e & He & Ce). assert (Hsd0 : 0 <= t_sd c) by lia. pose proof (tn_pos c Hsd0) as Hn.
  unfold t_resize_find.
  match goal with |- context [loop ?f _] => set (step := f) end.
  set (Inv := fun p : Z => exists k, 0 <= k /\ p = pos c x k /\ forall k', 0 <= k' < k -> cell c (pos c x k') <> 0).
  destruct (loop_rule step Inv (fun p => (e - p) mod tn c) (t_place c x)) as (p0 & I0 & Stop & Res).
  - exists 0. split; [lia|]. split; [symmetry; apply pos_0; auto|]. intros; lia.
  - intros p (k & Hk & Ep & Path) C. subst p. unfold step in C |- *. fold (cell c (pos c x k)) in *.
    destruct ((cell c (pos c x k) =? 0) || (cell c (pos c x k) =? x)) eqn:E; [discriminate|]. cbn [fst snd].
    apply orb_false_iff in E. destruct E as [E2 _]. apply Z.eqb_neq in E2. split.
    + exists (k + 1). split; [lia|]. split; [apply t_next_pos; auto|].
      intros k' Hk'. destruct (Z.eq_dec k' k) as [->|]; [auto|apply Path; lia].
    + rewrite t_next_pos by auto. pose proof (pos_range c x k Hsd0) as Pr.
      assert (e <> pos c x k) by (intros C0; apply E2; rewrite <- C0; exact Ce).
      pose proof (cyc_dist_step (tn c) e (pos c x k) Hn He Pr H) as D.
      assert (Ep : pos c x (k + 1) = (pos c x k + 1) mod tn c).
      { unfold pos. rewrite Zplus_mod_idemp_l. f_equal. lia. }
      rewrite Ep. exact D.
  - pose proof (tn_small c Hsd). pose proof (Z.mod_pos_bound (e - t_place c x) (tn c) Hn). lia.
  - destruct I0 as (k & Hk & Ep & Path). subst p0.
    assert (Hkn : k < tn c).
    { destruct (pos_reach c x e Hsd0 He) as (ke & Hke & Eke).
      destruct (Z_lt_dec ke k); [|lia]. specialize (Path ke ltac:(lia)). rewrite Eke in Path. contradiction. }
    exists k. split; [lia|].
    rewrite Res. unfold step in Stop |- *. fold (cell c (pos c x k)) in *.
    destruct ((cell c (pos c x k) =? 0) || (cell c (pos c x k) =? x)) eqn:E; [|discriminate]. cbn [fst].
    split; [reflexivity|]. apply orb_true_iff in E. destruct E as [E|E]; apply Z.eqb_eq in E; auto.
Qed.

Lemma filter_len_le {A} (f : A -> bool) l : (length (filter f l) <= length l)%nat.
Proof. induction l; simpl; [lia|]. destruct (f a); simpl; lia. Qed.

Lemma resize_weak s : winv s -> t_sd s + 1 <= uniques_max_size_degree ->
  let s' := t_resize s (t_sd s + 1) in
  winv s' /\ t_sd s' = t_sd s + 1 /\ t_skip s' = t_skip s /\ t_zero s' = t_zero s /\ t_cnt s' = t_cnt s /\
  (forall y, holds s' y <-> holds s y).
Proof.
  intros W Hs. cbv zeta. pose proof (w_sd s W) as Hsd. assert (Hsd0 : 0 <= t_sd s) by lia.
  destruct (wkc_grow s W Hs) as [K0 H0]. pose proof (tn_grow s Hsd0) as T0. pose proof (tn_pos s Hsd0) as Hn.
  unfold t_resize. fold (grow s). rewrite t_size_tn by lia.
  match goal with |- context [loop ?f _] => set (step := f) end.
  set (g := grow s).
  set (Inv := fun st : tsk * Z => let c := fst st in let i := snd st in
     wkc c 0 /\ sf g c /\ 0 <= i <= tn g /\ (forall y, holds c y <-> holds s y) /\
     (forall j, cell c j <> 0 -> good (t_skip s) (cell c j) = true)).
  destruct (loop_rule step Inv (fun st => tn g + 1 - snd st) (g, 0)) as (st0 & I0 & Stop & Res).
  - unfold Inv. cbn [fst snd]. split; [exact K0|]. split; [apply sf_refl|]. split; [unfold g; lia|]. split; [exact H0|].
    intros j N. change (cell g j) with (cell s j) in *. apply (w_vals s W j N).
  - intros [c i] I C. pose proof I as (K & F & Hi & Hh & Gd). cbn [fst snd] in K, F, Hi, Hh, Gd.
    pose proof F as (Fn & Fs & Fk & Fz & Fc). assert (T : tn c = tn g) by (apply tn_same; exact Fs).
    assert (Hsc : 0 <= t_sd c <= uniques_max_size_degree + 1) by (rewrite Fs; unfold g; cbn [t_sd grow]; lia).
    unfold step in C |- *. cbn [fst snd] in C |- *. fold (cell c i) in *.
    assert (Li : i < tn g).
    { destruct (Z_lt_dec i (tn g)); auto. exfalso. rewrite (k_range c 0 K) in C by lia.
      replace (i <? tn s) with false in C by (symmetry; apply Z.ltb_ge; unfold g in *; lia). cbn in C. discriminate. }
    destruct (negb ((i <? tn s) || negb (cell c i =? 0))) eqn:E0; [discriminate|].
    destruct (cell c i =? 0) eqn:Ez.
    { cbn [fst snd]. split; [|lia]. unfold Inv. cbn [fst snd]. split; [exact K|]. split; [exact F|]. split; [lia|]. split; [exact Hh|exact Gd]. }
    apply Z.eqb_neq in Ez.
    destruct (t_place c (cell c i) =? i) eqn:Ep.
    { cbn [fst snd]. split; [|lia]. unfold Inv. cbn [fst snd]. split; [exact K|]. split; [exact F|]. split; [lia|]. split; [exact Hh|exact Gd]. }
    assert (Ee : exists e, 0 <= e < tn c /\ cell c e = 0).
    { apply empty_cell; [lia|]. rewrite T. pose proof (k_cnt c 0 K) as Kc. rewrite Fc, Fz in Kc.
      pose proof (k_cnt g 0 K0) as Kg. assert (occ c = occ g) by lia.
      assert (occ g <= tn s).
      { unfold g. rewrite occ_grow by (auto; apply (w_range s W)). unfold occ.
        pose proof (filter_len_le (occf s) (zrange (tn s))). pose proof (zrange_length (tn s) ltac:(lia)). lia. }
      unfold g in *. lia. }
    destruct (resize_find_spec c (cell c i) Hsc Ee) as (k & Hk & Ef & Cf).
    rewrite Ef. set (p := pos c (cell c i) k) in *.
    assert (Hp : 0 <= p < tn c) by (apply pos_range; lia).
    fold (cell c p). destruct (cell c p =? cell c i) eqn:Ex.
    { cbn [fst snd]. split; [|lia]. unfold Inv. cbn [fst snd]. split; [exact K|]. split; [exact F|]. split; [lia|]. split; [exact Hh|exact Gd]. }
    apply Z.eqb_neq in Ex. destruct Cf as [Cf|Cf]; [|congruence].
    cbn [fst snd]. split; [|lia].
    assert (Npi : p <> i) by (intros E; rewrite E in Cf; congruence).
    set (mid := set_cell c i 0).
    set (r := t_with_buf c (bset (bset (t_buf c) p (cell c i)) i 0)).
    assert (Cm : forall j, 0 <= j -> cell mid j = if j =? i then 0 else cell c j) by (intros; apply cell_set_cell'; lia).
    assert (Cr : forall j, 0 <= j -> cell r j = if j =? p then cell c i else cell mid j).
    { intros j Hj. unfold r, cell. cbn [t_buf t_with_buf]. rewrite bget_bset by lia.
      fold (cell mid j). rewrite Cm by lia. rewrite (Z.eqb_sym i j).
      destruct (j =? i) eqn:Ej.
      - apply Z.eqb_eq in Ej. subst j. replace (i =? p) with false by (symmetry; apply Z.eqb_neq; lia). reflexivity.
      - rewrite bget_bset by lia. rewrite (Z.eqb_sym p j). reflexivity. }
    destruct (L_clear c mid 0 i (sf_set_cell _ _ _) ltac:(rewrite T; lia) Ez Cm K) as [Km Hm].
    assert (Hx : 0 < cell c i < 2 ^ 32) by (apply (k_vals c 0 K); [lia|exact Ez]).
    assert (NH : ~ holds mid (cell c i)) by (intros H; apply Hm in H; destruct H as [_ H]; apply H; reflexivity).
    assert (Cmp : cell mid p = 0) by (rewrite Cm by lia; replace (p =? i) with false by (symmetry; apply Z.eqb_neq; lia); exact Cf).
    assert (Sr : sf mid r) by (repeat split).
    destruct (L_put mid r 1 p (cell c i) Sr Hp Cmp Hx NH Cr Km) as [Kr Hr].
    unfold Inv. cbn [fst snd]. split; [exact Kr|]. split; [eapply sf_trans; [exact F|]; repeat split|]. split; [lia|]. split.
    + intros y. rewrite Hr, Hm, <- Hh. split.
      * intros [[H _]| ->]; [exact H|]. exists i. split; [rewrite T; lia|]. split; [reflexivity|exact Ez].
      * intros H. destruct (Z.eq_dec y (cell c i)) as [->|N]; [right; reflexivity|left; split; auto].
    + intros j N. destruct (Z_lt_dec j 0) as [Neg|Nn].
      * rewrite (cell_neg_alias r j) in * by lia. rewrite Cr in * by lia. destruct (0 =? p); [apply Gd; exact Ez|].
        rewrite Cm in * by lia. destruct (0 =? i); [congruence|apply Gd; exact N].
      * rewrite Cr in * by lia. destruct (j =? p); [apply Gd; exact Ez|].
        rewrite Cm in * by lia. destruct (j =? i); [congruence|apply Gd; exact N].
  - cbn [snd]. assert (tn g <= 2 ^ uniques_max_size_degree) by (unfold tn, g; cbn [t_sd grow]; apply Z.pow_le_mono_r; lia).
    assert (2 ^ uniques_max_size_degree < 1048575) by (vm_compute; reflexivity). lia.
  - rewrite Res. destruct st0 as [c i]. pose proof I0 as (K & F & Hi & Hh & Gd). cbn [fst snd] in K, F, Hi, Hh, Gd.
    pose proof F as (Fn & Fs & Fk & Fz & Fc).
    assert (E : fst (fst (step (c, i))) = c).
    { unfold step in Stop |- *. cbn [fst snd] in Stop |- *. fold (cell c i) in *.
      destruct (negb ((i <? tn s) || negb (cell c i =? 0))); [reflexivity|].
      destruct (cell c i =? 0); [discriminate|]. destruct (t_place c (cell c i) =? i); [discriminate|].
      destruct (bget (t_buf c) (t_resize_find c (t_place c (cell c i)) (cell c i)) =? cell c i); discriminate. }
    rewrite E. split; [|split; [exact Fs|split; [exact Fk|split; [exact Fz|split; [exact Fc|exact Hh]]]]].
    constructor.
    + apply (k_nonnil c 0 K).
    + apply (k_sd c 0 K).
    + rewrite Fk. apply (w_skip s W).
    + apply (k_range c 0 K).
    + intros j N. split; [|rewrite Fk; apply Gd; exact N].
      destruct (Z_lt_dec j 0); [rewrite (cell_neg_alias c j) in * by lia|]; apply (k_vals c 0 K); auto; lia.
    + apply (k_nodup c 0 K).
    + rewrite (k_cnt c 0 K). lia.
Qed.

Definition resize_probing : Prop :=
  forall s, winv s -> probing s -> t_sd s + 1 <= uniques_max_size_degree -> probing (t_resize s (t_sd s + 1)).

Lemma resize_ok_of_probing : resize_probing -> resize_ok.
Proof.
  intros Hp s W P Hs. cbv zeta. destruct (resize_weak s W Hs) as (W' & Sd & Sk & Zr & Cn & Hh).
  split; [exact W'|]. split; [apply Hp; auto|]. split; [exact Sd|]. split; [exact Sk|]. split; [exact Zr|]. split; [exact Cn|exact Hh].
Qed.

Theorem table_merge_tree_perm_3 : rehash_probing -> resize_probing -> forall t1 t2,
  Forall tinv (leaves t1) -> Permutation (leaves t1) (leaves t2) ->
  t_skip (t_eval t1) = t_skip (t_eval t2) /\ t_cnt (t_eval t1) = t_cnt (t_eval t2) /\
  t_zero (t_eval t1) = t_zero (t_eval t2) /\ (forall y, holds (t_eval t1) y <-> holds (t_eval t2) y) /\
  t_size_as_is (t_eval t1) = t_size_as_is (t_eval t2) /\ tinv (t_eval t1) /\ tinv (t_eval t2).
Proof. intros Hp Hz. apply table_merge_tree_perm; [apply rehash_ok_of_probing; exact Hp|apply resize_ok_of_probing; exact Hz]. Qed.
