(* C04, refinement of the open-addressing table level of ChUnique to the set level. Part 1: the loop
   combinator, the table invariant, insertImpl / reinsertImpl. *)
From Coq Require Import ZArith List Bool Lia MSets.MSetPositive FSets.FMapPositive Permutation.
From SH Require Import Gen.AggConsts Agg.Model Agg.ProofsUnique.
Import ListNotations.
Open Scope Z_scope.

(* ---------- the loop combinator ---------- *)
Section LoopTheory.
  Context {S : Type} (step : S -> S * bool).

  (* k steps that all answered "continue" *)
  Inductive steps : nat -> S -> S -> Prop :=
  | steps_0 s : steps 0 s s
  | steps_S k s s' : snd (step s) = true -> steps k (fst (step s)) s' -> steps (Datatypes.S k) s s'.
  (* a complete run: continuing steps followed by one that answered "stop" *)
  Inductive runs : S -> S -> Prop :=
  | runs_stop s : snd (step s) = false -> runs s (fst (step s))
  | runs_go s s' : snd (step s) = true -> runs (fst (step s)) s' -> runs s s'.

  Lemma steps_app a b s s1 s2 : steps a s s1 -> steps b s1 s2 -> steps (a + b) s s2.
  Proof. induction 1; simpl; auto. intros. constructor; auto. Qed.
  Lemma steps_runs a s s1 s2 : steps a s s1 -> runs s1 s2 -> runs s s2.
  Proof. induction 1; auto. intros. apply runs_go; auto. Qed.

  Lemma loopP_spec p : forall s,
    (snd (loopP step p s) = true -> steps (Pos.to_nat p) s (fst (loopP step p s))) /\
    (snd (loopP step p s) = false -> runs s (fst (loopP step p s))).
  Proof.
    induction p as [p IH | p IH |]; intros s; simpl.
    - destruct (step s) as [s0 c0] eqn:E0. destruct c0.
      + destruct (loopP step p s0) as [s1 c1] eqn:E1. destruct (IH s0) as [A1 B1]. rewrite E1 in *. simpl in *.
        assert (H0 : snd (step s) = true) by (rewrite E0; reflexivity).
        assert (F0 : fst (step s) = s0) by (rewrite E0; reflexivity).
        destruct c1.
        * destruct (loopP step p s1) as [s2 c2] eqn:E2. destruct (IH s1) as [A2 B2]. rewrite E2 in *. simpl in *.
          split; intros C.
          -- rewrite Pos2Nat.inj_xI. replace (Datatypes.S (2 * Pos.to_nat p)) with (Datatypes.S (Pos.to_nat p + Pos.to_nat p)) by lia.
             constructor; auto. rewrite F0. eapply steps_app; eauto.
          -- apply runs_go; auto. rewrite F0. eapply steps_runs; eauto.
        * simpl. split; [discriminate|]. intros _. apply runs_go; auto. rewrite F0. auto.
      + simpl. split; [discriminate|]. intros _. replace s0 with (fst (step s)) by (rewrite E0; reflexivity).
        apply runs_stop. rewrite E0. reflexivity.
    - destruct (loopP step p s) as [s1 c1] eqn:E1. destruct (IH s) as [A1 B1]. rewrite E1 in *. simpl in *.
      destruct c1.
      + destruct (loopP step p s1) as [s2 c2] eqn:E2. destruct (IH s1) as [A2 B2]. rewrite E2 in *. simpl in *.
        split; intros C.
        * rewrite Pos2Nat.inj_xO. replace (2 * Pos.to_nat p)%nat with (Pos.to_nat p + Pos.to_nat p)%nat by lia.
          eapply steps_app; eauto.
        * eapply steps_runs; eauto.
      + simpl. split; [discriminate|auto].
    - split; intros C.
      + change (Pos.to_nat 1) with 1%nat. constructor; auto. constructor.
      + apply runs_stop. exact C.
  Qed.

  (* Hoare-style rule: an invariant and a measure that decreases on every continuing step *)
  Lemma loop_rule (Inv : S -> Prop) (m : S -> Z) s :
    Inv s ->
    (forall s, Inv s -> snd (step s) = true -> Inv (fst (step s)) /\ 0 <= m (fst (step s)) < m s) ->
    m s < 1048576 ->
    exists s0, Inv s0 /\ snd (step s0) = false /\ loop step s = fst (step s0).
  Proof.
    intros I0 Hstep Hm. unfold loop.
    destruct (loopP_spec 1048576 s) as [A B].
    destruct (snd (loopP step 1048576 s)) eqn:C.
    - exfalso. specialize (A eq_refl).
      assert (G : forall k a b, steps k a b -> Inv a -> 0 <= m a -> Z.of_nat k <= m a).
      { induction 1; intros Ia P; [lia|]. destruct (Hstep _ Ia H) as [I2 D2]. specialize (IHsteps I2 ltac:(lia)). lia. }
      pose proof (Pos2Nat.is_pos 1048576) as Hpos.
      assert (HK : Z.of_nat (Pos.to_nat 1048576) = 1048576) by (rewrite positive_nat_Z; reflexivity).
      remember (Pos.to_nat 1048576) as K. destruct A as [a | k a b Hc St]; [lia|].
      destruct (Hstep _ I0 Hc) as [I1 D]. specialize (G _ _ _ St I1 ltac:(lia)). lia.
    - specialize (B eq_refl). clear A C Hm.
      induction B as [a Hs | a b Hc R IH].
      + exists a. auto.
      + destruct (Hstep _ I0 Hc) as [I1 _]. apply IH. exact I1.
  Qed.
End LoopTheory.

(* ---------- arithmetic and cells ---------- *)
Lemma pow2_pow d : 0 <= d -> pow2 d = 2 ^ d.
Proof. intros H. unfold pow2. rewrite Z.shiftl_mul_pow2 by lia. lia. Qed.
Lemma lowbits_mod x d : 0 <= d -> lowbits x d = x mod 2 ^ d.
Proof. intros H. unfold lowbits. apply Z.land_ones. exact H. Qed.

Definition cell (s : tsk) (i : Z) : Z := bget (t_buf s) i.
Definition tn (s : tsk) : Z := 2 ^ t_sd s.
Definition pos (s : tsk) (x k : Z) : Z := (t_place s x + k) mod tn s.

Lemma tn_pos s : 0 <= t_sd s -> 0 < tn s.
Proof. intros H. unfold tn. apply Z.pow_pos_nonneg; lia. Qed.
Lemma t_size_tn s : 0 <= t_sd s -> t_size s = tn s.
Proof. intros H. unfold t_size, tn. apply pow2_pow. exact H. Qed.
Lemma t_place_range s x : 0 <= t_sd s -> 0 <= t_place s x < tn s.
Proof. intros H. unfold t_place. rewrite lowbits_mod by exact H. apply Z.mod_pos_bound. apply tn_pos. exact H. Qed.
Lemma pos_range s x k : 0 <= t_sd s -> 0 <= pos s x k < tn s.
Proof. intros H. unfold pos. apply Z.mod_pos_bound. apply tn_pos. exact H. Qed.
Lemma pos_0 s x : 0 <= t_sd s -> pos s x 0 = t_place s x.
Proof. intros H. unfold pos. rewrite Z.add_0_r. apply Z.mod_small. apply t_place_range. exact H. Qed.
Lemma t_next_pos s x k : 0 <= t_sd s -> t_next s (pos s x k) = pos s x (k + 1).
Proof.
  intros H. unfold t_next, pos. rewrite lowbits_mod by exact H. fold (tn s).
  rewrite Zplus_mod_idemp_l. f_equal. lia.
Qed.

Lemma bget_bset b i x j : 0 <= i -> 0 <= j -> bget (bset b i x) j = if i =? j then x else bget b j.
Proof.
  intros Hi Hj. unfold bget, bset. destruct (i =? j) eqn:E.
  - apply Z.eqb_eq in E. subst j. destruct (x =? 0) eqn:X.
    + apply Z.eqb_eq in X. rewrite PM.grs. auto.
    + rewrite PM.gss. reflexivity.
  - apply Z.eqb_neq in E.
    assert (N : Z.to_pos (i + 1) <> Z.to_pos (j + 1)).
    { intros C. apply Z2Pos.inj in C; lia. }
    destruct (x =? 0); [rewrite PM.gro by auto | rewrite PM.gso by auto]; reflexivity.
Qed.

(* the hash x is stored in the table *)
Definition holds (s : tsk) (x : Z) : Prop := exists i, 0 <= i < tn s /\ cell s i = x /\ x <> 0.

(* number of occupied cells *)
Definition zrange (n : Z) : list Z := map Z.of_nat (seq 0 (Z.to_nat n)).
Definition occf (s : tsk) (i : Z) : bool := negb (cell s i =? 0).
Definition occ (s : tsk) : Z := Z.of_nat (length (filter (occf s) (zrange (tn s)))).

Lemma zrange_in n i : In i (zrange n) <-> 0 <= i < n.
Proof.
  unfold zrange. rewrite in_map_iff. split.
  - intros (k & <- & H). apply in_seq in H. lia.
  - intros H. exists (Z.to_nat i). split; [lia|]. apply in_seq. lia.
Qed.
Lemma zrange_nodup n : NoDup (zrange n).
Proof.
  unfold zrange. apply FinFun.Injective_map_NoDup; [|apply seq_NoDup].
  intros a b H. lia.
Qed.
Lemma zrange_length n : 0 <= n -> Z.of_nat (length (zrange n)) = n.
Proof. intros H. unfold zrange. rewrite map_length, seq_length. lia. Qed.

Lemma filter_all_length {A} (f : A -> bool) l : (forall x, In x l -> f x = true) -> length (filter f l) = length l.
Proof.
  induction l; simpl; intros H; auto. rewrite (H a) by auto. simpl. f_equal. apply IHl. intros; apply H; auto.
Qed.

(* pigeonhole: fewer occupied cells than cells => an empty cell *)
Lemma empty_cell s : 0 <= t_sd s -> occ s < tn s -> exists e, 0 <= e < tn s /\ cell s e = 0.
Proof.
  intros Hsd H.
  destruct (forallb (occf s) (zrange (tn s))) eqn:F.
  - exfalso. rewrite forallb_forall in F. unfold occ in H. rewrite filter_all_length in H by exact F.
    rewrite zrange_length in H; [lia|]. pose proof (tn_pos s Hsd). lia.
  - assert (exists e, In e (zrange (tn s)) /\ occf s e = false) as (e & I & E).
    { clear H. induction (zrange (tn s)) as [|a l IH]; simpl in F; [discriminate|].
      destruct (occf s a) eqn:Ea; simpl in F.
      - destruct (IH F) as (e & I & E). exists e. split; [right|]; auto.
      - exists a. split; [left|]; auto. }
    exists e. split; [apply zrange_in; exact I|]. unfold occf in E. apply negb_false_iff in E. apply Z.eqb_eq in E. exact E.
Qed.

(* how occ changes when one cell changes *)
Lemma filter_change {A} (f g : A -> bool) l a :
  NoDup l -> In a l -> (forall x, In x l -> x <> a -> f x = g x) ->
  (Z.of_nat (length (filter g l)) = Z.of_nat (length (filter f l)) + (if g a then 1 else 0) - (if f a then 1 else 0)).
Proof.
  intros ND. induction ND as [|y l Ny ND IH]; intros I H; [destruct I|].
  simpl. destruct I as [->|I].
  - assert (E : filter g l = filter f l).
    { apply filter_ext_in. intros x Ix. symmetry. apply H; [right; exact Ix | intros ->; contradiction]. }
    destruct (g a), (f a); cbn [length]; rewrite ?Nat2Z.inj_succ, E; lia.
  - assert (Nya : y <> a) by (intros ->; contradiction).
    rewrite (H y (or_introl eq_refl) Nya).
    assert (H' : forall x, In x l -> x <> a -> f x = g x) by (intros; apply H; auto; right; auto).
    specialize (IH I H'). destruct (g y); cbn [length]; rewrite ?Nat2Z.inj_succ; lia.
Qed.

Lemma occ_change s s' i : t_sd s' = t_sd s -> 0 <= i < tn s ->
  (forall j, 0 <= j < tn s -> j <> i -> cell s' j = cell s j) ->
  occ s' = occ s + (if cell s' i =? 0 then 0 else 1) - (if cell s i =? 0 then 0 else 1).
Proof.
  intros Hsd Hi H. unfold occ, tn. rewrite Hsd. fold (tn s).
  rewrite (filter_change (occf s) (occf s') (zrange (tn s)) i (zrange_nodup _)).
  - unfold occf. destruct (cell s' i =? 0), (cell s i =? 0); simpl; lia.
  - apply zrange_in. exact Hi.
  - intros x Ix Hx. apply zrange_in in Ix. unfold occf. rewrite (H x Ix Hx). reflexivity.
Qed.

(* ---------- the table invariant ---------- *)
Record winv (s : tsk) : Prop := {
  w_nonnil : t_nil s = false;
  w_sd : 1 <= t_sd s <= uniques_max_size_degree;
  w_skip : 0 <= t_skip s;
  w_range : forall i, tn s <= i -> cell s i = 0;
  w_vals : forall i, cell s i <> 0 -> 0 < cell s i < 2 ^ 32 /\ good (t_skip s) (cell s i) = true;
  w_nodup : forall i j, 0 <= i < tn s -> 0 <= j < tn s -> cell s i <> 0 -> cell s i = cell s j -> i = j;
  w_cnt : t_cnt s = occ s + b2z (t_zero s)
}.

(* probing invariant: every cell between place(x) and the cell holding x (cyclically) is occupied *)
Definition probing (s : tsk) : Prop :=
  forall i, 0 <= i < tn s -> cell s i <> 0 ->
  exists k, 0 <= k < tn s /\ pos s (cell s i) k = i /\ forall k', 0 <= k' < k -> cell s (pos s (cell s i) k') <> 0.

Definition set_cell (s : tsk) (p x : Z) : tsk := t_with_buf s (bset (t_buf s) p x).

Lemma cell_set_cell s p x j : 0 <= p -> 0 <= j -> cell (set_cell s p x) j = if p =? j then x else cell s j.
Proof. intros. unfold cell, set_cell. simpl. apply bget_bset; auto. Qed.


(* ---------- insertImpl ---------- *)
Lemma cyc_dist_step n e p : 0 < n -> 0 <= e < n -> 0 <= p < n -> e <> p ->
  0 <= (e - (p + 1) mod n) mod n < (e - p) mod n.
Proof.
  intros Hn He Hp N. rewrite Zminus_mod_idemp_r.
  destruct (Z_lt_dec p e).
  - rewrite (Z.mod_small (e - p)) by lia. rewrite (Z.mod_small (e - (p + 1))) by lia. lia.
  - replace ((e - p) mod n) with (e - p + n).
    2:{ rewrite <- (Z_mod_plus_full (e - p) 1 n). rewrite Z.mod_small; lia. }
    replace ((e - (p + 1)) mod n) with (e - (p + 1) + n).
    2:{ rewrite <- (Z_mod_plus_full (e - (p + 1)) 1 n). rewrite Z.mod_small; lia. }
    lia.
Qed.

Lemma pos_reach s x e : 0 <= t_sd s -> 0 <= e < tn s -> exists k, 0 <= k < tn s /\ pos s x k = e.
Proof.
  intros H He. pose proof (tn_pos s H) as Hn. pose proof (t_place_range s x H) as Hp.
  exists ((e - t_place s x) mod tn s). split; [apply Z.mod_pos_bound; lia|].
  unfold pos. rewrite Zplus_mod_idemp_r. replace (t_place s x + (e - t_place s x)) with e by lia.
  apply Z.mod_small. exact He.
Qed.

Lemma tn_small s : 0 <= t_sd s <= uniques_max_size_degree + 1 -> tn s < 1048576.
Proof.
  intros H. unfold tn.
  assert (2 ^ t_sd s <= 2 ^ (uniques_max_size_degree + 1)) by (apply Z.pow_le_mono_r; lia).
  assert (2 ^ (uniques_max_size_degree + 1) < 1048576) by (vm_compute; reflexivity). lia.
Qed.

Lemma probe_insert_spec s x : winv s -> occ s < tn s -> x <> 0 ->
  exists k, 0 <= k < tn s /\
    (forall k', 0 <= k' < k -> cell s (pos s x k') <> 0 /\ cell s (pos s x k') <> x) /\
    ((cell s (pos s x k) = x /\ t_probe_insert s (t_place s x) x = s) \/
     (cell s (pos s x k) = 0 /\
      t_probe_insert s (t_place s x) x = t_with_cnt (set_cell s (pos s x k) x) (t_cnt s + 1))).
Proof.
  intros W Ho Hx. pose proof (w_sd s W) as Hsd. assert (Hsd0 : 0 <= t_sd s) by lia.
  pose proof (tn_pos s Hsd0) as Hn.
  destruct (empty_cell s Hsd0 Ho) as (e & He & Ce).
  unfold t_probe_insert.
  match goal with |- context [loop ?f _] => set (step := f) end.
  set (Inv := fun st : tsk * Z => fst st = s /\ exists k, 0 <= k /\ snd st = pos s x k /\
                 forall k', 0 <= k' < k -> cell s (pos s x k') <> 0 /\ cell s (pos s x k') <> x).
  destruct (loop_rule step Inv (fun st => (e - snd st) mod tn s) (s, t_place s x)) as (st0 & I0 & Stop & Res).
  - split; [reflexivity|]. exists 0. split; [lia|]. split; [simpl; symmetry; apply pos_0; auto|]. intros; lia.
  - intros [s1 p] [E (k & Hk & Ep & Path)] C. simpl in E, Ep. subst s1 p.
    unfold step in *. cbn [fst snd] in *. fold (cell s (pos s x k)) in *.
    destruct (cell s (pos s x k) =? x) eqn:E1; [discriminate|].
    destruct (cell s (pos s x k) =? 0) eqn:E2; [discriminate|]. cbn [fst snd].
    apply Z.eqb_neq in E1, E2. split.
    + split; [reflexivity|]. exists (k + 1). split; [lia|]. split; [apply t_next_pos; auto|].
      intros k' Hk'. destruct (Z.eq_dec k' k) as [->|]; [auto|apply Path; lia].
    + rewrite t_next_pos by auto. pose proof (pos_range s x k Hsd0) as Pr.
      assert (e <> pos s x k) by (intros C0; apply E2; rewrite <- C0; exact Ce).
      pose proof (cyc_dist_step (tn s) e (pos s x k) Hn He Pr H) as D.
      assert (Ep : pos s x (k + 1) = (pos s x k + 1) mod tn s).
      { unfold pos. rewrite Zplus_mod_idemp_l. f_equal. lia. }
      rewrite Ep. exact D.
  - simpl. pose proof (tn_small s ltac:(lia)). pose proof (Z.mod_pos_bound (e - t_place s x) (tn s) Hn). lia.
  - destruct st0 as [s1 p]. destruct I0 as [E (k & Hk & Ep & Path)]. simpl in E, Ep. subst s1 p.
    assert (Hkn : k < tn s).
    { destruct (pos_reach s x e Hsd0 He) as (ke & Hke & Eke).
      destruct (Z_lt_dec ke k); [|lia]. destruct (Path ke ltac:(lia)) as [C _]. rewrite Eke in C. contradiction. }
    exists k. split; [lia|]. split; [exact Path|].
    rewrite Res. unfold step in *. cbn [fst snd] in *. fold (cell s (pos s x k)) in *.
    destruct (cell s (pos s x k) =? x) eqn:E1.
    + left. apply Z.eqb_eq in E1. auto.
    + destruct (cell s (pos s x k) =? 0) eqn:E2; [|discriminate].
      right. apply Z.eqb_eq in E2. split; auto.
Qed.

(* ---------- abstraction relation to the set level ---------- *)
Definition absR (s : tsk) (a : sk) : Prop :=
  s_skip a = t_skip s /\ (forall p, PS.In p (s_elems a) <-> holds s (Zpos p)) /\
  s_zero a = t_zero s /\ s_cnt a = t_cnt s.

Lemma pos_same s s' x k : t_sd s' = t_sd s -> pos s' x k = pos s x k.
Proof. intros H. unfold pos, t_place, tn. rewrite H. reflexivity. Qed.
Lemma tn_same s s' : t_sd s' = t_sd s -> tn s' = tn s.
Proof. intros H. unfold tn. rewrite H. reflexivity. Qed.

Lemma holds_not_path s x k : probing s -> 0 <= t_sd s -> 0 <= k < tn s ->
  (forall k', 0 <= k' < k -> cell s (pos s x k') <> 0 /\ cell s (pos s x k') <> x) ->
  cell s (pos s x k) = 0 -> ~ holds s x.
Proof.
  intros P Hsd Hk Path C0 (i & Hi & Ci & Nx).
  destruct (P i Hi ltac:(rewrite Ci; exact Nx)) as (ki & Hki & Pi & Early). rewrite Ci in *.
  destruct (Z.lt_trichotomy ki k) as [L|[E|G]].
  - destruct (Path ki ltac:(lia)) as [_ N]. rewrite Pi in N. contradiction.
  - subst ki. rewrite Pi in C0. congruence.
  - apply (Early k ltac:(lia)). exact C0.
Qed.

Lemma insert_cell_refines s x p k : winv s -> probing s -> 0 < x < 2 ^ 32 -> good (t_skip s) x = true ->
  0 <= k < tn s -> p = pos s x k -> cell s p = 0 -> ~ holds s x ->
  (forall k', 0 <= k' < k -> cell s (pos s x k') <> 0) ->
  let s' := t_with_cnt (set_cell s p x) (t_cnt s + 1) in
  winv s' /\ probing s' /\ (forall y, holds s' y <-> holds s y \/ y = x).
Proof.
  intros W P Hx Gx Hk Ep C0 NH Path s'.
  pose proof (w_sd s W) as Hsd. assert (Hsd0 : 0 <= t_sd s) by lia.
  assert (Hp : 0 <= p < tn s) by (subst p; apply pos_range; auto).
  assert (Sd : t_sd s' = t_sd s) by reflexivity.
  assert (Tn : tn s' = tn s) by reflexivity.
  assert (Cell : forall j, 0 <= j -> cell s' j = if p =? j then x else cell s j).
  { intros j Hj. unfold s', cell. simpl. apply bget_bset; lia. }
  assert (CellP : cell s' p = x) by (rewrite Cell by lia; rewrite Z.eqb_refl; reflexivity).
  assert (CellO : forall j, 0 <= j -> j <> p -> cell s' j = cell s j).
  { intros j Hj N. rewrite Cell by lia. destruct (p =? j) eqn:E; [apply Z.eqb_eq in E; congruence|reflexivity]. }
  split; [|split].
  - constructor; try (destruct W; assumption).
    + rewrite Tn. intros i Hi. rewrite CellO by lia. apply (w_range s W). exact Hi.
    + intros i Ni. destruct (Z_lt_dec i 0) as [Neg|Nn].
      * (* negative indices alias index 0 *)
        assert (cell s' i = cell s' 0 /\ cell s i = cell s 0) as [E1 E2].
        { unfold cell, bget. replace (Z.to_pos (i + 1)) with 1%positive by (destruct (i + 1) eqn:E; simpl; auto; lia). auto. }
        rewrite E1 in *. destruct (Z.eq_dec 0 p) as [<-|N0].
        -- rewrite CellP. auto.
        -- rewrite CellO in * by lia. apply (w_vals s W 0). exact Ni.
      * destruct (Z.eq_dec i p) as [->|N].
        -- rewrite CellP. auto.
        -- rewrite CellO in * by lia. apply (w_vals s W). exact Ni.
    + rewrite Tn. intros i j Hi Hj Ni E.
      destruct (Z.eq_dec i p) as [->|Ni'], (Z.eq_dec j p) as [->|Nj']; auto.
      * rewrite CellP in E. rewrite CellO in E by lia. exfalso. apply NH. exists j. repeat split; auto; lia.
      * rewrite CellP in E. rewrite CellO in E, Ni by lia. exfalso. apply NH. exists i. repeat split; auto; lia.
      * rewrite !CellO in * by lia. apply (w_nodup s W); auto.
    + rewrite (occ_change s s' p Sd Hp) by (intros j Hj N; apply CellO; lia).
      rewrite CellP, C0. replace (x =? 0) with false by (symmetry; apply Z.eqb_neq; lia).
      unfold s'. simpl. rewrite (w_cnt s W). lia.
  - intros i Hi Ni. rewrite Tn in Hi. destruct (Z.eq_dec i p) as [->|N].
    + rewrite CellP. exists k. rewrite Tn. split; [lia|]. split; [rewrite (pos_same s s') by exact Sd; auto|].
      intros k' Hk'. rewrite (pos_same s s') by exact Sd. pose proof (pos_range s x k' Hsd0).
      destruct (Z.eq_dec (pos s x k') p) as [->|N']; [rewrite CellP; lia|].
      rewrite CellO by lia. apply Path. exact Hk'.
    + rewrite CellO in * by lia. destruct (P i Hi Ni) as (ki & Hki & Pi & Early).
      exists ki. rewrite Tn. split; [lia|]. split; [rewrite (pos_same s s') by exact Sd; auto|].
      intros k' Hk'. rewrite (pos_same s s') by exact Sd. pose proof (pos_range s (cell s i) k' Hsd0).
      destruct (Z.eq_dec (pos s (cell s i) k') p) as [->|N']; [rewrite CellP; lia|].
      rewrite CellO by lia. apply Early. exact Hk'.
  - intros y. split.
    + intros (i & Hi & Ci & Ny). rewrite Tn in Hi. destruct (Z.eq_dec i p) as [->|N].
      * right. rewrite CellP in Ci. auto.
      * left. rewrite CellO in Ci by lia. exists i. auto.
    + intros [(i & Hi & Ci & Ny) | -> ].
      * exists i. rewrite Tn. split; auto. split; auto. rewrite CellO; auto; try lia. intros ->. congruence.
      * exists p. rewrite Tn. repeat split; auto; lia.
Qed.

(* ---------- t_order / t_abs ---------- *)
Lemma set_of_list_in l : forall p, PS.In p (set_of_list l) <-> In (Zpos p) l.
Proof.
  unfold set_of_list.
  assert (G : forall l e p, PS.In p (fold_left (fun e x => match x with Zpos q => PS.add q e | _ => e end) l e) <->
                            PS.In p e \/ In (Zpos p) l).
  { induction l0 as [|x l0 IH]; intros e p; simpl; [tauto|]. rewrite IH. destruct x; try rewrite PS.add_spec.
    - split; intros [H|H]; auto. destruct H; auto; discriminate.
    - split; [intros [[->|H]|H]; auto | intros [H|[H|H]]; auto]. inversion H; auto.
    - split; intros [H|H]; auto. destruct H; auto; discriminate. }
  intros p. rewrite G. split; [intros [H|H]; auto; apply PSF.empty_iff in H; tauto | auto].
Qed.

Lemma t_order_spec s x : t_nil s = false -> 0 <= t_sd s <= uniques_max_size_degree + 1 ->
  (In x (t_order s) <-> holds s x).
Proof.
  intros Nn Hsd. assert (Hsd0 : 0 <= t_sd s) by lia. pose proof (tn_pos s Hsd0) as Hn.
  unfold t_order. rewrite Nn.
  match goal with |- context [loop ?f _] => set (step := f) end.
  set (Inv := fun st : Z * list Z => 0 <= fst st <= tn s /\
          forall y, In y (snd st) <-> exists j, 0 <= j < fst st /\ cell s j = y /\ y <> 0).
  destruct (loop_rule step Inv (fun st => tn s - fst st) (0, [])) as (st0 & I0 & Stop & Res).
  - split; cbn [fst snd]; [lia|]. intros y. split; [intros []|]. intros (j & Hj & _). lia.
  - intros [i acc] [Hi Hacc] C. unfold step in *. cbn [fst snd] in *. rewrite t_size_tn in * by auto.
    destruct (tn s <=? i) eqn:E; [discriminate|]. apply Z.leb_gt in E. unfold Inv. cbn [fst snd]. split; [|lia].
    split; [lia|]. intros y. fold (cell s i). destruct (cell s i =? 0) eqn:E0.
    + apply Z.eqb_eq in E0. rewrite Hacc. split; intros (j & Hj & Cj & Ny).
      * exists j. split; auto; lia.
      * exists j. split; auto. destruct (Z.eq_dec j i) as [->|]; [congruence|lia].
    + apply Z.eqb_neq in E0. simpl. rewrite Hacc. split.
      * intros [<-|(j & Hj & Cj & Ny)]; [exists i; split; auto; lia | exists j; split; auto; lia].
      * intros (j & Hj & Cj & Ny). destruct (Z.eq_dec j i) as [->|]; [left; auto | right; exists j; split; auto; lia].
  - cbn [fst snd]. pose proof (tn_small s Hsd). lia.
  - rewrite Res. destruct st0 as [i acc]. destruct I0 as [Hi Hacc]. unfold step in *. cbn [fst snd] in *.
    rewrite t_size_tn in * by auto. destruct (tn s <=? i) eqn:E; [|discriminate]. apply Z.leb_le in E. cbn [fst snd].
    unfold rev'. rewrite <- rev_alt, <- in_rev, Hacc. assert (i = tn s) by lia. subst i. reflexivity.
Qed.

Lemma absR_t_abs s : winv s -> absR s (t_abs s).
Proof.
  intros W. pose proof (w_sd s W). unfold absR, t_abs; simpl. repeat split; auto.
  - intros H0. apply set_of_list_in in H0. apply t_order_spec in H0; auto; [apply W | lia].
  - intros H0. apply set_of_list_in. apply t_order_spec; auto; [apply W | lia].
Qed.

(* occupied cells and stored hashes are in bijection *)
Lemma occ_card s e : winv s -> (forall p, PS.In p e <-> holds s (Zpos p)) -> occ s = card e.
Proof.
  intros W H. unfold occ, card. f_equal.
  rewrite PS.cardinal_spec.
  set (l1 := filter (occf s) (zrange (tn s))).
  rewrite <- (map_length (cell s) l1), <- (map_length Zpos (PS.elements e)).
  apply Permutation_length. apply NoDup_Permutation.
  - (* cells are distinct *)
    assert (G : forall l, NoDup l -> (forall i, In i l -> 0 <= i < tn s /\ cell s i <> 0) -> NoDup (map (cell s) l)).
    { induction 1 as [|a l Na ND IH]; intros Hl; simpl; constructor.
      - intros C. apply in_map_iff in C. destruct C as (b & Eb & Ib).
        destruct (Hl a (or_introl eq_refl)) as [Ha Ca]. destruct (Hl b (or_intror Ib)) as [Hb Cb].
        assert (a = b) by (apply (w_nodup s W); auto). subst b. contradiction.
      - apply IH. intros i Ii. apply Hl. right. exact Ii. }
    apply G.
    + apply NoDup_filter. apply zrange_nodup.
    + intros i Ii. apply filter_In in Ii. destruct Ii as [Ir Io]. apply zrange_in in Ir. split; auto.
      unfold occf in Io. apply negb_true_iff in Io. apply Z.eqb_neq in Io. exact Io.
  - apply FinFun.Injective_map_NoDup; [intros a b E; inversion E; auto|].
    pose proof (PS.elements_spec2w e) as ND. clear -ND. induction ND; constructor; auto.
    intros C. apply H. apply SetoidList.In_InA; auto with typeclass_instances.
  - intros y. rewrite !in_map_iff. split.
    + intros (i & Ci & Ii). apply filter_In in Ii. destruct Ii as [Ir Io]. apply zrange_in in Ir.
      unfold occf in Io. apply negb_true_iff in Io. apply Z.eqb_neq in Io.
      destruct (w_vals s W i Io) as [Pv _]. destruct (cell s i) as [|q|q] eqn:Eq; try lia.
      exists q. split; [congruence|].
      assert (PS.In q e) by (apply H; exists i; rewrite Eq; repeat split; auto; lia).
      apply PS.elements_spec1 in H0. apply SetoidList.InA_alt in H0. destruct H0 as (z & -> & Iz). subst y. exact Iz.
    + intros (q & <- & Iq). assert (PS.In q e).
      { apply PS.elements_spec1. apply SetoidList.In_InA; auto with typeclass_instances. }
      apply H in H0. destruct H0 as (i & Hi & Ci & Ny). exists i. split; auto.
      apply filter_In. split; [apply zrange_in; auto|]. unfold occf. rewrite Ci. reflexivity.
Qed.

(* ---------- states that differ only in count / flags ---------- *)
Lemma same_cells s s' : t_buf s' = t_buf s -> t_sd s' = t_sd s ->
  (forall i, cell s' i = cell s i) /\ tn s' = tn s /\ occ s' = occ s /\
  (forall x k, pos s' x k = pos s x k) /\ (forall y, holds s' y <-> holds s y).
Proof.
  intros Hb Hs.
  assert (C : forall i, cell s' i = cell s i) by (intros; unfold cell; rewrite Hb; reflexivity).
  assert (T : tn s' = tn s) by (apply tn_same; auto).
  split; [exact C|]. split; [exact T|]. split; [|split].
  - unfold occ. rewrite T. f_equal. f_equal. apply filter_ext. intros i. unfold occf. rewrite C. reflexivity.
  - intros. apply pos_same. auto.
  - intros y. unfold holds. rewrite T. split; intros (i & Hi & Ci & Ny); exists i; rewrite C in *; auto.
Qed.

Lemma winv_same s s' : t_buf s' = t_buf s -> t_sd s' = t_sd s -> t_nil s' = t_nil s -> t_skip s' = t_skip s ->
  t_cnt s' - b2z (t_zero s') = t_cnt s - b2z (t_zero s) -> winv s -> winv s'.
Proof.
  intros Hb Hs Hn Hk Hc W. destruct (same_cells s s' Hb Hs) as (C & T & O & _ & _).
  constructor.
  - rewrite Hn. apply W.
  - rewrite Hs. apply W.
  - rewrite Hk. apply W.
  - intros i Hi. rewrite C. apply (w_range s W). lia.
  - intros i Hi. rewrite C in *. rewrite Hk. apply (w_vals s W). exact Hi.
  - intros i j Hi Hj Ni E. rewrite T in *. rewrite !C in *. apply (w_nodup s W); auto.
  - rewrite O. pose proof (w_cnt s W). lia.
Qed.

Lemma probing_same s s' : t_buf s' = t_buf s -> t_sd s' = t_sd s -> probing s -> probing s'.
Proof.
  intros Hb Hs P. destruct (same_cells s s' Hb Hs) as (C & T & _ & Ps & _).
  intros i Hi Ni. rewrite T in Hi. rewrite C in Ni. destruct (P i Hi Ni) as (k & Hk & Pk & E).
  exists k. rewrite T, C, Ps. split; auto. split; auto. intros k' Hk'. rewrite Ps, C. apply E. exact Hk'.
Qed.

(* ---------- rest states ---------- *)
Definition M0 : Z := uniques_max_size.
Lemma consts_ok : M0 = 2 ^ (uniques_max_size_degree - 1) /\ 2 <= uniques_max_size_degree /\ 1 <= M0.
Proof. unfold M0. vm_compute. repeat split; congruence. Qed.

Definition tinv (s : tsk) : Prop := winv s /\ probing s /\ t_cnt s <= 2 ^ (t_sd s - 1).

Definition swf (a : sk) : Prop :=
  0 <= s_skip a /\ (forall p, PS.In p (s_elems a) -> goodp (s_skip a) p = true /\ Zpos p < 2 ^ 32) /\
  s_cnt a = card (s_elems a) + b2z (s_zero a).

Lemma pow2_double d : 1 <= d -> 2 ^ d = 2 * 2 ^ (d - 1).
Proof. intros H. rewrite <- Z.pow_succ_r by lia. f_equal. lia. Qed.

Lemma occ_lt s : winv s -> t_cnt s <= 2 ^ (t_sd s - 1) -> occ s < tn s.
Proof.
  intros W H. pose proof (w_cnt s W). pose proof (w_sd s W). pose proof (b2z_range (t_zero s)).
  unfold tn. rewrite (pow2_double (t_sd s)) by lia.
  assert (0 < 2 ^ (t_sd s - 1)) by (apply Z.pow_pos_nonneg; lia). lia.
Qed.

Lemma insert_impl_absR s a x : tinv s -> absR s a -> 0 <= x < 2 ^ 32 -> good (t_skip s) x = true ->
  let s' := t_insert_impl s x in
  winv s' /\ probing s' /\ absR s' (s_insert_impl a x) /\ t_sd s' = t_sd s /\ t_skip s' = t_skip s /\
  t_cnt s' <= t_cnt s + 1.
Proof.
  intros (W & P & Hc) (As & Ae & Az & Ac) Hx Gx s'. unfold s'.
  destruct x as [|p|p]; [| |lia].
  - unfold t_insert_impl. simpl (0 =? 0). cbn iota. unfold s_insert_impl. rewrite Az.
    destruct (t_zero s) eqn:Z.
    + split; [exact W|]. split; [exact P|]. split; [unfold absR; split; [exact As|split; [exact Ae|split; [first [exact Az | congruence]|exact Ac]]]|]. repeat split; lia.
    + set (s1 := {| t_nil := t_nil s; t_buf := t_buf s; t_cnt := t_cnt s + 1; t_sd := t_sd s; t_skip := t_skip s; t_zero := true |}).
      assert (W1 : winv s1) by (apply (winv_same s s1); auto; simpl; rewrite Z; simpl; lia).
      assert (P1 : probing s1) by (apply (probing_same s s1); auto).
      destruct (same_cells s s1 eq_refl eq_refl) as (_ & _ & _ & _ & Hh).
      split; [exact W1|]. split; [exact P1|]. split; [|simpl; repeat split; lia].
      split; [exact As|]. split; [|split; [reflexivity|simpl; lia]].
      intros q. simpl. rewrite Ae. symmetry. apply Hh.
  - unfold t_insert_impl. replace (Z.pos p =? 0) with false by reflexivity.
    pose proof (occ_lt s W Hc) as Ho.
    destruct (probe_insert_spec s (Zpos p) W Ho ltac:(lia)) as (k & Hk & Path & [[Cx Es]|[C0 Es]]).
    + rewrite Es. assert (Hh : holds s (Zpos p)).
      { exists (pos s (Zpos p) k). split; [apply pos_range; pose proof (w_sd s W); lia|]. split; auto. lia. }
      unfold s_insert_impl. apply Ae in Hh. apply PS.mem_spec in Hh. rewrite Hh.
      split; [exact W|]. split; [exact P|]. split; [unfold absR; split; [exact As|split; [exact Ae|split; [first [exact Az | congruence]|exact Ac]]]|]. repeat split; lia.
    + rewrite Es. pose proof (w_sd s W) as Hsd.
      assert (NH : ~ holds s (Zpos p)) by (eapply holds_not_path; eauto; lia).
      destruct (insert_cell_refines s (Zpos p) (pos s (Zpos p) k) k W P ltac:(lia) Gx Hk eq_refl C0 NH
                  (fun k' Hk' => proj1 (Path k' Hk'))) as (W1 & P1 & Hh).
      unfold s_insert_impl.
      assert (Mm : PS.mem p (s_elems a) = false).
      { destruct (PS.mem p (s_elems a)) eqn:E; auto. apply PS.mem_spec in E. apply Ae in E. contradiction. }
      rewrite Mm. split; [exact W1|]. split; [exact P1|]. split; [|simpl; repeat split; lia].
      split; [exact As|]. split; [|split; [exact Az|simpl; lia]].
      intros q. simpl. rewrite PS.add_spec, Hh, Ae. split.
      * intros [->|H]; [right; reflexivity | left; exact H].
      * intros [H|H]; [right; exact H | left; inversion H; reflexivity].
Qed.

(* set level: thinning ends below M *)
Lemma swf_rehash a d : 0 <= d -> (forall p, PS.In p (s_elems a) -> Zpos p < 2 ^ 32) -> swf (s_rehash_to a d).
Proof.
  intros Hd B. unfold swf, s_rehash_to; simpl. split; [exact Hd|]. split; [|reflexivity].
  intros p I. apply (filt_spec d) in I. destruct I as [I G]. split; auto.
Qed.

Lemma s_thin_bound M fuel : 1 <= M -> forall a, swf a -> 32 - s_skip a < Z.of_nat fuel ->
  s_cnt (s_thin M fuel a) <= M /\ swf (s_thin M fuel a).
Proof.
  intros HM. induction fuel as [|f IH]; intros a (A0 & A1 & A2) Hf.
  - assert (s_cnt a <= M).
    { rewrite A2. rewrite (card_equal _ PS.empty).
      - pose proof (b2z_range (s_zero a)). change (card PS.empty) with 0. lia.
      - intros p. split; [|intros I; apply PSF.empty_iff in I; tauto].
        intros I. destruct (A1 p I) as [G Bd]. rewrite (good_big (s_skip a) p) in G by (auto; lia). discriminate. }
    simpl. destruct (s_cnt a <=? M); split; auto; split; auto.
  - simpl. destruct (s_cnt a <=? M) eqn:E.
    + apply Z.leb_le in E. split; auto. split; auto.
    + apply IH.
      * apply swf_rehash; [lia|]. intros p I. apply A1. exact I.
      * unfold s_rehash_to. cbn [s_skip]. lia.
Qed.

(* =========================================================================================== *)
(* Refinement of shrinkIfNeed / Merge / merge trees, MODULO the correctness of the two in-place     *)
(* reorganisation loops (rehash, resize), which is stated as the two hypotheses below.             *)

Definition rehash_ok : Prop :=
  forall s d, winv s -> probing s -> t_skip s <= d ->
  let s' := t_rehash (t_with_skip s d) in
  winv s' /\ probing s' /\ t_sd s' = t_sd s /\ t_skip s' = d /\ t_zero s' = t_zero s /\
  (forall y, holds s' y <-> holds s y /\ good d y = true).

Definition resize_ok : Prop :=
  forall s, winv s -> probing s -> t_sd s + 1 <= uniques_max_size_degree ->
  let s' := t_resize s (t_sd s + 1) in
  winv s' /\ probing s' /\ t_sd s' = t_sd s + 1 /\ t_skip s' = t_skip s /\ t_zero s' = t_zero s /\
  t_cnt s' = t_cnt s /\ (forall y, holds s' y <-> holds s y).

Section Modulo.
  Hypothesis Hrehash : rehash_ok.
  Hypothesis Hresize : resize_ok.

  Lemma rehash_absR s a d : winv s -> probing s -> absR s a -> t_skip s <= d ->
    (forall p, PS.In p (s_elems a) -> Zpos p < 2 ^ 32) ->
    let s' := t_rehash (t_with_skip s d) in
    winv s' /\ probing s' /\ absR s' (s_rehash_to a d) /\ t_sd s' = t_sd s /\ swf (s_rehash_to a d).
  Proof.
    intros W P (As & Ae & Az & Ac) Hd Bd s'.
    destruct (Hrehash s d W P Hd) as (W' & P' & Sd & Sk & Zr & Hh). fold s' in W', P', Sd, Sk, Zr, Hh.
    assert (El : forall p, PS.In p (PS.filter (goodp d) (s_elems a)) <-> holds s' (Zpos p)).
    { intros p. change (PS.filter (goodp d) (s_elems a)) with (filt d (s_elems a)). rewrite (filt_spec d), Hh, Ae. unfold goodp. reflexivity. }
    split; [exact W'|]. split; [exact P'|]. split; [|split; [exact Sd|]].
    - unfold absR, s_rehash_to; simpl. split; [auto|]. split; [exact El|]. split; [congruence|].
      rewrite (w_cnt s' W'), (occ_card s' _ W' El), Zr, Az. reflexivity.
    - apply swf_rehash; [pose proof (w_skip s W); lia | exact Bd].
  Qed.

  Lemma thin_refines fuel : forall s a, winv s -> probing s -> absR s a -> swf a ->
    let s' := t_thin fuel s in let a' := s_thin M0 fuel a in
    winv s' /\ probing s' /\ absR s' a' /\ t_sd s' = t_sd s.
  Proof.
    induction fuel as [|f IH]; intros s a W P A Sw; simpl.
    - destruct A as (As & Ae & Az & Ac). rewrite Ac. fold M0.
      destruct (t_cnt s <=? M0); (split; [exact W|split; [exact P|split; [exact (conj As (conj Ae (conj Az Ac)))|reflexivity]]]).
    - pose proof A as (As & Ae & Az & Ac). rewrite Ac. fold M0. destruct (t_cnt s <=? M0).
      + split; [exact W|split; [exact P|split; [exact A|reflexivity]]].
      + destruct Sw as (S0 & S1 & S2).
        destruct (rehash_absR s a (t_skip s + 1) W P A ltac:(lia) (fun p I => proj2 (S1 p I))) as (W' & P' & A' & Sd & Sw').
        rewrite As. destruct (IH _ _ W' P' A' Sw') as (W2 & P2 & A2 & Sd2).
        split; [exact W2|split; [exact P2|split; [exact A2|congruence]]].
  Qed.

  Lemma pow_mono a b : 0 <= a <= b -> 2 ^ a <= 2 ^ b.
  Proof. intros. apply Z.pow_le_mono_r; lia. Qed.

  (* shrinkIfNeed, entered with at most one item above maxFill *)
  Lemma shrink_refines s a : winv s -> probing s -> absR s a -> swf a -> t_cnt s <= 2 ^ (t_sd s - 1) + 1 ->
    tinv (t_shrink s) /\ absR (t_shrink s) (s_shrink M0 a) /\ swf (s_shrink M0 a) /\ s_cnt (s_shrink M0 a) <= M0.
  Proof.
    intros W P A Sw Hc. pose proof (w_sd s W) as Hsd. destruct consts_ok as (CM & C2 & C1).
    pose proof A as (As & Ae & Az & Ac).
    assert (Hmf : 2 ^ (t_sd s - 1) <= M0) by (rewrite CM; apply pow_mono; lia).
    unfold t_shrink. rewrite pow2_pow by lia. fold M0.
    destruct (t_cnt s <=? 2 ^ (t_sd s - 1)) eqn:E1.
    - apply Z.leb_le in E1. rewrite shrink_id by lia.
      split; [split; [exact W|split; [exact P|exact E1]]|]. split; [exact A|]. split; [exact Sw|lia].
    - apply Z.leb_gt in E1. destruct (M0 <? t_cnt s) eqn:E2.
      + apply Z.ltb_lt in E2. unfold s_shrink.
        destruct (thin_refines 300 s a W P A Sw) as (W' & P' & A' & Sd).
        destruct (s_thin_bound M0 300 C1 a Sw) as [Bd Sw'].
        { destruct Sw as (S0 & _). replace (Z.of_nat 300) with 300 by reflexivity. lia. }
        split; [|split; [exact A'|split; [exact Sw'|exact Bd]]].
        split; [exact W'|split; [exact P'|]]. destruct A' as (_ & _ & _ & Ac'). rewrite <- Ac', Sd. lia.
      + apply Z.ltb_ge in E2. rewrite shrink_id by lia.
        assert (Hlt : t_sd s - 1 < uniques_max_size_degree - 1).
        { apply (Z.pow_lt_mono_r_iff 2); lia. }
        destruct (Hresize s W P ltac:(lia)) as (W' & P' & Sd & Sk & Zr & Cn & Hh).
        split; [split; [exact W'|split; [exact P'|]]|].
        * rewrite Cn, Sd. replace (t_sd s + 1 - 1) with (t_sd s) by lia. rewrite (pow2_double (t_sd s)) by lia.
          assert (0 < 2 ^ (t_sd s - 1)) by (apply Z.pow_pos_nonneg; lia). lia.
        * split; [|split; [exact Sw|lia]].
          unfold absR. split; [congruence|]. split; [|split; congruence].
          intros p. rewrite Ae. symmetry. apply Hh.
  Qed.

  (* Merge(rhs), current code = repaired variant, both operands non-nil *)
  Lemma merge_refines A B a b : tinv A -> tinv B -> absR A a -> absR B b -> swf a -> swf b ->
    let R := t_merge true A B in
    tinv R /\ absR R (merge_sk M0 true a b (t_order B)) /\ swf (merge_sk M0 true a b (t_order B)) /\
    s_cnt (merge_sk M0 true a b (t_order B)) <= M0.
  Proof.
    intros (WA & PA & CA) (WB & PB & CB) RA RB SA SB R.
    pose proof RA as (As & Ae & Az & Ac). pose proof RB as (Bs & Be & Bz & Bc).
    destruct consts_ok as (CM & C2 & C1).
    unfold R, t_merge, merge_sk, s_merge. rewrite (w_nonnil B WB), (w_nonnil A WA). rewrite As, Bs, Bz.
    (* 1. raise the skip degree *)
    set (A1 := if t_skip A <? t_skip B then t_rehash (t_with_skip A (t_skip B)) else A).
    set (a1 := if t_skip A <? t_skip B then s_rehash_to a (t_skip B) else a).
    assert (H1 : winv A1 /\ probing A1 /\ absR A1 a1 /\ swf a1 /\ t_cnt A1 <= 2 ^ (t_sd A1 - 1)).
    { unfold A1, a1. destruct (t_skip A <? t_skip B) eqn:E.
      - apply Z.ltb_lt in E. destruct SA as (S0 & S1 & S2).
        destruct (rehash_absR A a (t_skip B) WA PA RA ltac:(lia) (fun p I => proj2 (S1 p I))) as (W' & P' & A' & Sd & Sw').
        split; [exact W'|split; [exact P'|split; [exact A'|split; [exact Sw'|]]]].
        rewrite Sd. destruct A' as (_ & Ae' & Az' & Ac'). rewrite <- Ac'. unfold s_rehash_to; simpl.
        assert (card (PS.filter (goodp (t_skip B)) (s_elems a)) <= card (s_elems a)).
        { apply card_subset. intros p I. apply (filt_spec (t_skip B)) in I. tauto. }
        rewrite <- Ac, S2 in CA. lia.
      - split; [exact WA|split; [exact PA|split; [exact RA|split; [exact SA|exact CA]]]]. }
    destruct H1 as (W1 & P1 & R1 & S1 & C1').
    (* 2. the zero item *)
    set (A2 := if negb (t_zero A1) && t_zero B then
                 t_shrink {| t_nil := t_nil A1; t_buf := t_buf A1; t_cnt := t_cnt A1 + 1; t_sd := t_sd A1; t_skip := t_skip A1; t_zero := true |}
               else A1).
    set (a2 := if negb (s_zero a1) && t_zero B then
                 s_shrink M0 {| s_skip := s_skip a1; s_elems := s_elems a1; s_zero := true; s_cnt := s_cnt a1 + 1 |}
               else a1).
    assert (H2 : tinv A2 /\ absR A2 a2 /\ swf a2 /\ s_cnt a2 <= M0).
    { unfold A2, a2. pose proof R1 as (As1 & Ae1 & Az1 & Ac1). rewrite Az1.
      destruct (negb (t_zero A1) && t_zero B) eqn:E.
      - apply andb_true_iff in E. destruct E as [E _]. apply negb_true_iff in E.
        set (Z1 := {| t_nil := t_nil A1; t_buf := t_buf A1; t_cnt := t_cnt A1 + 1; t_sd := t_sd A1; t_skip := t_skip A1; t_zero := true |}).
        assert (WZ : winv Z1) by (apply (winv_same A1 Z1); auto; simpl; rewrite E; simpl; lia).
        assert (PZ : probing Z1) by (apply (probing_same A1 Z1); auto).
        destruct (same_cells A1 Z1 eq_refl eq_refl) as (_ & _ & _ & _ & Hh).
        apply shrink_refines; auto.
        + unfold absR; simpl. split; [exact As1|]. split; [|split; [reflexivity|lia]].
          intros p. rewrite Ae1. symmetry. apply Hh.
        + destruct S1 as (T0 & T1 & T2). unfold swf; simpl. split; [exact T0|split; [exact T1|]].
          rewrite T2, Az1, E. simpl. lia.
        + simpl. lia.
      - split; [split; [exact W1|split; [exact P1|exact C1']]|]. split; [exact R1|split; [exact S1|]].
        destruct R1 as (_ & _ & _ & Ac1'). rewrite Ac1'. rewrite CM.
        pose proof (w_sd A1 W1). assert (2 ^ (t_sd A1 - 1) <= 2 ^ (uniques_max_size_degree - 1)) by (apply pow_mono; lia). lia. }
    (* 3. the items of rhs in table order *)
    assert (Ord : forall x, In x (t_order B) -> 0 <= x < 2 ^ 32).
    { intros x I. apply t_order_spec in I; [|apply WB|pose proof (w_sd B WB); lia].
      destruct I as (i & Hi & Ci & Nx). subst x. destruct (w_vals B WB i Nx). lia. }
    fold A1. fold A2. fold a1. fold a2.
    clearbody A2 a2. revert Ord. generalize (t_order B). intros ord. revert A2 a2 H2.
    induction ord as [|x ord IH]; intros A2 a2 (T2 & R2 & S2 & K2) Ord; simpl.
    - split; [exact T2|split; [exact R2|split; [exact S2|exact K2]]].
    - apply IH; [|intros y I; apply Ord; right; exact I].
      pose proof R2 as (As2 & Ae2 & Az2 & Ac2). unfold s_merge_step. rewrite As2.
      destruct (good (t_skip A2) x) eqn:G.
      + destruct (insert_impl_absR A2 a2 x T2 R2 (Ord x (or_introl eq_refl)) G) as (W' & P' & R' & Sd & Sk & Cn).
        destruct T2 as (_ & _ & C2').
        apply shrink_refines; auto.
        * (* swf of the set-level insert *)
          pose proof S2 as (U0 & U1 & U2). unfold s_insert_impl. destruct x as [|p|p].
          -- destruct (s_zero a2) eqn:Z; [exact S2|]. unfold swf; simpl. split; [exact U0|split; [exact U1|]].
             rewrite U2. simpl. lia.
          -- destruct (PS.mem p (s_elems a2)) eqn:Mm; [exact S2|]. unfold swf; simpl. split; [exact U0|]. split.
             ++ intros q I. apply PS.add_spec in I. destruct I as [->|I]; [|apply U1; exact I].
                split; [unfold goodp; rewrite As2; exact G | destruct (Ord (Zpos p) (or_introl eq_refl)); lia].
             ++ rewrite card_add, U2; [lia|]. intros I. apply PS.mem_spec in I. congruence.
          -- destruct (Ord (Zneg p) (or_introl eq_refl)). lia.
        * rewrite Sd. lia.
      + split; [exact T2|split; [exact R2|split; [exact S2|exact K2]]].
  Qed.
End Modulo.

(* ---------- merge trees of the real table operations ---------- *)
Fixpoint t_eval (t : tree tsk) : tsk :=
  match t with Leaf a => a | Node l r => t_merge true (t_eval l) (t_eval r) end.
Fixpoint tmap_abs (t : tree tsk) : tree sk :=
  match t with Leaf a => Leaf (t_abs a) | Node l r => Node (tmap_abs l) (tmap_abs r) end.
Lemma leaves_tmap_abs t : leaves (tmap_abs t) = map t_abs (leaves t).
Proof. induction t; simpl; [reflexivity | rewrite map_app; congruence]. Qed.

Lemma tinv_wfs A : tinv A -> wfs M0 (t_abs A) /\ swf (t_abs A).
Proof.
  intros (W & P & C). pose proof (absR_t_abs A W) as (As & Ae & Az & Ac). destruct consts_ok as (CM & C2 & C1).
  assert (E : forall p, PS.In p (s_elems (t_abs A)) -> goodp (s_skip (t_abs A)) p = true /\ Zpos p < 2 ^ 32).
  { intros p I. apply Ae in I. destruct I as (i & Hi & Ci & Np).
    destruct (w_vals A W i ltac:(rewrite Ci; exact Np)) as [Pv G]. rewrite Ci in *. unfold goodp. rewrite As. split; [exact G|lia]. }
  assert (K : s_cnt (t_abs A) = card (s_elems (t_abs A)) + b2z (s_zero (t_abs A))).
  { rewrite Ac, Az, (w_cnt A W), (occ_card A _ W Ae). reflexivity. }
  pose proof (w_skip A W). pose proof (w_sd A W).
  assert (2 ^ (t_sd A - 1) <= 2 ^ (uniques_max_size_degree - 1)) by (apply Z.pow_le_mono_r; lia).
  split.
  - split; [rewrite As; lia|]. split; [exact E|]. split; [exact K|]. rewrite Ac. lia.
  - split; [rewrite As; lia|]. split; [exact E|exact K].
Qed.

Lemma tree_refines : rehash_ok -> resize_ok -> forall t, Forall tinv (leaves t) ->
  tinv (t_eval t) /\ exists s, evals M0 (tmap_abs t) s /\ absR (t_eval t) s /\ swf s.
Proof.
  intros Hr Hz. induction t as [a | l IHl r IHr]; simpl; intros F.
  - inversion F; subst. split; [assumption|]. exists (t_abs a). split; [constructor|].
    destruct H1 as (W & _). split; [apply absR_t_abs; exact W|]. apply tinv_wfs. inversion F; assumption.
  - apply Forall_app in F. destruct F as [Fl Fr].
    destruct (IHl Fl) as (Tl & sl & El & Rl & Sl). destruct (IHr Fr) as (Tr & sr & Er & Rr & Sr).
    destruct (merge_refines Hr Hz _ _ _ _ Tl Tr Rl Rr Sl Sr) as (T & R & S & _).
    split; [exact T|]. exists (merge_sk M0 true sl sr (t_order (t_eval r))). split; [|split; [exact R|exact S]].
    apply ev_node; auto.
    destruct Tr as (Wr & _). destruct Rr as (_ & Ae & _).
    intros x. rewrite t_order_spec; [|apply Wr|pose proof (w_sd _ Wr); lia]. split.
    + intros (i & Hi & Ci & Nx). destruct (w_vals _ Wr i ltac:(rewrite Ci; exact Nx)) as [Pv _]. rewrite Ci in Pv.
      destruct x as [|p|p]; try lia. exists p. split; [reflexivity|]. apply Ae. exists i. auto.
    + intros (p & -> & I). apply Ae. exact I.
Qed.

(* any two merge trees of the table-level Merge over permutations of the same tables report the same
   skip degree, itemsCount, zero flag and Size(true) -- modulo rehash_ok and resize_ok *)
Theorem table_merge_tree_perm : rehash_ok -> resize_ok -> forall t1 t2,
  Forall tinv (leaves t1) -> Permutation (leaves t1) (leaves t2) ->
  t_skip (t_eval t1) = t_skip (t_eval t2) /\ t_cnt (t_eval t1) = t_cnt (t_eval t2) /\
  t_zero (t_eval t1) = t_zero (t_eval t2) /\ (forall y, holds (t_eval t1) y <-> holds (t_eval t2) y) /\
  t_size_as_is (t_eval t1) = t_size_as_is (t_eval t2) /\ tinv (t_eval t1) /\ tinv (t_eval t2).
Proof.
  intros Hr Hz t1 t2 F P.
  assert (F2 : Forall tinv (leaves t2)) by (eapply Permutation_Forall; eauto).
  destruct (tree_refines Hr Hz t1 F) as (T1 & s1 & E1 & (A1 & B1 & C1 & D1) & _).
  destruct (tree_refines Hr Hz t2 F2) as (T2 & s2 & E2 & (A2 & B2 & C2 & D2) & _).
  destruct consts_ok as (_ & _ & HM).
  destruct (unique_merge_tree_perm M0 (tmap_abs t1) (tmap_abs t2) s1 s2 HM) as (Sk & El & Zr & Cn & _); auto.
  - rewrite leaves_tmap_abs. apply Forall_forall. intros a I. apply in_map_iff in I. destruct I as (A & <- & IA).
    apply tinv_wfs. rewrite Forall_forall in F. apply F. exact IA.
  - rewrite !leaves_tmap_abs. apply Permutation_map. exact P.
  - assert (Ek : t_skip (t_eval t1) = t_skip (t_eval t2)) by congruence.
    assert (Ec : t_cnt (t_eval t1) = t_cnt (t_eval t2)) by congruence.
    split; [exact Ek|]. split; [exact Ec|]. split; [congruence|]. split; [|split; [|split; assumption]].
    + intros y. split; intros (i & Hi & Ci & Ny).
      * destruct T1 as (W1 & _). destruct (w_vals _ W1 i ltac:(rewrite Ci; exact Ny)) as [Pv _]. rewrite Ci in Pv.
        destruct y as [|p|p]; try lia. apply B2. apply El. apply B1. exists i. auto.
      * destruct T2 as (W2 & _). destruct (w_vals _ W2 i ltac:(rewrite Ci; exact Ny)) as [Pv _]. rewrite Ci in Pv.
        destruct y as [|p|p]; try lia. apply B1. apply El. apply B2. exists i. auto.
    + unfold t_size_as_is. rewrite Ek, Ec. reflexivity.
Qed.

(* ---------- non-vacuity: the empty table after Reset satisfies the invariant ---------- *)
Lemma tinv_reset : tinv (t_reset tsk_nil).
Proof.
  assert (C : forall i, cell (t_reset tsk_nil) i = 0).
  { intros i. unfold cell, t_reset, bget. cbn [t_buf]. rewrite PM.gempty. reflexivity. }
  assert (O : occ (t_reset tsk_nil) = 0).
  { unfold occ. assert (G : forall l, filter (occf (t_reset tsk_nil)) l = []).
    { induction l as [|x l IH]; cbn [filter]; [reflexivity|]. unfold occf at 1. rewrite C. cbn. exact IH. }
    rewrite G. reflexivity. }
  split; [|split].
  - constructor.
    + reflexivity.
    + cbn [t_sd t_reset]. vm_compute. split; congruence.
    + cbn [t_skip t_reset]. lia.
    + intros i _. apply C.
    + intros i N. rewrite C in N. congruence.
    + intros i j _ _ N. rewrite C in N. congruence.
    + rewrite O. reflexivity.
  - intros i _ N. rewrite C in N. congruence.
  - cbn [t_cnt t_sd t_reset]. vm_compute. congruence.
Qed.
