(* Correspondence cases for C04: what the Go code did on generated inputs, replayed through Agg.Model.
   The model is dual (finding F-C04): a case is accepted when the observation agrees with the faithful
   variant or with the repaired one. *)
From Coq Require Import ZArith QArith List Bool MSets.MSetPositive FSets.FMapPositive.
From SH Require Import Common.Wrap Common.Corr Gen.AggConsts Agg.Model.
Import ListNotations.
Open Scope Z_scope.

(* ---------- observations ---------- *)

(* ItemValue as observed: counter, max-count host, min, max, sum, sumsq, min host, max host, ValueSet *)
Inductive vobs := VObs (cnt : Q) (host : Z) (mn mx sm sq : Q) (minh maxh : Z) (set : bool).

Definition vobs_ok (s : ivalue) (o : vobs) : bool :=
  let 'VObs cnt host mn mx sm sq minh maxh set := o in
  Qeq_bool (c_cnt (v_c s)) cnt && (c_host (v_c s) =? host) &&
  Qeq_bool (v_min s) mn && Qeq_bool (v_max s) mx && Qeq_bool (v_sum s) sm && Qeq_bool (v_sumsq s) sq &&
  (v_minh s =? minh) && (v_maxh s =? maxh) && Bool.eqb (v_set s) set.

(* ChUnique as observed: nil, skipDegree, itemsCount, hasZeroItem, sizeDegree, Size(true),
   number of non-zero slots, sum of slots, sum of (index+1)*slot (both mod 2^64: the whole table layout) *)
Inductive udig := UD (nil : bool) (skip cnt : Z) (zero : bool) (sd size nnz sum possum : Z).

Definition t_digest (s : tsk) : udig :=
  if t_nil s then UD true (t_skip s) (t_cnt s) (t_zero s) (t_sd s) (t_size_as_is s) 0 0 0
  else
    let '(_, n, sm, ps) :=
      loop (fun '(i, n, sm, ps) =>
              if t_size s <=? i then ((i, n, sm, ps), false)
              else let x := bget (t_buf s) i in
                   if x =? 0 then ((i + 1, n, sm, ps), true)
                   else ((i + 1, n + 1, sm + x, ps + (i + 1) * x), true)) (0, 0, 0, 0) in
    UD false (t_skip s) (t_cnt s) (t_zero s) (t_sd s) (t_size_as_is s) n (m64 sm) (m64 ps).

Definition udig_eqb (a b : udig) : bool :=
  let 'UD n1 k1 c1 z1 d1 s1 nn1 sm1 ps1 := a in
  let 'UD n2 k2 c2 z2 d2 s2 nn2 sm2 ps2 := b in
  Bool.eqb n1 n2 && (k1 =? k2) && (c1 =? c2) && Bool.eqb z1 z2 && (d1 =? d2) && (s1 =? s2) &&
  (nn1 =? nn2) && (sm1 =? sm2) && (ps1 =? ps2).

(* ---------- unique sketch histories over a small register file ---------- *)

Inductive uop :=
| UInsert (r : nat) (vs : list Z)            (* sk[r].Insert(v) for every v *)
| UInsHashes (r : nat) (hs : list Z)         (* insertHash(h) for every h (after the nil check of Insert) *)
| UInsRange (r : nat) (a step n : Z)         (* insertHash(uint32(a + k*step)) for k < n *)
| UMerge (r1 r2 : nat)                       (* sk[r1].Merge(sk[r2]), r1 <> r2 *)
| UMergeRead (r1 r2 : nat)                   (* sk[r1].MergeRead(Marshall(sk[r2])) *)
| UReset (r : nat)                           (* sk[r].Reset() *)
| UUnmarshal (r : nat) (sd : Z) (items : list Z). (* sk[r] = ChUnique{}; sk[r].MergeRead(wire(sd, len items, items)) *)

Definition upd {A} (l : list A) (i : nat) (x : A) : list A :=
  firstn i l ++ x :: skipn (S i) l.

Definition range_hashes (a step n : Z) : list Z :=
  snd (loop (fun '(k, acc) => if n <=? k then ((k, acc), false) else ((k + 1, lowbits (a + k * step) 32 :: acc), true)) (0, [])).

Definition t_nonnil (s : tsk) : tsk := if t_nil s then t_reset s else s.

(* one step on the table level and, in lockstep, on the set level *)
Definition ustep (fixed : bool) (st : list tsk * list sk) (o : uop) : list tsk * list sk * nat :=
  let '(ts, ss) := st in
  let M := uniques_max_size in
  match o with
  | UInsert r vs =>
      let t := fold_left t_insert vs (nth r ts tsk_nil) in
      let s := fold_left (fun s v => s_insert_hash M s (uint_hash32 v)) vs (nth r ss sk0) in
      (upd ts r t, upd ss r s, r)
  | UInsHashes r hs =>
      let t := fold_left t_insert_hash hs (t_nonnil (nth r ts tsk_nil)) in
      let s := fold_left (s_insert_hash M) hs (nth r ss sk0) in
      (upd ts r t, upd ss r s, r)
  | UInsRange r a step n =>
      let hs := rev' (range_hashes a step n) in
      let t := fold_left t_insert_hash hs (t_nonnil (nth r ts tsk_nil)) in
      let s := fold_left (s_insert_hash M) hs (nth r ss sk0) in
      (upd ts r t, upd ss r s, r)
  | UMerge r1 r2 =>
      let a := nth r1 ts tsk_nil in let b := nth r2 ts tsk_nil in
      let t := t_merge fixed a b in
      let s := if t_nil b then nth r1 ss sk0
               else s_merge M fixed (nth r1 ss sk0) (t_skip b) (t_zero b) (t_order b) in
      (upd ts r1 t, upd ss r1 s, r1)
  | UMergeRead r1 r2 =>
      let a := nth r1 ts tsk_nil in let b := t_nonnil (nth r2 ts tsk_nil) in
      let w := t_wire b in
      let t := t_merge_read fixed a w in
      let s := if t_nil a then t_abs t
               else s_merge_read M fixed (nth r1 ss sk0) (fst (fst w)) (snd w) in
      (upd ts r1 t, upd ss r1 s, r1)
  | UReset r => (upd ts r (t_reset tsk_nil), upd ss r sk0, r)
  | UUnmarshal r sd items =>
      let t := t_unmarshal (sd, Z.of_nat (length items), items) in
      (upd ts r t, upd ss r (t_abs t), r)
  end.

(* after every op: the digest of the touched register equals the observed one, and the abstraction of
   the table equals the set-level state *)
Fixpoint urun (fixed : bool) (st : list tsk * list sk) (ops : list uop) (obs : list udig) : bool :=
  match ops, obs with
  | [], [] => true
  | o :: ops', d :: obs' =>
      let '(ts, ss, r) := ustep fixed st o in
      udig_eqb (t_digest (nth r ts tsk_nil)) d && sk_eqb (t_abs (nth r ts tsk_nil)) (nth r ss sk0) &&
      urun fixed (ts, ss) ops' obs'
  | _, _ => false
  end.

Definition regs0 : list tsk * list sk := (repeat tsk_nil 4, repeat sk0 4).

(* ---------- MultiValue merge trees ---------- *)

Fixpoint tmap {A B} (f : A -> B) (t : tree A) : tree B :=
  match t with Leaf a => Leaf (f a) | Node l r => Node (tmap f l) (tmap f r) end.

(* leaf i = ItemValue built from its events, HLL built by Insert of its unique values *)
Fixpoint build_leaves (ls : list (list event * list Z)) (ds : list Z) : list ivalue * list Z :=
  match ls with
  | [] => ([], ds)
  | (es, _) :: ls' =>
      let '(v, ds1) := apply_events ivalue0 es ds in
      let '(vs, ds2) := build_leaves ls' ds1 in (v :: vs, ds2)
  end.

Fixpoint eval_uniq (fixed : bool) (t : tree tsk) : tsk :=
  match t with Leaf a => a | Node l r => t_merge fixed (eval_uniq fixed l) (eval_uniq fixed r) end.

(* ---------- API rows ---------- *)

Inductive tsobs := TsObs (mn mx sm cnt sq card : Q) (minarg : Z) (minval : Q) (maxarg : Z) (maxval : Q).
Definition tsv_of (o : tsobs) : tsv :=
  let 'TsObs mn mx sm cnt sq card mina minv maxa maxv := o in
  {| ts_min := mn; ts_max := mx; ts_sum := sm; ts_count := cnt; ts_sumsq := sq; ts_card := card;
     ts_minh := {| a_arg := mina; a_val := minv |}; ts_maxh := {| a_arg := maxa; a_val := maxv |} |}.
Definition tsv_eqb (a b : tsv) : bool :=
  Qeq_bool (ts_min a) (ts_min b) && Qeq_bool (ts_max a) (ts_max b) && Qeq_bool (ts_sum a) (ts_sum b) &&
  Qeq_bool (ts_count a) (ts_count b) && Qeq_bool (ts_sumsq a) (ts_sumsq b) && Qeq_bool (ts_card a) (ts_card b) &&
  (a_arg (ts_minh a) =? a_arg (ts_minh b)) && Qeq_bool (a_val (ts_minh a)) (a_val (ts_minh b)) &&
  (a_arg (ts_maxh a) =? a_arg (ts_maxh b)) && Qeq_bool (a_val (ts_maxh a)) (a_val (ts_maxh b)).

(* tsValues.merge on (unique, mergeCount): the first merge deep-copies through a fresh sketch *)
Definition ts_merge_u (fixed : bool) (v r : tsk * Z) : tsk * Z :=
  let '(vu, mc) := v in
  ((if mc =? 0 then t_merge fixed (t_merge fixed tsk_nil vu) (fst r) else t_merge fixed vu (fst r)), mc + 1).
Fixpoint eval_ts_u (fixed : bool) (t : tree (tsk * Z)) : tsk * Z :=
  match t with Leaf a => a | Node l r => ts_merge_u fixed (eval_ts_u fixed l) (eval_ts_u fixed r) end.

(* ---------- cases ---------- *)

Inductive case :=
(* MultiValue.Merge over a tree of leaves; ds = draws of rng.Uint64n in consumption order (all consumed) *)
| CVal (ls : list (list event * list Z)) (t : tree nat) (ds : list Z) (o : vobs) (ou : udig)
(* ChUnique history *)
| CUniq (ops : list uop) (obs : list udig)
(* tsValues.merge over a tree of rows; every row carries the unique values inserted into its sketch *)
| CTs (rows : list (tsobs * list Z)) (t : tree nat) (o : tsobs) (ou : udig) (omc : Z).

Definition ok_with (fixed : bool) (c : case) : bool :=
  match c with
  | CVal ls t ds o ou =>
      let '(vs, ds1) := build_leaves ls ds in
      let '(v, ds2) := eval_value (tmap (fun i => nth i vs ivalue0) t) ds1 in
      let us := map (fun l => fold_left t_insert (snd l) tsk_nil) ls in
      let u := eval_uniq fixed (tmap (fun i => nth i us tsk_nil) t) in
      vobs_ok v o && match ds2 with [] => true | _ => false end && udig_eqb (t_digest u) ou
  | CUniq ops obs => urun fixed regs0 ops obs
  | CTs rows t o ou omc =>
      let vs := map (fun r => tsv_of (fst r)) rows in
      let us := map (fun r => (fold_left t_insert (snd r) tsk_nil, 0)) rows in
      let v := eval_ts (tmap (fun i => nth i vs (tsv_of o)) t) in
      let '(u, mc) := eval_ts_u fixed (tmap (fun i => nth i us (tsk_nil, 0)) t) in
      tsv_eqb v (tsv_of o) && udig_eqb (t_digest u) ou && (mc =? omc)
  end.

Definition ok (c : case) : bool := if ok_with false c then true else ok_with true c.

Definition mism := mismatches ok.
