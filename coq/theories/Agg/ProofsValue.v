(* C04, value part: count/min/max/sum/sumsq and host tags of ItemValue.Merge trees and tsValues.merge trees
   are functions of the multiset of leaves (over Q), for every stream of rng draws. *)
From Coq Require Import ZArith QArith Qround List Bool Lqa Permutation.
From SH Require Import Agg.Model.
Import ListNotations.
Open Scope Q_scope.

Definition cnt (v : ivalue) : Q := c_cnt (v_c v).

Section Sum.
  Context {A : Type}.
  Fixpoint sumQ (f : A -> Q) (ls : list A) : Q :=
    match ls with [] => 0 | l :: r => f l + sumQ f r end.
  Lemma sumQ_app f a b : sumQ f (a ++ b) == sumQ f a + sumQ f b.
  Proof. induction a; simpl; [lra | rewrite IHa; lra]. Qed.
  Lemma sumQ_perm f a b : Permutation a b -> sumQ f a == sumQ f b.
  Proof. induction 1; simpl; lra. Qed.
End Sum.

Lemma Qleb0_true q : Qleb0 q = true -> q <= 0.
Proof. unfold Qleb0. apply Qle_bool_iff. Qed.
Lemma Qleb0_false q : Qleb0 q = false -> 0 < q.
Proof.
  unfold Qleb0. intros H. apply Qnot_le_lt. intros C. apply Qle_bool_iff in C. congruence.
Qed.
Lemma Qltb_true a b : Qltb a b = true -> a < b.
Proof.
  unfold Qltb. intros H. apply negb_true_iff in H. apply Qnot_le_lt. intros C. apply Qle_bool_iff in C. congruence.
Qed.
Lemma Qltb_false a b : Qltb a b = false -> b <= a.
Proof. unfold Qltb. intros H. apply negb_false_iff in H. apply Qle_bool_iff. exact H. Qed.

(* the guards under which the property is stated: counters are non-negative (negative counters are rejected
   at ingestion) and an ItemValue without values has zero sums (true of every value the package constructs) *)
Definition wfv (v : ivalue) : Prop := 0 <= cnt v /\ (v_set v = false -> v_sum v == 0 /\ v_sumsq v == 0).

(* ---------- ItemCounter.Merge ---------- *)
Lemma merge_counter_spec s o ds c ds' :
  merge_counter s o ds = (c, ds') -> 0 <= c_cnt s -> 0 <= c_cnt o ->
  c_cnt c == c_cnt s + c_cnt o /\
  (0 < c_cnt c -> (0 < c_cnt s /\ c_host c = c_host s) \/ (0 < c_cnt o /\ c_host c = c_host o)).
Proof.
  unfold merge_counter. intros H Hs Ho.
  destruct (Qleb0 (c_cnt o)) eqn:Eo.
  - apply Qleb0_true in Eo. inversion H; subst. split; [lra|]. intros Hc. left. split; [lra|reflexivity].
  - apply Qleb0_false in Eo. destruct (Qleb0 (c_cnt s)) eqn:Es.
    + apply Qleb0_true in Es. inversion H; subst; simpl. split; [lra|]. intros _. right. split; [lra|reflexivity].
    + apply Qleb0_false in Es. destruct (Z.eqb (c_host s) (c_host o)) eqn:Eh.
      * inversion H; subst; simpl. split; [lra|]. intros _. left. split; [lra|reflexivity].
      * inversion H; subst; simpl. split; [lra|]. intros _.
        destruct (Z.leb _ _); [right|left]; split; try lra; reflexivity.
Qed.

(* ---------- induction over merge trees ---------- *)
Lemma eval_value_ind (P : list ivalue -> ivalue -> Prop) :
  (forall a, P [a] a) ->
  (forall la lb a b ds r ds', P la a -> P lb b -> merge_value a b ds = (r, ds') -> P (la ++ lb) r) ->
  forall t ds r ds', eval_value t ds = (r, ds') -> P (leaves t) r.
Proof.
  intros Hl Hm. induction t as [a | l IHl r0 IHr]; intros ds r ds' H; simpl in *.
  - inversion H; subst. apply Hl.
  - destruct (eval_value l ds) as [a ds1] eqn:E1. destruct (eval_value r0 ds1) as [b ds2] eqn:E2.
    eapply Hm; eauto.
Qed.

(* ---------- count, sum, sumsq, ValueSet ---------- *)
Definition sums_spec (ls : list ivalue) (r : ivalue) : Prop :=
  Forall wfv ls ->
  wfv r /\ cnt r == sumQ cnt ls /\ v_sum r == sumQ v_sum ls /\ v_sumsq r == sumQ v_sumsq ls /\
  v_set r = existsb v_set ls.

Lemma merge_value_sums la lb a b ds r ds' :
  sums_spec la a -> sums_spec lb b -> merge_value a b ds = (r, ds') -> sums_spec (la ++ lb) r.
Proof.
  unfold sums_spec. intros Ha Hb H W. apply Forall_app in W. destruct W as [Wa Wb].
  destruct (Ha Wa) as ((Ha0 & Ha1) & Ha2 & Ha3 & Ha4 & Ha5).
  destruct (Hb Wb) as ((Hb0 & Hb1) & Hb2 & Hb3 & Hb4 & Hb5).
  unfold merge_value in H. destruct (merge_counter (v_c a) (v_c b) ds) as [cn ds1] eqn:Ec.
  apply merge_counter_spec in Ec; [|exact Ha0|exact Hb0]. destruct Ec as [Ec _].
  rewrite existsb_app, !sumQ_app. unfold wfv, cnt in *.
  destruct (v_set b) eqn:Sb; simpl in H; inversion H; subst; clear H; simpl.
  - split; [split; [lra | intros; discriminate]|]. split; [lra|]. split; [lra|]. split; [lra|].
    rewrite <- Hb5. rewrite orb_true_r. reflexivity.
  - destruct (Hb1 eq_refl) as [Z1 Z2]. split; [split; [lra | intros E; destruct (Ha1 E); split; lra]|].
    split; [lra|]. split; [lra|]. split; [lra|].
    rewrite <- Ha5, <- Hb5. rewrite orb_false_r. reflexivity.
Qed.

Lemma eval_value_sums t ds r ds' : eval_value t ds = (r, ds') -> sums_spec (leaves t) r.
Proof.
  apply eval_value_ind.
  - intros a W. inversion W; subst. unfold cnt. simpl.
    split; [exact H1|]. split; [lra|]. split; [lra|]. split; [lra|]. rewrite orb_false_r. reflexivity.
  - intros. eapply merge_value_sums; eauto.
Qed.

(* ---------- min / max and their hosts ---------- *)
Definition min_spec (ls : list ivalue) (r : ivalue) : Prop :=
  v_set r = existsb v_set ls /\
  (v_set r = true ->
   (exists l, In l ls /\ v_set l = true /\ v_min l == v_min r /\ v_minh l = v_minh r) /\
   (forall l, In l ls -> v_set l = true -> v_min r <= v_min l)).
Definition max_spec (ls : list ivalue) (r : ivalue) : Prop :=
  v_set r = existsb v_set ls /\
  (v_set r = true ->
   (exists l, In l ls /\ v_set l = true /\ v_max l == v_max r /\ v_maxh l = v_maxh r) /\
   (forall l, In l ls -> v_set l = true -> v_max l <= v_max r)).

Lemma existsb_false_all {A} (f : A -> bool) ls : existsb f ls = false -> forall l, In l ls -> f l = false.
Proof.
  intros H l Hl. destruct (f l) eqn:E; [|reflexivity].
  assert (existsb f ls = true) by (apply existsb_exists; eauto). congruence.
Qed.

Lemma merge_value_min la lb a b ds r ds' :
  min_spec la a -> min_spec lb b -> merge_value a b ds = (r, ds') -> min_spec (la ++ lb) r.
Proof.
  unfold min_spec. intros [Ha Ha'] [Hb Hb'] H.
  unfold merge_value in H. destruct (merge_counter (v_c a) (v_c b) ds) as [cn ds1].
  rewrite existsb_app.
  destruct (v_set b) eqn:Sb; simpl in H; inversion H; subst; clear H; simpl.
  - destruct (Hb' eq_refl) as [(lb0 & Ib & Sl & Ml & Mh) Lb]. split; [rewrite <- Hb; apply eq_sym, orb_true_r|]. intros _.
    destruct (v_set a) eqn:Sa; simpl.
    + destruct (Ha' eq_refl) as [(la0 & Ia & Sla & Mla & Mha) La].
      destruct (Qltb (v_min b) (v_min a)) eqn:E.
      * apply Qltb_true in E. split.
        -- exists lb0. rewrite in_app_iff. auto.
        -- intros l Hl Sl'. apply in_app_iff in Hl. destruct Hl as [Hl|Hl]; [specialize (La l Hl Sl'); lra | apply Lb; auto].
      * apply Qltb_false in E. split.
        -- exists la0. rewrite in_app_iff. auto.
        -- intros l Hl Sl'. apply in_app_iff in Hl. destruct Hl as [Hl|Hl]; [apply La; auto | specialize (Lb l Hl Sl'); lra].
    + split.
      * exists lb0. rewrite in_app_iff. auto.
      * intros l Hl Sl'. apply in_app_iff in Hl. destruct Hl as [Hl|Hl]; [|apply Lb; auto].
        symmetry in Ha. rewrite (existsb_false_all _ _ Ha l Hl) in Sl'. discriminate.
  - split; [rewrite <- Ha, <- Hb; apply eq_sym, orb_false_r|]. intros Sa.
    destruct (Ha' Sa) as [(la0 & Ia & Sla & Mla & Mha) La]. split.
    + exists la0. rewrite in_app_iff. auto.
    + intros l Hl Sl'. apply in_app_iff in Hl. destruct Hl as [Hl|Hl]; [apply La; auto|].
      symmetry in Hb. rewrite (existsb_false_all _ _ Hb l Hl) in Sl'. discriminate.
Qed.

Lemma merge_value_max la lb a b ds r ds' :
  max_spec la a -> max_spec lb b -> merge_value a b ds = (r, ds') -> max_spec (la ++ lb) r.
Proof.
  unfold max_spec. intros [Ha Ha'] [Hb Hb'] H.
  unfold merge_value in H. destruct (merge_counter (v_c a) (v_c b) ds) as [cn ds1].
  rewrite existsb_app.
  destruct (v_set b) eqn:Sb; simpl in H; inversion H; subst; clear H; simpl.
  - destruct (Hb' eq_refl) as [(lb0 & Ib & Sl & Ml & Mh) Lb]. split; [rewrite <- Hb; apply eq_sym, orb_true_r|]. intros _.
    destruct (v_set a) eqn:Sa; simpl.
    + destruct (Ha' eq_refl) as [(la0 & Ia & Sla & Mla & Mha) La].
      destruct (Qltb (v_max a) (v_max b)) eqn:E.
      * apply Qltb_true in E. split.
        -- exists lb0. rewrite in_app_iff. auto.
        -- intros l Hl Sl'. apply in_app_iff in Hl. destruct Hl as [Hl|Hl]; [specialize (La l Hl Sl'); lra | apply Lb; auto].
      * apply Qltb_false in E. split.
        -- exists la0. rewrite in_app_iff. auto.
        -- intros l Hl Sl'. apply in_app_iff in Hl. destruct Hl as [Hl|Hl]; [apply La; auto | specialize (Lb l Hl Sl'); lra].
    + split.
      * exists lb0. rewrite in_app_iff. auto.
      * intros l Hl Sl'. apply in_app_iff in Hl. destruct Hl as [Hl|Hl]; [|apply Lb; auto].
        symmetry in Ha. rewrite (existsb_false_all _ _ Ha l Hl) in Sl'. discriminate.
  - split; [rewrite <- Ha, <- Hb; apply eq_sym, orb_false_r|]. intros Sa.
    destruct (Ha' Sa) as [(la0 & Ia & Sla & Mla & Mha) La]. split.
    + exists la0. rewrite in_app_iff. auto.
    + intros l Hl Sl'. apply in_app_iff in Hl. destruct Hl as [Hl|Hl]; [apply La; auto|].
      symmetry in Hb. rewrite (existsb_false_all _ _ Hb l Hl) in Sl'. discriminate.
Qed.

Lemma leaf_min a : min_spec [a] a.
Proof.
  unfold min_spec; simpl. split; [apply eq_sym, orb_false_r|]. intros S. split.
  - exists a. repeat split; auto; lra.
  - intros l [<-|[]] _. lra.
Qed.
Lemma leaf_max a : max_spec [a] a.
Proof.
  unfold max_spec; simpl. split; [apply eq_sym, orb_false_r|]. intros S. split.
  - exists a. repeat split; auto; lra.
  - intros l [<-|[]] _. lra.
Qed.

Lemma eval_value_min t ds r ds' : eval_value t ds = (r, ds') -> min_spec (leaves t) r.
Proof. apply eval_value_ind; [apply leaf_min | intros; eapply merge_value_min; eauto]. Qed.
Lemma eval_value_max t ds r ds' : eval_value t ds = (r, ds') -> max_spec (leaves t) r.
Proof. apply eval_value_ind; [apply leaf_max | intros; eapply merge_value_max; eauto]. Qed.

(* ---------- max-count host ---------- *)
Definition host_spec (ls : list ivalue) (r : ivalue) : Prop :=
  Forall wfv ls ->
  0 <= cnt r /\ (0 < cnt r -> exists l, In l ls /\ 0 < cnt l /\ c_host (v_c l) = c_host (v_c r)).

Lemma merge_value_host la lb a b ds r ds' :
  host_spec la a -> host_spec lb b -> merge_value a b ds = (r, ds') -> host_spec (la ++ lb) r.
Proof.
  unfold host_spec. intros Ha Hb H W. apply Forall_app in W. destruct W as [Wa Wb].
  destruct (Ha Wa) as [Ha0 Ha1]. destruct (Hb Wb) as [Hb0 Hb1]. unfold cnt in *.
  unfold merge_value in H. destruct (merge_counter (v_c a) (v_c b) ds) as [cn ds1] eqn:Ec.
  apply merge_counter_spec in Ec; [|exact Ha0|exact Hb0]. destruct Ec as [Ec Eh].
  assert (v_c r = cn) as -> by (destruct (negb (v_set b)); inversion H; reflexivity).
  split; [lra|]. intros Hc. destruct (Eh Hc) as [[P E]|[P E]].
  - destruct (Ha1 P) as (l & Il & Pl & El). exists l. rewrite in_app_iff. repeat split; auto. congruence.
  - destruct (Hb1 P) as (l & Il & Pl & El). exists l. rewrite in_app_iff. repeat split; auto. congruence.
Qed.

Lemma eval_value_host t ds r ds' : eval_value t ds = (r, ds') -> host_spec (leaves t) r.
Proof.
  apply eval_value_ind.
  - intros a W. inversion W; subst. destruct H1 as [H1 _]. split; [exact H1|]. intros P. exists a. simpl. auto.
  - intros. eapply merge_value_host; eauto.
Qed.

(* ---------- the theorems ---------- *)

(* any two merge trees over permutations of the same leaves, any two rng streams *)
Theorem value_merge_tree_perm t1 t2 ds1 ds2 r1 r2 ds1' ds2' :
  Forall wfv (leaves t1) -> Permutation (leaves t1) (leaves t2) ->
  eval_value t1 ds1 = (r1, ds1') -> eval_value t2 ds2 = (r2, ds2') ->
  cnt r1 == cnt r2 /\ v_sum r1 == v_sum r2 /\ v_sumsq r1 == v_sumsq r2 /\ v_set r1 = v_set r2 /\
  (v_set r1 = true -> v_min r1 == v_min r2 /\ v_max r1 == v_max r2).
Proof.
  intros W P E1 E2.
  assert (W2 : Forall wfv (leaves t2)) by (eapply Permutation_Forall; eauto).
  destruct (eval_value_sums _ _ _ _ E1 W) as (_ & C1 & S1 & Q1 & B1).
  destruct (eval_value_sums _ _ _ _ E2 W2) as (_ & C2 & S2 & Q2 & B2).
  destruct (eval_value_min _ _ _ _ E1) as [_ M1]. destruct (eval_value_min _ _ _ _ E2) as [_ M2].
  destruct (eval_value_max _ _ _ _ E1) as [_ X1]. destruct (eval_value_max _ _ _ _ E2) as [_ X2].
  assert (B : v_set r1 = v_set r2).
  { rewrite B1, B2. apply eq_true_iff_eq. rewrite !existsb_exists.
    split; intros (x & I & Hx); exists x; split; auto;
      [eapply Permutation_in; eauto | eapply Permutation_in; [apply Permutation_sym|]; eauto]. }
  rewrite C1, C2, S1, S2, Q1, Q2, (sumQ_perm cnt _ _ P), (sumQ_perm v_sum _ _ P), (sumQ_perm v_sumsq _ _ P).
  repeat split; try reflexivity; try exact B.
  - destruct (M1 H) as [(l1 & I1 & Sl1 & E1' & _) L1]. destruct (M2 (eq_trans (eq_sym B) H)) as [(l2 & I2 & Sl2 & E2' & _) L2].
    assert (v_min r1 <= v_min l2) by (apply L1; auto; eapply Permutation_in; [apply Permutation_sym|]; eauto).
    assert (v_min r2 <= v_min l1) by (apply L2; auto; eapply Permutation_in; eauto).
    lra.
  - destruct (X1 H) as [(l1 & I1 & Sl1 & E1' & _) L1]. destruct (X2 (eq_trans (eq_sym B) H)) as [(l2 & I2 & Sl2 & E2' & _) L2].
    assert (v_max l2 <= v_max r1) by (apply L1; auto; eapply Permutation_in; [apply Permutation_sym|]; eauto).
    assert (v_max l1 <= v_max r2) by (apply L2; auto; eapply Permutation_in; eauto).
    lra.
Qed.

(* the result is the aggregate of the leaves *)
Theorem value_merge_tree_totals t ds r ds' :
  Forall wfv (leaves t) -> eval_value t ds = (r, ds') ->
  cnt r == sumQ cnt (leaves t) /\ v_sum r == sumQ v_sum (leaves t) /\ v_sumsq r == sumQ v_sumsq (leaves t).
Proof. intros W E. destruct (eval_value_sums _ _ _ _ E W) as (_ & C & S & Q & _). auto. Qed.

Theorem min_host_contributed t ds r ds' :
  eval_value t ds = (r, ds') -> v_set r = true ->
  exists l, In l (leaves t) /\ v_set l = true /\ v_min l == v_min r /\ v_minh l = v_minh r /\
            (forall l', In l' (leaves t) -> v_set l' = true -> v_min l <= v_min l').
Proof.
  intros E S. destruct (eval_value_min _ _ _ _ E) as [_ M]. destruct (M S) as [(l & I & Sl & El & Hl) L].
  exists l. repeat split; auto. intros l' I' S'. specialize (L l' I' S'). lra.
Qed.

Theorem max_host_contributed t ds r ds' :
  eval_value t ds = (r, ds') -> v_set r = true ->
  exists l, In l (leaves t) /\ v_set l = true /\ v_max l == v_max r /\ v_maxh l = v_maxh r /\
            (forall l', In l' (leaves t) -> v_set l' = true -> v_max l' <= v_max l).
Proof.
  intros E S. destruct (eval_value_max _ _ _ _ E) as [_ M]. destruct (M S) as [(l & I & Sl & El & Hl) L].
  exists l. repeat split; auto. intros l' I' S'. specialize (L l' I' S'). lra.
Qed.

Theorem max_count_host_in_inputs t ds r ds' :
  Forall wfv (leaves t) -> eval_value t ds = (r, ds') -> 0 < cnt r ->
  exists l, In l (leaves t) /\ 0 < cnt l /\ c_host (v_c l) = c_host (v_c r).
Proof. intros W E P. destruct (eval_value_host _ _ _ _ E W) as [_ H]. auto. Qed.

(* ---------- leaves built from contributions (AddCounterHost / AddValueCounterHost) ---------- *)
Definition ev_count (e : event) : Q := match e with ECount c _ => c | EValue _ c _ => c end.
Definition ev_host (e : event) : Z := match e with ECount _ h => h | EValue _ _ h => h end.

Lemma apply_event_wf s e ds s' ds' :
  wfv s -> 0 <= ev_count e -> apply_event s e ds = (s', ds') ->
  wfv s' /\ cnt s' == cnt s + ev_count e /\
  (0 < cnt s' -> (0 < cnt s /\ c_host (v_c s') = c_host (v_c s)) \/ (0 < ev_count e /\ c_host (v_c s') = ev_host e)).
Proof.
  intros [W0 W1] He H. unfold apply_event, add_counter_host in H.
  destruct e as [c h | v c h]; simpl in *;
  destruct (merge_counter (v_c s) {| c_cnt := c; c_host := h |} ds) as [cn ds1] eqn:Ec;
  apply merge_counter_spec in Ec; simpl; auto; destruct Ec as [Ec Eh]; simpl in *;
  inversion H; subst; clear H; unfold wfv, cnt in *; simpl.
  - repeat split; try lra; try apply W1; auto.
  - repeat split; try lra; try discriminate; auto.
Qed.

Theorem events_leaf_wf es : forall s ds s' ds',
  wfv s -> Forall (fun e => 0 <= ev_count e) es -> apply_events s es ds = (s', ds') ->
  wfv s' /\ cnt s' == cnt s + sumQ ev_count es /\
  (0 < cnt s' -> (0 < cnt s /\ c_host (v_c s') = c_host (v_c s)) \/
                 (exists e, In e es /\ 0 < ev_count e /\ c_host (v_c s') = ev_host e)).
Proof.
  induction es as [|e es IH]; intros s ds s' ds' W F H; simpl in *.
  - inversion H; subst. split; [exact W|]. split; [lra|]. intros P. left. auto.
  - inversion F; subst. destruct (apply_event s e ds) as [s1 ds1] eqn:E1.
    destruct (apply_event_wf _ _ _ _ _ W H2 E1) as (W1 & C1 & H1).
    destruct (IH _ _ _ _ W1 H3 H) as (W' & C' & H').
    split; [exact W'|]. split; [lra|]. intros P. destruct (H' P) as [[P1 E]|(e' & I & Pe & E)].
    + destruct (H1 P1) as [[P0 E0]|[Pe E0]]; [left; split; auto; congruence | right; exists e; split; auto; split; auto; congruence].
    + right. exists e'. auto.
Qed.

(* ---------- API rows: tsValues.merge ---------- *)
Definition ts_spec (ls : list tsv) (r : tsv) : Prop :=
  ts_sum r == sumQ ts_sum ls /\ ts_count r == sumQ ts_count ls /\ ts_sumsq r == sumQ ts_sumsq ls /\ ts_card r == sumQ ts_card ls /\
  ((exists l, In l ls /\ ts_min l == ts_min r) /\ (forall l, In l ls -> ts_min r <= ts_min l)) /\
  ((exists l, In l ls /\ ts_max l == ts_max r) /\ (forall l, In l ls -> ts_max l <= ts_max r)) /\
  ((exists l, In l ls /\ ts_minh l = ts_minh r) /\ (forall l, In l ls -> a_val (ts_minh r) <= a_val (ts_minh l))) /\
  ((exists l, In l ls /\ ts_maxh l = ts_maxh r) /\ (forall l, In l ls -> a_val (ts_maxh l) <= a_val (ts_maxh r))).

Lemma eval_ts_spec t : ts_spec (leaves t) (eval_ts t).
Proof.
  induction t as [a | l IHl r IHr]; simpl.
  - unfold ts_spec; simpl. repeat split; try lra; try (exists a; split; auto; lra); try (exists a; split; auto);
      intros l [<-|[]]; lra.
  - destruct IHl as (A1 & A2 & A3 & A4 & [(m1 & I1 & E1) L1] & [(x1 & J1 & F1) K1] & [(h1 & P1 & G1) Q1] & [(g1 & R1 & T1) U1]).
    destruct IHr as (B1 & B2 & B3 & B4 & [(m2 & I2 & E2) L2] & [(x2 & J2 & F2) K2] & [(h2 & P2 & G2) Q2] & [(g2 & R2 & T2) U2]).
    unfold ts_spec, ts_merge, argmin_merge, argmax_merge; simpl. rewrite !sumQ_app.
    repeat split; try lra.
    + destruct (Qltb (ts_min (eval_ts r)) (ts_min (eval_ts l))); [exists m2|exists m1]; rewrite in_app_iff; auto.
    + intros x Hx. apply in_app_iff in Hx.
      destruct (Qltb (ts_min (eval_ts r)) (ts_min (eval_ts l))) eqn:E; [apply Qltb_true in E|apply Qltb_false in E];
        destruct Hx as [Hx|Hx]; [specialize (L1 x Hx)|specialize (L2 x Hx)|specialize (L1 x Hx)|specialize (L2 x Hx)]; lra.
    + destruct (Qltb (ts_max (eval_ts l)) (ts_max (eval_ts r))); [exists x2|exists x1]; rewrite in_app_iff; auto.
    + intros x Hx. apply in_app_iff in Hx.
      destruct (Qltb (ts_max (eval_ts l)) (ts_max (eval_ts r))) eqn:E; [apply Qltb_true in E|apply Qltb_false in E];
        destruct Hx as [Hx|Hx]; [specialize (K1 x Hx)|specialize (K2 x Hx)|specialize (K1 x Hx)|specialize (K2 x Hx)]; lra.
    + destruct (Qltb (a_val (ts_minh (eval_ts r))) (a_val (ts_minh (eval_ts l)))); [exists h2|exists h1]; rewrite in_app_iff; auto.
    + intros x Hx. apply in_app_iff in Hx.
      destruct (Qltb (a_val (ts_minh (eval_ts r))) (a_val (ts_minh (eval_ts l)))) eqn:E; [apply Qltb_true in E|apply Qltb_false in E];
        destruct Hx as [Hx|Hx]; [specialize (Q1 x Hx)|specialize (Q2 x Hx)|specialize (Q1 x Hx)|specialize (Q2 x Hx)]; lra.
    + destruct (Qltb (a_val (ts_maxh (eval_ts l))) (a_val (ts_maxh (eval_ts r)))); [exists g2|exists g1]; rewrite in_app_iff; auto.
    + intros x Hx. apply in_app_iff in Hx.
      destruct (Qltb (a_val (ts_maxh (eval_ts l))) (a_val (ts_maxh (eval_ts r)))) eqn:E; [apply Qltb_true in E|apply Qltb_false in E];
        destruct Hx as [Hx|Hx]; [specialize (U1 x Hx)|specialize (U2 x Hx)|specialize (U1 x Hx)|specialize (U2 x Hx)]; lra.
Qed.

Theorem ts_merge_tree_perm t1 t2 :
  Permutation (leaves t1) (leaves t2) ->
  let r1 := eval_ts t1 in let r2 := eval_ts t2 in
  ts_sum r1 == ts_sum r2 /\ ts_count r1 == ts_count r2 /\ ts_sumsq r1 == ts_sumsq r2 /\ ts_card r1 == ts_card r2 /\
  ts_min r1 == ts_min r2 /\ ts_max r1 == ts_max r2 /\
  a_val (ts_minh r1) == a_val (ts_minh r2) /\ a_val (ts_maxh r1) == a_val (ts_maxh r2).
Proof.
  intros P r1 r2.
  destruct (eval_ts_spec t1) as (A1 & A2 & A3 & A4 & [(m1 & I1 & E1) L1] & [(x1 & J1 & F1) K1] & [(h1 & P1 & G1) Q1] & [(g1 & R1 & T1) U1]).
  destruct (eval_ts_spec t2) as (B1 & B2 & B3 & B4 & [(m2 & I2 & E2) L2] & [(x2 & J2 & F2) K2] & [(h2 & P2 & G2) Q2] & [(g2 & R2 & T2) U2]).
  pose proof (Permutation_sym P) as P'.
  subst r1 r2. rewrite A1, A2, A3, A4, B1, B2, B3, B4.
  rewrite (sumQ_perm ts_sum _ _ P), (sumQ_perm ts_count _ _ P), (sumQ_perm ts_sumsq _ _ P), (sumQ_perm ts_card _ _ P).
  repeat split; try reflexivity.
  - pose proof (L1 m2 (Permutation_in _ P' I2)). pose proof (L2 m1 (Permutation_in _ P I1)). lra.
  - pose proof (K1 x2 (Permutation_in _ P' J2)). pose proof (K2 x1 (Permutation_in _ P J1)). lra.
  - pose proof (Q1 h2 (Permutation_in _ P' P2)). pose proof (Q2 h1 (Permutation_in _ P P1)). rewrite <- G1, <- G2 in *. lra.
  - pose proof (U1 g2 (Permutation_in _ P' R2)). pose proof (U2 g1 (Permutation_in _ P R1)). rewrite <- T1, <- T2 in *. lra.
Qed.

Theorem ts_min_host_contributed t :
  exists l, In l (leaves t) /\ ts_minh l = ts_minh (eval_ts t) /\
            forall l', In l' (leaves t) -> a_val (ts_minh l) <= a_val (ts_minh l').
Proof.
  destruct (eval_ts_spec t) as (_ & _ & _ & _ & _ & _ & [(h & P & G) Q] & _).
  exists h. repeat split; auto. intros l' I. rewrite G. auto.
Qed.
Theorem ts_max_host_contributed t :
  exists l, In l (leaves t) /\ ts_maxh l = ts_maxh (eval_ts t) /\
            forall l', In l' (leaves t) -> a_val (ts_maxh l') <= a_val (ts_maxh l).
Proof.
  destruct (eval_ts_spec t) as (_ & _ & _ & _ & _ & _ & _ & [(h & P & G) Q]).
  exists h. repeat split; auto. intros l' I. rewrite G. auto.
Qed.
