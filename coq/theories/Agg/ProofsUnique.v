(* C04, unique sketch part (set level). *)
From Coq Require Import ZArith List Bool Lia MSets.MSetPositive MSets.MSetProperties MSets.MSetFacts Permutation.
From SH Require Import Gen.AggConsts Agg.Model.
Import ListNotations.
Open Scope Z_scope.

Module PSP := MSetProperties.WPropertiesOn PositiveSet.E PositiveSet.
Module PSF := MSetFacts.WFactsOn PositiveSet.E PositiveSet.

(* ---------- well-formed sketches and enumerations of the right operand ---------- *)
Definition wfs (M : Z) (s : sk) : Prop :=
  0 <= s_skip s /\
  (forall p, PS.In p (s_elems s) -> goodp (s_skip s) p = true /\ Zpos p < 2 ^ 32) /\
  s_cnt s = card (s_elems s) + b2z (s_zero s) /\
  s_cnt s <= M.

(* the order in which Merge walks the table of the right operand: any list of exactly its non-zero hashes *)
Definition enumerates (ord : list Z) (e : PS.t) : Prop :=
  forall x, In x ord <-> exists p, x = Zpos p /\ PS.In p e.

Definition merge_sk (M : Z) (fixed : bool) (a b : sk) (ord : list Z) : sk :=
  s_merge M fixed a (s_skip b) (s_zero b) ord.

Definition set_of (l : list positive) : PS.t := fold_right PS.add PS.empty l.
Definition mk (d : Z) (l : list positive) (z : bool) : sk :=
  {| s_skip := d; s_elems := set_of l; s_zero := z; s_cnt := card (set_of l) + b2z z |}.

(* ---------- the code as it is does not commute (F-C04a) ---------- *)
Definition wit_a : sk := mk 1 [2; 4]%positive false.   (* a sketch already thinned to degree 1 *)
Definition wit_b : sk := mk 0 [1; 3]%positive false.   (* a small, unthinned sketch *)

Lemma wit_wf : wfs uniques_max_size wit_a /\ wfs uniques_max_size wit_b.
Proof.
  split; (split; [vm_compute; congruence|]); (split; [|split; vm_compute; congruence]).
  - intros p H. apply PS.elements_spec1 in H. vm_compute in H.
    repeat match goal with H : SetoidList.InA _ _ _ |- _ => inversion H; clear H; subst end; vm_compute; split; congruence.
  - intros p H. apply PS.elements_spec1 in H. vm_compute in H.
    repeat match goal with H : SetoidList.InA _ _ _ |- _ => inversion H; clear H; subst end; vm_compute; split; congruence.
Qed.

Lemma enumerates_elements l e : (forall x, In x l <-> exists p, x = Zpos p /\ In p (PS.elements e)) -> enumerates l e.
Proof.
  intros H x. rewrite H. split; intros (p & E & I); exists p; split; auto.
  - apply PS.elements_spec1. apply SetoidList.In_InA; auto with typeclass_instances.
  - apply PS.elements_spec1 in I. apply SetoidList.InA_alt in I. destruct I as (y & -> & I). exact I.
Qed.

Lemma unique_merge_comm_refuted_lemma_enum_a : enumerates [2; 4] (s_elems wit_a).
Proof.
  apply enumerates_elements. vm_compute. intros x. split.
  - intros [<-|[<-|[]]]; eexists; split; eauto.
  - intros (p & -> & [<-|[<-|[]]]); auto.
Qed.
Lemma unique_merge_comm_refuted_lemma_enum_b : enumerates [1; 3] (s_elems wit_b).
Proof.
  apply enumerates_elements. vm_compute. intros x. split.
  - intros [<-|[<-|[]]]; eexists; split; eauto.
  - intros (p & -> & [<-|[<-|[]]]); auto.
Qed.

Lemma unique_merge_comm_refuted_lemma :
  exists a b orda ordb,
    wfs uniques_max_size a /\ wfs uniques_max_size b /\ enumerates orda (s_elems a) /\ enumerates ordb (s_elems b) /\
    s_size_as_is (merge_sk uniques_max_size false a b ordb) = 8 /\
    s_size_as_is (merge_sk uniques_max_size false b a orda) = 4.
Proof.
  exists wit_a, wit_b, [2; 4], [1; 3].
  split; [apply wit_wf|]. split; [apply wit_wf|].
  split; [|split].
  - apply enumerates_elements. vm_compute. intros x. split.
    + intros [<-|[<-|[]]]; eexists; split; eauto.
    + intros (p & -> & [<-|[<-|[]]]); auto.
  - apply enumerates_elements. vm_compute. intros x. split.
    + intros [<-|[<-|[]]]; eexists; split; eauto.
    + intros (p & -> & [<-|[<-|[]]]); auto.
  - split; vm_compute; reflexivity.
Qed.

(* =========================================================================================== *)
(* The repaired variant: the result of a merge is canonical                                     *)

Definition filt (d : Z) (e : PS.t) : PS.t := PS.filter (goodp d) e.
Definition bounded (X : PS.t) : Prop := forall p, PS.In p X -> Zpos p < 2 ^ 32.

Lemma compat_goodp d : Proper (Logic.eq ==> Logic.eq) (goodp d).
Proof. intros x y ->. reflexivity. Qed.

Lemma filt_spec d X p : PS.In p (filt d X) <-> PS.In p X /\ goodp d p = true.
Proof. unfold filt. apply PS.filter_spec. apply compat_goodp. Qed.

Lemma good_iff d x : 0 <= d -> (good d x = true <-> x mod 2 ^ d = 0).
Proof.
  intros Hd. unfold good, lowbits. rewrite Z.land_ones by lia. apply Z.eqb_eq.
Qed.

Lemma good_mono d d' x : 0 <= d <= d' -> good d' x = true -> good d x = true.
Proof.
  intros Hd H. apply good_iff in H; [|lia]. apply good_iff; [lia|].
  apply Z.mod_divide in H; [|apply Z.pow_nonzero; lia]. apply Z.mod_divide; [apply Z.pow_nonzero; lia|].
  eapply Z.divide_trans; [|exact H]. exists (2 ^ (d' - d)). rewrite <- Z.pow_add_r by lia. f_equal. lia.
Qed.

Lemma good_big d p : 32 <= d -> Zpos p < 2 ^ 32 -> goodp d p = false.
Proof.
  intros Hd Hp. unfold goodp. destruct (good d (Zpos p)) eqn:E; [|reflexivity].
  apply good_iff in E; [|lia]. rewrite Z.mod_small in E; [lia|].
  split; [lia|]. eapply Z.lt_le_trans; [exact Hp|]. apply Z.pow_le_mono_r; lia.
Qed.

Lemma filt_equal d X X' : PS.Equal X X' -> PS.Equal (filt d X) (filt d X').
Proof. intros E p. rewrite !filt_spec. rewrite (E p). reflexivity. Qed.

Lemma filt_filt d d' X : 0 <= d <= d' -> PS.Equal (filt d' (filt d X)) (filt d' X).
Proof.
  intros Hd p. rewrite !filt_spec. split; [tauto|]. intros [I G]. repeat split; auto.
  unfold goodp in *. eapply good_mono; eauto.
Qed.

Lemma card_equal X X' : PS.Equal X X' -> card X = card X'.
Proof. intros E. unfold card. f_equal. apply PSP.Equal_cardinal. exact E. Qed.

Lemma card_subset X X' : PS.Subset X X' -> card X <= card X'.
Proof. intros E. unfold card. apply inj_le. apply PSP.subset_cardinal. exact E. Qed.

Lemma card_add p X : ~ PS.In p X -> card (PS.add p X) = card X + 1.
Proof. intros H. unfold card. rewrite PSP.add_cardinal_2 by exact H. lia. Qed.

Lemma card_nonneg X : 0 <= card X.
Proof. unfold card. lia. Qed.

Lemma filt_subset d X X' : PS.Subset X X' -> PS.Subset (filt d X) (filt d X').
Proof. intros S p. rewrite !filt_spec. intros [I G]. split; auto. Qed.

Lemma filt_empty_big d X : 32 <= d -> bounded X -> card (filt d X) = 0.
Proof.
  intros Hd B. rewrite (card_equal _ PS.empty); [reflexivity|].
  intros p. rewrite filt_spec. split.
  - intros [I G]. rewrite (good_big d p Hd (B p I)) in G. discriminate.
  - intros I. apply PSF.empty_iff in I. tauto.
Qed.

(* [s] is the canonical sketch of the hash set X with zero flag z, thinned no less than d0:
   it holds exactly the hashes of X divisible by 2^skip, and skip is the least degree >= d0 at which
   they fit into M items *)
Definition pre (M d0 : Z) (X : PS.t) (z : bool) (s : sk) : Prop :=
  d0 <= s_skip s /\ PS.Equal (s_elems s) (filt (s_skip s) X) /\ s_zero s = z /\
  s_cnt s = card (s_elems s) + b2z z /\
  (forall d, d0 <= d < s_skip s -> M < card (filt d X) + b2z z).
Definition canon (M d0 : Z) (X : PS.t) (z : bool) (s : sk) : Prop := pre M d0 X z s /\ s_cnt s <= M.

Lemma pre_equal M d0 X X' z s : PS.Equal X X' -> pre M d0 X z s -> pre M d0 X' z s.
Proof.
  intros E (A & B & C & D & F). repeat split; auto.
  - intros I. apply (filt_equal _ _ _ E). apply B. exact I.
  - intros I. apply B. apply (filt_equal _ _ _ E). exact I.
  - intros d Hd. rewrite <- (card_equal _ _ (filt_equal d _ _ E)). auto.
Qed.

Lemma pre_grow M d0 X X' z s :
  PS.Subset X X' -> PS.Equal (filt (s_skip s) X) (filt (s_skip s) X') -> pre M d0 X z s -> pre M d0 X' z s.
Proof.
  intros S E (A & B & C & D & F). repeat split; auto.
  - intros I. apply E. apply B. exact I.
  - intros I. apply B. apply E. exact I.
  - intros d Hd. pose proof (card_subset _ _ (filt_subset d _ _ S)). specialize (F d Hd). lia.
Qed.

Lemma b2z_range z : 0 <= b2z z <= 1.
Proof. destruct z; simpl; lia. Qed.

Lemma thin_canon M d0 X z : 1 <= M -> 0 <= d0 -> bounded X ->
  forall fuel s, pre M d0 X z s -> 32 - s_skip s < Z.of_nat fuel -> canon M d0 X z (s_thin M fuel s).
Proof.
  intros HM Hd0 HB. induction fuel as [|f IH]; intros s P Hf.
  - assert (s_cnt s <= M).
    { destruct P as (A & B & C & D & F). rewrite D, (card_equal _ _ B), filt_empty_big; auto; try lia.
      pose proof (b2z_range z). lia. }
    simpl. destruct (s_cnt s <=? M); split; auto.
  - simpl. destruct (s_cnt s <=? M) eqn:E.
    + apply Z.leb_le in E. split; auto.
    + apply Z.leb_gt in E. apply IH.
      * destruct P as (A & B & C & D & F). unfold pre, s_rehash_to; simpl.
        split; [lia|]. split; [|split; [exact C|split; [rewrite C; reflexivity|]]].
        -- intros p. etransitivity; [apply (filt_equal (s_skip s + 1) _ _ B p) | apply filt_filt; lia].
        -- intros d Hd. destruct (Z.eq_dec d (s_skip s)) as [->|N].
           ++ rewrite <- (card_equal _ _ B). lia.
           ++ apply F. lia.
      * unfold s_rehash_to. cbn [s_skip]. lia.
Qed.

Lemma shrink_canon M d0 X z s : 1 <= M -> 0 <= d0 -> bounded X -> pre M d0 X z s -> canon M d0 X z (s_shrink M s).
Proof.
  intros HM Hd0 HB P. unfold s_shrink. apply thin_canon; auto. destruct P as (A & _). replace (Z.of_nat 300) with 300 by reflexivity. lia.
Qed.

Lemma thin_id M fuel s : s_cnt s <= M -> s_thin M fuel s = s.
Proof. intros H. apply Z.leb_le in H. destruct fuel; simpl; rewrite H; reflexivity. Qed.
Lemma shrink_id M s : s_cnt s <= M -> s_shrink M s = s.
Proof. intros H. unfold s_shrink. apply thin_id. exact H. Qed.

(* one incoming hash *)
Lemma step_canon M d0 X z s p rskip : 1 <= M -> 0 <= d0 -> bounded X -> Zpos p < 2 ^ 32 ->
  canon M d0 X z s -> canon M d0 (PS.add p X) z (s_merge_step M true rskip s (Zpos p)).
Proof.
  intros HM Hd0 HB Hp [P L]. unfold s_merge_step.
  assert (HB' : bounded (PS.add p X)).
  { intros q I. apply PS.add_spec in I. destruct I as [->|I]; auto. }
  destruct (good (s_skip s) (Zpos p)) eqn:G.
  - unfold s_insert_impl. destruct (PS.mem p (s_elems s)) eqn:Mm.
    + rewrite shrink_id by exact L. split; auto.
      apply PS.mem_spec in Mm. destruct P as (A & B & C & D & F). apply (B p) in Mm. apply filt_spec in Mm.
      eapply pre_equal; [|exact (conj A (conj B (conj C (conj D F))))].
      intros q. rewrite PS.add_spec. split; auto. intros [->|I]; tauto.
    + apply shrink_canon; auto.
      assert (N : ~ PS.In p (s_elems s)) by (intros I; apply PS.mem_spec in I; congruence).
      destruct P as (A & B & C & D & F). repeat split; simpl; auto.
      * intros I. apply PS.add_spec in I. apply filt_spec. rewrite PS.add_spec.
        destruct I as [->|I]; [split; auto|]. apply (B a) in I. apply filt_spec in I. tauto.
      * intros I. apply filt_spec in I. destruct I as [I Gq]. apply PS.add_spec. apply PS.add_spec in I.
        destruct I as [->|I]; auto. right. apply (B a). apply filt_spec. auto.
      * rewrite card_add by exact N. lia.
      * intros d Hd. specialize (F d Hd).
        assert (PS.Subset X (PS.add p X)) by (intros q I; apply PS.add_spec; auto).
        pose proof (card_subset _ _ (filt_subset d _ _ H)). lia.
  - split; auto. eapply pre_grow; [| |exact P].
    + intros q I. apply PS.add_spec; auto.
    + intros q. rewrite !filt_spec, PS.add_spec. split; [tauto|]. intros [[->|I] Gq]; auto.
      unfold goodp in Gq. congruence.
Qed.

Definition add_hash (X : PS.t) (x : Z) : PS.t := match x with Zpos p => PS.add p X | _ => X end.

Lemma fold_canon M d0 z rskip : 1 <= M -> 0 <= d0 ->
  forall ord s X, (forall x, In x ord -> exists p, x = Zpos p /\ Zpos p < 2 ^ 32) -> bounded X ->
  canon M d0 X z s ->
  canon M d0 (fold_left add_hash ord X) z (fold_left (s_merge_step M true rskip) ord s) /\
  bounded (fold_left add_hash ord X).
Proof.
  intros HM Hd0. induction ord as [|x ord IH]; intros s X Ho HB C; simpl; auto.
  destruct (Ho x (or_introl eq_refl)) as (p & -> & Hp). apply IH.
  - intros y I. apply Ho. right. exact I.
  - intros q I. simpl in I. apply PS.add_spec in I. destruct I as [->|I]; auto.
  - simpl. apply step_canon; auto.
Qed.

Lemma fold_add_in ord : forall X q, PS.In q (fold_left add_hash ord X) <-> PS.In q X \/ In (Zpos q) ord.
Proof.
  induction ord as [|x ord IH]; intros X q; simpl; [tauto|]. rewrite IH.
  destruct x; simpl; try rewrite PS.add_spec; split; intros H; try tauto.
  - destruct H as [H|H]; auto. destruct H as [H|H]; auto; discriminate.
  - destruct H as [[->|H]|H]; auto.
  - destruct H as [H|[H|H]]; auto. inversion H; subst. auto.
  - destruct H as [H|H]; auto. destruct H as [H|H]; auto; discriminate.
Qed.

(* Merge of two well-formed sketches, repaired variant: the result is canonical for the union *)
Theorem merge_canon M a b ord : 1 <= M -> wfs M a -> wfs M b -> enumerates ord (s_elems b) ->
  canon M (Z.max (s_skip a) (s_skip b)) (PS.union (s_elems a) (s_elems b)) (s_zero a || s_zero b)
        (merge_sk M true a b ord) /\
  bounded (PS.union (s_elems a) (s_elems b)).
Proof.
  intros HM (A0 & A1 & A2 & A3) (B0 & B1 & B2 & B3) En.
  set (d0 := Z.max (s_skip a) (s_skip b)).
  assert (Hd0 : 0 <= d0) by (unfold d0; lia).
  assert (HBa : bounded (s_elems a)) by (intros p I; apply A1; auto).
  unfold merge_sk, s_merge.
  (* after raising the skip degree *)
  set (a1 := if s_skip a <? s_skip b then s_rehash_to a (s_skip b) else a).
  assert (C1 : canon M d0 (s_elems a) (s_zero a) a1).
  { unfold a1. destruct (s_skip a <? s_skip b) eqn:E.
    - apply Z.ltb_lt in E.
      assert (Sub : PS.Subset (filt (s_skip b) (s_elems a)) (s_elems a)) by (intros p I; apply filt_spec in I; tauto).
      pose proof (card_subset _ _ Sub) as Hc. unfold filt in Hc.
      split.
      + unfold pre, s_rehash_to; cbn [s_skip s_elems s_zero s_cnt].
        split; [unfold d0; lia|]. split; [intros p; reflexivity|]. split; [reflexivity|]. split; [reflexivity|].
        intros d Hd. unfold d0 in Hd. lia.
      + unfold s_rehash_to; cbn [s_cnt]. lia.
    - apply Z.ltb_ge in E. split; [|exact A3].
      unfold pre. split; [unfold d0; lia|]. split; [|split; [reflexivity|split; [exact A2|]]].
      + intros p. rewrite filt_spec. split; [intros I; split; auto; apply A1; auto | tauto].
      + intros d Hd. unfold d0 in Hd. lia. }
  (* the zero item *)
  set (z := s_zero a || s_zero b).
  set (a2 := if negb (s_zero a1) && s_zero b then
               s_shrink M {| s_skip := s_skip a1; s_elems := s_elems a1; s_zero := true; s_cnt := s_cnt a1 + 1 |}
             else a1).
  assert (Z1 : s_zero a1 = s_zero a).
  { unfold a1. destruct (s_skip a <? s_skip b); reflexivity. }
  assert (C2 : canon M d0 (s_elems a) z a2).
  { unfold a2, z. rewrite Z1. destruct (s_zero a) eqn:Za; cbn [negb andb orb].
    - exact C1.
    - destruct (s_zero b) eqn:Zb; cbn [andb orb]; [|exact C1].
      apply shrink_canon; auto. destruct C1 as [(P1 & P2 & P3 & P4 & P5) L].
      unfold pre; cbn [s_skip s_elems s_zero s_cnt].
      split; [exact P1|]. split; [exact P2|]. split; [reflexivity|]. split; [rewrite P4; cbn [b2z]; lia|].
      intros d Hd. specialize (P5 d Hd). cbn [b2z] in *. lia. }
  fold a1. fold a2.
  assert (Ho : forall x, In x ord -> exists p, x = Zpos p /\ Zpos p < 2 ^ 32).
  { intros x I. apply En in I. destruct I as (p & -> & I). exists p. split; auto. apply B1; auto. }
  destruct (fold_canon M d0 z (s_skip b) HM Hd0 ord a2 (s_elems a) Ho HBa C2) as [[P L] HB].
  assert (EqX : PS.Equal (fold_left add_hash ord (s_elems a)) (PS.union (s_elems a) (s_elems b))).
  { intros q. rewrite fold_add_in, PS.union_spec. split; intros [H|H]; auto.
    - right. apply En in H. destruct H as (p & E & I). inversion E; subst. exact I.
    - right. apply En. exists q. auto. }
  split; [split; auto; eapply pre_equal; eauto|].
  intros q I. apply EqX in I. auto.
Qed.

Lemma canon_unique M d0 X z s1 s2 : canon M d0 X z s1 -> canon M d0 X z s2 ->
  s_skip s1 = s_skip s2 /\ PS.Equal (s_elems s1) (s_elems s2) /\ s_zero s1 = s_zero s2 /\ s_cnt s1 = s_cnt s2 /\
  s_size_as_is s1 = s_size_as_is s2.
Proof.
  intros [(A1 & B1 & C1 & D1 & F1) L1] [(A2 & B2 & C2 & D2 & F2) L2].
  assert (E : s_skip s1 = s_skip s2).
  { destruct (Z.lt_trichotomy (s_skip s1) (s_skip s2)) as [H|[H|H]]; auto.
    - specialize (F2 (s_skip s1) (conj A1 H)). rewrite <- (card_equal _ _ B1) in F2. lia.
    - specialize (F1 (s_skip s2) (conj A2 H)). rewrite <- (card_equal _ _ B2) in F1. lia. }
  assert (EE : PS.Equal (s_elems s1) (s_elems s2)).
  { intros p. split; intros I; [apply B2; rewrite <- E; apply B1; exact I | apply B1; rewrite E; apply B2; exact I]. }
  assert (EC : s_cnt s1 = s_cnt s2) by (rewrite D1, D2, (card_equal _ _ EE); reflexivity).
  split; [exact E|]. split; [exact EE|]. split; [congruence|]. split; [exact EC|].
  unfold s_size_as_is. rewrite E, EC. reflexivity.
Qed.

(* the two sides of a merge agree *)
Theorem unique_merge_comm M a b orda ordb : 1 <= M -> wfs M a -> wfs M b ->
  enumerates orda (s_elems a) -> enumerates ordb (s_elems b) ->
  let ab := merge_sk M true a b ordb in let ba := merge_sk M true b a orda in
  s_skip ab = s_skip ba /\ PS.Equal (s_elems ab) (s_elems ba) /\ s_zero ab = s_zero ba /\ s_cnt ab = s_cnt ba /\
  s_size_as_is ab = s_size_as_is ba.
Proof.
  intros HM Wa Wb Ea Eb ab ba.
  destruct (merge_canon M a b ordb HM Wa Wb Eb) as [[P1 L1] _].
  destruct (merge_canon M b a orda HM Wb Wa Ea) as [[P2 L2] _].
  apply (canon_unique M (Z.max (s_skip a) (s_skip b)) (PS.union (s_elems a) (s_elems b)) (s_zero a || s_zero b)).
  - split; auto.
  - split; auto. rewrite Z.max_comm, orb_comm. eapply pre_equal; [|exact P2].
    intros q. rewrite !PS.union_spec. tauto.
Qed.

(* =========================================================================================== *)
(* Any merge tree of sketches (repaired variant): the result is the canonical sketch of all leaves *)

Inductive evals (M : Z) : tree sk -> sk -> Prop :=
| ev_leaf a : evals M (Leaf a) a
| ev_node l r a b ord : evals M l a -> evals M r b -> enumerates ord (s_elems b) ->
    evals M (Node l r) (merge_sk M true a b ord).

Fixpoint lskip (ls : list sk) : Z := match ls with [] => 0 | a :: r => Z.max (s_skip a) (lskip r) end.
Fixpoint lunion (ls : list sk) : PS.t := match ls with [] => PS.empty | a :: r => PS.union (s_elems a) (lunion r) end.
Fixpoint lzero (ls : list sk) : bool := match ls with [] => false | a :: r => s_zero a || lzero r end.

Lemma lskip_nonneg ls : 0 <= lskip ls.
Proof. induction ls; simpl; lia. Qed.
Lemma lskip_app a b : lskip (a ++ b) = Z.max (lskip a) (lskip b).
Proof. induction a; simpl; [pose proof (lskip_nonneg b); lia | rewrite IHa; lia]. Qed.
Lemma lunion_in ls p : PS.In p (lunion ls) <-> exists a, In a ls /\ PS.In p (s_elems a).
Proof.
  induction ls as [|x ls IH]; simpl.
  - split; [intros H; apply PSF.empty_iff in H; tauto | intros (a & [] & _)].
  - rewrite PS.union_spec, IH. split.
    + intros [H|(a & I & H)]; [exists x; auto | exists a; auto].
    + intros (a & [<-|I] & H); [auto | right; exists a; auto].
Qed.
Lemma lzero_app a b : lzero (a ++ b) = lzero a || lzero b.
Proof. induction a; simpl; [reflexivity | rewrite IHa, orb_assoc; reflexivity]. Qed.
Lemma lzero_true ls : lzero ls = true <-> exists a, In a ls /\ s_zero a = true.
Proof.
  induction ls as [|x ls IH]; simpl.
  - split; [discriminate | intros (a & [] & _)].
  - rewrite orb_true_iff, IH. split.
    + intros [H|(a & I & H)]; [exists x; auto | exists a; auto].
    + intros (a & [<-|I] & H); [auto | right; exists a; auto].
Qed.

Lemma lskip_perm a b : Permutation a b -> lskip a = lskip b.
Proof. induction 1; simpl; lia. Qed.
Lemma lunion_perm a b : Permutation a b -> PS.Equal (lunion a) (lunion b).
Proof.
  intros P p. rewrite !lunion_in. split; intros (x & I & H); exists x; split; auto;
    [eapply Permutation_in; eauto | eapply Permutation_in; [apply Permutation_sym|]; eauto].
Qed.
Lemma lzero_perm a b : Permutation a b -> lzero a = lzero b.
Proof.
  intros P. apply eq_true_iff_eq. rewrite !lzero_true. split; intros (x & I & H); exists x; split; auto;
    [eapply Permutation_in; eauto | eapply Permutation_in; [apply Permutation_sym|]; eauto].
Qed.

Lemma canon_wfs M d0 X z s : 0 <= d0 -> bounded X -> canon M d0 X z s -> wfs M s.
Proof.
  intros Hd HB [(A & B & C & D & F) L]. split; [lia|]. split; [|split; [rewrite C; exact D|exact L]].
  intros p I. apply B in I. apply filt_spec in I. destruct I as [I G]. split; auto.
Qed.

Lemma filt_union_lift d sa sb Xl Xr ea eb :
  0 <= sa <= d -> 0 <= sb <= d -> PS.Equal ea (filt sa Xl) -> PS.Equal eb (filt sb Xr) ->
  PS.Equal (filt d (PS.union ea eb)) (filt d (PS.union Xl Xr)).
Proof.
  intros Ha Hb Ea Eb p. rewrite !filt_spec, !PS.union_spec, (Ea p), (Eb p), !filt_spec. split.
  - intros [[[I _]|[I _]] G]; auto.
  - intros [[I|I] G]; split; auto; [left|right]; split; auto; unfold goodp in *; eapply good_mono; eauto.
Qed.

Lemma b2z_orb_l a b : b2z a <= b2z (a || b).
Proof. destruct a, b; simpl; lia. Qed.
Lemma b2z_orb_r a b : b2z b <= b2z (a || b).
Proof. destruct a, b; simpl; lia. Qed.

Lemma canon_lift M Dl Dr Xl Xr zl zr a b s : 0 <= Dl -> 0 <= Dr ->
  canon M Dl Xl zl a -> canon M Dr Xr zr b ->
  canon M (Z.max (s_skip a) (s_skip b)) (PS.union (s_elems a) (s_elems b)) (s_zero a || s_zero b) s ->
  canon M (Z.max Dl Dr) (PS.union Xl Xr) (zl || zr) s.
Proof.
  intros HDl HDr [(A1 & B1 & C1 & D1 & F1) L1] [(A2 & B2 & C2 & D2 & F2) L2] [(P1 & P2 & P3 & P4 & P5) L].
  rewrite C1, C2 in *.
  split; [|exact L]. split; [lia|]. split; [|split; [exact P3|split; [exact P4|]]].
  - intros p. rewrite (P2 p). apply filt_union_lift with (sa := s_skip a) (sb := s_skip b); auto; lia.
  - intros d Hd.
    destruct (Z_lt_dec d (s_skip a)) as [Ha|Ha].
    + specialize (F1 d ltac:(lia)).
      assert (S : PS.Subset (filt d Xl) (filt d (PS.union Xl Xr))).
      { apply filt_subset. intros q I. apply PS.union_spec. auto. }
      pose proof (card_subset _ _ S). pose proof (b2z_orb_l zl zr). lia.
    + destruct (Z_lt_dec d (s_skip b)) as [Hb|Hb].
      * specialize (F2 d ltac:(lia)).
        assert (S : PS.Subset (filt d Xr) (filt d (PS.union Xl Xr))).
        { apply filt_subset. intros q I. apply PS.union_spec. auto. }
        pose proof (card_subset _ _ S). pose proof (b2z_orb_r zl zr). lia.
      * specialize (P5 d ltac:(lia)).
        rewrite (card_equal _ _ (filt_union_lift d (s_skip a) (s_skip b) Xl Xr _ _ ltac:(lia) ltac:(lia) B1 B2)) in P5.
        exact P5.
Qed.

Theorem tree_canon M t s : 1 <= M -> Forall (wfs M) (leaves t) -> evals M t s ->
  canon M (lskip (leaves t)) (lunion (leaves t)) (lzero (leaves t)) s /\ bounded (lunion (leaves t)).
Proof.
  intros HM W E. induction E as [a | l r a b ord El IHl Er IHr En].
  - simpl in *. inversion W as [|? ? Wa _]; subst. destruct Wa as (A0 & A1 & A2 & A3).
    assert (HB : bounded (PS.union (s_elems a) PS.empty)).
    { intros p I. apply PS.union_spec in I. destruct I as [I|I]; [apply A1; auto | apply PSF.empty_iff in I; tauto]. }
    split; [|exact HB]. split; [|exact A3].
    split; [lia|]. split; [|split; [apply eq_sym, orb_false_r|split; [rewrite orb_false_r; exact A2|]]].
    + intros p. rewrite filt_spec, PS.union_spec. split.
      * intros I. split; auto. apply A1; auto.
      * intros [[I|I] _]; auto. apply PSF.empty_iff in I. tauto.
    + intros d Hd. lia.
  - simpl in W. apply Forall_app in W. destruct W as [Wl Wr].
    destruct (IHl Wl) as [Ca HBa]. destruct (IHr Wr) as [Cb HBb].
    pose proof (lskip_nonneg (leaves l)) as Nl. pose proof (lskip_nonneg (leaves r)) as Nr.
    pose proof (canon_wfs _ _ _ _ _ Nl HBa Ca) as Wa. pose proof (canon_wfs _ _ _ _ _ Nr HBb Cb) as Wb.
    destruct (merge_canon M a b ord HM Wa Wb En) as [Cs _].
    pose proof (canon_lift _ _ _ _ _ _ _ _ _ _ Nl Nr Ca Cb Cs) as C.
    simpl. rewrite lskip_app, lzero_app.
    assert (EqU : PS.Equal (PS.union (lunion (leaves l)) (lunion (leaves r))) (lunion (leaves l ++ leaves r))).
    { intros p. rewrite PS.union_spec, !lunion_in. split.
      - intros [(x & I & H)|(x & I & H)]; exists x; rewrite in_app_iff; auto.
      - intros (x & I & H). apply in_app_iff in I. destruct I; [left|right]; exists x; auto. }
    split.
    + destruct C as [P L]. split; auto. eapply pre_equal; eauto.
    + intros p I. apply EqU in I. apply PS.union_spec in I. destruct I; auto.
Qed.

(* any two merge trees over permutations of the same well-formed sketches, any table orders *)
Theorem unique_merge_tree_perm M t1 t2 s1 s2 : 1 <= M ->
  Forall (wfs M) (leaves t1) -> Permutation (leaves t1) (leaves t2) ->
  evals M t1 s1 -> evals M t2 s2 ->
  s_skip s1 = s_skip s2 /\ PS.Equal (s_elems s1) (s_elems s2) /\ s_zero s1 = s_zero s2 /\ s_cnt s1 = s_cnt s2 /\
  s_size_as_is s1 = s_size_as_is s2.
Proof.
  intros HM W P E1 E2.
  assert (W2 : Forall (wfs M) (leaves t2)) by (eapply Permutation_Forall; eauto).
  destruct (tree_canon M t1 s1 HM W E1) as [C1 _]. destruct (tree_canon M t2 s2 HM W2 E2) as [[P2 L2] _].
  eapply canon_unique; [exact C1|].
  rewrite (lskip_perm _ _ P), (lzero_perm _ _ P). split; auto.
  eapply pre_equal; [|exact P2]. apply PSP.equal_sym. apply lunion_perm. exact P.
Qed.
