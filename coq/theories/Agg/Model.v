(* C04 — aggregation merge (count/min/max/sum/sumsq, host tags, unique sketch).
   Model of: internal/data_model/max_host_probability.go (ItemCounter.Merge, AddCounterHost, CounterHostDistribution),
             internal/data_model/bucket.go (ItemValue.addOnlyValue/AddValueCounterHost/Merge, MultiValue.Merge),
             internal/data_model/ch_unique.go (ChUnique: table level [t_*] and set level [s_*]),
             internal/data_model/ch_arg_minmax_int32.go (ArgMin/ArgMax Merge),
             internal/api/tscache.go (tsValues.merge).
   Floats are exact rationals (Q); the rng is an explicit stream of draws; host tags are integers.
   Executable definitions only. *)
From Coq Require Import ZArith QArith Qround List Bool MSets.MSetPositive FSets.FMapPositive.
From SH Require Import Common.Wrap Gen.AggConsts.
Import ListNotations.
Open Scope Z_scope.

(* ------------------------------------------------------------------------------------------ *)
(* 1. ItemCounter / ItemValue                                                                  *)

Record counter := { c_cnt : Q; c_host : Z }.

Definition max_i64 : Z := 9223372036854775807.
(* CounterHostDistribution: clamp(uint64(floor(count + 0.5))) into [1, MaxInt64]; only called with count > 0 *)
Definition host_dist (c : Q) : Z := Z.max 1 (Z.min (Qfloor (c + (1 # 2))) max_i64).

Definition Qleb0 (q : Q) : bool := Qle_bool q 0.

(* ItemCounter.Merge(rng, other); [ds] = the draws rng.Uint64n will return, consumed from the head *)
Definition merge_counter (s o : counter) (ds : list Z) : counter * list Z :=
  if Qleb0 (c_cnt o) then (s, ds)
  else if Qleb0 (c_cnt s) then ({| c_cnt := c_cnt o; c_host := c_host o |}, ds)
  else if c_host s =? c_host o then ({| c_cnt := (c_cnt s + c_cnt o)%Q; c_host := c_host s |}, ds)
  else
    let w := host_dist (c_cnt s) in
    let d := hd 0 ds in
    ({| c_cnt := (c_cnt s + c_cnt o)%Q; c_host := if w <=? d then c_host o else c_host s |}, tl ds).

(* ItemCounter.AddCounterHost(rng, count, host): the code is a hand-inlined copy of Merge *)
Definition add_counter_host (s : counter) (count : Q) (host : Z) (ds : list Z) : counter * list Z :=
  merge_counter s {| c_cnt := count; c_host := host |} ds.

Record ivalue := {
  v_c : counter;
  v_min : Q; v_max : Q; v_sum : Q; v_sumsq : Q;
  v_minh : Z; v_maxh : Z;
  v_set : bool
}.

Definition counter0 : counter := {| c_cnt := 0; c_host := 0 |}.
Definition ivalue0 : ivalue :=
  {| v_c := counter0; v_min := 0; v_max := 0; v_sum := 0; v_sumsq := 0; v_minh := 0; v_maxh := 0; v_set := false |}.

Definition Qltb (a b : Q) : bool := negb (Qle_bool b a).

(* ItemValue.addOnlyValue(value, count, host) *)
Definition add_only_value (s : ivalue) (v c : Q) (h : Z) : ivalue :=
  let lo := negb (v_set s) || Qltb v (v_min s) in
  let hi := negb (v_set s) || Qltb (v_max s) v in
  {| v_c := v_c s;
     v_min := if lo then v else v_min s;
     v_max := if hi then v else v_max s;
     v_sum := (v_sum s + v * c)%Q;
     v_sumsq := (v_sumsq s + v * v * c)%Q;
     v_minh := if lo then h else v_minh s;
     v_maxh := if hi then h else v_maxh s;
     v_set := true |}.

Definition with_counter (s : ivalue) (c : counter) : ivalue :=
  {| v_c := c; v_min := v_min s; v_max := v_max s; v_sum := v_sum s; v_sumsq := v_sumsq s;
     v_minh := v_minh s; v_maxh := v_maxh s; v_set := v_set s |}.

(* one contribution: a counter event or a value event, with its host tag *)
Inductive event :=
| ECount (count : Q) (host : Z)              (* ItemValue.AddCounterHost *)
| EValue (value count : Q) (host : Z).       (* ItemValue.AddValueCounterHost *)

Definition apply_event (s : ivalue) (e : event) (ds : list Z) : ivalue * list Z :=
  match e with
  | ECount c h => let '(cn, ds') := add_counter_host (v_c s) c h ds in (with_counter s cn, ds')
  | EValue v c h => let '(cn, ds') := add_counter_host (v_c s) c h ds in (add_only_value (with_counter s cn) v c h, ds')
  end.

Fixpoint apply_events (s : ivalue) (es : list event) (ds : list Z) : ivalue * list Z :=
  match es with
  | [] => (s, ds)
  | e :: es' => let '(s', ds') := apply_event s e ds in apply_events s' es' ds'
  end.

(* ItemValue.Merge(rng, s2) *)
Definition merge_value (s s2 : ivalue) (ds : list Z) : ivalue * list Z :=
  let '(cn, ds') := merge_counter (v_c s) (v_c s2) ds in
  if negb (v_set s2) then (with_counter s cn, ds')
  else
    let lo := negb (v_set s) || Qltb (v_min s2) (v_min s) in
    let hi := negb (v_set s) || Qltb (v_max s) (v_max s2) in
    ({| v_c := cn;
        v_min := if lo then v_min s2 else v_min s;
        v_max := if hi then v_max s2 else v_max s;
        v_sum := (v_sum s + v_sum s2)%Q;
        v_sumsq := (v_sumsq s + v_sumsq s2)%Q;
        v_minh := if lo then v_minh s2 else v_minh s;
        v_maxh := if hi then v_maxh s2 else v_maxh s;
        v_set := true |}, ds').

(* binary merge trees; the left operand of every merge is the receiver *)
Inductive tree (A : Type) := Leaf (a : A) | Node (l r : tree A).
Arguments Leaf {A} a.
Arguments Node {A} l r.

Fixpoint leaves {A} (t : tree A) : list A :=
  match t with Leaf a => [a] | Node l r => leaves l ++ leaves r end.

(* the harness evaluates left subtree, right subtree, then merges: the draws are consumed in that order *)
Fixpoint eval_value (t : tree ivalue) (ds : list Z) : ivalue * list Z :=
  match t with
  | Leaf a => (a, ds)
  | Node l r =>
      let '(a, ds1) := eval_value l ds in
      let '(b, ds2) := eval_value r ds1 in
      merge_value a b ds2
  end.

(* ------------------------------------------------------------------------------------------ *)
(* 2. API rows: tsValues.merge (no "set" flag: rows are never empty) with ArgMin/ArgMax hosts   *)

Record argval := { a_arg : Z; a_val : Q }.
Definition argmin_merge (a r : argval) : argval := if Qltb (a_val r) (a_val a) then r else a.
Definition argmax_merge (a r : argval) : argval := if Qltb (a_val a) (a_val r) then r else a.

Record tsv := {
  ts_min : Q; ts_max : Q; ts_sum : Q; ts_count : Q; ts_sumsq : Q; ts_card : Q;
  ts_minh : argval; ts_maxh : argval
}.

Definition ts_merge (v r : tsv) : tsv :=
  {| ts_min := if Qltb (ts_min r) (ts_min v) then ts_min r else ts_min v;
     ts_max := if Qltb (ts_max v) (ts_max r) then ts_max r else ts_max v;
     ts_sum := (ts_sum v + ts_sum r)%Q;
     ts_count := (ts_count v + ts_count r)%Q;
     ts_sumsq := (ts_sumsq v + ts_sumsq r)%Q;
     ts_card := (ts_card v + ts_card r)%Q;
     ts_minh := argmin_merge (ts_minh v) (ts_minh r);
     ts_maxh := argmax_merge (ts_maxh v) (ts_maxh r) |}.

Fixpoint eval_ts (t : tree tsv) : tsv :=
  match t with Leaf a => a | Node l r => ts_merge (eval_ts l) (eval_ts r) end.

(* ------------------------------------------------------------------------------------------ *)
(* 3. ChUnique, common                                                                          *)

(* shifts and masks instead of / and mod: same values on non-negative numbers, much cheaper under vm_compute *)
Definition pow2 (d : Z) : Z := Z.shiftl 1 d.
Definition lowbits (x d : Z) : Z := Z.land x (Z.ones d).

(* ChUnique.good for skip degree d: x == (x >> d) << d on uint32 (a shift by >= 32 gives 0) *)
Definition good (d x : Z) : bool := lowbits x d =? 0.

(* uintHash32 (ClickHouse intHash32), 64-bit wrap explicit *)
Definition m64 (x : Z) : Z := lowbits x 64.
Definition rotr_or (k r : Z) : Z := Z.lor (Z.shiftr k r) (m64 (Z.shiftl k (64 - r))).
Definition uint_hash32 (key : Z) : Z :=
  let k := m64 ((two64 - 1 - key) + m64 (Z.shiftl key 18)) in
  let k := Z.lxor k (rotr_or k 31) in
  let k := m64 (k * 21) in
  let k := Z.lxor k (rotr_or k 11) in
  let k := m64 (k + m64 (Z.shiftl k 6)) in
  let k := Z.lxor k (rotr_or k 22) in
  lowbits k 32.

(* [fixed] selects the variant of the code: false = the code as it is (faithful),
   true = repaired (Merge filters incoming hashes with the receiver's current skip degree,
   MergeRead raises the receiver's skip degree to the incoming one) — finding F-C04. *)

(* ------------------------------------------------------------------------------------------ *)
(* 4. ChUnique at table level (open addressing, exactly the loops of the code)                  *)

Module PM := PositiveMap.

Record tsk := {
  t_nil : bool;          (* buf == nil *)
  t_buf : PM.t Z;        (* index i stored under key i+1; absent = 0 *)
  t_cnt : Z;             (* itemsCount *)
  t_sd : Z;              (* sizeDegree *)
  t_skip : Z;            (* skipDegree *)
  t_zero : bool          (* hasZeroItem *)
}.

Definition tsk_nil : tsk := {| t_nil := true; t_buf := PM.empty Z; t_cnt := 0; t_sd := 0; t_skip := 0; t_zero := false |}.

Definition bget (b : PM.t Z) (i : Z) : Z := match PM.find (Z.to_pos (i + 1)) b with Some x => x | None => 0 end.
Definition bset (b : PM.t Z) (i x : Z) : PM.t Z :=
  if x =? 0 then PM.remove (Z.to_pos (i + 1)) b else PM.add (Z.to_pos (i + 1)) x b.

Definition t_reset (s : tsk) : tsk :=
  {| t_nil := false; t_buf := PM.empty Z; t_cnt := 0; t_sd := uniques_initial_size_degree; t_skip := 0; t_zero := false |}.

Definition t_size (s : tsk) : Z := pow2 (t_sd s).
Definition t_place (s : tsk) (x : Z) : Z := lowbits (Z.shiftr x uniques_bits_for_skip) (t_sd s).
Definition t_next (s : tsk) (p : Z) : Z := lowbits (p + 1) (t_sd s).
Definition t_with_buf (s : tsk) (b : PM.t Z) : tsk :=
  {| t_nil := t_nil s; t_buf := b; t_cnt := t_cnt s; t_sd := t_sd s; t_skip := t_skip s; t_zero := t_zero s |}.
Definition t_with_cnt (s : tsk) (c : Z) : tsk :=
  {| t_nil := t_nil s; t_buf := t_buf s; t_cnt := c; t_sd := t_sd s; t_skip := t_skip s; t_zero := t_zero s |}.
Definition t_with_skip (s : tsk) (d : Z) : tsk :=
  {| t_nil := t_nil s; t_buf := t_buf s; t_cnt := t_cnt s; t_sd := t_sd s; t_skip := d; t_zero := t_zero s |}.

(* Loops over the table: [loop step st] iterates [step] until it answers "stop" (false); the fuel is a
   binary number larger than any table the code can allocate (2^18 slots), so it never runs out. *)
Section Loop.
  Context {S : Type} (step : S -> S * bool).
  Fixpoint loopP (p : positive) (s : S) : S * bool :=
    match p with
    | xH => step s
    | xO p' => let '(s1, c) := loopP p' s in if c then loopP p' s1 else (s1, false)
    | xI p' => let '(s0, c0) := step s in
               if c0 then (let '(s1, c) := loopP p' s0 in if c then loopP p' s1 else (s1, false)) else (s0, false)
    end.
  Definition loop (s : S) : S := fst (loopP 1048576%positive s).
End Loop.

(* insertImpl for x <> 0: probe from place(x) *)
Definition t_probe_insert (s : tsk) (p x : Z) : tsk :=
  fst (loop (fun '(s, p) =>
    let v := bget (t_buf s) p in
    if v =? x then ((s, p), false)
    else if v =? 0 then ((t_with_cnt (t_with_buf s (bset (t_buf s) p x)) (t_cnt s + 1), p), false)
    else ((s, t_next s p), true)) (s, p)).

Definition t_insert_impl (s : tsk) (x : Z) : tsk :=
  if x =? 0 then
    if t_zero s then s
    else {| t_nil := t_nil s; t_buf := t_buf s; t_cnt := t_cnt s + 1; t_sd := t_sd s; t_skip := t_skip s; t_zero := true |}
  else t_probe_insert s (t_place s x) x.

(* reinsertImpl *)
Definition t_reinsert (s : tsk) (x : Z) : tsk :=
  fst (loop (fun '(s, p) =>
    if bget (t_buf s) p =? 0 then ((t_with_buf s (bset (t_buf s) p x), p), false)
    else ((s, t_next s p), true)) (s, t_place s x)).

(* rehash, first loop: for i := 0; i < bufSize; i++ *)
Definition t_rehash1 (s : tsk) : tsk :=
  fst (loop (fun '(s, i) =>
    if t_size s <=? i then ((s, i), false)
    else
      let x := bget (t_buf s) i in
      if x =? 0 then ((s, i + 1), true)
      else if negb (good (t_skip s) x) then
        ((t_with_cnt (t_with_buf s (bset (t_buf s) i 0)) (t_cnt s - 1), i + 1), true)
      else if negb (i =? t_place s x) then
        ((t_reinsert (t_with_buf s (bset (t_buf s) i 0)) x, i + 1), true)
      else ((s, i + 1), true)) (s, 0)).
(* rehash, second loop: for i := 0; i < bufSize && buf[i] != 0; i++ *)
Definition t_rehash2 (s : tsk) : tsk :=
  fst (loop (fun '(s, i) =>
    if t_size s <=? i then ((s, i), false)
    else
      let x := bget (t_buf s) i in
      if x =? 0 then ((s, i), false)
      else if negb (i =? t_place s x) then
        ((t_reinsert (t_with_buf s (bset (t_buf s) i 0)) x, i + 1), true)
      else ((s, i + 1), true)) (s, 0)).
Definition t_rehash (s : tsk) : tsk := t_rehash2 (t_rehash1 s).

(* resize(newSizeDegree): for i := 0; i < oldSize || buf[i] != 0; i++ *)
Definition t_resize_find (s : tsk) (p x : Z) : Z :=
  loop (fun p => let v := bget (t_buf s) p in
                 if (v =? 0) || (v =? x) then (p, false) else (t_next s p, true)) p.
Definition t_resize (s : tsk) (nsd : Z) : tsk :=
  let old := t_size s in
  let s' := {| t_nil := t_nil s; t_buf := t_buf s; t_cnt := t_cnt s; t_sd := nsd; t_skip := t_skip s; t_zero := t_zero s |} in
  fst (loop (fun '(s, i) =>
    let x := bget (t_buf s) i in
    if negb ((i <? old) || negb (x =? 0)) then ((s, i), false)
    else if x =? 0 then ((s, i + 1), true)
    else
      let p0 := t_place s x in
      if p0 =? i then ((s, i + 1), true)
      else
        let p := t_resize_find s p0 x in
        if bget (t_buf s) p =? x then ((s, i + 1), true)
        else ((t_with_buf s (bset (bset (t_buf s) p x) i 0), i + 1), true)) (s', 0)).

(* shrinkIfNeed *)
Fixpoint t_thin (fuel : nat) (s : tsk) : tsk :=
  if t_cnt s <=? uniques_max_size then s
  else match fuel with
       | O => s
       | S f => t_thin f (t_rehash (t_with_skip s (t_skip s + 1)))
       end.
Definition t_shrink (s : tsk) : tsk :=
  if t_cnt s <=? pow2 (t_sd s - 1) then s
  else if uniques_max_size <? t_cnt s then t_thin 300%nat s
  else t_resize s (t_sd s + 1).

Definition t_insert_hash (s : tsk) (h : Z) : tsk :=
  if negb (good (t_skip s) h) then s else t_shrink (t_insert_impl s h).

(* Insert(val) *)
Definition t_insert (s : tsk) (v : Z) : tsk :=
  let s := if t_nil s then t_reset s else s in
  t_insert_hash s (uint_hash32 v).

(* the non-zero slots of the table in index order: what the loop of Merge sees *)
Definition t_order (s : tsk) : list Z :=
  if t_nil s then []
  else rev' (snd (loop (fun '(i, acc) =>
         if t_size s <=? i then ((i, acc), false)
         else let x := bget (t_buf s) i in ((i + 1, if x =? 0 then acc else x :: acc), true)) (0, []))).

(* Merge(rhs) *)
Definition t_merge (fixed : bool) (s rhs : tsk) : tsk :=
  if t_nil rhs then s
  else
    let s := if t_nil s then t_reset s else s in
    let s := if t_skip s <? t_skip rhs then t_rehash (t_with_skip s (t_skip rhs)) else s in
    let s := if negb (t_zero s) && t_zero rhs then
               t_shrink {| t_nil := t_nil s; t_buf := t_buf s; t_cnt := t_cnt s + 1; t_sd := t_sd s; t_skip := t_skip s; t_zero := true |}
             else s in
    fold_left (fun s x =>
                 if good (if fixed then t_skip s else t_skip rhs) x then t_shrink (t_insert_impl s x) else s)
              (t_order rhs) s.

(* Size(true) *)
(* int64(itemsCount) * (1 << skipDegree), converted to uint64: wraps, and is 0 for skipDegree >= 64 *)
Definition t_size_as_is (s : tsk) : Z := if t_skip s =? 0 then t_cnt s else m64 (t_cnt s * pow2 (t_skip s)).

(* wire form of Marshall: (skip byte, itemsCount, items: zero first if present, then table order) *)
Definition t_wire (s : tsk) : Z * Z * list Z :=
  (lowbits (t_skip s) 8, t_cnt s, (if t_zero s then [0] else []) ++ t_order s).

Definition size_degree_for (ic : Z) : Z :=
  if 1 <? ic then Z.max uniques_initial_size_degree (Z.log2 ic + 2) else uniques_initial_size_degree.

(* UmMarshall: trusts the wire (no good check, no dedup) *)
Definition t_unmarshal (w : Z * Z * list Z) : tsk :=
  let '(sd, ic, items) := w in
  let s0 := {| t_nil := false; t_buf := PM.empty Z; t_cnt := ic; t_sd := size_degree_for ic; t_skip := sd; t_zero := false |} in
  fold_left (fun s x => if x =? 0 then {| t_nil := false; t_buf := t_buf s; t_cnt := t_cnt s; t_sd := t_sd s; t_skip := t_skip s; t_zero := true |}
                        else t_reinsert s x) items s0.

(* MergeRead of a well-formed wire image (ic <= max size, enough bytes) *)
Definition t_merge_read (fixed : bool) (s : tsk) (w : Z * Z * list Z) : tsk :=
  if t_nil s then t_unmarshal w
  else
    let '(sd, ic, items) := w in
    let s := if t_skip s <? sd then t_rehash (if fixed then t_with_skip s sd else s) else s in
    let s := if pow2 (t_sd s) <? ic then t_resize s (Z.max uniques_initial_size_degree (Z.log2 ic + 2)) else s in
    fold_left t_insert_hash items s.

(* ------------------------------------------------------------------------------------------ *)
(* 5. ChUnique at set level: (skip, set of non-zero hashes, zero flag, itemsCount).             *)
(*    [M] = uniquesHashMaxSize. The incoming hashes of a merge are a list (the table order of    *)
(*    the right operand): the theorems quantify over every enumeration.                           *)

Module PS := PositiveSet.

Record sk := { s_skip : Z; s_elems : PS.t; s_zero : bool; s_cnt : Z }.

Definition sk0 : sk := {| s_skip := 0; s_elems := PS.empty; s_zero := false; s_cnt := 0 |}.

Definition goodp (d : Z) (p : positive) : bool := good d (Zpos p).

(* insertImpl *)
Definition s_insert_impl (s : sk) (x : Z) : sk :=
  match x with
  | Zpos p => if PS.mem p (s_elems s) then s
              else {| s_skip := s_skip s; s_elems := PS.add p (s_elems s); s_zero := s_zero s; s_cnt := s_cnt s + 1 |}
  | _ => if s_zero s then s
         else {| s_skip := s_skip s; s_elems := s_elems s; s_zero := true; s_cnt := s_cnt s + 1 |}
  end.

Definition b2z (b : bool) : Z := if b then 1 else 0.
Definition card (e : PS.t) : Z := Z.of_nat (PS.cardinal e).

(* skipDegree = d; rehash() *)
Definition s_rehash_to (s : sk) (d : Z) : sk :=
  let e := PS.filter (goodp d) (s_elems s) in
  {| s_skip := d; s_elems := e; s_zero := s_zero s; s_cnt := card e + b2z (s_zero s) |}.

(* shrinkIfNeed (resize is invisible at this level) *)
Fixpoint s_thin (M : Z) (fuel : nat) (s : sk) : sk :=
  if s_cnt s <=? M then s
  else match fuel with O => s | S f => s_thin M f (s_rehash_to s (s_skip s + 1)) end.
Definition s_shrink (M : Z) (s : sk) : sk := s_thin M 300%nat s.

Definition s_insert_hash (M : Z) (s : sk) (h : Z) : sk :=
  if negb (good (s_skip s) h) then s else s_shrink M (s_insert_impl s h).

Definition s_merge_step (M : Z) (fixed : bool) (rskip : Z) (s : sk) (x : Z) : sk :=
  if good (if fixed then s_skip s else rskip) x then s_shrink M (s_insert_impl s x) else s.

(* Merge(rhs) where rhs = (rskip, rzero, ord = its non-zero hashes in table order) *)
Definition s_merge (M : Z) (fixed : bool) (s : sk) (rskip : Z) (rzero : bool) (ord : list Z) : sk :=
  let s := if s_skip s <? rskip then s_rehash_to s rskip else s in
  let s := if negb (s_zero s) && rzero then
             s_shrink M {| s_skip := s_skip s; s_elems := s_elems s; s_zero := true; s_cnt := s_cnt s + 1 |}
           else s in
  fold_left (s_merge_step M fixed rskip) ord s.

(* MergeRead into a non-nil receiver: items = zero (if any) and the non-zero hashes *)
Definition s_merge_read (M : Z) (fixed : bool) (s : sk) (rskip : Z) (items : list Z) : sk :=
  (* faithful: rehash() at the unchanged skip degree (drops hashes an earlier defective Merge let in) *)
  let s := if s_skip s <? rskip then s_rehash_to s (if fixed then rskip else s_skip s) else s in
  fold_left (s_insert_hash M) items s.

Definition s_size_as_is (s : sk) : Z := if s_skip s =? 0 then s_cnt s else m64 (s_cnt s * pow2 (s_skip s)).

(* abstraction of a table to the set level *)
Definition set_of_list (l : list Z) : PS.t :=
  fold_left (fun e x => match x with Zpos p => PS.add p e | _ => e end) l PS.empty.
Definition t_abs (s : tsk) : sk :=
  {| s_skip := t_skip s; s_elems := set_of_list (t_order s); s_zero := t_zero s; s_cnt := t_cnt s |}.
Definition sk_eqb (a b : sk) : bool :=
  (s_skip a =? s_skip b) && PS.equal (s_elems a) (s_elems b) && Bool.eqb (s_zero a) (s_zero b) && (s_cnt a =? s_cnt b).
