(* Correspondence cases for C29: one case = one whole history run on the real Queue / Weighted inside a
   synctest bubble, with what was observed after every step (calls that returned, state snapshot). *)
From Coq Require Import ZArith List Bool.
From SH Require Import Common.Corr Admission.Model.
Import ListNotations.
Open Scope Z_scope.

Fixpoint insert_z (x : Z) (l : list Z) : list Z :=
  match l with [] => [x] | y :: r => if x <=? y then x :: l else y :: insert_z x r end.
Definition sort_z (l : list Z) : list Z := fold_right insert_z [] l.

Fixpoint list_eqb {A} (e : A -> A -> bool) (a b : list A) : bool :=
  match a, b with
  | [], [] => true
  | x :: a', y :: b' => e x y && list_eqb e a' b'
  | _, _ => false
  end.

(* events of one step as sorted keys (the harness cannot see the order of returns inside one step) *)
Definition qev_key (e : qev) : Z :=
  match e with QGranted _ q => 2 * q | QCancelled q => 2 * q + 1 | QPanic => -1 end.
Definition sev_key (e : sev) : Z :=
  match e with SGranted w => 4 * w | SCancelled w => 4 * w + 1 | STryOk => -1 | STryFail => -2 | SPanic => -3 end.

(* snapshot of the waiting users in priority order: (token, order, number of waiting queries) *)
Fixpoint insert_u (x : urec) (l : list urec) : list urec :=
  match l with [] => [x] | y :: r => if u_ord x <=? u_ord y then x :: l else y :: insert_u x r end.
Definition users_snapshot (us : list urec) : list Z :=
  flat_map (fun u => [u_tok u; u_ord u; Z.of_nat (length (u_qs u))]) (fold_right insert_u [] us).

(* positional constructors keep the generated case files small: users are flattened triples *)
Inductive qobs := QO (evs : list Z) (active max order : Z) (users : list Z)
| QU.   (* the state between two steps that raced for the mutex was not observed: their events are
          checked together with the next observation (the harness orders the two steps by the outcome) *)
Inductive sobs := SO (evs : list Z) (cur size : Z) (waiting : list Z).
Definition qo_evs (o : qobs) := match o with QO e _ _ _ _ => e | QU => [] end.
Definition qo_active (o : qobs) := match o with QO _ a _ _ _ => a | QU => 0 end.
Definition qo_max (o : qobs) := match o with QO _ _ m _ _ => m | QU => 0 end.
Definition qo_order (o : qobs) := match o with QO _ _ _ r _ => r | QU => 0 end.
Definition qo_users (o : qobs) := match o with QO _ _ _ _ u => u | QU => [] end.
Definition so_evs (o : sobs) := let 'SO e _ _ _ := o in e.
Definition so_cur (o : sobs) := let 'SO _ c _ _ := o in c.
Definition so_size (o : sobs) := let 'SO _ _ z _ := o in z.
Definition so_waiting (o : sobs) := let 'SO _ _ _ w := o in w.

Definition triple_eqb (a b : Z * Z * Z) : bool :=
  let '(a1, a2, a3) := a in let '(b1, b2, b3) := b in (a1 =? b1) && (a2 =? b2) && (a3 =? b3).
Definition pair_eqb (a b : Z * Z) : bool := (fst a =? fst b) && (snd a =? snd b).

Definition qobs_ok (s : qstate) (evs : list qev) (o : qobs) : bool :=
  list_eqb Z.eqb (sort_z (map qev_key evs)) (qo_evs o) &&
  (q_active s =? qo_active o) && (q_max s =? qo_max o) && (q_order s =? qo_order o) &&
  list_eqb Z.eqb (users_snapshot (q_users s)) (qo_users o).

Fixpoint qcheck_from (fx : bool) (s : qstate) (pending : list qev) (ops : list qop) (obs : list qobs) : bool :=
  match ops, obs with
  | [], [] => match pending with [] => true | _ => false end
  | op :: ops', QU :: obs' => let '(s', evs) := qstep fx s op in qcheck_from fx s' (pending ++ evs) ops' obs'
  | op :: ops', o :: obs' => let '(s', evs) := qstep fx s op in qobs_ok s' (pending ++ evs) o && qcheck_from fx s' [] ops' obs'
  | _, _ => false
  end.
Definition qcheck (fx : bool) (s : qstate) (ops : list qop) (obs : list qobs) : bool := qcheck_from fx s [] ops obs.

Definition sobs_ok (s : sstate) (evs : list sev) (o : sobs) : bool :=
  list_eqb Z.eqb (sort_z (map sev_key evs)) (so_evs o) &&
  (s_cur s =? so_cur o) && (s_size s =? so_size o) && list_eqb Z.eqb (map snd (s_waiters s)) (so_waiting o).

Fixpoint scheck (s : sstate) (ops : list sop) (obs : list sobs) : bool :=
  match ops, obs with
  | [], [] => true
  | op :: ops', o :: obs' => let '(s', evs) := sstep s op in sobs_ok s' evs o && scheck s' ops' obs'
  | _, _ => false
  end.

Inductive case :=
| CQueue (max0 : Z) (ops : list qop) (obs : list qobs)
| CSem (size0 : Z) (ops : list sop) (obs : list sobs).

(* F-C29a/b are fixed in the code (7e41ac88, 2748241c): only the repaired variant [fx = true] remains in
   the correspondence; the pre-fix variant [fx = false] lives on in the [_refuted] theorems only *)
Definition ok (c : case) : bool :=
  match c with
  | CQueue m ops obs => qcheck true (qinit m) ops obs
  | CSem n ops obs => scheck (sinit n) ops obs
  end.

Definition mism := mismatches ok.
