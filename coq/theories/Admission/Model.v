(* C29 — query admission.
   Model of: internal/util/queue/round_robin_queue.go (Queue: Acquire / cancellation branch of Acquire /
             Release / AdjustCapacity / addUserQueryLocked / removeQueryLocked / nextQueryLocked)
             internal/vkgo/semaphore/semaphore.go (Weighted: Acquire / cancellation branch / TryAcquire /
             Release / SetSize / ForceAcquire / notifyWaiters).
   One model step = one critical section of the mutex (DESIGN 3.5).  The cancellation branch of Acquire
   linearises where the cancelled goroutine re-takes the mutex: a query that was granted before that
   point returns nil ([isClosed] branch; in the model the cancel of a non-waiting query is a no-op).

   Executable definitions only.  [fx = true] is the CURRENT code (after the fixes 7e41ac88 and 2748241c);
   [fx = false] is the variant before those fixes (finding F-C29: [nextQueryLocked] tested [active == max]
   instead of [active >= max], and [AdjustCapacity] did not hand freed capacity to waiting queries), kept
   only so that the [_refuted] theorems keep saying what was wrong. *)
From Coq Require Import ZArith List Bool.
Import ListNotations.
Open Scope Z_scope.

(* ------------------------------------------------------------------------------------------ *)
(* Round-robin queue                                                                            *)

Record urec := { u_tok : Z; u_ord : Z; u_qs : list Z }.   (* *user: token, order, FIFO of waiting query ids *)

Record qstate := {
  q_active : Z;            (* activeQuery *)
  q_max : Z;               (* maxActiveQuery *)
  q_users : list urec;     (* waitingUsersByName / waitingUsersByPriority (same set, keyed by token / by order) *)
  q_order : Z;             (* globalOrder *)
  q_next : Z               (* ghost: id given to the next Acquire call *)
}.

Definition qinit (m : Z) : qstate := {| q_active := 0; q_max := m; q_users := []; q_order := 0; q_next := 0 |}.

Inductive qop :=
| QAcquire (tok : Z)       (* Acquire(ctx, tok) up to the select; the call gets id q_next *)
| QCancel (qid : Z)        (* ctx of call qid is done and its goroutine has re-taken the mutex *)
| QRelease
| QAdjust (n : Z).         (* AdjustCapacity(n) *)

Inductive qev :=
| QGranted (tok qid : Z)   (* Acquire call qid of user tok returns nil *)
| QCancelled (qid : Z)     (* Acquire call qid returns ctx.Err() *)
| QPanic.                  (* nil dereference in nextQueryLocked (a user without queries); never reachable *)

Definition find_user (tok : Z) (us : list urec) : option urec := find (fun u => u_tok u =? tok) us.
Definition remove_user (tok : Z) (us : list urec) : list urec := filter (fun u => negb (u_tok u =? tok)) us.

(* LLRB.DeleteMin by [order]: the first record with the least order *)
Fixpoint min_user (us : list urec) : option urec :=
  match us with
  | [] => None
  | u :: r => match min_user r with
              | Some v => if u_ord v <? u_ord u then Some v else Some u
              | None => Some u
              end
  end.

Definition q_full (fx : bool) (s : qstate) : bool :=
  if fx then q_max s <=? q_active s else q_active s =? q_max s.

(* nextQueryLocked *)
Definition qnext (fx : bool) (s : qstate) : qstate * list qev :=
  if q_full fx s then (s, [])
  else match min_user (q_users s) with
       | None => (s, [])
       | Some u =>
         match u_qs u with
         | [] => (s, [QPanic])
         | q :: rest =>
           let others := remove_user (u_tok u) (q_users s) in
           let us' := match rest with
                      | [] => others
                      | _ => others ++ [{| u_tok := u_tok u; u_ord := q_order s; u_qs := rest |}]
                      end in
           ({| q_active := q_active s + 1; q_max := q_max s; q_users := us';
               q_order := q_order s + 1; q_next := q_next s |}, [QGranted (u_tok u) q])
         end
       end.

(* AdjustCapacity after 2748241c, as used by [qstep]: call nextQueryLocked until it grants nothing.
   [adjust_loop] below is the committed loop literally
     for q.activeQuery < q.maxActiveQuery && q.waitingUsersByPriority.Len() > 0 { q.nextQueryLocked() }
   and ProofsQueue.adjust_loop_is_qdrain / adjust_loop_exit prove that the two coincide on every state
   whose users all have a waiting query, and that the fuel (number of waiting queries) is enough for
   the loop condition to be false at the end. *)
Fixpoint qdrain (fx : bool) (fuel : nat) (s : qstate) : qstate * list qev :=
  match fuel with
  | O => (s, [])
  | S f => let '(s1, e1) := qnext fx s in
           match e1 with
           | [] => (s1, [])
           | _ => let '(s2, e2) := qdrain fx f s1 in (s2, e1 ++ e2)
           end
  end.

Definition adjust_cond (s : qstate) : bool :=
  (q_active s <? q_max s) && (match q_users s with [] => false | _ => true end).

Fixpoint adjust_loop (fuel : nat) (s : qstate) : qstate * list qev :=
  match fuel with
  | O => (s, [])
  | S f => if adjust_cond s then
             let '(s1, e1) := qnext true s in
             let '(s2, e2) := adjust_loop f s1 in (s2, e1 ++ e2)
           else (s, [])
  end.

Definition waiting_count (us : list urec) : nat := length (concat (map u_qs us)).

Definition is_waiting (q : Z) (us : list urec) : bool :=
  existsb (fun u => existsb (Z.eqb q) (u_qs u)) us.

Definition drop_query (q : Z) (u : urec) : urec :=
  {| u_tok := u_tok u; u_ord := u_ord u; u_qs := filter (fun x => negb (x =? q)) (u_qs u) |}.
Definition nonempty_user (u : urec) : bool := match u_qs u with [] => false | _ => true end.

(* u.qry.PushBack(qry) on the user found by name (the first record with that token) *)
Fixpoint push_query (tok q : Z) (us : list urec) : list urec :=
  match us with
  | [] => []
  | u :: r => if u_tok u =? tok then {| u_tok := u_tok u; u_ord := u_ord u; u_qs := u_qs u ++ [q] |} :: r
              else u :: push_query tok q r
  end.

Definition qstep (fx : bool) (s : qstate) (op : qop) : qstate * list qev :=
  match op with
  | QAcquire tok =>
    let q := q_next s in
    match find_user tok (q_users s) with
    | Some _ =>
      qnext fx {| q_active := q_active s; q_max := q_max s; q_users := push_query tok q (q_users s);
                  q_order := q_order s; q_next := q + 1 |}
    | None =>
      if q_active s <? q_max s then
        ({| q_active := q_active s + 1; q_max := q_max s; q_users := q_users s;
            q_order := q_order s + 1; q_next := q + 1 |}, [QGranted tok q])
      else
        qnext fx {| q_active := q_active s; q_max := q_max s;
                    q_users := q_users s ++ [{| u_tok := tok; u_ord := q_order s; u_qs := [q] |}];
                    q_order := q_order s + 1; q_next := q + 1 |}
    end
  | QCancel q =>
    if is_waiting q (q_users s) then
      ({| q_active := q_active s; q_max := q_max s;
          q_users := filter nonempty_user (map (drop_query q) (q_users s));
          q_order := q_order s; q_next := q_next s |}, [QCancelled q])
    else (s, [])
  | QRelease =>
    qnext fx {| q_active := q_active s - 1; q_max := q_max s; q_users := q_users s;
                q_order := q_order s; q_next := q_next s |}
  | QAdjust n =>
    let s1 := {| q_active := q_active s; q_max := n; q_users := q_users s;
                 q_order := q_order s; q_next := q_next s |} in
    if fx then qdrain fx (waiting_count (q_users s)) s1 else (s1, [])
  end.

(* outcome ids of a list of events: the Acquire calls that returned in it *)
Definition oids (es : list qev) : list Z :=
  flat_map (fun e => match e with QGranted _ q => [q] | QCancelled q => [q] | QPanic => [] end) es.

(* the protocol of the callers: Release is called by a holder, capacities are not negative *)
Definition qenabled (s : qstate) (op : qop) : Prop :=
  match op with QRelease => 0 < q_active s | QAdjust n => 0 <= n | _ => True end.

Fixpoint qrun (fx : bool) (s : qstate) (ops : list qop) : qstate * list (list qev) :=
  match ops with
  | [] => (s, [])
  | op :: r => let '(s1, e) := qstep fx s op in
               let '(s2, es) := qrun fx s1 r in (s2, e :: es)
  end.

Fixpoint qvalid (fx : bool) (s : qstate) (ops : list qop) : Prop :=
  match ops with
  | [] => True
  | op :: r => qenabled s op /\ qvalid fx (fst (qstep fx s op)) r
  end.

Definition is_adjust (op : qop) : bool := match op with QAdjust _ => true | _ => false end.

Definition granted_to (tok : Z) (e : qev) : bool :=
  match e with QGranted t _ => t =? tok | _ => false end.
Definition is_grant (e : qev) : bool := match e with QGranted _ _ => true | _ => false end.
Definition grants_to (tok : Z) (es : list qev) : nat := length (filter (granted_to tok) es).
Definition grants (es : list qev) : Z := Z.of_nat (length (filter is_grant es)).
Definition user_waiting (tok : Z) (s : qstate) : Prop := exists u, In u (q_users s) /\ u_tok u = tok.

(* ------------------------------------------------------------------------------------------ *)
(* Weighted semaphore                                                                           *)

Record sstate := {
  s_size : Z;
  s_cur : Z;
  s_waiters : list (Z * Z);   (* container/list of waiter: (id of the Acquire call, n) *)
  s_doomed : list Z;          (* Acquire calls with n > size: wait for ctx.Done only, never in the list *)
  s_next : Z                  (* ghost: id given to the next Acquire call *)
}.

Definition sinit (n : Z) : sstate := {| s_size := n; s_cur := 0; s_waiters := []; s_doomed := []; s_next := 0 |}.

Inductive sop :=
| SAcquire (n : Z)
| STry (n : Z)
| SCancel (w : Z)
| SRelease (n : Z)
| SSetSize (n : Z)
| SForce (n : Z).

Inductive sev :=
| SGranted (w : Z)      (* Acquire call w returns nil *)
| SCancelled (w : Z)    (* Acquire call w returns ctx.Err() *)
| STryOk | STryFail
| SPanic.

(* notifyWaiters: (cur', remaining waiters, granted ids in order) *)
Fixpoint notify (size cur : Z) (ws : list (Z * Z)) : Z * list (Z * Z) * list Z :=
  match ws with
  | [] => (cur, [], [])
  | (w, n) :: r =>
    if size - cur <? n then (cur, ws, [])
    else let '(c, ws', g) := notify size (cur + n) r in (c, ws', w :: g)
  end.

Definition snotify (s : sstate) : sstate * list sev :=
  let '(c, ws, g) := notify (s_size s) (s_cur s) (s_waiters s) in
  ({| s_size := s_size s; s_cur := c; s_waiters := ws; s_doomed := s_doomed s; s_next := s_next s |},
   map SGranted g).

Definition mem (w : Z) (l : list Z) : bool := existsb (Z.eqb w) l.
Definition wmem (w : Z) (l : list (Z * Z)) : bool := existsb (fun p => fst p =? w) l.
Definition wremove (w : Z) (l : list (Z * Z)) : list (Z * Z) := filter (fun p => negb (fst p =? w)) l.

Definition sstep (s : sstate) (op : sop) : sstate * list sev :=
  match op with
  | SAcquire n =>
    let w := s_next s in
    if n <? 0 then
      ({| s_size := s_size s; s_cur := s_cur s; s_waiters := s_waiters s; s_doomed := s_doomed s; s_next := w + 1 |}, [SPanic])
    else if (n <=? s_size s - s_cur s) && (match s_waiters s with [] => true | _ => false end) then
      ({| s_size := s_size s; s_cur := s_cur s + n; s_waiters := s_waiters s; s_doomed := s_doomed s; s_next := w + 1 |}, [SGranted w])
    else if s_size s <? n then
      ({| s_size := s_size s; s_cur := s_cur s; s_waiters := s_waiters s; s_doomed := s_doomed s ++ [w]; s_next := w + 1 |}, [])
    else
      ({| s_size := s_size s; s_cur := s_cur s; s_waiters := s_waiters s ++ [(w, n)]; s_doomed := s_doomed s; s_next := w + 1 |}, [])
  | STry n =>
    if n <? 0 then (s, [SPanic])
    else if (n <=? s_size s - s_cur s) && (match s_waiters s with [] => true | _ => false end) then
      ({| s_size := s_size s; s_cur := s_cur s + n; s_waiters := s_waiters s; s_doomed := s_doomed s; s_next := s_next s |}, [STryOk])
    else (s, [STryFail])
  | SCancel w =>
    if mem w (s_doomed s) then
      ({| s_size := s_size s; s_cur := s_cur s; s_waiters := s_waiters s;
          s_doomed := filter (fun x => negb (x =? w)) (s_doomed s); s_next := s_next s |}, [SCancelled w])
    else if wmem w (s_waiters s) then
      let is_front := match s_waiters s with (w0, _) :: _ => w0 =? w | [] => false end in
      let s1 := {| s_size := s_size s; s_cur := s_cur s; s_waiters := wremove w (s_waiters s);
                   s_doomed := s_doomed s; s_next := s_next s |} in
      if is_front && (s_cur s <? s_size s) then
        let '(s2, e) := snotify s1 in (s2, SCancelled w :: e)
      else (s1, [SCancelled w])
    else (s, [])
  | SRelease n =>
    if n <? 0 then (s, [SPanic])
    else
      let s1 := {| s_size := s_size s; s_cur := s_cur s - n; s_waiters := s_waiters s;
                   s_doomed := s_doomed s; s_next := s_next s |} in
      if s_cur s - n <? 0 then (s1, [SPanic])     (* cur is already decremented when it panics *)
      else snotify s1
  | SSetSize n =>
    snotify {| s_size := n; s_cur := s_cur s; s_waiters := s_waiters s; s_doomed := s_doomed s; s_next := s_next s |}
  | SForce n =>
    if n <? 0 then (s, [SPanic])
    else ({| s_size := s_size s; s_cur := s_cur s + n; s_waiters := s_waiters s; s_doomed := s_doomed s; s_next := s_next s |}, [])
  end.

(* callers' protocol: non-negative weights, a Release gives back at most what is held *)
Definition senabled (s : sstate) (op : sop) : Prop :=
  match op with
  | SAcquire n | STry n | SForce n => 0 <= n
  | SRelease n => 0 <= n <= s_cur s
  | SSetSize _ | SCancel _ => True
  end.

Inductive sreach : sstate -> Prop :=
| sreach_init n : sreach (sinit n)
| sreach_step s op : sreach s -> senabled s op -> sreach (fst (sstep s op)).

Inductive qreach (fx : bool) : qstate -> Prop :=
| qreach_init m : 0 <= m -> qreach fx (qinit m)
| qreach_step s op : qreach fx s -> qenabled s op -> qreach fx (fst (qstep fx s op)).

Definition is_enter (e : sev) : bool := match e with SGranted _ | STryOk => true | _ => false end.
