(* C29 — lemmas about the weighted semaphore model. *)
From Coq Require Import ZArith List Bool Lia Sorted.
From SH Require Import Admission.Model.
Import ListNotations.
Open Scope Z_scope.

Definition wsum (l : list (Z * Z)) : Z := fold_right (fun p a => snd p + a) 0 l.

Lemma wsum_app l1 l2 : wsum (l1 ++ l2) = wsum l1 + wsum l2.
Proof. induction l1; simpl; lia. Qed.

(* ---- notifyWaiters ---- *)

(* it lets in a prefix of the list, adds exactly its weights, and stops at a front that does not fit *)
Lemma notify_spec : forall ws size cur c ws' g,
  notify size cur ws = (c, ws', g) ->
  exists pre, ws = pre ++ ws' /\ g = map fst pre /\ c = cur + wsum pre /\
              (g <> [] -> c <= size) /\
              (match ws' with (_, n) :: _ => size - c < n | [] => True end).
Proof.
  induction ws as [|[w n] r IH]; intros size cur c ws' g H; simpl in H.
  - inversion H; subst. exists []. simpl. repeat split; try lia. congruence.
  - destruct (size - cur <? n) eqn:E.
    + inversion H; subst. exists []. apply Z.ltb_lt in E. simpl. repeat split; try lia. congruence.
    + destruct (notify size (cur + n) r) as [[c1 ws1] g1] eqn:N. inversion H; subst.
      destruct (IH _ _ _ _ _ N) as (pre & E1 & E2 & E3 & E4 & E5).
      exists ((w, n) :: pre). simpl. subst. repeat split; auto; try lia.
      intros _. apply Z.ltb_ge in E.
      destruct pre as [|p pre'].
      * simpl in *. lia.
      * apply E4. simpl. congruence.
Qed.

Lemma notify_le : forall ws size cur c ws' g,
  notify size cur ws = (c, ws', g) -> cur <= size -> c <= size.
Proof.
  intros. destruct (notify_spec _ _ _ _ _ _ H) as (pre & E1 & E2 & E3 & E4 & _).
  destruct pre; simpl in *; subst; try lia. apply E4. simpl. congruence.
Qed.

(* ---- sortedness of the waiter list by arrival id ---- *)

Definition wlt (a b : Z * Z) : Prop := fst a < fst b.

Lemma SS_filter {A} (R : A -> A -> Prop) f l : StronglySorted R l -> StronglySorted R (filter f l).
Proof.
  induction 1; simpl; [constructor|].
  destruct (f a); auto. constructor; auto.
  rewrite Forall_forall in *. intros x Hx. apply filter_In in Hx. apply H0. tauto.
Qed.

Lemma SS_app_end {A} (R : A -> A -> Prop) l x :
  StronglySorted R l -> (forall y, In y l -> R y x) -> StronglySorted R (l ++ [x]).
Proof.
  induction 1; intros; simpl.
  - constructor; constructor.
  - constructor.
    + apply IHStronglySorted. intros; apply H1; simpl; auto.
    + rewrite Forall_forall in *. intros y Hy. apply in_app_or in Hy. destruct Hy as [Hy|[Hy|[]]].
      * auto.
      * subst. apply H1. simpl; auto.
Qed.

Lemma SS_app_inv {A} (R : A -> A -> Prop) l1 l2 :
  StronglySorted R (l1 ++ l2) ->
  StronglySorted R l2 /\ (forall x y, In x l1 -> In y l2 -> R x y).
Proof.
  induction l1; simpl; intros.
  - split; auto. intros ? ? [].
  - inversion H; subst. destruct (IHl1 H2) as [S1 S2]. split; auto.
    intros x y [Hx|Hx] Hy.
    + subst. rewrite Forall_forall in H3. apply H3. apply in_or_app; auto.
    + auto.
Qed.

Record sinv (s : sstate) : Prop := {
  si_sorted : StronglySorted wlt (s_waiters s);
  si_fresh_w : forall p, In p (s_waiters s) -> fst p < s_next s;
  si_fresh_d : forall w, In w (s_doomed s) -> w < s_next s;
  si_weights : forall p, In p (s_waiters s) -> 0 <= snd p
}.

Lemma sinv_notify s s' e : sinv s -> snotify s = (s', e) -> sinv s'.
Proof.
  intros I H. unfold snotify in H.
  destruct (notify (s_size s) (s_cur s) (s_waiters s)) as [[c ws] g] eqn:N. inversion H; subst; clear H.
  destruct (notify_spec _ _ _ _ _ _ N) as (pre & E1 & _).
  destruct I as [I1 I2 I3 I4]. rewrite E1 in *.
  constructor; simpl; auto.
  - apply (SS_app_inv _ _ _ I1).
  - intros; apply I2; apply in_or_app; auto.
  - intros; apply I4; apply in_or_app; auto.
Qed.

Lemma sinv_remove s w :
  sinv s ->
  sinv {| s_size := s_size s; s_cur := s_cur s; s_waiters := wremove w (s_waiters s);
          s_doomed := s_doomed s; s_next := s_next s |}.
Proof.
  intros [I1 I2 I3 I4]. constructor; simpl; auto.
  - apply SS_filter; auto.
  - intros p Hp. apply filter_In in Hp. apply I2; tauto.
  - intros p Hp. apply filter_In in Hp. apply I4; tauto.
Qed.

Ltac fin I2 I3 I4 :=
  try (intros p Hp; try (apply in_app_or in Hp; destruct Hp as [Hp|[Hp|[]]]); subst; simpl;
       try (pose proof (I2 _ Hp)); try (pose proof (I3 _ Hp)); try (pose proof (I4 _ Hp)); (lia || auto)).

Lemma sinv_step s op : sinv s -> senabled s op -> sinv (fst (sstep s op)).
Proof.
  intros I En. destruct op as [n|n|w|n|n|n]; simpl in *.
  - destruct (n <? 0) eqn:E0; [apply Z.ltb_lt in E0; lia|].
    destruct I as [I1 I2 I3 I4].
    destruct ((n <=? s_size s - s_cur s) && match s_waiters s with [] => true | _ => false end); simpl.
    + constructor; simpl; auto; fin I2 I3 I4.
    + destruct (s_size s <? n); simpl.
      * constructor; simpl; auto; fin I2 I3 I4.
      * constructor; simpl; auto; try (apply SS_app_end; auto; intros y Hy; unfold wlt; simpl; auto); fin I2 I3 I4.
  - destruct (n <? 0); simpl; auto.
    destruct ((n <=? s_size s - s_cur s) && match s_waiters s with [] => true | _ => false end); simpl; auto.
    destruct I; constructor; auto.
  - destruct (mem w (s_doomed s)); simpl.
    + destruct I as [I1 I2 I3 I4]; constructor; simpl; auto.
      intros x Hx. apply filter_In in Hx. apply I3; tauto.
    + destruct (wmem w (s_waiters s)); simpl; auto.
      pose proof (sinv_remove s w I) as I'.
      destruct ((match s_waiters s with (w0, _) :: _ => w0 =? w | [] => false end) && (s_cur s <? s_size s)); simpl; auto.
      match goal with |- context [snotify ?x] => destruct (snotify x) as [s2 e] eqn:N end.
      simpl. eapply sinv_notify; eauto.
  - destruct (n <? 0); simpl; auto.
    assert (I' : sinv {| s_size := s_size s; s_cur := s_cur s - n; s_waiters := s_waiters s;
                         s_doomed := s_doomed s; s_next := s_next s |}) by (destruct I; constructor; auto).
    destruct (s_cur s - n <? 0); simpl; auto.
    match goal with |- context [snotify ?x] => destruct (snotify x) as [s2 e] eqn:N end.
    simpl. eapply sinv_notify; eauto.
  - match goal with |- context [snotify ?x] => destruct (snotify x) as [s2 e] eqn:N end.
    simpl. eapply sinv_notify; [|eauto]. destruct I; constructor; auto.
  - destruct (n <? 0); simpl; auto. destruct I; constructor; auto.
Qed.

Lemma sreach_inv s : sreach s -> sinv s.
Proof.
  induction 1.
  - constructor; simpl; try (intros ? []). constructor.
  - apply sinv_step; auto.
Qed.

(* ---- "never lets in more than its size" ---- *)

Lemma snotify_enter s s' e :
  snotify s = (s', e) ->
  s_size s' = s_size s /\ (e <> [] -> s_cur s' <= s_size s') /\ (s_cur s <= s_size s -> s_cur s' <= s_size s') /\
  (e = [] -> s_cur s' = s_cur s).
Proof.
  unfold snotify. destruct (notify (s_size s) (s_cur s) (s_waiters s)) as [[c ws] g] eqn:N.
  intros H; inversion H; subst; clear H. simpl.
  destruct (notify_spec _ _ _ _ _ _ N) as (pre & E1 & E2 & E3 & E4 & _).
  repeat split.
  - intros Hne. apply E4. intro. subst g. rewrite H in Hne. simpl in Hne. congruence.
  - eapply notify_le; eauto.
  - intros Hm. destruct pre; simpl in *; subst; try lia. discriminate.
Qed.

Lemma map_granted_enter g : existsb is_enter (map SGranted g) = true -> map SGranted g <> [].
Proof. destruct g; simpl; congruence. Qed.

(* every step that lets in somebody (Acquire returning nil at once or from the list, TryAcquire = true)
   ends with cur <= size — from any state, whatever ForceAcquire / SetSize did before *)
Lemma enter_within_size s op s' evs :
  sstep s op = (s', evs) -> existsb is_enter evs = true -> s_cur s' <= s_size s'.
Proof.
  intros H A. destruct op as [n|n|w|n|n|n]; simpl in H.
  - destruct (n <? 0); [inversion H; subst; simpl in A; discriminate|].
    destruct ((n <=? s_size s - s_cur s) && _) eqn:E.
    + inversion H; subst; simpl. apply andb_prop in E. destruct E as [E _]. apply Z.leb_le in E. lia.
    + destruct (s_size s <? n); inversion H; subst; simpl in A; discriminate.
  - destruct (n <? 0); [inversion H; subst; simpl in A; discriminate|].
    destruct ((n <=? s_size s - s_cur s) && _) eqn:E.
    + inversion H; subst; simpl. apply andb_prop in E. destruct E as [E _]. apply Z.leb_le in E. lia.
    + inversion H; subst; simpl in A; discriminate.
  - destruct (mem w (s_doomed s)); [inversion H; subst; simpl in A; discriminate|].
    destruct (wmem w (s_waiters s)); [|inversion H; subst; simpl in A; discriminate].
    destruct (_ && (s_cur s <? s_size s)).
    + match type of H with context [snotify ?x] => destruct (snotify x) as [s2 e] eqn:N end.
      inversion H; subst. simpl in A.
      destruct (snotify_enter _ _ _ N) as (_ & P & _).
      apply P. unfold snotify in N. destruct (notify _ _ _) as [[c ws] g]. inversion N; subst.
      apply map_granted_enter; auto.
    + inversion H; subst; simpl in A; discriminate.
  - destruct (n <? 0); [inversion H; subst; simpl in A; discriminate|].
    destruct (s_cur s - n <? 0); [inversion H; subst; simpl in A; discriminate|].
    destruct (snotify_enter _ _ _ H) as (_ & P & _).
    apply P. unfold snotify in H. destruct (notify _ _ _) as [[c ws] g]. inversion H; subst.
    apply map_granted_enter; auto.
  - destruct (snotify_enter _ _ _ H) as (_ & P & _).
    apply P. unfold snotify in H. destruct (notify _ _ _) as [[c ws] g]. inversion H; subst.
    apply map_granted_enter; auto.
  - destruct (n <? 0); inversion H; subst; simpl in A; discriminate.
Qed.

Definition is_resize (op : sop) : bool := match op with SSetSize _ | SForce _ => true | _ => false end.

(* without SetSize / ForceAcquire, cur <= size is preserved by every step of the protocol *)
Lemma cur_le_size_step s op :
  senabled s op -> is_resize op = false -> s_cur s <= s_size s ->
  s_cur (fst (sstep s op)) <= s_size (fst (sstep s op)).
Proof.
  intros En R L. destruct op as [n|n|w|n|n|n]; simpl in *; try discriminate.
  - destruct (n <? 0); simpl; auto.
    destruct ((n <=? s_size s - s_cur s) && _) eqn:E; simpl.
    + apply andb_prop in E. destruct E as [E _]. apply Z.leb_le in E. lia.
    + destruct (s_size s <? n); simpl; auto.
  - destruct (n <? 0); simpl; auto.
    destruct ((n <=? s_size s - s_cur s) && _) eqn:E; simpl; auto.
    apply andb_prop in E. destruct E as [E _]. apply Z.leb_le in E. lia.
  - destruct (mem w (s_doomed s)); simpl; auto.
    destruct (wmem w (s_waiters s)); simpl; auto.
    destruct (_ && (s_cur s <? s_size s)); simpl; auto.
    match goal with |- context [snotify ?x] => destruct (snotify x) as [s2 e] eqn:N end.
    simpl. destruct (snotify_enter _ _ _ N) as (E1 & _ & P & _). simpl in *. rewrite E1. rewrite E1 in P. auto.
  - destruct (n <? 0); simpl; auto.
    destruct (s_cur s - n <? 0) eqn:E; simpl; [lia|].
    match goal with |- context [snotify ?x] => destruct (snotify x) as [s2 e] eqn:N end.
    simpl. destruct (snotify_enter _ _ _ N) as (E1 & _ & P & _). simpl in *. rewrite E1. rewrite E1 in P. apply P. lia.
Qed.

Fixpoint srun (s : sstate) (ops : list sop) : sstate * list (list sev) :=
  match ops with
  | [] => (s, [])
  | op :: r => let '(s1, e) := sstep s op in let '(s2, es) := srun s1 r in (s2, e :: es)
  end.
Fixpoint svalid (s : sstate) (ops : list sop) : Prop :=
  match ops with [] => True | op :: r => senabled s op /\ svalid (fst (sstep s op)) r end.

Lemma srun_fst_cons s op r : fst (srun s (op :: r)) = fst (srun (fst (sstep s op)) r).
Proof. simpl. destruct (sstep s op) as [s1 e]. simpl. destruct (srun s1 r). reflexivity. Qed.

Lemma cur_le_size_run : forall ops s,
  svalid s ops -> forallb (fun op => negb (is_resize op)) ops = true -> s_cur s <= s_size s ->
  s_cur (fst (srun s ops)) <= s_size (fst (srun s ops)).
Proof.
  induction ops as [|op r IH]; intros s V F L; [simpl; auto|].
  rewrite srun_fst_cons. simpl in V, F. apply andb_prop in F. destruct F as [F1 F2]. destruct V as [V1 V2].
  apply IH; auto. apply cur_le_size_step; auto. destruct (is_resize op); auto; discriminate.
Qed.

Lemma size_const_run : forall ops s,
  forallb (fun op => negb (is_resize op)) ops = true -> s_size (fst (srun s ops)) = s_size s.
Proof.
  induction ops as [|op r IH]; intros s F; [reflexivity|].
  rewrite srun_fst_cons. simpl in F. apply andb_prop in F. destruct F as [F1 F2].
  rewrite IH; auto. clear IH F2.
  destruct op as [n|n|w|n|n|n]; simpl in *; try discriminate.
  - destruct (n <? 0); simpl; auto. destruct (_ && _); simpl; auto. destruct (s_size s <? n); auto.
  - destruct (n <? 0); simpl; auto. destruct (_ && _); simpl; auto.
  - destruct (mem w (s_doomed s)); simpl; auto. destruct (wmem w (s_waiters s)); simpl; auto.
    destruct (_ && _); simpl; auto.
    match goal with |- context [snotify ?x] => destruct (snotify x) as [s2 e] eqn:N end.
    simpl. destruct (snotify_enter _ _ _ N) as (E1 & _). auto.
  - destruct (n <? 0); simpl; auto. destruct (s_cur s - n <? 0); simpl; auto.
    match goal with |- context [snotify ?x] => destruct (snotify x) as [s2 e] eqn:N end.
    simpl. destruct (snotify_enter _ _ _ N) as (E1 & _). auto.
Qed.

Lemma cur_le_size_without_force n ops :
  0 <= n -> svalid (sinit n) ops -> forallb (fun op => negb (is_resize op)) ops = true ->
  s_cur (fst (srun (sinit n) ops)) <= n.
Proof.
  intros. pose proof (cur_le_size_run ops (sinit n) H0 H1) as P. rewrite size_const_run in P; auto.
Qed.

(* ---- FIFO ---- *)

Lemma snotify_fifo s s' e w :
  sinv s -> snotify s = (s', e) -> In (SGranted w) e ->
  (forall p, In p (s_waiters s') -> w < fst p) /\ (exists n, In (w, n) (s_waiters s)).
Proof.
  intros I H G. unfold snotify in H.
  destruct (notify (s_size s) (s_cur s) (s_waiters s)) as [[c ws] g] eqn:N. inversion H; subst; clear H. simpl.
  destruct (notify_spec _ _ _ _ _ _ N) as (pre & E1 & E2 & _).
  apply in_map_iff in G. destruct G as (w' & Ew & G). inversion Ew; subst w'. subst g.
  apply in_map_iff in G. destruct G as ([w1 n1] & Ef & G). simpl in Ef. subst w1.
  destruct I as [I1 _ _ _]. rewrite E1 in I1. destruct (SS_app_inv _ _ _ I1) as [_ P].
  split.
  - intros p Hp. apply (P _ _ G Hp).
  - exists n1. rewrite E1. apply in_or_app; auto.
Qed.

(* whoever is let in is older (smaller arrival id) than everybody still waiting afterwards;
   TryAcquire and the fast path of Acquire succeed only when nobody waits *)
Ltac fifo_fin :=
  simpl; repeat split; intros;
  repeat match goal with
  | X : In _ (_ :: _) |- _ => destruct X
  | X : In _ [] |- _ => destruct X
  | X : _ \/ _ |- _ => destruct X
  | X : False |- _ => destruct X
  | X : _ = _ |- _ => discriminate X
  end; auto.

Lemma snotify_no_try s s' e : snotify s = (s', e) -> ~ In STryOk e.
Proof.
  unfold snotify. destruct (notify _ _ _) as [[c ws] g]. intros H; inversion H; subst.
  intro Hw. apply in_map_iff in Hw. destruct Hw as (? & ? & _). discriminate.
Qed.

Lemma fifo s op s' evs :
  sreach s -> sstep s op = (s', evs) ->
  (forall w, In (SGranted w) evs -> forall p, In p (s_waiters s') -> w < fst p) /\
  (In STryOk evs -> s_waiters s = []) /\
  (forall w, In (SGranted w) evs -> (exists n, In (w, n) (s_waiters s)) \/ s_waiters s = []).
Proof.
  intros R H. pose proof (sreach_inv _ R) as I.
  destruct op as [n|n|w0|n|n|n]; simpl in H.
  - destruct (n <? 0); [inversion H; subst; fifo_fin|].
    destruct ((n <=? s_size s - s_cur s) && _) eqn:E.
    + apply andb_prop in E. destruct E as [_ E]. destruct (s_waiters s) eqn:W; try discriminate.
      inversion H; subst; simpl; try rewrite W; fifo_fin.
    + destruct (s_size s <? n); inversion H; subst; fifo_fin.
  - destruct (n <? 0); [inversion H; subst; fifo_fin|].
    destruct ((n <=? s_size s - s_cur s) && _) eqn:E.
    + apply andb_prop in E. destruct E as [_ E]. destruct (s_waiters s) eqn:W; try discriminate.
      inversion H; subst; simpl; try rewrite W; fifo_fin.
    + inversion H; subst; fifo_fin.
  - destruct (mem w0 (s_doomed s)); [inversion H; subst; fifo_fin|].
    destruct (wmem w0 (s_waiters s)); [|inversion H; subst; fifo_fin].
    destruct (_ && (s_cur s <? s_size s)); [|inversion H; subst; fifo_fin].
    match type of H with context [snotify ?x] => destruct (snotify x) as [s2 e] eqn:N end.
    inversion H; subst. pose proof (sinv_remove s w0 I) as I'.
    repeat split.
    + intros w [Hw|Hw]; [discriminate|]. apply (snotify_fifo _ _ _ _ I' N Hw).
    + intros [Hw|Hw]; [discriminate|]. exfalso. eapply snotify_no_try; eauto.
    + intros w [Hw|Hw]; [discriminate|]. left.
      destruct (snotify_fifo _ _ _ _ I' N Hw) as [_ [n1 Hn]]. simpl in Hn. apply filter_In in Hn. exists n1; tauto.
  - destruct (n <? 0); [inversion H; subst; fifo_fin|].
    destruct (s_cur s - n <? 0); [inversion H; subst; fifo_fin|].
    assert (I' : sinv {| s_size := s_size s; s_cur := s_cur s - n; s_waiters := s_waiters s;
                         s_doomed := s_doomed s; s_next := s_next s |}) by (destruct I; constructor; auto).
    repeat split.
    + intros w Hw. apply (snotify_fifo _ _ _ _ I' H Hw).
    + intros Hw. exfalso. eapply snotify_no_try; eauto.
    + intros w Hw. left. destruct (snotify_fifo _ _ _ _ I' H Hw) as [_ Hn]. exact Hn.
  - assert (I' : sinv {| s_size := n; s_cur := s_cur s; s_waiters := s_waiters s;
                         s_doomed := s_doomed s; s_next := s_next s |}) by (destruct I; constructor; auto).
    repeat split.
    + intros w Hw. apply (snotify_fifo _ _ _ _ I' H Hw).
    + intros Hw. exfalso. eapply snotify_no_try; eauto.
    + intros w Hw. left. destruct (snotify_fifo _ _ _ _ I' H Hw) as [_ Hn]. exact Hn.
  - destruct (n <? 0); inversion H; subst; fifo_fin.
Qed.

(* ---- "a cancelled waiter leaves it unchanged" ---- *)

Lemma mem_fresh w l : (forall x, In x l -> x < w) -> mem w l = false.
Proof.
  induction l; simpl; intros; auto. rewrite IHl by auto.
  assert (a < w) by auto. replace (w =? a) with false; auto. symmetry. apply Z.eqb_neq. lia.
Qed.

Lemma filter_fresh w l : (forall x, In x l -> x < w) -> filter (fun x => negb (x =? w)) (l ++ [w]) = l.
Proof.
  induction l; simpl; intros.
  - rewrite Z.eqb_refl. reflexivity.
  - assert (a < w) by auto. replace (a =? w) with false by (symmetry; apply Z.eqb_neq; lia).
    simpl. rewrite IHl; auto.
Qed.

Lemma mem_end w l : mem w (l ++ [w]) = true.
Proof. unfold mem. rewrite existsb_app. simpl. rewrite Z.eqb_refl. apply orb_true_iff. right. reflexivity. Qed.

Lemma wmem_end w n l : wmem w (l ++ [(w, n)]) = true.
Proof. unfold wmem. rewrite existsb_app. simpl. rewrite Z.eqb_refl. apply orb_true_iff. right. reflexivity. Qed.

Lemma wremove_fresh w n l : (forall p, In p l -> fst p < w) -> wremove w (l ++ [(w, n)]) = l.
Proof.
  induction l as [|[a m] l IH]; simpl; intros.
  - rewrite Z.eqb_refl. reflexivity.
  - assert (a < w) by (apply (H (a, m)); auto). replace (a =? w) with false by (symmetry; apply Z.eqb_neq; lia).
    simpl. rewrite IH; auto.
Qed.

(* an Acquire that blocks and is then cancelled, with nothing in between: the semaphore is exactly as
   before (only the ghost call counter moved) *)
Lemma cancel_restores s n :
  sreach s -> 0 <= n -> snd (sstep s (SAcquire n)) = [] ->
  sstep (fst (sstep s (SAcquire n))) (SCancel (s_next s)) =
    ({| s_size := s_size s; s_cur := s_cur s; s_waiters := s_waiters s; s_doomed := s_doomed s;
        s_next := s_next s + 1 |}, [SCancelled (s_next s)]).
Proof.
  intros R Hn Hb. destruct (sreach_inv _ R) as [I1 I2 I3 I4].
  simpl in *. destruct (n <? 0); [discriminate|].
  destruct ((n <=? s_size s - s_cur s) && _); [discriminate|].
  destruct (s_size s <? n); simpl.
  - rewrite mem_end. rewrite filter_fresh; auto.
  - rewrite (mem_fresh _ _ I3). rewrite wmem_end. rewrite wremove_fresh; auto.
    destruct (s_waiters s) as [|[w0 n0] r] eqn:W; simpl.
    + rewrite Z.eqb_refl. simpl. destruct (s_cur s <? s_size s); reflexivity.
    + assert (w0 < s_next s) by (apply (I2 (w0, n0)); simpl; auto).
      replace (w0 =? s_next s) with false by (symmetry; apply Z.eqb_neq; lia). reflexivity.
Qed.

(* cancelling any waiter of the list, at any time: size is untouched, the waiter is never let in and
   is gone, and cur grows only by the weights of the waiters behind it that are let in in its place *)
Lemma cancel_waiter s w s' evs :
  sreach s -> mem w (s_doomed s) = false -> wmem w (s_waiters s) = true ->
  sstep s (SCancel w) = (s', evs) ->
  s_size s' = s_size s /\ ~ In (SGranted w) evs /\ wmem w (s_waiters s') = false /\
  exists pre, wremove w (s_waiters s) = pre ++ s_waiters s' /\ s_cur s' = s_cur s + wsum pre /\
              evs = SCancelled w :: map SGranted (map fst pre).
Proof.
  intros R D W H. simpl in H. rewrite D, W in H.
  assert (NW : forall l, wmem w (wremove w l) = false).
  { induction l as [|[a m] l IH]; simpl; auto. destruct (a =? w) eqn:E; simpl; auto. rewrite E. auto. }
  destruct (_ && (s_cur s <? s_size s)).
  - match type of H with context [snotify ?x] => destruct (snotify x) as [s2 e] eqn:N end.
    inversion H; subst; clear H. unfold snotify in N. simpl in N.
    destruct (notify (s_size s) (s_cur s) (wremove w (s_waiters s))) as [[c ws] g] eqn:NN.
    inversion N; subst; clear N. simpl.
    destruct (notify_spec _ _ _ _ _ _ NN) as (pre & E1 & E2 & E3 & _).
    assert (NW2 : wmem w ws = false).
    { pose proof (NW (s_waiters s)) as Q. rewrite E1 in Q. unfold wmem in *. rewrite existsb_app in Q.
      apply orb_false_iff in Q. tauto. }
    assert (NW1 : wmem w pre = false).
    { pose proof (NW (s_waiters s)) as Q. rewrite E1 in Q. unfold wmem in *. rewrite existsb_app in Q.
      apply orb_false_iff in Q. tauto. }
    repeat split; auto.
    + intros [Hw|Hw]; [discriminate|]. subst g. apply in_map_iff in Hw. destruct Hw as (w' & Ew & Hw).
      inversion Ew; subst w'. apply in_map_iff in Hw. destruct Hw as (p & Ep & Hp).
      unfold wmem in NW1. rewrite <- not_true_iff_false in NW1. apply NW1. apply existsb_exists.
      exists p. split; auto. apply Z.eqb_eq; auto.
    + exists pre. subst g. auto.
  - inversion H; subst; clear H. simpl. repeat split; auto.
    + intros [Hw|[]]; discriminate.
    + exists []. simpl. split; auto. split; auto. lia.
Qed.

(* ---- no lost wake-up for positive weights: the front waiter never fits ---- *)

Definition sfront (s : sstate) : Prop :=
  match s_waiters s with (_, n) :: _ => 0 < n -> s_size s - s_cur s < n | [] => True end.

Lemma snotify_front s s' e : snotify s = (s', e) -> sfront s'.
Proof.
  unfold snotify. destruct (notify (s_size s) (s_cur s) (s_waiters s)) as [[c ws] g] eqn:N.
  intros H; inversion H; subst; clear H.
  destruct (notify_spec _ _ _ _ _ _ N) as (pre & _ & _ & _ & _ & E5).
  unfold sfront; simpl. destruct ws as [|[w n] r]; auto.
Qed.

Lemma sfront_step s op : sfront s -> senabled s op -> sfront (fst (sstep s op)).
Proof.
  intros F En. destruct op as [n|n|w|n|n|n]; simpl in *.
  - destruct (n <? 0) eqn:E0; [apply Z.ltb_lt in E0; lia|].
    destruct ((n <=? s_size s - s_cur s) && match s_waiters s with [] => true | _ => false end) eqn:E; simpl.
    + apply andb_prop in E. destruct E as [_ E]. unfold sfront in *; simpl. destruct (s_waiters s); [auto|discriminate].
    + destruct (s_size s <? n); simpl; [exact F|].
      unfold sfront in *; simpl. destruct (s_waiters s) as [|[w0 n0] r]; simpl; [|exact F].
      intros _. rewrite andb_true_r in E. apply Z.leb_gt in E. lia.
  - destruct (n <? 0); simpl; auto.
    destruct ((n <=? s_size s - s_cur s) && match s_waiters s with [] => true | _ => false end) eqn:E; simpl; auto.
    apply andb_prop in E. destruct E as [_ E]. unfold sfront in *; simpl. destruct (s_waiters s); [auto|discriminate].
  - destruct (mem w (s_doomed s)); simpl; [exact F|].
    destruct (wmem w (s_waiters s)); simpl; auto.
    destruct ((match s_waiters s with (w0, _) :: _ => w0 =? w | [] => false end) && (s_cur s <? s_size s)) eqn:E; simpl.
    + match goal with |- context [snotify ?x] => destruct (snotify x) as [s2 e] eqn:N end.
      simpl. eapply snotify_front; eauto.
    + unfold sfront in *; simpl. destruct (s_waiters s) as [|[w0 n0] r]; simpl; auto.
      destruct (w0 =? w) eqn:E0; simpl in *.
      * apply Z.ltb_ge in E. destruct (wremove w r) as [|[w1 n1] r1]; auto. intros; lia.
      * exact F.
  - destruct (n <? 0) eqn:E0; [apply Z.ltb_lt in E0; lia|].
    destruct (s_cur s - n <? 0) eqn:E1; [apply Z.ltb_lt in E1; lia|].
    match goal with |- context [snotify ?x] => destruct (snotify x) as [s2 e] eqn:N end.
    simpl. eapply snotify_front; eauto.
  - match goal with |- context [snotify ?x] => destruct (snotify x) as [s2 e] eqn:N end.
    simpl. eapply snotify_front; eauto.
  - destruct (n <? 0) eqn:E0; [apply Z.ltb_lt in E0; lia|]. simpl.
    unfold sfront in *; simpl. destruct (s_waiters s) as [|[w0 n0] r]; auto. intros P. specialize (F P). lia.
Qed.

(* in every reachable state a front waiter with a positive weight does not fit: nobody who could be
   served is left waiting (for weight 0 see the remark [zero_weight_waiter_can_stay] below) *)
Lemma sem_no_lost_wakeup s : sreach s -> sfront s.
Proof.
  induction 1.
  - unfold sfront; simpl; auto.
  - apply sfront_step; auto.
Qed.

(* Remark, not a violation of the property's three semaphore clauses: size 1 held, w1 asks 1, w2 asks 0
   behind it, w1 is cancelled.  cur = size, so the cancellation branch does not call notifyWaiters and
   the zero-weight call w2 stays in the list although it "fits" (it is served by the next Release /
   SetSize).  Same as upstream x/sync/semaphore. *)
Lemma zero_weight_waiter_can_stay :
  let ops := [SAcquire 1; SAcquire 1; SAcquire 0; SCancel 1] in
  svalid (sinit 1) ops /\
  snd (srun (sinit 1) ops) = [[SGranted 0]; []; []; [SCancelled 1]] /\
  s_waiters (fst (srun (sinit 1) ops)) = [(2, 0)] /\
  s_size (fst (srun (sinit 1) ops)) - s_cur (fst (srun (sinit 1) ops)) = 0.
Proof. vm_compute. intuition congruence. Qed.
