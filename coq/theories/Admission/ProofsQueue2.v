(* C29 — more lemmas about the round-robin queue model: the committed AdjustCapacity loop, one outcome per
   Acquire call over whole histories, and round-robin fairness as a bound on the number of releases a
   waiting user can see without being served. *)
From Coq Require Import ZArith List Bool Lia.
From SH Require Import Admission.Model Admission.ProofsQueue.
Import ListNotations.
Open Scope Z_scope.

(* ---- AdjustCapacity: the model's [qdrain] is the committed loop ---- *)

Lemma adjust_loop_is_qdrain : forall fuel s,
  0 <= q_active s -> users_ok s -> adjust_loop fuel s = qdrain true fuel s.
Proof.
  induction fuel as [|f IH]; intros s A OK; simpl; auto.
  destruct (qnext_cases true s OK) as [[E C]|(u & q & rest & F & Hu & Hmin & Hq & E)].
  - rewrite E. assert (H : adjust_cond s = false).
    { unfold adjust_cond. destruct C as [C|C].
      - unfold q_full in C. apply Z.leb_le in C.
        replace (q_active s <? q_max s) with false by (symmetry; apply Z.ltb_ge; lia). reflexivity.
      - rewrite C. apply andb_false_r. }
    rewrite H. reflexivity.
  - assert (H : adjust_cond s = true).
    { unfold adjust_cond. unfold q_full in F. apply Z.leb_gt in F.
      replace (q_active s <? q_max s) with true by (symmetry; apply Z.ltb_lt; lia).
      destruct (q_users s); [destruct Hu|reflexivity]. }
    rewrite H, E. destruct (qnext_ok _ _ _ _ E A OK) as (A1 & _ & OK1). rewrite IH; auto.
Qed.

(* with the fuel [qstep] gives it, the loop stops because its condition is false, not for lack of fuel *)
Lemma adjust_loop_exit fuel s s' e :
  adjust_loop fuel s = (s', e) -> 0 <= q_active s -> 0 <= q_max s -> users_ok s ->
  (waiting_count (q_users s) <= fuel)%nat -> adjust_cond s' = false.
Proof.
  intros H A M OK F. rewrite adjust_loop_is_qdrain in H; auto.
  destruct (qdrain_inv _ _ _ _ H A M OK F) as [_ _ _ W]. unfold adjust_cond.
  assert (D : q_users s' = [] \/ q_users s' <> []) by (destruct (q_users s'); [left|right]; congruence).
  destruct D as [D|D]; [rewrite D; apply andb_false_r|].
  specialize (W eq_refl D).
  replace (q_active s' <? q_max s') with false by (symmetry; apply Z.ltb_ge; lia). reflexivity.
Qed.

(* AdjustCapacity of the current code, on every reachable state: set the capacity, run the loop *)
Lemma adjust_is_committed_loop s n :
  qreach true s ->
  let s1 := {| q_active := q_active s; q_max := n; q_users := q_users s; q_order := q_order s; q_next := q_next s |} in
  qstep true s (QAdjust n) = adjust_loop (waiting_count (q_users s)) s1 /\
  (0 <= n -> adjust_cond (fst (qstep true s (QAdjust n))) = false).
Proof.
  intros R s1. destruct (qreach_inv _ _ R) as [A M OK W].
  assert (OK1 : users_ok s1) by (intros v Hv; apply (OK v Hv)).
  split.
  - simpl. symmetry. apply adjust_loop_is_qdrain; auto.
  - intros Hn. simpl. fold s1. rewrite <- adjust_loop_is_qdrain; auto.
    destruct (adjust_loop (waiting_count (q_users s)) s1) as [s' e] eqn:E. simpl.
    eapply adjust_loop_exit; eauto.
Qed.

(* ---- one outcome per Acquire call ---- *)

Definition idsl (us : list urec) : list Z := concat (map u_qs us).
Definition ids (s : qstate) : list Z := idsl (q_users s).
Definition cnt (l : list Z) (x : Z) : nat := count_occ Z.eq_dec l x.
Definition one (q x : Z) : nat := if Z.eq_dec q x then 1%nat else 0%nat.

(* every id is waiting or done at most once in total, and only ids already given out *)
Definition U (s : qstate) (D : list Z) : Prop :=
  forall x, (cnt (ids s) x + cnt D x <= (if (x <? q_next s)%Z then 1 else 0))%nat.

Definition fresh (s s' : qstate) (x : Z) : nat := if (q_next s <=? x) && (x <? q_next s') then 1%nat else 0%nat.

Definition delta (s : qstate) (e : list qev) (s' : qstate) : Prop :=
  q_next s <= q_next s' /\
  forall x, (cnt (ids s') x + cnt (oids e) x <= cnt (ids s) x + fresh s s' x)%nat.

Lemma cnt_app l1 l2 x : cnt (l1 ++ l2) x = (cnt l1 x + cnt l2 x)%nat.
Proof. unfold cnt. apply count_occ_app. Qed.

Lemma cnt_single q x : cnt [q] x = one q x.
Proof. unfold cnt, one. simpl. destruct (Z.eq_dec q x); reflexivity. Qed.

Lemma cnt_cons q l x : cnt (q :: l) x = (one q x + cnt l x)%nat.
Proof. unfold cnt, one. simpl. destruct (Z.eq_dec q x); reflexivity. Qed.

Lemma oids_app e1 e2 : oids (e1 ++ e2) = oids e1 ++ oids e2.
Proof. unfold oids. apply flat_map_app. Qed.

Lemma U_delta s D e s' : U s D -> delta s e s' -> U s' (D ++ oids e).
Proof.
  intros H [Hn Hd] x. specialize (H x). specialize (Hd x). rewrite cnt_app. unfold fresh in Hd.
  destruct (Z.ltb_spec x (q_next s)), (Z.ltb_spec x (q_next s')), (Z.leb_spec (q_next s) x); simpl in *; lia.
Qed.

Lemma delta_refl s : delta s [] s.
Proof. split; [lia|]. intros x. unfold cnt. simpl. lia. Qed.

Lemma delta_comp s e1 s1 e2 s2 : delta s e1 s1 -> delta s1 e2 s2 -> delta s (e1 ++ e2) s2.
Proof.
  intros [N1 D1] [N2 D2]. split; [lia|]. intros x. specialize (D1 x). specialize (D2 x).
  rewrite oids_app, cnt_app. unfold fresh in *.
  destruct (Z.leb_spec (q_next s) x), (Z.ltb_spec x (q_next s1)), (Z.leb_spec (q_next s1) x),
           (Z.ltb_spec x (q_next s2)); simpl in *; lia.
Qed.

Lemma cnt_nil x : cnt [] x = 0%nat.
Proof. reflexivity. Qed.

Lemma idsl_single u : idsl [u] = u_qs u.
Proof. unfold idsl. simpl. apply app_nil_r. Qed.

Lemma idsl_app l1 l2 : idsl (l1 ++ l2) = idsl l1 ++ idsl l2.
Proof. unfold idsl. rewrite map_app, concat_app. reflexivity. Qed.

Lemma cnt_remove_le t us x : (cnt (idsl (remove_user t us)) x <= cnt (idsl us) x)%nat.
Proof.
  induction us as [|a r IH]; simpl; auto. unfold idsl in *. simpl.
  destruct (negb (u_tok a =? t)); simpl; rewrite ?cnt_app; lia.
Qed.

Lemma cnt_remove u us x :
  In u us -> (cnt (idsl (remove_user (u_tok u) us)) x + cnt (u_qs u) x <= cnt (idsl us) x)%nat.
Proof.
  induction us as [|a r IH]; simpl; intros H; [destruct H|].
  pose proof (cnt_remove_le (u_tok u) r x) as L. unfold idsl in *. simpl.
  destruct H as [H|H].
  - subst a. rewrite Z.eqb_refl. simpl. rewrite cnt_app. lia.
  - specialize (IH H). destruct (negb (u_tok a =? u_tok u)); simpl; rewrite ?cnt_app; lia.
Qed.

Lemma cnt_push tok q us x : (cnt (idsl (push_query tok q us)) x <= cnt (idsl us) x + one q x)%nat.
Proof.
  induction us as [|a r IH]; simpl; [unfold idsl, cnt; simpl; lia|].
  destruct (u_tok a =? tok); unfold idsl in *; simpl.
  - rewrite !cnt_app, cnt_single. lia.
  - rewrite !cnt_app. lia.
Qed.

Lemma cnt_filter_ne q l x :
  (cnt (filter (fun y => negb (y =? q)%Z) l) x <= (if Z.eq_dec x q then 0 else cnt l x))%nat.
Proof.
  induction l as [|a r IH]; cbn [filter].
  - unfold cnt; simpl. destruct (Z.eq_dec x q); lia.
  - rewrite cnt_cons. destruct (a =? q) eqn:E; cbn [negb].
    + apply Z.eqb_eq in E. subst a. destruct (Z.eq_dec x q); lia.
    + apply Z.eqb_neq in E. rewrite cnt_cons. unfold one.
      destruct (Z.eq_dec x q); destruct (Z.eq_dec a x); try lia; subst; congruence.
Qed.

Lemma idsl_cons a l : idsl (a :: l) = u_qs a ++ idsl l.
Proof. reflexivity. Qed.

Lemma idsl_filter_nonempty l : idsl (filter nonempty_user l) = idsl l.
Proof.
  induction l as [|a l IH]; cbn [filter]; auto.
  unfold nonempty_user at 1. destruct (u_qs a) eqn:Q.
  - rewrite IH, idsl_cons, Q. reflexivity.
  - rewrite !idsl_cons, IH. reflexivity.
Qed.

Lemma cnt_cancel q us x :
  (cnt (idsl (filter nonempty_user (map (drop_query q) us))) x <= (if Z.eq_dec x q then 0 else cnt (idsl us) x))%nat.
Proof.
  rewrite idsl_filter_nonempty.
  induction us as [|a r IH]; cbn [map].
  - unfold idsl, cnt; simpl. destruct (Z.eq_dec x q); lia.
  - pose proof (cnt_filter_ne q (u_qs a) x) as F. rewrite !idsl_cons, !cnt_app.
    unfold drop_query at 1. cbn [u_qs]. destruct (Z.eq_dec x q); lia.
Qed.

Lemma is_waiting_cnt q us : is_waiting q us = true -> (1 <= cnt (idsl us) q)%nat.
Proof.
  intros H. unfold is_waiting in H. apply existsb_exists in H. destruct H as (u & Hu & H).
  apply existsb_exists in H. destruct H as (y & Hy & E). apply Z.eqb_eq in E. subst y.
  assert (I : In q (idsl us)).
  { unfold idsl. apply in_concat. exists (u_qs u). split; auto. apply in_map; auto. }
  unfold cnt. apply (count_occ_In Z.eq_dec) in I. lia.
Qed.

Lemma fresh_same s s' x : q_next s' = q_next s -> fresh s s' x = 0%nat.
Proof.
  intros E. unfold fresh. rewrite E.
  destruct (Z.leb_spec (q_next s) x), (Z.ltb_spec x (q_next s)); simpl; auto; lia.
Qed.

Lemma qnext_delta fx s s' e : qnext fx s = (s', e) -> delta s e s'.
Proof.
  unfold qnext. destruct (q_full fx s); [intros H; inversion H; subst; apply delta_refl|].
  pose proof (min_user_spec (q_users s)) as M.
  destruct (min_user (q_users s)) as [u|]; [|intros H; inversion H; subst; apply delta_refl].
  destruct M as [Hu _].
  destruct (u_qs u) as [|q rest] eqn:Q; intros H; inversion H; subst; clear H.
  - split; [lia|]. intros x. rewrite fresh_same by reflexivity. change (oids [QPanic]) with (@nil Z). rewrite cnt_nil. lia.
  - split; [cbn [q_next]; lia|]. intros x. rewrite fresh_same by reflexivity.
    pose proof (cnt_remove u _ x Hu) as L. rewrite Q, cnt_cons in L.
    change (oids [QGranted (u_tok u) q]) with [q]. rewrite cnt_single.
    unfold ids; cbn [q_users].
    destruct rest as [|r0 rest'].
    + rewrite cnt_nil in L. lia.
    + rewrite idsl_app, cnt_app, idsl_single. cbn [u_qs]. lia.
Qed.

Lemma qdrain_delta fx : forall fuel s s' e, qdrain fx fuel s = (s', e) -> delta s e s'.
Proof.
  induction fuel as [|f IH]; intros s s' e H; simpl in H.
  - inversion H; subst. apply delta_refl.
  - destruct (qnext fx s) as [s1 e1] eqn:N. pose proof (qnext_delta _ _ _ _ N) as D1.
    destruct e1 as [|x e1'].
    + inversion H; subst. exact D1.
    + destruct (qdrain fx f s1) as [s2 e2] eqn:D. inversion H; subst.
      change (x :: e1' ++ e2) with ((x :: e1') ++ e2). eapply delta_comp; eauto.
Qed.

Lemma delta_pre s s1 e s' :
  q_next s <= q_next s1 ->
  (forall x, (cnt (ids s1) x <= cnt (ids s) x + fresh s s1 x)%nat) ->
  delta s1 e s' -> delta s e s'.
Proof.
  intros N P D. change e with ([] ++ e). eapply delta_comp; [|exact D].
  split; auto. intros x. change (oids []) with (@nil Z). rewrite cnt_nil. specialize (P x). lia.
Qed.

Lemma fresh_one s s1 x : q_next s1 = q_next s + 1 -> fresh s s1 x = one (q_next s) x.
Proof.
  intros E. unfold fresh, one. rewrite E.
  destruct (Z.leb_spec (q_next s) x), (Z.ltb_spec x (q_next s + 1)), (Z.eq_dec (q_next s) x); simpl; auto; lia.
Qed.

Lemma qstep_delta fx s op s' e : qstep fx s op = (s', e) -> delta s e s'.
Proof.
  intros H. destruct op as [tok|q| |n]; simpl in H.
  - destruct (find_user tok (q_users s)).
    + eapply delta_pre; [| |eapply qnext_delta; eauto]; cbn [q_next]; [lia|].
      intros x. rewrite fresh_one by reflexivity. unfold ids; cbn [q_users]. apply cnt_push.
    + destruct (q_active s <? q_max s).
      * inversion H; subst; clear H. split; [cbn [q_next]; lia|]. intros x. rewrite fresh_one by reflexivity.
        unfold ids; cbn [q_users]. change (oids [QGranted tok (q_next s)]) with [q_next s]. rewrite cnt_single. lia.
      * eapply delta_pre; [| |eapply qnext_delta; eauto]; cbn [q_next]; [lia|].
        intros x. rewrite fresh_one by reflexivity. unfold ids; cbn [q_users].
        rewrite idsl_app, cnt_app, idsl_single. cbn [u_qs]. rewrite cnt_single. lia.
  - destruct (is_waiting q (q_users s)) eqn:W; inversion H; subst; clear H; [|apply delta_refl].
    split; [cbn [q_next]; lia|]. intros x. rewrite fresh_same by reflexivity. unfold ids; cbn [q_users].
    pose proof (cnt_cancel q (q_users s) x) as C. pose proof (is_waiting_cnt _ _ W) as I.
    change (oids [QCancelled q]) with [q]. rewrite cnt_single. unfold one.
    destruct (Z.eq_dec x q); destruct (Z.eq_dec q x); subst; try congruence; lia.
  - eapply delta_pre; [| |eapply qnext_delta; eauto]; cbn [q_next]; [lia|].
    intros x. unfold ids; cbn [q_users]. lia.
  - destruct fx.
    + eapply delta_pre; [| |eapply qdrain_delta; eauto]; cbn [q_next]; [lia|]. intros x. unfold ids; cbn [q_users]. lia.
    + inversion H; subst. split; [cbn [q_next]; lia|]. intros x. unfold ids; cbn [q_users].
      change (oids []) with (@nil Z). rewrite cnt_nil. lia.
Qed.

Lemma U_run fx : forall ops s D,
  U s D -> U (fst (qrun fx s ops)) (D ++ oids (concat (snd (qrun fx s ops)))).
Proof.
  induction ops as [|op r IH]; intros s D H.
  - simpl. rewrite app_nil_r. exact H.
  - rewrite qrun_fst_cons, qrun_snd_cons. simpl concat. rewrite oids_app, app_assoc.
    apply IH. destruct (qstep fx s op) as [s1 e] eqn:E. simpl. eapply U_delta; eauto. eapply qstep_delta; eauto.
Qed.

(* over any history from the empty queue (any variant, any schedule, protocol respected or not), the
   Acquire calls that returned — with nil or with an error — are pairwise different calls *)
Lemma one_outcome_per_call fx m ops : NoDup (oids (concat (snd (qrun fx (qinit m) ops)))).
Proof.
  assert (U0 : U (qinit m) []).
  { intros x. unfold ids, idsl, cnt; simpl. lia. }
  pose proof (U_run fx ops (qinit m) [] U0) as H. simpl in H.
  apply (NoDup_count_occ Z.eq_dec). intros x. specialize (H x). unfold cnt in H.
  destruct (x <? q_next (fst (qrun fx (qinit m) ops))); lia.
Qed.

Lemma in_oids e es q :
  In e es -> (match e with QGranted _ q' => q' = q | QCancelled q' => q' = q | QPanic => False end) -> In q (oids es).
Proof.
  intros H M. unfold oids. apply in_flat_map. exists e. split; auto.
  destruct e; try contradiction; subst; simpl; auto.
Qed.

Lemma nodup_exclusive es :
  NoDup (oids es) ->
  (forall t q, In (QGranted t q) es -> ~ In (QCancelled q) es) /\
  (forall t t' q l1 l2, es = l1 ++ QGranted t q :: l2 -> ~ In (QGranted t' q) l1 /\ ~ In (QGranted t' q) l2).
Proof.
  intros ND. split.
  - intros t q Hg Hc. apply in_split in Hg. destruct Hg as (l1 & l2 & E). subst es.
    rewrite oids_app in ND. simpl in ND.
    apply in_app_or in Hc. destruct Hc as [Hc|[Hc|Hc]]; [|discriminate|].
    + apply NoDup_remove_2 in ND. apply ND. apply in_or_app. left. eapply in_oids; eauto. reflexivity.
    + apply NoDup_remove_2 in ND. apply ND. apply in_or_app. right. eapply in_oids; eauto. reflexivity.
  - intros t t' q l1 l2 E. subst es. rewrite oids_app in ND. simpl in ND. apply NoDup_remove_2 in ND.
    split; intro H; apply ND; apply in_or_app; [left|right]; eapply in_oids; eauto; reflexivity.
Qed.

(* ---- round-robin fairness as a bound ---- *)

Definition key (u : urec) : Z * Z := (u_tok u, u_ord u).
Definition keys (s : qstate) : list (Z * Z) := map key (q_users s).
Definition b_ords (B : Z) (ks : list (Z * Z)) : list Z := map snd (filter (fun k => fst k =? B) ks).
Definition aheadk (B : Z) (ks : list (Z * Z)) (k : Z * Z) : bool :=
  negb (fst k =? B) && existsb (fun o => snd k <=? o) (b_ords B ks).
Definition rankk (B : Z) (ks : list (Z * Z)) : nat := length (filter (aheadk B ks) ks).
(* number of waiting users of other tokens whose order is not after B's *)
Definition rank (B : Z) (s : qstate) : nat := rankk B (keys s).

Lemma existsb_false {A} (f : A -> bool) l : (forall x, In x l -> f x = false) -> existsb f l = false.
Proof. induction l; simpl; intros; auto. rewrite H by auto. rewrite IHl; auto. Qed.

Lemma rankk_app_behind B ks t o :
  t <> B -> (forall ob, In ob (b_ords B ks) -> ob < o) -> rankk B (ks ++ [(t, o)]) = rankk B ks.
Proof.
  intros NE Hb. unfold rankk.
  assert (Eb : b_ords B (ks ++ [(t, o)]) = b_ords B ks).
  { unfold b_ords. rewrite filter_app. simpl. replace (t =? B) with false by (symmetry; apply Z.eqb_neq; auto).
    rewrite app_nil_r. reflexivity. }
  assert (Ef : forall k, aheadk B (ks ++ [(t, o)]) k = aheadk B ks k) by (intros; unfold aheadk; rewrite Eb; reflexivity).
  rewrite (filter_ext _ _ Ef). rewrite filter_app. simpl.
  assert (aheadk B ks (t, o) = false).
  { unfold aheadk; simpl. rewrite existsb_false; [apply andb_false_r|].
    intros ob Hob. specialize (Hb _ Hob). apply Z.leb_gt. lia. }
  rewrite H. rewrite app_nil_r. reflexivity.
Qed.

Lemma filter_filter_sub {A} (f r : A -> bool) l :
  (forall k, f k = true -> r k = true) -> filter f (filter r l) = filter f l.
Proof.
  intros H. induction l as [|a l IH]; simpl; auto.
  destruct (r a) eqn:R; simpl; rewrite IH; auto.
  destruct (f a) eqn:F; auto. rewrite (H _ F) in R. discriminate.
Qed.

Lemma filter_drop_len {A} (p r : A -> bool) l c :
  In c l -> p c = true -> r c = false -> (length (filter p (filter r l)) + 1 <= length (filter p l))%nat.
Proof.
  assert (L : forall l, (length (filter p (filter r l)) <= length (filter p l))%nat).
  { induction l0 as [|a l0 IH]; simpl; auto. destruct (r a); simpl; destruct (p a); simpl; lia. }
  induction l as [|a l IH]; simpl; intros H P R; [destruct H|].
  destruct H as [H|H].
  - subst a. rewrite R, P. simpl. specialize (L l). lia.
  - specialize (IH H P R). destruct (r a); simpl; destruct (p a); simpl; lia.
Qed.

Lemma rankk_remove B ks tC oc :
  tC <> B -> In (tC, oc) ks -> (exists ob, In ob (b_ords B ks) /\ oc <= ob) ->
  (rankk B (filter (fun k => negb (fst k =? tC)%Z) ks) + 1 <= rankk B ks)%nat.
Proof.
  intros NE Hc (ob & Hob & Le). unfold rankk.
  assert (Eb : b_ords B (filter (fun k => negb (fst k =? tC)) ks) = b_ords B ks).
  { unfold b_ords. f_equal. apply filter_filter_sub. intros k Hk. apply Z.eqb_eq in Hk.
    apply negb_true_iff. apply Z.eqb_neq. congruence. }
  assert (Ef : forall k, aheadk B (filter (fun k => negb (fst k =? tC)) ks) k = aheadk B ks k)
    by (intros; unfold aheadk; rewrite Eb; reflexivity).
  rewrite (filter_ext _ _ Ef). apply filter_drop_len with (c := (tC, oc)); auto.
  - unfold aheadk; simpl. replace (tC =? B) with false by (symmetry; apply Z.eqb_neq; auto). simpl.
    apply existsb_exists. exists ob. split; auto. apply Z.leb_le; auto.
  - simpl. rewrite Z.eqb_refl. reflexivity.
Qed.

Lemma keys_remove t us : map key (remove_user t us) = filter (fun k => negb (fst k =? t)) (map key us).
Proof.
  induction us as [|a r IH]; simpl; auto. destruct (negb (u_tok a =? t)); simpl; rewrite IH; reflexivity.
Qed.

Lemma keys_push tok q us : map key (push_query tok q us) = map key us.
Proof.
  induction us as [|a r IH]; simpl; auto. destruct (u_tok a =? tok); simpl; [reflexivity|rewrite IH; reflexivity].
Qed.

Lemma in_b_ords B us o : In o (b_ords B (map key us)) -> exists b, In b us /\ u_tok b = B /\ u_ord b = o.
Proof.
  unfold b_ords. intros H. apply in_map_iff in H. destruct H as ([t o'] & E & H). simpl in E. subst o'.
  apply filter_In in H. destruct H as [H T]. simpl in T. apply Z.eqb_eq in T. subst t.
  apply in_map_iff in H. destruct H as (b & Eb & Hb). inversion Eb; subst. exists b. auto.
Qed.

Lemma b_ords_in B us b : In b us -> u_tok b = B -> In (u_ord b) (b_ords B (map key us)).
Proof.
  intros H T. unfold b_ords. apply in_map_iff. exists (key b). split; auto.
  apply filter_In. split; [apply in_map; auto|]. simpl. apply Z.eqb_eq; auto.
Qed.

(* a grant that is not for B takes one user out from in front of B; nothing else moves in front *)
Lemma qnext_rank fx B s s' e :
  users_ok s -> user_waiting B s -> qnext fx s = (s', e) -> grants_to B e = 0%nat ->
  (rank B s' + length e <= rank B s)%nat.
Proof.
  intros OK (b & Hb & Tb) H GB.
  destruct (qnext_cases fx s OK) as [[E C]|(u & q & rest & F & Hu & Hmin & Hq & E)]; rewrite E in H; inversion H; subst s' e; clear H.
  - simpl. lia.
  - unfold grants_to in GB. simpl in GB. destruct (u_tok u =? B) eqn:TB; [simpl in GB; lia|]. apply Z.eqb_neq in TB.
    simpl length. unfold rank, keys.
    assert (R1 : (rankk B (filter (fun k => negb (fst k =? u_tok u)%Z) (map key (q_users s))) + 1 <= rankk B (map key (q_users s)))%nat).
    { apply rankk_remove with (oc := u_ord u); auto.
      - change (u_tok u, u_ord u) with (key u). apply in_map; auto.
      - exists (u_ord b). split; [apply b_ords_in; auto|apply Hmin; auto]. }
    unfold granted_state; simpl. destruct rest.
    + rewrite keys_remove. exact R1.
    + rewrite map_app, keys_remove. simpl. unfold key at 2. simpl.
      rewrite rankk_app_behind; auto.
      intros ob Hob. rewrite <- keys_remove in Hob. apply in_b_ords in Hob. destruct Hob as (b' & Hb' & _ & Eo).
      unfold remove_user in Hb'. apply filter_In in Hb'. destruct Hb' as [Hb' _]. subst ob. apply OK; auto.
Qed.

Definition acq_or_rel (op : qop) : bool := match op with QAcquire _ | QRelease => true | _ => false end.

Lemma qstep_rank B s op s' e :
  qinv true s -> q_active s <= q_max s -> qenabled s op -> acq_or_rel op = true ->
  user_waiting B s -> qstep true s op = (s', e) -> grants_to B e = 0%nat ->
  Z.of_nat (rank B s') + release_cost op <= Z.of_nat (rank B s).
Proof.
  intros [A M OK W] L En AR WB H GB.
  destruct op as [tok|q| |n]; simpl in *; try discriminate.
  - destruct (find_user tok (q_users s)) as [u0|] eqn:F.
    + match type of H with qnext _ ?x = _ => set (s1 := x) in * end.
      assert (OK1 : users_ok s1).
      { intros v Hv. simpl in Hv. apply in_push_same in Hv. destruct Hv as (u & Hu & E1 & E2 & E3).
        destruct (OK _ Hu). split; auto. simpl. lia. }
      assert (WB1 : user_waiting B s1).
      { destruct WB as (u & Hu & Tu). destruct (push_keeps tok (q_next s) _ _ Hu) as (v & Hv & E1 & E2).
        exists v. split; [exact Hv|congruence]. }
      pose proof (qnext_rank true B s1 s' e OK1 WB1 H GB) as R.
      assert (rank B s1 = rank B s) by (unfold rank, keys; simpl; rewrite keys_push; reflexivity). lia.
    + destruct (q_active s <? q_max s).
      * inversion H; subst. unfold rank, keys. simpl. lia.
      * match type of H with qnext _ ?x = _ => set (s1 := x) in * end.
        pose proof (find_user_none _ _ F) as FN.
        assert (OK1 : users_ok s1).
        { intros v Hv. simpl in Hv. apply in_app_or in Hv. destruct Hv as [Hv|[Hv|[]]].
          - destruct (OK _ Hv). split; auto. simpl; lia.
          - subst v; simpl. split; [congruence|lia]. }
        assert (WB1 : user_waiting B s1).
        { destruct WB as (u & Hu & Tu). exists u. split; auto. simpl. apply in_or_app; auto. }
        pose proof (qnext_rank true B s1 s' e OK1 WB1 H GB) as R.
        assert (rank B s1 = rank B s).
        { unfold rank, keys; simpl. rewrite map_app. simpl. unfold key at 2. simpl. apply rankk_app_behind.
          - destruct WB as (u & Hu & Tu). intro. apply (FN _ Hu). congruence.
          - intros ob Hob. apply in_b_ords in Hob. destruct Hob as (b' & Hb' & _ & Eo). subst ob. apply OK; auto. }
        lia.
  - match type of H with qnext _ ?x = _ => set (s1 := x) in * end.
    assert (OK1 : users_ok s1) by (intros v Hv; apply (OK v Hv)).
    assert (WB1 : user_waiting B s1) by exact WB.
    pose proof (qnext_rank true B s1 s' e OK1 WB1 H GB) as R.
    assert (rank B s1 = rank B s) by reflexivity.
    assert (1 <= length e)%nat.
    { destruct (qnext_cases true s1 OK1) as [[E C]|(u & q & rest & Fu & Hu & Hmin & Hq & E)]; rewrite E in H; inversion H; subst; simpl; [|lia].
      exfalso. destruct C as [C|C].
      - unfold q_full in C. simpl in C. apply Z.leb_le in C. lia.
      - simpl in C. destruct WB as (u & Hu & _). rewrite C in Hu. destruct Hu. }
    lia.
Qed.

Lemma fairness_bound B : forall ops s,
  qinv true s -> q_active s <= q_max s -> qvalid true s ops -> forallb acq_or_rel ops = true ->
  waits_through true B s ops ->
  releases ops + Z.of_nat (rank B (fst (qrun true s ops))) <= Z.of_nat (rank B s).
Proof.
  induction ops as [|op r IH]; intros s I L V AR WT.
  - simpl. lia.
  - rewrite qrun_fst_cons. simpl in V, AR, WT. destruct V as [V1 V2]. apply andb_prop in AR. destruct AR as [AR1 AR2].
    destruct WT as (W0 & G & WT).
    pose proof (qstep_inv true s op I V1) as I1.
    assert (NA : is_adjust op = false) by (destruct op; simpl in *; auto; discriminate).
    destruct (active_le_max_step true s op NA L) as [L1 M1].
    destruct (qstep true s op) as [s1 e] eqn:E. simpl in *.
    pose proof (qstep_rank B s op s1 e I L V1 AR1 W0 E G) as R.
    assert (L1' : q_active s1 <= q_max s1) by lia.
    specialize (IH s1 I1 L1' V2 AR2 WT). lia.
Qed.

(* a user that keeps waiting unserved sees at most [rank] releases: as many as there are users of other
   tokens at or before its place in the order *)
Lemma starvation_bound s ops B :
  qreach true s -> q_active s <= q_max s -> qvalid true s ops -> forallb acq_or_rel ops = true ->
  waits_through true B s ops -> releases ops <= Z.of_nat (rank B s).
Proof.
  intros R L V AR WT. pose proof (fairness_bound B ops s (qreach_inv _ _ R) L V AR WT). lia.
Qed.

Lemma outcomes_exclusive fx m ops :
  let es := concat (snd (qrun fx (qinit m) ops)) in
  (forall t q, In (QGranted t q) es -> ~ In (QCancelled q) es) /\
  (forall t t' q l1 l2, es = l1 ++ QGranted t q :: l2 -> ~ In (QGranted t' q) l1 /\ ~ In (QGranted t' q) l2).
Proof. intros es. apply nodup_exclusive. apply one_outcome_per_call. Qed.
