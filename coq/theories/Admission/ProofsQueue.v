(* C29 — lemmas about the round-robin queue model. *)
From Coq Require Import ZArith List Bool Lia.
From SH Require Import Admission.Model.
Import ListNotations.
Open Scope Z_scope.

Definition users_ok (s : qstate) : Prop :=
  forall u, In u (q_users s) -> u_qs u <> [] /\ u_ord u < q_order s.

Lemma min_user_spec us :
  match min_user us with
  | None => us = []
  | Some u => In u us /\ forall v, In v us -> u_ord u <= u_ord v
  end.
Proof.
  induction us as [|a r IH]; simpl; auto.
  destruct (min_user r) as [v|].
  - destruct IH as [I1 I2]. destruct (u_ord v <? u_ord a) eqn:E.
    + apply Z.ltb_lt in E. split; auto. intros x [Hx|Hx]; subst; [lia|auto].
    + apply Z.ltb_ge in E. split; auto. intros x [Hx|Hx]; subst; [lia|]. specialize (I2 _ Hx). lia.
  - subst r. split; auto. intros x [Hx|[]]. subst; lia.
Qed.

Definition granted_state (s : qstate) (u : urec) (rest : list Z) : qstate :=
  {| q_active := q_active s + 1; q_max := q_max s;
     q_users := match rest with
                | [] => remove_user (u_tok u) (q_users s)
                | _ => remove_user (u_tok u) (q_users s) ++ [{| u_tok := u_tok u; u_ord := q_order s; u_qs := rest |}]
                end;
     q_order := q_order s + 1; q_next := q_next s |}.

(* nextQueryLocked either does nothing (full, or nobody waits) or grants the first query of the user
   with the least order *)
Lemma qnext_cases fx s : users_ok s ->
  (qnext fx s = (s, []) /\ (q_full fx s = true \/ q_users s = [])) \/
  (exists u q rest, q_full fx s = false /\ In u (q_users s) /\
      (forall v, In v (q_users s) -> u_ord u <= u_ord v) /\ u_qs u = q :: rest /\
      qnext fx s = (granted_state s u rest, [QGranted (u_tok u) q])).
Proof.
  intros OK. unfold qnext. destruct (q_full fx s) eqn:F; [left; auto|].
  pose proof (min_user_spec (q_users s)) as M. destruct (min_user (q_users s)) as [u|].
  - destruct M as [M1 M2]. destruct (OK _ M1) as [NE _]. destruct (u_qs u) as [|q rest] eqn:Q; [congruence|].
    right. exists u, q, rest. repeat split; auto.
  - left. auto.
Qed.

Lemma in_granted s u rest v :
  In v (q_users (granted_state s u rest)) ->
  (In v (q_users s) /\ u_tok v <> u_tok u) \/
  (rest <> [] /\ v = {| u_tok := u_tok u; u_ord := q_order s; u_qs := rest |}).
Proof.
  unfold granted_state, remove_user; simpl. intros H.
  assert (P : In v (filter (fun u0 => negb (u_tok u0 =? u_tok u)) (q_users s)) -> In v (q_users s) /\ u_tok v <> u_tok u).
  { intros Hf. apply filter_In in Hf. destruct Hf as [H1 H2]. split; auto.
    apply negb_true_iff in H2. apply Z.eqb_neq in H2. auto. }
  destruct rest.
  - left. auto.
  - apply in_app_or in H. destruct H as [H|[H|[]]]; [left; auto|right]. split; [congruence|auto].
Qed.

Lemma in_granted_old s u rest v :
  In v (q_users s) -> u_tok v <> u_tok u -> In v (q_users (granted_state s u rest)).
Proof.
  unfold granted_state, remove_user; simpl. intros H N.
  assert (In v (filter (fun u0 => negb (u_tok u0 =? u_tok u)) (q_users s))).
  { apply filter_In. split; auto. apply negb_true_iff. apply Z.eqb_neq. auto. }
  destruct rest; auto. apply in_or_app. auto.
Qed.

Record qinv (fx : bool) (s : qstate) : Prop := {
  qi_active : 0 <= q_active s;
  qi_max : 0 <= q_max s;
  qi_users : users_ok s;
  qi_wake : fx = true -> q_users s <> [] -> q_max s <= q_active s
}.

Lemma qnext_ok fx s s' e :
  qnext fx s = (s', e) -> 0 <= q_active s -> users_ok s ->
  0 <= q_active s' /\ q_max s' = q_max s /\ users_ok s'.
Proof.
  intros H A OK.
  destruct (qnext_cases fx s OK) as [[E C]|(u & q & rest & F & Hu & Hmin & Hq & E)]; rewrite E in H; inversion H; subst; clear H.
  - auto.
  - simpl. split; [lia|]. split; [reflexivity|].
    intros v Hv. apply in_granted in Hv. destruct Hv as [[Hv _]|[Hr Hv]].
    + destruct (OK _ Hv). split; auto. simpl. lia.
    + subst v; simpl. split; auto. lia.
Qed.

Lemma qnext_inv fx s s' e :
  qnext fx s = (s', e) -> 0 <= q_active s -> 0 <= q_max s -> users_ok s ->
  (fx = true -> q_users s <> [] -> q_max s <= q_active s + 1) -> qinv fx s'.
Proof.
  intros H A M OK W.
  destruct (qnext_cases fx s OK) as [[E C]|(u & q & rest & F & Hu & Hmin & Hq & E)]; rewrite E in H; inversion H; subst; clear H.
  - constructor; auto. intros Hfx Hne. subst fx. destruct C as [C|C]; [|congruence].
    unfold q_full in C. apply Z.leb_le in C. auto.
  - constructor; simpl; auto; try lia.
    + intros v Hv. apply in_granted in Hv. destruct Hv as [[Hv _]|[Hr Hv]].
      * destruct (OK _ Hv). split; auto. simpl. lia.
      * subst v; simpl. split; auto. lia.
    + intros Hfx _. assert (q_users s <> []) by (intro Z0; rewrite Z0 in Hu; destruct Hu).
      specialize (W Hfx H). lia.
Qed.

(* ---- waiting_count decreases with every grant (fuel of the repaired AdjustCapacity) ---- *)

Lemma wc_app l x : waiting_count (l ++ [x]) = (waiting_count l + length (u_qs x))%nat.
Proof.
  unfold waiting_count. rewrite map_app, concat_app, app_length. simpl. rewrite app_nil_r. reflexivity.
Qed.

Lemma wc_remove_le t us : (waiting_count (remove_user t us) <= waiting_count us)%nat.
Proof.
  induction us as [|a r IH]; simpl; auto. unfold waiting_count in *. simpl.
  destruct (negb (u_tok a =? t)); simpl; rewrite ?app_length; lia.
Qed.

Lemma wc_remove u us :
  In u us -> (waiting_count (remove_user (u_tok u) us) + length (u_qs u) <= waiting_count us)%nat.
Proof.
  induction us as [|a r IH]; simpl; intros H; [destruct H|].
  pose proof (wc_remove_le (u_tok u) r) as L. unfold waiting_count in *. simpl.
  destruct H as [H|H].
  - subst a. rewrite Z.eqb_refl. simpl. rewrite app_length. lia.
  - specialize (IH H). destruct (negb (u_tok a =? u_tok u)); simpl; rewrite ?app_length; lia.
Qed.

Lemma wc_granted s u q rest :
  In u (q_users s) -> u_qs u = q :: rest ->
  (waiting_count (q_users (granted_state s u rest)) < waiting_count (q_users s))%nat.
Proof.
  intros Hu Hq. pose proof (wc_remove u _ Hu) as L. rewrite Hq in L. simpl in L.
  unfold granted_state; simpl. destruct rest.
  - lia.
  - rewrite wc_app. simpl in *. lia.
Qed.

Lemma wc_zero s : users_ok s -> waiting_count (q_users s) = 0%nat -> q_users s = [].
Proof.
  intros OK H. destruct (q_users s) as [|a r] eqn:E; auto.
  assert (In a (q_users s)) by (rewrite E; simpl; auto). destruct (OK _ H0) as [NE _].
  unfold waiting_count in H. simpl in H. rewrite app_length in H. destruct (u_qs a); [congruence|simpl in H; lia].
Qed.

Lemma qdrain_inv : forall fuel s s' e,
  qdrain true fuel s = (s', e) -> 0 <= q_active s -> 0 <= q_max s -> users_ok s ->
  (waiting_count (q_users s) <= fuel)%nat -> qinv true s'.
Proof.
  induction fuel as [|f IH]; intros s s' e H A M OK F; simpl in H.
  - inversion H; subst. constructor; auto. intros _ Hne. exfalso. apply Hne. apply wc_zero; auto. lia.
  - destruct (qnext_cases true s OK) as [[E C]|(u & q & rest & Fu & Hu & Hmin & Hq & E)]; rewrite E in H.
    + inversion H; subst. constructor; auto. intros _ Hne. destruct C as [C|C]; [|congruence].
      unfold q_full in C. apply Z.leb_le in C. auto.
    + destruct (qdrain true f (granted_state s u rest)) as [s2 e2] eqn:D. inversion H; subst; clear H.
      destruct (qnext_ok _ _ _ _ E A OK) as (I1 & I2 & I3).
      eapply IH; eauto; try lia. pose proof (wc_granted s u q rest Hu Hq). lia.
Qed.

(* ---- the invariant is preserved by every step of the protocol ---- *)

Lemma find_user_some tok us u : find_user tok us = Some u -> In u us /\ u_tok u = tok.
Proof. unfold find_user. intros H. apply find_some in H. destruct H. split; auto. apply Z.eqb_eq; auto. Qed.

Lemma find_user_none tok us : find_user tok us = None -> forall u, In u us -> u_tok u <> tok.
Proof. unfold find_user. intros H u Hu. pose proof (find_none _ _ H _ Hu) as N. apply Z.eqb_neq; auto. Qed.

Lemma in_push_same tok q us v :
  In v (push_query tok q us) ->
  exists u, In u us /\ u_tok v = u_tok u /\ u_ord v = u_ord u /\ (u_qs u <> [] -> u_qs v <> []).
Proof.
  induction us as [|a r IH]; simpl; intros H; [destruct H|].
  destruct (u_tok a =? tok).
  - destruct H as [H|H].
    + exists a. subst v; simpl. repeat split; auto. intros _. destruct (u_qs a); simpl; congruence.
    + exists v. auto.
  - destruct H as [H|H].
    + exists a. subst v. auto.
    + destruct (IH H) as (u & Hu & E). exists u. auto.
Qed.

Lemma push_keeps tok q us u :
  In u us -> exists v, In v (push_query tok q us) /\ u_tok v = u_tok u /\ u_ord v = u_ord u.
Proof.
  induction us as [|a r IH]; simpl; intros H; [destruct H|].
  destruct (u_tok a =? tok).
  - destruct H as [H|H].
    + subst a. eexists. split; [left; reflexivity|]. simpl. auto.
    + exists u. simpl. auto.
  - destruct H as [H|H].
    + subst a. exists u. simpl. auto.
    + destruct (IH H) as (v & Hv & E). exists v. simpl. auto.
Qed.

Lemma in_cancelled q us v :
  In v (filter nonempty_user (map (drop_query q) us)) ->
  u_qs v <> [] /\ exists u, In u us /\ u_tok v = u_tok u /\ u_ord v = u_ord u /\ ~ In q (u_qs v).
Proof.
  intros H. apply filter_In in H. destruct H as [H N]. split.
  - unfold nonempty_user in N. destruct (u_qs v); congruence.
  - apply in_map_iff in H. destruct H as (u & E & Hu). exists u. subst v; simpl. repeat split; auto.
    intros Hq. apply filter_In in Hq. destruct Hq as [_ Hq]. rewrite Z.eqb_refl in Hq. discriminate.
Qed.

Ltac slia := simpl in *; lia.

Lemma qstep_inv fx s op : qinv fx s -> qenabled s op -> qinv fx (fst (qstep fx s op)).
Proof.
  intros [A M OK W] En. destruct op as [tok|q| |n]; simpl in *.
  - destruct (find_user tok (q_users s)) as [u0|] eqn:F.
    + destruct (qnext fx _) as [s' e] eqn:N. simpl. eapply qnext_inv in N; eauto; simpl; auto.
      * intros v Hv. apply in_push_same in Hv. destruct Hv as (u & Hu & E1 & E2 & E3).
        destruct (OK _ Hu). split; auto. simpl in *. slia.
      * intros Hfx _. apply find_user_some in F. destruct F as [F _].
        assert (q_users s <> []) by (intro Z0; rewrite Z0 in F; destruct F). specialize (W Hfx H). slia.
    + destruct (q_active s <? q_max s) eqn:L; simpl.
      * apply Z.ltb_lt in L. constructor; simpl; auto; try slia.
        -- intros v Hv. destruct (OK _ Hv). split; auto. slia.
        -- intros Hfx Hne. specialize (W Hfx Hne). slia.
      * apply Z.ltb_ge in L. destruct (qnext fx _) as [s' e] eqn:N. simpl. eapply qnext_inv in N; eauto; simpl; auto.
        -- intros v Hv. apply in_app_or in Hv. destruct Hv as [Hv|[Hv|[]]].
           ++ destruct (OK _ Hv). split; auto. slia.
           ++ subst v; simpl. split; [congruence|slia].
        -- intros; slia.
  - destruct (is_waiting q (q_users s)); simpl; [|constructor; auto].
    constructor; simpl; auto.
    + intros v Hv. apply in_cancelled in Hv. destruct Hv as (NE & u & Hu & E1 & E2 & _).
      destruct (OK _ Hu). split; auto. slia.
    + intros Hfx Hne. apply W; auto. intro Z0. rewrite Z0 in Hne. simpl in Hne. congruence.
  - destruct (qnext fx _) as [s' e] eqn:N. simpl. eapply qnext_inv in N; eauto; simpl; auto; try slia.
    intros Hfx Hne. specialize (W Hfx Hne). slia.
  - destruct fx.
    + destruct (qdrain true _ _) as [s' e] eqn:D. simpl. eapply qdrain_inv in D; eauto.
    + simpl. constructor; simpl; auto. intros; discriminate.
Qed.

Lemma qreach_inv fx s : qreach fx s -> qinv fx s.
Proof.
  induction 1.
  - constructor; simpl; auto; try lia. intros u []. intros _ Hne; congruence.
  - apply qstep_inv; auto.
Qed.

Lemma qrun_fst_cons fx s op r : fst (qrun fx s (op :: r)) = fst (qrun fx (fst (qstep fx s op)) r).
Proof. simpl. destruct (qstep fx s op) as [s1 e]. simpl. destruct (qrun fx s1 r). reflexivity. Qed.

Lemma qrun_snd_cons fx s op r :
  snd (qrun fx s (op :: r)) = snd (qstep fx s op) :: snd (qrun fx (fst (qstep fx s op)) r).
Proof. simpl. destruct (qstep fx s op) as [s1 e]. simpl. destruct (qrun fx s1 r). reflexivity. Qed.

Lemma qreach_run fx : forall ops s, qreach fx s -> qvalid fx s ops -> qreach fx (fst (qrun fx s ops)).
Proof.
  induction ops as [|op r IH]; intros s R V; [simpl; auto|].
  rewrite qrun_fst_cons. destruct V as [V1 V2]. apply IH; auto. apply qreach_step; auto.
Qed.

(* ---- "never has more active queries than its capacity" ---- *)

Lemma qnext_le fx s s' e :
  qnext fx s = (s', e) ->
  q_max s' = q_max s /\ (q_active s <= q_max s -> q_active s' <= q_max s') /\
  (fx = true -> existsb is_grant e = true -> q_active s' <= q_max s').
Proof.
  unfold qnext. destruct (q_full fx s) eqn:F.
  - intros H; inversion H; subst. simpl. repeat split; auto. intros; discriminate.
  - assert (L : q_active s <= q_max s -> q_active s < q_max s).
    { unfold q_full in F. destruct fx; [apply Z.leb_gt in F|apply Z.eqb_neq in F]; lia. }
    destruct (min_user (q_users s)) as [u|].
    + destruct (u_qs u) as [|q rest]; intros H; inversion H; subst; simpl; repeat split; auto; try (intros; discriminate).
      * intros; lia.
      * intros Hfx _. subst fx. unfold q_full in F. apply Z.leb_gt in F. lia.
    + intros H; inversion H; subst. simpl. repeat split; auto. intros; discriminate.
Qed.

Lemma qnext_nil_same fx s s' : qnext fx s = (s', []) -> s' = s.
Proof.
  unfold qnext. destruct (q_full fx s); [congruence|]. destruct (min_user (q_users s)) as [u|]; [|congruence].
  destruct (u_qs u); congruence.
Qed.

Lemma existsb_app_grant e1 e2 : existsb is_grant (e1 ++ e2) = existsb is_grant e1 || existsb is_grant e2.
Proof. apply existsb_app. Qed.

Lemma qdrain_le : forall fuel s s' e,
  qdrain true fuel s = (s', e) ->
  q_max s' = q_max s /\ (q_active s <= q_max s \/ existsb is_grant e = true -> q_active s' <= q_max s').
Proof.
  induction fuel as [|f IH]; intros s s' e H; simpl in H.
  - inversion H; subst. split; auto. intros [L|L]; [auto|discriminate].
  - destruct (qnext true s) as [s1 e1] eqn:N. destruct (qnext_le _ _ _ _ N) as (M1 & P1 & P2).
    destruct e1 as [|x e1'].
    + inversion H; subst. apply qnext_nil_same in N. subst s'. split; auto. intros [L|L]; [auto|discriminate].
    + destruct (qdrain true f s1) as [s2 e2] eqn:D. inversion H; subst; clear H.
      destruct (IH _ _ _ D) as (M2 & Q). split; [congruence|].
      intros [L|L]; apply Q.
      * left; auto.
      * change (existsb is_grant ((x :: e1') ++ e2) = true) in L. rewrite existsb_app_grant in L. apply orb_true_iff in L. destruct L as [L|L]; [left; apply P2; auto|right; auto].
Qed.

(* any step of the repaired queue in which some Acquire call is granted ends within capacity *)
Lemma grants_within_capacity s op s' evs :
  qstep true s op = (s', evs) -> existsb is_grant evs = true -> q_active s' <= q_max s'.
Proof.
  intros H G. destruct op as [tok|q| |n]; simpl in H.
  - destruct (find_user tok (q_users s)).
    + destruct (qnext_le _ _ _ _ H) as (_ & _ & P). auto.
    + destruct (q_active s <? q_max s) eqn:L.
      * inversion H; subst; simpl. apply Z.ltb_lt in L. lia.
      * destruct (qnext_le _ _ _ _ H) as (_ & _ & P). auto.
  - destruct (is_waiting q (q_users s)); inversion H; subst; simpl in G; discriminate.
  - destruct (qnext_le _ _ _ _ H) as (_ & _ & P). auto.
  - destruct (qdrain_le _ _ _ _ H) as (_ & P). auto.
Qed.

(* a step that is not a capacity change keeps active <= max (the code as it is, and the repaired one) *)
Lemma active_le_max_step fx s op :
  is_adjust op = false -> q_active s <= q_max s ->
  q_active (fst (qstep fx s op)) <= q_max (fst (qstep fx s op)) /\ q_max (fst (qstep fx s op)) = q_max s.
Proof.
  intros NA L. destruct op as [tok|q| |n]; simpl in *; try discriminate.
  - destruct (find_user tok (q_users s)).
    + destruct (qnext fx _) as [s' e] eqn:N. destruct (qnext_le _ _ _ _ N) as (M & P & _). simpl in *. split; auto.
    + destruct (q_active s <? q_max s) eqn:E; simpl.
      * apply Z.ltb_lt in E. split; auto; lia.
      * destruct (qnext fx _) as [s' e] eqn:N. destruct (qnext_le _ _ _ _ N) as (M & P & _). simpl in *. split; auto.
  - destruct (is_waiting q (q_users s)); simpl; auto.
  - destruct (qnext fx _) as [s' e] eqn:N. destruct (qnext_le _ _ _ _ N) as (M & P & _). simpl in *. split; auto.
    apply P. lia.
Qed.

Definition no_adjust (ops : list qop) : bool := forallb (fun op => negb (is_adjust op)) ops.

Lemma active_le_max_run fx : forall ops s,
  no_adjust ops = true -> q_active s <= q_max s ->
  q_active (fst (qrun fx s ops)) <= q_max s /\ q_max (fst (qrun fx s ops)) = q_max s.
Proof.
  induction ops as [|op r IH]; intros s NA L; [simpl; auto|].
  rewrite qrun_fst_cons. unfold no_adjust in NA. simpl in NA. apply andb_prop in NA. destruct NA as [N1 N2].
  apply negb_true_iff in N1. destruct (active_le_max_step fx s op N1 L) as [P1 P2].
  destruct (IH (fst (qstep fx s op)) N2 P1) as [Q1 Q2]. rewrite P2 in *. auto.
Qed.

(* ---- with constant capacity the code as it is and the repaired variant are the same function ---- *)

Lemma qnext_false_true s : q_active s <= q_max s -> qnext false s = qnext true s.
Proof.
  intros L. unfold qnext, q_full.
  replace (q_active s =? q_max s) with (q_max s <=? q_active s); auto.
  destruct (q_max s <=? q_active s) eqn:E1; destruct (q_active s =? q_max s) eqn:E2; auto.
  - apply Z.leb_le in E1. apply Z.eqb_neq in E2. lia.
  - apply Z.leb_gt in E1. apply Z.eqb_eq in E2. lia.
Qed.

Lemma qstep_false_true s op :
  is_adjust op = false -> q_active s <= q_max s -> qstep false s op = qstep true s op.
Proof.
  intros NA L. destruct op as [tok|q| |n]; simpl in *; try discriminate; auto.
  - destruct (find_user tok (q_users s)).
    + apply qnext_false_true; simpl; auto.
    + destruct (q_active s <? q_max s); auto. apply qnext_false_true; simpl; auto.
  - apply qnext_false_true; simpl; lia.
Qed.

Lemma qrun_false_true : forall ops s,
  no_adjust ops = true -> q_active s <= q_max s ->
  qrun false s ops = qrun true s ops /\ (qvalid false s ops -> qvalid true s ops).
Proof.
  induction ops as [|op r IH]; intros s NA L; [simpl; auto|].
  unfold no_adjust in NA. simpl in NA. apply andb_prop in NA. destruct NA as [N1 N2].
  apply negb_true_iff in N1. simpl. rewrite (qstep_false_true s op N1 L).
  destruct (active_le_max_step true s op N1 L) as [P1 P2].
  destruct (qstep true s op) as [s1 e] eqn:E. simpl in *.
  assert (L1 : q_active s1 <= q_max s1) by lia.
  destruct (IH s1 N2 L1) as [Q1 Q2]. rewrite Q1. split; auto. intros [V1 V2]. split; auto.
Qed.

(* ---- "grants a waiting query whenever capacity frees" ---- *)

Lemma no_lost_wakeup s : qreach true s -> q_users s <> [] -> q_max s <= q_active s.
Proof. intros R. apply (qi_wake _ _ (qreach_inv _ _ R)). reflexivity. Qed.

Lemma no_lost_wakeup_const m ops :
  0 <= m -> no_adjust ops = true -> qvalid false (qinit m) ops ->
  let s := fst (qrun false (qinit m) ops) in
  q_users s <> [] -> q_max s <= q_active s.
Proof.
  intros Hm NA V. assert (L : q_active (qinit m) <= q_max (qinit m)) by (simpl; lia).
  destruct (qrun_false_true ops (qinit m) NA L) as [E VV]. rewrite E. simpl.
  apply no_lost_wakeup. apply qreach_run; auto. constructor; auto.
Qed.

(* ---- "never leaks capacity through cancellations" ---- *)

Lemma cancel_spec fx s q s' evs :
  qstep fx s (QCancel q) = (s', evs) ->
  q_active s' = q_active s /\ q_max s' = q_max s /\ is_waiting q (q_users s') = false /\
  (if is_waiting q (q_users s) then evs = [QCancelled q] else evs = [] /\ s' = s).
Proof.
  simpl. destruct (is_waiting q (q_users s)) eqn:W; intros H; inversion H; subst; simpl; repeat split; auto.
  apply not_true_iff_false. intro T. unfold is_waiting in T. apply existsb_exists in T.
  destruct T as (v & Hv & T). apply existsb_exists in T. destruct T as (x & Hx & T). apply Z.eqb_eq in T. subst x.
  apply in_cancelled in Hv. destruct Hv as (_ & u & _ & _ & _ & N). auto.
Qed.

Lemma grants_app e1 e2 : grants (e1 ++ e2) = grants e1 + grants e2.
Proof. unfold grants. rewrite filter_app, app_length. lia. Qed.

Lemma qnext_acct fx s s' e : qnext fx s = (s', e) -> q_active s' = q_active s + grants e.
Proof.
  unfold qnext. destruct (q_full fx s); [intros H; inversion H; subst; unfold grants; simpl; lia|].
  destruct (min_user (q_users s)) as [u|]; [|intros H; inversion H; subst; unfold grants; simpl; lia].
  destruct (u_qs u); intros H; inversion H; subst; unfold grants; simpl; lia.
Qed.

Lemma qdrain_acct fx : forall fuel s s' e, qdrain fx fuel s = (s', e) -> q_active s' = q_active s + grants e.
Proof.
  induction fuel as [|f IH]; intros s s' e H; simpl in H.
  - inversion H; subst. unfold grants; simpl; lia.
  - destruct (qnext fx s) as [s1 e1] eqn:N. pose proof (qnext_acct _ _ _ _ N) as A1.
    destruct e1 as [|x e1'].
    + inversion H; subst. auto.
    + destruct (qdrain fx f s1) as [s2 e2] eqn:D. inversion H; subst.
      change (x :: e1' ++ e2) with ((x :: e1') ++ e2). rewrite (IH _ _ _ D), A1, grants_app. lia.
Qed.

Definition release_cost (op : qop) : Z := match op with QRelease => 1 | _ => 0 end.

(* active moves only by the calls that were told "acquired" and by Release: a cancelled call (which
   returns an error) never holds a slot *)
Lemma step_accounting fx s op s' evs :
  qstep fx s op = (s', evs) -> q_active s' = q_active s + grants evs - release_cost op.
Proof.
  intros H. destruct op as [tok|q| |n]; simpl in *.
  - destruct (find_user tok (q_users s)).
    + apply qnext_acct in H. simpl in H. lia.
    + destruct (q_active s <? q_max s).
      * inversion H; subst; unfold grants; simpl; lia.
      * apply qnext_acct in H. simpl in H. lia.
  - destruct (is_waiting q (q_users s)); inversion H; subst; unfold grants; simpl; lia.
  - apply qnext_acct in H. simpl in H. lia.
  - destruct fx.
    + apply qdrain_acct in H. simpl in H. lia.
    + inversion H; subst; unfold grants; simpl; lia.
Qed.

Fixpoint releases (ops : list qop) : Z := match ops with [] => 0 | op :: r => release_cost op + releases r end.

Lemma run_accounting fx : forall ops s,
  q_active (fst (qrun fx s ops)) = q_active s + grants (concat (snd (qrun fx s ops))) - releases ops.
Proof.
  induction ops as [|op r IH]; intros s.
  - simpl. unfold grants; simpl; lia.
  - rewrite qrun_fst_cons, qrun_snd_cons. simpl concat. rewrite grants_app, IH.
    destruct (qstep fx s op) as [s1 e] eqn:E. simpl. pose proof (step_accounting _ _ _ _ _ E). lia.
Qed.

(* ---- round robin ---- *)

Definition bef (s : qstate) (B A : Z) : Prop :=
  forall ub ua, In ub (q_users s) -> In ua (q_users s) -> u_tok ub = B -> u_tok ua = A -> u_ord ub < u_ord ua.

Definition RR (A B : Z) (s : qstate) (e : list qev) (s' : qstate) : Prop :=
  (bef s B A -> bef s' B A /\ grants_to A e = 0%nat) /\
  (grants_to A e <= 1)%nat /\
  ((1 <= grants_to A e)%nat -> bef s' B A).

Lemma grants_to_app t e1 e2 : grants_to t (e1 ++ e2) = (grants_to t e1 + grants_to t e2)%nat.
Proof. unfold grants_to. rewrite filter_app, app_length. reflexivity. Qed.

Lemma RR_comp A B s e1 s1 e2 s2 : RR A B s e1 s1 -> RR A B s1 e2 s2 -> RR A B s (e1 ++ e2) s2.
Proof.
  intros (P1 & P2 & P3) (Q1 & Q2 & Q3). unfold RR. rewrite grants_to_app. split; [|split].
  - intros H. destruct (P1 H) as [B1 G1]. destruct (Q1 B1) as [B2 G2]. split; auto. lia.
  - destruct (Nat.eq_dec (grants_to A e1) 0) as [Z0|NZ].
    + lia.
    + assert (B1 : bef s1 B A) by (apply P3; lia). destruct (Q1 B1) as [_ G2]. lia.
  - intros G. destruct (Nat.eq_dec (grants_to A e1) 0) as [Z0|NZ].
    + apply Q3. lia.
    + assert (B1 : bef s1 B A) by (apply P3; lia). apply Q1; auto.
Qed.

Lemma RR_pres A B s e s' : (bef s B A -> bef s' B A) -> grants_to A e = 0%nat -> RR A B s e s'.
Proof. intros P G. unfold RR. rewrite G. split; [|split]; auto; lia. Qed.

Lemma qnext_rr fx A B s s' e :
  A <> B -> users_ok s -> user_waiting B s -> qnext fx s = (s', e) -> grants_to B e = 0%nat ->
  RR A B s e s' /\ user_waiting B s'.
Proof.
  intros NE OK (ub0 & Hub0 & Tub0) H GB.
  destruct (qnext_cases fx s OK) as [[E C]|(u & q & rest & F & Hu & Hmin & Hq & E)]; rewrite E in H; inversion H; subst s' e; clear H.
  - split; [apply RR_pres; auto|exists ub0; auto].
  - unfold grants_to in GB. simpl in GB. destruct (u_tok u =? B) eqn:TB; [simpl in GB; lia|]. apply Z.eqb_neq in TB.
    split; [|exists ub0; split; auto; apply in_granted_old; auto; congruence].
    unfold RR, grants_to. simpl. repeat split.
    + intros ub ua Hub Hua Tb Ta. apply in_granted in Hub. apply in_granted in Hua.
      destruct Hub as [[Hub _]|[_ Hub]]; [|subst ub; simpl in Tb; congruence].
      destruct Hua as [[Hua _]|[_ Hua]]; [apply H; auto|]. subst ua; simpl. apply OK; auto.
    + destruct (u_tok u =? A) eqn:TA; auto. apply Z.eqb_eq in TA.
      specialize (H ub0 u Hub0 Hu Tub0 TA). specialize (Hmin _ Hub0). lia.
    + destruct (u_tok u =? A); simpl; lia.
    + destruct (u_tok u =? A) eqn:TA; [|simpl; lia]. apply Z.eqb_eq in TA. intros _.
      intros ub ua Hub Hua Tb Ta. apply in_granted in Hub. apply in_granted in Hua.
      destruct Hub as [[Hub _]|[_ Hub]]; [|subst ub; simpl in Tb; congruence].
      destruct Hua as [[_ Hua]|[_ Hua]]; [congruence|]. subst ua; simpl. apply OK; auto.
Qed.

Lemma qdrain_rr A B : forall fuel s s' e,
  A <> B -> 0 <= q_active s -> users_ok s -> user_waiting B s ->
  qdrain true fuel s = (s', e) -> grants_to B e = 0%nat ->
  RR A B s e s'.
Proof.
  induction fuel as [|f IH]; intros s s' e NE Ha OK WB H GB; simpl in H.
  - inversion H; subst. apply RR_pres; auto.
  - destruct (qnext true s) as [s1 e1] eqn:N. destruct e1 as [|x e1'].
    + inversion H; subst. apply qnext_nil_same in N. subst s'. apply RR_pres; auto.
    + destruct (qdrain true f s1) as [s2 e2] eqn:D. inversion H; subst; clear H.
      change (grants_to B ((x :: e1') ++ e2) = 0%nat) in GB. rewrite grants_to_app in GB.
      destruct (qnext_rr true A B s s1 (x :: e1') NE OK WB N) as [R1 W1]; [lia|].
      change (x :: e1' ++ e2) with ((x :: e1') ++ e2).
      destruct (qnext_ok _ _ _ _ N Ha OK) as (I1 & I2 & I3).
      eapply RR_comp; eauto. eapply IH; eauto; lia.
Qed.

Lemma bef_same_users A B s s1 :
  (forall v, In v (q_users s1) -> exists u, In u (q_users s) /\ u_tok v = u_tok u /\ u_ord v = u_ord u) ->
  bef s B A -> bef s1 B A.
Proof.
  intros P H ub ua Hub Hua Tb Ta.
  destruct (P _ Hub) as (u1 & H1 & E1 & E2). destruct (P _ Hua) as (u2 & H2 & E3 & E4).
  rewrite E2, E4. apply H; auto; congruence.
Qed.

Lemma qstep_rr A B s op s' e :
  A <> B -> qinv true s -> qstep true s op = (s', e) ->
  user_waiting B s -> user_waiting B s' -> grants_to B e = 0%nat ->
  RR A B s e s'.
Proof.
  intros NE [Ha Hm OK W] H WB WB' GB. specialize (W eq_refl).
  assert (NEu : q_users s <> []) by (destruct WB as (u & Hu & _); intro Z0; rewrite Z0 in Hu; destruct Hu).
  specialize (W NEu).
  destruct op as [tok|q| |n]; simpl in H.
  - destruct (find_user tok (q_users s)) as [u0|] eqn:F.
    + match type of H with qnext _ ?x = _ => set (s1 := x) in * end.
      assert (OK1 : users_ok s1).
      { intros v Hv. simpl in Hv. apply in_push_same in Hv. destruct Hv as (u & Hu & E1 & E2 & E3).
        destruct (OK _ Hu). split; auto. simpl. lia. }
      assert (WB1 : user_waiting B s1).
      { destruct WB as (u & Hu & Tu). destruct (push_keeps tok (q_next s) _ _ Hu) as (v & Hv & E1 & E2).
        exists v. split; [exact Hv|congruence]. }
      destruct (qnext_rr true A B s1 s' e NE OK1 WB1 H GB) as [R1 _].
      change e with ([] ++ e). eapply RR_comp; eauto. apply RR_pres; auto.
      apply bef_same_users. intros v Hv. simpl in Hv. apply in_push_same in Hv.
      destruct Hv as (u & Hu & E1 & E2 & _). exists u; auto.
    + destruct (q_active s <? q_max s) eqn:L; [apply Z.ltb_lt in L; lia|].
      match type of H with qnext _ ?x = _ => set (s1 := x) in * end.
      pose proof (find_user_none _ _ F) as FN.
      assert (OK1 : users_ok s1).
      { intros v Hv. simpl in Hv. apply in_app_or in Hv. destruct Hv as [Hv|[Hv|[]]].
        - destruct (OK _ Hv). split; auto. simpl; lia.
        - subst v; simpl. split; [congruence|lia]. }
      assert (WB1 : user_waiting B s1).
      { destruct WB as (u & Hu & Tu). exists u. split; auto. simpl. apply in_or_app; auto. }
      destruct (qnext_rr true A B s1 s' e NE OK1 WB1 H GB) as [R1 _].
      change e with ([] ++ e). eapply RR_comp; eauto. apply RR_pres; auto.
      intros Hb ub ua Hub Hua Tb Ta. simpl in Hub, Hua.
      apply in_app_or in Hub. apply in_app_or in Hua.
      destruct Hub as [Hub|[Hub|[]]].
      * destruct Hua as [Hua|[Hua|[]]]; [apply Hb; auto|]. subst ua; simpl. apply OK; auto.
      * subst ub. simpl in Tb. destruct WB as (u & Hu & Tu). exfalso. apply (FN _ Hu). congruence.
  - destruct (is_waiting q (q_users s)); inversion H; subst; clear H; [|apply RR_pres; auto].
    apply RR_pres; auto. apply bef_same_users. intros v Hv. simpl in Hv. apply in_cancelled in Hv.
    destruct Hv as (_ & u & Hu & E1 & E2 & _). exists u; auto.
  - match type of H with qnext _ ?x = _ => set (s1 := x) in * end.
    assert (OK1 : users_ok s1) by (intros v Hv; apply (OK v Hv)).
    assert (WB1 : user_waiting B s1) by exact WB.
    destruct (qnext_rr true A B s1 s' e NE OK1 WB1 H GB) as [R1 _].
    change e with ([] ++ e). eapply RR_comp; eauto. apply RR_pres; auto.
  - match type of H with qdrain _ _ ?x = _ => set (s1 := x) in * end.
    change e with ([] ++ e). eapply RR_comp; [apply RR_pres with (s' := s1); auto|].
    eapply qdrain_rr; eauto.
Qed.

Fixpoint waits_through (fx : bool) (B : Z) (s : qstate) (ops : list qop) : Prop :=
  user_waiting B s /\
  match ops with
  | [] => True
  | op :: r => grants_to B (snd (qstep fx s op)) = 0%nat /\ waits_through fx B (fst (qstep fx s op)) r
  end.

Lemma rr_run A B : forall ops s,
  A <> B -> qinv true s -> qvalid true s ops -> waits_through true B s ops ->
  RR A B s (concat (snd (qrun true s ops))) (fst (qrun true s ops)).
Proof.
  induction ops as [|op r IH]; intros s NE I V WT.
  - simpl. apply RR_pres; auto.
  - rewrite qrun_fst_cons, qrun_snd_cons. simpl concat. destruct V as [V1 V2]. destruct WT as (W0 & G & WT).
    pose proof (qstep_inv true s op I V1) as I1.
    destruct (qstep true s op) as [s1 e] eqn:E. simpl in *.
    eapply RR_comp; [|apply IH; eauto].
    eapply qstep_rr; eauto. destruct r; simpl in WT; tauto.
Qed.

(* while user B keeps waiting without being served, any other user is served at most once *)
Lemma round_robin_no_double_grant s ops A B :
  qreach true s -> qvalid true s ops -> A <> B -> waits_through true B s ops ->
  (grants_to A (concat (snd (qrun true s ops))) <= 1)%nat.
Proof.
  intros R V NE WT. destruct (rr_run A B ops s NE (qreach_inv _ _ R) V WT) as (_ & P & _). exact P.
Qed.

Lemma waits_through_false_true B : forall ops s,
  no_adjust ops = true -> q_active s <= q_max s -> waits_through false B s ops -> waits_through true B s ops.
Proof.
  induction ops as [|op r IH]; intros s NA L WT; [exact WT|].
  unfold no_adjust in NA. simpl in NA. apply andb_prop in NA. destruct NA as [N1 N2]. apply negb_true_iff in N1.
  simpl in *. rewrite <- (qstep_false_true s op N1 L).
  destruct WT as (W0 & G & WT). repeat split; auto. apply IH; auto.
  destruct (active_le_max_step false s op N1 L). lia.
Qed.

Lemma round_robin_const m ops ops2 A B :
  0 <= m -> no_adjust (ops ++ ops2) = true -> qvalid false (qinit m) (ops ++ ops2) -> A <> B ->
  let s := fst (qrun false (qinit m) ops) in
  waits_through false B s ops2 ->
  (grants_to A (concat (snd (qrun false s ops2))) <= 1)%nat.
Proof.
  intros Hm NA V NE s WT.
  unfold no_adjust in NA. rewrite forallb_app in NA. apply andb_prop in NA. destruct NA as [NA1 NA2].
  assert (L0 : q_active (qinit m) <= q_max (qinit m)) by (simpl; lia).
  destruct (active_le_max_run false ops (qinit m) NA1 L0) as [L1 M1]. fold s in L1, M1.
  assert (L : q_active s <= q_max s) by lia.
  assert (V2 : qvalid false (qinit m) ops /\ qvalid false s ops2).
  { clear -V. subst s. revert V. generalize (qinit m). induction ops as [|op r IH]; intros s0 V; simpl in *.
    - auto.
    - destruct V as [V1 V2]. destruct (IH _ V2) as [P1 P2]. split; [split; auto|].
      destruct (qstep false s0 op) as [s1 e]. simpl in *. destruct (qrun false s1 r). simpl in *. auto. }
  destruct V2 as [Va Vb].
  destruct (qrun_false_true ops (qinit m) NA1 L0) as [E1 VV1].
  destruct (qrun_false_true ops2 s NA2 L) as [E2 VV2]. rewrite E2.
  apply round_robin_no_double_grant with (B := B); auto.
  - unfold s. rewrite E1. apply qreach_run; auto. constructor; auto.
  - apply waits_through_false_true; auto.
Qed.

(* ---- the variant before the fixes (fx = false) with capacity changes: witnesses of finding F-C29 ---- *)

Lemma qreach_of_run fx m ops : 0 <= m -> qvalid fx (qinit m) ops -> qreach fx (fst (qrun fx (qinit m) ops)).
Proof. intros. apply qreach_run; auto. constructor; auto. Qed.

(* (a) 3 active, capacity lowered to 1, user 4 arrives: granted, 4 active with capacity 1 *)
Lemma grants_exceed_capacity_refuted :
  exists s op, qreach false s /\ qenabled s op /\
    existsb is_grant (snd (qstep false s op)) = true /\
    q_max (fst (qstep false s op)) < q_active (fst (qstep false s op)).
Proof.
  exists (fst (qrun false (qinit 3) [QAcquire 1; QAcquire 2; QAcquire 3; QAdjust 1])), (QAcquire 4).
  split; [apply qreach_of_run; [lia|cbv; intuition congruence]|].
  split; [exact I|]. vm_compute. split; reflexivity.
Qed.

(* (b) capacity 1 taken, user 2 waits, capacity raised to 2: user 2 still waits next to a free slot *)
Lemma lost_wakeup_refuted :
  exists s, qreach false s /\ q_users s <> [] /\ q_active s < q_max s.
Proof.
  exists (fst (qrun false (qinit 1) [QAcquire 1; QAcquire 2; QAdjust 2])).
  split; [apply qreach_of_run; [lia|cbv; intuition congruence]|].
  vm_compute. split; [congruence|reflexivity].
Qed.

(* (b') ... and user 3, arriving afterwards, is let in twice while user 2 keeps waiting *)
Lemma round_robin_refuted :
  exists s ops A B, qreach false s /\ qvalid false s ops /\ A <> B /\ waits_through false B s ops /\
    grants_to A (concat (snd (qrun false s ops))) = 2%nat.
Proof.
  exists (fst (qrun false (qinit 1) [QAcquire 1; QAcquire 2; QAdjust 3])), [QAcquire 3; QAcquire 3], 3, 2.
  split; [apply qreach_of_run; [lia|cbv; intuition congruence]|].
  split; [cbv; intuition congruence|]. split; [lia|]. split.
  - vm_compute. repeat split; eexists; (split; [left; reflexivity|reflexivity]).
  - vm_compute. reflexivity.
Qed.
