(* C15: the property clauses as lemmas over the model. *)
From Coq Require Import ZArith List Bool Lia Sorting.Sorted Sorting.Permutation.
From SH Require Import Common.Wrap Metadata.Model Metadata.Proofs.
Import ListNotations.
Open Scope Z_scope.

Definition ok_save v s nm id oldv data create del typ meta now r s' evs :=
  save v s nm id oldv data create del typ meta now = (EOk, r, s', evs).

(* a successful save whose resulting id already existed named that entity's current version *)
Lemma edit_requires_current_version v s nm id oldv data create del typ meta now r s' evs :
  wf s -> ok_save v s nm id oldv data create del typ meta now r s' evs ->
  forall r0, In r0 (ents s) -> r_id r0 = r_id r -> r_ver r0 = oldv /\ id = r_id r.
Proof.
  intros W H r0 Hin E. apply save_ok_inv in H. cbv zeta in H.
  destruct H as [nsid [_ [_ [_ [_ [_ [[x [_ [Hf [_ [_ [Er _]]]]]]|[newid [_ [Hid [_ [Er _]]]]]]]]]]]].
  - apply find_id_ver_some in Hf. destruct Hf as [Hx [Ex Ev]]. subst r. simpl in *.
    assert (r0 = x) by (apply (wf_row_unique s r0 x W Hin Hx); congruence). subst. auto.
  - exfalso. subst r. simpl in E. destruct Hid as [[Hpos ->]|[Hneg [-> Hnone]]].
    + apply (wf_seq s W) in Hin. lia.
    + eapply find_id_none; eauto.
Qed.

Lemma version_strictly_increases v s nm id oldv data create del typ meta now r s' evs :
  wf s -> ok_save v s nm id oldv data create del typ meta now r s' evs ->
  r_ver r = max_ver (ents s) + 1 /\
  (forall x, In x (ents s) -> r_ver x < r_ver r) /\
  (forall h, In h (hist s) -> h_ver h < r_ver r) /\
  max_ver (ents s') = r_ver r /\ In r (map h_row (hist s')).
Proof.
  intros W H. pose proof (wf_save _ _ _ _ _ _ _ _ _ _ _ _ _ _ W H) as W'.
  apply save_ok_inv in H. cbv zeta in H.
  destruct H as [nsid [_ [_ [_ [_ [_ [[x [_ [Hf [_ [_ [Er [Es _]]]]]]]|[newid [_ [Hid [_ [Er [Es _]]]]]]]]]]]]].
  - assert (Ev : r_ver r = max_ver (ents s) + 1) by (subst r; reflexivity).
    split; auto. split. { intros y Hy. apply max_ver_ge in Hy. lia. }
    split. { intros h Hh. apply (wf_hist s W) in Hh. lia. }
    apply find_id_ver_some in Hf. destruct Hf as [Hx [Ex _]].
    split.
    + subst s'. simpl. apply max_ver_is.
      * pose proof (max_ver_nonneg (ents s)). lia.
      * intros y Hy. apply in_upd_row in Hy. destruct Hy as [->|[Hy _]]; [subst r; simpl; lia|]. apply max_ver_ge in Hy. lia.
      * eexists. split; [eapply upd_row_has; eauto|]. subst r. reflexivity.
    + subst s'. simpl. rewrite map_app. apply in_or_app. right. simpl. auto.
  - assert (Ev : r_ver r = max_ver (ents s) + 1) by (subst r; reflexivity).
    split; auto. split. { intros y Hy. apply max_ver_ge in Hy. lia. }
    split. { intros h Hh. apply (wf_hist s W) in Hh. lia. }
    split.
    + subst s'. simpl. rewrite max_ver_app. pose proof (max_ver_nonneg (ents s)). lia.
    + subst s'. simpl. rewrite map_app. apply in_or_app. right. simpl. auto.
Qed.

(* the highest version never decreases, so "greater than all previous ones" holds along whole histories *)
Lemma max_ver_monotone v c s o : wf s -> max_ver (ents s) <= max_ver (ents (step_st v c s o)).
Proof.
  intros W. unfold step_st. destruct o; simpl; try lia.
  - destruct (save v s (p, l) id oldv data create del typ meta now) as [[[e r] s'] evs] eqn:Hs. simpl.
    destruct e; try (apply save_fail in Hs; [destruct Hs as [-> _]; lia|congruence]).
    pose proof (version_strictly_increases _ _ _ _ _ _ _ _ _ _ _ _ _ _ W Hs) as [E [_ [_ [M _]]]]. lia.
  - unfold goc. destruct (map_by_key (maps s) key); simpl; try lia.
    destruct (fl_get (flood s) metric) as [[t cnt]|];
    repeat match goal with |- context [if ?x then _ else _] => destruct x end; simpl; lia.
  - unfold del. destruct (filter _ (maps s)); simpl; lia.
  - unfold reset. destruct (limit <=? 0); simpl; lia.
  - destruct f; simpl; try lia. destruct (fst (fst (goc c s metric key now))); simpl; lia.
Qed.

Lemma versions_unique v c ops :
  NoDup (map r_ver (ents (run v c empty ops))) /\ NoDup (map r_id (ents (run v c empty ops))).
Proof. pose proof (wf_run v c ops empty wf_empty) as W. split; apply W. Qed.

(* after a successful edit of (id, oldv), no request naming the same (id, oldv) can touch that entity again *)
Lemma racing_second_loses v s nm id oldv data create del typ meta now r s' evs :
  wf s -> ok_save v s nm id oldv data create del typ meta now r s' evs -> r_id r = id ->
  (exists r0, In r0 (ents s) /\ r_id r0 = id) ->
  forall v2 nm2 data2 create2 del2 typ2 meta2 now2 r2 s2 evs2,
  ok_save v2 s' nm2 id oldv data2 create2 del2 typ2 meta2 now2 r2 s2 evs2 -> r_id r2 <> id.
Proof.
  intros W H Eid [r0 [Hin0 E0]] v2 nm2 data2 create2 del2 typ2 meta2 now2 r2 s2 evs2 H2 E2.
  pose proof (wf_save _ _ _ _ _ _ _ _ _ _ _ _ _ _ W H) as W'.
  pose proof (edit_requires_current_version _ _ _ _ _ _ _ _ _ _ _ _ _ _ W H r0 Hin0 (eq_trans E0 (eq_sym Eid))) as [Ev0 _].
  pose proof (version_strictly_increases _ _ _ _ _ _ _ _ _ _ _ _ _ _ W H) as [Ev [Hlt _]].
  (* the row of id in s' is r-like with version max+1 <> oldv *)
  assert (Hrow : forall x, In x (ents s') -> r_id x = id -> r_ver x = r_ver r).
  { apply save_ok_inv in H. cbv zeta in H.
    destruct H as [nsid [_ [_ [_ [_ [_ [[x0 [_ [Hf [_ [_ [Er [Es _]]]]]]]|[newid [_ [Hid [_ [Er [Es _]]]]]]]]]]]]].
    - intros x Hx Ex. subst s'. simpl in Hx. apply in_upd_row in Hx. destruct Hx as [->|[_ Hne]]; [subst r; reflexivity|congruence].
    - exfalso. subst r. simpl in Eid. destruct Hid as [[Hpos ->]|[Hneg [-> Hnone]]].
      + apply (wf_seq s W) in Hin0. lia.
      + eapply find_id_none; eauto. }
  assert (Hex : exists x, In x (ents s') /\ r_id x = id).
  { apply save_ok_inv in H. cbv zeta in H.
    destruct H as [nsid [_ [_ [_ [_ [_ [[x0 [_ [Hf [_ [_ [Er [Es _]]]]]]]|[newid [_ [Hid [_ [Er [Es _]]]]]]]]]]]]].
    - apply find_id_ver_some in Hf. destruct Hf as [Hx0 [Ex0 _]]. eexists. split; [subst s'; simpl; eapply upd_row_has; eauto|reflexivity].
    - exists r. split; auto. subst s'. simpl. apply in_or_app. right. simpl. auto. }
  destruct Hex as [x [Hx Ex]].
  pose proof (edit_requires_current_version _ _ _ _ _ _ _ _ _ _ _ _ _ _ W' H2 x Hx (eq_trans Ex (eq_sym E2))) as [Evx _].
  rewrite (Hrow x Hx Ex) in Evx. specialize (Hlt r0 Hin0). lia.
Qed.

Lemma names_unique_per_type_ns v c ops r1 r2 :
  let s := run v c empty ops in
  In r1 (ents s) -> In r2 (ents s) -> r_ns r1 = r_ns r2 -> r_typ r1 = r_typ r2 -> r_name r1 = r_name r2 -> r1 = r2.
Proof.
  intros s H1 H2 E1 E2 E3. pose proof (wf_run v c ops empty wf_empty) as W. fold s in W.
  eapply wf_row_unique; eauto. eapply (wf_names s W); eauto.
Qed.

(* entities in a namespace reference an existing namespace *)
Lemma namespaced_entity_needs_namespace v s nm id oldv data create del typ meta now r s' evs :
  ok_save v s nm id oldv data create del typ meta now r s' evs ->
  (typ = T_METRIC \/ typ = T_GROUP) -> fst nm <> 0 ->
  exists n, In n (ents s) /\ r_typ n = T_NS /\ r_name n = (0, fst nm) /\ r_ns r = r_id n.
Proof.
  intros H Ht Hp. apply save_ok_inv in H. cbv zeta in H.
  destruct H as [nsid [Hres [_ [_ [_ [_ Hshape]]]]]].
  assert (Ens : r_ns r = nsid).
  { destruct Hshape as [[x [_ [_ [_ [_ [Er _]]]]]]|[newid [_ [_ [_ [Er _]]]]]]; subst r; reflexivity. }
  unfold resolve_ns in Hres.
  assert (Hb : negb ((typ =? T_METRIC) || (typ =? T_GROUP)) = false).
  { destruct Ht as [->| ->]; reflexivity. }
  rewrite Hb in Hres. apply Z.eqb_neq in Hp. rewrite Hp in Hres.
  destruct (find _ (ents s)) as [n|] eqn:F; [|discriminate]. inversion Hres; subst nsid.
  apply find_some in F. destruct F as [Hin F]. apply andb_true_iff in F. destruct F as [F1 F2].
  apply Z.eqb_eq in F1. apply name_eqb_eq in F2. exists n. auto.
Qed.

(* the referenced namespace row is never removed: ids and types of rows are permanent *)
Lemma rows_are_permanent v c s o x : wf s -> In x (ents s) ->
  exists y, In y (ents (step_st v c s o)) /\ r_id y = r_id x /\ r_typ y = r_typ x.
Proof.
  intros W Hin. unfold step_st. destruct o; simpl; try (exists x; auto; fail).
  - destruct (save v s (p, l) id oldv data create del typ meta now) as [[[e r] s'] evs] eqn:Hs. simpl.
    destruct e; try (apply save_fail in Hs; [destruct Hs as [-> _]; exists x; auto|congruence]).
    apply save_ok_inv in Hs. cbv zeta in Hs.
    destruct Hs as [nsid [_ [_ [_ [_ [_ [[x0 [_ [Hf [_ [_ [Er [Es _]]]]]]]|[newid [_ [Hid [_ [Er [Es _]]]]]]]]]]]]]; subst s'; simpl.
    + apply find_id_ver_some in Hf. destruct Hf as [Hx0 [Ex0 _]].
      destruct (Z.eq_dec (r_id x) id) as [E|N].
      * assert (x = x0) by (apply (wf_row_unique s x x0 W Hin Hx0); congruence). subst x0.
        eexists. split; [eapply upd_row_has; eauto|]. simpl. auto.
      * exists x. split; auto. unfold upd_row. apply in_map_iff. exists x. apply Z.eqb_neq in N. rewrite N. auto.
    + exists x. split; auto. apply in_or_app. auto.
  - unfold goc. destruct (map_by_key (maps s) key); simpl; try (exists x; auto; fail).
    destruct (fl_get (flood s) metric) as [[t cnt]|];
    repeat match goal with |- context [if ?x then _ else _] => destruct x end; simpl; exists x; auto.
  - unfold del. destruct (filter _ (maps s)); simpl; exists x; auto.
  - unfold reset. destruct (limit <=? 0); simpl; exists x; auto.
  - destruct f; simpl; try (exists x; auto; fail). destruct (fst (fst (goc c s metric key now))); simpl; exists x; auto.
Qed.

(* ---- namespaces cannot be renamed ---- *)
(* the code as it is: an edit that names another entity type skips checkNamespace *)
Definition ns_rename_witness : list op :=
  [OSave 0 1 0 0 0 true 0 T_NS 0 10; OSave 0 2 1 1 0 false 0 T_METRIC 0 11].
Lemma namespace_rename_refuted :
  exists c ops r r', In r (ents (run faithful c empty (firstn 1 ops))) /\ r_typ r = T_NS /\
    In r' (ents (run faithful c empty ops)) /\ r_id r' = r_id r /\ r_name r' <> r_name r.
Proof.
  exists (Cfg 1 1 0 0), ns_rename_witness, (R 1 (0, 1) 0 1 10 0 0 4), (R 1 (0, 2) 0 2 11 0 0 4).
  vm_compute. repeat split; auto; discriminate.
Qed.

(* the repaired variant (edits are confined to rows of the requested type, the namespace check uses the
   effective create flag): no step changes the name of a namespace row *)
Lemma namespace_not_renamable v c s o x :
  fx_ns_type v = true -> wf s -> In x (ents s) -> r_typ x = T_NS ->
  forall y, In y (ents (step_st v c s o)) -> r_id y = r_id x -> r_name y = r_name x.
Proof.
  intros Hv W Hin Ht y. unfold step_st. destruct o; simpl;
  try (intros Hy E; assert (y = x) by (apply (wf_row_unique s y x W); auto); subst; reflexivity).
  - destruct (save v s (p, l) id oldv data create del typ meta now) as [[[e r] s'] evs] eqn:Hs. simpl.
    destruct e; try (apply save_fail in Hs; [destruct Hs as [-> _]; intros Hy E; assert (y = x) by (apply (wf_row_unique s y x W); auto); subst; reflexivity|congruence]).
    pose proof (wf_save _ _ _ _ _ _ _ _ _ _ _ _ _ _ W Hs) as W'.
    apply save_ok_inv in Hs. cbv zeta in Hs.
    destruct Hs as [nsid [_ [_ [_ [Hns [_ [[x0 [Hce [Hf [_ [Hty [Er [Es _]]]]]]]|[newid [_ [Hid [_ [Er [Es _]]]]]]]]]]]]]; subst s'; simpl.
    + intros Hy E. apply in_upd_row in Hy. destruct Hy as [->|[Hy Hne]].
      * simpl in E. simpl. apply find_id_ver_some in Hf. destruct Hf as [Hx0 [Ex0 Ev0]].
        assert (x0 = x) by (apply (wf_row_unique s x0 x W Hx0 Hin); congruence). subst x0.
        specialize (Hty Hv). assert (Etyp : typ = T_NS) by congruence.
        specialize (Hns Etyp). unfold create_chk in Hns. rewrite Hv, Hce in Hns.
        unfold check_namespace in Hns.
        destruct (find _ (ents s)) as [n|] eqn:F; [|discriminate].
        apply find_some in F. destruct F as [Hn F]. apply andb_true_iff in F. destruct F as [F F3].
        apply andb_true_iff in F. destruct F as [F1 F2]. apply Z.eqb_eq in F2.
        assert (n = x) by (apply (wf_row_unique s n x W Hn Hin); congruence). subst n.
        destruct (name_eqb (r_name x) (p, l)) eqn:Hn'; [|discriminate]. apply name_eqb_eq in Hn'. auto.
      * assert (y = x) by (apply (wf_row_unique s y x W); auto). subst; reflexivity.
    + intros Hy E. apply in_app_or in Hy. destruct Hy as [Hy|[<-|[]]].
      * assert (y = x) by (apply (wf_row_unique s y x W); auto). subst; reflexivity.
      * exfalso. subst r. simpl in E. destruct Hid as [[Hpos ->]|[Hneg [-> Hnone]]].
        -- apply (wf_seq s W) in Hin. lia.
        -- eapply find_id_none; eauto.
  - unfold goc. destruct (map_by_key (maps s) key); simpl;
    [intros Hy E; assert (y = x) by (apply (wf_row_unique s y x W); auto); subst; reflexivity|].
    destruct (fl_get (flood s) metric) as [[t cnt]|];
    repeat match goal with |- context [if ?x then _ else _] => destruct x end; simpl;
    intros Hy E; assert (y = x) by (apply (wf_row_unique s y x W); auto); subst; reflexivity.
  - unfold del. destruct (filter _ (maps s)); simpl;
    intros Hy E; assert (y = x) by (apply (wf_row_unique s y x W); auto); subst; reflexivity.
  - unfold reset. destruct (limit <=? 0); simpl;
    intros Hy E; assert (y = x) by (apply (wf_row_unique s y x W); auto); subst; reflexivity.
  - destruct f; simpl; try (intros Hy E; assert (y = x) by (apply (wf_row_unique s y x W); auto); subst; reflexivity).
    destruct (fst (fst (goc c s metric key now))); simpl;
    intros Hy E; assert (y = x) by (apply (wf_row_unique s y x W); auto); subst; reflexivity.
Qed.

(* ---- the journal ---- *)
Section Sorting.
  Context {A : Type} (key : A -> Z).
  Lemma insert_by_perm a l : Permutation (insert_by key a l) (a :: l).
  Proof.
    induction l as [|b t IH]; simpl; auto. destruct (key a <=? key b); auto.
    eapply perm_trans; [apply perm_skip; exact IH|apply perm_swap].
  Qed.
  Lemma sort_by_perm l : Permutation (sort_by key l) l.
  Proof. induction l; simpl; auto. eapply perm_trans; [apply insert_by_perm|auto]. Qed.
  Lemma insert_by_sorted a l :
    StronglySorted (fun x y => key x <= key y) l -> StronglySorted (fun x y => key x <= key y) (insert_by key a l).
  Proof.
    induction l as [|b t IH]; simpl; intros H; [repeat constructor|].
    inversion H; subst. destruct (key a <=? key b) eqn:E.
    - apply Z.leb_le in E. constructor; auto. constructor; auto.
      eapply Forall_impl; [|exact H3]. simpl. intros; lia.
    - apply Z.leb_gt in E. constructor; auto.
      eapply Permutation_Forall; [apply Permutation_sym, insert_by_perm|].
      constructor; auto. lia.
  Qed.
  Lemma sort_by_sorted l : StronglySorted (fun x y => key x <= key y) (sort_by key l).
  Proof. induction l; simpl; [constructor|apply insert_by_sorted; auto]. Qed.
  Lemma sorted_firstn R n (l : list A) : StronglySorted R l -> StronglySorted R (firstn n l).
  Proof.
    revert n. induction l as [|a t IH]; intros [|n] H; simpl; try constructor.
    - inversion H; auto.
    - inversion H; subst. clear - H3. revert n. induction t; intros [|n]; simpl; auto. inversion H3; subst. constructor; auto.
  Qed.
  Lemma sorted_strict l :
    StronglySorted (fun x y => key x <= key y) l -> NoDup (map key l) -> StronglySorted (fun x y => key x < key y) l.
  Proof.
    induction l as [|a t IH]; intros H N; [constructor|]. inversion H; subst. inversion N; subst.
    constructor; auto. apply Forall_forall. intros x Hx. rewrite Forall_forall in H3. specialize (H3 x Hx).
    assert (key x <> key a). { intros E. apply H4. rewrite <- E. apply in_map; auto. } lia.
  Qed.
End Sorting.

Lemma In_firstn_in {A} (n : nat) (l : list A) x : In x (firstn n l) -> In x l.
Proof. revert n. induction l; intros [|n]; simpl; try tauto. intros [->|H]; eauto. Qed.
Lemma nodup_map_firstn {A B} (g : A -> B) n l : NoDup (map g l) -> NoDup (map g (firstn n l)).
Proof.
  revert n. induction l as [|a t IH]; intros [|n] H; simpl; try constructor.
  - inversion H; subst. intros Hin. apply H2. apply in_map_iff in Hin. destruct Hin as [x [E Hx]]. rewrite <- E. apply in_map. apply (In_firstn_in n t x Hx).
  - inversion H; auto.
Qed.

Lemma journal_spec s since page :
  wf s ->
  let j := journal s since page in
  StronglySorted (fun a b => r_ver a < r_ver b) j /\
  NoDup (map r_id j) /\
  (forall x, In x j -> In x (ents s) /\ since < r_ver x) /\
  (forall x, (length (filter (fun r => r_ver r >? since) (ents s)) <= Z.to_nat (Z.max 1 (Z.min page metric_count_read_limit)))%nat ->
             In x (ents s) -> since < r_ver x -> In x j).
Proof.
  intros W j. unfold j, journal.
  set (f := filter (fun r => r_ver r >? since) (ents s)).
  set (k := Z.to_nat (Z.max 1 (Z.min page metric_count_read_limit))).
  assert (P : Permutation (sort_by r_ver f) f) by apply sort_by_perm.
  assert (Nf_id : NoDup (map r_id f)) by (apply nodup_map_filter; apply W).
  assert (Nf_v : NoDup (map r_ver f)) by (apply nodup_map_filter; apply W).
  split; [|split; [|split]].
  - apply sorted_strict.
    + apply sorted_firstn. apply sort_by_sorted.
    + apply nodup_map_firstn. eapply Permutation_NoDup; [apply Permutation_map, Permutation_sym, P|auto].
  - apply nodup_map_firstn. eapply Permutation_NoDup; [apply Permutation_map, Permutation_sym, P|auto].
  - intros x H. apply In_firstn_in in H. eapply Permutation_in in H; [|exact P]. apply filter_In in H. destruct H as [H1 H]. apply Z.gtb_lt in H. split; [auto|lia].
  - intros x Hlen Hin Hv. rewrite firstn_all2.
    + eapply Permutation_in; [apply Permutation_sym, P|]. apply filter_In. split; auto. apply Z.gtb_lt. lia.
    + rewrite (Permutation_length P). exact Hlen.
Qed.

(* a request during which the binlog refuses the append changes no table and logs nothing *)
Lemma failed_append_changes_nothing v c s f :
  tables (step_st v c s (OFailAppend f)) = tables s /\ step_evs v c s (OFailAppend f) = [].
Proof.
  unfold step_st, step_evs. destruct f; simpl; auto. destruct (fst (fst (goc c s metric key now))); auto.
Qed.
(* ... and it reports the failure exactly when the request would otherwise have been committed *)
Lemma failed_append_save_result v c s p l id oldv data create del typ meta now :
  step_res v c s (OFailAppend (FSave p l id oldv data create del typ meta now)) = RFail <->
  fst (fst (fst (save v s (p, l) id oldv data create del typ meta now))) = EOk.
Proof.
  unfold step_res. simpl. destruct (fst (fst (fst (save v s (p, l) id oldv data create del typ meta now)))); split; intros H; try discriminate; auto.
Qed.

(* (type, name) alone is NOT unique in the code as it is: an edit carrying another entity type resolves the namespace
   for that other type (0 for a dashboard) and stores it, so the row "n2:n4" leaves namespace n2 by id while keeping its
   name; the UNIQUE (namespace_id, type, name) key then admits a second metric "n2:n4" through the edit path (or through
   the first save of a predefined id with create=false), which checkCreateEntity never sees *)
Definition dup_name_witness : list op :=
  [OSave 0 2 0 0 0 true 0 T_NS 0 10; OSave 2 4 0 0 0 true 0 T_METRIC 0 11; OSave 2 4 2 2 0 false 0 T_DASH 0 12;
   OSave 0 9 0 0 0 true 0 T_METRIC 0 13; OSave 2 4 3 4 0 false 0 T_METRIC 0 14].
Lemma names_unique_per_type_refuted :
  exists c ops r1 r2, In r1 (ents (run faithful c empty ops)) /\ In r2 (ents (run faithful c empty ops)) /\
    r_typ r1 = r_typ r2 /\ r_name r1 = r_name r2 /\ r_id r1 <> r_id r2 /\ r_ns r1 <> r_ns r2.
Proof.
  exists (Cfg 1 1 0 0), dup_name_witness, (R 2 (2, 4) 0 3 12 0 0 0), (R 3 (2, 4) 1 5 14 0 0 0).
  vm_compute. repeat split; auto; discriminate.
Qed.
(* the variant that confines edits to rows of the requested type refuses the third request of the witness *)
Lemma names_unique_per_type_witness_repaired :
  map (fun r => match r with RSave e _ _ _ => e | _ => EOther end) (results (Var false false true false) (Cfg 1 1 0 0) empty dup_name_witness)
  = [EOk; EOk; EVersion; EOk; EVersion].   (* the fifth then names a version that was never assigned *)
Proof. vm_compute. reflexivity. Qed.
