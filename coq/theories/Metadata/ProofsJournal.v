(* C15, long-poll layer: every client's delivered stream is strictly ascending, above its starting point, and never
   beyond its cursor - for every interleaving of edits, polls and broadcasts. *)
From Coq Require Import ZArith List Bool Lia Sorting.Sorted.
From SH Require Import Common.Wrap Metadata.Model Metadata.Proofs Metadata.ProofsC15 Metadata.JournalModel.
Import ListNotations.
Open Scope Z_scope.

Definition vlt (a b : row) : Prop := r_ver a < r_ver b.

Definition cinv (c : client) : Prop :=
  StronglySorted Z.lt (cl_stream c) /\
  Forall (fun x => cl_start c < x /\ x <= cl_from c) (cl_stream c) /\
  cl_start c <= cl_from c.

Lemma sorted_app_lt l1 : forall l2, StronglySorted Z.lt l1 -> StronglySorted Z.lt l2 ->
  (forall x y, In x l1 -> In y l2 -> x < y) -> StronglySorted Z.lt (l1 ++ l2).
Proof.
  induction l1 as [|a t IH]; simpl; intros l2 H1 H2 H; auto. inversion H1; subst.
  constructor; [apply IH; auto|]. apply Forall_app. split; auto. apply Forall_forall. intros y Hy. apply H; auto.
Qed.
Lemma sorted_map_ver evs : StronglySorted vlt evs -> StronglySorted Z.lt (map r_ver evs).
Proof.
  induction 1; simpl; constructor; auto. apply Forall_forall. intros y Hy. apply in_map_iff in Hy. destruct Hy as [e [<- He]].
  rewrite Forall_forall in H0. apply H0; auto.
Qed.

Lemma last_ver_in evs : forall d, evs <> [] -> exists e, In e evs /\ last_ver evs d = r_ver e.
Proof.
  induction evs as [|e t IH]; intros d H; [congruence|]. unfold last_ver. simpl. fold (last_ver t (r_ver e)).
  destruct t as [|e' t']; [exists e; simpl; auto|]. destruct (IH (r_ver e) ltac:(discriminate)) as [x [Hx Ex]]. exists x. split; [right; auto|auto].
Qed.
Lemma last_ver_ge evs : forall d, StronglySorted vlt evs -> forall e, In e evs -> r_ver e <= last_ver evs d.
Proof.
  induction evs as [|a t IH]; intros d H e He; [destruct He|]. inversion H; subst.
  unfold last_ver. simpl. fold (last_ver t (r_ver a)).
  destruct He as [->|He]; [|apply IH; auto].
  destruct t as [|b t']; [simpl; lia|]. destruct (last_ver_in (b :: t') (r_ver e) ltac:(discriminate)) as [x [Hx ->]].
  rewrite Forall_forall in H3. specialize (H3 x Hx). unfold vlt in H3. lia.
Qed.

Lemma trim_spec from evs : StronglySorted vlt evs ->
  StronglySorted vlt (trim from evs) /\ forall x, In x (trim from evs) -> In x evs /\ from < r_ver x.
Proof.
  induction 1 as [|e t Hs IH Hf]; simpl; [split; [constructor|tauto]|].
  destruct (r_ver e <=? from) eqn:E.
  - destruct IH as [I1 I2]. split; auto. intros x Hx. destruct (I2 x Hx). auto.
  - apply Z.leb_gt in E. split; [constructor; auto|]. intros x [->|Hx]; [split; [left; auto|auto]|].
    split; [right; auto|]. rewrite Forall_forall in Hf. specialize (Hf x Hx). unfold vlt in Hf. lia.
Qed.

Lemma deliver_inv c evs cur : cinv c -> StronglySorted vlt evs ->
  (forall e, In e evs -> cl_from c < r_ver e /\ r_ver e <= cur) -> cl_from c <= cur -> cinv (deliver c evs cur).
Proof.
  intros [S [F L]] Hs He Hc. unfold cinv, deliver. simpl. rewrite Forall_forall in F. split; [|split].
  - apply sorted_app_lt; [exact S|apply sorted_map_ver; exact Hs|]. intros x y Hx Hy. apply in_map_iff in Hy. destruct Hy as [e [<- Hy]].
    specialize (F x Hx). specialize (He e Hy). lia.
  - apply Forall_forall. intros x Hx. apply in_app_or in Hx. destruct Hx as [Hx|Hx].
    + specialize (F x Hx). lia.
    + apply in_map_iff in Hx. destruct Hx as [e [<- Hx]]. specialize (He e Hx). lia.
  - lia.
Qed.

Lemma forall_upd_nth {A} (P : A -> Prop) l : forall i x, Forall P l -> P x -> Forall P (upd_nth l i x).
Proof. induction l as [|a t IH]; intros [|i] x H Hx; simpl; auto; inversion H; subst; constructor; auto. Qed.

Lemma journal_sorted s since page : wf s ->
  StronglySorted vlt (journal s since page) /\ forall e, In e (journal s since page) -> since < r_ver e.
Proof. intros W. destruct (journal_spec s since page W) as [H1 [_ [H3 _]]]. split; [exact H1|]. intros e He. apply H3; auto. Qed.

Lemma poll_inv s cls i limit r cls' : wf s -> Forall cinv cls -> poll s cls i limit = (r, cls') -> Forall cinv cls'.
Proof.
  intros W F H. unfold poll in H. destruct (nth_error cls i) as [c|] eqn:En; [|inversion H; subst; auto].
  assert (Hc : cinv c). { rewrite Forall_forall in F. apply F. eapply nth_error_In; eauto. }
  destruct (cl_wait c); [inversion H; subst; auto|].
  destruct (journal_sorted s (cl_from c) limit W) as [Hs Hgt].
  destruct (journal s (cl_from c) limit) as [|e t] eqn:Ej.
  - inversion H; subst. apply forall_upd_nth; auto.
  - assert (Hle : forall x, In x (e :: t) -> r_ver x <= last_ver (e :: t) 0) by (apply last_ver_ge; auto).
    assert (E : cls' = upd_nth cls i (deliver c (e :: t) (last_ver (e :: t) 0))) by (inversion H; reflexivity).
    rewrite E. apply forall_upd_nth; auto.
    apply deliver_inv; [exact Hc|exact Hs|intros x Hx; split; [apply Hgt; auto|apply Hle; auto]|].
    specialize (Hgt e (or_introl eq_refl)). specialize (Hle e (or_introl eq_refl)). lia.
Qed.

Lemma bcast_inv jn cur : StronglySorted vlt jn -> (forall e, In e jn -> r_ver e <= cur) ->
  forall cls i d cls', Forall cinv cls -> bcast jn cur i cls = (d, cls') -> Forall cinv cls'.
Proof.
  intros Hs Hle. induction cls as [|c t IH]; intros i d cls' F H; simpl in H; [inversion H; constructor|].
  inversion F; subst. destruct (bcast jn cur (S i) t) as [d0 t'] eqn:Eb. specialize (IH _ _ _ H3 Eb).
  destruct (cl_wait c).
  - destruct (trim_spec (cl_from c) jn Hs) as [T1 T2].
    destruct (trim (cl_from c) jn) as [|e r] eqn:Et; inversion H; subst; constructor; auto.
    apply deliver_inv; [assumption|exact T1|intros x Hx; destruct (T2 x Hx); split; auto|].
    destruct (T2 e (or_introl eq_refl)) as [Hin Hgt]. specialize (Hle e Hin). lia.
  - inversion H; subst. constructor; auto.
Qed.

Lemma broadcast_inv s cls r cls' : wf s -> Forall cinv cls -> broadcast s cls = (r, cls') -> Forall cinv cls'.
Proof.
  intros W F H. unfold broadcast in H. destruct (min_from cls) as [mv|]; [|inversion H; subst; auto].
  destruct (journal_sorted s mv 100 W) as [Hs _].
  destruct (journal s mv 100) as [|e t] eqn:Ej; [inversion H; subst; auto|].
  destruct (bcast (e :: t) (last_ver (e :: t) 0) 0 cls) as [d c2] eqn:Eb. inversion H; subst.
  eapply bcast_inv; eauto. apply last_ver_ge; auto.
Qed.

Lemma jstep_inv v c s cls o r s' cls' : wf s -> Forall cinv cls -> jstep v c (s, cls) o = (r, (s', cls')) ->
  wf s' /\ Forall cinv cls'.
Proof.
  intros W F H. destruct o; simpl in H.
  - inversion H; subst. split; auto. apply wf_step; auto.
  - destruct (poll s cls i limit) as [r0 c0] eqn:Ep. inversion H; subst. split; auto. eapply poll_inv; eauto.
  - destruct (broadcast s cls) as [r0 c0] eqn:Eb. inversion H; subst. split; auto. eapply broadcast_inv; eauto.
Qed.

Theorem journal_stream_exactly_once_ascending v c ops : forall s cls rs s' cls',
  wf s -> Forall cinv cls -> jrun v c (s, cls) ops = (rs, (s', cls')) ->
  Forall (fun cl => StronglySorted Z.lt (cl_stream cl) /\
                    Forall (fun x => cl_start cl < x /\ x <= cl_from cl) (cl_stream cl)) cls'.
Proof.
  induction ops as [|o t IH]; intros s cls rs s' cls' W F H; cbn [jrun] in H.
  - inversion H; subst. eapply Forall_impl; [|exact F]. intros a [A [B _]]. auto.
  - destruct (jstep v c (s, cls) o) as [r [s1 c1]] eqn:Es. destruct (jrun v c (s1, c1) t) as [rs' [s2 c2]] eqn:Er.
    inversion H; subst. destruct (jstep_inv _ _ _ _ _ _ _ _ W F Es) as [W1 F1]. eapply IH; [exact W1|exact F1|exact Er].
Qed.

Lemma new_client_inv from : cinv (new_client from).
Proof. unfold cinv, new_client. simpl. repeat split; try constructor. lia. Qed.
