(* Executable model of the metadata database (internal/metadata: dbv2.go, rules.go, binlog_event.go) for
   C15 (versioned edits), C19 (tag mappings / flood limits) and C16 (binlog replay).

   Relational state = the tables the code reads and writes, with the declared constraints of the schema:
     metrics_v5      id PRIMARY KEY AUTOINCREMENT, version UNIQUE, UNIQUE (namespace_id, type, name)
     entity_history  version UNIQUE, UNIQUE (entity_id, version)
     mappings        id PRIMARY KEY AUTOINCREMENT, name UNIQUE
     flood_limits    metric_name PRIMARY KEY (WITHOUT ROWID: kept sorted by key here)
     sqlite_sequence the AUTOINCREMENT high-water marks of metrics_v5 and mappings ([eseq], [mseq])
   plus the one in-memory field DBV2.lastMappingIDToInsert ([last_created]; 0 after every open).
   Engine.Do = one atomic transaction: every function returns the unchanged state on error.
   Strings are small integers (the harness renders them): an entity name is (p, l) for "n<p>:n<l>" (p <> 0) or
   "n<l>" (p = 0), so format.SplitNamespace is [fst]; data/metadata/mapping keys/metric names are numbers.
   No proofs in this file. *)
From Coq Require Import ZArith List Bool.
From SH Require Import Common.Wrap.
Import ListNotations.
Open Scope Z_scope.

Definition name := (Z * Z)%type.
Definition name_eqb (a b : name) : bool := (fst a =? fst b) && (snd a =? snd b).

(* metrics_v5 row / tlmetadata.Event *)
Inductive row := R (id : Z) (nm : name) (ns ver upd del data typ : Z).
Definition r_id r := match r with R a _ _ _ _ _ _ _ => a end.
Definition r_name r := match r with R _ a _ _ _ _ _ _ => a end.
Definition r_ns r := match r with R _ _ a _ _ _ _ _ => a end.
Definition r_ver r := match r with R _ _ _ a _ _ _ _ => a end.
Definition r_upd r := match r with R _ _ _ _ a _ _ _ => a end.
Definition r_del r := match r with R _ _ _ _ _ a _ _ => a end.
Definition r_data r := match r with R _ _ _ _ _ _ a _ => a end.
Definition r_typ r := match r with R _ _ _ _ _ _ _ a => a end.

(* entity_history row = an event (as a row) plus its metadata string *)
Inductive hrow := H (e : row) (meta : Z).
Definition h_row h := match h with H e _ => e end.
Definition h_meta h := match h with H _ m => m end.
Definition h_ver h := r_ver (h_row h).
Definition h_id h := r_id (h_row h).

Record cfg := Cfg { c_max : Z; c_step : Z; c_bonus : Z; c_global : Z }.

(* Dual model: [false] everywhere = the code as it is; a [true] flag = the repaired behaviour for one finding. *)
Record variant := Var {
  fx_replay_rename : bool;   (* applyEditEntityEvent matches on id+old version only and sets the name *)
  fx_reset_event : bool;     (* ResetFlood writes a binlog event *)
  fx_ns_type : bool;         (* SaveEntity edits only rows of the requested type; namespace check uses the effective create flag *)
  fx_reset_time : bool       (* ResetFlood stores the rounded time, like getOrCreateMapping *)
}.
Definition faithful := Var false false false false.
Definition repaired := Var true true true true.
(* /repo after the integrator's repairs of F-C16a (replayed rename) and F-C19a (ResetFlood time); F-C15a and F-C16b remain *)
Definition current := Var true false false true.

Record st := St {
  ents : list row; eseq : Z;
  hist : list hrow;
  maps : list (Z * Z);        (* (id, key) *)
  mseq : Z;
  flood : list (Z * (Z * Z)); (* metric -> (last_time_update, count_free), sorted by metric *)
  last_created : Z
}.
Definition empty : st := St [] 0 [] [] 0 [] 0.

Definition T_METRIC := 0. Definition T_DASH := 1. Definition T_GROUP := 2. Definition T_PROM := 3. Definition T_NS := 4.

Inductive err := EOk | EVersion | EExists | ENoNs | ERenameNs | EConstraint | EOther.

(* SELECT IFNULL(MAX(version), 0) FROM metrics_v5 (versions are >= 1 in every reachable state) *)
Definition max_ver (es : list row) : Z := fold_right (fun r m => Z.max (r_ver r) m) 0 es.

Definition find_id (es : list row) (id : Z) : option row := find (fun r => r_id r =? id) es.
Definition find_id_ver (es : list row) (id v : Z) : option row := find (fun r => (r_id r =? id) && (r_ver r =? v)) es.
(* UNIQUE (namespace_id, type, name): a row other than [self] holding the triple *)
Definition uniq_conflict (es : list row) (self ns typ : Z) (nm : name) : bool :=
  existsb (fun r => negb (r_id r =? self) && (r_ns r =? ns) && (r_typ r =? typ) && name_eqb (r_name r) nm) es.
Definition upd_row (es : list row) (id : Z) (r' : row) : list row :=
  map (fun r => if r_id r =? id then r' else r) es.

(* rules.go: resolveNamespace *)
Definition resolve_ns (es : list row) (nm : name) (typ : Z) : err * Z :=
  if negb ((typ =? T_METRIC) || (typ =? T_GROUP)) then (EOk, 0)
  else if fst nm =? 0 then (EOk, 0)
  else match find (fun r => (r_typ r =? T_NS) && name_eqb (r_name r) (0, fst nm)) es with
       | None => (ENoNs, 0)
       | Some r => (EOk, r_id r)
       end.

(* rules.go: checkNamespace (only called for typ = namespace) *)
Definition check_namespace (es : list row) (nm : name) (id oldv : Z) (create : bool) : err :=
  if create then EOk else
  match find (fun r => (r_typ r =? T_NS) && (r_id r =? id) && (r_ver r =? oldv)) es with
  | None => ENoNs
  | Some r => if name_eqb (r_name r) nm then EOk else ERenameNs
  end.

(* rules.go: checkCreateEntity *)
Definition check_create (es : list row) (nm : name) (typ : Z) : err :=
  if existsb (fun r => (r_typ r =? typ) && name_eqb (r_name r) nm) es then EExists else EOk.

(* binlog events *)
Inductive event :=
| EvCreate (h : hrow)
| EvEdit (h : hrow) (oldv : Z)
| EvCreateMap (id key metric t budget : Z)
| EvPut (kvs : list (Z * Z))
| EvDel (ids : list Z)
| EvReset (metric : Z) (v : option (Z * Z)).   (* only emitted by the repaired variant *)

Definition set_ents (s : st) es sq h := St es sq h (maps s) (mseq s) (flood s) (last_created s).

(* dbv2.go: SaveEntity. Returns (error class, resulting event row, new state, binlog events). *)
Definition save (v : variant) (s : st) (nm : name) (id oldv data : Z) (create : bool) (del typ meta now : Z)
  : err * row * st * list event :=
  let es := ents s in
  let fail e := (e, R 0 (0, 0) 0 0 0 0 0 0, s, []) in
  let exists_neg := match find_id es id with Some _ => true | None => false end in
  let create_eff := if id <? 0 then negb exists_neg else create in
  let create_chk := if fx_ns_type v then create_eff else create in
  match (if typ =? T_NS then check_namespace es nm id oldv create_chk else EOk) with
  | EOk =>
    match resolve_ns es nm typ with
    | (EOk, nsid) =>
      match (if create_chk then check_create es nm typ else EOk) with
      | EOk =>
        let newv := max_ver es + 1 in
        let finish (es' : list row) (sq' : Z) (rid : Z) (rdel : Z) (ev : hrow -> event) :=
          if newv =? oldv then fail EOther
          else
            let e := R rid nm nsid newv now rdel data typ in
            if existsb (fun h => h_ver h =? newv) (hist s) then fail EConstraint
            else (EOk, e, set_ents s es' sq' (hist s ++ [H e meta]), [ev (H e meta)]) in
        if negb create_eff then
          match find_id_ver es id oldv with
          | None => fail EVersion
          | Some r =>
            if fx_ns_type v && negb (r_typ r =? typ) then fail EVersion
            else if uniq_conflict es id nsid (r_typ r) nm then fail EConstraint
            else finish (upd_row es id (R id nm nsid newv now del data (r_typ r))) (eseq s) id del (fun h => EvEdit h oldv)
          end
        else
          let newid := if id <? 0 then id else eseq s + 1 in
          if uniq_conflict es newid nsid typ nm then fail EConstraint
          else finish (es ++ [R newid nm nsid newv now del data typ]) (Z.max (eseq s) newid) newid del EvCreate
      | e => fail e
      end
    | (e, _) => fail e
    end
  | e => fail e
  end.

(* binlog_event.go: insertHistory + applyCreateEntityEvent / applyEditEntityEvent (None = SQL error) *)
Definition apply_hist (hs : list hrow) (h : hrow) : option (list hrow) :=
  if existsb (fun x => h_ver x =? h_ver h) hs then None else Some (hs ++ [h]).

Definition apply_create (s : st) (h : hrow) : option st :=
  let e := h_row h in
  if existsb (fun r => (r_id r =? r_id e) || (r_ver r =? r_ver e)) (ents s) then None
  else if uniq_conflict (ents s) (r_id e) (r_ns e) (r_typ e) (r_name e) then None
  else match apply_hist (hist s) h with
       | None => None
       | Some hs => Some (set_ents s (ents s ++ [e]) (Z.max (eseq s) (r_id e)) hs)
       end.

Definition apply_edit (v : variant) (s : st) (h : hrow) (oldv : Z) : option st :=
  let e := h_row h in
  let hit r := (r_id r =? r_id e) && (r_ver r =? oldv) && (fx_replay_rename v || name_eqb (r_name r) (r_name e)) in
  match find hit (ents s) with
  | None => match apply_hist (hist s) h with None => None | Some hs => Some (set_ents s (ents s) (eseq s) hs) end
  | Some r =>
    let nm' := if fx_replay_rename v then r_name e else r_name r in
    if existsb (fun x => negb (r_id x =? r_id e) && (r_ver x =? r_ver e)) (ents s) then None
    else if uniq_conflict (ents s) (r_id e) (r_ns e) (r_typ r) nm' then None
    else match apply_hist (hist s) h with
         | None => None
         | Some hs => Some (set_ents s (upd_row (ents s) (r_id e) (R (r_id e) nm' (r_ns e) (r_ver e) (r_upd e) (r_del e) (r_data e) (r_typ r))) (eseq s) hs)
         end
  end.

(* ---- mappings and flood limits ---- *)
Fixpoint fl_get (f : list (Z * (Z * Z))) (k : Z) : option (Z * Z) :=
  match f with [] => None | (k', x) :: t => if k' =? k then Some x else fl_get t k end.
Fixpoint fl_set (f : list (Z * (Z * Z))) (k : Z) (x : Z * Z) : list (Z * (Z * Z)) :=
  match f with
  | [] => [(k, x)]
  | (k', y) :: t => if k =? k' then (k, x) :: t else if k <? k' then (k, x) :: (k', y) :: t else (k', y) :: fl_set t k x
  end.
Definition fl_del (f : list (Z * (Z * Z))) (k : Z) := filter (fun p => negb (fst p =? k)) f.

Definition set_maps (s : st) m sq f lc := St (ents s) (eseq s) (hist s) m sq f lc.

(* dbv2.go: roundTime / calcBudget, uint32 arithmetic with its wrap *)
Definition round_time (now step : Z) : Z := let n := u32 now in n - n mod step.
Definition calc_budget (old expense last now mx bonus step : Z) : Z :=
  if old >? mx then old - expense
  else let res := old - expense + (u32 (now - last) / step) * bonus in
       if res >=? mx then mx - expense else res.

Definition map_by_key (m : list (Z * Z)) (k : Z) : option Z :=
  match find (fun p => snd p =? k) m with Some p => Some (fst p) | None => None end.
Definition map_by_id (m : list (Z * Z)) (id : Z) : option Z :=
  match find (fun p => fst p =? id) m with Some p => Some (snd p) | None => None end.

Inductive goc_res := GFound (id : Z) | GCreated (id : Z) | GFlood.

(* binlog_event.go: getOrCreateMapping + dbv2.go: GetOrCreateMapping *)
Definition goc (c : cfg) (s : st) (metric key now : Z) : goc_res * st * list event :=
  match map_by_key (maps s) key with
  | Some id => (GFound (i32 id), s, [])
  | None =>
    let pred := round_time now (c_step c) in
    let skip := (0 <? last_created s) && (last_created s <=? c_global c) in
    let budget :=
      match fl_get (flood s) metric with
      | Some (t, cnt) => if skip then Some (c_max c)
                         else let b := calc_budget cnt 1 (u32 t) pred (c_max c) (c_bonus c) (c_step c) in
                              if b <? 0 then None else Some b
      | None => Some (c_max c - 1)
      end in
    match budget with
    | None => (GFlood, s, [])
    | Some b =>
      let newid := mseq s + 1 in
      let id32 := i32 newid in
      (GCreated id32, set_maps s (maps s ++ [(newid, key)]) newid (fl_set (flood s) metric (pred, b)) id32,
       [EvCreateMap id32 key metric pred b])
    end
  end.

Definition apply_create_map (s : st) (id key metric t budget : Z) : option st :=
  if existsb (fun p => (fst p =? id) || (snd p =? key)) (maps s) then None
  else Some (set_maps s (maps s ++ [(id, key)]) (Z.max (mseq s) id) (fl_set (flood s) metric (t, budget)) (last_created s)).

(* putMapping: INSERT OR REPLACE INTO mappings(id, name) for every pair (key, id) *)
Definition put1 (m : list (Z * Z)) (kv : Z * Z) : list (Z * Z) :=
  filter (fun p => negb ((fst p =? snd kv) || (snd p =? fst kv))) m ++ [(snd kv, fst kv)].
Definition put (s : st) (kvs : list (Z * Z)) : st :=
  set_maps s (fold_left put1 kvs (maps s)) (fold_left (fun q kv => Z.max q (snd kv)) kvs (mseq s)) (flood s) (last_created s).

Definition mem_z (x : Z) (l : list Z) : bool := existsb (Z.eqb x) l.
(* deleteMappingsByIdBatched: count of present ids, delete, event with the present ids *)
Definition del (s : st) (ids : list Z) : Z * st * list event :=
  let present := filter (fun p => mem_z (fst p) ids) (maps s) in
  match present with
  | [] => (0, s, [])
  | _ => (Z.of_nat (length present),
          set_maps s (filter (fun p => negb (mem_z (fst p) ids)) (maps s)) (mseq s) (flood s) (last_created s),
          [EvDel (map fst present)])
  end.
Definition apply_del (s : st) (ids : list Z) : st :=
  set_maps s (filter (fun p => negb (mem_z (fst p) ids)) (maps s)) (mseq s) (flood s) (last_created s).

Definition ABC2 := 0.   (* metric number 0 is rendered as "abc2": getFreeCount reads that fixed name *)
Definition max_reset_limit := 10000.
(* dbv2.go: ResetFlood *)
Definition reset (v : variant) (c : cfg) (s : st) (metric limit now : Z) : (Z * Z) * st * list event :=
  let before := match fl_get (flood s) ABC2 with Some (_, cnt) => cnt | None => c_max c end in
  if limit <=? 0 then
    ((before, c_max c), set_maps s (maps s) (mseq s) (fl_del (flood s) metric) (last_created s),
     if fx_reset_event v then [EvReset metric None] else [])
  else
    let after := Z.min limit max_reset_limit in
    let t := if fx_reset_time v then round_time now (c_step c) else now in
    ((before, after), set_maps s (maps s) (mseq s) (fl_set (flood s) metric (t, after)) (last_created s),
     if fx_reset_event v then [EvReset metric (Some (t, after))] else []).
Definition apply_reset (s : st) (metric : Z) (x : option (Z * Z)) : st :=
  set_maps s (maps s) (mseq s) (match x with None => fl_del (flood s) metric | Some y => fl_set (flood s) metric y end) (last_created s).

(* binlog_event.go: applyScanEvent, one event *)
Definition apply_event (v : variant) (s : st) (e : event) : option st :=
  match e with
  | EvCreate h => apply_create s h
  | EvEdit h o => apply_edit v s h o
  | EvCreateMap id key metric t b => apply_create_map s id key metric t b
  | EvPut kvs => Some (put s kvs)
  | EvDel ids => Some (apply_del s ids)
  | EvReset m x => Some (apply_reset s m x)
  end.
Fixpoint replay (v : variant) (s : st) (evs : list event) : option st :=
  match evs with
  | [] => Some s
  | e :: t => match apply_event v s e with None => None | Some s' => replay v s' t end
  end.

(* ---- reads ---- *)
Fixpoint insert_by {A} (key : A -> Z) (x : A) (l : list A) : list A :=
  match l with [] => [x] | y :: t => if key x <=? key y then x :: l else y :: insert_by key x t end.
Definition sort_by {A} (key : A -> Z) (l : list A) : list A := fold_right (insert_by key) [] l.

Definition metric_count_read_limit := 1000.
(* dbv2.go: JournalEvents (the 1 MiB byte limit is not reached by the modelled data sizes) *)
Definition journal (s : st) (since page : Z) : list row :=
  let lim := Z.min page metric_count_read_limit in
  firstn (Z.to_nat (Z.max 1 lim)) (sort_by r_ver (filter (fun r => r_ver r >? since) (ents s))).
(* GetHistoryShort: (version, metadata) by version descending *)
Definition history_short (s : st) (id : Z) : list (Z * Z) :=
  rev (map (fun h => (h_ver h, h_meta h)) (sort_by h_ver (filter (fun h => h_id h =? id) (hist s)))).
(* GetEntityVersioned *)
Definition get_versioned (s : st) (id ver : Z) : option hrow :=
  match find (fun h => (h_id h =? id) && (h_ver h =? ver)) (hist s) with
  | Some (H (R i nm ns v u _ d t) m) => Some (H (R i nm ns v u 0 d t) m)   (* deleted_at is not selected *)
  | None => None
  end.
Definition mapping_count_read_limit := 50000.
(* GetNewMappings without deletion candidates: (rows with id > from, ascending, at most page), MAX(id) *)
Definition new_mappings (s : st) (from page : Z) : list (Z * Z) * Z :=
  let lim := Z.min page mapping_count_read_limit in
  let rows := sort_by fst (filter (fun p => fst p >? from) (maps s)) in
  (firstn (Z.to_nat (Z.max 1 lim)) rows,
   match maps s with [] => 0 | _ => i32 (fold_right (fun p m => Z.max (fst p) m) (fst (hd (0, 0) (maps s))) (maps s)) end).

(* ---- histories ---- *)
(* requests that may run while the binlog refuses Append/AppendASAP (write fault, back pressure, shutdown) *)
Inductive fop :=
| FSave (p l id oldv data : Z) (create : bool) (del typ meta now : Z)
| FGoc (metric key now : Z)
| FPut (kvs : list (Z * Z))
| FDel (ids : list Z).
Inductive op :=
| OSave (p l id oldv data : Z) (create : bool) (del typ meta now : Z)
| OGoc (metric key now : Z)
| OPut (kvs : list (Z * Z))
| ODel (ids : list Z)
| OReset (metric limit now : Z)
| OReopen
| OJournal (since page : Z)
| OHist (id : Z)
| OGetVer (id ver : Z)
| OById (id : Z)
| OByVal (key : Z)
| ONewMaps (from page : Z)
| OFailAppend (f : fop).   (* a writing request during which the binlog refuses the append *)

Inductive res :=
| RSave (e : err) (id ver ns : Z)
| RGoc (g : goc_res)
| RUnit
| RCount (n : Z)
| RReset (before after : Z)
| RJournal (rows : list row)
| RHist (l : list (Z * Z))
| RGetVer (o : option hrow)
| ROptZ (o : option Z)
| RNewMaps (l : list (Z * Z)) (mx : Z)
| RFail     (* the request returned the binlog's error *)
| RErr.   (* an error the model never predicts *)

Definition with_last (s : st) (id : Z) : st := St (ents s) (eseq s) (hist s) (maps s) (mseq s) (flood s) id.

(* sqlite.Engine.doWithoutWait: when the transaction body succeeded and produced an event but the append is refused,
   the savepoint is rolled back and the error returned: no table changes, no event. A request that produces no event
   (it failed by itself, found an existing mapping, hit the flood limit, deleted nothing) never reaches the append.
   One thing survives the rollback: GetOrCreateMapping stores the created id in DBV2.lastMappingIDToInsert inside the
   transaction body. *)
Definition step_fail (v : variant) (c : cfg) (s : st) (f : fop) : res * st * list event :=
  match f with
  | FSave p l id oldv data create dl typ meta now =>
      (match fst (fst (fst (save v s (p, l) id oldv data create dl typ meta now))) with
       | EOk => RFail | e => RSave e 0 0 0 end, s, [])
  | FGoc m k now =>
      (match fst (fst (goc c s m k now)) with GCreated _ => RFail | g => RGoc g end,
       match fst (fst (goc c s m k now)) with GCreated id => with_last s id | _ => s end, [])
  | FPut kvs => (RFail, s, [])
  | FDel ids => (match filter (fun p => mem_z (fst p) ids) (maps s) with [] => RCount 0 | _ => RFail end, s, [])
  end.

Definition step (v : variant) (c : cfg) (s : st) (o : op) : res * st * list event :=
  match o with
  | OSave p l id oldv data create dl typ meta now =>
      let '(e, r, s', evs) := save v s (p, l) id oldv data create dl typ meta now in
      (match e with EOk => RSave EOk (r_id r) (r_ver r) (r_ns r) | _ => RSave e 0 0 0 end, s', evs)
  | OGoc m k now => let '(g, s', evs) := goc c s m k now in (RGoc g, s', evs)
  | OPut kvs => (RUnit, put s kvs, [EvPut kvs])
  | ODel ids => let '(n, s', evs) := del s ids in (RCount n, s', evs)
  | OReset m lim now => let '((b, a), s', evs) := reset v c s m lim now in (RReset b a, s', evs)
  | OReopen => (RUnit, St (ents s) (eseq s) (hist s) (maps s) (mseq s) (flood s) 0, [])
  | OJournal since page => (RJournal (journal s since page), s, [])
  | OHist id => (RHist (history_short s id), s, [])
  | OGetVer id ver => (RGetVer (get_versioned s id ver), s, [])
  | OById id => (ROptZ (map_by_id (maps s) id), s, [])
  | OByVal k => (ROptZ (map_by_key (maps s) k), s, [])
  | ONewMaps from page => let '(l, mx) := new_mappings s from page in (RNewMaps l mx, s, [])
  | OFailAppend f => step_fail v c s f
  end.

Definition step_st v c s o := snd (fst (step v c s o)).
Definition step_res v c s o := fst (fst (step v c s o)).
Definition step_evs v c s o := snd (step v c s o).

Definition run (v : variant) (c : cfg) (s : st) (ops : list op) : st := fold_left (step_st v c) ops s.
Fixpoint events (v : variant) (c : cfg) (s : st) (ops : list op) : list event :=
  match ops with [] => [] | o :: t => step_evs v c s o ++ events v c (step_st v c s o) t end.
Fixpoint results (v : variant) (c : cfg) (s : st) (ops : list op) : list res :=
  match ops with [] => [] | o :: t => step_res v c s o :: results v c (step_st v c s o) t end.

(* what a replica can be compared on: all tables, not the in-memory last-created id *)
Definition tables (s : st) : st := St (ents s) (eseq s) (hist s) (maps s) (mseq s) (flood s) 0.
