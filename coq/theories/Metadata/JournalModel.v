(* Executable model of the journal long-poll layer of rpc_handler.go (RawGetJournal registration and
   broadcastJournal with its per-client trim) on top of Metadata/Model.v. No proofs here. *)
From Coq Require Import ZArith List Bool.
From SH Require Import Common.Wrap Metadata.Model.
Import ListNotations.
Open Scope Z_scope.

(* one journal client: where it started, the From of its next/pending request, whether it is registered as a
   waiting long-poll, and the versions delivered to it so far (concatenated over all responses) *)
Record client := Cl { cl_start : Z; cl_from : Z; cl_wait : bool; cl_stream : list Z }.

(* broadcastJournal: for len(resp.Events) != 0 && resp.Events[0].Version <= args.From { resp.Events = resp.Events[1:] } *)
Fixpoint trim (from : Z) (evs : list row) : list row :=
  match evs with [] => [] | e :: t => if r_ver e <=? from then trim from t else evs end.

(* m[len(m)-1].Version *)
Definition last_ver (evs : list row) (d : Z) : Z := fold_left (fun _ e => r_ver e) evs d.

Definition deliver (c : client) (evs : list row) (cur : Z) : client :=
  Cl (cl_start c) cur false (cl_stream c ++ map r_ver evs).

Fixpoint upd_nth {A} (l : list A) (i : nat) (x : A) : list A :=
  match l, i with
  | [], _ => []
  | _ :: t, O => x :: t
  | a :: t, S i' => a :: upd_nth t i' x
  end.

Inductive jop := JEdit (o : op) | JPoll (i : nat) (limit : Z) | JBroadcast.
(* result of a step: the edit's result; the deliveries (client index, events, CurrentVersion); registered as waiting *)
Inductive jres := JR (r : res) | JDeliver (d : list (nat * list row * Z)) | JWait | JBusy.

(* RawGetJournal without return-if-empty: answer at once when there is something newer than From, else register *)
Definition poll (s : st) (cls : list client) (i : nat) (limit : Z) : jres * list client :=
  match nth_error cls i with
  | None => (JBusy, cls)
  | Some c =>
    if cl_wait c then (JBusy, cls) else
    match journal s (cl_from c) limit with
    | [] => (JWait, upd_nth cls i (Cl (cl_start c) (cl_from c) true (cl_stream c)))
    | m => (JDeliver [(i, m, last_ver m 0)], upd_nth cls i (deliver c m (last_ver m 0)))
    end
  end.

Definition min_from (cls : list client) : option Z :=
  fold_right (fun c acc => if cl_wait c then match acc with None => Some (cl_from c) | Some m => Some (Z.min m (cl_from c)) end else acc) None cls.

Fixpoint bcast (jn : list row) (cur : Z) (i : nat) (cls : list client) : list (nat * list row * Z) * list client :=
  match cls with
  | [] => ([], [])
  | c :: t =>
    let '(d, t') := bcast jn cur (S i) t in
    if cl_wait c then
      match trim (cl_from c) jn with
      | [] => (d, c :: t')
      | evs => ((i, evs, cur) :: d, deliver c evs cur :: t')
      end
    else (d, c :: t')
  end.

(* broadcastJournal *)
Definition broadcast (s : st) (cls : list client) : jres * list client :=
  match min_from cls with
  | None => (JDeliver [], cls)
  | Some mv =>
    match journal s mv 100 with
    | [] => (JDeliver [], cls)
    | jn => let '(d, cls') := bcast jn (last_ver jn 0) 0 cls in (JDeliver d, cls')
    end
  end.

Definition jstep (v : variant) (c : cfg) (x : st * list client) (o : jop) : jres * (st * list client) :=
  let '(s, cls) := x in
  match o with
  | JEdit e => (JR (step_res v c s e), (step_st v c s e, cls))
  | JPoll i limit => let '(r, cls') := poll s cls i limit in (r, (s, cls'))
  | JBroadcast => let '(r, cls') := broadcast s cls in (r, (s, cls'))
  end.

Fixpoint jrun (v : variant) (c : cfg) (x : st * list client) (ops : list jop) : list jres * (st * list client) :=
  match ops with
  | [] => ([], x)
  | o :: t => let '(r, x') := jstep v c x o in let '(rs, x'') := jrun v c x' t in (r :: rs, x'')
  end.

Definition new_client (from : Z) : client := Cl from from false [].
