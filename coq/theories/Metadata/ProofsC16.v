(* C16: replaying the emitted binlog events reproduces the primary's tables. *)
From Coq Require Import ZArith List Bool Lia.
From SH Require Import Common.Wrap Metadata.Model Metadata.Proofs Metadata.ProofsC19.
Import ListNotations.
Open Scope Z_scope.

(* what makes an operation replay-safe for a variant: the two recorded findings and the int32 id range *)
Definition safe_op (v : variant) (s : st) (o : op) : Prop :=
  match o with
  | OSave p l id oldv _ _ _ _ _ _ =>
      fx_replay_rename v = true \/ (forall r0, find_id_ver (ents s) id oldv = Some r0 -> r_name r0 = (p, l))
  | OReset _ _ _ => fx_reset_event v = true
  | OGoc _ _ _ => mseq s + 1 < two31
  | _ => True
  end.
Fixpoint safe_hist (v : variant) (c : cfg) (s : st) (ops : list op) : Prop :=
  match ops with [] => True | o :: t => safe_op v s o /\ safe_hist v c (step_st v c s o) t end.

Lemma find_refine {A} (f g : A -> bool) l a :
  find f l = Some a -> (forall x, g x = true -> f x = true) -> g a = true -> find g l = Some a.
Proof.
  induction l as [|x t IH]; simpl; [discriminate|]. intros H Himp Hg.
  destruct (f x) eqn:Ef.
  - inversion H; subst. rewrite Hg. reflexivity.
  - destruct (g x) eqn:Eg; [apply Himp in Eg; congruence|auto].
Qed.
Lemma existsb_false_intro {A} (f : A -> bool) l : (forall x, In x l -> f x = false) -> existsb f l = false.
Proof. intros H. destruct (existsb f l) eqn:E; auto. apply existsb_exists in E. destruct E as [x [Hx Hf]]. rewrite H in Hf; auto. Qed.
Lemma mem_z_in x l : mem_z x l = true <-> In x l.
Proof. unfold mem_z. rewrite existsb_exists. split; [intros [y [Hy E]]; apply Z.eqb_eq in E; subst; auto|intros H; exists x; rewrite Z.eqb_refl; auto]. Qed.

Lemma replay_app v evs1 : forall s evs2,
  replay v s (evs1 ++ evs2) = match replay v s evs1 with Some s' => replay v s' evs2 | None => None end.
Proof. induction evs1 as [|e t IH]; simpl; auto. intros s evs2. destruct (apply_event v s e); auto. Qed.

Lemma replay_step v c s o : wf s -> safe_op v s o ->
  replay v (tables s) (step_evs v c s o) = Some (tables (step_st v c s o)).
Proof.
  intros W Hsafe. unfold step_evs, step_st. destruct o; simpl; auto.
  - (* SaveEntity *)
    destruct (save v s (p, l) id oldv data create del typ meta now) as [[[e r] s'] evs] eqn:Hs. simpl.
    destruct e; try (apply save_fail in Hs; [destruct Hs as [E1 E2]; subst; reflexivity|congruence]).
    apply save_ok_inv in Hs. cbv zeta in Hs.
    destruct Hs as [nsid [_ [_ [Hh [_ [_ [[r0 [_ [Hf [Hu [_ [Er [Es Ee]]]]]]]|[newid [_ [Hid [Hu [Er [Es Ee]]]]]]]]]]]]]; subst evs; simpl.
    + (* edit *)
      pose proof (find_id_ver_some _ _ _ _ Hf) as [Hin0 [Eid0 Ev0]].
      assert (Hname : fx_replay_rename v = true \/ r_name r0 = (p, l)).
      { simpl in Hsafe. destruct Hsafe as [Hx|Hx]; auto. }
      unfold apply_edit. subst r. simpl.
      erewrite (find_refine _ _ _ r0 Hf).
      2:{ intros x Hx. apply andb_true_iff in Hx. tauto. }
      2:{ rewrite Eid0, Ev0, !Z.eqb_refl. simpl. destruct Hname as [-> | ->]; [reflexivity|rewrite name_eqb_refl; apply orb_true_r]. }
      set (nm' := if fx_replay_rename v then _ else _).
      assert (Enm : nm' = (p, l)).
      { unfold nm'. destruct Hname as [-> | ->]; [reflexivity|destruct (fx_replay_rename v); reflexivity]. }
      clearbody nm'. subst nm'.
      rewrite existsb_false_intro.
      2:{ intros x Hx. apply max_ver_ge in Hx. replace (r_ver x =? max_ver (ents s) + 1) with false; [apply andb_false_r|symmetry; apply Z.eqb_neq; lia]. }
      rewrite Hu. unfold apply_hist. simpl. unfold h_ver at 2. simpl.
      replace (existsb (fun x => h_ver x =? max_ver (ents s) + 1) (hist s)) with false by (symmetry; exact Hh).
      subst s'. reflexivity.
    + (* create *)
      unfold apply_create. subst r. simpl.
      assert (Hnew : forall x, In x (ents s) -> r_id x <> newid).
      { destruct Hid as [[Hpos ->]|[Hneg [-> Hnone]]].
        - intros x Hx. apply (wf_seq s W) in Hx. lia.
        - apply find_id_none; auto. }
      rewrite existsb_false_intro.
      2:{ intros x Hx. apply orb_false_iff. split; [apply Z.eqb_neq; auto|]. apply max_ver_ge in Hx. apply Z.eqb_neq. lia. }
      rewrite Hu. unfold apply_hist. simpl. unfold h_ver at 2. simpl.
      replace (existsb (fun x => h_ver x =? max_ver (ents s) + 1) (hist s)) with false by (symmetry; exact Hh).
      subst s'. reflexivity.
  - (* GetOrCreateMapping *)
    simpl in Hsafe. pose proof (wf_mseq0 s W) as H0.
    assert (E32 : i32 (mseq s + 1) = mseq s + 1) by (apply i32_small; unfold two31 in *; lia).
    unfold goc. destruct (map_by_key (maps s) key) eqn:Hk; simpl; auto.
    assert (Hex : existsb (fun p => (fst p =? mseq s + 1) || (snd p =? key)) (maps s) = false).
    { apply existsb_false_intro. intros x Hx. apply orb_false_iff. split; apply Z.eqb_neq.
      - apply (wf_mseq s W) in Hx. lia.
      - eapply map_by_key_none; eauto. }
    destruct (fl_get (flood s) metric) as [[t cnt]|];
    repeat match goal with |- context [if ?x then _ else _] => destruct x end; simpl; auto;
    unfold apply_create_map; simpl; rewrite E32, Hex; unfold tables, set_maps; simpl; rewrite (Z.max_r (mseq s) (mseq s + 1)) by lia; reflexivity.
  - (* deleteMappings *)
    unfold del. remember (filter (fun p => mem_z (fst p) ids) (maps s)) as pres eqn:Hp.
    destruct pres as [|a t]; [reflexivity|]. rewrite Hp. cbn [snd fst replay apply_event].
    unfold apply_del, tables, set_maps. cbn [ents eseq hist maps mseq flood last_created]. f_equal. f_equal.
    apply filter_ext_in. intros x Hx. f_equal.
    destruct (mem_z (fst x) ids) eqn:E.
    + apply mem_z_in. apply in_map. apply filter_In. auto.
    + destruct (mem_z (fst x) (map fst (filter (fun p => mem_z (fst p) ids) (maps s)))) eqn:E2; auto.
      apply mem_z_in, in_map_iff in E2. destruct E2 as [y [Ey Hy]]. apply filter_In in Hy. destruct Hy as [_ Hy]. rewrite Ey in Hy. congruence.
  - (* ResetFlood *)
    simpl in Hsafe. unfold reset. rewrite Hsafe. destruct (limit <=? 0); simpl; reflexivity.
  - (* a refused append leaves every table as it was and logs nothing *)
    destruct f; simpl; try reflexivity. destruct (fst (fst (goc c s metric key now))); reflexivity.
Qed.

Lemma tables_idem s : tables (tables s) = tables s.
Proof. reflexivity. Qed.

(* the replay theorem: from the tables of ANY well-formed state (empty database, or any snapshot) *)
Lemma replay_from v c ops : forall s, wf s -> safe_hist v c s ops ->
  replay v (tables s) (events v c s ops) = Some (tables (run v c s ops)).
Proof.
  induction ops as [|o t IH]; simpl; intros s W Hs; auto.
  destruct Hs as [Ho Ht]. rewrite replay_app, (replay_step v c s o W Ho).
  apply IH; auto. apply wf_step; auto.
Qed.

Lemma safe_hist_repaired c ops : forall s,
  (forall s', mseq s' + 1 < two31) -> safe_hist repaired c s ops.
Proof. induction ops as [|o t IH]; simpl; auto. intros s H. split; auto. destruct o; simpl; auto. Qed.

(* refutations for the code as it is *)
Definition rename_witness : list op := [OSave 0 1 0 0 0 true 0 0 0 10; OSave 0 2 1 1 0 false 0 0 0 11].
Lemma replay_refuted_rename :
  exists c ops s', replay faithful empty (events faithful c empty ops) = Some s' /\
    ents (run faithful c empty ops) = [R 1 (0, 2) 0 2 11 0 0 0] /\ ents s' = [R 1 (0, 1) 0 1 10 0 0 0].
Proof. exists (Cfg 3 60 1 0), rename_witness. eexists. vm_compute. repeat split; reflexivity. Qed.
Lemma replay_refuted_resetflood :
  exists c ops s', replay faithful empty (events faithful c empty ops) = Some s' /\
    flood (run faithful c empty ops) = [(1, (61, 2))] /\ flood s' = [].
Proof. exists (Cfg 3 60 1 0), [OReset 1 2 61]. eexists. vm_compute. repeat split; reflexivity. Qed.
(* a rename followed by re-creating the old name makes the replay fail altogether *)
Lemma replay_refuted_rename_fails :
  exists c ops, replay faithful empty (events faithful c empty ops) = None /\
    results faithful c empty ops = [RSave EOk 1 1 0; RSave EOk 1 2 0; RSave EOk 2 3 0].
Proof. exists (Cfg 3 60 1 0), (rename_witness ++ [OSave 0 1 0 0 0 true 0 0 0 12]). vm_compute. split; reflexivity. Qed.

Lemma safe_op_repaired s o : (forall m k now, o = OGoc m k now -> mseq s + 1 < two31) -> safe_op repaired s o.
Proof. intros H. destruct o; simpl; auto. eapply H; reflexivity. Qed.

Lemma replay_from_snapshot v c ops1 ops2 :
  let s1 := run v c empty ops1 in
  safe_hist v c s1 ops2 ->
  replay v (tables s1) (events v c s1 ops2) = Some (tables (run v c empty (ops1 ++ ops2))).
Proof.
  intros s1 Hs.
  assert (E : run v c empty (ops1 ++ ops2) = run v c s1 ops2).
  { unfold s1, run. apply fold_left_app. }
  rewrite E. apply replay_from; auto. apply wf_run. apply wf_empty.
Qed.
