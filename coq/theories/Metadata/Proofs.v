(* C15: lemmas about SaveEntity, the well-formedness invariant of the entity tables, and the journal. *)
From Coq Require Import ZArith List Bool Lia Sorting.Sorted Sorting.Permutation.
From SH Require Import Common.Wrap Metadata.Model.
Import ListNotations.
Open Scope Z_scope.

Lemma name_eqb_eq a b : name_eqb a b = true <-> a = b.
Proof.
  destruct a, b; unfold name_eqb; simpl. rewrite andb_true_iff, !Z.eqb_eq. split; [intros [-> ->]; auto | intros H; inversion H; auto].
Qed.
Lemma name_eqb_refl a : name_eqb a a = true.
Proof. apply name_eqb_eq; auto. Qed.

(* ---- max_ver ---- *)
Lemma max_ver_nonneg es : 0 <= max_ver es.
Proof. induction es; simpl; lia. Qed.
Lemma max_ver_ge es r : In r es -> r_ver r <= max_ver es.
Proof. induction es; simpl; [tauto|]. intros [->|H]; [lia|]. specialize (IHes H). lia. Qed.
Lemma max_ver_app es r : max_ver (es ++ [r]) = Z.max (max_ver es) (r_ver r).
Proof. induction es; simpl; [pose proof (Z.max_comm 0 (r_ver r)); lia|]. rewrite IHes. lia. Qed.
Lemma max_ver_is es M : 0 <= M -> (forall r, In r es -> r_ver r <= M) -> (exists r, In r es /\ r_ver r = M) -> max_ver es = M.
Proof.
  intros HM Hle [r [Hin Hr]]. pose proof (max_ver_ge es r Hin).
  assert (max_ver es <= M). { clear - HM Hle. induction es; simpl; [lia|]. assert (r_ver a <= M) by (apply Hle; simpl; auto). assert (max_ver es <= M) by (apply IHes; intros; apply Hle; simpl; auto). lia. }
  lia.
Qed.

(* ---- find ---- *)
Lemma find_id_ver_some es id v r : find_id_ver es id v = Some r -> In r es /\ r_id r = id /\ r_ver r = v.
Proof. unfold find_id_ver. intros H. apply find_some in H. destruct H as [Hin H]. apply andb_true_iff in H. rewrite !Z.eqb_eq in H. tauto. Qed.
Lemma find_id_none es id : find_id es id = None -> forall r, In r es -> r_id r <> id.
Proof. unfold find_id. intros H r Hin E. pose proof (find_none _ _ H r Hin) as H1. simpl in H1. apply Z.eqb_neq in H1. auto. Qed.
Lemma find_id_some es id r : find_id es id = Some r -> In r es /\ r_id r = id.
Proof. unfold find_id. intros H. apply find_some in H. rewrite Z.eqb_eq in H. auto. Qed.

(* ---- upd_row ---- *)
Lemma in_upd_row es id r' x : In x (upd_row es id r') -> x = r' \/ (In x es /\ r_id x <> id).
Proof.
  unfold upd_row. rewrite in_map_iff. intros [y [E Hin]]. destruct (r_id y =? id) eqn:Hy; [left; auto|right]. subst. apply Z.eqb_neq in Hy. auto.
Qed.
Lemma upd_row_ids es id r' : r_id r' = id -> map r_id (upd_row es id r') = map r_id es.
Proof. intros E. unfold upd_row. rewrite map_map. apply map_ext_in. intros a _. destruct (r_id a =? id) eqn:H; auto. apply Z.eqb_eq in H. congruence. Qed.
Lemma upd_row_none es id r' : (forall r, In r es -> r_id r <> id) -> upd_row es id r' = es.
Proof.
  intros H. unfold upd_row. rewrite <- (map_id es) at 2. apply map_ext_in. intros a Ha. destruct (r_id a =? id) eqn:E; auto. apply Z.eqb_eq in E. exfalso. eapply H; eauto.
Qed.
Lemma upd_row_has es id r' r : In r es -> r_id r = id -> In r' (upd_row es id r').
Proof. intros Hin E. unfold upd_row. apply in_map_iff. exists r. split; auto. rewrite E, Z.eqb_refl. auto. Qed.

Lemma nodup_vers_upd es id r' :
  NoDup (map r_id es) -> NoDup (map r_ver es) -> (forall r, In r es -> r_ver r < r_ver r') ->
  NoDup (map r_ver (upd_row es id r')).
Proof.
  induction es as [|a t IH]; simpl; intros Hid Hv Hlt; [constructor|].
  inversion Hid; subst. inversion Hv; subst.
  destruct (r_id a =? id) eqn:Ea.
  - apply Z.eqb_eq in Ea. fold (upd_row t id r').
    rewrite upd_row_none.
    + constructor; auto. intros Hin. apply in_map_iff in Hin. destruct Hin as [x [Ex Hx]].
      assert (r_ver x < r_ver r') by (apply Hlt; auto). lia.
    + intros r Hr E. apply H1. rewrite Ea, <- E. apply in_map; auto.
  - fold (upd_row t id r'). constructor.
    + intros Hin. apply in_map_iff in Hin. destruct Hin as [x [Ex Hx]]. apply in_upd_row in Hx.
      destruct Hx as [->|[Hx Hne]].
      * assert (r_ver a < r_ver r') by (apply Hlt; auto). lia.
      * apply H3. rewrite <- Ex. apply in_map; auto.
    + apply IH; auto.
Qed.

(* ---- SaveEntity: what a successful call did ---- *)
Definition create_eff (s : st) (id : Z) (create : bool) : bool :=
  if id <? 0 then negb (match find_id (ents s) id with Some _ => true | None => false end) else create.
Definition create_chk (v : variant) (s : st) (id : Z) (create : bool) : bool :=
  if fx_ns_type v then create_eff s id create else create.

Ltac crunch H :=
  repeat match type of H with
  | context [match ?x with _ => _ end] => destruct x eqn:?; try discriminate
  | context [if ?x then _ else _] => destruct x eqn:?; try discriminate
  end.

Lemma save_ok_inv v s nm id oldv data create del typ meta now r s' evs :
  save v s nm id oldv data create del typ meta now = (EOk, r, s', evs) ->
  let newv := max_ver (ents s) + 1 in
  exists nsid, resolve_ns (ents s) nm typ = (EOk, nsid) /\ newv <> oldv /\
    existsb (fun h => h_ver h =? newv) (hist s) = false /\
    (typ = T_NS -> check_namespace (ents s) nm id oldv (create_chk v s id create) = EOk) /\
    (create_chk v s id create = true -> check_create (ents s) nm typ = EOk) /\
    ((exists r0, create_eff s id create = false /\ find_id_ver (ents s) id oldv = Some r0 /\
        uniq_conflict (ents s) id nsid (r_typ r0) nm = false /\
        (fx_ns_type v = true -> r_typ r0 = typ) /\
        r = R id nm nsid newv now del data typ /\
        s' = set_ents s (upd_row (ents s) id (R id nm nsid newv now del data (r_typ r0))) (eseq s) (hist s ++ [H r meta]) /\
        evs = [EvEdit (H r meta) oldv])
     \/
     (exists newid, create_eff s id create = true /\
        ((0 <= id /\ newid = eseq s + 1) \/ (id < 0 /\ newid = id /\ find_id (ents s) id = None)) /\
        uniq_conflict (ents s) newid nsid typ nm = false /\
        r = R newid nm nsid newv now del data typ /\
        s' = set_ents s (ents s ++ [r]) (Z.max (eseq s) newid) (hist s ++ [H r meta]) /\
        evs = [EvCreate (H r meta)])).
Proof.
  unfold save, create_chk, create_eff. cbv zeta. intros H.
  destruct (resolve_ns (ents s) nm typ) as [e0 nsid] eqn:Hres.
  exists nsid.
  crunch H; inversion H; subst; clear H.
  - split; [reflexivity|]. split; [apply Z.eqb_neq; auto|]. split; [reflexivity|].
    split. { intros ->. rewrite Z.eqb_refl in Heqe. exact Heqe. }
    split. { intros Hc. rewrite Hc in Heqe1. exact Heqe1. }
    left. exists r0. split. { apply negb_true_iff in Heqb. exact Heqb. }
    split; [reflexivity|]. split; [auto|].
    split. { intros Hf. rewrite Hf in Heqb0. simpl in Heqb0. apply negb_false_iff, Z.eqb_eq in Heqb0. auto. }
    repeat split.
  - split; [reflexivity|]. split; [apply Z.eqb_neq; auto|]. split; [reflexivity|].
    split. { intros ->. rewrite Z.eqb_refl in Heqe. exact Heqe. }
    split. { intros Hc. rewrite Hc in Heqe1. exact Heqe1. }
    right. exists id. apply negb_false_iff in Heqb. apply Z.ltb_lt in Heqb3.
    split; [exact Heqb|]. split.
    { right. repeat split; auto. destruct (find_id (ents s) id); [discriminate|auto]. }
    repeat split; auto.
  - split; [reflexivity|]. split; [apply Z.eqb_neq; auto|]. split; [reflexivity|].
    split. { intros ->. rewrite Z.eqb_refl in Heqe. exact Heqe. }
    split. { intros Hc. rewrite Hc in Heqe1. exact Heqe1. }
    right. exists (eseq s + 1). apply negb_false_iff in Heqb. apply Z.ltb_ge in Heqb3.
    split; [exact Heqb|]. split.
    { left. split; auto. }
    repeat split; auto.
Qed.

Lemma save_fail v s nm id oldv data create del typ meta now e r s' evs :
  save v s nm id oldv data create del typ meta now = (e, r, s', evs) -> e <> EOk -> s' = s /\ evs = [].
Proof. unfold save. cbv zeta. intros H Hne. crunch H; inversion H; subst; auto; congruence. Qed.

Lemma uniq_conflict_false es self ns typ nm :
  uniq_conflict es self ns typ nm = false ->
  forall r, In r es -> r_id r <> self -> ~ (r_ns r = ns /\ r_typ r = typ /\ r_name r = nm).
Proof.
  unfold uniq_conflict. intros H r Hin Hne [E1 [E2 E3]].
  assert (existsb (fun r => negb (r_id r =? self) && (r_ns r =? ns) && (r_typ r =? typ) && name_eqb (r_name r) nm) es = true).
  { apply existsb_exists. exists r. split; auto. subst. rewrite !Z.eqb_refl, name_eqb_refl. apply Z.eqb_neq in Hne. rewrite Hne. reflexivity. }
  congruence.
Qed.

Lemma nodup_snoc {A} (l : list A) x : NoDup l -> ~ In x l -> NoDup (l ++ [x]).
Proof. intros. apply (Permutation_NoDup (l := x :: l)); [apply Permutation_cons_append|constructor; auto]. Qed.
Lemma nodup_snoc_inv {A} (l : list A) x : NoDup (l ++ [x]) -> NoDup l /\ ~ In x l.
Proof. intros H. apply (Permutation_NoDup (l' := x :: l)) in H; [inversion H; auto|apply Permutation_sym, Permutation_cons_append]. Qed.

(* the invariant of every reachable state *)
Record wf (s : st) : Prop := {
  wf_ids : NoDup (map r_id (ents s));
  wf_vers : NoDup (map r_ver (ents s));
  wf_seq : forall r, In r (ents s) -> r_id r <= eseq s;
  wf_seq0 : 0 <= eseq s;
  wf_names : forall r1 r2, In r1 (ents s) -> In r2 (ents s) ->
             r_ns r1 = r_ns r2 -> r_typ r1 = r_typ r2 -> r_name r1 = r_name r2 -> r_id r1 = r_id r2;
  wf_hist : forall h, In h (hist s) -> h_ver h <= max_ver (ents s);
  wf_mids : NoDup (map fst (maps s));
  wf_mkeys : NoDup (map snd (maps s));
  wf_mseq : forall p, In p (maps s) -> fst p <= mseq s;
  wf_mseq0 : 0 <= mseq s
}.

Lemma wf_empty : wf empty.
Proof. constructor; simpl; try constructor; try tauto; lia. Qed.

Lemma wf_row_unique s r1 r2 : wf s -> In r1 (ents s) -> In r2 (ents s) -> r_id r1 = r_id r2 -> r1 = r2.
Proof.
  intros W. pose proof (wf_ids s W) as N. revert N. generalize (ents s). induction l as [|a t IH]; simpl; [tauto|].
  intros N H1 H2 E. inversion N; subst.
  destruct H1 as [->|H1], H2 as [->|H2]; auto.
  - exfalso. apply H3. rewrite E. apply in_map; auto.
  - exfalso. apply H3. rewrite <- E. apply in_map; auto.
Qed.

Lemma wf_save v s nm id oldv data create del typ meta now r s' evs :
  wf s -> save v s nm id oldv data create del typ meta now = (EOk, r, s', evs) -> wf s'.
Proof.
  intros W H. apply save_ok_inv in H. cbv zeta in H.
  destruct H as [nsid [Hres [Hnv [Hh [_ [_ [[r0 [Hce [Hf [Hu [_ [Er [Es Ee]]]]]]]|[newid [Hce [Hid [Hu [Er [Es Ee]]]]]]]]]]]]].
  - apply find_id_ver_some in Hf. destruct Hf as [Hin0 [Eid0 Ev0]].
    set (newv := max_ver (ents s) + 1) in *.
    set (r' := R id nm nsid newv now del data (r_typ r0)) in *.
    assert (Hlt : forall x, In x (ents s) -> r_ver x < r_ver r').
    { intros x Hx. apply max_ver_ge in Hx. simpl. unfold newv. lia. }
    assert (Hmax : max_ver (upd_row (ents s) id r') = newv).
    { apply max_ver_is. - pose proof (max_ver_nonneg (ents s)). unfold newv. lia.
      - intros x Hx. apply in_upd_row in Hx. destruct Hx as [->|[Hx _]]; [simpl; lia|]. apply Hlt in Hx. simpl in Hx. lia.
      - exists r'. split; [eapply upd_row_has; eauto|reflexivity]. }
    subst s'. constructor; simpl; try apply W.
    + rewrite upd_row_ids by reflexivity. apply W.
    + apply nodup_vers_upd; auto; apply W.
    + intros x Hx. apply in_upd_row in Hx. destruct Hx as [->|[Hx _]]; [simpl; rewrite <- Eid0; apply W; auto|apply W; auto].
    + intros x1 x2 H1 H2 E1 E2 E3. apply in_upd_row in H1. apply in_upd_row in H2.
      destruct H1 as [->|[H1 N1]], H2 as [->|[H2 N2]]; auto.
      * exfalso. eapply (uniq_conflict_false _ _ _ _ _ Hu x2 H2 N2). simpl in *. auto.
      * exfalso. eapply (uniq_conflict_false _ _ _ _ _ Hu x1 H1 N1). simpl in *. auto.
      * eapply (wf_names s W); eauto.
    + intros h Hin. rewrite Hmax. apply in_app_or in Hin. destruct Hin as [Hin|[<-|[]]].
      * apply (wf_hist s W) in Hin. unfold newv. lia.
      * subst r. unfold h_ver. simpl. lia.
  - set (newv := max_ver (ents s) + 1) in *.
    assert (Hnew : forall x, In x (ents s) -> r_id x <> newid).
    { destruct Hid as [[Hpos ->]|[Hneg [-> Hnone]]].
      - intros x Hx. apply (wf_seq s W) in Hx. lia.
      - apply find_id_none; auto. }
    subst s'. constructor; simpl; try apply W.
    + rewrite map_app. simpl. apply nodup_snoc; [apply W|]. intros Hin. apply in_map_iff in Hin. destruct Hin as [x [Ex Hx]]. subst r. simpl in Ex. eapply Hnew; eauto.
    + rewrite map_app. simpl. apply nodup_snoc; [apply W|]. intros Hin. apply in_map_iff in Hin. destruct Hin as [x [Ex Hx]]. subst r. simpl in Ex. apply max_ver_ge in Hx. unfold newv in Ex. lia.
    + intros x Hx. apply in_app_or in Hx. destruct Hx as [Hx|[<-|[]]].
      * apply (wf_seq s W) in Hx. lia.
      * subst r. simpl. lia.
    + pose proof (wf_seq0 s W). lia.
    + intros x1 x2 H1 H2 E1 E2 E3. apply in_app_or in H1. apply in_app_or in H2.
      destruct H1 as [H1|[<-|[]]], H2 as [H2|[<-|[]]]; auto.
      * eapply (wf_names s W); eauto.
      * exfalso. subst r. simpl in *. eapply (uniq_conflict_false _ _ _ _ _ Hu x1 H1); auto.
      * exfalso. subst r. simpl in *. eapply (uniq_conflict_false _ _ _ _ _ Hu x2 H2); auto.
    + intros h Hin. rewrite max_ver_app. apply in_app_or in Hin. destruct Hin as [Hin|[<-|[]]].
      * apply (wf_hist s W) in Hin. lia.
      * subst r. unfold h_ver. simpl. lia.
Qed.

(* ---- mappings part of the invariant ---- *)
Definition wfm (m : list (Z * Z)) (q : Z) : Prop :=
  NoDup (map fst m) /\ NoDup (map snd m) /\ (forall p, In p m -> fst p <= q) /\ 0 <= q.

Lemma nodup_map_filter {A B} (g : A -> B) (f : A -> bool) l : NoDup (map g l) -> NoDup (map g (filter f l)).
Proof.
  induction l as [|a t IH]; simpl; intros H; [constructor|]. inversion H; subst.
  destruct (f a); simpl; auto. constructor; auto. intros Hin. apply H2. apply in_map_iff in Hin. destruct Hin as [x [E Hx]]. apply filter_In in Hx. rewrite <- E. apply in_map. tauto.
Qed.

Lemma wfm_put1 m q kv : wfm m q -> wfm (put1 m kv) (Z.max q (snd kv)).
Proof.
  intros [N1 [N2 [Hle H0]]]. unfold put1. repeat split.
  - rewrite map_app. simpl. apply nodup_snoc; [apply nodup_map_filter; auto|].
    intros Hin. apply in_map_iff in Hin. destruct Hin as [x [E Hx]]. apply filter_In in Hx. destruct Hx as [_ Hx].
    rewrite E, Z.eqb_refl in Hx. discriminate.
  - rewrite map_app. simpl. apply nodup_snoc; [apply nodup_map_filter; auto|].
    intros Hin. apply in_map_iff in Hin. destruct Hin as [x [E Hx]]. apply filter_In in Hx. destruct Hx as [_ Hx].
    rewrite E, Z.eqb_refl, orb_true_r in Hx. discriminate.
  - intros p Hin. apply in_app_or in Hin. destruct Hin as [Hin|[<-|[]]].
    + apply filter_In in Hin. destruct Hin as [Hin _]. apply Hle in Hin. lia.
    + simpl. lia.
  - lia.
Qed.

Lemma wfm_put kvs : forall m q, wfm m q -> wfm (fold_left put1 kvs m) (fold_left (fun q kv => Z.max q (snd kv)) kvs q).
Proof. induction kvs as [|kv t IH]; simpl; intros; auto. apply IH. apply wfm_put1; auto. Qed.

Lemma wfm_filter f m q : wfm m q -> wfm (filter f m) q.
Proof.
  intros [N1 [N2 [Hle H0]]]. repeat split; auto using nodup_map_filter.
  intros p Hin. apply filter_In in Hin. apply Hle; tauto.
Qed.

Lemma map_by_key_none m k : map_by_key m k = None -> forall p, In p m -> snd p <> k.
Proof.
  unfold map_by_key. destruct (find _ m) eqn:F; [discriminate|]. intros _ p Hin E.
  pose proof (find_none _ _ F p Hin) as H. simpl in H. apply Z.eqb_neq in H. auto.
Qed.

Lemma wfm_snoc m q k : wfm m q -> map_by_key m k = None -> wfm (m ++ [(q + 1, k)]) (q + 1).
Proof.
  intros [N1 [N2 [Hle H0]]] Hk. repeat split.
  - rewrite map_app. simpl. apply nodup_snoc; auto. intros Hin. apply in_map_iff in Hin. destruct Hin as [x [E Hx]]. apply Hle in Hx. lia.
  - rewrite map_app. simpl. apply nodup_snoc; auto. intros Hin. apply in_map_iff in Hin. destruct Hin as [x [E Hx]]. eapply map_by_key_none; eauto.
  - intros p Hin. apply in_app_or in Hin. destruct Hin as [Hin|[<-|[]]]; [apply Hle in Hin; lia|simpl; lia].
  - lia.
Qed.

Lemma wf_of_wfm s m q f lc : wf s -> wfm m q -> wf (set_maps s m q f lc).
Proof. intros W [N1 [N2 [Hle H0]]]. constructor; simpl; auto; apply W. Qed.
Lemma wfm_of_wf s : wf s -> wfm (maps s) (mseq s).
Proof. intros W. repeat split; apply W. Qed.

Lemma wf_step v c s o : wf s -> wf (step_st v c s o).
Proof.
  intros W. unfold step_st. destruct o; simpl; auto.
  - destruct (save v s (p, l) id oldv data create del typ meta now) as [[[e r] s'] evs] eqn:Hs. simpl.
    destruct e; try (apply save_fail in Hs; [destruct Hs as [-> _]; auto|congruence]).
    eapply wf_save; eauto.
  - unfold goc. destruct (map_by_key (maps s) key) eqn:Hk; simpl; auto.
    destruct (fl_get (flood s) metric) as [[t cnt]|];
    repeat match goal with |- context [if ?x then _ else _] => destruct x end; simpl; auto;
    apply wf_of_wfm; auto; apply wfm_snoc; auto using wfm_of_wf.
  - unfold put. apply wf_of_wfm; auto. apply wfm_put. apply wfm_of_wf; auto.
  - unfold del. destruct (filter (fun p => mem_z (fst p) ids) (maps s)); simpl; auto.
    apply wf_of_wfm; auto. apply wfm_filter. apply wfm_of_wf; auto.
  - unfold reset. destruct (limit <=? 0); simpl; apply wf_of_wfm; auto using wfm_of_wf.
  - constructor; simpl; apply W.
  - destruct f; simpl; auto. destruct (fst (fst (goc c s metric key now))); auto; constructor; simpl; apply W.
Qed.

Lemma wf_run v c ops : forall s, wf s -> wf (run v c s ops).
Proof. unfold run. induction ops; simpl; auto. intros. apply IHops. apply wf_step; auto. Qed.
