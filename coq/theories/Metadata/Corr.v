(* Correspondence cases for C15/C19/C16: one case = one whole history executed by the real metadata.DBV2
   (SQLite + fsbinlog), every result, the final content of every table, and the tables found after reopening
   from the binlog into a fresh database file and into a copy of the file taken at [snap_at]. *)
From Coq Require Import ZArith List Bool.
From SH Require Import Common.Wrap Common.Corr Metadata.Model Metadata.JournalModel.
Import ListNotations.
Open Scope Z_scope.

Fixpoint list_eqb {A} (e : A -> A -> bool) (a b : list A) : bool :=
  match a, b with
  | [], [] => true
  | x :: a', y :: b' => e x y && list_eqb e a' b'
  | _, _ => false
  end.
Definition opt_eqb {A} (e : A -> A -> bool) (a b : option A) : bool :=
  match a, b with Some x, Some y => e x y | None, None => true | _, _ => false end.
(* equality of duplicate-free tables printed in another row order *)
Definition set_eqb {A} (e : A -> A -> bool) (a b : list A) : bool :=
  (Nat.eqb (length a) (length b)) && forallb (fun x => existsb (e x) b) a.

Definition row_eqb (a b : row) : bool :=
  (r_id a =? r_id b) && name_eqb (r_name a) (r_name b) && (r_ns a =? r_ns b) && (r_ver a =? r_ver b) &&
  (r_upd a =? r_upd b) && (r_del a =? r_del b) && (r_data a =? r_data b) && (r_typ a =? r_typ b).
Definition hrow_eqb (a b : hrow) : bool := row_eqb (h_row a) (h_row b) && (h_meta a =? h_meta b).
Definition pair_eqb (a b : Z * Z) : bool := (fst a =? fst b) && (snd a =? snd b).
Definition flood_eqb (a b : Z * (Z * Z)) : bool := (fst a =? fst b) && pair_eqb (snd a) (snd b).
Definition err_eqb (a b : err) : bool :=
  match a, b with
  | EOk, EOk | EVersion, EVersion | EExists, EExists | ENoNs, ENoNs | ERenameNs, ERenameNs
  | EConstraint, EConstraint | EOther, EOther => true
  | _, _ => false
  end.
Definition goc_eqb (a b : goc_res) : bool :=
  match a, b with
  | GFound x, GFound y | GCreated x, GCreated y => x =? y
  | GFlood, GFlood => true
  | _, _ => false
  end.
Definition res_eqb (a b : res) : bool :=
  match a, b with
  | RSave e i v n, RSave e' i' v' n' => err_eqb e e' && (i =? i') && (v =? v') && (n =? n')
  | RGoc g, RGoc g' => goc_eqb g g'
  | RUnit, RUnit => true
  | RCount n, RCount n' => n =? n'
  | RReset b a, RReset b' a' => (b =? b') && (a =? a')
  | RJournal l, RJournal l' => list_eqb row_eqb l l'
  | RHist l, RHist l' => list_eqb pair_eqb l l'
  | RGetVer o, RGetVer o' => opt_eqb hrow_eqb o o'
  | ROptZ o, ROptZ o' => opt_eqb Z.eqb o o'
  | RNewMaps l m, RNewMaps l' m' => list_eqb pair_eqb l l' && (m =? m')
  | _, _ => false
  end.

(* Table contents and list-valued answers are compared through a hash of their canonical flattening (rows sorted
   by key): printing them in full makes coqc spend seconds per case on elaborating numerals. The hash is a
   polynomial hash modulo 2^31-1, computed identically by the harness (collision probability ~2^-31 per comparison). *)
Definition hmod := 2147483647.
Definition hmul := 1000003.
Definition hash (l : list Z) : Z := fold_left (fun a x => (a * hmul + x) mod hmod) l 7.

Definition flat_row (r : row) : list Z :=
  [r_id r; fst (r_name r); snd (r_name r); r_ns r; r_ver r; r_upd r; r_del r; r_data r; r_typ r].
Definition flat_hrow (h : hrow) : list Z := flat_row (h_row h) ++ [h_meta h].
Definition flat_pair (p : Z * Z) : list Z := [fst p; snd p].
Definition flat_list {A} (f : A -> list Z) (l : list A) : list Z := Z.of_nat (length l) :: flat_map f l.
Definition flat_dump (s : st) : list Z :=
  flat_list flat_row (sort_by r_id (ents s)) ++ [eseq s] ++
  flat_list flat_hrow (sort_by h_ver (hist s)) ++
  flat_list flat_pair (sort_by fst (maps s)) ++ [mseq s] ++
  flat_list (fun f => [fst f; fst (snd f); snd (snd f)]) (flood s).
Definition hdump (s : st) : Z := hash (flat_dump s).

(* what the harness prints for one result *)
Inductive obs :=
| XSave (e id ver ns : Z)      (* error class 0..6 *)
| XGoc (kind id : Z)           (* 0 found, 1 created, 2 flood-limit error *)
| XU
| XN (n : Z)
| XReset (b a : Z)
| XH (n h : Z)                 (* a list-valued answer: number of rows and hash *)
| XOpt (o : option Z)
| XFail
| XErr.

Definition err_code (e : err) : Z :=
  match e with EOk => 0 | EVersion => 1 | EExists => 2 | ENoNs => 3 | ERenameNs => 4 | EConstraint => 5 | EOther => 6 end.
Definition obs_of (r : res) : obs :=
  match r with
  | RSave e i v n => XSave (err_code e) i v n
  | RGoc (GFound i) => XGoc 0 i
  | RGoc (GCreated i) => XGoc 1 i
  | RGoc GFlood => XGoc 2 0
  | RUnit => XU
  | RCount n => XN n
  | RReset b a => XReset b a
  | RJournal l => XH (Z.of_nat (length l)) (hash (flat_map flat_row l))
  | RHist l => XH (Z.of_nat (length l)) (hash (flat_map flat_pair l))
  | RGetVer None => XH 0 0
  | RGetVer (Some h) => XH 1 (hash (flat_hrow h))
  | ROptZ o => XOpt o
  | RNewMaps l m => XH (Z.of_nat (length l)) (hash (flat_map flat_pair l ++ [m]))
  | RFail => XFail
  | RErr => XErr
  end.
Definition obs_eqb (a b : obs) : bool :=
  match a, b with
  | XSave e i v n, XSave e' i' v' n' => (e =? e') && (i =? i') && (v =? v') && (n =? n')
  | XGoc k i, XGoc k' i' => (k =? k') && (i =? i')
  | XU, XU => true
  | XN n, XN n' => n =? n'
  | XReset b a, XReset b' a' => (b =? b') && (a =? a')
  | XH n h, XH n' h' => (n =? n') && (h =? h')
  | XOpt o, XOpt o' => opt_eqb Z.eqb o o'
  | XFail, XFail => true
  | _, _ => false
  end.
Definition ohash_eqb (s : option st) (h : option Z) : bool :=
  match s, h with Some s, Some h => hdump s =? h | None, None => true | _, _ => false end.

(* journal long-poll cases: per step the edit's result, the deliveries (client, number of events, hash of the
   events, CurrentVersion) sorted by client, "registered as waiting", or an RPC edit that failed (any class) *)
Inductive jobs := JOb (o : obs) | JDel (d : list (Z * Z * Z * Z)) | JWt | JBs | JEr.
Definition jobs_of (r : jres) : jobs :=
  match r with
  | JR x => JOb (obs_of x)
  | JDeliver d => JDel (map (fun x => let '(i, evs, cur) := x in (Z.of_nat i, Z.of_nat (length evs), hash (flat_map flat_row evs), cur)) d)
  | JWait => JWt
  | JBusy => JBs
  end.
Definition quad_eqb (a b : Z * Z * Z * Z) : bool :=
  let '(a1, a2, a3, a4) := a in let '(b1, b2, b3, b4) := b in (a1 =? b1) && (a2 =? b2) && (a3 =? b3) && (a4 =? b4).
Definition jobs_eqb (a b : jobs) : bool :=
  match a, b with
  | JOb x, JOb y => obs_eqb x y
  | JOb (XSave e _ _ _), JEr => negb (e =? 0)
  | JDel x, JDel y => list_eqb quad_eqb x y
  | JWt, JWt | JBs, JBs => true
  | _, _ => false
  end.

Inductive case :=
| CHist (c : cfg) (ops : list op) (rs : list obs) (final : Z) (snap_at : nat) (fresh snap : option Z)
| CJournal (c : cfg) (froms : list Z) (jops : list jop) (rs : list jobs).

Definition ok_with (v : variant) (cs : case) : bool :=
  match cs with
  | CHist c ops rs final snap_at fresh snap =>
      let s := run v c empty ops in
      let s1 := run v c empty (firstn snap_at ops) in
      list_eqb obs_eqb (map obs_of (results v c empty ops)) rs &&
      (hdump s =? final) &&
      ohash_eqb (replay v empty (events v c empty ops)) fresh &&
      ohash_eqb (replay v (tables s1) (events v c s1 (skipn snap_at ops))) snap
  | CJournal c froms jops rs =>
      list_eqb jobs_eqb (map jobs_of (fst (jrun v c (empty, map new_client froms) jops))) rs
  end.

(* the tree as it is now ([current]) first, then the pinned code, then every combination of repaired findings (so that a later fix of any subset of
   them in the repository is not reported as a model mismatch) *)
Definition variants : list variant :=
  current :: faithful :: flat_map (fun a => flat_map (fun b => flat_map (fun c => map (fun d => Var a b c d) [false; true]) [false; true]) [false; true]) [false; true].
Fixpoint any_variant (l : list variant) (cs : case) : bool :=
  match l with [] => false | v :: t => if ok_with v cs then true else any_variant t cs end.
Definition ok (cs : case) : bool := any_variant variants cs.
Definition mism := mismatches ok.

