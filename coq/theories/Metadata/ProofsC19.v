(* C19: tag mappings and flood limits. *)
From Coq Require Import ZArith List Bool Lia.
From SH Require Import Common.Wrap Metadata.Model Metadata.Proofs.
Import ListNotations.
Open Scope Z_scope.

Lemma nodup_map_inj {A B} (f : A -> B) l a b : NoDup (map f l) -> In a l -> In b l -> f a = f b -> a = b.
Proof.
  induction l as [|x t IH]; simpl; [tauto|]. intros N H1 H2 E. inversion N; subst.
  destruct H1 as [->|H1], H2 as [->|H2]; auto.
  - exfalso. apply H3. rewrite E. apply in_map; auto.
  - exfalso. apply H3. rewrite <- E. apply in_map; auto.
Qed.

Lemma mapping_injective_both_ways v c ops :
  let s := run v c empty ops in
  NoDup (map fst (maps s)) /\ NoDup (map snd (maps s)) /\
  (forall id k1 k2, In (id, k1) (maps s) -> In (id, k2) (maps s) -> k1 = k2) /\
  (forall k id1 id2, In (id1, k) (maps s) -> In (id2, k) (maps s) -> id1 = id2).
Proof.
  intros s. pose proof (wf_run v c ops empty wf_empty) as W. fold s in W.
  pose proof (wf_mids s W) as N1. pose proof (wf_mkeys s W) as N2.
  split; auto. split; auto. split.
  - intros id k1 k2 H1 H2. pose proof (nodup_map_inj fst _ _ _ N1 H1 H2 eq_refl) as E. inversion E; auto.
  - intros k id1 id2 H1 H2. pose proof (nodup_map_inj snd _ _ _ N2 H1 H2 eq_refl) as E. inversion E; auto.
Qed.

Lemma map_by_key_app_some m m' k id : map_by_key m k = Some id -> map_by_key (m ++ m') k = Some id.
Proof.
  unfold map_by_key. induction m as [|a t IH]; simpl; [discriminate|].
  destruct (snd a =? k); auto.
Qed.
Lemma map_by_key_app_none m k id : map_by_key m k = None -> map_by_key (m ++ [(id, k)]) k = Some id.
Proof.
  unfold map_by_key. induction m as [|a t IH]; simpl.
  - rewrite Z.eqb_refl. reflexivity.
  - destruct (snd a =? k); [discriminate|auto].
Qed.

Definition goc_id (g : goc_res) : option Z := match g with GFound i | GCreated i => Some i | GFlood => None end.

Lemma i32_small x : - two31 <= x < two31 -> i32 x = x.
Proof.
  unfold i32, two31, two32. intros H. destruct (Z_lt_dec x 0).
  - replace (x mod 4294967296) with (x + 4294967296).
    + destruct (x + 4294967296 <? 2147483648) eqn:E; [apply Z.ltb_lt in E; lia|lia].
    + symmetry. rewrite <- (Z_mod_plus_full x 1 4294967296). apply Z.mod_small. lia.
  - rewrite Z.mod_small by lia. destruct (x <? 2147483648) eqn:E; [auto|apply Z.ltb_ge in E; lia].
Qed.

Lemma i32_idem x : i32 (i32 x) = i32 x.
Proof. apply i32_small. apply i32_range. Qed.

(* repeated get-or-create calls (any metric, any time) return the same id and change nothing *)
Lemma get_or_create_idempotent c s m k now g s' evs :
  goc c s m k now = (g, s', evs) -> forall i, goc_id g = Some i ->
  forall m2 now2, goc c s' m2 k now2 = (GFound i, s', []).
Proof.
  unfold goc. destruct (map_by_key (maps s) k) eqn:Hk.
  - intros H i Hi m2 now2. inversion H; subst. simpl in Hi. inversion Hi; subst. rewrite Hk. reflexivity.
  - destruct (fl_get (flood s) m) as [[t cnt]|];
    repeat match goal with |- context [if ?x then _ else _] => destruct x end;
    intros H i Hi m2 now2; inversion H; subst; simpl in Hi; try discriminate; inversion Hi; subst; simpl;
    rewrite (map_by_key_app_none _ _ (mseq s + 1) Hk); rewrite ?i32_idem; reflexivity.
Qed.

(* once created, a mapping does not change under any operation other than put and delete *)
Lemma mapping_stable_until_put_or_delete v c s o k id :
  (forall kvs, o <> OPut kvs) -> (forall ids, o <> ODel ids) ->
  map_by_key (maps s) k = Some id -> map_by_key (maps (step_st v c s o)) k = Some id.
Proof.
  intros Hp Hd Hk. unfold step_st. destruct o; simpl; auto; try (exfalso; eapply Hp; reflexivity); try (exfalso; eapply Hd; reflexivity).
  - destruct (save v s (p, l) id0 oldv data create del typ meta now) as [[[e r] s'] evs] eqn:Hs. simpl.
    destruct e; try (apply save_fail in Hs; [destruct Hs as [-> _]; auto|congruence]).
    apply save_ok_inv in Hs. cbv zeta in Hs.
    destruct Hs as [nsid [_ [_ [_ [_ [_ [[x0 [_ [_ [_ [_ [_ [Es _]]]]]]]|[newid [_ [_ [_ [_ [Es _]]]]]]]]]]]]]; subst s'; simpl; auto.
  - unfold goc. destruct (map_by_key (maps s) key) eqn:Hk'; simpl; auto.
    destruct (fl_get (flood s) metric) as [[t cnt]|];
    repeat match goal with |- context [if ?x then _ else _] => destruct x end; simpl; auto using map_by_key_app_some.
  - unfold reset. destruct (limit <=? 0); simpl; auto.
  - destruct f; simpl; auto. destruct (fst (fst (goc c s metric key now))); simpl; auto.
Qed.

(* AUTOINCREMENT high-water mark never decreases *)
Lemma mseq_monotone v c s o : mseq s <= mseq (step_st v c s o).
Proof.
  unfold step_st. destruct o; simpl; try lia.
  - destruct (save v s (p, l) id oldv data create del typ meta now) as [[[e r] s'] evs] eqn:Hs. simpl.
    destruct e; try (apply save_fail in Hs; [destruct Hs as [-> _]; lia|congruence]).
    apply save_ok_inv in Hs. cbv zeta in Hs.
    destruct Hs as [nsid [_ [_ [_ [_ [_ [[x0 [_ [_ [_ [_ [_ [Es _]]]]]]]|[newid [_ [_ [_ [_ [Es _]]]]]]]]]]]]]; subst s'; simpl; lia.
  - unfold goc. destruct (map_by_key (maps s) key); simpl; try lia.
    destruct (fl_get (flood s) metric) as [[t cnt]|];
    repeat match goal with |- context [if ?x then _ else _] => destruct x end; simpl; lia.
  - generalize (mseq s). induction kvs as [|kv t IH]; simpl; intros q; [lia|]. specialize (IH (Z.max q (snd kv))). lia.
  - unfold del. destruct (filter _ (maps s)); simpl; lia.
  - unfold reset. destruct (limit <=? 0); simpl; lia.
  - destruct f; simpl; try lia. destruct (fst (fst (goc c s metric key now))); simpl; lia.
Qed.
Lemma mseq_monotone_run v c ops : forall s, mseq s <= mseq (run v c s ops).
Proof. unfold run. induction ops; simpl; intros; [lia|]. pose proof (mseq_monotone v c s a). specialize (IHops (step_st v c s a)). lia. Qed.

(* deleted ids are never handed out again: an id present in any earlier state is smaller than every id created later *)
Lemma deleted_ids_never_reissued v c s1 ops p m k now i s3 evs :
  wf s1 -> In p (maps s1) ->
  let s2 := run v c s1 ops in
  mseq s2 + 1 < two31 ->
  goc c s2 m k now = (GCreated i, s3, evs) -> fst p < i /\ 0 < i.
Proof.
  intros W Hin s2 Hr H. pose proof (wf_mseq s1 W p Hin) as Hle. pose proof (wf_mseq0 s1 W) as H0.
  pose proof (mseq_monotone_run v c ops s1) as Hm. fold s2 in Hm.
  unfold goc in H. destruct (map_by_key (maps s2) k); [discriminate|].
  assert (E : i32 (mseq s2 + 1) = mseq s2 + 1) by (apply i32_small; unfold two31 in *; lia).
  destruct (fl_get (flood s2) m) as [[t cnt]|];
  repeat match type of H with context [if ?x then _ else _] => destruct x end; inversion H; subst; rewrite E; lia.
Qed.

(* ---- flood limits ---- *)
Lemma fl_get_set f k x : fl_get (fl_set f k x) k = Some x.
Proof.
  induction f as [|[k' y] t IH]; simpl; [rewrite Z.eqb_refl; auto|].
  destruct (k =? k') eqn:E; simpl; [rewrite Z.eqb_refl; auto|].
  destruct (k <? k'); simpl; [rewrite Z.eqb_refl; auto|]. rewrite Z.eqb_sym, E. auto.
Qed.

Lemma div_add_le a b c : 0 < c -> 0 <= a -> 0 <= b -> a / c + b / c <= (a + b) / c.
Proof.
  intros. apply Z.div_le_lower_bound; auto.
  pose proof (Z.mul_div_le a c H). pose proof (Z.mul_div_le b c H). lia.
Qed.

(* the flood limit is active for this call: the global bypass (lastCreatedID within the global budget) is off *)
Definition flood_active (c : cfg) (s : st) : Prop := (0 <? last_created s) && (last_created s <=? c_global c) = false.

(* one creation by a metric with a flood row lowers the potential  budget + bonus * floor((T - last)/step)  by at
   least one, for every horizon T, as long as the clock has not gone backwards past the stored time *)
Lemma flood_step c s m k now t cnt i s' evs T :
  0 < c_step c -> 0 <= c_bonus c -> flood_active c s ->
  fl_get (flood s) m = Some (t, cnt) ->
  let pred := round_time now (c_step c) in
  0 <= t <= pred -> 0 <= now < two32 -> pred <= T ->
  goc c s m k now = (GCreated i, s', evs) ->
  exists cnt', fl_get (flood s') m = Some (pred, cnt') /\ 0 <= cnt' /\
    cnt' + c_bonus c * ((T - pred) / c_step c) <= cnt + c_bonus c * ((T - t) / c_step c) - 1.
Proof.
  intros Hs Hb Ha Hf pred Ht Hn HT H. unfold goc in H. unfold flood_active in Ha.
  destruct (map_by_key (maps s) k); [discriminate|]. rewrite Hf, Ha in H. fold pred in H.
  set (b := calc_budget cnt 1 (u32 t) pred (c_max c) (c_bonus c) (c_step c)) in *.
  destruct (b <? 0) eqn:Eb; [discriminate|]. apply Z.ltb_ge in Eb. inversion H; subst. simpl.
  exists b. rewrite fl_get_set. split; auto. split; auto.
  assert (Hp : pred < two32). { unfold pred, round_time. rewrite u32_id by exact Hn. pose proof (Z.mod_pos_bound now (c_step c) Hs). lia. }
  assert (Eu : u32 t = t) by (apply u32_id; unfold is_u32; lia).
  assert (Ed : u32 (pred - t) = pred - t) by (apply u32_id; unfold is_u32; lia).
  pose proof (div_add_le (pred - t) (T - pred) (c_step c) Hs ltac:(lia) ltac:(lia)) as Hd.
  replace (pred - t + (T - pred)) with (T - t) in Hd by lia.
  assert (0 <= (T - pred) / c_step c) by (apply Z.div_pos; lia).
  assert (0 <= (pred - t) / c_step c) by (apply Z.div_pos; lia).
  unfold b, calc_budget. rewrite Eu, Ed.
  destruct (cnt >? c_max c) eqn:E1.
  - nia.
  - destruct (cnt - 1 + (pred - t) / c_step c * c_bonus c >=? c_max c) eqn:E2.
    + apply Z.geb_le in E2. nia.
    + nia.
Qed.

(* the first creation of a metric without a flood row starts it at max - 1 *)
Lemma flood_first c s m k now i s' evs :
  fl_get (flood s) m = None -> goc c s m k now = (GCreated i, s', evs) ->
  fl_get (flood s') m = Some (round_time now (c_step c), c_max c - 1).
Proof.
  intros Hf H. unfold goc in H. destruct (map_by_key (maps s) k); [discriminate|]. rewrite Hf in H.
  inversion H; subst. simpl. apply fl_get_set.
Qed.

(* a request is refused with the flood-limit error exactly when the budget computation goes negative *)
Lemma flood_error_iff c s m k now :
  map_by_key (maps s) k = None -> flood_active c s ->
  forall t cnt, fl_get (flood s) m = Some (t, cnt) ->
  (fst (fst (goc c s m k now)) = GFlood <->
   calc_budget cnt 1 (u32 t) (round_time now (c_step c)) (c_max c) (c_bonus c) (c_step c) < 0).
Proof.
  intros Hk Ha t cnt Hf. unfold goc, flood_active in *. rewrite Hk, Hf, Ha.
  destruct (calc_budget cnt 1 (u32 t) (round_time now (c_step c)) (c_max c) (c_bonus c) (c_step c) <? 0) eqn:E; simpl.
  - apply Z.ltb_lt in E. tauto.
  - apply Z.ltb_ge in E. split; [discriminate|lia].
Qed.

(* Summation over a run of creations by one metric: n successful creations at non-decreasing times need
   n <= budget + bonus * floor((T - last)/step). [creations] lists, for each creation, its time. *)
Fixpoint run_creates (c : cfg) (s : st) (m : Z) (reqs : list (Z * Z)) : option st :=
  match reqs with
  | [] => Some s
  | (k, now) :: t => match goc c s m k now with
                     | (GCreated _, s', _) => run_creates c s' m t
                     | _ => None
                     end
  end.
Fixpoint times_ok (step last T : Z) (reqs : list (Z * Z)) : Prop :=
  match reqs with
  | [] => True
  | (_, now) :: t => 0 <= now < two32 /\ last <= round_time now step /\ round_time now step <= T /\ times_ok step (round_time now step) T t
  end.

Lemma goc_created_keeps_active c s m k now i s' evs :
  goc c s m k now = (GCreated i, s', evs) -> c_global c <= 0 -> flood_active c s'.
Proof.
  intros H Hg. unfold flood_active. destruct (0 <? last_created s') eqn:E1; simpl; auto.
  apply Z.ltb_lt in E1. apply Z.leb_gt. lia.
Qed.

Lemma flood_bound_sum c m T : 0 < c_step c -> 0 <= c_bonus c -> c_global c <= 0 ->
  forall reqs s t cnt s',
  flood_active c s -> fl_get (flood s) m = Some (t, cnt) -> 0 <= cnt -> 0 <= t <= T -> times_ok (c_step c) t T reqs ->
  run_creates c s m reqs = Some s' ->
  Z.of_nat (length reqs) <= cnt + c_bonus c * ((T - t) / c_step c).
Proof.
  intros Hs Hb Hg. induction reqs as [|[k now] rest IH]; intros s t cnt s' Ha Hf Hc Ht Htimes Hrun.
  - simpl. assert (0 <= (T - t) / c_step c) by (apply Z.div_pos; lia). nia.
  - simpl in Htimes. destruct Htimes as [Hn [Hl [HT Hrest]]].
    simpl in Hrun. destruct (goc c s m k now) as [[g s1] evs] eqn:Hg1. destruct g; try discriminate.
    pose proof (flood_step c s m k now t cnt id s1 evs T Hs Hb Ha Hf ltac:(lia) Hn HT Hg1) as [cnt' [Hf' [Hc' Hpot]]].
    assert (Hp0 : 0 <= round_time now (c_step c)) by lia.
    specialize (IH s1 (round_time now (c_step c)) cnt' s' (goc_created_keeps_active _ _ _ _ _ _ _ _ Hg1 Hg) Hf' Hc' ltac:(lia) Hrest Hrun).
    change (length ((k, now) :: rest)) with (S (length rest)). rewrite Nat2Z.inj_succ. lia.
Qed.

(* the same bound re-based at a flood reset is REFUTED for the code as it is: ResetFlood stores the unrounded time,
   uint32(pred - now) wraps and the budget jumps to max - 1 (needs bonus > 0 and now not a multiple of step) *)
Definition reset_witness : list op := [OReset 1 1 61; OGoc 1 1 62; OGoc 1 2 62].
Lemma flood_bound_after_reset_refuted :
  exists c ops limit, c_global c = 0 /\ ops = reset_witness /\ limit = 1 /\
    map (step_res faithful c (step_st faithful c empty (OReset 1 limit 61))) [OGoc 1 1 62] = [RGoc (GCreated 1)] /\
    results faithful c empty ops = [RReset 3 1; RGoc (GCreated 1); RGoc (GCreated 2)].
Proof. exists (Cfg 3 60 1 0), reset_witness, 1. vm_compute. repeat split; reflexivity. Qed.
(* with the rounded time stored (repaired variant) the second creation is refused *)
Lemma flood_bound_after_reset_repaired :
  results (Var false false false true) (Cfg 3 60 1 0) empty reset_witness = [RReset 3 1; RGoc (GCreated 1); RGoc GFlood].
Proof. vm_compute. reflexivity. Qed.
