(* Correspondence cases for C05/C06: one case = one whole NewSampler/Add*/Run on the real code, with every
   KeepF/DiscardF observation (Item.SF as the exact rational value of the float64, quota argument). *)
From Coq Require Import ZArith QArith Qabs Qround List Bool.
From SH Require Import Common.Corr Sampling.Model.
Import ListNotations.
Open Scope Z_scope.

Definition q (n : Z) (d : positive) : Q := Qmake n d.
Arguments q _%Z _%positive.

(* how SelectF/RoundF were instantiated in the run: the deterministic stubs (floor) or the real
   selectRandom/roundSampleFactor with the recorded draws (RoundF draws in call order, selectRandom's by row id) *)
Inductive mode := MDet | MRng (rdraws : list Q) (seldraws : list (Z * Q)).

(* perms: for every leaf handed to SelectF, the ids in the order sort.Slice left them (whales first);
   obs: (row id, kept, SF, quota) for every row *)
(* compact printing: the metas that occur (of the accounted metrics, of foreign metrics attached to re-accounted rows)
   are listed once; a row names the metric it is accounted to, its fixed budget and the meta its Item carries (index
   into the list, None = nil); [storage] = indexes of the metas the meta storage knows *)
Definition met := meta.
Definition M (id ns group nsw gw mw : Z) (nsa : bool) (fki : list Z) : met := mkmeta id ns group nsw gw mw nsa fki.
Inductive crow := R (id size whale : Z) (single : bool) (acct budget : Z) (imeta : option nat) (tags : list Z).
(* one observation: OK1 = kept with SF 1 *)
Inductive obs1 := OK1 (id qt : Z) | Ob (id : Z) (kept : bool) (sf : Q) (qt : Z).
Definition obs_tuple (o : obs1) : Z * bool * Q * Z :=
  match o with OK1 id qt => (id, true, 1%Q, qt) | Ob id k sf qt => (id, k, sf, qt) end.
(* missingMetricMeta, with the weights the storage gives its namespace/group *)
Definition missing_met (nsw gw : Z) : met := mkmeta 0 (-6) (-5) nsw gw 1 false [].
Definition row_of (has_storage : bool) (ms : list met) (storage : list nat) (miss : met) (r : crow) : row :=
  match r with
  | R id size whale single acct budget imeta tags =>
    resolved_row has_storage (map (fun i => nth i ms miss) storage) miss id size whale acct budget single
      (match imeta with Some i => nth_error ms i | None => None end) tags
  end.

Inductive wire := W (count sum sf wcount wsum : Q).

(* CQuota: one call of the aggregator's calcHostMetricBudgets (quota-mode sampler, SampleKeys off, real
   roundSampleFactor with an unseeded rng): rows = (metric, host) reports, obs = (row id, budget handed back, 0 = none) *)
Inductive case :=
| CRun (c : cfg) (budget : Z) (has_storage : bool) (ms : list met) (storage : list nat) (rows : list crow)
       (m : mode) (perms : list (list Z)) (obs : list obs1)
| CQuota (nss groups : bool) (budget : Z) (miss_nsw miss_gw : Z) (ms : list met) (rows : list crow) (obs : list (Z * Z))
(* CWire: the agent path (Shard.sampleBucket): for every kept row what keepF put on the wire —
   W raw_count raw_sum SF wire_count wire_sum (wire_sum as the receiver restores it) *)
| CWire (rows : list wire).

Fixpoint nodupb (l : list Z) : bool :=
  match l with [] => true | x :: t => negb (existsb (Z.eqb x) t) && nodupb t end.
Fixpoint whale_sorted (l : list row) : bool :=
  match l with
  | a :: ((b :: _) as t) => (r_whale b <=? r_whale a) && whale_sorted t
  | _ => true
  end.

(* the observed order is accepted only if it is a permutation of the leaf (and sorted by descending whale
   weight when the code sorted it); otherwise the rows vanish and the case is reported *)
Definition ord_of (perms : list (list Z)) : ord_t := fun sorted l =>
  match l with
  | [] => []
  | h :: _ =>
    match find (fun p => existsb (Z.eqb (r_id h)) p) perms with
    | None => []
    | Some p =>
      let rows := flat_map (fun id => match find (fun r => r_id r =? id) l with Some r => [r] | None => [] end) p in
      if (length rows =? length l)%nat && (length p =? length l)%nat && nodupb p && (negb sorted || whale_sorted rows)
      then rows else []
    end
  end.

Definition selu_of (ds : list (Z * Q)) : Z -> Q := fun id =>
  match find (fun p => fst p =? id) ds with Some p => snd p | None => 0%Q end.

Definition two52 : Q := inject_Z (2 ^ 52).
(* float64: SF = fl(sfNum/sfDenom) (one correctly rounded division; the doubling is exact) *)
Definition sf_close (m o : Q) : bool := Qle_bool (Qabs (o - m) * two52) (Qabs m).
(* "a kept row carries the inverse of its keep probability": the transferred count and sum are the raw ones times SF *)
Definition wire_ok (w : wire) : bool :=
  match w with W cnt sm sf wc ws => sf_close (cnt * sf) wc && sf_close (sm * sf) ws end.

Definition out_matches (outs : list out) (ob : Z * bool * Q * Z) : bool :=
  let '(id, k, sf, qt) := ob in
  match find (fun o => o_id o =? id) outs with
  | None => false
  | Some o => Bool.eqb (o_kept o) k && sf_close (o_sf o) sf && (negb k || (o_quota o =? qt))
  end.

Definition with_fix (c : cfg) (f : bool) : cfg :=
  mkcfg (c_agent c) (c_keep_single c) (c_disable_nsa c) (c_budgets c) (c_nss c) (c_groups c) (c_keys c) (c_quota c) f.

Definition model_outs (c : cfg) (budget : Z) (rows : list row) (m : mode) (perms : list (list Z)) : list out :=
  match m with
  | MDet => run_all c (ord_of perms) sel_det rf_det budget rows []
  | MRng rd sd => run_all c (ord_of perms) (sel_random (selu_of sd)) rf_random budget rows rd
  end.

(* all up/down outcomes of up to 10 roundSampleFactor calls (the generator's hierarchies need at most 10): draw 0 rounds up (when there is a fraction), draw 1 down *)
Fixpoint draw_lists (n : nat) : list (list Q) :=
  match n with
  | O => [[]]
  | S k => flat_map (fun l => [0%Q :: l; 1%Q :: l]) (draw_lists k)
  end.

(* keepF of calcHostMetricBudgets: "quota *= 2" when the reported size fits the quota *)
Definition host_budget (rows : list row) (o : out) : Z :=
  if o_kept o then
    match find (fun r => r_id r =? o_id o) rows with
    | Some r => if r_size r <=? o_quota o then 2 * o_quota o else o_quota o
    | None => -1
    end
  else 0.

Definition quota_matches (rows : list row) (outs : list out) (ob : Z * Z) : bool :=
  match find (fun o => o_id o =? fst ob) outs with
  | Some o => host_budget rows o =? snd ob
  | None => false
  end.

Definition ok_variant (f : bool) (cs : case) : bool :=
  match cs with
  | CWire ws => forallb wire_ok ws
  | CQuota nss groups budget mnsw mgw ms crows obs =>
    let rows := map (row_of true ms (seq 0 (length ms)) (missing_met mnsw mgw)) crows in
    let c := mkcfg false false false false nss groups false true f in
    (length obs =? length rows)%nat && nodupb (map fst obs) &&
    existsb (fun dr =>
      let outs := run_all c (fun _ l => l) sel_det rf_random budget rows dr in
      (length outs =? length obs)%nat && forallb (quota_matches rows outs) obs) (draw_lists 10)
  | CRun c budget has_storage ms storage crows m perms obs0 =>
    let rows := map (row_of has_storage ms storage (missing_met 0 0)) crows in
    let obs := map obs_tuple obs0 in
    let outs := model_outs (with_fix c f) budget rows m perms in
    (length outs =? length obs)%nat && (length obs =? length rows)%nat &&
    nodupb (map (fun ob => fst (fst (fst ob))) obs) && forallb (out_matches outs) obs
  end.

(* dual model: the code as it is (c_fix = false) or with finding F-C05 repaired *)
Definition ok (cs : case) : bool :=
  match cs with
  | CQuota _ _ _ _ _ _ _ _ => ok_variant false cs   (* sampleQuota has no repaired variant *)
  | CWire _ => ok_variant false cs
  | _ => ok_variant false cs || ok_variant true cs
  end.

Definition mism := mismatches ok.
