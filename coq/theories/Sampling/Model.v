(* Executable model of internal/data_model/sampling.go (sampler.Add/Run/run/sample/sampleQuota,
   partitionBy{Budget,Namespace,Group,Metric,Key}, keep/discard, selectRandom, roundSampleFactor).
   Integers are Z (no int64 overflow: side condition of the theorems, Residue), factors are exact Q.
   Definitions only; proofs live in Proofs*.v. *)
From Coq Require Import ZArith QArith Qround List Bool.
Import ListNotations.
Open Scope Z_scope.

(* One row handed to sampler.Add (SamplingMultiItemPair + the fields of its resolved metric meta that Run reads).
   r_nsw/r_gw: EffectiveWeight of the namespace/group meta as looked up by getNamespaceWeight/getGroupWeight
   (0 when there is none); r_mw: metric.EffectiveWeight; r_whale: WhaleWeight (integer valued);
   r_single: Item.isSingleValueCounter(); r_fki: metric.FairKeyIndex; r_tags: Item.Key.Tags (trailing zeros dropped). *)
Record row := mkrow {
  r_id : Z; r_size : Z; r_whale : Z; r_metric : Z; r_budget : Z; r_ns : Z; r_group : Z;
  r_nsw : Z; r_gw : Z; r_mw : Z; r_nsa : bool; r_single : bool; r_fki : list Z; r_tags : list Z }.

Definition row0 := mkrow 0 0 0 0 0 0 0 0 0 0 false false [] [].

(* SamplerConfig options; c_quota: SampleF = SampleQuota; c_fix selects the repaired variant of [sample]
   (dual model, see finding F-C05): false = the code as it is. *)
Record cfg := mkcfg {
  c_agent : bool; c_keep_single : bool; c_disable_nsa : bool; c_budgets : bool; c_nss : bool; c_groups : bool;
  c_keys : bool; c_quota : bool; c_fix : bool }.

(* what KeepF/DiscardF observed for one row: Item.SF and (KeepF) the quota argument *)
Record out := mkout { o_id : Z; o_kept : bool; o_sf : Q; o_quota : Z }.

Definition max_f32 : Q := inject_Z 340282346638528859811704183484516925440.
Definition keep (sf : Q) (r : row) := mkout (r_id r) true sf (r_size r).
Definition discard (sf : Q) (r : row) := mkout (r_id r) false sf 0.

Record grp := mkgrp {
  g_fixed : bool; g_depth : Z; g_budget : Z; g_denom : Z; g_nsa : bool; g_weight : Z; g_size : Z; g_items : list row }.

Definition clamp1 (x : Z) := if x <? 1 then 1 else x.
Definition sum_size (l : list row) := fold_right (fun r a => r_size r + a) 0 l.
Definition zlen {A} (l : list A) := Z.of_nat (length l).

(* --- sort.Slice: insertion sort scanning from the right (what pdqsort does up to 12 elements; stable) *)
Fixpoint ins {A} (less : A -> A -> bool) (x : A) (racc : list A) : list A :=
  match racc with
  | [] => [x]
  | y :: r => if less x y then y :: ins less x r else x :: racc
  end.
Definition isort {A} (less : A -> A -> bool) (l : list A) : list A :=
  rev (fold_left (fun racc x => ins less x racc) l []).

(* --- Run: fair key and the partition sort *)
Definition max_tags := 48.
Definition fair_key (c : cfg) (r : row) : list Z :=
  if c_keys c then
    map (fun x => if (0 <=? x) && (x <? max_tags) then nth (Z.to_nat x) (r_tags r) 0 else 0) (firstn 3 (r_fki r))
  else [].

Fixpoint fk_less (a b : list Z) : bool :=
  match a with
  | [] => false
  | x :: a' => let y := hd 0 b in if x =? y then fk_less a' (tl b) else x <? y
  end.

Definition less_item (c : cfg) (a b : row) : bool :=
  let ba := negb (r_budget a =? 0) in
  let bb := negb (r_budget b =? 0) in
  if xorb ba bb then ba
  else if negb (r_ns a =? r_ns b) then r_ns a <? r_ns b
  else if negb (r_group a =? r_group b) then r_group a <? r_group b
  else if negb (r_metric a =? r_metric b) then r_metric a <? r_metric b
  else fk_less (fair_key c a) (fair_key c b).

(* --- consecutive runs: the "for j ... if s[i].X != s[j].X" loops of the partition functions *)
Fixpoint runs_aux (same : row -> row -> bool) (cur : list row) (first : row) (l : list row) : list (list row) :=
  match l with
  | [] => [rev cur]
  | x :: t => if same first x then runs_aux same (x :: cur) first t else rev cur :: runs_aux same [x] x t
  end.
Definition runs (same : row -> row -> bool) (l : list row) : list (list row) :=
  match l with [] => [] | x :: t => runs_aux same [x] x t end.

Inductive pfun := PBudget | PNs | PGroup | PMetric.
Definition partf (c : cfg) : list pfun :=
  (if c_budgets c then [PBudget] else []) ++ (if c_nss c then [PNs] else []) ++
  (if c_groups c then [PGroup] else []) ++ [PMetric].

Inductive pkind := KNs | KGroup | KMetric | KKey (i : nat).
Definition same (c : cfg) (k : pkind) (a b : row) : bool :=
  match k with
  | KNs => r_ns a =? r_ns b
  | KGroup => r_group a =? r_group b
  | KMetric => r_metric a =? r_metric b
  | KKey i => nth i (fair_key c a) 0 =? nth i (fair_key c b) 0
  end.
Definition kweight (k : pkind) (h : row) : Z :=
  match k with KNs => clamp1 (r_nsw h) | KGroup => clamp1 (r_gw h) | KMetric => r_mw h | KKey _ => 1 end.
Definition knsa (k : pkind) (h : row) : bool :=
  match k with KMetric | KKey _ => r_nsa h | _ => false end.

Definition mk_simple (k : pkind) (depth : Z) (items : list row) : grp :=
  let h := hd row0 items in
  mkgrp false depth 0 0 (knsa k h) (kweight k h) (sum_size items) items.
Definition sum_weight (gs : list grp) := fold_right (fun g a => g_weight g + a) 0 gs.
Definition part_simple (c : cfg) (k : pkind) (d : Z) (items : list row) : list grp * Z :=
  let gs := map (mk_simple k (d + 1)) (runs (same c k) items) in (gs, sum_weight gs).

Definition kind_of (p : pfun) := match p with PNs => KNs | PGroup => KGroup | _ => KMetric end.

Fixpoint take_fixed (rs : list (list row)) : list (list row) * list (list row) :=
  match rs with
  | [] => ([], [])
  | r :: t => if 0 <? r_budget (hd row0 r) then let (a, b) := take_fixed t in (r :: a, b) else ([], rs)
  end.
Definition mk_fixed (c : cfg) (items : list row) : grp :=
  let h := hd row0 items in
  mkgrp true (zlen (partf c)) (r_budget h) 1 (r_nsa h) 1 (sum_size items) items.
Definition part_budget (c : cfg) (d : Z) (items : list row) : list grp * Z :=
  match items with
  | [] => ([], 0)
  | _ =>
    let (fx, rest) := take_fixed (runs (same c KMetric) items) in
    let fg := map (mk_fixed c) fx in
    match concat rest with
    | [] => (fg, 1)
    | rs => let (gs, W) := part_simple c (kind_of (nth (Z.to_nat (d + 1)) (partf c) PMetric)) (d + 1) rs in (fg ++ gs, W)
    end
  end.

Definition partition (c : cfg) (g : grp) : list grp * Z :=
  let pf := partf c in
  let d := g_depth g in
  if d <? zlen pf then
    match nth (Z.to_nat d) pf PMetric with
    | PBudget => part_budget c d (g_items g)
    | p => part_simple c (kind_of p) d (g_items g)
    end
  else part_simple c (KKey (Z.to_nat (d - zlen pf))) d (g_items g).

Definition less_ratio (a b : grp) : bool := g_size a * g_weight b <? g_size b * g_weight a.

(* --- oracles: the order sort.Slice leaves a leaf in (true: after the whale sort; false: as the partition sort
   left it), SelectF, RoundF with the stream of its draws *)
Definition ord_t := bool -> list row -> list row.
Definition sel_t := list row -> Q -> list row * list row.
Definition rf_t := Z -> Z -> list Q -> Z * list Q.

Definition sample (c : cfg) (ord : ord_t) (sel : sel_t) (g : grp) : list out :=
  match g_items g with
  | [] => []
  | h :: t =>
    if c_keep_single c && (match t with [] => true | _ => false end) && r_single h then [keep 1 h]
    else if c_fix c && negb (g_budget g <? g_denom g * g_size g) then map (keep 1) (g_items g)
    else
      let sfNum := clamp1 (g_denom g * g_size g) in
      let sfDen := clamp1 (g_budget g) in
      let sf := (inject_Z sfNum / inject_Z sfDen)%Q in
      let n := zlen (g_items g) in
      let pos := n * sfDen / sfNum / 2 in
      if 0 <? pos then
        let pos' := Z.to_nat (Z.min pos n) in
        let items := ord true (g_items g) in
        let sf2 := (sf * 2)%Q in
        let (k, d) := sel (skipn pos' items) sf2 in
        map (keep 1) (firstn pos' items) ++ map (keep sf2) k ++ map (discard sf2) d
      else
        let (k, d) := sel (ord false (g_items g)) sf in
        map (keep sf) k ++ map (discard sf) d
  end.

Definition quota_of (g : grp) (r : row) : Z := Z.quot (g_budget g * r_size r) (g_denom g * g_size g).
Definition sample_quota (g : grp) : list out :=
  map (fun r => let q := quota_of g r in
               if q <? 1 then discard max_f32 r else mkout (r_id r) true 1 q) (g_items g).

Definition keep_all (g : grp) : list out := map (keep 1) (g_items g).

Definition set_budget (x : grp) (b d : Z) : grp :=
  mkgrp (g_fixed x) (g_depth x) b d (g_nsa x) (g_weight x) (g_size x) (g_items x).
(* "if !s[i].FixedBudget { budget = g.budget*weight; budgetDenom = sumWeight }" *)
Definition budgeted (x : grp) (B W : Z) : grp :=
  if g_fixed x then x else set_budget x (B * g_weight x) W.

Section Run.
  Variable c : cfg.
  Variable ord : ord_t.
  Variable sel : sel_t.
  Variable rf : rf_t.

  Definition leaf (g : grp) : list out := if c_quota c then sample_quota g else sample c ord sel g.

  (* second loop of sampler.run *)
  Fixpoint loop2 (rec : grp -> list Q -> list out * list Q) (s : list grp) (B W : Z) (dr : list Q) : list out * list Q :=
    match s with
    | [] => ([], dr)
    | x0 :: t =>
      let x := budgeted x0 B W in
      let '(o1, dr1) :=
        if g_nsa x && c_agent c && negb (c_disable_nsa c) then (keep_all x, dr)
        else if g_depth x <? zlen (partf c) + zlen (fair_key c (hd row0 (g_items x))) then
          if g_fixed x then rec x dr
          else let (b, dr') := rf (g_budget x) (g_denom x) dr in rec (set_budget x b 1) dr'
        else (leaf x, dr) in
      let '(o2, dr2) := loop2 rec t B W dr1 in
      (o1 ++ o2, dr2)
    end.

  (* first loop of sampler.run: groups within their share are kept, the budget water-fills *)
  Fixpoint loop1 (rec : grp -> list Q -> list out * list Q) (s : list grp) (B W : Z) (dr : list Q) : list out * list Q :=
    match s with
    | [] => ([], dr)
    | x0 :: t =>
      let x := budgeted x0 B W in
      if g_budget x <? g_denom x * g_size x then loop2 rec s B W dr
      else
        let '(o2, dr2) := if g_fixed x then loop1 rec t B W dr else loop1 rec t (B - g_size x) (W - g_weight x) dr in
        (keep_all x ++ o2, dr2)
    end.

  Fixpoint run (fuel : nat) (g : grp) (dr : list Q) : list out * list Q :=
    match fuel with
    | O => ([], dr)
    | S f =>
      let (s, W) := partition c g in
      loop1 (run f) (isort less_ratio s) (g_budget g) W dr
    end.

  (* Add (rows with Size < 1 are discarded with MaxFloat32) followed by Run(budget) *)
  Definition run_all (budget : Z) (rows : list row) (dr : list Q) : list out :=
    let small := filter (fun r => r_size r <? 1) rows in
    let items := filter (fun r => negb (r_size r <? 1)) rows in
    map (discard max_f32) small ++
    match items with
    | [] => []
    | _ => fst (run 12 (mkgrp false 0 budget 0 false 0 0 (isort (less_item c) items)) dr)
    end.
End Run.

(* --- the selectors and rounders used by the code and by its tests *)
(* SelectF of TestSampling: n := int(len/sf) (capped at len) *)
Definition sel_det : sel_t := fun l sf =>
  let n := Z.to_nat (Z.min (zlen l) (Qfloor (inject_Z (zlen l) / sf))) in (firstn n l, skipn n l).
(* selectRandom: row i is kept iff its draw u_i satisfies u_i*sf < 1 (all kept when sf <= 1);
   [selu] gives the draw used for each row *)
Definition sel_random (selu : Z -> Q) : sel_t := fun l sf =>
  if Qle_bool sf 1 then (l, [])
  else List.partition (fun r => negb (Qle_bool 1 (selu (r_id r) * sf))) l.
(* RoundF stub: floor *)
Definition rf_det : rf_t := fun b d dr => (b / d, dr).
(* roundSampleFactor: floor+1 with probability frac *)
Definition rf_random : rf_t := fun b d dr =>
  let u := hd 0%Q dr in
  let delta := (inject_Z (b mod d) / inject_Z d)%Q in
  (if negb (Qle_bool delta u) then b / d + 1 else b / d, tl dr).

(* --- Run: metric meta resolution. The meta of a row is Item.MetricMeta only if that meta belongs to the metric the row
   is accounted to (MetricID == MetricMeta.MetricID); otherwise getMetricMeta: the meta storage (when there is one),
   else missingMetricMeta. (format.BuiltinMetrics is not modelled: accounted ids outside the built-in range.) *)
Record meta := mkmeta { m_id : Z; m_ns : Z; m_group : Z; m_nsw : Z; m_gw : Z; m_mw : Z; m_nsa : bool; m_fki : list Z }.
Definition resolve_meta (has_storage : bool) (storage : list meta) (missing : meta) (acct : Z) (item_meta : option meta) : meta :=
  let lookup :=
    if has_storage then match find (fun m => m_id m =? acct) storage with Some m => m | None => missing end
    else missing in
  match item_meta with
  | Some m => if m_id m =? acct then m else lookup
  | None => lookup
  end.
(* the row the rest of Run sees *)
Definition resolved_row (has_storage : bool) (storage : list meta) (missing : meta)
    (id size whale acct budget : Z) (single : bool) (item_meta : option meta) (tags : list Z) : row :=
  let m := resolve_meta has_storage storage missing acct item_meta in
  mkrow id size whale acct budget (m_ns m) (m_group m) (m_nsw m) (m_gw m) (m_mw m) (m_nsa m) single (m_fki m) tags.
