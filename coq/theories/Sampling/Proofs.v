(* C05: structural lemmas on the sampler model: every row gets exactly one outcome, and what that outcome is. *)
From Coq Require Import ZArith QArith Qround Qabs List Bool Lia Permutation.
From SH Require Import Sampling.Model.
Import ListNotations.
Open Scope Z_scope.

Definition ids (l : list out) : list Z := map o_id l.
Definition rids (l : list row) : list Z := map r_id l.

(* ---------- insertion sort is a permutation ---------- *)
Lemma ins_perm : forall A (less : A -> A -> bool) x l, Permutation (ins less x l) (x :: l).
Proof.
  induction l as [|y r IH]; simpl; auto.
  destruct (less x y); auto.
  eapply perm_trans; [apply perm_skip, IH|apply perm_swap].
Qed.

Lemma fold_ins_perm : forall A (less : A -> A -> bool) l acc,
  Permutation (fold_left (fun racc x => ins less x racc) l acc) (l ++ acc).
Proof.
  induction l as [|x l IH]; intros acc; simpl; auto.
  eapply perm_trans; [apply IH|].
  eapply perm_trans; [apply Permutation_app_head, ins_perm|].
  apply Permutation_sym, Permutation_middle.
Qed.

Lemma isort_perm : forall A (less : A -> A -> bool) l, Permutation (isort less l) l.
Proof.
  intros. unfold isort. eapply perm_trans; [apply Permutation_sym, Permutation_rev|].
  eapply perm_trans; [apply fold_ins_perm|]. rewrite app_nil_r. auto.
Qed.

(* ---------- consecutive runs concatenate back to the list ---------- *)
Lemma runs_aux_concat : forall same l cur first, concat (runs_aux same cur first l) = rev cur ++ l.
Proof.
  induction l as [|x t IH]; intros; simpl.
  - rewrite app_nil_r. auto.
  - destruct (same first x); simpl.
    + rewrite IH. simpl. rewrite <- app_assoc. auto.
    + rewrite IH. simpl. auto.
Qed.
Lemma runs_concat : forall same l, concat (runs same l) = l.
Proof. destruct l; simpl; auto. rewrite runs_aux_concat. auto. Qed.

Lemma runs_aux_nonempty : forall same l cur first, cur <> [] -> Forall (fun r => r <> []) (runs_aux same cur first l).
Proof.
  induction l as [|x t IH]; intros; simpl.
  - constructor; auto. intro E. apply (f_equal (@rev row)) in E. rewrite rev_involutive in E. simpl in E. auto.
  - destruct (same first x).
    + apply IH. discriminate.
    + constructor. { intro E. apply (f_equal (@rev row)) in E. rewrite rev_involutive in E. simpl in E. auto. }
      apply IH. discriminate.
Qed.
Lemma runs_nonempty : forall same l, Forall (fun r => r <> []) (runs same l).
Proof. destruct l; simpl; auto. apply runs_aux_nonempty. discriminate. Qed.

Definition gitems (s : list grp) : list row := concat (map g_items s).

Lemma gitems_map_simple : forall k d rs, gitems (map (mk_simple k d) rs) = concat rs.
Proof. unfold gitems. induction rs; simpl; auto. rewrite IHrs. auto. Qed.
Lemma gitems_map_fixed : forall c rs, gitems (map (mk_fixed c) rs) = concat rs.
Proof. unfold gitems. induction rs; simpl; auto. rewrite IHrs. auto. Qed.
Lemma gitems_app : forall a b, gitems (a ++ b) = gitems a ++ gitems b.
Proof. unfold gitems. intros. rewrite map_app, concat_app. auto. Qed.

Lemma part_simple_items : forall c k d items, gitems (fst (part_simple c k d items)) = items.
Proof. intros. unfold part_simple. simpl. rewrite gitems_map_simple. apply runs_concat. Qed.

Lemma take_fixed_concat : forall rs a b, take_fixed rs = (a, b) -> concat a ++ concat b = concat rs.
Proof.
  induction rs as [|r t IH]; simpl; intros a b E.
  - inversion E. auto.
  - destruct (0 <? r_budget (hd row0 r)).
    + destruct (take_fixed t) as [a' b'] eqn:Et. inversion E; subst. simpl. rewrite <- app_assoc. f_equal. apply IH. auto.
    + inversion E; subst. auto.
Qed.

Lemma part_budget_items : forall c d items, gitems (fst (part_budget c d items)) = items.
Proof.
  intros. unfold part_budget. destruct items as [|x t]; auto.
  destruct (take_fixed (runs (same c KMetric) (x :: t))) as [fx rest] eqn:Et.
  pose proof (take_fixed_concat _ _ _ Et) as Hc. rewrite runs_concat in Hc.
  destruct (concat rest) as [|y rs] eqn:Er.
  - simpl. rewrite gitems_map_fixed. rewrite app_nil_r in Hc. auto.
  - destruct (part_simple c _ (d + 1) (y :: rs)) as [gs W] eqn:Ep. simpl.
    rewrite gitems_app, gitems_map_fixed.
    replace gs with (fst (part_simple c (kind_of (nth (Z.to_nat (d + 1)) (partf c) PMetric)) (d + 1) (y :: rs))) by (rewrite Ep; auto).
    rewrite part_simple_items. auto.
Qed.

Lemma partition_items : forall c g, gitems (fst (partition c g)) = g_items g.
Proof.
  intros. unfold partition. destruct (g_depth g <? zlen (partf c)).
  - destruct (nth (Z.to_nat (g_depth g)) (partf c) PMetric); try apply part_simple_items. apply part_budget_items.
  - apply part_simple_items.
Qed.

Lemma gitems_perm : forall a b, Permutation a b -> Permutation (gitems a) (gitems b).
Proof.
  unfold gitems. induction 1; simpl; auto.
  - apply Permutation_app_head. auto.
  - rewrite !app_assoc. apply Permutation_app_tail, Permutation_app_comm.
  - eapply perm_trans; eauto.
Qed.

(* ---------- oracles: what is assumed of sort.Slice and SelectF ---------- *)
Definition ord_ok (ord : ord_t) := forall b l, Permutation (ord b l) l.
Definition sel_ok (sel : sel_t) := forall l sf, Permutation (fst (sel l sf) ++ snd (sel l sf)) l.

Lemma sel_det_ok : sel_ok sel_det.
Proof. intros l sf. unfold sel_det. simpl. rewrite firstn_skipn. auto. Qed.

Lemma partition_perm : forall A (f : A -> bool) l, Permutation (fst (List.partition f l) ++ snd (List.partition f l)) l.
Proof.
  induction l as [|x t IH]; simpl; auto.
  destruct (List.partition f t) as [a b]. simpl in *. destruct (f x); simpl; auto.
  eapply perm_trans; [apply Permutation_sym, Permutation_middle|]. auto.
Qed.
Lemma sel_random_ok : forall selu, sel_ok (sel_random selu).
Proof.
  intros selu l sf. unfold sel_random. destruct (Qle_bool sf 1); simpl.
  - rewrite app_nil_r. auto.
  - apply partition_perm.
Qed.

Lemma ids_keep : forall sf l, ids (map (keep sf) l) = rids l.
Proof. intros. unfold ids, rids. rewrite map_map. auto. Qed.
Lemma ids_discard : forall sf l, ids (map (discard sf) l) = rids l.
Proof. intros. unfold ids, rids. rewrite map_map. auto. Qed.
Lemma ids_app : forall a b, ids (a ++ b) = ids a ++ ids b.
Proof. intros. apply map_app. Qed.
Lemma rids_app : forall a b, rids (a ++ b) = rids a ++ rids b.
Proof. intros. apply map_app. Qed.
Lemma rids_perm : forall a b, Permutation a b -> Permutation (rids a) (rids b).
Proof. intros. apply Permutation_map. auto. Qed.

Section Once.
  Variable c : cfg.
  Variable ord : ord_t.
  Variable sel : sel_t.
  Variable rf : rf_t.
  Hypothesis Hord : ord_ok ord.
  Hypothesis Hsel : sel_ok sel.

  Lemma sample_once : forall g, Permutation (ids (sample c ord sel g)) (rids (g_items g)).
  Proof.
    intros g. unfold sample. destruct (g_items g) as [|h t] eqn:Ei; auto.
    destruct (c_keep_single c && match t with [] => true | _ => false end && r_single h) eqn:Ek.
    - destruct t; [simpl; auto|]. rewrite andb_false_r in Ek. discriminate.
    - destruct (c_fix c && negb (g_budget g <? g_denom g * g_size g)).
      { rewrite ids_keep. auto. }
      set (items := h :: t) in *.
      match goal with |- context [if ?b then _ else _] => destruct b end.
      + match goal with |- context [sel ?l ?sf] => pose proof (Hsel l sf) as Hs; destruct (sel l sf) as [k d] end.
        simpl in Hs. rewrite !ids_app, !ids_keep, ids_discard, <- !rids_app.
        apply rids_perm. eapply perm_trans; [apply Permutation_app_head, Hs|].
        rewrite firstn_skipn. apply Hord.
      + match goal with |- context [sel ?l ?sf] => pose proof (Hsel l sf) as Hs; destruct (sel l sf) as [k d] end.
        simpl in Hs. rewrite !ids_app, !ids_keep, ids_discard, <- !rids_app.
        apply rids_perm. eapply perm_trans; [apply Hs|]. apply Hord.
  Qed.

  Lemma sample_quota_once : forall g, ids (sample_quota g) = rids (g_items g).
  Proof.
    intros. unfold sample_quota, ids, rids. rewrite map_map. apply map_ext. intros r.
    destruct (quota_of g r <? 1); auto.
  Qed.

  Lemma leaf_once : forall g, Permutation (ids (leaf c ord sel g)) (rids (g_items g)).
  Proof. intros. unfold leaf. destruct (c_quota c). rewrite sample_quota_once; auto. apply sample_once. Qed.

  Lemma budgeted_items : forall x B W, g_items (budgeted x B W) = g_items x.
  Proof. intros. unfold budgeted. destruct (g_fixed x); auto. Qed.
  Lemma budgeted_depth : forall x B W, g_depth (budgeted x B W) = g_depth x.
  Proof. intros. unfold budgeted. destruct (g_fixed x); auto. Qed.

  (* [rec] handles every group whose depth lies between [d0] and the recursion limit *)
  Definition rec_once (d0 : Z) (rec : grp -> list Q -> list out * list Q) :=
    forall x dr, d0 <= g_depth x < zlen (partf c) + 3 -> Permutation (ids (fst (rec x dr))) (rids (g_items x)).

  Lemma fair_key_len : forall r, zlen (fair_key c r) <= 3.
  Proof.
    intros. unfold fair_key, zlen. destruct (c_keys c); [|simpl; lia].
    rewrite map_length. pose proof (firstn_le_length 3 (r_fki r)). lia.
  Qed.

  Lemma loop2_once : forall d0 rec, rec_once d0 rec -> forall s B W dr,
    Forall (fun x => d0 <= g_depth x) s ->
    Permutation (ids (fst (loop2 c ord sel rf rec s B W dr))) (rids (gitems s)).
  Proof.
    intros d0 rec Hrec. induction s as [|x0 t IH]; intros B W dr Hdep; simpl; auto.
    inversion Hdep as [|? ? Hd0 Hdt]; subst.
    set (x := budgeted x0 B W).
    match goal with |- context [let '(o1, dr1) := ?e in _] => destruct e as [o1 dr1] eqn:E1 end.
    specialize (IH B W dr1 Hdt). destruct (loop2 c ord sel rf rec t B W dr1) as [o2 dr2]. simpl in *.
    unfold gitems. simpl. rewrite ids_app, rids_app. apply Permutation_app; auto.
    assert (Hi : g_items x = g_items x0) by apply budgeted_items.
    assert (Hdx : g_depth x = g_depth x0) by apply budgeted_depth.
    rewrite <- Hi.
    destruct (g_nsa x && c_agent c && negb (c_disable_nsa c)).
    { inversion E1; subst. unfold keep_all. rewrite ids_keep. auto. }
    destruct (g_depth x <? zlen (partf c) + zlen (fair_key c (hd row0 (g_items x)))) eqn:Ed.
    - apply Z.ltb_lt in Ed. pose proof (fair_key_len (hd row0 (g_items x))).
      destruct (g_fixed x).
      + replace o1 with (fst (rec x dr)) by (rewrite E1; auto). apply Hrec. lia.
      + destruct (rf (g_budget x) (g_denom x) dr) as [b dr'].
        replace o1 with (fst (rec (set_budget x b 1) dr')) by (rewrite E1; auto).
        apply (Hrec (set_budget x b 1)). simpl. lia.
    - inversion E1; subst. apply leaf_once.
  Qed.

  Lemma loop1_once : forall d0 rec, rec_once d0 rec -> forall s B W dr,
    Forall (fun x => d0 <= g_depth x) s ->
    Permutation (ids (fst (loop1 c ord sel rf rec s B W dr))) (rids (gitems s)).
  Proof.
    intros d0 rec Hrec. induction s as [|x0 t IH]; intros B W dr Hdep; simpl; auto.
    destruct (g_budget (budgeted x0 B W) <? g_denom (budgeted x0 B W) * g_size (budgeted x0 B W)).
    - apply (loop2_once d0 rec Hrec (x0 :: t)); auto.
    - inversion Hdep as [|? ? Hd0 Hdt]; subst.
      match goal with |- context [let '(o2, dr2) := ?e in _] => destruct e as [o2 dr2] eqn:E2 end.
      simpl. unfold gitems. simpl. rewrite ids_app, rids_app. apply Permutation_app.
      + unfold keep_all. rewrite ids_keep, budgeted_items. auto.
      + destruct (g_fixed (budgeted x0 B W)).
        * specialize (IH B W dr Hdt). rewrite E2 in IH. auto.
        * specialize (IH (B - g_size (budgeted x0 B W)) (W - g_weight (budgeted x0 B W)) dr Hdt). rewrite E2 in IH. auto.
  Qed.

  (* depth of the parts *)
  Lemma part_simple_depth : forall k d items x, In x (fst (part_simple c k d items)) -> g_depth x = d + 1.
  Proof. intros k d items x Hx. unfold part_simple in Hx. simpl in Hx. apply in_map_iff in Hx. destruct Hx as [r [E _]]. subst. auto. Qed.

  Lemma part_budget_depth : forall d items x, d < zlen (partf c) -> In x (fst (part_budget c d items)) -> d + 1 <= g_depth x.
  Proof.
    intros d items x Hd Hx. unfold part_budget in Hx. destruct items as [|y t]; [simpl in Hx; tauto|].
    destruct (take_fixed _) as [fx rest]. destruct (concat rest) as [|z rs].
    - simpl in Hx. apply in_map_iff in Hx. destruct Hx as [r [E _]]. subst. simpl. lia.
    - destruct (part_simple c _ (d + 1) (z :: rs)) as [gs W] eqn:Ep. simpl in Hx. apply in_app_or in Hx. destruct Hx as [Hx|Hx].
      + apply in_map_iff in Hx. destruct Hx as [r [E _]]. subst. simpl. lia.
      + assert (g_depth x = d + 1 + 1). { eapply part_simple_depth. rewrite Ep. simpl. eauto. } lia.
  Qed.

  Lemma partition_depth : forall g x, In x (fst (partition c g)) -> g_depth g + 1 <= g_depth x.
  Proof.
    intros g x Hx. unfold partition in Hx. destruct (g_depth g <? zlen (partf c)) eqn:Ed.
    - apply Z.ltb_lt in Ed. destruct (nth (Z.to_nat (g_depth g)) (partf c) PMetric);
        try (apply part_simple_depth in Hx; lia). eapply part_budget_depth; eauto.
    - apply part_simple_depth in Hx. lia.
  Qed.

  Lemma run_once : forall fuel g dr,
    Z.of_nat fuel + g_depth g >= zlen (partf c) + 4 -> g_depth g < zlen (partf c) + 3 ->
    Permutation (ids (fst (run c ord sel rf fuel g dr))) (rids (g_items g)).
  Proof.
    induction fuel as [|f IH]; intros g dr Hf Hd.
    - simpl in Hf. lia.
    - simpl. destruct (partition c g) as [s W] eqn:Ep.
      eapply perm_trans.
      + apply (loop1_once (g_depth g + 1) (run c ord sel rf f)).
        * intros x dr' Hx. apply IH; lia.
        * apply Forall_forall. intros x Hx. apply (Permutation_in _ (isort_perm _ less_ratio s)) in Hx.
          apply partition_depth. rewrite Ep. auto.
      + apply rids_perm. eapply perm_trans; [apply gitems_perm, isort_perm|].
        replace s with (fst (partition c g)) by (rewrite Ep; auto). rewrite partition_items. auto.
  Qed.

  Lemma partf_len : 1 <= zlen (partf c) <= 4.
  Proof. unfold partf, zlen. destruct (c_budgets c), (c_nss c), (c_groups c); simpl; lia. Qed.

  Lemma filter_split_perm : forall A (f : A -> bool) l, Permutation (filter f l ++ filter (fun x => negb (f x)) l) l.
  Proof.
    induction l as [|x t IH]; simpl; auto. destruct (f x); simpl; auto.
    eapply perm_trans; [apply Permutation_sym, Permutation_middle|]. auto.
  Qed.

  (* every row handed to Add gets exactly one KeepF/DiscardF *)
  Theorem each_row_once : forall budget rows dr,
    Permutation (ids (run_all c ord sel rf budget rows dr)) (rids rows).
  Proof.
    intros. unfold run_all.
    set (small := filter (fun r => r_size r <? 1) rows).
    set (items := filter (fun r => negb (r_size r <? 1)) rows).
    rewrite ids_app, ids_discard.
    eapply perm_trans; [|apply rids_perm, (filter_split_perm _ (fun r => r_size r <? 1) rows)].
    rewrite rids_app. apply Permutation_app_head. fold items.
    destruct items as [|h t] eqn:Ei; auto.
    eapply perm_trans.
    - apply run_once; simpl; pose proof partf_len; lia.
    - simpl g_items. apply (rids_perm _ (h :: t)), isort_perm.
  Qed.

  (* rows with Size < 1 are discarded by Add with SF = MaxFloat32 *)
  Theorem small_rows_discarded : forall budget rows dr r,
    In r rows -> r_size r < 1 -> In (discard max_f32 r) (run_all c ord sel rf budget rows dr).
  Proof.
    intros. unfold run_all. apply in_or_app. left. apply in_map. apply filter_In. split; auto.
    apply Z.ltb_lt. auto.
  Qed.
End Once.
