(* Concrete witnesses: refutations of the clauses the code violates (dual model, c_fix = false) and the
   non-vacuity examples used by Props/C05.v and Props/C06.v. *)
From Coq Require Import ZArith QArith List Bool Lia Permutation Sorted.
From SH Require Import Sampling.Model Sampling.Proofs Sampling.Factor Sampling.Fair.
Import ListNotations.
Open Scope Z_scope.

(* sort.Slice by descending WhaleWeight *)
Definition whale_ord : ord_t := fun sorted l => if sorted then isort (fun a b => r_whale b <? r_whale a) l else l.
Lemma whale_ord_ok : ord_ok whale_ord.
Proof. intros b l. unfold whale_ord. destruct b; auto. apply isort_perm. Qed.

Definition cfg0 (fx : bool) := mkcfg false false false false false false false false fx.
Definition cfg_budgets (fx : bool) := mkcfg false false false true false false false false fx.
Definition cfg_agent := mkcfg true false false false true true true false false.
Definition row_sz (id size whale metric budget : Z) := mkrow id size whale metric budget 1 11 0 0 1 false false [] [].

(* F-C05: metric 1 (size 10) exceeds its fixed budget 5; metric 2 (size 100) is within the bucket budget 150 and is
   kept by sampler.sample for every draw, with SF = 100/150 *)
Definition fc05_rows := [row_sz 0 10 0 1 5; row_sz 1 100 0 2 0].
Definition fc05_out := mkout 1 true (inject_Z 100 / inject_Z 150)%Q 100.

Theorem kept_factor_refuted : exists c ord rf selu budget rows dr o,
  c_fix c = false /\ ord_ok ord /\ In o (run_all c ord (sel_random selu) rf budget rows dr) /\ ~ unbiased selu o.
Proof.
  exists (cfg_budgets false), whale_ord, rf_det, (fun _ => 0%Q), 150, fc05_rows, [], fc05_out.
  split; [reflexivity|]. split; [apply whale_ord_ok|]. split.
  - vm_compute. auto.
  - intros [[_ H]|[[H _]|[H _]]]; vm_compute in H; discriminate.
Qed.

(* the repaired variant on the same input keeps the row with factor 1 *)
Example repaired_on_witness :
  In (mkout 1 true 1%Q 100) (run_all (cfg_budgets true) whale_ord (sel_random (fun _ => 0%Q)) rf_det 150 fc05_rows []).
Proof. vm_compute. auto. Qed.

(* F-C06b: the same bucket: partition "metric 2" has size 100 <= its share 150*1/1 but is not kept with factor 1 *)
Definition fc05_top (fx : bool) := mkgrp false 0 150 0 false 0 0 (isort (less_item (cfg_budgets fx)) fc05_rows).
Theorem within_share_kept_refuted : exists c ord sel rf fuel g dr s W x r,
  c_fix c = false /\ partition c g = (s, W) /\ In x s /\ g_fixed x = false /\ 0 < g_weight x /\
  g_size x * W <= g_budget g * g_weight x /\ In r (g_items x) /\
  ~ In (keep 1 r) (fst (run c ord sel rf (S fuel) g dr)).
Proof.
  exists (cfg_budgets false), whale_ord, sel_det, rf_det, 11%nat, (fc05_top false), [].
  eexists. eexists. exists (mk_simple KMetric 2 [row_sz 1 100 0 2 0]), (row_sz 1 100 0 2 0).
  split; [reflexivity|]. split; [vm_compute; reflexivity|].
  split; [vm_compute; auto|]. split; [reflexivity|]. split; [reflexivity|]. split; [vm_compute; discriminate|].
  split; [vm_compute; auto|].
  vm_compute. intros [H|[H|[]]]; discriminate.
Qed.

(* F-C06: rows of sizes 3,3,3,100, the heavy row is the whale, budget 55: the deterministic selector keeps size 100 *)
Definition sum_kept (outs : list out) : Z := fold_right (fun o a => if o_kept o then o_quota o + a else a) 0 outs.
Definition fc06_rows := [row_sz 0 3 1 1 0; row_sz 1 3 2 1 0; row_sz 2 3 3 1 0; row_sz 3 100 100 1 0].
Theorem det_kept_size_le_budget_refuted : exists c budget rows,
  c_budgets c = false /\ rows_ok rows /\ 0 <= budget /\
  budget < sum_kept (run_all c whale_ord sel_det rf_det budget rows []).
Proof.
  exists (cfg0 false), 55, fc06_rows. split; [reflexivity|]. split.
  - unfold rows_ok, fc06_rows. repeat (constructor; [simpl; lia|]). constructor.
  - split; [lia|]. vm_compute. reflexivity.
Qed.

(* ---------- non-vacuity ---------- *)
(* a bucket with two namespaces, three metrics, whales, a sampled metric and a row of size 0 *)
Definition ex_rows := [
  mkrow 0 40 9 1 0 1 11 2 1 1 false false [] [];
  mkrow 1 40 3 1 0 1 11 2 1 1 false false [] [];
  mkrow 2 40 5 1 0 1 11 2 1 1 false false [] [];
  mkrow 3 40 1 1 0 1 11 2 1 1 false false [] [];
  mkrow 4 30 0 2 0 2 12 1 1 3 true true [] [];
  mkrow 5 0 0 2 0 2 12 1 1 3 true true [] [];
  mkrow 6 20 0 3 0 2 12 1 1 1 false true [0] [7]].
Definition ex_selu (id : Z) : Q := if id =? 1 then (1 # 8)%Q else (7 # 8)%Q.
Example ex_run :
  map (fun o => (o_id o, o_kept o)) (run_all cfg_agent whale_ord (sel_random ex_selu) rf_det 120 ex_rows []) =
  [(5, false); (4, true); (6, false); (0, true); (1, true); (2, false); (3, false)].
Proof. vm_compute. reflexivity. Qed.
Example ex_run_factors :
  forallb (fun o => Qeq_bool (o_sf o) (if o_id o =? 5 then max_f32 else if o_id o =? 6 then 2 else if (o_id o =? 1) || (o_id o =? 2) || (o_id o =? 3) then 4 else 1))
    (run_all cfg_agent whale_ord (sel_random ex_selu) rf_det 120 ex_rows []) = true.
Proof. vm_compute. reflexivity. Qed.

(* a level on which within-share applies: three metrics of weights 1,3,1 and sizes 160,30,20 under budget 120 *)
Definition ex_top := mkgrp false 2 120 1 false 0 0 (isort (less_item cfg_agent) (filter (fun r => negb (r_size r <? 1)) ex_rows)).
Example ex_partition_plain :
  Forall plain (fst (partition cfg_agent ex_top)) /\ snd (partition cfg_agent ex_top) = sum_weight (fst (partition cfg_agent ex_top)) /\
  map (fun x => (g_size x, g_weight x)) (fst (partition cfg_agent ex_top)) = [(160, 1); (30, 3); (20, 1)].
Proof.
  split; [|split]; try (vm_compute; reflexivity).
  vm_compute. repeat (constructor; [repeat split; try reflexivity; discriminate|]). constructor.
Qed.

Example ex_quota :
  map (quota_of (mkgrp false 3 100 1 false 1 60 [])) [row_sz 0 10 0 1 0; row_sz 1 20 0 1 0; row_sz 2 30 0 1 0] = [16; 33; 50].
Proof. vm_compute. reflexivity. Qed.

(* F-C05b: no fixed budget is exceeded: metric 2 (size 5) is over its share of the bucket budget 2 and breaks the first
   loop; metric 1 (size 10, within its own fixed budget 15) is sorted after it, goes through sampler.sample and is kept
   for every draw with SF = 10/15 *)
Definition fc05b_rows := [row_sz 0 10 0 1 15; row_sz 1 5 0 2 0].
Definition fc05b_out := mkout 0 true (inject_Z 10 / inject_Z 15)%Q 10.
Theorem kept_factor_refuted_fixed_within_budget : exists c ord rf selu budget rows dr o,
  c_fix c = false /\ ord_ok ord /\ Forall (fun r => r_budget r = 0 \/ sum_size (filter (fun r' => r_metric r' =? r_metric r) rows) <= r_budget r) rows /\
  In o (run_all c ord (sel_random selu) rf budget rows dr) /\ ~ unbiased selu o.
Proof.
  exists (cfg_budgets false), whale_ord, rf_det, (fun _ => 0%Q), 2, fc05b_rows, [], fc05b_out.
  split; [reflexivity|]. split; [apply whale_ord_ok|]. split.
  - constructor; [right; vm_compute; discriminate|]. constructor; [left; reflexivity|]. constructor.
  - split; [vm_compute; auto|]. intros [[_ H]|[[H _]|[H _]]]; vm_compute in H; discriminate.
Qed.
Example repaired_on_witness_b :
  In (mkout 0 true 1%Q 10) (run_all (cfg_budgets true) whale_ord (sel_random (fun _ => 0%Q)) rf_det 2 fc05b_rows []).
Proof. vm_compute. auto. Qed.

(* F-C06c: on the F-C05b bucket the fixed-budget metric 1 (size 10 <= fixed budget 15) is not kept with factor 1 *)
Theorem fixed_within_budget_kept_refuted : exists c ord sel rf budget rows dr r,
  c_fix c = false /\ c_budgets c = true /\ In r rows /\ 0 < r_budget r /\
  sum_size (filter (fun r' => r_metric r' =? r_metric r) rows) <= r_budget r /\
  ~ In (keep 1 r) (run_all c ord sel rf budget rows dr).
Proof.
  exists (cfg_budgets false), whale_ord, sel_det, rf_det, 2, fc05b_rows, [], (row_sz 0 10 0 1 15).
  split; [reflexivity|]. split; [reflexivity|]. split; [left; reflexivity|]. split; [reflexivity|].
  split; [vm_compute; discriminate|].
  vm_compute. intros [H|[H|[]]]; discriminate.
Qed.
