(* C06: water-filling fairness of sampler.run, quota mode. *)
From Coq Require Import ZArith QArith List Bool Lia Permutation Sorted.
From SH Require Import Sampling.Model Sampling.Proofs Sampling.Factor.
Import ListNotations.
Open Scope Z_scope.

(* a.size/a.weight <= b.size/b.weight, compared exactly as the code does *)
Definition le_ratio (a b : grp) : Prop := g_size a * g_weight b <= g_size b * g_weight a.
(* a partition of a level: not a fixed-budget group, positive effective weight *)
Definition plain (x : grp) : Prop := g_fixed x = false /\ 0 < g_weight x /\ 0 <= g_size x.

Lemma le_ratio_trans : forall a b c, plain a -> plain b -> plain c -> le_ratio a b -> le_ratio b c -> le_ratio a c.
Proof. unfold le_ratio, plain. intros a b c [_ [Ha Sa]] [_ [Hb Sb]] [_ [Hc Sc]] H1 H2. nia. Qed.

Lemma not_less_le : forall a b, less_ratio a b = false -> le_ratio b a.
Proof. unfold less_ratio, le_ratio. intros a b H. apply Z.ltb_ge in H. lia. Qed.
Lemma less_le : forall a b, less_ratio a b = true -> le_ratio a b.
Proof. unfold less_ratio, le_ratio. intros a b H. apply Z.ltb_lt in H. lia. Qed.

(* ---------- insertion sort sorts (for a comparison that is a total preorder on the elements) ---------- *)
Definition ge_ratio (a b : grp) := le_ratio b a.

Lemma ins_forall : forall (P : grp -> Prop) x l, P x -> Forall P l -> Forall P (ins less_ratio x l).
Proof.
  induction l as [|y r IH]; intros Hx Hl; simpl; auto.
  inversion Hl; subst. destruct (less_ratio x y); auto.
Qed.

Lemma ins_sorted : forall x l, plain x -> Forall plain l ->
  StronglySorted ge_ratio l -> StronglySorted ge_ratio (ins less_ratio x l).
Proof.
  induction l as [|y r IH]; intros Hx Hl Hs; simpl.
  - constructor; auto.
  - inversion Hl as [|? ? Hy Hr]; subst. inversion Hs as [|? ? Hsr Hyr]; subst.
    destruct (less_ratio x y) eqn:E.
    + constructor; auto. apply ins_forall; auto. unfold ge_ratio. apply less_le. auto.
    + constructor; auto. constructor.
      * unfold ge_ratio. apply not_less_le in E. auto.
      * apply not_less_le in E. rewrite Forall_forall in *. intros z Hz. unfold ge_ratio in *.
        eapply (le_ratio_trans z y x); auto.
  Qed.

Lemma fold_ins_sorted : forall l acc, Forall plain l -> Forall plain acc -> StronglySorted ge_ratio acc ->
  StronglySorted ge_ratio (fold_left (fun racc x => ins less_ratio x racc) l acc) /\
  Forall plain (fold_left (fun racc x => ins less_ratio x racc) l acc).
Proof.
  induction l as [|x l IH]; intros acc Hl Ha Hs; simpl; auto.
  inversion Hl; subst. apply IH; auto.
  - apply ins_forall; auto.
  - apply ins_sorted; auto.
Qed.

Lemma ss_snoc : forall A (R : A -> A -> Prop) l x, StronglySorted R l -> Forall (fun y => R y x) l -> StronglySorted R (l ++ [x]).
Proof.
  induction l as [|a l IH]; intros x Hs Hf; simpl.
  - constructor; auto.
  - inversion Hs; subst. inversion Hf; subst. constructor; auto.
    apply Forall_app. split; auto.
Qed.
Lemma ss_rev : forall A (R : A -> A -> Prop) l, StronglySorted R l -> StronglySorted (fun a b => R b a) (rev l).
Proof.
  induction l as [|a l IH]; intros Hs; simpl. constructor.
  inversion Hs; subst. apply ss_snoc; auto.
  apply Forall_forall. intros y Hy. apply in_rev in Hy. rewrite Forall_forall in H2. auto.
Qed.

Theorem isort_ratio_sorted : forall s, Forall plain s -> StronglySorted le_ratio (isort less_ratio s).
Proof.
  intros s Hs. unfold isort.
  destruct (fold_ins_sorted s [] Hs) as [H _]; auto. constructor.
  apply ss_rev in H. auto.
Qed.

(* ---------- the first loop of sampler.run on a sorted level without fixed-budget groups ---------- *)
Fixpoint sum_gsize (s : list grp) : Z := match s with [] => 0 | x :: t => g_size x + sum_gsize t end.

Lemma sum_weight_cons : forall x t, sum_weight (x :: t) = g_weight x + sum_weight t.
Proof. auto. Qed.

Lemma sum_weight_nonneg : forall s, Forall plain s -> 0 <= sum_weight s.
Proof. induction 1 as [|x t [_ [Hw _]] _ IH]; unfold sum_weight in *; simpl; lia. Qed.

Section Level.
  Variable c : cfg.
  Variable ord : ord_t.
  Variable sel : sel_t.
  Variable rf : rf_t.
  Variable rec : grp -> list Q -> list out * list Q.

  (* "a partition whose size does not exceed its weight-proportional share of the budget available to its parent is
     kept entirely with factor 1" — one level: B the budget of the parent, W the sum of the effective weights *)
  Lemma loop1_within_share : forall s B dr x r,
    Forall plain s -> StronglySorted le_ratio s ->
    In x s -> g_size x * sum_weight s <= B * g_weight x -> In r (g_items x) ->
    In (keep 1 r) (fst (loop1 c ord sel rf rec s B (sum_weight s) dr)).
  Proof.
    induction s as [|y t IH]; intros B dr x r Hp Hs Hx Hshare Hr; [inversion Hx|].
    inversion Hp as [|? ? Hy Ht]; subst. inversion Hs as [|? ? Hst Hyt]; subst.
    destruct Hy as [Hyf [Hyw Hys]].
    assert (Hxp : plain x) by (rewrite Forall_forall in Hp; auto).
    destruct Hxp as [_ [Hxw Hxs]].
    pose proof (sum_weight_nonneg t Ht) as HWt.
    assert (Hyx : le_ratio y x).
    { destruct Hx as [E|Hx]; [subst; unfold le_ratio; lia|]. rewrite Forall_forall in Hyt. auto. }
    unfold le_ratio in Hyx. rewrite sum_weight_cons in *.
    set (W := g_weight y + sum_weight t) in *.
    simpl loop1. unfold budgeted. rewrite Hyf. simpl.
    assert (Hnb : (B * g_weight y <? W * g_size y) = false).
    { apply Z.ltb_ge. assert (0 <= W) by (unfold W; lia). nia. }
    rewrite Hnb. rewrite ?Hyf.
    match goal with |- context [let '(o2, dr2) := ?e in _] => destruct e as [o2 dr2] eqn:E2 end.
    simpl. apply in_or_app. destruct Hx as [E|Hx].
    - subst. left. unfold keep_all. simpl. apply in_map. auto.
    - right. replace (W - g_weight y) with (sum_weight t) in E2 by (unfold W; lia).
      specialize (IH (B - g_size y) dr x r Ht Hst Hx).
      rewrite E2 in IH. apply IH; auto. unfold W in Hshare. nia.
  Qed.

  Lemma sum_ratio : forall y t, Forall plain t -> Forall (le_ratio y) t ->
    g_size y * sum_weight t <= sum_gsize t * g_weight y.
  Proof.
    induction t as [|z t IH]; intros Hp Hl; simpl; [lia|].
    inversion Hp; subst. inversion Hl; subst. specialize (IH H2 H4). unfold le_ratio in H3.
    unfold sum_weight in *. simpl. lia.
  Qed.

  (* "if the whole bucket fits the budget nothing is sampled" — one level *)
  Lemma loop1_fits : forall s B dr,
    Forall plain s -> StronglySorted le_ratio s -> sum_gsize s <= B ->
    fst (loop1 c ord sel rf rec s B (sum_weight s) dr) = concat (map keep_all s).
  Proof.
    induction s as [|y t IH]; intros B dr Hp Hs Hfit; [auto|].
    inversion Hp as [|? ? Hy Ht]; subst. inversion Hs as [|? ? Hst Hyt]; subst.
    destruct Hy as [Hyf [Hyw Hys]].
    pose proof (sum_ratio y t Ht Hyt) as Hr. pose proof (sum_weight_nonneg t Ht) as HWt.
    rewrite sum_weight_cons in *. simpl in Hfit.
    set (W := g_weight y + sum_weight t) in *.
    simpl loop1. unfold budgeted. rewrite Hyf. simpl.
    assert (Hnb : (B * g_weight y <? W * g_size y) = false).
    { apply Z.ltb_ge. unfold W. nia. }
    rewrite Hnb. rewrite ?Hyf.
    match goal with |- context [let '(o2, dr2) := ?e in _] => destruct e as [o2 dr2] eqn:E2 end.
    simpl. f_equal. replace (W - g_weight y) with (sum_weight t) in E2 by (unfold W; lia).
    specialize (IH (B - g_size y) dr Ht Hst). rewrite E2 in IH. apply IH. lia.
  Qed.
End Level.

(* ---------- the same at the level of sampler.run, for any group at any depth ---------- *)
Section RunLevel.
  Variable c : cfg.
  Variable ord : ord_t.
  Variable sel : sel_t.
  Variable rf : rf_t.

  Lemma sum_weight_perm : forall a b, Permutation a b -> sum_weight a = sum_weight b.
  Proof. unfold sum_weight. induction 1; simpl; lia. Qed.
  Lemma sum_gsize_perm : forall a b, Permutation a b -> sum_gsize a = sum_gsize b.
  Proof. induction 1; simpl; lia. Qed.

  Theorem run_within_share : forall fuel g dr s W x r,
    partition c g = (s, W) -> W = sum_weight s -> Forall plain s ->
    In x s -> g_size x * W <= g_budget g * g_weight x -> In r (g_items x) ->
    In (keep 1 r) (fst (run c ord sel rf (S fuel) g dr)).
  Proof.
    intros fuel g dr s W x r Hp HW Hpl Hx Hshare Hr. simpl. rewrite Hp.
    pose proof (isort_perm _ less_ratio s) as Hperm.
    rewrite HW. rewrite <- (sum_weight_perm _ _ Hperm).
    apply loop1_within_share with (x := x); auto.
    - eapply Permutation_Forall; [apply Permutation_sym, Hperm|auto].
    - apply isort_ratio_sorted. auto.
    - eapply Permutation_in; [apply Permutation_sym, Hperm|auto].
    - rewrite (sum_weight_perm _ _ Hperm). subst W. auto.
  Qed.

  Theorem run_fits : forall fuel g dr s W o,
    partition c g = (s, W) -> W = sum_weight s -> Forall plain s -> sum_gsize s <= g_budget g ->
    In o (fst (run c ord sel rf (S fuel) g dr)) -> o_kept o = true /\ o_sf o = 1%Q.
  Proof.
    intros fuel g dr s W o Hp HW Hpl Hfit Ho. simpl in Ho. rewrite Hp in Ho.
    pose proof (isort_perm _ less_ratio s) as Hperm.
    rewrite HW in Ho. rewrite <- (sum_weight_perm _ _ Hperm) in Ho.
    rewrite loop1_fits in Ho.
    - apply in_concat in Ho. destruct Ho as [l [Hl Ho]]. apply in_map_iff in Hl. destruct Hl as [y [E _]]. subst.
      unfold keep_all in Ho. apply in_map_iff in Ho. destruct Ho as [r0 [E _]]. subst. auto.
    - eapply Permutation_Forall; [apply Permutation_sym, Hperm|auto].
    - apply isort_ratio_sorted. auto.
    - rewrite (sum_gsize_perm _ _ Hperm). auto.
  Qed.
End RunLevel.

(* ---------- what the partition functions produce when there is no fixed-budget split ---------- *)
Lemma part_simple_sumw : forall c k d items, snd (part_simple c k d items) = sum_weight (fst (part_simple c k d items)).
Proof. auto. Qed.

Definition rows_ok (l : list row) : Prop := Forall (fun r => 0 < r_mw r /\ 1 <= r_size r) l.

Lemma sum_size_nonneg : forall l, rows_ok l -> 0 <= sum_size l.
Proof. induction 1 as [|r t [_ Hs] _ IH]; simpl; lia. Qed.

Lemma clamp1_pos : forall x, 0 < clamp1 x.
Proof. intros. unfold clamp1. destruct (x <? 1) eqn:E; [lia|apply Z.ltb_ge in E; lia]. Qed.

Lemma concat_in_forall : forall (P : row -> Prop) rs l, Forall P (concat rs) -> In l rs -> Forall P l.
Proof.
  induction rs as [|a rs IH]; intros l H Hin; [inversion Hin|]. simpl in H. apply Forall_app in H. destruct H.
  destruct Hin; subst; auto.
Qed.

Lemma part_simple_plain : forall c k d items, rows_ok items -> Forall plain (fst (part_simple c k d items)).
Proof.
  intros c k d items Hok. unfold part_simple. simpl. apply Forall_forall. intros x Hx.
  apply in_map_iff in Hx. destruct Hx as [l [E Hl]]. subst.
  assert (Hl' : rows_ok l). { apply (concat_in_forall _ (runs (same c k) items)); auto. rewrite runs_concat. auto. }
  assert (Hne : l <> []). { pose proof (runs_nonempty (same c k) items) as Hn. rewrite Forall_forall in Hn. auto. }
  unfold plain, mk_simple. simpl. split; auto. split.
  - destruct l as [|h t]; [congruence|]. simpl. inversion Hl'; subst. destruct k; simpl; try apply clamp1_pos; lia.
  - apply sum_size_nonneg. auto.
Qed.

Lemma sum_gsize_simple : forall k d rs, sum_gsize (map (mk_simple k d) rs) = sum_size (concat rs).
Proof.
  assert (Happ : forall a b, sum_size (a ++ b) = sum_size a + sum_size b).
  { unfold sum_size. induction a; intros; simpl; auto. rewrite IHa. lia. }
  induction rs as [|l rs IH]; simpl; auto. rewrite IH, Happ. auto.
Qed.

Lemma partition_no_budget : forall c g, c_budgets c = false ->
  exists k, partition c g = part_simple c k (g_depth g) (g_items g).
Proof.
  intros c g Hb. unfold partition. destruct (g_depth g <? zlen (partf c)); [|eauto].
  unfold partf. rewrite Hb. simpl.
  destruct (c_nss c), (c_groups c); simpl;
    destruct (Z.to_nat (g_depth g)) as [|[|[|n]]]; simpl; eauto; destruct n; eauto.
Qed.

Lemma sum_size_perm : forall a b, Permutation a b -> sum_size a = sum_size b.
Proof. unfold sum_size. induction 1; simpl; lia. Qed.

Lemma rows_ok_small : forall rows, rows_ok rows -> filter (fun r => r_size r <? 1) rows = [].
Proof.
  intros rows Hok. induction Hok as [|r t [_ Hs] _ IH]; simpl; auto.
  replace (r_size r <? 1) with false by (symmetry; apply Z.ltb_ge; lia). exact IH.
Qed.
Lemma rows_ok_items : forall rows, rows_ok rows -> filter (fun r => negb (r_size r <? 1)) rows = rows.
Proof.
  intros rows Hok. induction Hok as [|r t [_ Hs] _ IH]; simpl; auto.
  replace (r_size r <? 1) with false by (symmetry; apply Z.ltb_ge; lia). simpl. f_equal. exact IH.
Qed.

(* "if the whole bucket fits the budget nothing is sampled" — whole Run, no fixed per-metric budgets in play *)
Theorem fits_budget_nothing_sampled : forall c ord sel rf budget rows dr o,
  c_budgets c = false -> rows_ok rows -> sum_size rows <= budget ->
  In o (run_all c ord sel rf budget rows dr) -> o_kept o = true /\ o_sf o = 1%Q.
Proof.
  intros c ord sel rf budget rows dr o Hb Hok Hfit Ho. unfold run_all in Ho.
  pose proof (rows_ok_small rows Hok) as Hsmall. pose proof (rows_ok_items rows Hok) as Hitems.
  rewrite Hsmall, Hitems in Ho.
  destruct rows as [|h t] eqn:Er; [simpl in Ho; tauto|].
  change (In o (fst (run c ord sel rf (S 11) (mkgrp false 0 budget 0 false 0 0 (isort (less_item c) (h :: t))) dr))) in Ho.
  rewrite <- Er in *.
  set (g := mkgrp false 0 budget 0 false 0 0 (isort (less_item c) rows)) in *.
  destruct (partition_no_budget c g Hb) as [k Hk].
  pose proof (isort_perm _ (less_item c) rows) as Hperm.
  assert (Hok' : rows_ok (g_items g)). { simpl. eapply Permutation_Forall; [apply Permutation_sym, Hperm|auto]. }
  apply (run_fits c ord sel rf 11 g dr (fst (part_simple c k (g_depth g) (g_items g))) (snd (part_simple c k (g_depth g) (g_items g))) o); auto.
  - apply part_simple_plain. auto.
  - unfold part_simple. simpl fst. rewrite sum_gsize_simple, runs_concat. simpl.
    rewrite (sum_size_perm _ _ Hperm). auto.
Qed.

(* ---------- sample factors of the siblings of one level grow with size/weight ---------- *)
Definition sib_sf (x : grp) (B W : Z) : Q := (inject_Z (W * g_size x) / inject_Z (B * g_weight x))%Q.

Lemma inj_pos' : forall z, 0 < z -> (0 < inject_Z z)%Q.
Proof. intros. change 0%Q with (inject_Z 0). rewrite <- Zlt_Qlt. auto. Qed.

Lemma Qdiv_le_cross : forall a1 b1 a2 b2 : Z, 0 < b1 -> 0 < b2 -> a1 * b2 <= a2 * b1 ->
  (inject_Z a1 / inject_Z b1 <= inject_Z a2 / inject_Z b2)%Q.
Proof.
  intros a1 b1 a2 b2 H1 H2 H. apply Qle_shift_div_l; [apply inj_pos'; auto|].
  assert (Hn : ~ (inject_Z b1 == 0)%Q).
  { intro Hc. pose proof (inj_pos' b1 H1) as Hp. rewrite Hc in Hp. discriminate. }
  assert (E : (inject_Z a1 / inject_Z b1 * inject_Z b2 == inject_Z (a1 * b2) / inject_Z b1)%Q).
  { rewrite inject_Z_mult. field. auto. }
  rewrite E. apply Qle_shift_div_r; [apply inj_pos'; auto|].
  rewrite <- inject_Z_mult. rewrite <- Zle_Qle. auto.
Qed.

Theorem sf_monotone_in_ratio : forall x y B W,
  0 < B -> 0 < W -> 0 < g_weight x -> 0 < g_weight y -> le_ratio x y -> (sib_sf x B W <= sib_sf y B W)%Q.
Proof.
  intros x y B W HB HW Hx Hy Hr. unfold sib_sf, le_ratio in *.
  apply Qdiv_le_cross; try nia.
  replace (W * g_size x * (B * g_weight y)) with ((W * B) * (g_size x * g_weight y)) by ring.
  replace (W * g_size y * (B * g_weight x)) with ((W * B) * (g_size y * g_weight x)) by ring.
  apply Z.mul_le_mono_nonneg_l; nia.
Qed.

(* ---------- quota mode: sampleQuota ---------- *)
Fixpoint sum_quota (g : grp) (l : list row) : Z := match l with [] => 0 | r :: t => quota_of g r + sum_quota g t end.

Lemma sum_quota_bound : forall g l, 0 < g_denom g * g_size g -> 0 <= g_budget g -> Forall (fun r => 0 <= r_size r) l ->
  sum_quota g l * (g_denom g * g_size g) <= g_budget g * sum_size l.
Proof.
  intros g l HD HB. induction 1 as [|r t Hr _ IH]; simpl; [lia|].
  unfold quota_of at 1. set (D := g_denom g * g_size g) in *.
  assert (Hq : Z.quot (g_budget g * r_size r) D * D <= g_budget g * r_size r).
  { rewrite Z.quot_div_nonneg by nia. rewrite Z.mul_comm. apply Z.mul_div_le. lia. }
  nia.
Qed.

(* "quota-mode budgets handed back to agents ... sum to at most the total budget" (the share budget/denom of the leaf) *)
Theorem quota_sum_le_budget : forall g, 0 < g_denom g -> 0 < g_size g -> 0 <= g_budget g ->
  g_size g = sum_size (g_items g) -> Forall (fun r => 0 <= r_size r) (g_items g) ->
  sum_quota g (g_items g) * g_denom g <= g_budget g.
Proof.
  intros g Hd Hs Hb Hsz Hr. pose proof (sum_quota_bound g (g_items g)) as H.
  assert (0 < g_denom g * g_size g) by nia. specialize (H H0 Hb Hr). rewrite <- Hsz in H. nia.
Qed.

(* "...are proportional to reported sizes": quota = floor(budget*size / (denom*sumSize)), monotone in the size *)
Theorem quota_proportional : forall g r, 0 < g_denom g * g_size g -> 0 <= g_budget g * r_size r ->
  quota_of g r = g_budget g * r_size r / (g_denom g * g_size g).
Proof. intros. unfold quota_of. apply Z.quot_div_nonneg; lia. Qed.

Theorem quota_monotone : forall g r1 r2, 0 < g_denom g * g_size g -> 0 <= g_budget g -> 0 <= r_size r1 <= r_size r2 ->
  quota_of g r1 <= quota_of g r2.
Proof.
  intros g r1 r2 HD HB Hs. rewrite !quota_proportional by nia. apply Z.div_le_mono; nia.
Qed.

(* the factor sampler.sample computes for a sibling that reached the second loop is sib_sf (before the whale doubling) *)
Lemma sib_sf_is_leaf_sf : forall x B W, g_fixed x = false -> 1 <= W * g_size x -> 1 <= B * g_weight x ->
  leaf_sf (budgeted x B W) = sib_sf x B W.
Proof.
  intros x B W Hf H1 H2. unfold leaf_sf, sib_sf, budgeted. rewrite Hf. simpl. unfold clamp1.
  replace (W * g_size x <? 1) with false by (symmetry; apply Z.ltb_ge; lia).
  replace (B * g_weight x <? 1) with false by (symmetry; apply Z.ltb_ge; lia). auto.
Qed.
