(* C05: the factor attached to a row is the inverse of its keep probability. *)
From Coq Require Import ZArith QArith Qround Qabs List Bool Lia Lqa Permutation.
From SH Require Import Sampling.Model Sampling.Proofs.
Import ListNotations.
Open Scope Z_scope.

(* ---------- selectRandom: row i is kept iff u_i * sf < 1 ---------- *)
Lemma partition_in : forall A (f : A -> bool) l x,
  (In x (fst (List.partition f l)) <-> In x l /\ f x = true) /\
  (In x (snd (List.partition f l)) <-> In x l /\ f x = false).
Proof.
  induction l as [|y t IH]; intros x; simpl.
  - tauto.
  - destruct (IH x) as [IH1 IH2]. destruct (List.partition f t) as [a b]. simpl in *.
    destruct (f y) eqn:E; simpl; split; split; intros H.
    + destruct H as [H|H]; [subst; auto|]. apply IH1 in H. tauto.
    + destruct H as [[H|H] Hf]; [auto|]. right. apply IH1. auto.
    + apply IH2 in H. tauto.
    + destruct H as [[H|H] Hf]; [subst; congruence|]. apply IH2. auto.
    + apply IH1 in H. tauto.
    + destruct H as [[H|H] Hf]; [subst; congruence|]. apply IH1. auto.
    + destruct H as [H|H]; [subst; auto|]. apply IH2 in H. tauto.
    + destruct H as [[H|H] Hf]; [auto|]. right. apply IH2. auto.
Qed.

Lemma draw_dec : forall u sf, negb (Qle_bool 1 (u * sf)) = true <-> (u * sf < 1)%Q.
Proof.
  intros. rewrite negb_true_iff. split; intros H.
  - apply Qnot_le_lt. intro Hc. apply Qle_bool_iff in Hc. congruence.
  - destruct (Qle_bool 1 (u * sf)) eqn:E; auto. apply Qle_bool_iff in E. apply Qle_not_lt in E. tauto.
Qed.

Theorem sel_random_spec : forall selu l sf r, (1 < sf)%Q ->
  (In r (fst (sel_random selu l sf)) <-> In r l /\ (selu (r_id r) * sf < 1)%Q) /\
  (In r (snd (sel_random selu l sf)) <-> In r l /\ ~ (selu (r_id r) * sf < 1)%Q).
Proof.
  intros selu l sf r Hsf. unfold sel_random.
  destruct (Qle_bool sf 1) eqn:E. { apply Qle_bool_iff in E. apply Qle_not_lt in E. tauto. }
  destruct (partition_in _ (fun r0 => negb (Qle_bool 1 (selu (r_id r0) * sf))) l r) as [H1 H2].
  split.
  - rewrite H1. rewrite draw_dec. tauto.
  - rewrite H2. split; intros [Hin Hd]; split; auto.
    + intro Hc. apply draw_dec in Hc. congruence.
    + destruct (negb (Qle_bool 1 (selu (r_id r) * sf))) eqn:E2; auto. apply draw_dec in E2. tauto.
Qed.

Lemma sel_random_all : forall selu l sf, (sf <= 1)%Q -> sel_random selu l sf = (l, []).
Proof. intros. unfold sel_random. apply Qle_bool_iff in H. rewrite H. auto. Qed.

(* ---------- the leaf: sampler.sample ---------- *)
Definition leaf_sf (g : grp) : Q := (inject_Z (clamp1 (g_denom g * g_size g)) / inject_Z (clamp1 (g_budget g)))%Q.
Definition leaf_pos (g : grp) : Z := zlen (g_items g) * clamp1 (g_budget g) / clamp1 (g_denom g * g_size g) / 2.
(* "sf' = 2*sf exactly when whales took half the budget" *)
Definition leaf_sf' (g : grp) : Q := if 0 <? leaf_pos g then (leaf_sf g * 2)%Q else leaf_sf g.

Definition keep_single (c : cfg) (g : grp) : bool :=
  match g_items g with [h] => c_keep_single c && r_single h | _ => false end.
Definition fix_keeps (c : cfg) (g : grp) : bool := c_fix c && negb (g_budget g <? g_denom g * g_size g).

(* what sampler.sample does to each row of a leaf when the selector is selectRandom with draws [selu]:
   it is a whale (kept, factor 1) or it carries sf' and is kept exactly when its draw satisfies u*sf' < 1
   (always, when sf' <= 1) *)
Theorem sample_random_spec : forall c ord selu g o,
  keep_single c g = false -> fix_keeps c g = false ->
  In o (sample c ord (sel_random selu) g) ->
  (o_kept o = true /\ o_sf o = 1%Q) \/
  (o_sf o = leaf_sf' g /\
   ((1 < leaf_sf' g)%Q -> (o_kept o = true <-> (selu (o_id o) * leaf_sf' g < 1)%Q)) /\
   ((leaf_sf' g <= 1)%Q -> o_kept o = true)).
Proof.
  intros c ord selu g o Hks Hfx Hin. unfold sample in Hin. unfold keep_single in Hks. unfold fix_keeps in Hfx.
  destruct (g_items g) as [|h t] eqn:Ei; [simpl in Hin; tauto|].
  assert (Hk : c_keep_single c && match t with [] => true | _ => false end && r_single h = false).
  { destruct t; [|rewrite andb_false_r; auto]. rewrite andb_true_r. auto. }
  rewrite Hk in Hin. rewrite Hfx in Hin.
  fold (leaf_sf g) in Hin. unfold leaf_sf', leaf_pos. rewrite Ei.
  set (n := zlen (h :: t)) in *.
  set (pos := n * clamp1 (g_budget g) / clamp1 (g_denom g * g_size g) / 2) in *.
  destruct (0 <? pos).
  - set (sf2 := (leaf_sf g * 2)%Q) in *.
    match type of Hin with context [sel_random selu ?l0 sf2] => set (l := l0) in * end.
    destruct (Qlt_le_dec 1 sf2) as [Hlt|Hle].
    + pose proof (fun r => sel_random_spec selu l sf2 r Hlt) as Hs.
      destruct (sel_random selu l sf2) as [k d]. simpl in Hs.
      apply in_app_or in Hin. destruct Hin as [Hin|Hin].
      * apply in_map_iff in Hin. destruct Hin as [r [E _]]. subst. left. auto.
      * right. apply in_app_or in Hin. destruct Hin as [Hin|Hin]; apply in_map_iff in Hin; destruct Hin as [r [E Hr]]; subst; simpl.
        -- split; auto. split; intros; [|exfalso; apply (Qlt_not_le _ _ Hlt); auto].
           split; auto. intros _. apply (Hs r). auto.
        -- split; auto. split; intros; [|exfalso; apply (Qlt_not_le _ _ Hlt); auto].
           split; [discriminate|]. intros Hd. apply (Hs r) in Hr. tauto.
    + rewrite (sel_random_all selu l sf2 Hle) in Hin.
      apply in_app_or in Hin. destruct Hin as [Hin|Hin].
      * apply in_map_iff in Hin. destruct Hin as [r [E _]]. subst. left. auto.
      * simpl in Hin. rewrite app_nil_r in Hin. apply in_map_iff in Hin. destruct Hin as [r [E Hr]]. subst. simpl.
        right. split; auto. split; auto. intros Hc. exfalso. apply (Qlt_not_le _ _ Hc). auto.
  - set (sf := leaf_sf g) in *.
    match type of Hin with context [sel_random selu ?l0 sf] => set (l := l0) in * end.
    destruct (Qlt_le_dec 1 sf) as [Hlt|Hle].
    + pose proof (fun r => sel_random_spec selu l sf r Hlt) as Hs.
      destruct (sel_random selu l sf) as [k d]. simpl in Hs.
      right. apply in_app_or in Hin. destruct Hin as [Hin|Hin]; apply in_map_iff in Hin; destruct Hin as [r [E Hr]]; subst; simpl.
      * split; auto. split; intros; [|exfalso; apply (Qlt_not_le _ _ Hlt); auto].
        split; auto. intros _. apply (Hs r). auto.
      * split; auto. split; intros; [|exfalso; apply (Qlt_not_le _ _ Hlt); auto].
        split; [discriminate|]. intros Hd. apply (Hs r) in Hr. tauto.
    + rewrite (sel_random_all selu l sf Hle) in Hin. simpl in Hin. rewrite app_nil_r in Hin.
      apply in_map_iff in Hin. destruct Hin as [r [E Hr]]. subst. simpl.
      right. split; auto. split; auto. intros Hc. exfalso. apply (Qlt_not_le _ _ Hc). auto.
Qed.

(* the whales: the first [pos] rows (capped at the number of rows) of the whale-sorted leaf are kept with factor 1,
   and pos = floor(floor(len / sf) / 2) *)
Theorem whales_kept : forall c ord sel g r,
  keep_single c g = false -> fix_keeps c g = false -> g_items g <> [] -> 0 < leaf_pos g ->
  In r (firstn (Z.to_nat (Z.min (leaf_pos g) (zlen (g_items g)))) (ord true (g_items g))) ->
  In (keep 1 r) (sample c ord sel g).
Proof.
  intros c ord sel g r Hks Hfx Hne Hpos Hin. unfold sample. unfold keep_single in Hks. unfold fix_keeps in Hfx.
  unfold leaf_pos in *. destruct (g_items g) as [|h t] eqn:Ei; [congruence|].
  assert (Hk : c_keep_single c && match t with [] => true | _ => false end && r_single h = false).
  { destruct t; [|rewrite andb_false_r; auto]. rewrite andb_true_r. auto. }
  rewrite Hk, Hfx.
  apply Z.ltb_lt in Hpos. rewrite Hpos.
  match goal with |- context [sel ?l ?sf] => destruct (sel l sf) as [k d] end.
  apply in_or_app. left. apply in_map. auto.
Qed.

(* ---------- expectation: SF * measure(keep event) = 1 ---------- *)
(* For a factor sf >= 1 the keep event {u in [0,1) : u*sf < 1} is the interval [0, 1/sf): its length is 1/sf,
   hence E[x * SF * 1_kept] = x * sf * (1/sf) = x for x = count, sum, sum of squares. *)
Theorem keep_event_is_interval : forall sf u : Q, (1 <= sf)%Q -> ((u * sf < 1)%Q <-> (u < 1 / sf)%Q).
Proof.
  intros sf u Hsf. assert (Hp : (0 < sf)%Q) by (eapply Qlt_le_trans; [|apply Hsf]; reflexivity).
  split; intros H.
  - apply Qlt_shift_div_l; auto.
  - assert (E : (u * sf < 1 / sf * sf)%Q) by (apply Qmult_lt_compat_r; auto).
    assert (E2 : (1 / sf * sf == 1)%Q) by (field; intro Hc; rewrite Hc in Hp; discriminate).
    rewrite E2 in E. auto.
Qed.

Theorem expected_value_preserved : forall sf x : Q, (1 <= sf)%Q ->
  (0 < 1 / sf)%Q /\ (1 / sf <= 1)%Q /\ (x * sf * (1 / sf) == x)%Q.
Proof.
  intros sf x Hsf. assert (Hp : (0 < sf)%Q) by (eapply Qlt_le_trans; [|apply Hsf]; reflexivity).
  split; [|split].
  - apply Qlt_shift_div_l; auto. rewrite Qmult_0_l. reflexivity.
  - apply Qle_shift_div_r; auto. rewrite Qmult_1_l. auto.
  - field. intro Hc. rewrite Hc in Hp. discriminate.
Qed.

(* ---------- a property of every outcome of a whole run ---------- *)
Section RunForall.
  Variable c : cfg.
  Variable ord : ord_t.
  Variable sel : sel_t.
  Variable rf : rf_t.
  Variable P : out -> Prop.
  Hypothesis Hkeep : forall r, P (keep 1 r).
  Hypothesis Hleaf : forall g, Forall P (leaf c ord sel g).

  Lemma Forall_map_keep : forall l, Forall P (map (keep 1) l).
  Proof. intros. apply Forall_forall. intros o Ho. apply in_map_iff in Ho. destruct Ho as [r [E _]]. subst. auto. Qed.

  Lemma loop2_forall : forall rec, (forall x dr, Forall P (fst (rec x dr))) -> forall s B W dr,
    Forall P (fst (loop2 c ord sel rf rec s B W dr)).
  Proof.
    intros rec Hrec. induction s as [|x0 t IH]; intros; simpl; auto.
    match goal with |- context [let '(o1, dr1) := ?e in _] => destruct e as [o1 dr1] eqn:E1 end.
    specialize (IH B W dr1). destruct (loop2 c ord sel rf rec t B W dr1) as [o2 dr2]. simpl in *.
    apply Forall_app. split; auto.
    destruct (g_nsa _ && c_agent c && negb (c_disable_nsa c)).
    { inversion E1; subst. apply Forall_map_keep. }
    destruct (g_depth _ <? _).
    - destruct (g_fixed _).
      + replace o1 with (fst (rec (budgeted x0 B W) dr)) by (rewrite E1; auto). apply Hrec.
      + destruct (rf _ _ dr) as [b dr'].
        match type of E1 with rec ?x ?d = _ => replace o1 with (fst (rec x d)) by (rewrite E1; auto) end. apply Hrec.
    - inversion E1; subst. apply Hleaf.
  Qed.

  Lemma loop1_forall : forall rec, (forall x dr, Forall P (fst (rec x dr))) -> forall s B W dr,
    Forall P (fst (loop1 c ord sel rf rec s B W dr)).
  Proof.
    intros rec Hrec. induction s as [|x0 t IH]; intros; simpl; auto.
    destruct (_ <? _).
    - apply (loop2_forall rec Hrec (x0 :: t)).
    - match goal with |- context [let '(o2, dr2) := ?e in _] => destruct e as [o2 dr2] eqn:E2 end.
      simpl. apply Forall_app. split; [apply Forall_map_keep|].
      destruct (g_fixed _).
      + specialize (IH B W dr). rewrite E2 in IH. auto.
      + match type of E2 with loop1 _ _ _ _ _ _ ?b ?w _ = _ => specialize (IH b w dr) end. rewrite E2 in IH. auto.
  Qed.

  Lemma run_forall : forall fuel g dr, Forall P (fst (run c ord sel rf fuel g dr)).
  Proof.
    induction fuel as [|f IH]; intros; simpl; auto.
    destruct (partition c g) as [s W]. apply loop1_forall. auto.
  Qed.

  Lemma run_all_forall : (forall r, P (discard max_f32 r)) -> forall budget rows dr,
    Forall P (run_all c ord sel rf budget rows dr).
  Proof.
    intros Hd budget rows dr. unfold run_all. apply Forall_app. split.
    - apply Forall_forall. intros o Ho. apply in_map_iff in Ho. destruct Ho as [r [E _]]. subst. auto.
    - destruct (filter _ rows); auto. apply run_forall.
  Qed.
End RunForall.

(* the statement of C05 about one outcome, for the draws [selu] *)
Definition unbiased (selu : Z -> Q) (o : out) : Prop :=
  (o_kept o = true /\ (o_sf o == 1)%Q) \/
  ((1 < o_sf o)%Q /\ (o_kept o = true <-> (selu (o_id o) * o_sf o < 1)%Q)) \/
  (o_kept o = false /\ o_sf o = max_f32).

Lemma clamp1_ge : forall x, 1 <= clamp1 x.
Proof. intros. unfold clamp1. destruct (x <? 1) eqn:E; [lia|apply Z.ltb_ge in E; lia]. Qed.

Lemma inj_pos : forall z, 0 < z -> (0 < inject_Z z)%Q.
Proof. intros. change 0%Q with (inject_Z 0). rewrite <- Zlt_Qlt. auto. Qed.

Lemma leaf_sf_pos : forall g, (0 < leaf_sf g)%Q.
Proof.
  intros. unfold leaf_sf. pose proof (clamp1_ge (g_denom g * g_size g)). pose proof (clamp1_ge (g_budget g)).
  apply Qlt_shift_div_l; [apply inj_pos; lia|]. rewrite Qmult_0_l. apply inj_pos.
  apply Z.lt_le_trans with 1; [reflexivity|apply clamp1_ge].
Qed.

(* a leaf whose budget is below its size has a factor above 1 *)
Lemma leaf_sf_ge1 : forall g, g_budget g < g_denom g * g_size g -> (1 <= leaf_sf g)%Q.
Proof.
  intros g H. unfold leaf_sf. pose proof (clamp1_ge (g_budget g)).
  apply Qle_shift_div_l; [apply inj_pos; lia|]. rewrite Qmult_1_l. rewrite <- Zle_Qle.
  unfold clamp1. destruct (g_budget g <? 1) eqn:E1; destruct (g_denom g * g_size g <? 1) eqn:E2;
    try apply Z.ltb_lt in E1; try apply Z.ltb_lt in E2; try apply Z.ltb_ge in E1; try apply Z.ltb_ge in E2; lia.
Qed.

Lemma leaf_sf'_ge : forall g, (leaf_sf g <= leaf_sf' g)%Q.
Proof.
  intros. unfold leaf_sf'. pose proof (leaf_sf_pos g). destruct (0 <? leaf_pos g); [|apply Qle_refl]. lra.
Qed.

Lemma sample_unbiased_if_over : forall c ord selu g,
  (fix_keeps c g = false -> keep_single c g = false -> g_budget g < g_denom g * g_size g) ->
  Forall (unbiased selu) (sample c ord (sel_random selu) g).
Proof.
  intros c ord selu g Hover. apply Forall_forall. intros o Ho.
  destruct (keep_single c g) eqn:Eks.
  { unfold sample in Ho. unfold keep_single in Eks. destruct (g_items g) as [|h [|h2 t]]; try discriminate.
    rewrite andb_true_r, Eks in Ho. simpl in Ho. destruct Ho as [E|[]]. subst. left. simpl. split; auto. reflexivity. }
  destruct (fix_keeps c g) eqn:Efx.
  { unfold sample in Ho. unfold fix_keeps in Efx. unfold keep_single in Eks. destruct (g_items g) as [|h t] eqn:Ei; [simpl in Ho; tauto|].
    assert (Hk : c_keep_single c && match t with [] => true | _ => false end && r_single h = false).
    { destruct t; [|rewrite andb_false_r; auto]. rewrite andb_true_r. auto. }
    rewrite Hk, Efx in Ho. apply in_map_iff in Ho. destruct Ho as [r [E _]]. subst. left. simpl. split; auto. reflexivity. }
  specialize (Hover eq_refl eq_refl).
  pose proof (leaf_sf_ge1 g Hover) as H1. pose proof (leaf_sf'_ge g) as H2.
  destruct (sample_random_spec c ord selu g o Eks Efx Ho) as [[Hk Hs]|[Hs [Hr Hall]]].
  - left. rewrite Hs. split; auto. reflexivity.
  - destruct (Qlt_le_dec 1 (leaf_sf' g)) as [H3|H3].
    + right. left. rewrite Hs. split; auto.
    + left. rewrite Hs. split; auto. apply Qle_antisym; auto. lra.
Qed.

Lemma sample_quota_unbiased : forall selu g, Forall (unbiased selu) (sample_quota g).
Proof.
  intros. apply Forall_forall. intros o Ho. unfold sample_quota in Ho. apply in_map_iff in Ho.
  destruct Ho as [r [E _]]. subst. destruct (quota_of g r <? 1).
  - right. right. auto.
  - left. simpl. split; auto. reflexivity.
Qed.

(* Repaired variant (c_fix = true: sample keeps a group that fits its budget with factor 1): every outcome of every
   run is unbiased, for all options, budgets, weights, RoundF and orders. *)
Theorem repaired_every_outcome_unbiased : forall c ord rf selu budget rows dr,
  c_fix c = true ->
  Forall (unbiased selu) (run_all c ord (sel_random selu) rf budget rows dr).
Proof.
  intros c ord rf selu budget rows dr Hfix. apply run_all_forall.
  - intros r. left. simpl. split; auto. reflexivity.
  - intros g. unfold leaf. destruct (c_quota c); [apply sample_quota_unbiased|].
    apply sample_unbiased_if_over. intros Hfx _. unfold fix_keeps in Hfx. rewrite Hfix in Hfx. simpl in Hfx.
    apply negb_false_iff in Hfx. apply Z.ltb_lt. auto.
  - intros r. right. right. auto.
Qed.

(* ---------- noSampleAgent: a group marked not-to-sample on an agent is kept entirely with factor 1 ---------- *)
Section NoSampleAgent.
  Variable c : cfg.
  Variable ord : ord_t.
  Variable sel : sel_t.
  Variable rf : rf_t.
  Variable rec : grp -> list Q -> list out * list Q.
  Hypothesis Hagent : c_agent c = true.
  Hypothesis Hnd : c_disable_nsa c = false.

  Lemma budgeted_nsa : forall x B W, g_nsa (budgeted x B W) = g_nsa x.
  Proof. intros. unfold budgeted. destruct (g_fixed x); auto. Qed.

  Lemma loop2_nsa_kept : forall s B W dr x r,
    In x s -> g_nsa x = true -> In r (g_items x) -> In (keep 1 r) (fst (loop2 c ord sel rf rec s B W dr)).
  Proof.
    induction s as [|y t IH]; intros B W dr x r Hx Hn Hr; [inversion Hx|]. simpl.
    match goal with |- context [let '(o1, dr1) := ?e in _] => destruct e as [o1 dr1] eqn:E1 end.
    specialize (IH B W dr1 x r). destruct (loop2 c ord sel rf rec t B W dr1) as [o2 dr2]. simpl in *.
    apply in_or_app. destruct Hx as [E|Hx]; [|right; auto].
    subst y. left. rewrite budgeted_nsa, Hn, Hagent, Hnd in E1. simpl in E1. inversion E1; subst.
    unfold keep_all. apply in_map. unfold budgeted. destruct (g_fixed x); auto.
  Qed.

  Lemma loop1_nsa_kept : forall s B W dr x r,
    In x s -> g_nsa x = true -> In r (g_items x) -> In (keep 1 r) (fst (loop1 c ord sel rf rec s B W dr)).
  Proof.
    induction s as [|y t IH]; intros B W dr x r Hx Hn Hr; [inversion Hx|]. simpl.
    destruct (_ <? _).
    - apply (loop2_nsa_kept (y :: t) B W dr x r); auto.
    - match goal with |- context [let '(o2, dr2) := ?e in _] => destruct e as [o2 dr2] eqn:E2 end.
      simpl. apply in_or_app. destruct Hx as [E|Hx].
      + subst y. left. unfold keep_all. apply in_map. unfold budgeted. destruct (g_fixed x); auto.
      + right. destruct (g_fixed _).
        * specialize (IH B W dr x r Hx Hn Hr). rewrite E2 in IH. auto.
        * match type of E2 with loop1 _ _ _ _ _ _ ?b ?w _ = _ => specialize (IH b w dr x r Hx Hn Hr) end. rewrite E2 in IH. auto.
  Qed.
End NoSampleAgent.

(* the metric-level (and fair-key, and fixed-budget) groups carry the NoSampleAgent flag of their metric *)
Lemma metric_group_nsa : forall d h t, g_nsa (mk_simple KMetric d (h :: t)) = r_nsa h.
Proof. auto. Qed.
Lemma key_group_nsa : forall i d h t, g_nsa (mk_simple (KKey i) d (h :: t)) = r_nsa h.
Proof. auto. Qed.
Lemma fixed_group_nsa : forall c h t, g_nsa (mk_fixed c (h :: t)) = r_nsa h.
Proof. auto. Qed.
