(* C21 — invariants of whole cache histories (add/get/evict/ttl/resize/save/reload). *)
From Coq Require Import ZArith List Bool Lia.
From SH Require Import Common.Wrap Chunked.Model Chunked.ProofsMap Chunked.ProofsCache Chunked.ProofsCodec.
Import ListNotations.
Open Scope Z_scope.

(* the Go types of the arguments: nowUnix/accessTS are uint32, values are int32 *)
Definition op_typed (o : op) : Prop :=
  match o with
  | AAdd now ps _ => is_u32 now /\ forall k v, In (k, v) ps -> is_i32 v
  | AGet ts _ => is_u32 ts
  | _ => True
  end.

Lemma length_remove m k e0 : NoDup (keys m) -> lookup k m = Some e0 -> length m = S (length (remove k m)).
Proof.
  induction m as [|[k2 e2] m IH]; simpl; [discriminate|]. intro ND. inversion ND; subst.
  destruct (list_eqb k k2) eqn:E.
  - apply list_eqb_eq in E. subst. intros _. rewrite remove_absent by (apply lookup_None; assumption). reflexivity.
  - intro L. simpl. rewrite (IH H2 L). reflexivity.
Qed.

Lemma same_map_sums : forall order m, NoDup (keys m) -> NoDup (keys order) -> length m = length order ->
  (forall it, In it order -> item_in m it = true) -> esize order = esize m /\ ets order = ets m.
Proof.
  induction order as [|[k e] r IH]; intros m NDm NDo Hlen HI.
  - destruct m; [split; reflexivity|discriminate].
  - pose proof (HI (k, e) (or_introl eq_refl)) as Hk. apply item_in_lookup in Hk as [e0 [L [_ T]]]. simpl in L, T.
    inversion NDo; subst.
    destruct (IH (remove k m)) as [A B].
    + apply remove_NoDup, NDm.
    + assumption.
    + rewrite (length_remove m k e0 NDm L) in Hlen. simpl in Hlen. lia.
    + intros it Hin. specialize (HI it (or_intror Hin)). unfold item_in in *. rewrite lookup_remove_other; [assumption|].
      intro E. apply H1. rewrite <- E. apply (in_map fst), Hin.
    + rewrite (esize_remove m k e0 NDm L) in A. rewrite (ets_remove m k e0 NDm L) in B.
      unfold esize, ets in *. simpl. split; lia.
Qed.

Lemma same_map_props m order : same_map m order = true ->
  length m = length order /\ NoDup (keys order) /\ forall it, In it order -> item_in m it = true.
Proof.
  unfold same_map. intro Hh. apply andb_prop in Hh as [Hh H3]. apply andb_prop in Hh as [H1 H2].
  apply Z.eqb_eq in H1. unfold zlen in H1. splits.
  - lia.
  - apply keys_distinct_NoDup, H2.
  - rewrite forallb_forall in H3. exact H3.
Qed.

Lemma accepts_items_valid det c items : accepts_items det c items = true -> valid_items c items.
Proof.
  unfold accepts_items. intro Hh. apply andb_prop in Hh as [Hh _]. apply andb_prop in Hh as [H1 H2].
  split; [apply keys_distinct_NoDup, H1|]. rewrite forallb_forall in H2. exact H2.
Qed.
Lemma accepts_ttl_valid maxc now c items : accepts_ttl maxc now c items = true -> valid_items c items.
Proof.
  unfold accepts_ttl. intro Hh. do 3 (apply andb_prop in Hh as [Hh _]). apply andb_prop in Hh as [H1 H2].
  split; [apply keys_distinct_NoDup, H1|]. rewrite forallb_forall in H2. exact H2.
Qed.

Section Hist.
  Variable Q : bytes -> Z -> Prop.
  Variable fixed : bool.
  Variable B : option Z.     (* Some ms: the size limit is ms during the whole history *)
  Hypothesis Qi32 : forall k v, Q k v -> is_i32 v.

  Definition bound (c : cache) : Prop :=
    match B with Some ms => c_sum_size c <= ms /\ c_max_size c = ms | None => True end.
  Definition cinv (c : cache) : Prop :=
    wfm c /\ allQ Q (c_map c) /\ allT (c_map c) /\ over c /\ (fixed = true -> exact c) /\ bound c.
  Definition finv (file : list bytes) : Prop :=
    exists order, NoDup (keys order) /\ allQ Q order /\ allT order /\
                  group_bodies [] (map item_bytes order) = Some file /\
                  match B with Some ms => esize order <= ms | None => True end.
  Definition op_ok (o : op) : Prop :=
    op_typed o /\
    match o with
    | AAdd now ps _ => forall k v, In (k, v) ps -> zlen k <> 0 -> is_marker v = false -> Q k v
    | ASetSize ms' _ | AReload ms' _ => match B with Some ms => ms' = ms | None => True end
    | _ => True
    end.

  Lemma cinv_frame c c' : c_map c' = c_map c -> c_sum_size c' = c_sum_size c -> c_sum_ts c' = c_sum_ts c ->
    c_max_size c' = c_max_size c -> cinv c -> cinv c'.
  Proof.
    unfold cinv, wfm, over, exact, bound. intros -> -> -> E. destruct B; rewrite ?E; tauto.
  Qed.

  Lemma add_values_inv now ps items det c file :
    cinv c -> op_ok (AAdd now ps items) -> op_accepts fixed det (c, file) (AAdd now ps items) = true ->
    cinv (add_values fixed now ps items c).
  Proof.
    intros (W & AQ & AT & O & E & Bd) [[Tn Tv] HQ] Acc. unfold add_values.
    simpl in Acc. unfold add_takes_slow_path in Acc.
    set (ps' := filter_pairs fixed (c_map c) [] ps) in *.
    assert (Hps : forall k v, In (k, v) ps' -> Q k v /\ lookup k (c_map c) = None).
    { intros k v Hin. apply filter_pairs_spec in Hin as (A1 & A2 & A3 & A4 & _). split; [apply HQ|]; assumption. }
    assert (Hnd : fixed = true -> NoDup (map fst ps')).
    { intros ->. apply filter_pairs_nodup. }
    destruct ps' as [|p0 pr] eqn:Eps; [unfold cinv; tauto|]. rewrite <- Eps in *. clear Eps.
    destruct (c_sum_size c + sum_mem ps' <=? c_max_size c) eqn:G.
    - apply Z.leb_le in G. destruct (add_all_inv Q now ps' c W) as [(W2 & A2 & T2 & O2 & E2 & F2) S2].
      apply (cinv_frame (add_all now ps' c)); try reflexivity.
      unfold cinv. splits; try tauto.
      + apply A2; [intros; apply Hps; assumption|assumption].
      + intro Fx. apply E2; [apply Hnd, Fx|intros; eapply Hps; eassumption|apply E, Fx].
      + unfold bound in *. destruct B; [|exact I]. destruct F2 as [F2 _]. rewrite F2, S2. lia.
    - simpl in Acc. apply accepts_items_valid in Acc.
      pose proof (evict_loop_inv Q now (sum_mem ps') items c W Acc) as (W1 & A1 & T1 & O1 & E1 & S1 & F1 & K1).
      destruct (add_loop_inv Q now ps' _ W1) as [(W2 & A2 & T2 & O2 & E2 & F2) S2].
      apply (cinv_frame (add_loop now ps' (evict_loop now (sum_mem ps') items c))); try reflexivity.
      unfold cinv. splits; try tauto.
      + apply A2; [intros; apply Hps; assumption|tauto].
      + intro Fx. apply E2; [apply Hnd, Fx| |apply E1, E, Fx]. intros k v Hin. apply K1. eapply Hps, Hin.
      + unfold bound in *. destruct B; [|exact I]. destruct F1 as [F1 _]. destruct F2 as [F2 _]. rewrite F2, F1 in *. lia.
  Qed.

  Lemma get_value_inv ts k c : cinv c -> is_u32 ts -> cinv (fst (get_value ts k c)).
  Proof.
    intros (W & AQ & AT & O & E & Bd) Tt. unfold get_value. destruct (lookup k (c_map c)) as [e|] eqn:L; [|unfold cinv; tauto].
    destruct (ts <=? e_ts e); [unfold cinv; tauto|]. simpl.
    unfold cinv, wfm, over, exact, bound in *. simpl. splits.
    - apply set_NoDup, W.
    - intros k' e' Hin. apply In_set in Hin as [[-> ->]|Hin]; [simpl; apply (AQ k e), lookup_In, L|eapply AQ, Hin].
    - intros k' e' Hin. apply In_set in Hin as [[-> ->]|Hin]; [exact Tt|eapply AT, Hin].
    - erewrite esize_set_present by eassumption. exact O.
    - intro Fx. destruct (E Fx) as [E1 E2]. erewrite esize_set_present by eassumption.
      rewrite (ets_set_present _ _ _ _ W L). simpl. lia.
    - exact Bd.
  Qed.

  Lemma removal_cinv c c' : cinv c -> removal_inv Q c c' -> cinv c'.
  Proof.
    intros (W & AQ & AT & O & E & Bd) (W1 & A1 & T1 & O1 & E1 & S1 & F1 & K1).
    unfold cinv. splits; try tauto. unfold bound in *. destruct B; [|exact I]. destruct F1 as [F1 _]. rewrite F1. lia.
  Qed.

  Lemma hstep_inv det c file o :
    cinv c -> finv file -> op_ok o -> op_accepts fixed det (c, file) o = true ->
    cinv (fst (fst (fst (hstep fixed (c, file) o)))) /\ finv (snd (fst (fst (hstep fixed (c, file) o)))).
  Proof.
    intros CI FI OK Acc. destruct o as [now ps items|ts k|maxc now items|ms ttl|order|ms ttl]; simpl.
    - split; [eapply add_values_inv; eassumption|assumption].
    - destruct (get_value ts k c) as [c' r] eqn:G. simpl. split; [|assumption].
      replace c' with (fst (get_value ts k c)) by (rewrite G; reflexivity). apply get_value_inv; [assumption|apply OK].
    - split; [|assumption]. simpl in Acc. apply accepts_ttl_valid in Acc.
      eapply removal_cinv; [eassumption|]. apply remove_by_ttl_inv; [apply CI|assumption].
    - split; [|assumption]. destruct CI as (W & AQ & AT & O & E & Bd). unfold cinv, wfm, over, exact, bound in *. simpl.
      splits; try tauto. destruct OK as [_ OK]. destruct B; [|exact I]. subst. split; [tauto|reflexivity].
    - destruct (c_version c =? c_saved c) eqn:V; simpl; [tauto|]. simpl in Acc. rewrite V in Acc. simpl in Acc.
      destruct (group_bodies [] (map item_bytes order)) as [bs|] eqn:G; simpl; [|tauto].
      apply andb_prop in Acc as [SM _]. apply same_map_props in SM as (Hlen & NDo & HI).
      destruct CI as (W & AQ & AT & O & E & Bd). split.
      + unfold cinv, wfm, over, exact, bound in *. simpl. tauto.
      + exists order. splits; try assumption.
        * intros k e Hin. apply HI, item_in_lookup in Hin as [e0 [L [Ev _]]]. simpl in L, Ev. rewrite <- Ev. eapply AQ, lookup_In, L.
        * intros k e Hin. apply HI, item_in_lookup in Hin as [e0 [L [_ Et]]]. simpl in L, Et. rewrite <- Et. eapply AT, lookup_In, L.
        * unfold bound, over in *. destruct B; [|exact I].
          destruct (same_map_sums order (c_map c) W NDo Hlen HI) as [S1 _]. destruct Bd as [Bd1 _]. rewrite S1. eapply Z.le_trans; eassumption.
    - destruct FI as (order & NDo & AQo & ATo & G & Bo).
      assert (VO : vals_ok order).
      { intros [k e] Hin. simpl. split; [eapply Qi32, AQo, Hin|eapply ATo, Hin]. }
      rewrite (save_load_bodies order file ms G NDo VO). simpl. split.
      + unfold cinv, wfm, over, exact, bound. simpl. splits; try tauto; try lia.
        destruct OK as [_ OK]. destruct B; [|exact I]. subst. split; [assumption|reflexivity].
      + exists order. tauto.
  Qed.

  Lemma hrun_inv det : forall ops st st',
    (forall o, In o ops -> op_ok o) -> cinv (fst st) -> finv (snd st) ->
    hrun fixed det st ops = Some st' -> cinv (fst st') /\ finv (snd st').
  Proof.
    induction ops as [|o r IH]; intros [c file] st' OK CI FI Hr; simpl in *.
    - inversion Hr; subst. tauto.
    - destruct (op_accepts fixed det (c, file) o) eqn:Acc; [|discriminate].
      destruct (hstep_inv det c file o CI FI (OK o (or_introl eq_refl)) Acc) as [CI' FI'].
      eapply IH; [| | |exact Hr]; try assumption. intros o' Hin. apply OK. right; assumption.
  Qed.
End Hist.

Lemma cinv_new Q fixed B ms ttl : match B with Some b => b = ms /\ 0 <= ms | None => True end -> cinv Q fixed B (new_cache ms ttl).
Proof.
  intro HB. unfold cinv. splits.
  - unfold wfm; simpl; constructor.
  - intros k e [].
  - intros k e [].
  - unfold over, esize; simpl; lia.
  - intros _. unfold exact, esize, ets; simpl; split; reflexivity.
  - unfold bound. destruct B; [|exact I]. destruct HB; subst. simpl. split; [lia|reflexivity].
Qed.
Lemma finv_nil Q B : match B with Some b => 0 <= b | None => True end -> finv Q B [].
Proof.
  intro HB. exists []. splits.
  - constructor.
  - intros k e [].
  - intros k e [].
  - reflexivity.
  - destruct B; [|exact I]. unfold esize; simpl; lia.
Qed.
