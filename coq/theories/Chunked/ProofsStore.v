(* C21 — chunked storage: what the reader does on (possibly damaged) frames; round trip; truncation. *)
From Coq Require Import ZArith List Bool Lia.
From SH Require Import Common.Wrap Chunked.Model Chunked.ProofsMap Chunked.ProofsCache Chunked.ProofsCodec.
Import ListNotations.
Open Scope Z_scope.

Lemma slice_at (pre x post f : bytes) o l : f = pre ++ x ++ post -> o = zlen pre -> l = zlen x -> slice f o l = x.
Proof.
  intros -> -> ->. unfold slice, zlen. rewrite !Nat2Z.id. rewrite skipn_app_exact by reflexivity. apply firstn_app_exact. reflexivity.
Qed.

Lemma zlen_le32 x : zlen (le32 x) = 4.
Proof. unfold zlen. rewrite le32_length. reflexivity. Qed.

Section Store.
  Variable H : bytes -> bytes.
  Hypothesis H_len : forall x, length (H x) = 16%nat.

  Lemma zlen_H x : zlen (H x) = 16.
  Proof. unfold zlen. rewrite H_len. reflexivity. Qed.

  (* ReadNext positioned on a frame whose magic bytes [m], body bytes [b] and trailer [t] are arbitrary
     (only the size field is the one written for [b]) *)
  Lemma read_next_at magic st pre m b t post :
    s_file st = pre ++ m ++ le32 (zlen b) ++ b ++ t ++ post ->
    zlen m = 4 -> zlen t = 16 -> zlen b <= ChunkSize ->
    s_noff st = zlen pre -> s_size st = zlen (s_file st) -> s_reading st = true ->
    read_next H magic st =
      if negb (le_val m =? magic) then (set_pos st, RErr EMagic)
      else if list_eqb (H (s_nhash st ++ m ++ le32 (zlen b) ++ b)) t
           then (set_next (set_pos st) (zlen pre + 24 + zlen b) t, RChunk b)
           else (set_pos st, RErr EHash).
  Proof.
    intros Hf Hm Ht Hb Hoff Hsz Hrd.
    pose proof (zlen_nonneg pre). pose proof (zlen_nonneg b). pose proof (zlen_nonneg post).
    assert (Hlen : zlen (s_file st) = zlen pre + 24 + zlen b + zlen post).
    { rewrite Hf, !zlen_app, zlen_le32. lia. }
    unfold read_next. rewrite Hrd. simpl negb. cbv iota. cbv zeta.
    change (s_off (set_pos st)) with (s_noff st). change (s_size (set_pos st)) with (s_size st).
    change (s_file (set_pos st)) with (s_file st). change (s_hash (set_pos st)) with (s_nhash st).
    unfold hdr_size, hash_size. rewrite Hsz, Hoff, Hlen.
    destruct (zlen pre =? zlen pre + 24 + zlen b + zlen post) eqn:E1; [apply Z.eqb_eq in E1; lia|].
    destruct (zlen pre + 24 + zlen b + zlen post <? zlen pre + 8 + 16) eqn:E2; [apply Z.ltb_lt in E2; lia|].
    assert (S1 : slice (s_file st) (zlen pre) 4 = m).
    { apply (slice_at pre m (le32 (zlen b) ++ b ++ t ++ post)); [assumption|reflexivity|lia]. }
    assert (S2 : slice (s_file st) (zlen pre + 4) 4 = le32 (zlen b)).
    { apply (slice_at (pre ++ m) (le32 (zlen b)) (b ++ t ++ post)); [rewrite Hf, <- !app_assoc; reflexivity|rewrite zlen_app; lia|rewrite zlen_le32; reflexivity]. }
    rewrite S1, S2, le_val_le32. rewrite (u32_id (zlen b)) by (unfold is_u32, two32, ChunkSize in *; lia).
    destruct (negb (le_val m =? magic)); [reflexivity|].
    destruct (ChunkSize <? zlen b) eqn:E3; [apply Z.ltb_lt in E3; lia|].
    destruct (zlen pre + 24 + zlen b + zlen post <? zlen pre + 8 + zlen b + 16) eqn:E4; [apply Z.ltb_lt in E4; lia|].
    assert (S3 : slice (s_file st) (zlen pre + 8 + zlen b) 16 = t).
    { apply (slice_at (pre ++ m ++ le32 (zlen b) ++ b) t post); [rewrite Hf, <- !app_assoc; reflexivity|rewrite !zlen_app, zlen_le32; lia|lia]. }
    assert (S4 : slice (s_file st) (zlen pre) (8 + zlen b) = m ++ le32 (zlen b) ++ b).
    { apply (slice_at pre (m ++ le32 (zlen b) ++ b) (t ++ post)); [rewrite Hf, <- !app_assoc; reflexivity|reflexivity|rewrite !zlen_app, zlen_le32; lia]. }
    assert (S5 : slice (s_file st) (zlen pre + 8) (zlen b) = b).
    { apply (slice_at (pre ++ m ++ le32 (zlen b)) b (t ++ post)); [rewrite Hf, <- !app_assoc; reflexivity|rewrite !zlen_app, zlen_le32; lia|reflexivity]. }
    rewrite S3, S4, S5.
    replace (zlen pre + 8 + zlen b + 16) with (zlen pre + 24 + zlen b) by lia. reflexivity.
  Qed.

  (* ---- a saved file whose magic and body bytes were replaced arbitrarily (size fields and trailers intact) ---- *)
  Record dframe := { d_m : bytes; d_b : bytes; d_b' : bytes }.   (* magic bytes in the file, saved body, body in the file *)
  Definition dframe_ok (d : dframe) : Prop := zlen (d_m d) = 4 /\ zlen (d_b' d) = zlen (d_b d) /\ 0 < zlen (d_b d) <= ChunkSize.
  Fixpoint dencode (prev : bytes) (magic : Z) (ds : list dframe) : bytes :=
    match ds with
    | [] => []
    | d :: r => let t := H (chunk_input prev magic (d_b d)) in
                d_m d ++ le32 (zlen (d_b d)) ++ d_b' d ++ t ++ dencode t magic r
    end.
  Definition intact (magic : Z) (b : bytes) : dframe := {| d_m := le32 magic; d_b := b; d_b' := b |}.

  Lemma encode_dencode magic : forall bs prev, encode H prev magic bs = dencode prev magic (map (intact magic) bs).
  Proof.
    induction bs as [|b r IH]; intro prev; [reflexivity|]. simpl. unfold frame. rewrite IH, <- !app_assoc. reflexivity.
  Qed.

  Definition collision : Prop := exists x y : bytes, x <> y /\ H x = H y.

  Definition at_frame (st : cstate) (pre rest : bytes) (prev : bytes) : Prop :=
    s_file st = pre ++ rest /\ s_noff st = zlen pre /\ s_nhash st = prev /\ s_size st = zlen (s_file st) /\ s_reading st = true.

  Lemma set_next_at st pre x rest t :
    at_frame st pre (x ++ rest) (s_nhash st) -> at_frame (set_next (set_pos st) (zlen pre + zlen x) t) (pre ++ x) rest t.
  Proof.
    intros (A & B & C & D & E). unfold at_frame. simpl. splits.
    - rewrite A, app_assoc. reflexivity.
    - rewrite zlen_app. reflexivity.
    - reflexivity.
    - exact D.
    - exact E.
  Qed.

  Lemma list_eqb_true a b : list_eqb a b = true -> a = b.
  Proof. apply list_eqb_eq. Qed.

  (* reading such a file yields a prefix of the saved bodies, or two different inputs with the same hash *)
  Lemma read_all_dencode magic : forall fuel ds st pre prev st' bs r,
    Forall dframe_ok ds -> at_frame st pre (dencode prev magic ds) prev -> 0 <= magic < two32 ->
    read_all H fuel magic st = (st', bs, r) ->
    (exists n, bs = firstn n (map d_b ds)) \/ collision.
  Proof.
    induction fuel as [|fu IH]; intros ds st pre prev st' bs r HF AF Hmg Hr.
    - simpl in Hr. inversion Hr; subst. left. exists 0%nat. reflexivity.
    - simpl in Hr. destruct ds as [|d ds'].
      + (* end of file *)
        destruct AF as (A & Bo & C & D & E). simpl in A. rewrite app_nil_r in A.
        assert (RN : read_next H magic st = (set_reading (set_pos st) false, REnd)).
        { unfold read_next. rewrite E. simpl negb. cbv iota zeta. change (s_off (set_pos st)) with (s_noff st).
          change (s_size (set_pos st)) with (s_size st). rewrite D, Bo, A, Z.eqb_refl. reflexivity. }
        rewrite RN in Hr. inversion Hr; subst. left. exists 0%nat. reflexivity.
      + inversion HF as [|? ? (Hm & Hb' & Hb) HF']; subst.
        pose proof AF as (A & Bo & C & D & E). cbn [dencode] in A. cbv zeta in A.
        assert (RN := read_next_at magic st pre (d_m d) (d_b' d) (H (chunk_input prev magic (d_b d))) (dencode (H (chunk_input prev magic (d_b d))) magic ds')).
        rewrite Hb' in RN. specialize (RN A Hm (zlen_H _) ltac:(lia) Bo D E).
        rewrite RN in Hr. clear RN.
        destruct (negb (le_val (d_m d) =? magic)) eqn:EM.
        { inversion Hr; subst. left. exists 0%nat. reflexivity. }
        destruct (list_eqb (H (s_nhash st ++ d_m d ++ le32 (zlen (d_b d)) ++ d_b' d)) (H (chunk_input prev magic (d_b d)))) eqn:EH.
        2:{ inversion Hr; subst. left. exists 0%nat. reflexivity. }
        apply list_eqb_true in EH. rewrite C in EH.
        destruct (list_eq_dec Z.eq_dec (prev ++ d_m d ++ le32 (zlen (d_b d)) ++ d_b' d) (chunk_input prev magic (d_b d))) as [Eq|Ne].
        2:{ right. exists (prev ++ d_m d ++ le32 (zlen (d_b d)) ++ d_b' d), (chunk_input prev magic (d_b d)). tauto. }
        (* the inputs are the same: the body in the file is the saved body *)
        unfold chunk_input in Eq. apply app_inv_head in Eq.
        assert (Eb : d_b' d = d_b d).
        { assert (E4 : length (d_m d) = length (le32 magic)) by (rewrite le32_length; unfold zlen in Hm; lia).
          assert (Hsplit : d_m d = le32 magic /\ le32 (zlen (d_b d)) ++ d_b' d = le32 (zlen (d_b d)) ++ d_b d).
          { clear -Eq E4. revert Eq E4. generalize (le32 (zlen (d_b d)) ++ d_b' d) (le32 (zlen (d_b d)) ++ d_b d) (le32 magic) (d_m d).
            intros x y l2 l1. revert l2. induction l1 as [|a l1 IHl]; intros [|c l2]; simpl; intros Eq E4; try discriminate.
            - tauto.
            - injection Eq as Ea Er. injection E4 as E4'. destruct (IHl l2 Er E4') as [E1 E2]. subst. tauto. }
          destruct Hsplit as [_ Hs]. apply app_inv_head in Hs. exact Hs. }
        destruct (d_b' d) as [|x0 xs] eqn:Ebody.
        { exfalso. rewrite <- Eb in Hb. unfold zlen in Hb. simpl in Hb. lia. }
        rewrite <- Ebody in *. clear Ebody x0 xs.
        destruct (read_all H fu magic (set_next (set_pos st) (zlen pre + 24 + zlen (d_b d)) (H (chunk_input prev magic (d_b d))))) as [[st2 bs2] r2] eqn:RA.
        assert (Hbs : bs = d_b' d :: bs2).
        { destruct (d_b' d); inversion Hr; reflexivity. }
        set (t := H (chunk_input prev magic (d_b d))) in *.
        set (X := d_m d ++ le32 (zlen (d_b d)) ++ d_b' d ++ t).
        assert (AF2 : at_frame (set_next (set_pos st) (zlen pre + 24 + zlen (d_b d)) t) (pre ++ X) (dencode t magic ds') t).
        { pose proof (set_next_at st pre X (dencode t magic ds') t) as SN.
          replace (zlen pre + zlen X) with (zlen pre + 24 + zlen (d_b d)) in SN
            by (unfold X; rewrite !zlen_app, zlen_le32, Hm, Hb'; unfold t; rewrite zlen_H; lia).
          apply SN. unfold at_frame. splits; try tauto. rewrite A. unfold X. repeat rewrite <- app_assoc. reflexivity. }
        destruct (IH ds' _ (pre ++ X) t st2 bs2 r2 HF' AF2 Hmg RA) as [[n Hn]|Hc]; [|right; exact Hc].
        left. exists (S n). simpl. rewrite Hbs, Eb, Hn. reflexivity.
  Qed.

  Definition body_ok (b : bytes) : Prop := 0 < zlen b <= ChunkSize.

  Lemma zlen_frame prev magic b : zlen (frame H prev magic b) = 24 + zlen b.
  Proof. unfold frame. rewrite !zlen_app, !zlen_le32, zlen_H. lia. Qed.

  (* reading an undamaged encoding returns exactly the bodies, then the clean end *)
  Lemma read_all_encode magic : 0 <= magic < two32 -> forall bs fuel st pre prev,
    Forall body_ok bs -> at_frame st pre (encode H prev magic bs) prev -> (length bs < fuel)%nat ->
    exists st', read_all H fuel magic st = (st', bs, REnd) /\ s_off st' = zlen (s_file st) /\ s_file st' = s_file st /\
                s_hash st' = last_hash H prev magic bs.
  Proof.
    intros Hmg. induction bs as [|b r IH]; intros fuel st pre prev HF AF Hfu.
    - destruct fuel as [|fu]; [lia|]. simpl.
      destruct AF as (A & Bo & C & D & E). simpl in A. rewrite app_nil_r in A.
      assert (RN : read_next H magic st = (set_reading (set_pos st) false, REnd)).
      { unfold read_next. rewrite E. simpl negb. cbv iota zeta. change (s_off (set_pos st)) with (s_noff st).
        change (s_size (set_pos st)) with (s_size st). rewrite D, Bo, A, Z.eqb_refl. reflexivity. }
      rewrite RN. eexists. split; [reflexivity|]. simpl. rewrite Bo, A, C. tauto.
    - destruct fuel as [|fu]; [simpl in Hfu; lia|]. inversion HF as [|? ? Hb HF']; subst.
      pose proof AF as (A & Bo & C & D & E). cbn [encode] in A. unfold frame in A.
      set (t := H (chunk_input prev magic b)) in *.
      assert (A' : s_file st = pre ++ le32 magic ++ le32 (zlen b) ++ b ++ t ++ encode H t magic r).
      { rewrite A. repeat rewrite <- app_assoc. reflexivity. }
      assert (RN := read_next_at magic st pre (le32 magic) b t (encode H t magic r) A' (zlen_le32 _) (zlen_H _) ltac:(unfold body_ok in Hb; lia) Bo D E).
      rewrite le_val_le32, (u32_id magic Hmg), Z.eqb_refl in RN. simpl negb in RN. cbv iota in RN.
      rewrite C in RN. fold (chunk_input prev magic b) in RN. fold t in RN. rewrite list_eqb_refl in RN.
      simpl read_all. rewrite RN.
      set (X := le32 magic ++ le32 (zlen b) ++ b ++ t).
      assert (AF2 : at_frame (set_next (set_pos st) (zlen pre + 24 + zlen b) t) (pre ++ X) (encode H t magic r) t).
      { pose proof (set_next_at st pre X (encode H t magic r) t) as SN.
        replace (zlen pre + zlen X) with (zlen pre + 24 + zlen b) in SN
          by (unfold X; rewrite !zlen_app, !zlen_le32; unfold t; rewrite zlen_H; lia).
        apply SN. unfold at_frame. splits; try tauto; rewrite A'; unfold X; repeat rewrite <- app_assoc; reflexivity. }
      destruct (IH fu _ (pre ++ X) t HF' AF2 ltac:(simpl in Hfu; lia)) as (st' & RA & O' & F' & H').
      rewrite RA. destruct b as [|b0 bb]; [unfold body_ok, zlen in Hb; simpl in Hb; lia|].
      exists st'. simpl in *. tauto.
  Qed.

  (* ---- the writer ---- *)
  (* the writer stands at the end of the good part of the file; [junk] is whatever older content follows *)
  Definition at_pos (st : cstate) (good junk : bytes) : Prop := s_file st = good ++ junk /\ s_off st = zlen good.
  Definition at_end (st : cstate) : Prop := s_off st = zlen (s_file st).

  Lemma write_at_mid good junk data : write_at (good ++ junk) (zlen good) data = good ++ data ++ skipn (length data) junk.
  Proof.
    unfold write_at, zlen. rewrite Nat2Z.id. rewrite firstn_app_exact by reflexivity.
    replace (length good - length (good ++ junk))%nat with 0%nat by (rewrite app_length; lia). simpl repeat. simpl app.
    rewrite skipn_app. rewrite skipn_all2 by lia. replace (length good + length data - length good)%nat with (length data) by lia. reflexivity.
  Qed.

  Lemma finish_chunk_pos st good junk b : at_pos st good junk -> b <> [] ->
    let st' := finish_chunk H st b in
    at_pos st' (good ++ frame H (s_hash st) (s_magic st) b) (skipn (length (frame H (s_hash st) (s_magic st) b)) junk) /\
    s_hash st' = H (chunk_input (s_hash st) (s_magic st) b) /\ s_magic st' = s_magic st.
  Proof.
    intros [AF AO] Hne. destruct b as [|b0 bb]; [congruence|]. unfold finish_chunk, at_pos in *. cbv zeta. simpl s_file. simpl s_off. simpl s_hash. simpl s_magic.
    rewrite AF, AO, write_at_mid. splits; try reflexivity.
    - rewrite <- app_assoc. reflexivity.
    - rewrite zlen_app, zlen_frame. unfold hdr_size, hash_size. lia.
  Qed.

  Lemma finish_write_pos st body good junk : at_pos (finish_chunk H st body) good junk ->
    s_file (finish_write H st body) = good /\
    at_end (finish_write H st body) /\ s_hash (finish_write H st body) = s_hash (finish_chunk H st body).
  Proof.
    unfold finish_write, at_pos, at_end. cbv zeta. simpl. intros [AF AO]. rewrite AF, AO. unfold zlen. rewrite Nat2Z.id.
    rewrite firstn_app_exact by reflexivity. tauto.
  Qed.

  Lemma write_items_spec : forall items st body good junk, at_pos st good junk ->
    match group_bodies body items with
    | Some bs =>
        exists st' body', write_items H st body items = (st', body', false) /\
          s_file (finish_write H st' body') = good ++ encode H (s_hash st) (s_magic st) bs /\
          at_end (finish_write H st' body') /\
          s_hash (finish_write H st' body') = last_hash H (s_hash st) (s_magic st) bs
    | None => exists st' body', write_items H st body items = (st', body', true)
    end.
  Proof.
    induction items as [|it r IH]; intros st body good junk AP.
    - simpl group_bodies. simpl write_items. exists st, body. split; [reflexivity|].
      destruct body as [|b0 bb].
      + destruct (finish_write_pos st [] good junk AP) as (F1 & F2 & F3). simpl finish_chunk in *. rewrite F1, F3. simpl. rewrite app_nil_r. tauto.
      + destruct (finish_chunk_pos st good junk (b0 :: bb) AP ltac:(discriminate)) as (AP' & H' & M').
        destruct (finish_write_pos st (b0 :: bb) _ _ AP') as (F1 & F2 & F3). rewrite F1, F3, H'.
        cbn [encode last_hash]. rewrite app_nil_r. tauto.
    - cbn [group_bodies write_items]. unfold finish_item.
      destruct (zlen (body ++ it) <? HalfChunk) eqn:E1.
      + eapply IH. exact AP.
      + destruct (ChunkSize <? zlen (body ++ it)) eqn:E2.
        * eexists. eexists. reflexivity.
        * assert (Hne : body ++ it <> []).
          { intro E. rewrite E in E1. unfold zlen, HalfChunk in E1. simpl in E1. discriminate. }
          destruct (finish_chunk_pos st good junk (body ++ it) AP Hne) as (AP' & H' & M').
          specialize (IH (finish_chunk H st (body ++ it)) [] _ _ AP').
          destruct (group_bodies [] r) as [l|].
          -- destruct IH as (st' & body' & W & F & AEf & Hf). exists st', body'. split; [exact W|].
             rewrite F, Hf, H', M'. cbn [encode last_hash]. rewrite <- app_assoc. tauto.
          -- exact IH.
  Qed.

  Lemma group_bodies_ok : forall items body bs, group_bodies body items = Some bs -> zlen body < HalfChunk -> Forall body_ok bs.
  Proof.
    induction items as [|it r IH]; intros body bs; simpl.
    - intros E Hb. inversion E; subst. destruct body as [|b0 bb]; constructor; [|constructor].
      unfold body_ok, HalfChunk, ChunkSize in *. unfold zlen in *. simpl length in *. lia.
    - destruct (zlen (body ++ it) <? HalfChunk) eqn:E1.
      + intros G _. apply Z.ltb_lt in E1. eapply IH; eassumption.
      + destruct (ChunkSize <? zlen (body ++ it)) eqn:E2; [discriminate|].
        destruct (group_bodies [] r) as [l|] eqn:G; [|discriminate]. intros E _. inversion E; subst.
        apply Z.ltb_ge in E1, E2. constructor.
        * unfold body_ok, HalfChunk in *. lia.
        * eapply IH; [exact G|]. unfold zlen, HalfChunk. simpl. lia.
  Qed.

  Lemma group_bodies_concat : forall items body bs, group_bodies body items = Some bs -> concat bs = body ++ concat items.
  Proof.
    induction items as [|it r IH]; intros body bs; simpl.
    - intro E. inversion E; subst. destruct body; simpl; rewrite ?app_nil_r; reflexivity.
    - destruct (zlen (body ++ it) <? HalfChunk).
      + intro G. rewrite (IH _ _ G), <- app_assoc. reflexivity.
      + destruct (ChunkSize <? zlen (body ++ it)); [discriminate|].
        destruct (group_bodies [] r) as [l|] eqn:G; [|discriminate]. intro E. inversion E; subst.
        simpl. rewrite (IH _ _ G), <- app_assoc. reflexivity.
  Qed.

  (* chunk boundaries fall on item boundaries *)
  Lemma group_bodies_partition : forall items (acc : list bytes) bs,
    group_bodies (concat acc) items = Some bs ->
    exists groups rest, bs = map (@concat Z) groups /\ acc ++ items = concat groups ++ rest /\ concat rest = [].
  Proof.
    induction items as [|it r IH]; intros acc bs; simpl.
    - intro E. inversion E; subst. destruct (concat acc) eqn:Ea.
      + exists [], acc. simpl. rewrite app_nil_r. tauto.
      + exists [acc], []. simpl. rewrite Ea, !app_nil_r. tauto.
    - replace (concat acc ++ it) with (concat (acc ++ [it])) by (rewrite concat_app; simpl; rewrite app_nil_r; reflexivity).
      destruct (zlen (concat (acc ++ [it])) <? HalfChunk).
      + intro G. apply IH in G as (groups & rest & A & Bq & C). exists groups, rest. rewrite <- app_assoc in Bq. simpl in Bq. tauto.
      + destruct (ChunkSize <? zlen (concat (acc ++ [it]))); [discriminate|].
        destruct (group_bodies [] r) as [l|] eqn:G; [|discriminate]. intro E. inversion E; subst.
        change (@nil Z) with (concat (@nil bytes)) in G. apply IH in G as (groups & rest & A & Bq & C).
        exists ((acc ++ [it]) :: groups), rest. simpl in Bq. simpl. rewrite A, <- app_assoc, <- Bq, <- app_assoc. simpl. tauto.
  Qed.

  (* chunks_roundtrip: a write session that starts at offset 0 (fresh file, or ResetToStartOfFile over any old content) *)
  Theorem write_then_read magic items st st' :
    0 <= magic < two32 -> s_off st = 0 -> s_hash st = zero_hash ->
    write_session H magic st items = Some st' ->
    exists bs stR, group_bodies [] items = Some bs /\
      s_file st' = encode H zero_hash magic bs /\
      read_file H magic (s_file st') = (stR, bs, REnd) /\
      concat bs = concat items /\
      exists groups rest, bs = map (@concat Z) groups /\ items = concat groups ++ rest /\ concat rest = [].
  Proof.
    intros Hmg Hoff Hh0 WS. unfold write_session in WS.
    assert (AP : at_pos (start_write magic st) [] (s_file st)) by (unfold at_pos; simpl; split; [reflexivity|exact Hoff]).
    pose proof (write_items_spec items (start_write magic st) [] [] (s_file st) AP) as WI.
    destruct (group_bodies [] items) as [bs|] eqn:G.
    - destruct WI as (st1 & body1 & W & F & AEf & Hf). rewrite W in WS. inversion WS; subst st'. clear WS.
      change (s_hash (start_write magic st)) with (s_hash st) in F.
      change (s_magic (start_write magic st)) with magic in F. rewrite Hh0 in F. rewrite app_nil_l in F.
      pose proof (group_bodies_ok _ _ _ G ltac:(unfold zlen, HalfChunk; simpl; lia)) as BOK.
      destruct (read_all_encode magic Hmg bs (S (length (s_file (finish_write H st1 body1)))) (open_slice (s_file (finish_write H st1 body1))) [] zero_hash BOK) as (stR & RA & _).
      + unfold at_frame, open_slice. cbn [s_file s_noff s_nhash s_size s_reading]. splits; try reflexivity. exact F.
      + rewrite F. clear -BOK H_len. revert BOK. generalize zero_hash. induction bs as [|b r IH]; intros prev BOK; simpl; [lia|].
        inversion BOK; subst. rewrite app_length. specialize (IH (H (chunk_input prev magic b)) H3).
        pose proof (zlen_frame prev magic b) as ZF. unfold zlen in ZF. unfold body_ok, zlen in H2. lia.
      + exists bs, stR. splits; try reflexivity.
        * exact F.
        * exact RA.
        * rewrite (group_bodies_concat _ _ _ G). reflexivity.
        * change (@nil Z) with (concat (@nil bytes)) in G. apply group_bodies_partition in G. exact G.
    - destruct WI as (st1 & body1 & W). rewrite W in WS. discriminate.
  Qed.

  (* ---- damage confined to magic and body bytes: prefix or collision ---- *)
  Theorem damaged_read_prefix_or_collision magic ds st' bs' r :
    0 <= magic < two32 -> Forall dframe_ok ds ->
    read_file H magic (dencode zero_hash magic ds) = (st', bs', r) ->
    (exists n, bs' = firstn n (map d_b ds)) \/ collision.
  Proof.
    intros Hmg HF Hr. unfold read_file in Hr.
    eapply (read_all_dencode magic _ ds (open_slice (dencode zero_hash magic ds)) [] zero_hash); try eassumption.
    unfold at_frame, open_slice. cbn [s_file s_noff s_nhash s_size s_reading]. splits; reflexivity.
  Qed.

  (* a damaged trailer is always detected *)
  Lemma damaged_trailer_rejected magic st pre b t post :
    0 <= magic < two32 ->
    s_file st = pre ++ le32 magic ++ le32 (zlen b) ++ b ++ t ++ post -> zlen t = 16 -> zlen b <= ChunkSize ->
    s_noff st = zlen pre -> s_size st = zlen (s_file st) -> s_reading st = true ->
    t <> H (chunk_input (s_nhash st) magic b) ->
    snd (read_next H magic st) = RErr EHash.
  Proof.
    intros Hmg Hf Ht Hb Ho Hs Hrd Hne.
    rewrite (read_next_at magic st pre (le32 magic) b t post Hf (zlen_le32 _) Ht Hb Ho Hs Hrd).
    rewrite le_val_le32, (u32_id magic Hmg), Z.eqb_refl. simpl negb. cbv iota.
    fold (chunk_input (s_nhash st) magic b).
    destruct (list_eqb (H (chunk_input (s_nhash st) magic b)) t) eqn:E; [|reflexivity].
    apply list_eqb_true in E. congruence.
  Qed.

  (* ---- truncation ---- *)
  Lemma firstn_app_ge {A} (a b : list A) k : (length a <= k)%nat -> firstn k (a ++ b) = a ++ firstn (k - length a) b.
  Proof. intro Hk. rewrite firstn_app, firstn_all2 by assumption. reflexivity. Qed.

  Ltac fin := do 2 eexists; split; [reflexivity | first [left; reflexivity | right; eexists; reflexivity]].

  Lemma read_next_trunc magic st pre prev b k :
    0 <= magic < two32 -> body_ok b -> (k < length (frame H prev magic b))%nat ->
    s_file st = pre ++ firstn k (frame H prev magic b) -> s_noff st = zlen pre -> s_size st = zlen (s_file st) ->
    exists st2 r2, read_next H magic st = (st2, r2) /\ (r2 = REnd \/ exists e, r2 = RErr e).
  Proof.
    intros Hmg Hb Hk Hf Ho Hs.
    pose proof (zlen_frame prev magic b) as ZF. unfold zlen in ZF.
    assert (Hlenk : zlen (firstn k (frame H prev magic b)) = Z.of_nat k).
    { unfold zlen. rewrite firstn_length. lia. }
    assert (Hlen : zlen (s_file st) = zlen pre + Z.of_nat k) by (rewrite Hf, zlen_app, Hlenk; reflexivity).
    unfold read_next.
    destruct (negb (s_reading st)); [fin|]. cbv zeta.
    change (s_off (set_pos st)) with (s_noff st). change (s_size (set_pos st)) with (s_size st).
    change (s_file (set_pos st)) with (s_file st). unfold hdr_size, hash_size. rewrite Hs, Ho, Hlen.
    destruct (zlen pre =? zlen pre + Z.of_nat k); [fin|].
    destruct (zlen pre + Z.of_nat k <? zlen pre + 8 + 16) eqn:E2; [fin|]. apply Z.ltb_ge in E2.
    destruct (negb (le_val (slice (s_file st) (zlen pre) 4) =? magic)); [fin|].
    assert (S2 : slice (s_file st) (zlen pre + 4) 4 = le32 (zlen b)).
    { unfold frame in Hf. rewrite app_assoc in Hf.
      rewrite (firstn_app_ge (le32 magic ++ le32 (zlen b))) in Hf by (rewrite app_length, !le32_length; lia).
      rewrite <- app_assoc in Hf.
      apply (slice_at (pre ++ le32 magic) (le32 (zlen b)) (firstn (k - length (le32 magic ++ le32 (zlen b))) (b ++ H (chunk_input prev magic b)))).
      - rewrite Hf. repeat rewrite <- app_assoc. reflexivity.
      - rewrite zlen_app, zlen_le32. reflexivity.
      - rewrite zlen_le32. reflexivity. }
    rewrite S2, le_val_le32. rewrite (u32_id (zlen b)) by (unfold body_ok, is_u32, two32, ChunkSize in *; lia).
    destruct (ChunkSize <? zlen b); [fin|].
    destruct (zlen pre + Z.of_nat k <? zlen pre + 8 + zlen b + 16) eqn:E4; [fin|]. apply Z.ltb_ge in E4.
    exfalso. unfold zlen in *. lia.
  Qed.

  Lemma read_all_trunc magic : 0 <= magic < two32 -> forall bs fuel k st pre prev st' bs' r,
    Forall body_ok bs -> at_frame st pre (firstn k (encode H prev magic bs)) prev ->
    read_all H fuel magic st = (st', bs', r) -> exists n, bs' = firstn n bs.
  Proof.
    intros Hmg. induction bs as [|b rest IH]; intros fuel k st pre prev st' bs' r HF AF Hr.
    - destruct fuel as [|fu]; simpl in Hr; [inversion Hr; exists 0%nat; reflexivity|].
      destruct AF as (A & Bo & C & D & E). simpl in A. rewrite firstn_nil, app_nil_r in A.
      assert (RN : read_next H magic st = (set_reading (set_pos st) false, REnd)).
      { unfold read_next. rewrite E. simpl negb. cbv iota zeta. change (s_off (set_pos st)) with (s_noff st).
        change (s_size (set_pos st)) with (s_size st). rewrite D, Bo, A, Z.eqb_refl. reflexivity. }
      rewrite RN in Hr. inversion Hr. exists 0%nat. reflexivity.
    - destruct fuel as [|fu]; simpl in Hr; [inversion Hr; exists 0%nat; reflexivity|].
      inversion HF as [|? ? Hb HF']; subst. pose proof AF as (A & Bo & C & D & E). cbn [encode] in A.
      set (t := H (chunk_input prev magic b)) in *.
      destruct (le_lt_dec (length (frame H prev magic b)) k) as [Hge|Hlt].
      + (* the whole first frame survived *)
        rewrite firstn_app_ge in A by assumption. unfold frame in A. fold t in A.
        set (post := firstn (k - length (le32 magic ++ le32 (zlen b) ++ b ++ t)) (encode H t magic rest)) in *.
        assert (A' : s_file st = pre ++ le32 magic ++ le32 (zlen b) ++ b ++ t ++ post).
        { rewrite A. repeat rewrite <- app_assoc. reflexivity. }
        assert (RN := read_next_at magic st pre (le32 magic) b t post A' (zlen_le32 _) (zlen_H _) ltac:(unfold body_ok in Hb; lia) Bo D E).
        rewrite le_val_le32, (u32_id magic Hmg), Z.eqb_refl in RN. simpl negb in RN. cbv iota in RN.
        rewrite C in RN. fold (chunk_input prev magic b) in RN. fold t in RN. rewrite list_eqb_refl in RN.
        rewrite RN in Hr.
        set (X := le32 magic ++ le32 (zlen b) ++ b ++ t).
        assert (AF2 : at_frame (set_next (set_pos st) (zlen pre + 24 + zlen b) t) (pre ++ X) post t).
        { pose proof (set_next_at st pre X post t) as SN.
          replace (zlen pre + zlen X) with (zlen pre + 24 + zlen b) in SN
            by (unfold X; rewrite !zlen_app, !zlen_le32; unfold t; rewrite zlen_H; lia).
          apply SN. unfold at_frame. splits; try tauto; rewrite A'; unfold X; repeat rewrite <- app_assoc; reflexivity. }
        destruct (read_all H fu magic (set_next (set_pos st) (zlen pre + 24 + zlen b) t)) as [[st2 bs2] r2] eqn:RA.
        destruct (IH fu _ _ (pre ++ X) t st2 bs2 r2 HF' AF2 RA) as [n Hn].
        destruct b as [|b0 bb]; [unfold body_ok, zlen in Hb; simpl in Hb; lia|].
        inversion Hr; subst. exists (S n). reflexivity.
      + (* the cut is inside the first frame: no chunk is returned *)
        rewrite firstn_app, (proj2 (Nat.sub_0_le k (length (frame H prev magic b)))) in A by lia. simpl firstn at 2 in A. rewrite app_nil_r in A.
        destruct (read_next_trunc magic st pre prev b k Hmg Hb Hlt A Bo D) as (st2 & r2 & RN & [->|[e ->]]);
          rewrite RN in Hr; inversion Hr; exists 0%nat; reflexivity.
  Qed.

  Theorem truncated_read_prefix magic bs k st' bs' r :
    0 <= magic < two32 -> Forall body_ok bs ->
    read_file H magic (firstn k (encode H zero_hash magic bs)) = (st', bs', r) ->
    exists n, bs' = firstn n bs.
  Proof.
    intros Hmg HF Hr. unfold read_file in Hr.
    eapply (read_all_trunc magic Hmg bs _ k (open_slice (firstn k (encode H zero_hash magic bs))) [] zero_hash); try eassumption.
    unfold at_frame, open_slice. cbn [s_file s_noff s_nhash s_size s_reading]. splits; reflexivity.
  Qed.
End Store.
