(* C21 — Save through the chunked storage followed by load gives the saved map back. *)
From Coq Require Import ZArith List Bool Lia.
From SH Require Import Common.Wrap Chunked.Model Chunked.ProofsMap Chunked.ProofsCache Chunked.ProofsCodec Chunked.ProofsHist Chunked.ProofsStore.
Import ListNotations.
Open Scope Z_scope.

Section SaveLoad.
  Variable H : bytes -> bytes.
  Hypothesis H_len : forall x, length (H x) = 16%nat.

  Theorem cache_save_load_same (c : cache) (order : list item) (st st' : cstate) (ms : Z) :
    NoDup (keys (c_map c)) -> vals_ok (c_map c) -> same_map (c_map c) order = true ->
    save_file H st order = Some st' ->
    exists c', load_file H (s_file st') (new_cache ms 0) = (c', false) /\
      c_map c' = order /\ c_sum_size c' = esize (c_map c) /\ c_sum_ts c' = ets (c_map c) /\
      (forall k, lookup k (c_map c') = lookup k (c_map c)).
  Proof.
    intros W VO SM SF. unfold save_file in SF.
    assert (Hmg : 0 <= MagicMappings < two32) by (unfold MagicMappings, two32; lia).
    destruct (write_then_read H H_len MagicMappings (map item_bytes order) (reset_to_start st) st' Hmg eq_refl eq_refl SF)
      as (bs & stR & G & F & RF & _).
    apply same_map_props in SM as (Hlen & NDo & HI).
    assert (VO' : vals_ok order).
    { intros it Hin. apply HI, item_in_lookup in Hin as [e0 [L [Ev Et]]]. apply lookup_In in L. destruct (VO _ L) as [A B]. simpl in A, B. rewrite <- Ev, <- Et. tauto. }
    unfold load_file. rewrite RF. rewrite (save_load_bodies order bs ms G NDo VO'). simpl.
    destruct (same_map_sums order (c_map c) W NDo Hlen HI) as [S1 S2].
    eexists. split; [reflexivity|]. simpl. splits; try reflexivity; try assumption.
    intro k. destruct (lookup k order) as [e|] eqn:L.
    - apply lookup_In in L. apply HI, item_in_lookup in L as [e0 [L0 [Ev Et]]]. simpl in *. rewrite L0. destruct e, e0; simpl in *; subst; reflexivity.
    - destruct (lookup k (c_map c)) as [e0|] eqn:L0; [|reflexivity]. exfalso.
      (* k is a key of the map but not of order: impossible, same length and distinct keys *)
      apply lookup_None in L.
      assert (Hsub : forall it, In it order -> In (fst it) (keys (remove k (c_map c)))).
      { intros it Hin. pose proof (HI it Hin) as Hi. apply item_in_lookup in Hi as [e1 [L1 _]].
        assert (fst it <> k) by (intro E; apply L; rewrite <- E; apply (in_map fst), Hin).
        rewrite <- (lookup_remove_other (c_map c) k (fst it)) in L1 by assumption. apply lookup_In, In_keys in L1. exact L1. }
      assert (Hincl : incl (keys order) (keys (remove k (c_map c)))).
      { intros x Hx. apply in_map_iff in Hx as [it [<- Hin]]. apply Hsub, Hin. }
      pose proof (NoDup_incl_length NDo Hincl) as HL. unfold keys in HL. rewrite !map_length in HL.
      rewrite (length_remove (c_map c) k e0 W L0) in Hlen. unfold item, amap in *. lia.
  Qed.
End SaveLoad.
