(* C21 — the cache theorems over all histories (the storage theorems are in ProofsStore.v). *)
From Coq Require Import ZArith List Bool Lia.
From SH Require Import Common.Wrap Chunked.Model Chunked.ProofsMap Chunked.ProofsCache Chunked.ProofsCodec Chunked.ProofsHist.
Import ListNotations.
Open Scope Z_scope.

(* (k, v) was passed to AddValues somewhere in the history *)
Definition added_in (ops : list op) (k : bytes) (v : Z) : Prop :=
  exists now ps items, In (AAdd now ps items) ops /\ In (k, v) ps.

Lemma get_value_ret ts k c v : snd (get_value ts k c) = Some v -> exists e, In (k, e) (c_map c) /\ e_val e = v.
Proof.
  unfold get_value. destruct (lookup k (c_map c)) as [e|] eqn:L; [|discriminate].
  destruct (ts <=? e_ts e); simpl; intro Hh; inversion Hh; exists e; split; try reflexivity; apply lookup_In, L.
Qed.

Theorem entries_from_adds fixed det ms ttl ops c file :
  Forall op_typed ops -> hrun fixed det (new_cache ms ttl, []) ops = Some (c, file) ->
  forall k e, In (k, e) (c_map c) -> zlen k <> 0 /\ is_marker (e_val e) = false /\ added_in ops k (e_val e).
Proof.
  intros HT Hr.
  set (Q := fun (k : bytes) (v : Z) => zlen k <> 0 /\ is_marker v = false /\ is_i32 v /\ added_in ops k v).
  assert (Qi : forall k v, Q k v -> is_i32 v) by (unfold Q; tauto).
  destruct (hrun_inv Q fixed None Qi det ops (new_cache ms ttl, []) (c, file)) as [CI _].
  - rewrite Forall_forall in HT. intros o Hin. split; [apply HT, Hin|]. destruct o; try exact I.
    intros k v Hk Hz Hm. unfold Q. splits; try assumption.
    + specialize (HT _ Hin). simpl in HT. destruct HT as [_ HT]. eapply HT, Hk.
    + exists now, ps, items. tauto.
  - apply cinv_new. exact I.
  - apply finv_nil. exact I.
  - exact Hr.
  - destruct CI as (_ & AQ & _). intros k e Hin. destruct (AQ k e Hin) as (A1 & A2 & _ & A4). tauto.
Qed.

Theorem cache_never_wrong_value fixed det ms ttl ops c file ts k v :
  Forall op_typed ops -> hrun fixed det (new_cache ms ttl, []) ops = Some (c, file) ->
  snd (get_value ts k c) = Some v -> added_in ops k v.
Proof.
  intros HT Hr G. apply get_value_ret in G as [e [Hin <-]]. eapply entries_from_adds; eassumption.
Qed.

Theorem cache_never_marker fixed det ms ttl ops c file ts k v :
  Forall op_typed ops -> hrun fixed det (new_cache ms ttl, []) ops = Some (c, file) ->
  snd (get_value ts k c) = Some v -> v <> 0 /\ v <> -1 /\ v <> -2 /\ k <> [].
Proof.
  intros HT Hr G. apply get_value_ret in G as [e [Hin <-]].
  destruct (entries_from_adds fixed det ms ttl ops c file HT Hr k e Hin) as (Z0 & M & _).
  unfold is_marker in M. apply orb_false_iff in M as [M M3]. apply orb_false_iff in M as [M1 M2].
  apply Z.eqb_neq in M1, M2, M3. splits; try assumption. intros ->. apply Z0. reflexivity.
Qed.

(* the size limit stays [ms] during the history *)
Definition const_size (ms : Z) (o : op) : Prop :=
  match o with ASetSize ms' _ | AReload ms' _ => ms' = ms | _ => True end.

Theorem cache_size_le_max fixed det ms ttl ops c file :
  0 <= ms -> Forall op_typed ops -> Forall (const_size ms) ops ->
  hrun fixed det (new_cache ms ttl, []) ops = Some (c, file) ->
  esize (c_map c) <= c_sum_size c /\ c_sum_size c <= ms.
Proof.
  intros H0 HT HC Hr.
  set (Q := fun (k : bytes) (v : Z) => is_i32 v).
  destruct (hrun_inv Q fixed (Some ms) (fun _ _ h => h) det ops (new_cache ms ttl, []) (c, file)) as [CI _].
  - rewrite Forall_forall in HT, HC. intros o Hin. split; [apply HT, Hin|]. specialize (HC _ Hin). destruct o; simpl in *; try exact I; try assumption.
    intros k v Hk _ _. specialize (HT _ Hin). simpl in HT. destruct HT as [_ HT]. eapply HT, Hk.
  - apply cinv_new. split; [reflexivity|assumption].
  - apply finv_nil. assumption.
  - exact Hr.
  - destruct CI as (_ & _ & _ & O & _ & Bd). unfold over, bound in *. simpl in *. tauto.
Qed.

(* accounting is exact for the repaired duplicate handling *)
Theorem accounting_exact_fixed det ms ttl ops c file :
  Forall op_typed ops -> hrun true det (new_cache ms ttl, []) ops = Some (c, file) ->
  NoDup (keys (c_map c)) /\ c_sum_size c = esize (c_map c) /\ c_sum_ts c = ets (c_map c).
Proof.
  intros HT Hr.
  set (Q := fun (k : bytes) (v : Z) => is_i32 v).
  destruct (hrun_inv Q true None (fun _ _ h => h) det ops (new_cache ms ttl, []) (c, file)) as [CI _].
  - rewrite Forall_forall in HT. intros o Hin. split; [apply HT, Hin|]. destruct o; simpl in *; try exact I.
    intros k v Hk _ _. specialize (HT _ Hin). simpl in HT. destruct HT as [_ HT]. eapply HT, Hk.
  - apply cinv_new. exact I.
  - apply finv_nil. exact I.
  - exact Hr.
  - destruct CI as (W & _ & _ & _ & E & _). destruct (E eq_refl). tauto.
Qed.

(* ... and for the code as it is when no batch contains a string twice *)
Definition distinct_batch (o : op) : Prop :=
  match o with AAdd _ ps _ => NoDup (map fst ps) | _ => True end.

Lemma filter_pairs_nodup_batch m ps : NoDup (map fst ps) -> filter_pairs false m [] ps = filter_pairs true m [] ps.
Proof. intro ND. apply filter_pairs_fixed_irrelevant; [assumption|]. intros; reflexivity. Qed.

Lemma hstep_fixed_irrelevant det st o : distinct_batch o ->
  hstep false st o = hstep true st o /\ op_accepts false det st o = op_accepts true det st o.
Proof.
  destruct st as [c file]. destruct o; simpl; intro D; try (split; reflexivity).
  unfold add_values, add_takes_slow_path. rewrite (filter_pairs_nodup_batch _ _ D). split; reflexivity.
Qed.

Lemma hrun_fixed_irrelevant det : forall ops st, Forall distinct_batch ops -> hrun false det st ops = hrun true det st ops.
Proof.
  induction ops as [|o r IH]; intros st HD; [reflexivity|]. inversion HD; subst. simpl.
  destruct (hstep_fixed_irrelevant det st o H1) as [E1 E2]. rewrite E1, E2.
  destruct (op_accepts true det st o); [apply IH; assumption|reflexivity].
Qed.

Theorem accounting_exact_distinct_batches det ms ttl ops c file :
  Forall op_typed ops -> Forall distinct_batch ops -> hrun false det (new_cache ms ttl, []) ops = Some (c, file) ->
  NoDup (keys (c_map c)) /\ c_sum_size c = esize (c_map c) /\ c_sum_ts c = ets (c_map c).
Proof.
  intros HT HD Hr. rewrite hrun_fixed_irrelevant in Hr by assumption. eapply accounting_exact_fixed; eassumption.
Qed.

(* the code as it is: one string twice in a batch is counted twice (finding F-C21) *)
Definition dup_witness : list op := [AAdd 10 [([97], 1); ([97], 2)] []].
Theorem accounting_exact_refuted :
  exists ops c file, Forall op_typed ops /\ hrun false false (new_cache 1000 0, []) ops = Some (c, file) /\
                     c_sum_size c <> esize (c_map c) /\ c_sum_ts c <> ets (c_map c).
Proof.
  exists dup_witness. eexists. eexists. split; [|split; [vm_compute; reflexivity|]].
  - constructor; [|constructor]. simpl. split; [unfold is_u32, two32; lia|]. intros k v [E|[E|[]]]; inversion E; subst; unfold is_i32, two31; lia.
  - vm_compute. split; discriminate.
Qed.

(* save/reload inside a history: after a reload the cache holds exactly what the last effective Save wrote *)
Theorem reload_after_save fixed det c file order bs ms ttl :
  NoDup (keys (c_map c)) -> vals_ok (c_map c) ->
  op_accepts fixed det (c, file) (ASave order) = true ->
  hstep fixed (c, file) (ASave order) = ((with_saved c, bs), None, true) ->
  let c' := fst (fst (fst (hstep fixed (with_saved c, bs) (AReload ms ttl)))) in
  c_map c' = order /\ same_map (c_map c) order = true /\
  c_sum_size c' = esize (c_map c) /\ c_sum_ts c' = ets (c_map c) /\ c_max_size c' = ms.
Proof.
  intros W VO Acc Hs. simpl in Hs, Acc. destruct (c_version c =? c_saved c) eqn:V; [inversion Hs|]. simpl in Acc.
  destruct (group_bodies [] (map item_bytes order)) as [bs'|] eqn:G; inversion Hs; subst bs'.
  apply andb_prop in Acc as [SM _]. pose proof SM as SM'. apply same_map_props in SM as (Hlen & NDo & HI).
  assert (VO' : vals_ok order).
  { intros it Hin. apply HI, item_in_lookup in Hin as [e0 [L [Ev Et]]]. apply lookup_In in L. destruct (VO _ L) as [A B]. simpl in A, B. rewrite <- Ev, <- Et. tauto. }
  simpl. rewrite (save_load_bodies order bs ms G NDo VO'). simpl.
  destruct (same_map_sums order (c_map c) W NDo Hlen HI) as [S1 S2]. splits; try reflexivity; try assumption.
Qed.
