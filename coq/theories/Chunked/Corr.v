(* Correspondence cases for C21: what the real ChunkedStorage2 / MappingsCache did on generated histories,
   replayed through Chunked.Model.  xxh3 is instantiated by the table of (input, output) pairs the harness
   computed with the real library for the case. *)
From Coq Require Import ZArith List Bool.
From SH Require Import Common.Wrap Common.Corr Chunked.Model.
Import ListNotations.
Open Scope Z_scope.

(* run-length literal used by the harness for long fillers *)
Definition R (b n : Z) : bytes := repeat b (Z.to_nat n).

Fixpoint hlookup (tbl : list (bytes * bytes)) (x : bytes) : bytes :=
  match tbl with
  | [] => []      (* unknown input: matches nothing *)
  | (i, o) :: r => if list_eqb i x then o else hlookup r x
  end.

Fixpoint lists_eqb (a b : list bytes) : bool :=
  match a, b with
  | [], [] => true
  | x :: a', y :: b' => list_eqb x y && lists_eqb a' b'
  | _, _ => false
  end.

Definition rerr_eqb (a b : rerr) : bool :=
  match a, b with
  | EHdrOverflow, EHdrOverflow | EMagic, EMagic | EBodyLimit, EBodyLimit | EBodyOverflow, EBodyOverflow | EHash, EHash => true
  | _, _ => false
  end.
Definition rres_eqb (a b : rres) : bool :=
  match a, b with
  | RChunk x, RChunk y => list_eqb x y
  | REnd, REnd => true
  | RErr x, RErr y => rerr_eqb x y
  | _, _ => false
  end.

(* ---- storage histories ---- *)
Inductive sop :=
| SRead (magic : Z)       (* one ReadNext *)
| SReadAll (magic : Z)    (* ReadNext until error or empty chunk *)
| SReset                  (* ResetToStartOfFile *)
| SStart (magic : Z)      (* chunk = StartWriteChunk(magic, 0) *)
| SItem (it : bytes)      (* chunk = append(chunk, it...); chunk, err = FinishItem(chunk) *)
| SFinish.                (* FinishWriteChunk(chunk) *)
Inductive sobs :=
| BRes (r : rres)
| BAll (bodies : list bytes) (r : rres)
| BNone
| BItem (err : bool) (file_len : Z)
| BFile (f : bytes).

Definition sstep (H : bytes -> bytes) (st : cstate * bytes) (o : sop) (b : sobs) : option (cstate * bytes) :=
  let '(s, body) := st in
  match o, b with
  | SRead m, BRes r => let '(s', r') := read_next H m s in if rres_eqb r r' then Some (s', body) else None
  | SReadAll m, BAll bs r =>
      let '(s', bs', r') := read_all H (S (length (s_file s))) m s in
      if lists_eqb bs bs' && rres_eqb r r' then Some (s', body) else None
  | SReset, BNone => Some (reset_to_start s, body)
  | SStart m, BNone => Some (start_write m s, [])
  | SItem it, BItem err flen =>
      let '(s', body', err') := finish_item H s (body ++ it) in
      if Bool.eqb err err' && (flen =? zlen (s_file s')) then Some (s', body') else None
  | SFinish, BFile f =>
      let s' := finish_write H s body in
      if list_eqb f (s_file s') then Some (s', []) else None
  | _, _ => None
  end.
Fixpoint srun (H : bytes -> bytes) (st : cstate * bytes) (ops : list sop) (obs : list sobs) : bool :=
  match ops, obs with
  | [], [] => true
  | o :: ops', b :: obs' => match sstep H st o b with Some st' => srun H st' ops' obs' | None => false end
  | _, _ => false
  end.

(* ---- cache histories ---- *)
(* after every operation: return value of GetValue, whether Save saved, chunk bodies of the file (after Save),
   sumSize, sumTS and the whole map *)
Inductive cobs := Ob (ret : option Z) (did : bool) (bodies : list bytes) (sum_size sum_ts : Z) (dump : list item).

Definition optz_eqb (a b : option Z) : bool :=
  match a, b with Some x, Some y => x =? y | None, None => true | _, _ => false end.

Definition state_ok (c : cache) (ss st : Z) (dump : list item) : bool :=
  (c_sum_size c =? ss) && (c_sum_ts c =? st) && same_map (c_map c) dump.

Definition total_mem (items : list item) : Z := fold_right (fun it a => size_mem (fst it) + a) 0 items.

(* the candidate list of the slow path must be the whole map or large enough for removeSize *)
Definition covers (fixed : bool) (c : cache) (o : op) : bool :=
  match o with
  | AAdd now ps items =>
      let ps' := filter_pairs fixed (c_map c) [] ps in
      negb (add_takes_slow_path fixed ps c) || (zlen items =? zlen (c_map c)) || (remove_size c (sum_mem ps') <=? total_mem items)
  | _ => true
  end.

Definition cstep (fixed det : bool) (st : hstate) (o : op) (b : cobs) : option hstate :=
  let '(Ob ret did bodies ss sts dump) := b in
  if op_accepts fixed det st o && covers fixed (fst st) o then
    let '(st', r, d) := hstep fixed st o in
    if optz_eqb ret r && Bool.eqb did d && state_ok (fst st') ss sts dump
       && (negb d || lists_eqb (snd st') bodies)
       && match o with AReload ms _ => negb (snd (load_bodies (snd st) (new_cache ms 0))) | _ => true end
    then Some st' else None
  else None.
Fixpoint crun (fixed det : bool) (st : hstate) (ops : list op) (obs : list cobs) : bool :=
  match ops, obs with
  | [], [] => true
  | o :: ops', b :: obs' => match cstep fixed det st o b with Some st' => crun fixed det st' ops' obs' | None => false end
  | _, _ => false
  end.

Inductive case :=
(* storage history on a slice that initially holds [file]; tbl = xxh3 on every input hashed during the history *)
| CStore (file : bytes) (tbl : list (bytes * bytes)) (ops : list sop) (obs : list sobs)
(* cache history from NewMappingsCache over an empty slice *)
| CHist (det : bool) (ms ttl : Z) (ops : list op) (obs : list cobs)
(* load of a crafted (possibly malformed) file given by its chunk bodies *)
| CLoad (bodies : list bytes) (ms : Z) (err : bool) (sum_size sum_ts : Z) (dump : list item)
(* serialisation of one item and StringRead on arbitrary bytes *)
| CItem (k : bytes) (v ts : Z) (enc : bytes)
| CStrRead (r : bytes) (res : option (bytes * Z)).   (* string and the number of bytes left *)

Definition ok (c : case) : bool :=
  match c with
  | CStore file tbl ops obs => srun (hlookup tbl) (open_slice file, []) ops obs
  | CHist det ms ttl ops obs =>
      (* the code as it is, or the repaired duplicate handling *)
      crun false det (new_cache ms ttl, []) ops obs || crun true det (new_cache ms ttl, []) ops obs
  | CLoad bodies ms err ss sts dump =>
      let '(c', err') := load_bodies bodies (new_cache ms 0) in
      Bool.eqb err err' && state_ok c' ss sts dump
  | CItem k v ts enc => list_eqb (item_bytes (k, {| e_val := v; e_ts := ts |})) enc
  | CStrRead r res =>
      match string_read r, res with
      | None, None => true
      | Some (s, rest), Some (s', n) => list_eqb s s' && (zlen rest =? n)
      | _, _ => false
      end
  end.

Definition mism := mismatches ok.
