(* C21 — invariants of the mappings-cache operations (all eviction candidates, all batches). *)
From Coq Require Import ZArith List Bool Lia.
From SH Require Import Common.Wrap Chunked.Model Chunked.ProofsMap.
Import ListNotations.
Open Scope Z_scope.

Definition wfm (c : cache) : Prop := NoDup (keys (c_map c)).
Definition exact (c : cache) : Prop := c_sum_size c = esize (c_map c) /\ c_sum_ts c = ets (c_map c).
Definition over (c : cache) : Prop := esize (c_map c) <= c_sum_size c.
Definition allQ (Q : bytes -> Z -> Prop) (m : amap) : Prop := forall k e, In (k, e) m -> Q k (e_val e).
Definition allT (m : amap) : Prop := forall k e, In (k, e) m -> is_u32 (e_ts e).
Definition frame_eq (c c' : cache) : Prop :=
  c_max_size c' = c_max_size c /\ c_max_ttl c' = c_max_ttl c /\ c_version c' = c_version c /\ c_saved c' = c_saved c.

Ltac splits := repeat match goal with |- _ /\ _ => split end.

Lemma frame_eq_refl c : frame_eq c c.
Proof. unfold frame_eq; tauto. Qed.
Lemma frame_eq_trans a b c : frame_eq a b -> frame_eq b c -> frame_eq a c.
Proof. unfold frame_eq; intuition congruence. Qed.

Lemma exact_over c : exact c -> over c.
Proof. unfold exact, over. intros [A _]. lia. Qed.

(* ---- addItem ---- *)
Lemma add_item_inv (Q : bytes -> Z -> Prop) k v ts c :
  wfm c ->
  let c' := add_item k v ts c in
  wfm c' /\ (Q k v -> allQ Q (c_map c) -> allQ Q (c_map c')) /\ (is_u32 ts -> allT (c_map c) -> allT (c_map c')) /\
  (over c -> over c') /\ (lookup k (c_map c) = None -> exact c -> exact c') /\
  c_sum_size c' = c_sum_size c + size_mem k /\ frame_eq c c' /\
  (forall k', k' <> k -> lookup k' (c_map c') = lookup k' (c_map c)) /\ lookup k (c_map c') = Some {| e_val := v; e_ts := ts |}.
Proof.
  intros W. simpl. unfold wfm, over, exact, add_item; simpl. splits.
  - apply set_NoDup, W.
  - intros HQ HA k' e' Hin. apply In_set in Hin as [[-> ->]|Hin]; [exact HQ|eapply HA, Hin].
  - intros HT HA k' e' Hin. apply In_set in Hin as [[-> ->]|Hin]; [exact HT|eapply HA, Hin].
  - intro Ho. pose proof (esize_set_le (c_map c) k {| e_val := v; e_ts := ts |}). lia.
  - intros L [A B]. rewrite esize_set_absent, ets_set_absent by assumption. simpl. lia.
  - reflexivity.
  - unfold frame_eq; simpl; tauto.
  - intros k' N. apply lookup_set_other, N.
  - apply lookup_set_same.
Qed.

(* ---- removeItem of an entry that is in the map with that accessTS ---- *)
Lemma remove_item_inv (Q : bytes -> Z -> Prop) k ts c e0 :
  wfm c -> lookup k (c_map c) = Some e0 -> e_ts e0 = ts ->
  let c' := remove_item k ts c in
  wfm c' /\ (allQ Q (c_map c) -> allQ Q (c_map c')) /\ (allT (c_map c) -> allT (c_map c')) /\
  (over c -> over c') /\ (exact c -> exact c') /\
  c_sum_size c' <= c_sum_size c /\ frame_eq c c' /\
  (forall k', k' <> k -> lookup k' (c_map c') = lookup k' (c_map c)) /\ lookup k (c_map c') = None.
Proof.
  intros W L T. simpl. unfold wfm, over, exact, remove_item; simpl. splits.
  - apply remove_NoDup, W.
  - intros HA k' e' Hin. apply In_remove in Hin as [Hin _]. eapply HA, Hin.
  - intros HA k' e' Hin. apply In_remove in Hin as [Hin _]. eapply HA, Hin.
  - intro Ho. rewrite (esize_remove _ _ _ W L). lia.
  - intros [A B]. rewrite (esize_remove _ _ _ W L), (ets_remove _ _ _ W L). lia.
  - pose proof (size_mem_pos k). lia.
  - unfold frame_eq; simpl; tauto.
  - intros k' N. apply lookup_remove_other, N.
  - apply lookup_remove_same.
Qed.

(* candidates: distinct strings, each in the map with its current value and accessTS *)
Definition valid_items (c : cache) (items : list item) : Prop :=
  NoDup (map fst items) /\ forall it, In it items -> item_in (c_map c) it = true.

Lemma valid_items_tail c k e r e0 :
  wfm c -> valid_items c ((k, e) :: r) -> lookup k (c_map c) = Some e0 ->
  valid_items (remove_item k (e_ts e) c) r.
Proof.
  intros W [ND HI] L. inversion ND; subst. split; [assumption|].
  intros it Hin. specialize (HI it (or_intror Hin)). unfold item_in in *. unfold remove_item; simpl.
  rewrite lookup_remove_other; [assumption|]. intro E. apply H1. rewrite <- E. apply in_map, Hin.
Qed.

Definition keeps_absent (c c' : cache) : Prop := forall k, lookup k (c_map c) = None -> lookup k (c_map c') = None.

Lemma remove_item_keeps_absent k ts c : keeps_absent c (remove_item k ts c).
Proof.
  intros k' L. unfold remove_item; simpl. destruct (list_eqb k' k) eqn:E.
  - apply list_eqb_eq in E. subst. apply lookup_remove_same.
  - apply list_eqb_neq in E. rewrite lookup_remove_other; assumption.
Qed.

Definition removal_inv (Q : bytes -> Z -> Prop) (c c' : cache) : Prop :=
  wfm c' /\ (allQ Q (c_map c) -> allQ Q (c_map c')) /\ (allT (c_map c) -> allT (c_map c')) /\
  (over c -> over c') /\ (exact c -> exact c') /\
  c_sum_size c' <= c_sum_size c /\ frame_eq c c' /\ keeps_absent c c'.

Lemma removal_inv_refl (Q : bytes -> Z -> Prop) c : wfm c -> removal_inv Q c c.
Proof. intro W. unfold removal_inv, keeps_absent. splits; try tauto; try lia; apply frame_eq_refl. Qed.

Lemma removal_inv_step (Q : bytes -> Z -> Prop) c k e e0 c'' :
  wfm c -> lookup k (c_map c) = Some e0 -> e_ts e0 = e_ts e ->
  removal_inv Q (remove_item k (e_ts e) c) c'' -> removal_inv Q c c''.
Proof.
  intros W L T R.
  destruct (remove_item_inv Q k (e_ts e) c e0 W L T) as (W1 & A1 & T1 & O1 & E1 & S1 & F1 & _ & _).
  destruct R as (W2 & A2 & T2 & O2 & E2 & S2 & F2 & K2).
  unfold removal_inv. splits; try tauto; try lia; try (eapply frame_eq_trans; eassumption).
  intros k' Hn. apply K2. apply remove_item_keeps_absent. assumption.
Qed.

(* the removal loop of AddValues, for every acceptable candidate list *)
Lemma evict_loop_inv (Q : bytes -> Z -> Prop) now nm items : forall c,
  wfm c -> valid_items c items -> removal_inv Q c (evict_loop now nm items c).
Proof.
  induction items as [|[k e] r IH]; intros c W V; simpl.
  - apply removal_inv_refl, W.
  - destruct (now <=? e_ts e); [apply removal_inv_refl, W|].
    destruct (negb (expired (e_ts e) now (c_max_ttl c)) && (c_sum_size c + nm <=? c_max_size c)); [apply removal_inv_refl, W|].
    destruct V as [ND HI]. pose proof (HI (k, e) (or_introl eq_refl)) as Hk. apply item_in_lookup in Hk as [e0 [L [_ T]]]. simpl in L, T.
    eapply removal_inv_step; try eassumption.
    apply IH.
    + eapply (remove_item_inv Q); eassumption.
    + eapply valid_items_tail; try eassumption. split; assumption.
Qed.

(* RemoveByTTL *)
Lemma remove_by_ttl_inv (Q : bytes -> Z -> Prop) items : forall c,
  wfm c -> valid_items c items -> removal_inv Q c (remove_by_ttl items c).
Proof.
  unfold remove_by_ttl. induction items as [|[k e] r IH]; intros c W V; simpl.
  - apply removal_inv_refl, W.
  - destruct V as [ND HI]. pose proof (HI (k, e) (or_introl eq_refl)) as Hk. apply item_in_lookup in Hk as [e0 [L [_ T]]]. simpl in L, T.
    eapply removal_inv_step; try eassumption.
    apply IH.
    + eapply (remove_item_inv Q); eassumption.
    + eapply valid_items_tail; try eassumption. split; assumption.
Qed.

(* ---- the first loop of AddValues ---- *)
Lemma filter_pairs_spec fixed m : forall ps kept k v,
  In (k, v) (filter_pairs fixed m kept ps) ->
  In (k, v) ps /\ lookup k m = None /\ zlen k <> 0 /\ is_marker v = false /\ (fixed = true -> mem_key k kept = false).
Proof.
  induction ps as [|[k0 v0] r IH]; intros kept k v; simpl; [tauto|].
  destruct (lookup k0 m) eqn:L; simpl.
  - intro Hin. apply IH in Hin. tauto.
  - destruct (zlen k0 =? 0) eqn:Z0; simpl; [intro Hin; apply IH in Hin; tauto|].
    destruct (is_marker v0) eqn:M; simpl; [intro Hin; apply IH in Hin; tauto|].
    destruct (fixed && mem_key k0 kept) eqn:F; [intro Hin; apply IH in Hin; tauto|].
    intros [A|Hin].
    + inversion A; subst. apply Z.eqb_neq in Z0. repeat split; try tauto. intros ->. simpl in F. exact F.
    + apply IH in Hin. destruct Hin as (A & B & C & D & E). repeat split; try tauto.
      intro Fx. specialize (E Fx). simpl in E. apply orb_false_iff in E. tauto.
Qed.

Lemma filter_pairs_nodup m : forall ps kept, NoDup (map fst (filter_pairs true m kept ps)).
Proof.
  induction ps as [|[k0 v0] r IH]; intros kept; simpl; [constructor|].
  destruct (match lookup k0 m with Some _ => true | None => false end || (zlen k0 =? 0) || is_marker v0 || mem_key k0 kept).
  - apply IH.
  - simpl. constructor; [|apply IH]. intro Hin. apply in_map_iff in Hin as [[k v] [E Hin]]. simpl in E. subst k.
    apply filter_pairs_spec in Hin. destruct Hin as (_ & _ & _ & _ & F). specialize (F eq_refl). simpl in F.
    rewrite list_eqb_refl in F. discriminate.
Qed.

(* with distinct strings in the batch the code as it is and the repaired filter agree *)
Lemma filter_pairs_fixed_irrelevant m : forall ps kept,
  NoDup (map fst ps) -> (forall k, In k (map fst ps) -> mem_key k kept = false) ->
  filter_pairs false m kept ps = filter_pairs true m kept ps.
Proof.
  induction ps as [|[k0 v0] r IH]; intros kept ND HK; simpl; [reflexivity|].
  inversion ND; subst. rewrite (HK k0) by (left; reflexivity). simpl. rewrite ?andb_false_r, ?orb_false_r.
  destruct (match lookup k0 m with Some _ => true | None => false end || (zlen k0 =? 0) || is_marker v0).
  - apply IH; [assumption|]. intros k Hin. apply HK. right; assumption.
  - f_equal. apply IH; [assumption|]. intros k Hin. simpl. rewrite (HK k) by (right; assumption). rewrite orb_false_r.
    apply list_eqb_neq. intro E. subst. simpl in H1. tauto.
Qed.

(* ---- insertion loops ---- *)
Definition insert_inv (Q : bytes -> Z -> Prop) (now : Z) (ps : list pair) (c c' : cache) : Prop :=
  wfm c' /\ ((forall k v, In (k, v) ps -> Q k v) -> allQ Q (c_map c) -> allQ Q (c_map c')) /\
  (is_u32 now -> allT (c_map c) -> allT (c_map c')) /\
  (over c -> over c') /\
  (NoDup (map fst ps) -> (forall k v, In (k, v) ps -> lookup k (c_map c) = None) -> exact c -> exact c') /\
  frame_eq c c'.

Lemma add_loop_inv (Q : bytes -> Z -> Prop) now : forall ps c, wfm c ->
  insert_inv Q now ps c (add_loop now ps c) /\
  c_sum_size (add_loop now ps c) <= Z.max (c_sum_size c) (c_max_size c).
Proof.
  induction ps as [|[k v] r IH]; intros c W; simpl.
  - unfold insert_inv. splits; try tauto; try lia; apply frame_eq_refl.
  - destruct (c_max_size c <? c_sum_size c + size_mem k) eqn:G.
    + unfold insert_inv. splits; try tauto; try lia; apply frame_eq_refl.
    + apply Z.ltb_ge in G.
      destruct (add_item_inv Q k v now c W) as (W1 & A1 & T1 & O1 & E1 & S1 & F1 & L1 & L2).
      destruct (IH _ W1) as [(W2 & A2 & T2 & O2 & E2 & F2) S2].
      split; [unfold insert_inv; splits|].
      * exact W2.
      * intros HQ HA. apply A2; [intros; apply HQ; right; assumption|]. apply A1; [apply HQ; left; reflexivity|assumption].
      * intros HU HT. apply T2; [assumption|]. apply T1; assumption.
      * intro Ho. apply O2, O1, Ho.
      * intros ND HN HE. inversion ND; subst. apply E2.
        -- assumption.
        -- intros k' v' Hin. rewrite L1; [apply (HN k' v'); right; assumption|]. intro E. subst. apply H1. apply (in_map fst) in Hin. exact Hin.
        -- apply E1; [apply (HN k v); left; reflexivity|assumption].
      * exact (frame_eq_trans _ _ _ F1 F2).
      * destruct F1 as [F1 _]. rewrite F1 in S2. lia.
Qed.

Lemma add_all_inv (Q : bytes -> Z -> Prop) now : forall ps c, wfm c ->
  insert_inv Q now ps c (add_all now ps c) /\
  c_sum_size (add_all now ps c) = c_sum_size c + sum_mem ps.
Proof.
  unfold add_all. induction ps as [|[k v] r IH]; intros c W; simpl.
  - unfold insert_inv. splits; try tauto; try lia; apply frame_eq_refl.
  - destruct (add_item_inv Q k v now c W) as (W1 & A1 & T1 & O1 & E1 & S1 & F1 & L1 & L2).
    destruct (IH _ W1) as [(W2 & A2 & T2 & O2 & E2 & F2) S2].
    split; [unfold insert_inv; splits|].
    * exact W2.
    * intros HQ HA. apply A2; [intros; apply HQ; right; assumption|]. apply A1; [apply HQ; left; reflexivity|assumption].
    * intros HU HT. apply T2; [assumption|]. apply T1; assumption.
    * intro Ho. apply O2, O1, Ho.
    * intros ND HN HE. inversion ND; subst. apply E2.
      -- assumption.
      -- intros k' v' Hin. rewrite L1; [apply (HN k' v'); right; assumption|]. intro E. subst. apply H1. apply (in_map fst) in Hin. exact Hin.
      -- apply E1; [apply (HN k v); left; reflexivity|assumption].
    * exact (frame_eq_trans _ _ _ F1 F2).
    * rewrite S2, S1. unfold sum_mem. simpl. lia.
Qed.
