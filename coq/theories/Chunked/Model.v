(* C21 — persistent caches: chunked storage file format and the mappings cache.
   Model of: internal/data_model/chunked_storage2.go (ChunkedStorage2 over the slice backend:
               ReadNext, ResetToStartOfFile, StartWriteChunk, FinishItem, finishChunk, FinishWriteChunk),
             internal/pcache/mappings_cache.go (GetValue, AddValues, RemoveByTTL, SetSizeTTL, Save, load,
               addItem, removeItem, elementSizeMem, expiredTTLLocked),
             internal/vkgo/basictl/basictl.go (StringWrite/StringRead, IntWrite/IntRead, NatWrite/NatRead).
   Bytes are Z in [0,256); byte strings are [list Z].  The 128-bit xxh3 is the Section variable [H]
   (input bytes -> the 16 bytes putHash/AppendUint64 store for it).  Executable definitions only. *)
From Coq Require Import ZArith List Bool.
From SH Require Import Common.Wrap.
Import ListNotations.
Open Scope Z_scope.

Definition bytes := list Z.
Definition zlen {A} (l : list A) : Z := Z.of_nat (length l).

Fixpoint list_eqb (a b : bytes) : bool :=
  match a, b with
  | [], [] => true
  | x :: a', y :: b' => (x =? y) && list_eqb a' b'
  | _, _ => false
  end.

(* little-endian fixed-width integers *)
Fixpoint le_bytes (n : nat) (x : Z) : bytes :=
  match n with O => [] | S n' => (x mod 256) :: le_bytes n' (x / 256) end.
Fixpoint le_val (bs : bytes) : Z :=
  match bs with [] => 0 | b :: r => b + 256 * le_val r end.
Definition le32 (x : Z) : bytes := le_bytes 4 (u32 x).

Definition slice (f : bytes) (off len : Z) : bytes := firstn (Z.to_nat len) (skipn (Z.to_nat off) f).

Definition ChunkSize : Z := 1048576.
Definition HalfChunk : Z := 524288.         (* ChunkSize/2 *)
Definition hdr_size : Z := 8.                (* chunkHeaderSize: magic + body size *)
Definition hash_size : Z := 16.              (* chunkHashSize *)
Definition zero_hash : bytes := repeat 0 16. (* xxh3.Uint128{} as stored by putHash *)
Definition MagicMappings : Z := 2208468248.  (* ChunkedMagicMappings = 0x83a28d18 *)

(* ------------------------------------------------------------------------------------------ *)
(* ChunkedStorage2                                                                            *)
(* ------------------------------------------------------------------------------------------ *)
Section Storage.
  Variable H : bytes -> bytes.

  (* One Go object holds reader and writer state; the file is the slice behind the callbacks. *)
  Record cstate := {
    s_file : bytes;
    s_off : Z; s_hash : bytes;           (* offset, hash: common part *)
    s_noff : Z; s_nhash : bytes;         (* nextOffset, nextHash *)
    s_size : Z;                          (* initialFileSize *)
    s_reading : bool;                    (* ReadAt != nil *)
    s_magic : Z                          (* writer's magic *)
  }.

  Definition open_slice (f : bytes) : cstate :=
    {| s_file := f; s_off := 0; s_hash := zero_hash; s_noff := 0; s_nhash := zero_hash;
       s_size := zlen f; s_reading := true; s_magic := 0 |}.

  Inductive rerr := EHdrOverflow | EMagic | EBodyLimit | EBodyOverflow | EHash.
  Inductive rres := RChunk (b : bytes) | REnd | RErr (e : rerr).

  Definition set_pos (st : cstate) : cstate :=
    {| s_file := s_file st; s_off := s_noff st; s_hash := s_nhash st; s_noff := s_noff st; s_nhash := s_nhash st;
       s_size := s_size st; s_reading := s_reading st; s_magic := s_magic st |}.
  Definition set_reading (st : cstate) (b : bool) : cstate :=
    {| s_file := s_file st; s_off := s_off st; s_hash := s_hash st; s_noff := s_noff st; s_nhash := s_nhash st;
       s_size := s_size st; s_reading := b; s_magic := s_magic st |}.
  Definition set_next (st : cstate) (noff : Z) (nhash : bytes) : cstate :=
    {| s_file := s_file st; s_off := s_off st; s_hash := s_hash st; s_noff := noff; s_nhash := nhash;
       s_size := s_size st; s_reading := s_reading st; s_magic := s_magic st |}.

  (* ReadNext(magic) *)
  Definition read_next (magic : Z) (st : cstate) : cstate * rres :=
    if negb (s_reading st) then (st, REnd) else
    let st1 := set_pos st in
    let off := s_off st1 in
    let f := s_file st1 in
    if off =? s_size st1 then (set_reading st1 false, REnd)
    else if s_size st1 <? off + hdr_size + hash_size then (st1, RErr EHdrOverflow)
    else if negb (le_val (slice f off 4) =? magic) then (st1, RErr EMagic)
    else
      let s := le_val (slice f (off + 4) 4) in
      if ChunkSize <? s then (st1, RErr EBodyLimit)
      else
        let nxt := off + hdr_size + s + hash_size in
        if s_size st1 <? nxt then (st1, RErr EBodyOverflow)
        else
          let stored := slice f (off + hdr_size + s) hash_size in
          let h := H (s_hash st1 ++ slice f off (hdr_size + s)) in
          if list_eqb h stored then (set_next st1 nxt stored, RChunk (slice f (off + hdr_size) s))
          else (st1, RErr EHash).

  (* ReadNext with Go's slice-bounds semantics on the scratch buffer made explicit.  [guard] = the hard-limit test
     `s > ChunkSize` is present (the code as it is).  None = runtime panic "slice bounds out of range":
     currentChunk = scratch[16:] has capacity 8 + ChunkSize + 16 and is sliced to [:8+s+16]. *)
  Definition scratch_cap : Z := hash_size + hdr_size + ChunkSize + hash_size.
  Definition read_next_b (guard : bool) (magic : Z) (st : cstate) : option (cstate * rres) :=
    if negb (s_reading st) then Some (st, REnd) else
    let st1 := set_pos st in
    let off := s_off st1 in
    let f := s_file st1 in
    if off =? s_size st1 then Some (set_reading st1 false, REnd)
    else if s_size st1 <? off + hdr_size + hash_size then Some (st1, RErr EHdrOverflow)
    else if negb (le_val (slice f off 4) =? magic) then Some (st1, RErr EMagic)
    else
      let s := le_val (slice f (off + 4) 4) in
      if guard && (ChunkSize <? s) then Some (st1, RErr EBodyLimit)
      else
        let nxt := off + hdr_size + s + hash_size in
        if s_size st1 <? nxt then Some (st1, RErr EBodyOverflow)
        else if scratch_cap <? hash_size + hdr_size + s + hash_size then None
        else
          let stored := slice f (off + hdr_size + s) hash_size in
          let h := H (s_hash st1 ++ slice f off (hdr_size + s)) in
          if list_eqb h stored then Some (set_next st1 nxt stored, RChunk (slice f (off + hdr_size) s))
          else Some (st1, RErr EHash).

  (* the loop every caller runs: ReadNext until an error or an empty chunk *)
  Fixpoint read_all (fuel : nat) (magic : Z) (st : cstate) : cstate * list bytes * rres :=
    match fuel with
    | O => (st, [], REnd)
    | S fu =>
        match read_next magic st with
        | (st', RChunk []) => (st', [], RChunk [])
        | (st', RChunk b) => let '(st'', bs, r) := read_all fu magic st' in (st'', b :: bs, r)
        | (st', r) => (st', [], r)
        end
    end.
  Definition read_file (magic : Z) (f : bytes) : cstate * list bytes * rres :=
    read_all (S (length f)) magic (open_slice f).

  (* ResetToStartOfFile *)
  Definition reset_to_start (st : cstate) : cstate :=
    {| s_file := s_file st; s_off := 0; s_hash := zero_hash; s_noff := s_noff st; s_nhash := s_nhash st;
       s_size := s_size st; s_reading := s_reading st; s_magic := s_magic st |}.

  (* StartWriteChunk: the returned chunk is modelled by its body (the 24 reserved bytes are implicit) *)
  Definition start_write (magic : Z) (st : cstate) : cstate :=
    {| s_file := s_file st; s_off := s_off st; s_hash := s_hash st; s_noff := s_noff st; s_nhash := s_nhash st;
       s_size := s_size st; s_reading := false; s_magic := magic |}.

  (* WriteAt of the slice backend: grow with zeros when needed, then copy *)
  Definition write_at (f : bytes) (off : Z) (data : bytes) : bytes :=
    let n := Z.to_nat off in
    firstn n f ++ repeat 0 (n - length f) ++ data ++ skipn (n + length data) f.

  (* the bytes hashed for one chunk: previous hash, magic, body size, body *)
  Definition chunk_input (prev : bytes) (magic : Z) (body : bytes) : bytes :=
    prev ++ le32 magic ++ le32 (zlen body) ++ body.
  Definition frame (prev : bytes) (magic : Z) (body : bytes) : bytes :=
    le32 magic ++ le32 (zlen body) ++ body ++ H (chunk_input prev magic body).

  (* finishChunk (the slice backend never returns a write error) *)
  Definition finish_chunk (st : cstate) (body : bytes) : cstate :=
    match body with
    | [] => st
    | _ =>
        let h := H (chunk_input (s_hash st) (s_magic st) body) in
        {| s_file := write_at (s_file st) (s_off st) (frame (s_hash st) (s_magic st) body);
           s_off := s_off st + hdr_size + zlen body + hash_size; s_hash := h;
           s_noff := s_noff st; s_nhash := s_nhash st; s_size := s_size st; s_reading := s_reading st; s_magic := s_magic st |}
    end.

  (* FinishItem: (state, chunk body held by the caller, error "too big item(s)") *)
  Definition finish_item (st : cstate) (body : bytes) : cstate * bytes * bool :=
    if zlen body <? HalfChunk then (st, body, false)
    else if ChunkSize <? zlen body then (st, body, true)
    else (finish_chunk st body, [], false).

  (* the caller's loop: append an item, FinishItem; stops at the first error (as Save does) *)
  Fixpoint write_items (st : cstate) (body : bytes) (items : list bytes) : cstate * bytes * bool :=
    match items with
    | [] => (st, body, false)
    | it :: r =>
        let '(st', body', err) := finish_item st (body ++ it) in
        if err then (st', body', true) else write_items st' body' r
    end.

  (* FinishWriteChunk: finishChunk, then Truncate(offset) *)
  Definition finish_write (st : cstate) (body : bytes) : cstate :=
    let st' := finish_chunk st body in
    {| s_file := firstn (Z.to_nat (s_off st')) (s_file st'); s_off := s_off st'; s_hash := s_hash st';
       s_noff := s_noff st'; s_nhash := s_nhash st'; s_size := s_size st'; s_reading := s_reading st'; s_magic := s_magic st' |}.

  (* one complete write session; None = FinishItem reported an oversized chunk *)
  Definition write_session (magic : Z) (st : cstate) (items : list bytes) : option cstate :=
    let '(st', body, err) := write_items (start_write magic st) [] items in
    if err then None else Some (finish_write st' body).

  (* ---- specification-level view: how items are grouped into chunk bodies, and the encoded file ---- *)
  Fixpoint group_bodies (body : bytes) (items : list bytes) : option (list bytes) :=
    match items with
    | [] => Some (match body with [] => [] | _ => [body] end)
    | it :: r =>
        let b := body ++ it in
        if zlen b <? HalfChunk then group_bodies b r
        else if ChunkSize <? zlen b then None
        else match group_bodies [] r with Some l => Some (b :: l) | None => None end
    end.

  Fixpoint encode (prev : bytes) (magic : Z) (bodies : list bytes) : bytes :=
    match bodies with
    | [] => []
    | b :: r => frame prev magic b ++ encode (H (chunk_input prev magic b)) magic r
    end.
  Fixpoint last_hash (prev : bytes) (magic : Z) (bodies : list bytes) : bytes :=
    match bodies with
    | [] => prev
    | b :: r => last_hash (H (chunk_input prev magic b)) magic r
    end.
End Storage.

(* ------------------------------------------------------------------------------------------ *)
(* basictl serialisation of one cache item: string, int32 value, uint32 accessTS              *)
(* ------------------------------------------------------------------------------------------ *)
Definition pad_len (p : Z) : Z := (- p) mod 4.   (* paddingLen: int(-uint(l) % 4) *)

Definition string_write (k : bytes) : bytes :=
  let l := zlen k in
  if l <=? 253 then [l] ++ k ++ repeat 0 (Z.to_nat (pad_len (l + 1)))
  else if l <=? 16777215 then [254] ++ le_bytes 3 l ++ k ++ repeat 0 (Z.to_nat (pad_len l))
  else [255] ++ le_bytes 7 l ++ k ++ repeat 0 (Z.to_nat (pad_len l)).

Definition all_zero (b : bytes) : bool := forallb (fun x => x =? 0) b.

(* StringRead: Some (string, rest) or None on any error *)
Definition string_read (r : bytes) : option (bytes * bytes) :=
  match r with
  | [] => None
  | b0 :: r1 =>
      let finish (l p : Z) (r2 : bytes) :=
        if zlen r2 <? l then None
        else let pad := pad_len p in
             if zlen r2 <? l + pad then None
             else if all_zero (slice r2 l pad) then Some (firstn (Z.to_nat l) r2, skipn (Z.to_nat (l + pad)) r2)
             else None in
      if b0 <=? 253 then finish b0 (b0 + 1) r1
      else if b0 =? 254 then
        if zlen r <? 4 then None
        else let l := le_val (firstn 3 r1) in
             if l <=? 253 then None else finish l l (skipn 3 r1)
      else
        if zlen r <? 8 then None
        else let l := le_val (firstn 7 r1) in
             if l <=? 16777215 then None else finish l l (skipn 7 r1)
  end.

Definition int_write (v : Z) : bytes := le32 v.             (* int32 -> its 4 bytes *)
Definition nat_write (v : Z) : bytes := le32 v.
Definition int_read (r : bytes) : option (Z * bytes) :=
  if zlen r <? 4 then None else Some (i32 (le_val (firstn 4 r)), skipn 4 r).
Definition nat_read (r : bytes) : option (Z * bytes) :=
  if zlen r <? 4 then None else Some (le_val (firstn 4 r), skipn 4 r).

(* ------------------------------------------------------------------------------------------ *)
(* MappingsCache                                                                              *)
(* ------------------------------------------------------------------------------------------ *)
Record entry := { e_val : Z; e_ts : Z }.   (* cacheValue: int32 value, uint32 accessTS *)
Definition amap := list (bytes * entry).   (* map[string]cacheValue as an association list with distinct keys *)

Fixpoint lookup (k : bytes) (m : amap) : option entry :=
  match m with
  | [] => None
  | (k', e) :: r => if list_eqb k k' then Some e else lookup k r
  end.
Fixpoint remove (k : bytes) (m : amap) : amap :=
  match m with
  | [] => []
  | (k', e) :: r => if list_eqb k k' then remove k r else (k', e) :: remove k r
  end.
Definition set (k : bytes) (e : entry) (m : amap) : amap :=
  match lookup k m with
  | None => m ++ [(k, e)]
  | Some _ => map (fun p => if list_eqb k (fst p) then (k, e) else p) m
  end.

Record cache := {
  c_map : amap;
  c_sum_size : Z;       (* sumSize *)
  c_sum_ts : Z;         (* sumTS *)
  c_max_size : Z;       (* maxSize *)
  c_max_ttl : Z;        (* maxTTL *)
  c_version : Z;
  c_saved : Z           (* lastSavedVersion *)
}.

Definition new_cache (max_size max_ttl : Z) : cache :=
  {| c_map := []; c_sum_size := 0; c_sum_ts := 0; c_max_size := max_size; c_max_ttl := max_ttl; c_version := 0; c_saved := 0 |}.

Definition with_map (c : cache) (m : amap) (ss st : Z) : cache :=
  {| c_map := m; c_sum_size := ss; c_sum_ts := st; c_max_size := c_max_size c; c_max_ttl := c_max_ttl c;
     c_version := c_version c; c_saved := c_saved c |}.
Definition bump_version (c : cache) : cache :=
  {| c_map := c_map c; c_sum_size := c_sum_size c; c_sum_ts := c_sum_ts c; c_max_size := c_max_size c; c_max_ttl := c_max_ttl c;
     c_version := c_version c + 1; c_saved := c_saved c |}.
Definition set_size_ttl (c : cache) (max_size max_ttl : Z) : cache :=
  {| c_map := c_map c; c_sum_size := c_sum_size c; c_sum_ts := c_sum_ts c; c_max_size := max_size; c_max_ttl := max_ttl;
     c_version := c_version c; c_saved := c_saved c |}.

Definition size_mem (k : bytes) : Z := zlen k * 5 / 4 + 32.   (* elementSizeMem *)
Definition expired (item_ts now ttl : Z) : bool := (0 <? ttl) && (item_ts + ttl <? now).

(* known markers: 0, TagValueIDMappingFlood (-1), TagValueIDDoesNotExist (-2) *)
Definition is_marker (v : Z) : bool := (v =? 0) || (v =? -1) || (v =? -2).

(* GetValue with accessTSGran = 1 (rnd.Uint32n(1) = 0); the writer lock is always free in a sequential history *)
Definition get_value (ts : Z) (k : bytes) (c : cache) : cache * option Z :=
  match lookup k (c_map c) with
  | None => (c, None)
  | Some e =>
      if ts <=? e_ts e then (c, Some (e_val e))
      else (with_map c (set k {| e_val := e_val e; e_ts := ts |} (c_map c)) (c_sum_size c) (c_sum_ts c - e_ts e + ts),
            Some (e_val e))
  end.

(* addItem / removeItem (testMode off: no existence check) *)
Definition add_item (k : bytes) (v ts : Z) (c : cache) : cache :=
  with_map c (set k {| e_val := v; e_ts := ts |} (c_map c)) (c_sum_size c + size_mem k) (c_sum_ts c + ts).
Definition remove_item (k : bytes) (ts : Z) (c : cache) : cache :=
  with_map c (remove k (c_map c)) (c_sum_size c - size_mem k) (c_sum_ts c - ts).

Definition pair := (bytes * Z)%type.    (* MappingPair: Str, Value *)
Definition mem_key (k : bytes) (ps : list pair) : bool := existsb (fun p => list_eqb k (fst p)) ps.

(* the first loop of AddValues.  [fixed = false] is the code as it is: a string occurring twice in the batch
   passes twice.  [fixed = true] is the repaired variant that also skips strings already kept from this batch. *)
Fixpoint filter_pairs (fixed : bool) (m : amap) (kept : list pair) (ps : list pair) : list pair :=
  match ps with
  | [] => []
  | (k, v) :: r =>
      let skip := match lookup k m with Some _ => true | None => false end
                  || (zlen k =? 0) || is_marker v || (fixed && mem_key k kept) in
      if skip then filter_pairs fixed m kept r
      else (k, v) :: filter_pairs fixed m ((k, v) :: kept) r
  end.

Definition sum_mem (ps : list pair) : Z := fold_right (fun p a => size_mem (fst p) + a) 0 ps.

Definition item := (bytes * entry)%type.   (* cacheKeyValue *)

(* the removal loop over the sorted candidates *)
Fixpoint evict_loop (now new_mem : Z) (items : list item) (c : cache) : cache :=
  match items with
  | [] => c
  | (k, e) :: r =>
      if now <=? e_ts e then c
      else if negb (expired (e_ts e) now (c_max_ttl c)) && (c_sum_size c + new_mem <=? c_max_size c) then c
      else evict_loop now new_mem r (remove_item k (e_ts e) c)
  end.

(* the final insertion loop: stops at the first pair that does not fit *)
Fixpoint add_loop (now : Z) (ps : list pair) (c : cache) : cache :=
  match ps with
  | [] => c
  | (k, v) :: r =>
      if c_max_size c <? c_sum_size c + size_mem k then c
      else add_loop now r (add_item k v now c)
  end.

Definition add_all (now : Z) (ps : list pair) (c : cache) : cache :=
  fold_left (fun c p => add_item (fst p) (snd p) now c) ps c.

Definition remove_size (c : cache) (new_mem : Z) : Z :=
  let rs := c_sum_size c + new_mem - c_max_size c in
  if (new_mem <? rs) && (c_sum_size c / 1024 <? rs) then c_sum_size c / 1024 else rs.

(* AddValues(nowUnix, pairs); [items] = the sorted eviction candidates (Go map iteration order is an input) *)
Definition add_values (fixed : bool) (now : Z) (ps : list pair) (items : list item) (c : cache) : cache :=
  let ps' := filter_pairs fixed (c_map c) [] ps in
  match ps' with
  | [] => c
  | _ =>
      let new_mem := sum_mem ps' in
      if c_sum_size c + new_mem <=? c_max_size c then bump_version (add_all now ps' c)
      else bump_version (add_loop now ps' (evict_loop now new_mem items c))
  end.
Definition add_takes_slow_path (fixed : bool) (ps : list pair) (c : cache) : bool :=
  let ps' := filter_pairs fixed (c_map c) [] ps in
  match ps' with [] => false | _ => negb (c_sum_size c + sum_mem ps' <=? c_max_size c) end.

Fixpoint keys_distinct (l : list bytes) : bool :=
  match l with [] => true | k :: r => negb (existsb (list_eqb k) r) && keys_distinct r end.

Fixpoint str_leb (a b : bytes) : bool :=   (* cmp.Compare on Go strings: bytewise *)
  match a, b with
  | [], _ => true
  | _ :: _, [] => false
  | x :: a', y :: b' => (x <? y) || ((x =? y) && str_leb a' b')
  end.
Fixpoint sorted_items (det : bool) (l : list item) : bool :=
  match l with
  | [] => true
  | (k, e) :: r =>
      match r with
      | [] => true
      | (k', e') :: _ => ((e_ts e <? e_ts e') || ((e_ts e =? e_ts e') && (negb det || str_leb k k'))) && sorted_items det r
      end
  end.
Definition entry_eqb (a b : entry) : bool := (e_val a =? e_val b) && (e_ts a =? e_ts b).
Definition item_in (m : amap) (it : item) : bool :=
  match lookup (fst it) m with Some e => entry_eqb e (snd it) | None => false end.

(* what a list of eviction candidates must satisfy whatever the map iteration order was *)
Definition accepts_items (det : bool) (c : cache) (items : list item) : bool :=
  keys_distinct (map fst items) && forallb (item_in (c_map c)) items && sorted_items det items.

(* RemoveByTTL(maxCount, nowUnix); [items] = the expired entries among the visited ones *)
Definition accepts_ttl (maxc now : Z) (c : cache) (items : list item) : bool :=
  keys_distinct (map fst items) && forallb (item_in (c_map c)) items
  && forallb (fun it => expired (e_ts (snd it)) now (c_max_ttl c)) items
  && (zlen items <=? Z.max 0 maxc)
  && ((maxc <? zlen (c_map c)) ||
      (zlen items =? zlen (filter (fun it => expired (e_ts (snd it)) now (c_max_ttl c)) (c_map c)))).
Definition remove_by_ttl (items : list item) (c : cache) : cache :=
  fold_left (fun c it => remove_item (fst it) (e_ts (snd it)) c) items c.

(* Save: the items in file order (map iteration order is an input) *)
Definition item_bytes (it : item) : bytes :=
  string_write (fst it) ++ int_write (e_val (snd it)) ++ nat_write (e_ts (snd it)).

(* sort used by Save in deterministic mode: by accessTS then string *)
Definition item_leb (a b : item) : bool :=
  (e_ts (snd a) <? e_ts (snd b)) || ((e_ts (snd a) =? e_ts (snd b)) && str_leb (fst a) (fst b)).

(* load: parse the items of one chunk; (cache, error?) *)
Fixpoint load_chunk (fuel : nat) (chunk : bytes) (c : cache) : cache * bool :=
  match chunk with
  | [] => (c, false)
  | _ =>
      match fuel with
      | O => (c, true)
      | S fu =>
          match string_read chunk with
          | None => (c, true)
          | Some (k, r1) =>
              match int_read r1 with
              | None => (c, true)
              | Some (v, r2) =>
                  match nat_read r2 with
                  | None => (c, true)
                  | Some (ts, r3) =>
                      match lookup k (c_map c) with
                      | Some _ => load_chunk fu r3 c
                      | None => load_chunk fu r3 (with_map c (c_map c ++ [(k, {| e_val := v; e_ts := ts |})])
                                                           (c_sum_size c + size_mem k) (c_sum_ts c + ts))
                      end
                  end
              end
          end
      end
  end.
Fixpoint load_bodies (bodies : list bytes) (c : cache) : cache * bool :=
  match bodies with
  | [] => (c, false)
  | b :: r => let '(c', err) := load_chunk (length b) b c in if err then (c', true) else load_bodies r c'
  end.

Section CacheFile.
  Variable H : bytes -> bytes.
  (* load(storage): ReadNext until error/empty chunk, parse every chunk; error = storage error or parse error *)
  Definition load_file (f : bytes) (c : cache) : cache * bool :=
    let '(_, bodies, r) := read_file H MagicMappings f in
    let '(c', err) := load_bodies bodies c in
    (c', err || match r with RErr _ => true | _ => false end).
  (* Save into a storage whose file currently is [f0]: None = nothing to save; Some (file, ok) *)
  Definition save_file (st : cstate) (order : list item) : option cstate :=
    write_session H MagicMappings (reset_to_start st) (map item_bytes order).
End CacheFile.

(* ------------------------------------------------------------------------------------------ *)
(* Histories of one cache and its file (the file is seen as the list of its chunk bodies; the *)
(* framing is the storage model above)                                                        *)
(* ------------------------------------------------------------------------------------------ *)
Inductive op :=
| AAdd (now : Z) (ps : list pair) (items : list item)   (* AddValues; items = sorted eviction candidates *)
| AGet (ts : Z) (k : bytes)                             (* GetValue *)
| ATTL (maxc now : Z) (items : list item)               (* RemoveByTTL; items = expired entries among the visited *)
| ASetSize (ms ttl : Z)                                 (* SetSizeTTL *)
| ASave (order : list item)                             (* Save; order = items in map iteration (or sorted) order *)
| AReload (ms ttl : Z).                                 (* LoadMappingsCacheSlice(file, ms); SetSizeTTL(ms, ttl) *)

Definition hstate := (cache * list bytes)%type.

Definition same_map (m : amap) (dump : list item) : bool :=
  (zlen m =? zlen dump) && keys_distinct (map fst dump) && forallb (item_in m) dump.

Fixpoint sorted_by_item_leb (l : list item) : bool :=
  match l with
  | [] => true
  | a :: r => match r with [] => true | b :: _ => item_leb a b && sorted_by_item_leb r end
  end.

Definition with_saved (c : cache) : cache :=
  {| c_map := c_map c; c_sum_size := c_sum_size c; c_sum_ts := c_sum_ts c; c_max_size := c_max_size c; c_max_ttl := c_max_ttl c;
     c_version := c_version c; c_saved := c_version c |}.

(* what the recorded nondeterminism of an operation must satisfy *)
Definition op_accepts (fixed det : bool) (st : hstate) (o : op) : bool :=
  let c := fst st in
  match o with
  | AAdd now ps items => negb (add_takes_slow_path fixed ps c) || accepts_items det c items
  | ATTL maxc now items => accepts_ttl maxc now c items
  | ASave order => (c_version c =? c_saved c) || (same_map (c_map c) order && (negb det || sorted_by_item_leb order))
  | _ => true
  end.

(* one operation: new state, value returned by GetValue, whether Save wrote the file.
   A Save that fails with "too big item(s)" (a single item above ChunkSize) is modelled as leaving the file as it was. *)
Definition hstep (fixed : bool) (st : hstate) (o : op) : hstate * option Z * bool :=
  let '(c, file) := st in
  match o with
  | AAdd now ps items => ((add_values fixed now ps items c, file), None, false)
  | AGet ts k => let '(c', r) := get_value ts k c in ((c', file), r, false)
  | ATTL _ _ items => ((remove_by_ttl items c, file), None, false)
  | ASetSize ms ttl => ((set_size_ttl c ms ttl, file), None, false)
  | ASave order =>
      if c_version c =? c_saved c then (st, None, false)
      else match group_bodies [] (map item_bytes order) with
           | Some bs => ((with_saved c, bs), None, true)
           | None => (st, None, false)
           end
  | AReload ms ttl =>
      let '(c', _) := load_bodies file (new_cache ms 0) in ((set_size_ttl c' ms ttl, file), None, false)
  end.

(* a whole history; None = some recorded nondeterminism was not acceptable *)
Fixpoint hrun (fixed det : bool) (st : hstate) (ops : list op) : option hstate :=
  match ops with
  | [] => Some st
  | o :: r => if op_accepts fixed det st o then hrun fixed det (fst (fst (hstep fixed st o))) r else None
  end.
