(* C21 — the TL encoding of cache items parses back, and Save's chunk bodies load to the saved map. *)
From Coq Require Import ZArith List Bool Lia.
From SH Require Import Common.Wrap Chunked.Model Chunked.ProofsMap Chunked.ProofsCache.
Import ListNotations.
Open Scope Z_scope.

Lemma zlen_app {A} (a b : list A) : zlen (a ++ b) = zlen a + zlen b.
Proof. unfold zlen. rewrite app_length. lia. Qed.
Lemma zlen_nonneg {A} (a : list A) : 0 <= zlen a.
Proof. unfold zlen. lia. Qed.
Lemma zlen_repeat {A} (x : A) n : zlen (repeat x n) = Z.of_nat n.
Proof. unfold zlen. rewrite repeat_length. reflexivity. Qed.

Lemma le_bytes_length n x : length (le_bytes n x) = n.
Proof. revert x; induction n; intro x; simpl; [reflexivity|]. rewrite IHn. reflexivity. Qed.
Lemma le_val_le_bytes n : forall x, 0 <= x < 256 ^ Z.of_nat n -> le_val (le_bytes n x) = x.
Proof.
  induction n; intros x Hx.
  - simpl in *. lia.
  - change (le_bytes (S n) x) with ((x mod 256) :: le_bytes n (x / 256)).
    change (le_val ((x mod 256) :: le_bytes n (x / 256))) with (x mod 256 + 256 * le_val (le_bytes n (x / 256))).
    rewrite IHn.
    + pose proof (Z.div_mod x 256 ltac:(lia)). lia.
    + rewrite Nat2Z.inj_succ, Z.pow_succ_r in Hx by lia. split; [apply Z.div_pos; lia|]. apply Z.div_lt_upper_bound; lia.
Qed.

Lemma firstn_app_exact {A} (a b : list A) n : n = length a -> firstn n (a ++ b) = a.
Proof. intros ->. rewrite firstn_app, Nat.sub_diag, firstn_all. simpl. apply app_nil_r. Qed.
Lemma skipn_app_exact {A} (a b : list A) n : n = length a -> skipn n (a ++ b) = b.
Proof. intros ->. rewrite skipn_app, Nat.sub_diag, skipn_all. reflexivity. Qed.

Lemma all_zero_repeat n : all_zero (repeat 0 n) = true.
Proof. unfold all_zero. induction n; simpl; [reflexivity|assumption]. Qed.

Lemma pad_len_range p : 0 <= pad_len p < 4.
Proof. unfold pad_len. apply Z.mod_pos_bound. lia. Qed.

(* the tail of StringRead after the length has been decoded *)
Lemma string_finish k p rest :
  let l := zlen k in
  let r2 := k ++ repeat 0 (Z.to_nat (pad_len p)) ++ rest in
  (if zlen r2 <? l then None
   else let pad := pad_len p in
        if zlen r2 <? l + pad then None
        else if all_zero (slice r2 l pad) then Some (firstn (Z.to_nat l) r2, skipn (Z.to_nat (l + pad)) r2) else None)
  = Some (k, rest).
Proof.
  intros l r2. pose proof (pad_len_range p) as Hp. pose proof (zlen_nonneg rest).
  assert (Hl : zlen r2 = l + pad_len p + zlen rest).
  { unfold r2. rewrite !zlen_app, zlen_repeat. fold l. rewrite Z2Nat.id by lia. lia. }
  destruct (zlen r2 <? l) eqn:E1; [apply Z.ltb_lt in E1; lia|].
  cbv zeta. destruct (zlen r2 <? l + pad_len p) eqn:E2; [apply Z.ltb_lt in E2; lia|].
  assert (Hs : slice r2 l (pad_len p) = repeat 0 (Z.to_nat (pad_len p))).
  { unfold slice, r2. rewrite skipn_app_exact by (unfold l, zlen; rewrite Nat2Z.id; reflexivity).
    apply firstn_app_exact. rewrite repeat_length. reflexivity. }
  rewrite Hs, all_zero_repeat. f_equal. f_equal.
  - unfold r2. apply firstn_app_exact. unfold l, zlen. rewrite Nat2Z.id. reflexivity.
  - unfold r2. rewrite app_assoc. apply skipn_app_exact. rewrite app_length, repeat_length. unfold l, zlen. lia.
Qed.

Lemma string_roundtrip k rest : zlen k <= 16777215 -> string_read (string_write k ++ rest) = Some (k, rest).
Proof.
  intro Hk. pose proof (zlen_nonneg k) as Hn. unfold string_write.
  destruct (zlen k <=? 253) eqn:E1.
  - simpl app. unfold string_read. rewrite E1. rewrite <- app_assoc. apply string_finish.
  - apply Z.leb_gt in E1. destruct (zlen k <=? 16777215) eqn:E2; [|apply Z.leb_gt in E2; lia].
    pose proof (le_bytes_length 3 (zlen k)) as HL. pose proof (le_val_le_bytes 3 (zlen k) ltac:(simpl; lia)) as HV.
    destruct (le_bytes 3 (zlen k)) as [|a [|b [|c [|d lb]]]]; simpl in HL; try discriminate.
    rewrite <- !app_assoc. cbn [app].
    set (tail := k ++ repeat 0 (Z.to_nat (pad_len (zlen k))) ++ rest).
    unfold string_read. change (254 <=? 253) with false. change (254 =? 254) with true. cbv iota.
    assert (H4 : zlen (254 :: a :: b :: c :: tail) <? 4 = false) by (apply Z.ltb_ge; unfold zlen; cbn [length]; lia).
    rewrite H4. cbn [firstn skipn]. rewrite HV.
    destruct (zlen k <=? 253) eqn:E3; [apply Z.leb_le in E3; lia|].
    apply string_finish.
Qed.

Lemma le32_length x : length (le32 x) = 4%nat.
Proof. apply le_bytes_length. Qed.
Lemma le_val_le32 x : le_val (le32 x) = u32 x.
Proof. unfold le32. apply le_val_le_bytes. pose proof (u32_range x) as Hr. unfold is_u32, two32 in Hr. simpl. lia. Qed.

Lemma i32_u32 v : is_i32 v -> i32 (u32 v) = v.
Proof.
  unfold is_i32, i32, u32, two31, two32. intro Hv. rewrite Z.mod_mod by lia.
  destruct (Z_lt_dec v 0).
  - assert (E : v mod 4294967296 = v + 4294967296).
    { symmetry. apply (Z.mod_unique v 4294967296 (-1)); lia. }
    rewrite E. destruct (v + 4294967296 <? 2147483648) eqn:C; [apply Z.ltb_lt in C; lia|lia].
  - rewrite Z.mod_small by lia. destruct (v <? 2147483648) eqn:C; [reflexivity|apply Z.ltb_ge in C; lia].
Qed.

Lemma int_roundtrip v rest : is_i32 v -> int_read (int_write v ++ rest) = Some (v, rest).
Proof.
  intro Hv. unfold int_read, int_write.
  assert (H4 : zlen (le32 v ++ rest) <? 4 = false).
  { apply Z.ltb_ge. rewrite zlen_app. unfold zlen at 1. rewrite le32_length. pose proof (zlen_nonneg rest). lia. }
  rewrite H4, firstn_app_exact, skipn_app_exact by (rewrite le32_length; reflexivity).
  rewrite le_val_le32, i32_u32 by assumption. reflexivity.
Qed.
Lemma nat_roundtrip v rest : is_u32 v -> nat_read (nat_write v ++ rest) = Some (v, rest).
Proof.
  intro Hv. unfold nat_read, nat_write.
  assert (H4 : zlen (le32 v ++ rest) <? 4 = false).
  { apply Z.ltb_ge. rewrite zlen_app. unfold zlen at 1. rewrite le32_length. pose proof (zlen_nonneg rest). lia. }
  rewrite H4, firstn_app_exact, skipn_app_exact by (rewrite le32_length; reflexivity).
  rewrite le_val_le32, u32_id by assumption. reflexivity.
Qed.

(* what load does with a list of decoded items *)
Definition load_item (c : cache) (it : item) : cache :=
  match lookup (fst it) (c_map c) with
  | Some _ => c
  | None => with_map c (c_map c ++ [(fst it, {| e_val := e_val (snd it); e_ts := e_ts (snd it) |})])
                     (c_sum_size c + size_mem (fst it)) (c_sum_ts c + e_ts (snd it))
  end.
Definition load_items (its : list item) (c : cache) : cache := fold_left load_item its c.

Definition item_ok (it : item) : Prop :=
  zlen (fst it) <= 16777215 /\ is_i32 (e_val (snd it)) /\ is_u32 (e_ts (snd it)).
Definition enc (its : list item) : bytes := concat (map item_bytes its).

Lemma item_bytes_nonempty (it : item) : item_bytes it <> [].
Proof.
  unfold item_bytes, string_write. cbv zeta. destruct (zlen (fst it) <=? 253); [|destruct (zlen (fst it) <=? 16777215)]; simpl; discriminate.
Qed.

Lemma load_chunk_enc : forall its fuel c, Forall item_ok its -> (length its <= fuel)%nat ->
  load_chunk fuel (enc its) c = (load_items its c, false).
Proof.
  induction its as [|it r IH]; intros fuel c HF Hfu.
  - destruct fuel; reflexivity.
  - inversion HF as [|? ? [K [V T]] HF']; subst. destruct fuel as [|fu]; [simpl in Hfu; lia|].
    unfold enc. simpl map. simpl concat. fold (enc r).
    destruct (item_bytes it ++ enc r) eqn:Enil.
    { exfalso. apply app_eq_nil in Enil as [E _]. eapply item_bytes_nonempty, E. }
    rewrite <- Enil. clear Enil. simpl load_chunk.
    destruct (item_bytes it ++ enc r) eqn:Enil; [exfalso; apply app_eq_nil in Enil as [E _]; eapply item_bytes_nonempty, E|].
    rewrite <- Enil. clear Enil.
    unfold item_bytes at 1. rewrite <- !app_assoc.
    rewrite string_roundtrip by assumption. rewrite int_roundtrip by assumption. rewrite nat_roundtrip by assumption.
    unfold load_items. simpl fold_left. unfold load_item at 2.
    destruct (lookup (fst it) (c_map c)); apply IH; try assumption; simpl in Hfu; lia.
Qed.

Lemma load_bodies_enc : forall groups c, Forall (Forall item_ok) groups ->
  load_bodies (map enc groups) c = (load_items (concat groups) c, false).
Proof.
  induction groups as [|g r IH]; intros c HF; [reflexivity|].
  inversion HF; subst. simpl map. simpl load_bodies.
  rewrite load_chunk_enc; [|assumption|].
  - rewrite IH by assumption. simpl concat. unfold load_items. rewrite fold_left_app. reflexivity.
  - unfold enc. clear. induction g as [|it g IH]; simpl; [lia|]. rewrite app_length.
    pose proof (item_bytes_nonempty it). destruct (item_bytes it); [congruence|]. simpl. lia.
Qed.

Lemma enc_app a b : enc (a ++ b) = enc a ++ enc b.
Proof. unfold enc. rewrite map_app, concat_app. reflexivity. Qed.
Lemma enc_nil_inv a : enc a = [] -> a = [].
Proof.
  destruct a as [|it a]; [reflexivity|]. unfold enc. simpl. intro E. apply app_eq_nil in E as [E _].
  exfalso. eapply item_bytes_nonempty, E.
Qed.

(* every chunk body written by Save is the encoding of a group of consecutive items *)
Lemma group_bodies_groups : forall its acc bs,
  group_bodies (enc acc) (map item_bytes its) = Some bs ->
  exists groups, bs = map enc groups /\ concat groups = acc ++ its.
Proof.
  induction its as [|it r IH]; intros acc bs; simpl.
  - intro E. inversion E; subst. destruct (enc acc) eqn:Ea.
    + apply enc_nil_inv in Ea. subst. exists []. split; reflexivity.
    + exists [acc]. simpl. rewrite Ea, !app_nil_r. split; reflexivity.
  - replace (enc acc ++ item_bytes it) with (enc (acc ++ [it])) by (rewrite enc_app; unfold enc; simpl; rewrite app_nil_r; reflexivity).
    destruct (zlen (enc (acc ++ [it])) <? HalfChunk).
    + intro E. apply IH in E as [groups [A B]]. exists groups. split; [assumption|]. rewrite B, <- app_assoc. reflexivity.
    + destruct (ChunkSize <? zlen (enc (acc ++ [it]))); [discriminate|].
      destruct (group_bodies [] (map item_bytes r)) as [l|] eqn:G; [|discriminate].
      intro E. inversion E; subst. change (@nil Z) with (enc []) in G. apply IH in G as [groups [A B]].
      exists ((acc ++ [it]) :: groups). simpl. rewrite A, B, <- app_assoc. split; reflexivity.
Qed.

(* ... and no item of a successful Save is longer than a chunk *)
Lemma group_bodies_item_len : forall items body bs,
  group_bodies body items = Some bs -> Forall (fun it => zlen it <= ChunkSize) items.
Proof.
  induction items as [|it r IH]; intros body bs; simpl; [constructor|].
  pose proof (zlen_nonneg body) as Hb. unfold HalfChunk, ChunkSize.
  destruct (zlen (body ++ it) <? 524288) eqn:E1.
  - intro G. apply Z.ltb_lt in E1. rewrite zlen_app in E1. constructor; [lia|eapply IH, G].
  - destruct (1048576 <? zlen (body ++ it)) eqn:E2; [discriminate|]. apply Z.ltb_ge in E2. rewrite zlen_app in E2.
    destruct (group_bodies [] r) eqn:G; [|discriminate]. intros _. constructor; [lia|eapply IH, G].
Qed.

Lemma item_bytes_len (it : item) : zlen (fst it) <= zlen (item_bytes it).
Proof.
  unfold item_bytes, string_write. cbv zeta.
  destruct (zlen (fst it) <=? 253); [|destruct (zlen (fst it) <=? 16777215)];
  unfold zlen; repeat rewrite app_length; cbn [length]; lia.
Qed.

Definition vals_ok (its : list item) : Prop := forall it, In it its -> is_i32 (e_val (snd it)) /\ is_u32 (e_ts (snd it)).

Lemma lookup_app_other m k e k' : k' <> k -> lookup k' (m ++ [(k, e)]) = lookup k' m.
Proof.
  intro N. induction m as [|[k2 e2] m IH]; simpl.
  - apply list_eqb_neq in N. rewrite N. reflexivity.
  - destruct (list_eqb k' k2); [reflexivity|apply IH].
Qed.

Lemma load_items_fresh : forall its c,
  NoDup (keys its) -> (forall k, In k (keys its) -> lookup k (c_map c) = None) ->
  c_map (load_items its c) = c_map c ++ its /\ c_sum_size (load_items its c) = c_sum_size c + esize its /\
  c_sum_ts (load_items its c) = c_sum_ts c + ets its /\ frame_eq c (load_items its c).
Proof.
  induction its as [|[k e] r IH]; intros c ND HN.
  - unfold load_items; simpl. rewrite app_nil_r. unfold esize, ets; simpl. splits; try lia; try reflexivity. apply frame_eq_refl.
  - inversion ND; subst.
    assert (E1 : load_items ((k, e) :: r) c = load_items r (load_item c (k, e))) by reflexivity.
    rewrite E1.
    assert (E2 : load_item c (k, e) = with_map c (c_map c ++ [(k, {| e_val := e_val e; e_ts := e_ts e |})]) (c_sum_size c + size_mem k) (c_sum_ts c + e_ts e)).
    { unfold load_item. simpl fst. simpl snd. rewrite (HN k) by (left; reflexivity). reflexivity. }
    destruct (IH (load_item c (k, e))) as (A & B & C & D).
    + assumption.
    + intros k' Hin. rewrite E2. simpl. assert (k' <> k) by (intro E; subst; tauto).
      rewrite lookup_app_other by assumption. apply HN. right; assumption.
    + rewrite A, B, C. rewrite E2 in D. rewrite E2. simpl. destruct e as [ev et]. simpl. rewrite <- app_assoc. simpl.
      unfold esize, ets. simpl. splits; try lia; try reflexivity. unfold frame_eq in *. simpl in D. tauto.
Qed.

(* cache_save_load_same at the level of chunk bodies *)
Theorem save_load_bodies order bs ms :
  group_bodies [] (map item_bytes order) = Some bs -> NoDup (keys order) -> vals_ok order ->
  load_bodies bs (new_cache ms 0) =
  ({| c_map := order; c_sum_size := esize order; c_sum_ts := ets order; c_max_size := ms; c_max_ttl := 0; c_version := 0; c_saved := 0 |}, false).
Proof.
  intros G ND VO.
  assert (HOK : Forall item_ok order).
  { pose proof (group_bodies_item_len _ _ _ G) as HL. rewrite Forall_forall in *. intros it Hin.
    specialize (HL (item_bytes it) (in_map _ _ _ Hin)). pose proof (item_bytes_len it). destruct (VO it Hin).
    unfold item_ok, ChunkSize in *. splits; try assumption. lia. }
  change (@nil Z) with (enc []) in G. apply group_bodies_groups in G as [groups [A B]]. simpl in B. subst bs.
  rewrite load_bodies_enc.
  - rewrite B. destruct (load_items_fresh order (new_cache ms 0) ND) as (M & S & T & F).
    + intros; reflexivity.
    + simpl in *. destruct (load_items order (new_cache ms 0)) as [m ss st mx tt vv sv]. simpl in *.
      unfold frame_eq in F. simpl in F. destruct F as (F1 & F2 & F3 & F4). subst. reflexivity.
  - rewrite Forall_forall. intros g Hg. rewrite Forall_forall. intros it Hin. rewrite Forall_forall in HOK. apply HOK.
    rewrite <- B. apply in_concat. exists g. tauto.
Qed.
