(* C21 — one changed byte anywhere in a saved file (every bit flip of every position, size fields included). *)
From Coq Require Import ZArith List Bool Lia.
From SH Require Import Common.Wrap Chunked.Model Chunked.ProofsMap Chunked.ProofsCache Chunked.ProofsCodec Chunked.ProofsStore Chunked.ProofsAny.
Import ListNotations.
Open Scope Z_scope.

Lemma slice_app_l (a x : bytes) o l : 0 <= o -> 0 <= l -> o + l <= zlen a -> slice (a ++ x) o l = slice a o l.
Proof.
  unfold slice, zlen. intros Ho Hl Hh. rewrite skipn_app, firstn_app.
  replace (Z.to_nat o - length a)%nat with 0%nat by lia. simpl skipn.
  rewrite skipn_length. replace (Z.to_nat l - (length a - Z.to_nat o))%nat with 0%nat by lia. simpl. apply app_nil_r.
Qed.
Lemma slice_app_r (a x : bytes) o l : zlen a <= o -> slice (a ++ x) o l = slice x (o - zlen a) l.
Proof.
  unfold slice, zlen. intros Hh. rewrite skipn_app. rewrite skipn_all2 by lia. simpl. f_equal. f_equal. lia.
Qed.
Lemma slice_outside (a z : bytes) c c' o l : 0 <= o -> 0 <= l -> (o + l <= zlen a \/ zlen a + 1 <= o) ->
  slice (a ++ c' :: z) o l = slice (a ++ c :: z) o l.
Proof.
  intros Ho Hl [Hh|Hh].
  - rewrite !slice_app_l by assumption. reflexivity.
  - change (a ++ c' :: z) with (a ++ [c'] ++ z). change (a ++ c :: z) with (a ++ [c] ++ z). rewrite !app_assoc.
    rewrite !slice_app_r by (rewrite zlen_app; unfold zlen at 2; simpl; lia). rewrite !zlen_app. reflexivity.
Qed.
Lemma slice_through (a z : bytes) c o l : 0 <= o -> o <= zlen a -> zlen a < o + l ->
  slice (a ++ c :: z) o l = skipn (Z.to_nat o) a ++ c :: firstn (Z.to_nat (o + l - zlen a - 1)) z.
Proof.
  unfold slice, zlen. intros Ho H1 H2. rewrite skipn_app. replace (Z.to_nat o - length a)%nat with 0%nat by lia. simpl skipn.
  rewrite firstn_app, skipn_length. rewrite firstn_all2 by (rewrite skipn_length; lia). f_equal.
  replace (Z.to_nat l - (length a - Z.to_nat o))%nat with (S (Z.to_nat (o + l - Z.of_nat (length a) - 1))) by lia. reflexivity.
Qed.
Lemma slice_inside_ne (a z : bytes) c c' o l : 0 <= o -> o <= zlen a -> zlen a < o + l -> c' <> c ->
  slice (a ++ c' :: z) o l <> slice (a ++ c :: z) o l.
Proof.
  intros Ho H1 H2 Hc E. rewrite !slice_through in E by assumption. apply app_inv_head in E. inversion E. contradiction.
Qed.

Lemma frame_slices (g m zf b t : bytes) off s :
  slice g off (24 + s) = m ++ zf ++ b ++ t -> length m = 4%nat -> length zf = 4%nat -> zlen b = s -> length t = 16%nat ->
  0 <= off -> off + 24 + s <= zlen g ->
  slice g off 4 = m /\ slice g (off + 4) 4 = zf /\ slice g (off + 8) s = b /\ slice g (off + 8 + s) 16 = t.
Proof.
  intros E Lm Lz Lb Lt Ho Hfit. pose proof (zlen_nonneg b) as Hb0. rewrite Lb in Hb0.
  replace (24 + s) with (4 + (4 + (s + 16))) in E by lia.
  rewrite slice_split in E by lia. apply app_inj_length in E; [|rewrite slice_length by lia; rewrite Lm; reflexivity].
  destruct E as [E1 E]. rewrite slice_split in E by lia. apply app_inj_length in E; [|rewrite slice_length by lia; rewrite Lz; reflexivity].
  destruct E as [E2 E]. rewrite slice_split in E by lia. apply app_inj_length in E; [|rewrite slice_length by lia; unfold zlen in Lb; lia].
  destruct E as [E3 E4]. replace (off + 4 + 4) with (off + 8) in * by lia. tauto.
Qed.

Section Flip.
  Variable H : bytes -> bytes.
  Hypothesis H_len : forall x, length (H x) = 16%nat.

  Lemma encode_split magic : forall i bs prev,
    encode H prev magic bs = encode H prev magic (firstn i bs) ++ encode H (last_hash H prev magic (firstn i bs)) magic (skipn i bs).
  Proof.
    induction i as [|i IH]; intros [|b bs] prev; cbn [encode firstn skipn last_hash app]; try reflexivity.
    rewrite <- app_assoc. f_equal. apply IH.
  Qed.
  Lemma skipn_nth {A} : forall i (l : list A), skipn i l = match nth_error l i with Some b => b :: skipn (S i) l | None => [] end.
  Proof. induction i as [|i IH]; intros [|x l]; simpl; try reflexivity. apply IH. Qed.

  Definition saved_collision (magic : Z) (bs : list bytes) : Prop :=
    exists i b b', nth_error bs i = Some b /\ b' <> b /\
      let prev' := last_hash H zero_hash magic (firstn i bs) in
      H (chunk_input prev' magic b') = H (chunk_input prev' magic b).

  (* the changed byte lies in the size field of chunk i; the new size s' passes both bounds checks of the reader and the
     16 bytes found s' bytes further in the SAVED file happen to be the hash of what lies before them *)
  Definition size_field_accident (magic : Z) (bs : list bytes) (pos : Z) : Prop :=
    exists i b s', nth_error bs i = Some b /\
      let f := encode H zero_hash magic bs in
      let off := zlen (encode H zero_hash magic (firstn i bs)) in
      let prev' := last_hash H zero_hash magic (firstn i bs) in
      off + 4 <= pos < off + 8 /\ s' <> zlen b /\ 0 <= s' <= ChunkSize /\ off + 24 + s' <= zlen f /\
      slice f (off + 8 + s') 16 = H (chunk_input prev' magic (slice f (off + 8) s')).

  Theorem single_byte_change magic bs a c c' z st' bs' r :
    0 <= magic < two32 -> Forall body_ok bs ->
    encode H zero_hash magic bs = a ++ c :: z -> c' <> c -> bytes_ok (a ++ c' :: z) ->
    read_file H magic (a ++ c' :: z) = (st', bs', r) ->
    ((exists n, bs' = firstn n bs) \/ saved_collision magic bs \/ size_field_accident magic bs (zlen a)) /\
    (r = REnd \/ r = RChunk [] \/ exists e, r = RErr e).
  Proof.
    intros Hmg HF Ef Hc Hok Hr.
    destruct (any_file_prefix_or_diverges H H_len magic bs _ _ _ _ Hok Hmg Hr) as [[Hp|Dv] Hfin]; split; try assumption; [left; assumption|].
    destruct Dv as (cp & b' & q & E1 & E2 & E3 & D1 & D2 & D3 & D4). cbv zeta in *.
    set (i := length cp) in *.
    set (prev' := last_hash H zero_hash magic cp) in *.
    change (zlen (@nil Z)) with 0 in *. rewrite Z.add_0_l in *.
    set (off := zlen (encode H zero_hash magic cp)) in *.
    set (s' := zlen b') in *. set (t' := H (chunk_input prev' magic b')) in *.
    set (f := encode H zero_hash magic bs) in *. set (f' := a ++ c' :: z) in *.
    pose proof (zlen_nonneg (encode H zero_hash magic cp)) as Hoff0. fold off in Hoff0.
    pose proof (zlen_nonneg b') as Hs0. fold s' in Hs0. pose proof (zlen_nonneg a) as Ha0.
    assert (Zff : zlen f' = zlen f) by (rewrite Ef; unfold f', zlen; rewrite !app_length; simpl; reflexivity).
    destruct (frame_slices f' (le32 magic) (le32 s') b' t' off s' D3 (le32_length _) (le32_length _) eq_refl (H_len _) Hoff0 D2) as (S1 & S2 & S3 & S4).
    (* the saved file at the same place *)
    assert (Efs : f = encode H zero_hash magic cp ++ encode H prev' magic (skipn i bs)).
    { unfold f, prev'. rewrite (encode_split magic i bs zero_hash), <- E2. reflexivity. }
    rewrite skipn_nth in Efs.
    destruct (nth_error bs i) as [b|] eqn:Nth.
    2:{ exfalso. simpl in Efs. rewrite app_nil_r in Efs. rewrite Zff, Efs in D2. fold off in D2. lia. }
    cbn [encode] in Efs. unfold frame in Efs. set (tb := H (chunk_input prev' magic b)) in *.
    set (rest := encode H tb magic (skipn (S i) bs)) in *.
    assert (Hbok : body_ok b).
    { rewrite Forall_forall in HF. apply HF. eapply nth_error_In, Nth. }
    assert (Efs' : f = encode H zero_hash magic cp ++ le32 magic ++ le32 (zlen b) ++ b ++ tb ++ rest).
    { rewrite Efs. repeat rewrite <- app_assoc. reflexivity. }
    assert (F1 : slice f off 4 = le32 magic).
    { apply (slice_at (encode H zero_hash magic cp) (le32 magic) (le32 (zlen b) ++ b ++ tb ++ rest)); [exact Efs'|reflexivity|rewrite zlen_le32; reflexivity]. }
    assert (F2 : slice f (off + 4) 4 = le32 (zlen b)).
    { apply (slice_at (encode H zero_hash magic cp ++ le32 magic) (le32 (zlen b)) (b ++ tb ++ rest)); [rewrite Efs'; repeat rewrite <- app_assoc; reflexivity|rewrite zlen_app, zlen_le32; reflexivity|rewrite zlen_le32; reflexivity]. }
    assert (F3 : slice f (off + 8) (zlen b) = b).
    { apply (slice_at (encode H zero_hash magic cp ++ le32 magic ++ le32 (zlen b)) b (tb ++ rest)); [rewrite Efs'; repeat rewrite <- app_assoc; reflexivity|rewrite !zlen_app, !zlen_le32; fold off; lia|reflexivity]. }
    assert (F4 : slice f (off + 8 + zlen b) 16 = tb).
    { apply (slice_at (encode H zero_hash magic cp ++ le32 magic ++ le32 (zlen b) ++ b) tb rest); [rewrite Efs'; repeat rewrite <- app_assoc; reflexivity|rewrite !zlen_app, !zlen_le32; fold off; lia|unfold tb; rewrite (zlen_H H H_len); reflexivity]. }
    assert (Hsz : le32 s' = le32 (zlen b) -> s' = zlen b).
    { intro E. apply (f_equal le_val) in E. rewrite !le_val_le32 in E. unfold body_ok in Hbok.
      rewrite !u32_id in E by (unfold is_u32, two32, ChunkSize in *; lia). exact E. }
    rewrite Ef in F1, F2, F3, F4.
    set (pd := zlen a) in *.
    (* where is the changed byte relative to the accepted frame [off, off+24+s') ? *)
    assert (Hcase : (pd < off \/ off + 24 + s' <= pd) \/ (off <= pd < off + 4) \/ (off + 4 <= pd < off + 8) \/
                    (off + 8 <= pd < off + 8 + s') \/ (off + 8 + s' <= pd < off + 24 + s')) by lia.
    destruct Hcase as [Hout|[Hmag|[Hsize|[Hbody|Htrail]]]].
    - (* outside: the frame is in the saved file as it is, so it is the saved chunk *)
      exfalso. unfold f' in S2, S3.
      rewrite (slice_outside a z c c') in S2 by (unfold pd in *; lia).
      rewrite (slice_outside a z c c') in S3 by (unfold pd in *; lia).
      rewrite F2 in S2. symmetry in S2. apply Hsz in S2. rewrite S2, F3 in S3. apply E3. rewrite S3. reflexivity.
    - (* magic bytes *)
      exfalso. unfold f' in S1. rewrite <- F1 in S1. revert S1. apply slice_inside_ne; unfold pd in *; lia.
    - (* size field *)
      right. right. exists i, b, s'. rewrite Nth. cbv zeta. rewrite <- E2. fold prev' off f.
      assert (Hne : s' <> zlen b).
      { intro E. rewrite E, <- F2 in S2. revert S2. unfold f'. apply slice_inside_ne; unfold pd in *; lia. }
      splits; try assumption; try lia; try reflexivity.
      rewrite Ef. unfold f' in S3, S4.
      rewrite <- (slice_outside a z c c') by (unfold pd in *; lia).
      rewrite <- (slice_outside a z c c' (off + 8) s') by (unfold pd in *; lia).
      rewrite S3, S4. reflexivity.
    - (* body bytes: same size, same trailer: a collision with the saved chunk *)
      unfold f' in S2, S4.
      rewrite (slice_outside a z c c') in S2 by (unfold pd in *; lia).
      rewrite (slice_outside a z c c') in S4 by (unfold pd in *; lia).
      rewrite F2 in S2. symmetry in S2. apply Hsz in S2. rewrite S2, F4 in S4.
      destruct D4 as [[Dne Deq]|Dt].
      + right. left. exists i, b, b'. rewrite <- E2. fold prev'. splits; try assumption. intro E. apply Dne. rewrite E. reflexivity.
      + exfalso. apply Dt. fold f'. fold s'. unfold f' at 1. rewrite (slice_outside a z c c') by (unfold pd in *; lia).
        rewrite S2. exact F4.
    - (* trailer bytes: size and body are the saved ones *)
      exfalso. unfold f' in S2, S3.
      rewrite (slice_outside a z c c') in S2 by (unfold pd in *; lia).
      rewrite (slice_outside a z c c') in S3 by (unfold pd in *; lia).
      rewrite F2 in S2. symmetry in S2. apply Hsz in S2. rewrite S2, F3 in S3. apply E3. rewrite S3. reflexivity.
  Qed.
End Flip.
