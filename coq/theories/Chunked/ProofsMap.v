(* C21 — basic facts about the association-list map of the cache model. *)
From Coq Require Import ZArith List Bool Lia.
From SH Require Import Common.Wrap Chunked.Model.
Import ListNotations.
Open Scope Z_scope.

Lemma list_eqb_eq a b : list_eqb a b = true <-> a = b.
Proof.
  revert b; induction a as [|x a IH]; intros [|y b]; simpl; split; intro Hh; try congruence; try reflexivity.
  - apply andb_prop in Hh as [H1 H2]. apply Z.eqb_eq in H1. apply IH in H2. congruence.
  - inversion Hh; subst. rewrite Z.eqb_refl. simpl. apply IH. reflexivity.
Qed.
Lemma list_eqb_refl a : list_eqb a a = true.
Proof. apply list_eqb_eq. reflexivity. Qed.
Lemma list_eqb_neq a b : list_eqb a b = false <-> a <> b.
Proof.
  split; intro Hh.
  - intro E. apply list_eqb_eq in E. congruence.
  - destruct (list_eqb a b) eqn:E; [apply list_eqb_eq in E; contradiction | reflexivity].
Qed.

Definition keys (m : amap) : list bytes := map fst m.
Definition esize (m : amap) : Z := fold_right (fun p a => size_mem (fst p) + a) 0 m.
Definition ets (m : amap) : Z := fold_right (fun p a => e_ts (snd p) + a) 0 m.

Lemma size_mem_pos k : 32 <= size_mem k.
Proof.
  unfold size_mem, zlen. assert (0 <= Z.of_nat (length k) * 5 / 4) by (apply Z.div_pos; lia). lia.
Qed.

Lemma esize_app a b : esize (a ++ b) = esize a + esize b.
Proof. induction a as [|p a IH]; simpl; [lia|]. unfold esize in *. simpl. rewrite IH. lia. Qed.
Lemma ets_app a b : ets (a ++ b) = ets a + ets b.
Proof. induction a as [|p a IH]; simpl; [lia|]. unfold ets in *. simpl. rewrite IH. lia. Qed.
Lemma esize_nonneg m : 0 <= esize m.
Proof. induction m as [|p m IH]; unfold esize in *; simpl; [lia|]. pose proof (size_mem_pos (fst p)). lia. Qed.

Lemma lookup_In m k e : lookup k m = Some e -> In (k, e) m.
Proof.
  induction m as [|[k' e'] m IH]; simpl; [discriminate|].
  destruct (list_eqb k k') eqn:E.
  - apply list_eqb_eq in E. subst. intro Hh; inversion Hh; subst. left; reflexivity.
  - intro Hh. right. apply IH, Hh.
Qed.
Lemma lookup_None m k : lookup k m = None <-> ~ In k (keys m).
Proof.
  induction m as [|[k' e'] m IH]; simpl; [tauto|].
  destruct (list_eqb k k') eqn:E.
  - apply list_eqb_eq in E. subst. split; [discriminate|]. intro Hh. exfalso. apply Hh. left; reflexivity.
  - apply list_eqb_neq in E. rewrite IH. split; intro Hh; [intros [A|A]; [congruence|tauto] | tauto].
Qed.
Lemma In_keys m k e : In (k, e) m -> In k (keys m).
Proof. intro Hh. apply (in_map fst) in Hh. exact Hh. Qed.
Lemma In_lookup m k e : NoDup (keys m) -> In (k, e) m -> lookup k m = Some e.
Proof.
  induction m as [|[k' e'] m IH]; simpl; [tauto|]. intros ND [A|A].
  - inversion A; subst. rewrite list_eqb_refl. reflexivity.
  - inversion ND; subst. destruct (list_eqb k k') eqn:E.
    + apply list_eqb_eq in E. subst. exfalso. apply H1. eapply In_keys, A.
    + apply IH; assumption.
Qed.

(* ---- set ---- *)
Lemma set_absent m k e : lookup k m = None -> set k e m = m ++ [(k, e)].
Proof. unfold set. intros ->. reflexivity. Qed.

Lemma keys_set_present m k e e0 : lookup k m = Some e0 -> keys (set k e m) = keys m.
Proof.
  unfold set. intros ->. unfold keys. rewrite map_map. apply map_ext_in. intros [k' e'] Hin. simpl.
  destruct (list_eqb k k') eqn:E; [apply list_eqb_eq in E; subst|]; reflexivity.
Qed.
Lemma keys_set_absent m k e : lookup k m = None -> keys (set k e m) = keys m ++ [k].
Proof. intro Hh. rewrite set_absent by assumption. unfold keys. rewrite map_app. reflexivity. Qed.

Lemma NoDup_app_single {T} (l : list T) x : NoDup l -> ~ In x l -> NoDup (l ++ [x]).
Proof.
  induction l as [|y l IH]; simpl; intros ND NI.
  - constructor; [intros []|constructor].
  - inversion ND; subst. constructor.
    + rewrite in_app_iff. simpl. intros [B|[B|[]]]; [tauto|]. subst. tauto.
    + apply IH; tauto.
Qed.

Lemma set_NoDup m k e : NoDup (keys m) -> NoDup (keys (set k e m)).
Proof.
  intro ND. destruct (lookup k m) eqn:E.
  - erewrite keys_set_present by eassumption. assumption.
  - rewrite keys_set_absent by assumption. apply NoDup_app_single; [assumption|]. apply lookup_None, E.
Qed.

Lemma In_set m k e k' e' : In (k', e') (set k e m) -> (k' = k /\ e' = e) \/ In (k', e') m.
Proof.
  unfold set. destruct (lookup k m) eqn:E.
  - rewrite in_map_iff. intros [[k2 e2] [Heq Hin]]. simpl in Heq.
    destruct (list_eqb k k2) eqn:E2; inversion Heq; subst; [left; tauto | right; assumption].
  - rewrite in_app_iff. simpl. intros [A|[A|[]]]; [right; assumption|]. inversion A; subst. left; tauto.
Qed.

Lemma esize_set_present m k e e0 : lookup k m = Some e0 -> esize (set k e m) = esize m.
Proof.
  unfold set. intros ->. induction m as [|[k' e'] m IH]; [reflexivity|].
  unfold esize in *. simpl. rewrite IH. destruct (list_eqb k k') eqn:E; [apply list_eqb_eq in E; subst|]; reflexivity.
Qed.
Lemma ets_set_present m k e e0 : NoDup (keys m) -> lookup k m = Some e0 -> ets (set k e m) = ets m - e_ts e0 + e_ts e.
Proof.
  unfold set. intros ND Hl. rewrite Hl. revert Hl. induction m as [|[k' e'] m IH]; [discriminate|].
  simpl. inversion ND; subst. destruct (list_eqb k k') eqn:E.
  - apply list_eqb_eq in E. subst k'. intro Hh; inversion Hh; subst e'.
    assert (Hrest : map (fun p : bytes * entry => if list_eqb k (fst p) then (k, e) else p) m = m).
    { rewrite <- (map_id m) at 2. apply map_ext_in. intros [k2 e2] Hin. simpl.
      destruct (list_eqb k k2) eqn:E2; [|reflexivity]. apply list_eqb_eq in E2. subst. exfalso. apply H1. eapply In_keys, Hin. }
    unfold ets in *. simpl. rewrite Hrest. lia.
  - intro Hh. unfold ets in *. simpl. rewrite (IH H2 Hh). lia.
Qed.
Lemma esize_set_absent m k e : lookup k m = None -> esize (set k e m) = esize m + size_mem k.
Proof. intro Hh. rewrite set_absent, esize_app by assumption. unfold esize. simpl. lia. Qed.
Lemma ets_set_absent m k e : lookup k m = None -> ets (set k e m) = ets m + e_ts e.
Proof. intro Hh. rewrite set_absent, ets_app by assumption. unfold ets. simpl. lia. Qed.
Lemma esize_set_le m k e : esize (set k e m) <= esize m + size_mem k.
Proof.
  destruct (lookup k m) eqn:E.
  - erewrite esize_set_present by eassumption. pose proof (size_mem_pos k). lia.
  - rewrite esize_set_absent by assumption. lia.
Qed.
Lemma lookup_set_same m k e : lookup k (set k e m) = Some e.
Proof.
  unfold set. destruct (lookup k m) eqn:E.
  - induction m as [|[k' e'] m IH]; [discriminate|]. simpl in *. destruct (list_eqb k k') eqn:E2; simpl.
    + rewrite list_eqb_refl. reflexivity.
    + rewrite E2. apply IH, E.
  - induction m as [|[k' e'] m IH]; simpl in *; [rewrite list_eqb_refl; reflexivity|].
    destruct (list_eqb k k'); [discriminate|]. apply IH, E.
Qed.
Lemma lookup_set_other m k e k' : k' <> k -> lookup k' (set k e m) = lookup k' m.
Proof.
  intro N. unfold set. destruct (lookup k m) eqn:E.
  - clear E. induction m as [|[k2 e2] m IH]; [reflexivity|]. simpl. destruct (list_eqb k k2) eqn:E2; simpl.
    + apply list_eqb_eq in E2. subst k2. apply list_eqb_neq in N. rewrite N. apply IH.
    + destruct (list_eqb k' k2); [reflexivity|apply IH].
  - clear E. induction m as [|[k2 e2] m IH]; simpl.
    + apply list_eqb_neq in N. rewrite N. reflexivity.
    + destruct (list_eqb k' k2); [reflexivity|apply IH].
Qed.

(* ---- remove ---- *)
Lemma In_remove m k k' e' : In (k', e') (remove k m) -> In (k', e') m /\ k' <> k.
Proof.
  induction m as [|[k2 e2] m IH]; simpl; [tauto|]. destruct (list_eqb k k2) eqn:E.
  - intro Hh. apply IH in Hh. tauto.
  - intros [A|A]; [inversion A; subst; split; [left; reflexivity|]|apply IH in A; tauto].
    apply list_eqb_neq in E. congruence.
Qed.
Lemma keys_remove_sub m k x : In x (keys (remove k m)) -> In x (keys m).
Proof.
  induction m as [|[k2 e2] m IH]; simpl; [tauto|]. destruct (list_eqb k k2); simpl; intuition.
Qed.
Lemma remove_NoDup m k : NoDup (keys m) -> NoDup (keys (remove k m)).
Proof.
  induction m as [|[k2 e2] m IH]; simpl; intro ND; [constructor|]. inversion ND; subst.
  destruct (list_eqb k k2); simpl; [apply IH; assumption|]. constructor; [|apply IH; assumption].
  intro Hh. apply H1. eapply keys_remove_sub, Hh.
Qed.
Lemma remove_absent m k : lookup k m = None -> remove k m = m.
Proof.
  induction m as [|[k2 e2] m IH]; simpl; [reflexivity|]. destruct (list_eqb k k2); [discriminate|].
  intro Hh. rewrite IH by assumption. reflexivity.
Qed.
Lemma esize_remove m k e0 : NoDup (keys m) -> lookup k m = Some e0 -> esize (remove k m) = esize m - size_mem k.
Proof.
  induction m as [|[k2 e2] m IH]; simpl; [discriminate|]. intros ND. inversion ND; subst.
  destruct (list_eqb k k2) eqn:E.
  - apply list_eqb_eq in E. subst k2. intros _. rewrite remove_absent by (apply lookup_None; assumption).
    unfold esize. simpl. lia.
  - intro Hh. unfold esize in *. simpl. rewrite (IH H2 Hh). lia.
Qed.
Lemma ets_remove m k e0 : NoDup (keys m) -> lookup k m = Some e0 -> ets (remove k m) = ets m - e_ts e0.
Proof.
  induction m as [|[k2 e2] m IH]; simpl; [discriminate|]. intros ND. inversion ND; subst.
  destruct (list_eqb k k2) eqn:E.
  - apply list_eqb_eq in E. subst k2. intro Hh; inversion Hh; subst. rewrite remove_absent by (apply lookup_None; assumption).
    unfold ets. simpl. lia.
  - intro Hh. unfold ets in *. simpl. rewrite (IH H2 Hh). lia.
Qed.
Lemma esize_remove_le m k : esize (remove k m) <= esize m.
Proof.
  induction m as [|[k2 e2] m IH]; simpl; [lia|]. destruct (list_eqb k k2); unfold esize in *; simpl.
  - pose proof (size_mem_pos k2). lia.
  - lia.
Qed.
Lemma lookup_remove_other m k k' : k' <> k -> lookup k' (remove k m) = lookup k' m.
Proof.
  intro N. induction m as [|[k2 e2] m IH]; [reflexivity|]. simpl. destruct (list_eqb k k2) eqn:E; simpl.
  - apply list_eqb_eq in E. subst k2. apply list_eqb_neq in N. rewrite N. apply IH.
  - destruct (list_eqb k' k2); [reflexivity|apply IH].
Qed.
Lemma lookup_remove_same m k : lookup k (remove k m) = None.
Proof.
  induction m as [|[k2 e2] m IH]; [reflexivity|]. simpl. destruct (list_eqb k k2) eqn:E; simpl; [apply IH|]. rewrite E. apply IH.
Qed.

(* boolean checks of the oracle validation *)
Lemma existsb_list_eqb k l : existsb (list_eqb k) l = true <-> In k l.
Proof.
  rewrite existsb_exists. split.
  - intros [x [Hin E]]. apply list_eqb_eq in E. subst. assumption.
  - intro Hin. exists k. split; [assumption|apply list_eqb_refl].
Qed.
Lemma keys_distinct_NoDup l : keys_distinct l = true -> NoDup l.
Proof.
  induction l as [|k l IH]; simpl; intro Hh; [constructor|]. apply andb_prop in Hh as [H1 H2].
  constructor; [|apply IH, H2]. intro Hin. apply existsb_list_eqb in Hin. rewrite Hin in H1. discriminate.
Qed.
Lemma item_in_lookup m it : item_in m it = true -> exists e, lookup (fst it) m = Some e /\ e_val e = e_val (snd it) /\ e_ts e = e_ts (snd it).
Proof.
  unfold item_in. destruct (lookup (fst it) m) as [e|]; [|discriminate]. unfold entry_eqb. intro Hh.
  apply andb_prop in Hh as [H1 H2]. apply Z.eqb_eq in H1, H2. exists e. tauto.
Qed.
