(* C21 — the reader on ARBITRARY byte strings (any damage, size fields included): whatever it accepts is a
   correctly hashed chain, hence a prefix of the saved bodies, a collision with a saved chunk, or a forged chunk. *)
From Coq Require Import ZArith List Bool Lia.
From SH Require Import Common.Wrap Chunked.Model Chunked.ProofsMap Chunked.ProofsCache Chunked.ProofsCodec Chunked.ProofsStore.
Import ListNotations.
Open Scope Z_scope.

Definition bytes_ok (l : bytes) : Prop := Forall (fun b => 0 <= b < 256) l.

Lemma bytes_ok_b l : forallb (fun b => (0 <=? b) && (b <? 256)) l = true -> bytes_ok l.
Proof.
  intro Hh. unfold bytes_ok. rewrite Forall_forall. rewrite forallb_forall in Hh. intros x Hin. specialize (Hh x Hin).
  apply andb_prop in Hh as [A B]. apply Z.leb_le in A. apply Z.ltb_lt in B. lia.
Qed.
Lemma bytes_ok_firstn n l : bytes_ok l -> bytes_ok (firstn n l).
Proof. revert l; induction n; intros [|x l] Hh; simpl; try constructor; inversion Hh; subst; auto. apply IHn; assumption. Qed.
Lemma bytes_ok_skipn n l : bytes_ok l -> bytes_ok (skipn n l).
Proof. revert l; induction n; intros [|x l] Hh; simpl; try assumption. inversion Hh; subst. apply IHn; assumption. Qed.
Lemma bytes_ok_slice f o l : bytes_ok f -> bytes_ok (slice f o l).
Proof. intro Hh. unfold slice. apply bytes_ok_firstn, bytes_ok_skipn, Hh. Qed.

Lemma le_bytes_le_val : forall l, bytes_ok l -> le_bytes (length l) (le_val l) = l.
Proof.
  induction l as [|b l IH]; intro Hh; [reflexivity|]. inversion Hh; subst. simpl length.
  change (le_bytes (S (length l)) (le_val (b :: l))) with ((le_val (b :: l)) mod 256 :: le_bytes (length l) (le_val (b :: l) / 256)).
  change (le_val (b :: l)) with (b + 256 * le_val l).
  replace ((b + 256 * le_val l) mod 256) with b.
  - replace ((b + 256 * le_val l) / 256) with (le_val l); [rewrite IH by assumption; reflexivity|].
    symmetry. rewrite Z.mul_comm, Z.div_add by lia. rewrite Z.div_small by lia. lia.
  - rewrite Z.mul_comm, Z.mod_add by lia. rewrite Z.mod_small by lia. reflexivity.
Qed.
Lemma le_val_range : forall l, bytes_ok l -> 0 <= le_val l < 256 ^ Z.of_nat (length l).
Proof.
  induction l as [|b l IH]; intro Hh; [simpl; lia|]. inversion Hh; subst. specialize (IH H2).
  change (le_val (b :: l)) with (b + 256 * le_val l). simpl length. rewrite Nat2Z.inj_succ, Z.pow_succ_r by lia. lia.
Qed.
Lemma le32_of_slice l v : bytes_ok l -> length l = 4%nat -> le_val l = v -> l = le32 v.
Proof.
  intros Hb Hl Hv. pose proof (le_val_range l Hb) as Hr. rewrite Hl in Hr. unfold le32. rewrite <- Hv.
  rewrite u32_id by (unfold is_u32, two32; simpl in Hr; lia). rewrite <- Hl. symmetry. apply le_bytes_le_val, Hb.
Qed.

(* slices of a long enough file *)
Lemma slice_length f o l : 0 <= o -> 0 <= l -> o + l <= zlen f -> length (slice f o l) = Z.to_nat l.
Proof. intros Ho Hl Hh. unfold slice, zlen in *. rewrite firstn_length, skipn_length. lia. Qed.
Lemma firstn_add {A} (a b : nat) : forall l : list A, firstn (a + b) l = firstn a l ++ firstn b (skipn a l).
Proof. induction a; intros [|x l]; simpl; rewrite ?firstn_nil; try reflexivity. f_equal. apply IHa. Qed.
Lemma skipn_skipn' {A} (a b : nat) : forall l : list A, skipn a (skipn b l) = skipn (a + b) l.
Proof. induction b; intro l; [rewrite Nat.add_0_r; reflexivity|]. rewrite Nat.add_succ_r. destruct l; [rewrite !skipn_nil; reflexivity|]. simpl. apply IHb. Qed.
Lemma slice_split f o a b : 0 <= o -> 0 <= a -> 0 <= b -> slice f o (a + b) = slice f o a ++ slice f (o + a) b.
Proof.
  intros Ho Ha Hb. unfold slice. rewrite !Z2Nat.inj_add by lia. rewrite firstn_add, skipn_skipn'.
  rewrite (Nat.add_comm (Z.to_nat a)). reflexivity.
Qed.
Lemma slice_decomp f o l : 0 <= o -> 0 <= l -> f = firstn (Z.to_nat o) f ++ slice f o l ++ skipn (Z.to_nat (o + l)) f.
Proof.
  intros Ho Hl. unfold slice. rewrite Z2Nat.inj_add by lia.
  rewrite <- (firstn_skipn (Z.to_nat o) f) at 1. f_equal.
  rewrite <- (firstn_skipn (Z.to_nat l) (skipn (Z.to_nat o) f)) at 1. f_equal. rewrite skipn_skipn'. f_equal. lia.
Qed.

Lemma app_inj_length {A} : forall (a c b d : list A), a ++ b = c ++ d -> length a = length c -> a = c /\ b = d.
Proof.
  induction a as [|x a IH]; intros [|y c] b d E L; simpl in *; try discriminate; [tauto|].
  injection E as -> E. injection L as L. destruct (IH _ _ _ E L). subst. tauto.
Qed.

Section Any.
  Variable H : bytes -> bytes.
  Hypothesis H_len : forall x, length (H x) = 16%nat.

  (* one accepted chunk: what the file must contain there *)
  Lemma read_next_sound magic st st' b' :
    bytes_ok (s_file st) -> 0 <= magic < two32 -> 0 <= s_noff st -> s_size st = zlen (s_file st) ->
    read_next H magic st = (st', RChunk b') ->
    let off := s_noff st in
    let t := H (chunk_input (s_nhash st) magic b') in
    zlen b' <= ChunkSize /\ off + 24 + zlen b' <= zlen (s_file st) /\
    slice (s_file st) off (24 + zlen b') = le32 magic ++ le32 (zlen b') ++ b' ++ t /\
    st' = set_next (set_pos st) (off + 24 + zlen b') t /\ s_reading st = true.
  Proof.
    intros Hok Hmg Hoff Hsz. unfold read_next.
    destruct (s_reading st) eqn:Hrd; simpl negb; cbv iota; [|intro E; inversion E].
    cbv zeta. change (s_off (set_pos st)) with (s_noff st). change (s_size (set_pos st)) with (s_size st).
    change (s_file (set_pos st)) with (s_file st). change (s_hash (set_pos st)) with (s_nhash st).
    unfold hdr_size, hash_size. rewrite Hsz. set (f := s_file st) in *. set (off := s_noff st) in *.
    destruct (off =? zlen f); [intro E; inversion E|].
    destruct (zlen f <? off + 8 + 16) eqn:E2; [intro E; inversion E|]. apply Z.ltb_ge in E2.
    destruct (negb (le_val (slice f off 4) =? magic)) eqn:E3; [intro E; inversion E|].
    apply negb_false_iff, Z.eqb_eq in E3.
    set (s := le_val (slice f (off + 4) 4)) in *.
    destruct (ChunkSize <? s) eqn:E4; [intro E; inversion E|]. apply Z.ltb_ge in E4.
    destruct (zlen f <? off + 8 + s + 16) eqn:E5; [intro E; inversion E|]. apply Z.ltb_ge in E5.
    destruct (list_eqb (H (s_nhash st ++ slice f off (8 + s))) (slice f (off + 8 + s) 16)) eqn:E6; [|intro E; inversion E].
    apply list_eqb_eq in E6. intro E. inversion E; subst st' b'. clear E.
    assert (Hs0 : 0 <= s).
    { unfold s. apply le_val_range, bytes_ok_slice, Hok. }
    assert (Lm : length (slice f off 4) = 4%nat) by (rewrite slice_length; lia).
    assert (Ls : length (slice f (off + 4) 4) = 4%nat) by (rewrite slice_length; lia).
    assert (Lb : zlen (slice f (off + 8) s) = s) by (unfold zlen; rewrite slice_length; lia).
    assert (Em : slice f off 4 = le32 magic) by (apply le32_of_slice; [apply bytes_ok_slice, Hok|assumption|assumption]).
    assert (Es : slice f (off + 4) 4 = le32 s) by (apply le32_of_slice; [apply bytes_ok_slice, Hok|assumption|reflexivity]).
    assert (Ehdr : slice f off (8 + s) = le32 magic ++ le32 s ++ slice f (off + 8) s).
    { replace (8 + s) with (4 + (4 + s)) by lia. rewrite slice_split by lia. rewrite Em. f_equal.
      rewrite slice_split by lia. rewrite Es. f_equal. f_equal. lia. }
    rewrite Lb. cbv zeta. splits; try lia; try reflexivity.
    - replace (24 + s) with ((8 + s) + 16) by lia. rewrite slice_split by lia. rewrite Ehdr, <- !app_assoc.
      f_equal. f_equal. f_equal. replace (off + (8 + s)) with (off + 8 + s) by lia. rewrite <- E6, Ehdr.
      unfold chunk_input. rewrite Lb. reflexivity.
    - unfold chunk_input. rewrite Lb, <- Ehdr, E6. f_equal. lia.
  Qed.

  (* the i-th saved chunk was replaced by a different, correctly hashed one: either that is a collision with the saved
     chunk, or the file carries at the trailer position the hash of a chunk that was never saved there *)
  Definition diverges (magic : Z) (f' : bytes) (prev pre : bytes) (bs bs' : list bytes) : Prop :=
    exists p b' q, bs' = p ++ b' :: q /\ p = firstn (length p) bs /\ nth_error bs (length p) <> Some b' /\
      let prev' := last_hash H prev magic p in
      let off := zlen pre + zlen (encode H prev magic p) in
      (* the reader's bounds checks held for the accepted chunk *)
      zlen b' <= ChunkSize /\ off + 24 + zlen b' <= zlen f' /\
      slice f' off (24 + zlen b') = le32 magic ++ le32 (zlen b') ++ b' ++ H (chunk_input prev' magic b') /\
      match nth_error bs (length p) with
      | Some b => (* collision with the saved chunk, or a new valid hash value in the damaged file *)
          (chunk_input prev' magic b' <> chunk_input prev' magic b /\ H (chunk_input prev' magic b') = H (chunk_input prev' magic b))
          \/ slice f' (off + 8 + zlen b') 16 <> H (chunk_input prev' magic b)
      | None => True  (* a correctly hashed chunk after the end of the saved ones *)
      end.

  Lemma chunk_input_inj prev magic b1 b2 : chunk_input prev magic b1 = chunk_input prev magic b2 -> b1 = b2.
  Proof.
    unfold chunk_input. intro E. apply app_inv_head in E. apply app_inv_head in E.
    assert (L : length (le32 (zlen b1)) = length (le32 (zlen b2))) by (rewrite !le32_length; reflexivity).
    revert E L. generalize (le32 (zlen b1)) (le32 (zlen b2)). intros l1. induction l1 as [|a l1 IH]; intros [|c l2]; simpl; intros E L; try discriminate.
    - exact E.
    - injection E as _ E. injection L as L. eapply IH; eassumption.
  Qed.

  Lemma read_all_any magic f' : bytes_ok f' -> 0 <= magic < two32 ->
    forall fuel bs pre prev st st' bs' r,
    s_file st = f' -> s_noff st = zlen pre -> s_nhash st = prev -> s_size st = zlen f' ->
    read_all H fuel magic st = (st', bs', r) ->
    (exists n, bs' = firstn n bs) \/ diverges magic f' prev pre bs bs'.
  Proof.
    intros Hok Hmg. induction fuel as [|fu IH]; intros bs pre prev st st' bs' r Hf Ho Hh Hs Hr.
    - simpl in Hr. inversion Hr. left. exists 0%nat. reflexivity.
    - simpl in Hr. destruct (read_next H magic st) as [st1 r1] eqn:RN.
      destruct r1 as [b'| |e]; try (inversion Hr; left; exists 0%nat; reflexivity).
      destruct b' as [|x0 xs] eqn:Eb'; [inversion Hr; left; exists 0%nat; reflexivity|]. rewrite <- Eb' in *. clear Eb' x0 xs.
      assert (Hne : bs' = b' :: snd (fst (read_all H fu magic st1))).
      { destruct (read_all H fu magic st1) as [[a b0] c]. destruct b'; inversion Hr; reflexivity. }
      destruct (read_all H fu magic st1) as [[st2 bs2] r2] eqn:RA. simpl in Hne.
      pose proof (read_next_sound magic st st1 b' ltac:(rewrite Hf; exact Hok) Hmg ltac:(rewrite Ho; apply zlen_nonneg) ltac:(rewrite Hs, Hf; reflexivity) RN) as (B1 & B2 & B3 & B4 & _).
      rewrite Hf, Ho, Hh in *. set (t := H (chunk_input prev magic b')) in *.
      destruct bs as [|b rest].
      + right. exists [], b', bs2. simpl. rewrite Z.add_0_r. splits; try assumption; try reflexivity. discriminate.
      + destruct (list_eq_dec Z.eq_dec b' b) as [Eq|Ne].
        * subst b'. set (X := le32 magic ++ le32 (zlen b) ++ b ++ t) in *.
          assert (ZX : zlen X = 24 + zlen b) by (unfold X, t; rewrite !zlen_app, !zlen_le32, (zlen_H H H_len); lia).
          destruct (IH rest (pre ++ X) t st1 st2 bs2 r2) as [[n Hn]|Dv].
          -- rewrite B4. simpl. exact Hf.
          -- rewrite B4. simpl. rewrite zlen_app, ZX. lia.
          -- rewrite B4. reflexivity.
          -- rewrite B4. simpl. exact Hs.
          -- exact RA.
          -- left. exists (S n). simpl. rewrite Hne, Hn. reflexivity.
          -- right. destruct Dv as (p & b2 & q & E1 & E2 & E3 & D1 & D2 & D3 & D4).
             exists (b :: p), b2, q. simpl length. simpl nth_error. simpl firstn. cbn [encode last_hash]. fold t.
             assert (ZF : zlen (frame H prev magic b) = 24 + zlen b) by apply (zlen_frame H H_len).
             rewrite !zlen_app, ZX in *. rewrite ZF.
             replace (zlen pre + (24 + zlen b + zlen (encode H t magic p))) with (zlen pre + (24 + zlen b) + zlen (encode H t magic p)) by lia.
             splits; try assumption.
             ++ rewrite Hne, E1. reflexivity.
             ++ f_equal. exact E2.
        * right. exists [], b', bs2. simpl. rewrite Z.add_0_r. splits; try assumption; try reflexivity.
          -- intro E. inversion E. congruence.
          -- destruct (list_eq_dec Z.eq_dec (H (chunk_input prev magic b')) (H (chunk_input prev magic b))) as [Eh|Nh].
             ++ left. split; [|exact Eh]. intro E. apply chunk_input_inj in E. contradiction.
             ++ right. fold t. replace (24 + zlen b') with ((8 + zlen b') + 16) in B3 by lia.
                rewrite slice_split in B3 by (pose proof (zlen_nonneg b'); pose proof (zlen_nonneg pre); lia).
                assert (L1 : length (slice f' (zlen pre) (8 + zlen b')) = length (le32 magic ++ le32 (zlen b') ++ b')).
                { rewrite slice_length by (pose proof (zlen_nonneg b'); pose proof (zlen_nonneg pre); lia).
                  rewrite !app_length, !le32_length. unfold zlen. lia. }
                replace (le32 magic ++ le32 (zlen b') ++ b' ++ t) with ((le32 magic ++ le32 (zlen b') ++ b') ++ t) in B3 by (repeat rewrite <- app_assoc; reflexivity).
                apply app_inj_length in B3; [|exact L1]. destruct B3 as [_ B3].
                replace (zlen pre + 8 + zlen b') with (zlen pre + (8 + zlen b')) by lia. rewrite B3. exact Nh.
  Qed.

  Lemma read_all_final : forall fuel magic st st' bs' r,
    read_all H fuel magic st = (st', bs', r) -> r = REnd \/ r = RChunk [] \/ exists e, r = RErr e.
  Proof.
    induction fuel as [|fu IH]; intros magic st st' bs' r Hr; simpl in Hr.
    - inversion Hr. tauto.
    - destruct (read_next H magic st) as [st1 r1]. destruct r1 as [b| |e].
      + destruct b as [|x0 xs]; [inversion Hr; tauto|].
        destruct (read_all H fu magic st1) as [[st2 bs2] r2] eqn:RA. inversion Hr; subst. eapply IH, RA.
      + inversion Hr. tauto.
      + inversion Hr. right. right. eexists. reflexivity.
  Qed.

  (* ARBITRARY byte strings: a prefix of the saved bodies then end/error, or a divergence (see [diverges]) *)
  Theorem any_file_prefix_or_diverges magic bs f' st' bs' r :
    bytes_ok f' -> 0 <= magic < two32 ->
    read_file H magic f' = (st', bs', r) ->
    ((exists n, bs' = firstn n bs) \/ diverges magic f' zero_hash [] bs bs') /\
    (r = REnd \/ r = RChunk [] \/ exists e, r = RErr e).
  Proof.
    intros Hok Hmg Hr. unfold read_file in Hr. split; [|eapply read_all_final, Hr].
    eapply (read_all_any magic f' Hok Hmg _ bs [] zero_hash (open_slice f')); try reflexivity. exact Hr.
  Qed.

  (* ---- the explicit scratch-buffer bounds: with the hard-limit test ReadNext never slices beyond the buffer ---- *)
  Theorem read_next_never_out_of_bounds magic st : read_next_b H true magic st = Some (read_next H magic st).
  Proof.
    unfold read_next_b, read_next. cbv zeta. rewrite Bool.andb_true_l.
    repeat match goal with |- context [if ?c then _ else _] => destruct c eqn:? end; try reflexivity.
    all: exfalso; repeat match goal with
         | Hx : (_ <? _) = true |- _ => apply Z.ltb_lt in Hx
         | Hx : (_ <? _) = false |- _ => apply Z.ltb_ge in Hx end;
         unfold scratch_cap, hdr_size, hash_size in *; lia.
  Qed.
End Any.

(* ... and without it a size field above ChunkSize that still fits into the file makes it slice beyond the buffer *)
Definition oversize_file (magic : Z) : bytes := le32 magic ++ le32 (ChunkSize + 1) ++ repeat 0 (Z.to_nat (ChunkSize + 1 + 16)).
Theorem hard_limit_needed (H : bytes -> bytes) :
  read_next_b H false 5 (open_slice (oversize_file 5)) = None /\
  snd (read_next H 5 (open_slice (oversize_file 5))) = RErr EBodyLimit.
Proof. split; vm_compute; reflexivity. Qed.
