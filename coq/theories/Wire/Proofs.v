(* C13 — lemmas about the wire-format model: format detection, error reporting, the recorded defects
   (witnesses) and their repairs. *)
From Coq Require Import ZArith List Bool Lia.
From SH Require Import Common.Wrap TL.Model TL.Proofs Wire.Model.
Import ListNotations.
Open Scope Z_scope.

(* ---------- format detection, as documented in receiver.go ---------- *)
(* "{" JSON; "SH" legacy; 39 02 58 56 TL; 0x8* (fixmap) 0xDE (map 16) 0xDF (map 32) MessagePack maps (a map16/map32
   lead byte counts only with its 2/4 length bytes); the empty packet is its own class; everything else Protobuf.
   The order matters only where the prefixes could overlap: they cannot (first bytes 39, 7B, 53, 8x/DE/DF differ). *)
Definition doc_format (p : bytes) : wfmt :=
  match p with
  | [] => FEmpty
  | b0 :: r =>
      if (b0 =? 57) && is_prefix [2; 88; 86] r then FTL
      else if b0 =? 123 then FJSON
      else if (b0 =? 83) && is_prefix [72] r then FLegacy
      else if (128 <=? b0) && (b0 <=? 143) then FMsgpack
      else if (b0 =? 222) && (2 <=? zlen r) then FMsgpack
      else if (b0 =? 223) && (4 <=? zlen r) then FMsgpack
      else FProtobuf
  end.

Lemma takez_some n r : n <= zlen r -> exists a b, takez n r = Some (a, b).
Proof. intros H. unfold takez. destruct (zlen r <? n) eqn:E; [lia|]. eauto. Qed.
Lemma takez_none n r : zlen r < n -> takez n r = None.
Proof. intros H. unfold takez. destruct (zlen r <? n) eqn:E; [reflexivity|lia]. Qed.

Lemma mp_be_ok n r : mp_be n r <> Err -> n <= zlen r.
Proof. unfold mp_be, takez. destruct (zlen r <? n) eqn:E; [congruence|lia]. Qed.

Lemma mp_be_isok n r : match mp_be n r with Ok _ => true | _ => false end = (n <=? zlen r).
Proof. unfold mp_be, takez. destruct (zlen r <? n) eqn:E; symmetry; [apply Z.leb_gt|apply Z.leb_le]; lia. Qed.

Lemma looks_like_map_spec b0 r :
  mp_looks_like_map (b0 :: r) =
  ((128 <=? b0) && (b0 <=? 143)) || ((b0 =? 222) && (2 <=? zlen r)) || ((b0 =? 223) && (4 <=? zlen r)).
Proof.
  unfold mp_looks_like_map, mp_map_header.
  destruct ((128 <=? b0) && (b0 <=? 143)) eqn:E1; [reflexivity|].
  destruct (b0 =? 222) eqn:E2.
  - rewrite mp_be_isok. apply Z.eqb_eq in E2. subst b0. cbn [orb andb Z.eqb Pos.eqb]. destruct (2 <=? zlen r); reflexivity.
  - destruct (b0 =? 223) eqn:E3.
    + rewrite mp_be_isok. reflexivity.
    + reflexivity.
Qed.

Theorem detect_documented : forall pkt, detect pkt = doc_format pkt.
Proof.
  intros [|b0 r]; [reflexivity|].
  unfold detect, doc_format. rewrite looks_like_map_spec.
  replace (is_prefix [57; 2; 88; 86] (b0 :: r)) with ((b0 =? 57) && is_prefix [2; 88; 86] r).
  2:{ unfold is_prefix. cbn [length firstn bytes_eqb]. rewrite (Z.eqb_sym 57 b0). reflexivity. }
  replace (is_prefix [123] (b0 :: r)) with (b0 =? 123).
  2:{ unfold is_prefix. cbn [length firstn bytes_eqb]. rewrite (Z.eqb_sym 123 b0). destruct (b0 =? 123); reflexivity. }
  replace (is_prefix [83; 72] (b0 :: r)) with ((b0 =? 83) && is_prefix [72] r).
  2:{ unfold is_prefix. cbn [length firstn bytes_eqb]. rewrite (Z.eqb_sym 83 b0). reflexivity. }
  destruct ((b0 =? 57) && is_prefix [2; 88; 86] r); [reflexivity|].
  destruct (b0 =? 123); [reflexivity|].
  destruct ((b0 =? 83) && is_prefix [72] r); [reflexivity|].
  destruct ((128 <=? b0) && (b0 <=? 143)); [reflexivity|].
  destruct ((b0 =? 222) && (2 <=? zlen r)); [reflexivity|].
  destruct ((b0 =? 223) && (4 <=? zlen r)); reflexivity.
Qed.

(* ---------- MessagePack: decoder after encoder ---------- *)
From Coq Require Import ZifyBool.

Ltac ifs := repeat match goal with
  | |- context [if ?c then _ else _] => let E := fresh "E" in destruct c eqn:E; try (exfalso; lia)
  end.

Lemma zlen_be_enc n z : zlen (be_enc n z) = Z.of_nat n.
Proof. unfold zlen, be_enc. rewrite rev_length, le_enc_length. reflexivity. Qed.
Lemma be_dec_enc n z : 0 <= z < 256 ^ Z.of_nat n -> be_dec (be_enc n z) = z.
Proof. intros. unfold be_dec, be_enc. rewrite rev_involutive. apply le_dec_enc. assumption. Qed.
Lemma mp_be_enc (n : nat) z r : 0 <= z < 256 ^ Z.of_nat n -> mp_be (Z.of_nat n) (be_enc n z ++ r) = Ok (z, r).
Proof. intros. unfold mp_be. rewrite (takez_app_n _ _ _ (zlen_be_enc n z)). rewrite be_dec_enc by assumption. reflexivity. Qed.

Lemma is_bytes_len s : is_bytes s = true -> 0 <= zlen s < two32.
Proof. unfold is_bytes. intros H. apply andb_true_iff in H as [_ H]. pose proof (zlen_nonneg s). unfold two32 in *. lia. Qed.

Lemma mp_str_enc s r : 0 <= zlen s < two32 -> mp_str (mpe_str s ++ r) = Ok (s, r).
Proof.
  intros H. unfold mpe_str, two32 in *.
  destruct (zlen s <? 32) eqn:E1; [|destruct (zlen s <? 256) eqn:E2; [|destruct (zlen s <? 65536) eqn:E3]];
  rewrite <- app_assoc; cbn [app mp_str]; ifs.
  - unfold mp_take, bind. replace (160 + zlen s - 160) with (zlen s) by lia. rewrite takez_app. reflexivity.
  - rewrite (mp_be_enc 1) by (cbn; lia). unfold mp_take, bind. rewrite takez_app. reflexivity.
  - rewrite (mp_be_enc 2) by (cbn; lia). unfold mp_take, bind. rewrite takez_app. reflexivity.
  - rewrite (mp_be_enc 4) by (cbn; lia). unfold mp_take, bind. rewrite takez_app. reflexivity.
Qed.

Lemma mp_key_enc s r : 0 <= zlen s < two32 -> mp_key (mpe_str s ++ r) = Ok (s, r).
Proof.
  intros H. rewrite <- (mp_str_enc s r H). unfold mp_key, mpe_str.
  destruct (zlen s <? 32) eqn:E1; [|destruct (zlen s <? 256); [|destruct (zlen s <? 65536)]];
  rewrite <- app_assoc; cbn [app]; ifs; reflexivity.
Qed.

Lemma mp_map_enc n r : 0 <= n < two32 -> mp_map_header (mpe_map n ++ r) = Ok (n, r).
Proof.
  intros H. unfold mpe_map, two32 in *.
  destruct (n <? 16) eqn:E1; [|destruct (n <? 65536) eqn:E2]; cbn [app mp_map_header]; ifs.
  - f_equal. f_equal. lia.
  - apply (mp_be_enc 2). cbn; lia.
  - apply (mp_be_enc 4). cbn; lia.
Qed.
Lemma mp_arr_enc n r : 0 <= n < two32 -> mp_array_header (mpe_arr n ++ r) = Ok (n, r).
Proof.
  intros H. unfold mpe_arr, two32 in *.
  destruct (n <? 16) eqn:E1; [|destruct (n <? 65536) eqn:E2]; cbn [app mp_array_header]; ifs.
  - f_equal. f_equal. lia.
  - apply (mp_be_enc 2). cbn; lia.
  - apply (mp_be_enc 4). cbn; lia.
Qed.

Lemma mp_f64_enc x r : 0 <= x < two64 -> mp_f64 (mpe_f64 x ++ r) = Ok (x, r).
Proof.
  intros H. unfold mpe_f64, mp_f64. cbn [app].
  assert (L : zlen (203 :: be_enc 8 x ++ r) = 9 + zlen r).
  { unfold zlen. cbn [length]. rewrite app_length. unfold be_enc. rewrite rev_length, le_enc_length. lia. }
  rewrite L. pose proof (zlen_nonneg r). ifs.
  apply (mp_be_enc 8). unfold two64 in H. cbn. lia.
Qed.
