(* C13 — lemmas about the wire-format model: format detection, error reporting, the recorded defects
   (witnesses) and their repairs. *)
From Coq Require Import ZArith List Bool Lia.
From SH Require Import Common.Wrap TL.Model TL.Proofs Wire.Model.
Import ListNotations.
Open Scope Z_scope.

(* ---------- format detection, as documented in receiver.go ---------- *)
(* "{" JSON; "SH" legacy; 39 02 58 56 TL; 0x8* (fixmap) 0xDE (map 16) 0xDF (map 32) MessagePack maps (a map16/map32
   lead byte counts only with its 2/4 length bytes); the empty packet is its own class; everything else Protobuf.
   The order matters only where the prefixes could overlap: they cannot (first bytes 39, 7B, 53, 8x/DE/DF differ). *)
Definition doc_format (p : bytes) : wfmt :=
  match p with
  | [] => FEmpty
  | b0 :: r =>
      if (b0 =? 57) && is_prefix [2; 88; 86] r then FTL
      else if b0 =? 123 then FJSON
      else if (b0 =? 83) && is_prefix [72] r then FLegacy
      else if (128 <=? b0) && (b0 <=? 143) then FMsgpack
      else if (b0 =? 222) && (2 <=? zlen r) then FMsgpack
      else if (b0 =? 223) && (4 <=? zlen r) then FMsgpack
      else FProtobuf
  end.

Lemma takez_some n r : n <= zlen r -> exists a b, takez n r = Some (a, b).
Proof. intros H. unfold takez. destruct (zlen r <? n) eqn:E; [lia|]. eauto. Qed.
Lemma takez_none n r : zlen r < n -> takez n r = None.
Proof. intros H. unfold takez. destruct (zlen r <? n) eqn:E; [reflexivity|lia]. Qed.

Lemma mp_be_ok n r : mp_be n r <> Err -> n <= zlen r.
Proof. unfold mp_be, takez. destruct (zlen r <? n) eqn:E; [congruence|lia]. Qed.

Lemma mp_be_isok n r : match mp_be n r with Ok _ => true | _ => false end = (n <=? zlen r).
Proof. unfold mp_be, takez. destruct (zlen r <? n) eqn:E; symmetry; [apply Z.leb_gt|apply Z.leb_le]; lia. Qed.

Lemma looks_like_map_spec b0 r :
  mp_looks_like_map (b0 :: r) =
  ((128 <=? b0) && (b0 <=? 143)) || ((b0 =? 222) && (2 <=? zlen r)) || ((b0 =? 223) && (4 <=? zlen r)).
Proof.
  unfold mp_looks_like_map, mp_map_header.
  destruct ((128 <=? b0) && (b0 <=? 143)) eqn:E1; [reflexivity|].
  destruct (b0 =? 222) eqn:E2.
  - rewrite mp_be_isok. apply Z.eqb_eq in E2. subst b0. cbn [orb andb Z.eqb Pos.eqb]. destruct (2 <=? zlen r); reflexivity.
  - destruct (b0 =? 223) eqn:E3.
    + rewrite mp_be_isok. reflexivity.
    + reflexivity.
Qed.

Theorem detect_documented : forall pkt, detect pkt = doc_format pkt.
Proof.
  intros [|b0 r]; [reflexivity|].
  unfold detect, doc_format. rewrite looks_like_map_spec.
  replace (is_prefix [57; 2; 88; 86] (b0 :: r)) with ((b0 =? 57) && is_prefix [2; 88; 86] r).
  2:{ unfold is_prefix. cbn [length firstn bytes_eqb]. rewrite (Z.eqb_sym 57 b0). reflexivity. }
  replace (is_prefix [123] (b0 :: r)) with (b0 =? 123).
  2:{ unfold is_prefix. cbn [length firstn bytes_eqb]. rewrite (Z.eqb_sym 123 b0). destruct (b0 =? 123); reflexivity. }
  replace (is_prefix [83; 72] (b0 :: r)) with ((b0 =? 83) && is_prefix [72] r).
  2:{ unfold is_prefix. cbn [length firstn bytes_eqb]. rewrite (Z.eqb_sym 83 b0). reflexivity. }
  destruct ((b0 =? 57) && is_prefix [2; 88; 86] r); [reflexivity|].
  destruct (b0 =? 123); [reflexivity|].
  destruct ((b0 =? 83) && is_prefix [72] r); [reflexivity|].
  destruct ((128 <=? b0) && (b0 <=? 143)); [reflexivity|].
  destruct ((b0 =? 222) && (2 <=? zlen r)); [reflexivity|].
  destruct ((b0 =? 223) && (4 <=? zlen r)); reflexivity.
Qed.

(* ---------- MessagePack: decoder after encoder ---------- *)
From Coq Require Import ZifyBool.

Ltac ifs := repeat match goal with
  | |- context [if ?c then _ else _] => let E := fresh "E" in destruct c eqn:E; try (exfalso; lia)
  end.

Lemma zlen_be_enc n z : zlen (be_enc n z) = Z.of_nat n.
Proof. unfold zlen, be_enc. rewrite rev_length, le_enc_length. reflexivity. Qed.
Lemma be_dec_enc n z : 0 <= z < 256 ^ Z.of_nat n -> be_dec (be_enc n z) = z.
Proof. intros. unfold be_dec, be_enc. rewrite rev_involutive. apply le_dec_enc. assumption. Qed.
Lemma mp_be_enc (n : nat) z r : 0 <= z < 256 ^ Z.of_nat n -> mp_be (Z.of_nat n) (be_enc n z ++ r) = Ok (z, r).
Proof. intros. unfold mp_be. rewrite (takez_app_n _ _ _ (zlen_be_enc n z)). rewrite be_dec_enc by assumption. reflexivity. Qed.

Lemma is_bytes_len s : is_bytes s = true -> 0 <= zlen s < two32.
Proof. unfold is_bytes. intros H. apply andb_true_iff in H as [_ H]. pose proof (zlen_nonneg s). unfold two32 in *. lia. Qed.

Lemma mp_str_enc s r : 0 <= zlen s < two32 -> mp_str (mpe_str s ++ r) = Ok (s, r).
Proof.
  intros H. unfold mpe_str, two32 in *.
  destruct (zlen s <? 32) eqn:E1; [|destruct (zlen s <? 256) eqn:E2; [|destruct (zlen s <? 65536) eqn:E3]];
  rewrite <- app_assoc; cbn [app mp_str]; ifs.
  - unfold mp_take, bind. replace (160 + zlen s - 160) with (zlen s) by lia. rewrite takez_app. reflexivity.
  - rewrite (mp_be_enc 1) by (cbn; lia). unfold mp_take, bind. rewrite takez_app. reflexivity.
  - rewrite (mp_be_enc 2) by (cbn; lia). unfold mp_take, bind. rewrite takez_app. reflexivity.
  - rewrite (mp_be_enc 4) by (cbn; lia). unfold mp_take, bind. rewrite takez_app. reflexivity.
Qed.

Lemma mp_key_enc s r : 0 <= zlen s < two32 -> mp_key (mpe_str s ++ r) = Ok (s, r).
Proof.
  intros H. rewrite <- (mp_str_enc s r H). unfold mp_key, mpe_str.
  destruct (zlen s <? 32) eqn:E1; [|destruct (zlen s <? 256); [|destruct (zlen s <? 65536)]];
  rewrite <- app_assoc; cbn [app]; ifs; reflexivity.
Qed.

Lemma mp_map_enc n r : 0 <= n < two32 -> mp_map_header (mpe_map n ++ r) = Ok (n, r).
Proof.
  intros H. unfold mpe_map, two32 in *.
  destruct (n <? 16) eqn:E1; [|destruct (n <? 65536) eqn:E2]; cbn [app mp_map_header]; ifs.
  - f_equal. f_equal. lia.
  - apply (mp_be_enc 2). cbn; lia.
  - apply (mp_be_enc 4). cbn; lia.
Qed.
Lemma mp_arr_enc n r : 0 <= n < two32 -> mp_array_header (mpe_arr n ++ r) = Ok (n, r).
Proof.
  intros H. unfold mpe_arr, two32 in *.
  destruct (n <? 16) eqn:E1; [|destruct (n <? 65536) eqn:E2]; cbn [app mp_array_header]; ifs.
  - f_equal. f_equal. lia.
  - apply (mp_be_enc 2). cbn; lia.
  - apply (mp_be_enc 4). cbn; lia.
Qed.

Lemma mp_f64_enc x r : 0 <= x < two64 -> mp_f64 (mpe_f64 x ++ r) = Ok (x, r).
Proof.
  intros H. unfold mpe_f64, mp_f64. cbn [app].
  assert (L : zlen (203 :: be_enc 8 x ++ r) = 9 + zlen r).
  { unfold zlen. cbn [length]. rewrite app_length. unfold be_enc. rewrite rev_length, le_enc_length. lia. }
  rewrite L. pose proof (zlen_nonneg r). ifs.
  apply (mp_be_enc 8). unfold two64 in H. cbn. lia.
Qed.

Ltac sx := unfold sext;
  try change (2 ^ (8 - 1)) with 128; try change (2 ^ 8) with 256;
  try change (2 ^ (16 - 1)) with 32768; try change (2 ^ 16) with 65536;
  try change (2 ^ (32 - 1)) with 2147483648; try change (2 ^ 32) with 4294967296;
  try change (2 ^ (64 - 1)) with 9223372036854775808; try change (2 ^ 64) with 18446744073709551616.

Lemma mp_i64_enc x r : - two63 <= x < two63 -> mp_i64 (mpe_i64 x ++ r) = Ok (x, r).
Proof.
  intros H. unfold mpe_i64, two63, two32, two64 in *.
  repeat match goal with
  | |- context [if ?c then _ else _] => match c with context [x] => let E := fresh "C" in destruct c eqn:E end
  end; cbn [app mp_i64]; ifs; try reflexivity.
  all: try (rewrite (mp_be_enc 1) by (cbn; lia)); try (rewrite (mp_be_enc 2) by (cbn; lia));
       try (rewrite (mp_be_enc 4) by (cbn; lia)); try (rewrite (mp_be_enc 8) by (cbn; lia));
       unfold bind; sx; ifs; try (f_equal; f_equal; lia).
Qed.

Lemma mp_u32_enc x r : 0 <= x < two32 -> mp_u32 (mpe_u32 x ++ r) = Ok (x, r).
Proof.
  intros H. unfold mpe_u32, mp_u32, two32 in *.
  repeat match goal with
  | |- context [if ?c then _ else _] => match c with context [x] => let E := fresh "C" in destruct c eqn:E end
  end; cbn [app mp_u64]; ifs.
  all: try (rewrite (mp_be_enc 1) by (cbn; lia)); try (rewrite (mp_be_enc 2) by (cbn; lia));
       try (rewrite (mp_be_enc 4) by (cbn; lia)); unfold bind; unfold two32; ifs; reflexivity.
Qed.

Section Repeat.
  Context {A : Type}.
  Variable rd : bytes -> res (A * bytes).
  Variable enc : A -> bytes.
  Variable P : A -> Prop.
  Hypothesis rd_enc : forall x r, P x -> rd (enc x ++ r) = Ok (x, r).
  Hypothesis enc_nonempty : forall x, (1 <= length (enc x))%nat.

  Lemma flat_map_len_ge (l : list A) : (length l <= length (flat_map enc l))%nat.
  Proof. induction l; cbn [flat_map length]; [lia|]. rewrite app_length. pose proof (enc_nonempty a). lia. Qed.

  Lemma mp_repeat_enc : forall l r fuel, Forall P l -> (length l <= fuel)%nat ->
    mp_repeat rd fuel (zlen l) (flat_map enc l ++ r) = Ok (l, r).
  Proof.
    induction l as [|x l IH]; intros r fuel HP Hf.
    - destruct fuel; reflexivity.
    - inversion HP; subst. destruct fuel as [|f]; [cbn in Hf; lia|].
      cbn [mp_repeat]. assert (E : (zlen (x :: l) <=? 0) = false).
      { unfold zlen. cbn [length]. lia. }
      rewrite E. cbn [flat_map]. rewrite <- app_assoc. rewrite rd_enc by assumption. cbn [bind].
      replace (zlen (x :: l) - 1) with (zlen l) by (unfold zlen; cbn [length]; lia).
      rewrite IH by (try assumption; cbn in Hf; lia). reflexivity.
  Qed.

  Lemma mp_repeat_enc_top l r : Forall P l ->
    mp_repeat rd (rep_fuel (flat_map enc l ++ r)) (zlen l) (flat_map enc l ++ r) = Ok (l, r).
  Proof.
    intros. apply mp_repeat_enc; [assumption|]. unfold rep_fuel. rewrite app_length. pose proof (flat_map_len_ge l). lia.
  Qed.
End Repeat.

Section RepeatMap.
  Context {A B : Type}.
  Variable rd : bytes -> res (A * bytes).
  Variable enc : B -> bytes.
  Variable g : B -> A.
  Variable P : B -> Prop.
  Hypothesis rd_enc : forall x r, P x -> rd (enc x ++ r) = Ok (g x, r).
  Hypothesis enc_nonempty : forall x, (1 <= length (enc x))%nat.

  Lemma mp_repeat_map : forall l r fuel, Forall P l -> (length l <= fuel)%nat ->
    mp_repeat rd fuel (zlen l) (flat_map enc l ++ r) = Ok (map g l, r).
  Proof.
    induction l as [|x l IH]; intros r fuel HP Hf.
    - destruct fuel; reflexivity.
    - inversion HP; subst. destruct fuel as [|f]; [cbn in Hf; lia|].
      cbn [mp_repeat]. assert (E : (zlen (x :: l) <=? 0) = false).
      { unfold zlen. cbn [length]. lia. }
      rewrite E. cbn [flat_map]. rewrite <- app_assoc. rewrite rd_enc by assumption. cbn [bind].
      replace (zlen (x :: l) - 1) with (zlen l) by (unfold zlen; cbn [length]; lia).
      rewrite IH by (try assumption; cbn in Hf; lia). reflexivity.
  Qed.
  Lemma mp_repeat_map_top l r : Forall P l ->
    mp_repeat rd (rep_fuel (flat_map enc l ++ r)) (zlen l) (flat_map enc l ++ r) = Ok (map g l, r).
  Proof.
    intros. apply mp_repeat_map; [assumption|]. unfold rep_fuel. rewrite app_length.
    pose proof (flat_map_len_ge enc enc_nonempty l). lia.
  Qed.
End RepeatMap.

Lemma mpe_str_nonempty s : (1 <= length (mpe_str s))%nat.
Proof. unfold mpe_str. rewrite app_length. ifs; cbn [length]; lia. Qed.
Lemma mpe_map_nonempty n : (1 <= length (mpe_map n))%nat.
Proof. unfold mpe_map. ifs; cbn [length]; lia. Qed.
Lemma mpe_i64_nonempty x : (1 <= length (mpe_i64 x))%nat.
Proof. unfold mpe_i64. ifs; cbn [length]; lia. Qed.

(* the field-by-field reading of mp_field *)
Lemma mp_field_name v m b : mp_field v k_name m b = (do '(s, b1) <- mp_str b; Ok (set_name s m, b1)).
Proof. reflexivity. Qed.
Lemma mp_field_tags v m b : mp_field v k_tags m b =
  (do '(n, b1) <- mp_map_header b; do _ <- mp_alloc v n 48 2 b1;
   do '(ts, b2) <- mp_repeat mp_tag (rep_fuel b1) n b1; Ok (set_tags ts m, b2)).
Proof. reflexivity. Qed.
Lemma mp_field_counter v m b : mp_field v k_counter m b = (do '(x, b1) <- mp_f64 b; Ok (set_counter x m, b1)).
Proof. reflexivity. Qed.
Lemma mp_field_ts v m b : mp_field v k_ts m b = (do '(x, b1) <- mp_u32 b; Ok (set_ts x m, b1)).
Proof. reflexivity. Qed.
Lemma mp_field_value v m b : mp_field v k_value m b =
  (do '(n, b1) <- mp_array_header b; do _ <- mp_alloc v n 8 1 b1;
   do '(xs, b2) <- mp_repeat mp_f64 (rep_fuel b1) n b1; Ok (set_value xs m, b2)).
Proof. reflexivity. Qed.
Lemma mp_field_unique v m b : mp_field v k_unique m b =
  (do '(n, b1) <- mp_array_header b; do _ <- mp_alloc v n 8 1 b1;
   do '(xs, b2) <- mp_repeat mp_i64 (rep_fuel b1) n b1; Ok (set_unique xs m, b2)).
Proof. reflexivity. Qed.
Lemma mp_field_hist v m b : mp_field v k_histogram m b =
  (do '(n, b1) <- mp_array_header b; do _ <- mp_alloc v n 16 3 b1;
   do '(xs, b2) <- mp_repeat mp_centroid (rep_fuel b1) n b1; Ok (set_hist xs m, b2)).
Proof. reflexivity. Qed.

(* enough memory for any 32-bit count of the largest element *)
(* as written now (counts checked against the bytes left: no limit involved), or the earlier code with enough memory
   for any 32-bit count of the largest element *)
Definition roomy (v : variant) : Prop := match v_alloc_limit v with Some L => two32 * 144 <= L | None => True end.
Lemma mp_alloc_roomy v n esz minb b : roomy v -> 0 <= n < two32 -> 0 <= esz <= 144 -> n * minb <= zlen b ->
  mp_alloc v n esz minb b = Ok tt.
Proof.
  unfold roomy, mp_alloc. destruct (v_alloc_limit v); intros; unfold two32 in *.
  - destruct (z <? n * esz) eqn:E; [exfalso; nia|reflexivity].
  - destruct (zlen b <? n * minb) eqn:E; [exfalso; lia|reflexivity].
Qed.
Lemma flat_map_zlen_ge {A} (enc : A -> bytes) k (l : list A) r :
  (forall x, k <= zlen (enc x)) -> zlen l * k <= zlen (flat_map enc l ++ r).
Proof.
  intros H. rewrite zlen_app. pose proof (zlen_nonneg r). enough (zlen l * k <= zlen (flat_map enc l)) by lia.
  induction l; cbn [flat_map]; [unfold zlen; cbn; lia|]. rewrite zlen_app. specialize (H a).
  unfold zlen in *. cbn [length]. lia.
Qed.

Definition is_tagb (kv : bytes * bytes) := is_bytes (fst kv) && is_bytes (snd kv).
Lemma mp_tag_enc kv r : is_tagb kv = true -> mp_tag (mpe_str (fst kv) ++ mpe_str (snd kv) ++ r) = Ok (kv, r).
Proof.
  intros H. apply andb_true_iff in H as [H1 H2]. unfold mp_tag.
  rewrite mp_str_enc by (apply is_bytes_len; assumption). cbn [bind].
  rewrite mp_str_enc by (apply is_bytes_len; assumption). cbn [bind]. destruct kv; reflexivity.
Qed.
Definition is_f64p (p : Z * Z) := is_f64 (fst p) && is_f64 (snd p).
Lemma is_f64_spec x : is_f64 x = true -> 0 <= x < two64.
Proof. unfold is_f64. lia. Qed.
Lemma is_i64_spec x : is_i64 x = true -> - two63 <= x < two63.
Proof. unfold is_i64. lia. Qed.
Lemma mp_centroid_enc p r : is_f64p p = true ->
  mp_centroid ((146 :: mpe_f64 (fst p) ++ mpe_f64 (snd p)) ++ r) = Ok (p, r).
Proof.
  intros H. apply andb_true_iff in H as [H1 H2]. unfold mp_centroid. cbn [app mp_array_header]. ifs. cbn [bind].
  replace (146 - 144 =? 2) with true by reflexivity. cbn [negb].
  rewrite <- app_assoc. rewrite mp_f64_enc by (apply is_f64_spec; assumption). cbn [bind].
  rewrite mp_f64_enc by (apply is_f64_spec; assumption). cbn [bind]. destruct p; reflexivity.
Qed.

Lemma forallb_Forall {A} (p : A -> bool) l : forallb p l = true -> Forall (fun x => p x = true) l.
Proof. intros H. apply Forall_forall. apply forallb_forall. assumption. Qed.

(* one present field *)
Definition item := (bytes * bytes * (dmetric -> dmetric))%type.
Definition item_ok (v : variant) (it : item) : Prop :=
  let '(key, payload, upd) := it in
  0 <= zlen key < two32 /\ forall m r, mp_field v key m (payload ++ r) = Ok (upd m, r).
Definition item_bytes (it : item) : bytes := let '(key, payload, _) := it in mpe_str key ++ payload.
Definition item_upd (m : dmetric) (it : item) : dmetric := let '(_, _, upd) := it in upd m.

Lemma mp_fields_items v : forall items fuel m r, Forall (item_ok v) items -> (length items <= fuel)%nat ->
  mp_fields v fuel (zlen items) m (flat_map item_bytes items ++ r) = Ok (fold_left item_upd items m, r).
Proof.
  induction items as [|[[key payload] upd] items IH]; intros fuel m r HP Hf.
  - destruct fuel; reflexivity.
  - inversion HP as [|? ? H1 HP']; subst. unfold item_ok in H1. destruct H1 as [Hk Hfld].
    destruct fuel as [|f]; [cbn in Hf; lia|].
    cbn [mp_fields].
    match goal with |- context [if ?c then _ else _] => assert (E : c = false) by (unfold zlen; cbn [length]; lia) end.
    rewrite E. cbn [flat_map item_bytes]. rewrite <- !app_assoc. rewrite mp_key_enc by assumption. cbn [bind].
    rewrite Hfld. cbn [bind].
    match goal with |- context [mp_fields v f ?n] => replace n with (zlen items) by (unfold zlen; cbn [length]; lia) end.
    rewrite IH by (try assumption; cbn in Hf; lia). reflexivity.
Qed.

Definition oitem {A} (o : option A) (f : A -> item) : list item := match o with Some x => [f x] | None => [] end.
Definition enc_tagkv (kv : bytes * bytes) : bytes := mpe_str (fst kv) ++ mpe_str (snd kv).
Definition enc_cent (p : Z * Z) : bytes := 146 :: mpe_f64 (fst p) ++ mpe_f64 (snd p).
Definition metric_items (m : metric) : list item :=
  [(k_name, mpe_str (m_name m), set_name (m_name m));
   (k_tags, mpe_map (zlen (m_tags m)) ++ flat_map enc_tagkv (m_tags m), set_tags (m_tags m))]
  ++ oitem (m_counter m) (fun c => (k_counter, mpe_f64 c, set_counter c))
  ++ oitem (m_ts m) (fun t => (k_ts, mpe_u32 t, set_ts t))
  ++ oitem (m_value m) (fun l => (k_value, mpe_arr (zlen l) ++ flat_map mpe_f64 l, set_value l))
  ++ oitem (m_unique m) (fun l => (k_unique, mpe_arr (zlen l) ++ flat_map mpe_i64 l, set_unique l))
  ++ oitem (m_hist m) (fun l => (k_histogram, mpe_arr (zlen l) ++ flat_map enc_cent l, set_hist l)).

Lemma enc_mp_metric_items m : enc_mp_metric m = mpe_map (zlen (metric_items m)) ++ flat_map item_bytes (metric_items m).
Proof.
  unfold enc_mp_metric, metric_items.
  destruct (m_counter m), (m_ts m), (m_value m), (m_unique m), (m_hist m);
  cbn [oitem oenc ocount app flat_map item_bytes]; rewrite ?app_nil_r, <- ?app_assoc; reflexivity.
Qed.
Lemma fold_items m : fold_left item_upd (metric_items m) dzero = canon m.
Proof. unfold metric_items, canon. destruct (m_counter m), (m_ts m), (m_value m), (m_unique m), (m_hist m); reflexivity. Qed.

Lemma wf_metric_parts m : wf_metric m = true ->
  is_bytes (m_name m) = true /\ forallb is_tagb (m_tags m) = true /\ zlen (m_tags m) < two32 /\
  oall is_f64 (m_counter m) = true /\ oall (fun t => (0 <=? t) && (t <? two32)) (m_ts m) = true /\
  oall (fun l => forallb is_f64 l && (zlen l <? two32)) (m_value m) = true /\
  oall (fun l => forallb is_i64 l && (zlen l <? two32)) (m_unique m) = true /\
  oall (fun l => forallb is_f64p l && (zlen l <? two32)) (m_hist m) = true.
Proof.
  unfold wf_metric. intros H. repeat (apply andb_true_iff in H as [H ?]). repeat split; try assumption; [unfold is_bytes; rewrite H; assumption | lia].
Qed.

Lemma zlen_ge_of_length {A} (l : list A) k : (Z.to_nat k <= length l)%nat -> k <= zlen l.
Proof. unfold zlen. lia. Qed.
Lemma enc_tagkv_len x : 2 <= zlen (enc_tagkv x).
Proof.
  unfold enc_tagkv. rewrite zlen_app. pose proof (mpe_str_nonempty (fst x)). pose proof (mpe_str_nonempty (snd x)).
  unfold zlen. lia.
Qed.
Lemma mpe_f64_len x : 1 <= zlen (mpe_f64 x).
Proof. unfold mpe_f64, zlen. cbn [length]. lia. Qed.
Lemma mpe_i64_len x : 1 <= zlen (mpe_i64 x).
Proof. pose proof (mpe_i64_nonempty x). unfold zlen. lia. Qed.
Lemma enc_cent_len x : 3 <= zlen (enc_cent x).
Proof. unfold enc_cent, mpe_f64, zlen. cbn [length]. rewrite app_length. cbn [length]. lia. Qed.
Ltac solve_alloc := try assumption; try lia;
  apply flat_map_zlen_ge; first [apply enc_tagkv_len | apply mpe_f64_len | apply mpe_i64_len | apply enc_cent_len].

Lemma items_ok v m : roomy v -> wf_metric m = true -> Forall (item_ok v) (metric_items m).
Proof.
  intros Hv H. apply wf_metric_parts in H as (Hn & Ht & Htl & Hc & Hts & Hv' & Hu & Hh).
  unfold metric_items.
  apply Forall_app; split; [|apply Forall_app; split; [|apply Forall_app; split; [|apply Forall_app; split; [|apply Forall_app; split]]]].
  - repeat constructor; try (cbn; unfold two32; lia).
    + intros m0 r. rewrite mp_field_name. rewrite mp_str_enc by (apply is_bytes_len; assumption). reflexivity.
    + intros m0 r. rewrite mp_field_tags. rewrite <- app_assoc.
      pose proof (zlen_nonneg (m_tags m)).
      rewrite mp_map_enc by lia. cbn [bind]. rewrite mp_alloc_roomy by solve_alloc. cbn [bind].
      rewrite (mp_repeat_enc_top mp_tag enc_tagkv (fun kv => is_tagb kv = true)).
      * reflexivity.
      * intros x r0 Hx. unfold enc_tagkv. rewrite <- app_assoc. apply mp_tag_enc. assumption.
      * intros x. unfold enc_tagkv. rewrite app_length. pose proof (mpe_str_nonempty (fst x)). lia.
      * apply forallb_Forall. assumption.
  - destruct (m_counter m) as [c|]; cbn [oitem]; constructor; [|constructor].
    split; [cbn; unfold two32; lia|]. intros m0 r. rewrite mp_field_counter.
    rewrite mp_f64_enc by (apply is_f64_spec; assumption). reflexivity.
  - destruct (m_ts m) as [t|]; cbn [oitem]; constructor; [|constructor].
    split; [cbn; unfold two32; lia|]. intros m0 r. rewrite mp_field_ts. cbn [oall] in Hts.
    rewrite mp_u32_enc by lia. reflexivity.
  - destruct (m_value m) as [l|]; cbn [oitem]; constructor; [|constructor].
    split; [cbn; unfold two32; lia|]. intros m0 r. rewrite mp_field_value. rewrite <- app_assoc.
    cbn [oall] in Hv'. apply andb_true_iff in Hv' as [Hl1 Hl2]. pose proof (zlen_nonneg l).
    rewrite mp_arr_enc by lia. cbn [bind]. rewrite mp_alloc_roomy by solve_alloc. cbn [bind].
    rewrite (mp_repeat_enc_top mp_f64 mpe_f64 (fun x => is_f64 x = true)).
    + reflexivity.
    + intros x r0 Hx. apply mp_f64_enc. apply is_f64_spec. assumption.
    + intros x. cbn. lia.
    + apply forallb_Forall. assumption.
  - destruct (m_unique m) as [l|]; cbn [oitem]; constructor; [|constructor].
    split; [cbn; unfold two32; lia|]. intros m0 r. rewrite mp_field_unique. rewrite <- app_assoc.
    cbn [oall] in Hu. apply andb_true_iff in Hu as [Hl1 Hl2]. pose proof (zlen_nonneg l).
    rewrite mp_arr_enc by lia. cbn [bind]. rewrite mp_alloc_roomy by solve_alloc. cbn [bind].
    rewrite (mp_repeat_enc_top mp_i64 mpe_i64 (fun x => is_i64 x = true)).
    + reflexivity.
    + intros x r0 Hx. apply mp_i64_enc. apply is_i64_spec. assumption.
    + apply mpe_i64_nonempty.
    + apply forallb_Forall. assumption.
  - destruct (m_hist m) as [l|]; cbn [oitem]; constructor; [|constructor].
    split; [cbn; unfold two32; lia|]. intros m0 r. rewrite mp_field_hist. rewrite <- app_assoc.
    cbn [oall] in Hh. apply andb_true_iff in Hh as [Hl1 Hl2]. pose proof (zlen_nonneg l).
    rewrite mp_arr_enc by lia. cbn [bind]. rewrite mp_alloc_roomy by solve_alloc. cbn [bind].
    rewrite (mp_repeat_enc_top mp_centroid enc_cent (fun x => is_f64p x = true)).
    + reflexivity.
    + intros x r0 Hx. apply mp_centroid_enc. assumption.
    + intros x. cbn. lia.
    + apply forallb_Forall. assumption.
Qed.

Lemma item_bytes_nonempty it : (1 <= length (item_bytes it))%nat.
Proof. destruct it as [[k p] u]. cbn [item_bytes]. rewrite app_length. pose proof (mpe_str_nonempty k). lia. Qed.

Lemma metric_items_len m : 0 <= zlen (metric_items m) <= 7.
Proof.
  unfold metric_items. destruct (m_counter m), (m_ts m), (m_value m), (m_unique m), (m_hist m); cbn; lia.
Qed.

Lemma mp_metric_enc v m r : roomy v -> wf_metric m = true -> mp_metric v (enc_mp_metric m ++ r) = Ok (canon m, r).
Proof.
  intros Hv H. unfold mp_metric. rewrite enc_mp_metric_items, <- app_assoc.
  pose proof (metric_items_len m). rewrite mp_map_enc by (unfold two32; lia). cbn [bind].
  rewrite mp_fields_items.
  - rewrite fold_items. reflexivity.
  - apply items_ok; assumption.
  - unfold rep_fuel. rewrite app_length.
    pose proof (flat_map_len_ge item_bytes item_bytes_nonempty (metric_items m)). lia.
Qed.

Lemma enc_mp_metric_nonempty m : (1 <= length (enc_mp_metric m))%nat.
Proof. rewrite enc_mp_metric_items, app_length. pose proof (mpe_map_nonempty (zlen (metric_items m))). lia. Qed.

Theorem mp_batch_enc : forall v b r, roomy v -> wf_batch b = true ->
  mp_batch v (enc_mp b ++ r) = Ok (map canon b, r).
Proof.
  intros v b r Hv H. unfold wf_batch in H. apply andb_true_iff in H as [Hb Hl].
  unfold mp_batch, enc_mp. rewrite <- !app_assoc. rewrite mp_map_enc by (unfold two32; lia). cbn [bind].
  unfold rep_fuel at 1. cbn [mp_batch_fields]. replace (1 <=? 0) with false by reflexivity.
  rewrite mp_key_enc by (cbn; unfold two32; lia). cbn [bind].
  replace (bytes_eqb k_metrics k_metrics) with true by reflexivity.
  pose proof (zlen_nonneg b). rewrite mp_arr_enc by lia. cbn [bind].
  rewrite mp_alloc_roomy by (try assumption; try lia; apply flat_map_zlen_ge; intro x;
                             pose proof (enc_mp_metric_nonempty x); unfold zlen; lia). cbn [bind].
  rewrite (mp_repeat_map_top (mp_metric v) enc_mp_metric canon (fun m => wf_metric m = true)).
  - cbn [bind]. replace (1 - 1) with 0 by reflexivity.
    match goal with |- mp_batch_fields _ ?f _ _ _ = _ => destruct f end; reflexivity.
  - intros. apply mp_metric_enc; assumption.
  - apply enc_mp_metric_nonempty.
  - apply forallb_Forall. assumption.
Qed.

(* ---------- parser.parse on an encoded batch; error reporting; the recorded defects ---------- *)
Section ParseProofs.
  Variable parse_f64 parse_u32 parse_i64 : bool -> bytes -> option Z.
  Variable lex : bytes -> option jv.
  Notation parse' := (parse parse_f64 parse_u32 parse_i64 lex).

  Lemma enc_mp_head b : exists r, enc_mp b = 129 :: r.
  Proof. unfold enc_mp. cbn [mpe_map Z.ltb Z.compare Pos.compare Pos.compare_cont app Z.add Pos.add]. eexists. reflexivity. Qed.

  Theorem parse_enc_mp : forall v b, roomy v -> wf_batch b = true ->
    parse' v (enc_mp b) = {| o_fmt := FMsgpack; o_metrics := map canon b; o_end := EDone |}.
  Proof.
    intros v b Hv H. unfold parse. rewrite detect_documented.
    destruct (enc_mp_head b) as [r E]. rewrite E. cbn [doc_format Z.eqb Pos.eqb andb Z.leb Z.compare Pos.compare Pos.compare_cont].
    cbn [length loop_batches]. rewrite <- E.
    rewrite <- (app_nil_r (enc_mp b)) at 1. rewrite mp_batch_enc by assumption.
    destruct (length r); reflexivity.
  Qed.

  Lemma report_nonempty x l : report (x :: l) = EParseError (zlen (x :: l)).
  Proof. unfold report. pose proof (zlen_nonneg l). unfold zlen in *. cbn [length]. ifs. reflexivity. Qed.

  Lemma loop_batches_reports dec : forall fuel acc pkt, snd (loop_batches dec fuel acc pkt) <> ESilent.
  Proof.
    induction fuel; intros acc [|x l]; cbn [loop_batches snd]; try congruence.
    destruct (dec (x :: l)) as [[ms r]| | |]; cbn [snd]; try congruence; try apply IHfuel.
    rewrite report_nonempty. congruence.
  Qed.

  (* with the repaired protobuf branch every error parse returns has been given to HandleParseError *)
  Theorem repaired_error_reported : forall pkt, o_end (parse' repaired pkt) <> ESilent.
  Proof.
    intros pkt. unfold parse. destruct pkt as [|x l]; [cbn; congruence|].
    destruct (detect (x :: l)); cbn [o_end]; try congruence.
    - pose proof (loop_batches_reports tl_batch (length (x :: l)) [] (x :: l)) as H.
      destruct (loop_batches tl_batch (length (x :: l)) [] (x :: l)). exact H.
    - destruct (lex (x :: l)); [destruct (j_batch _ _ _ _)|]; cbn [o_end]; rewrite ?report_nonempty; congruence.
    - pose proof (loop_batches_reports (mp_batch repaired) (length (x :: l)) [] (x :: l)) as H.
      destruct (loop_batches (mp_batch repaired) (length (x :: l)) [] (x :: l)). exact H.
    - destruct (pb_batch repaired (length (x :: l)) [] (x :: l)); cbn [o_end v_pb_err_whole repaired];
        rewrite ?report_nonempty; congruence.
  Qed.
End ParseProofs.

Definition no_num (_ : bool) (_ : bytes) : option Z := None.
Definition no_lex (_ : bytes) : option jv := None.
Definition parse0 := parse no_num no_num no_num no_lex.

(* F-C13a: 81 A7 "metrics" DD FF FF FF FF *)
Definition w_hostile : bytes := [129; 167; 109; 101; 116; 114; 105; 99; 115; 221; 255; 255; 255; 255].
(* F-C13b: a batch of one metric whose ts is 2^32 *)
Definition w_silent : bytes := [202; 193; 6; 6; 32; 128; 128; 128; 128; 16].
(* F-C13d *)
Definition w_unpacked : list metric :=
  [{| m_name := [109]; m_tags := []; m_counter := None; m_ts := None; m_value := None; m_unique := Some [7]; m_hist := None |}].

Lemma hostile_batch_crashes L : 0 <= L < 618475290480 -> mp_batch (faithful L) w_hostile = Crash.
Proof.
  intros HL. change w_hostile with (mpe_map 1 ++ mpe_str k_metrics ++ [221; 255; 255; 255; 255]).
  unfold mp_batch. rewrite mp_map_enc by (unfold two32; lia). cbn [bind].
  unfold rep_fuel. cbn [mp_batch_fields]. replace (1 <=? 0) with false by reflexivity.
  rewrite mp_key_enc by (cbn; unfold two32; lia). cbn [bind].
  replace (bytes_eqb k_metrics k_metrics) with true by reflexivity.
  replace (mp_array_header [221; 255; 255; 255; 255]) with (@Ok (Z * bytes) (4294967295, [])) by reflexivity.
  cbn [bind]. unfold mp_alloc. cbn [v_alloc_limit faithful].
  replace (4294967295 * 144) with 618475290480 by reflexivity.
  destruct (L <? 618475290480) eqn:E; [reflexivity|lia].
Qed.
Lemma hostile_count_crashes : forall L, 0 <= L < 618475290480 -> o_end (parse0 (faithful L) w_hostile) = ECrash.
Proof.
  intros L HL. unfold parse0, parse. replace (detect w_hostile) with FMsgpack by reflexivity.
  change (length w_hostile) with 14%nat. unfold loop_batches. change w_hostile with (129 :: tl w_hostile) at 1.
  cbv iota beta. change (129 :: tl w_hostile) with w_hostile. rewrite hostile_batch_crashes by assumption. reflexivity.
Qed.
Lemma hostile_count_repaired : parse0 repaired w_hostile = {| o_fmt := FMsgpack; o_metrics := []; o_end := EParseError 14 |}.
Proof. vm_compute. reflexivity. Qed.

Lemma pb_silent_witness : forall L, parse0 (faithful L) w_silent = {| o_fmt := FProtobuf; o_metrics := []; o_end := ESilent |}.
Proof. intros. vm_compute. reflexivity. Qed.
Lemma pb_silent_repaired : parse0 repaired w_silent = {| o_fmt := FProtobuf; o_metrics := []; o_end := EParseError 10 |}.
Proof. vm_compute. reflexivity. Qed.

Lemma pb_unpacked_witness : forall L,
  wf_batch w_unpacked = true /\
  parse0 (faithful L) (enc_pb false w_unpacked) = {| o_fmt := FProtobuf; o_metrics := [set_name [109] dzero]; o_end := EDone |} /\
  parse0 (faithful L) (enc_pb true w_unpacked) = {| o_fmt := FProtobuf; o_metrics := map canon w_unpacked; o_end := EDone |} /\
  parse0 repaired (enc_pb false w_unpacked) = {| o_fmt := FProtobuf; o_metrics := map canon w_unpacked; o_end := EDone |}.
Proof. intros. vm_compute. repeat split; reflexivity. Qed.
