(* C13 — TL: C14's generic round trip (TL/Proofs.v tl1_roundtrip) instantiated on the description of
   statshouse.addMetricsBatch (Bytes form) and on the value of a batch. *)
From Coq Require Import ZArith List Bool Lia ZifyBool.
From SH Require Import Common.Wrap TL.Model TL.Proofs Wire.Model Wire.Proofs.
Import ListNotations.
Open Scope Z_scope.

Lemma wf_vector env t (vs : list value) : zlen vs < two32 ->
  Forall (fun x => wf env t x = true /\ 4 <= zlen (write env t x)) vs ->
  wf env (DVector false t) (VList vs) = true.
Proof.
  intros Hl HF. cbn [wf]. rewrite andb_true_r. apply andb_true_iff; split; [apply andb_true_iff; split|].
  - apply Z.ltb_lt. exact Hl.
  - apply forallb_forall. rewrite Forall_forall in HF. intros x Hx. apply HF. assumption.
  - unfold vector_min_elem. apply Z.leb_le. clear Hl.
    induction HF as [|x l [_ H4] _ IH]; cbn [flat_map]; [unfold zlen; cbn; lia|].
    rewrite zlen_app. unfold zlen in *. cbn [length]. pose proof (zlen_nonneg l). unfold zlen in *. lia.
Qed.

Lemma write_string_ge4 s : zlen s < two56 -> 4 <= zlen (write_string s).
Proof.
  intros H. pose proof (string_encoding_aligned s H) as A.
  assert (1 <= zlen (write_string s)).
  { unfold write_string. destruct (string_hdr (zlen s)) as [h p] eqn:E. rewrite zlen_app.
    pose proof (zlen_nonneg (s ++ write_padding p)).
    assert (1 <= zlen h). { unfold string_hdr in E. repeat match type of E with context [if ?c then _ else _] => destruct c end; inversion E; subst; unfold zlen; cbn [length]; lia. }
    lia. }
  pose proof (Z.div_mod (zlen (write_string s)) 4 ltac:(lia)). lia.
Qed.

Lemma is_bytes_wf s : is_bytes s = true -> wf_prim PString (VStr s) = true /\ zlen s < two56.
Proof.
  unfold is_bytes. intros H. apply andb_true_iff in H as [H1 H2]. cbn [wf_prim]. unfold two32, two56 in *.
  split; [apply andb_true_iff; split; [assumption|lia]|lia].
Qed.

Definition tagv (kv : bytes * bytes) : value := VList [VStr (fst kv); VStr (snd kv)].
Definition histv (p : Z * Z) : value := VList [VList [VInt (fst p); VInt (snd p)]].

Lemma Forall_map_intro {A B} (P : B -> Prop) (Q : A -> Prop) (g : A -> B) l :
  (forall x, Q x -> P (g x)) -> Forall Q l -> Forall P (map g l).
Proof. intros H HF. induction HF; cbn [map]; constructor; auto. Qed.
Lemma zlen_map {A B} (f : A -> B) l : zlen (map f l) = zlen l.
Proof. unfold zlen. rewrite map_length. reflexivity. Qed.

Lemma wf_tags env l : forallb is_tagb l = true -> zlen l < two32 -> wf env tags_desc (VList (map tagv l)) = true.
Proof.
  intros H Hl. apply wf_vector; [rewrite zlen_map; assumption|].
  apply Forall_map_intro with (Q := fun kv => is_tagb kv = true); [|apply forallb_Forall; assumption].
  intros kv Hkv. apply andb_true_iff in Hkv as [H1 H2]. apply is_bytes_wf in H1 as [W1 L1], H2 as [W2 L2].
  unfold tagv. split.
  - cbn [wf]. cbn [present push]. rewrite W1, W2. reflexivity.
  - cbn [write present push write_prim]. rewrite app_nil_r, zlen_app.
    pose proof (write_string_ge4 _ L1). pose proof (zlen_nonneg (write_string (snd kv))). lia.
Qed.
Lemma wf_doubles env l : forallb is_f64 l = true -> zlen l < two32 -> wf env (DVector false (DPrim PDouble)) (VList (map VInt l)) = true.
Proof.
  intros H Hl. apply wf_vector; [rewrite zlen_map; assumption|].
  apply Forall_map_intro with (Q := fun x => is_f64 x = true); [|apply forallb_Forall; assumption].
  intros x Hx. split; [exact Hx|]. cbn [write write_prim]. unfold zlen. rewrite le_enc_length. lia.
Qed.
Lemma wf_longs env l : forallb is_i64 l = true -> zlen l < two32 -> wf env (DVector false (DPrim PLong)) (VList (map VInt l)) = true.
Proof.
  intros H Hl. apply wf_vector; [rewrite zlen_map; assumption|].
  apply Forall_map_intro with (Q := fun x => is_i64 x = true); [|apply forallb_Forall; assumption].
  intros x Hx. split; [exact Hx|]. cbn [write write_prim]. unfold zlen. rewrite le_enc_length. lia.
Qed.
Lemma wf_hists env l : forallb is_f64p l = true -> zlen l < two32 -> wf env hist_desc (VList (map histv l)) = true.
Proof.
  intros H Hl. apply wf_vector; [rewrite zlen_map; assumption|].
  apply Forall_map_intro with (Q := fun p => is_f64p p = true); [|apply forallb_Forall; assumption].
  intros p Hp. apply andb_true_iff in Hp as [H1 H2]. unfold histv. split.
  - cbn [wf present push eval_nat]. cbn [length Z.to_nat Pos.to_nat Pos.iter_op Nat.add Nat.eqb forallb wf wf_prim].
    unfold is_f64 in H1, H2. rewrite H1, H2. reflexivity.
  - cbn [write present push write_prim flat_map]. rewrite !app_nil_r, zlen_app. unfold zlen. rewrite !le_enc_length. lia.
Qed.

Lemma value_of_metric_eq m : value_of_metric m =
  VList [VInt (mask_of m); VStr (m_name m); VList (map tagv (m_tags m));
         vo VInt (m_counter m); vo VInt (m_ts m);
         vo (fun l => VList (map VInt l)) (m_value m); vo (fun l => VList (map VInt l)) (m_unique m);
         vo (fun l => VList (map histv l)) (m_hist m)].
Proof. reflexivity. Qed.

Ltac eval_bits := repeat match goal with
  | |- context [Z.testbit ?a ?b] => let r := eval vm_compute in (Z.testbit a b) in change (Z.testbit a b) with r
  end.

Lemma wf_metric_value m : wf_metric m = true -> wf [0] metric_desc (value_of_metric m) = true.
Proof.
  intros H. apply wf_metric_parts in H as (Hn & Ht & Htl & Hc & Hts & Hv & Hu & Hh).
  apply is_bytes_wf in Hn as [Wn0 _]. rewrite value_of_metric_eq.
  assert (Wn : forall env, wf env (DPrim PString) (VStr (m_name m)) = true) by (intro; exact Wn0).
  pose proof (fun env => wf_tags env (m_tags m) Ht Htl) as WT. unfold tags_desc in WT.
  unfold metric_desc, tags_desc, hist_desc, mask_of, canon. rewrite wf_struct_eq.
  destruct (m_counter m) as [c|], (m_ts m) as [t|], (m_value m) as [lv|], (m_unique m) as [lu|], (m_hist m) as [lh|];
    cbn [oall] in *; cbn [opt_app]; unfold vo;
    repeat match goal with H : _ && _ = true |- _ => apply andb_true_iff in H as [? ?] end;
    match goal with |- context [VInt (d_mask ?x)] => let r := eval vm_compute in (d_mask x) in change (d_mask x) with r end;
    cbn [wf_fields present push eval_nat nth app]; eval_bits; cbv iota;
    rewrite ?WT, ?Wn; cbn [andb];
    try (pose proof (wf_doubles) as WD; rewrite WD by (assumption || lia); clear WD);
    try (pose proof (wf_longs) as WL; rewrite WL by (assumption || lia); clear WL);
    try (pose proof (wf_hists) as WH; unfold hist_desc in WH; rewrite WH by (assumption || lia); clear WH);
    cbn [wf wf_prim andb]; unfold is_f64 in *; rewrite ?Hc; cbn [andb]; try reflexivity; unfold two32 in *; lia.
Qed.

Lemma write_metric_ge4 m : 4 <= zlen (write [0] metric_desc (value_of_metric m)).
Proof.
  rewrite value_of_metric_eq. unfold metric_desc. rewrite write_struct_eq. cbn [write_fields present].
  cbn [write write_prim]. rewrite zlen_app. unfold zlen at 1. rewrite le_enc_length.
  match goal with |- _ <= _ + zlen ?x => pose proof (zlen_nonneg x) end. lia.
Qed.

Lemma untag l : map (fun e => vpair vstr [] e) (map tagv l) = l.
Proof. induction l as [|[k v] l IH]; cbn [map]; [reflexivity|]. rewrite IH. reflexivity. Qed.
Lemma unint l : map vint (map VInt l) = l.
Proof. induction l; cbn [map]; [reflexivity|]. rewrite IHl. reflexivity. Qed.
Lemma unhist l : map (fun e => match e with VList [p] => vpair vint 0 p | _ => (0, 0) end) (map histv l) = l.
Proof. induction l as [|[a b] l IH]; cbn [map]; [reflexivity|]. rewrite IH. reflexivity. Qed.

Lemma metric_of_value_of m : metric_of_value (value_of_metric m) = canon m.
Proof.
  rewrite value_of_metric_eq. unfold metric_of_value, mask_of, canon.
  destruct (m_counter m), (m_ts m), (m_value m), (m_unique m), (m_hist m);
    cbn [vo vopt vint vstr vlist opt_app]; rewrite ?untag, ?unint, ?unhist; reflexivity.
Qed.

Theorem tl_batch_enc : forall b rest, wf_batch b = true -> tl_batch (enc_tl b ++ rest) = Ok (map canon b, rest).
Proof.
  intros b rest H. unfold wf_batch in H. apply andb_true_iff in H as [Hb Hl].
  unfold tl_batch, enc_tl. rewrite tl1_roundtrip.
  - unfold value_of_batch, batch_of_value. cbn [vlist]. rewrite map_map. f_equal. f_equal.
    apply map_ext. intros m. apply metric_of_value_of.
  - cbn [wf]. apply andb_true_iff; split; [reflexivity|].
    unfold batch_desc, value_of_batch. rewrite wf_struct_eq. cbn [wf_fields present push]. cbn [wf wf_prim andb Z.leb Z.ltb Z.compare].
    rewrite andb_true_r. apply andb_true_iff; split; [reflexivity|].
    apply wf_vector; [rewrite zlen_map; lia|].
    apply Forall_map_intro with (Q := fun m => wf_metric m = true); [|apply forallb_Forall; assumption].
    intros m Hm. split; [apply wf_metric_value; assumption|apply write_metric_ge4].
Qed.

Section ParseTL.
  Variable parse_f64 parse_u32 parse_i64 : bool -> bytes -> option Z.
  Variable lex : bytes -> option jv.
  Lemma enc_tl_head b : exists r, enc_tl b = 57 :: 2 :: 88 :: 86 :: r.
  Proof. unfold enc_tl. cbn [write]. eexists. reflexivity. Qed.
  Theorem parse_enc_tl : forall v b, wf_batch b = true ->
    parse parse_f64 parse_u32 parse_i64 lex v (enc_tl b) = {| o_fmt := FTL; o_metrics := map canon b; o_end := EDone |}.
  Proof.
    intros v b H. unfold parse. rewrite detect_documented. destruct (enc_tl_head b) as (r & E).
    assert (D : doc_format (enc_tl b) = FTL) by (rewrite E; reflexivity). rewrite D.
    rewrite E. cbn [length loop_batches]. rewrite <- E. rewrite <- (app_nil_r (enc_tl b)) at 1.
    rewrite tl_batch_enc by assumption. destruct (length r); reflexivity.
  Qed.
End ParseTL.
