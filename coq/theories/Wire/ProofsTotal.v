(* C13 — "never hangs" for the model: with the fuel the model gives its loops (a function of the packet length) no
   decoder ever answers NoFuel or Crash-free variants loop: every loop iteration consumes at least one byte. *)
From Coq Require Import ZArith List Bool Lia ZifyBool.
From SH Require Import Common.Wrap TL.Model Wire.Model Wire.Proofs Wire.ProofsPB.
Import ListNotations.
Open Scope Z_scope.

(* the result is a value satisfying P, or an error — never NoFuel, never Crash *)
Definition fine {A} (r : res A) (P : A -> Prop) : Prop :=
  match r with Ok a => P a | Err => True | Crash => False | NoFuel => False end.
Lemma fine_bind {A B} (r : res A) (f : A -> res B) (P : A -> Prop) (Q : B -> Prop) :
  fine r P -> (forall a, P a -> fine (f a) Q) -> fine (bind r f) Q.
Proof. destruct r; cbn [fine bind]; auto. Qed.
Lemma fine_weaken {A} (r : res A) (P Q : A -> Prop) : fine r P -> (forall a, P a -> Q a) -> fine r Q.
Proof. destruct r; cbn [fine]; auto. Qed.

Lemma takez_len n b a r : takez n b = Some (a, r) -> (length r <= length b)%nat /\ (1 <= n -> (length r < length b)%nat).
Proof.
  unfold takez. destruct (zlen b <? n) eqn:E; [discriminate|]. intros H. inversion H; subst.
  rewrite skipn_length. unfold zlen in E. split; lia.
Qed.

(* ---------- Protobuf ---------- *)
Lemma varint_go_spec : forall k shift b, fine (pb_varint_go k shift b) (fun p => (length (snd p) < length b)%nat).
Proof.
  induction k as [|k IH]; intros shift b; [exact I|].
  destruct b as [|x r]; [destruct k; exact I|].
  destruct k as [|k'].
  - cbn [pb_varint_go]. destruct (x <? 2); cbn [fine snd length]; [lia|exact I].
  - change (pb_varint_go (S (S k')) shift (x :: r)) with
      (if x <? 128 then Ok (x * 2 ^ shift, r)
       else do '(hi, r') <- pb_varint_go (S k') (shift + 7) r; Ok ((x - 128) * 2 ^ shift + hi, r')).
    destruct (x <? 128); [cbn [fine snd length]; lia|].
    eapply fine_bind; [apply IH|]. intros [hi r'] H. cbn [fine snd length] in *. lia.
Qed.
Lemma varint_spec b : fine (pb_varint b) (fun p => (length (snd p) < length b)%nat).
Proof. apply varint_go_spec. Qed.
Lemma tag_spec b : fine (pb_tag b) (fun p => (length (snd p) < length b)%nat).
Proof.
  unfold pb_tag. eapply fine_bind; [apply varint_spec|]. intros [x r] H. cbn [snd] in H.
  destruct (_ <? 1); cbn [fine snd]; [exact I|assumption].
Qed.
Lemma bytes_spec b : fine (pb_bytes b) (fun p => (length (snd p) < length b)%nat /\ (length (fst p) <= length b)%nat).
Proof.
  unfold pb_bytes. eapply fine_bind; [apply varint_spec|]. intros [n r] H. cbn [snd] in H.
  destruct (takez n r) as [[d r']|] eqn:E; cbn [fine fst snd]; [|exact I].
  pose proof (takez_len _ _ _ _ E) as [L _]. unfold takez in E. destruct (zlen r <? n); [discriminate|]. inversion E; subst.
  rewrite firstn_length. rewrite skipn_length in *. lia.
Qed.
Lemma fixed_spec n b : 1 <= n -> fine (pb_fixed n b) (fun p => (length (snd p) < length b)%nat).
Proof.
  intros Hn. unfold pb_fixed. destruct (takez n b) as [[x r]|] eqn:E; cbn [fine snd]; [|exact I].
  apply (takez_len _ _ _ _ E). assumption.
Qed.

Lemma skip_group_spec : forall fuel,
  (forall depth num typ b, (2 * length b + 2 <= fuel)%nat -> fine (pb_skip fuel depth num typ b) (fun r => (length r <= length b)%nat)) /\
  (forall depth num b, (2 * length b + 1 <= fuel)%nat -> fine (pb_group fuel depth num b) (fun r => (length r <= length b)%nat)).
Proof.
  induction fuel as [|f [IHs IHg]]; [split; intros; lia|]. split.
  - intros depth num typ b Hf. cbn [pb_skip].
    destruct (typ =? 0); [eapply fine_bind; [apply varint_spec|]; intros [? ?] ?; cbn [fine snd] in *; lia|].
    destruct (typ =? 5); [eapply fine_bind; [apply (fixed_spec 4); lia|]; intros [? ?] ?; cbn [fine snd] in *; lia|].
    destruct (typ =? 1); [eapply fine_bind; [apply (fixed_spec 8); lia|]; intros [? ?] ?; cbn [fine snd] in *; lia|].
    destruct (typ =? 2); [eapply fine_bind; [apply bytes_spec|]; intros [? ?] ?; cbn [fine fst snd] in *; lia|].
    destruct (typ =? 3); [|exact I]. destruct (depth <? 0); [exact I|]. apply IHg. lia.
  - intros depth num b Hf. cbn [pb_group].
    eapply fine_bind; [apply tag_spec|]. intros [[num2 typ2] r] H. cbn [snd] in H.
    destruct (typ2 =? 4); [destruct (num =? num2); cbn [fine]; [lia|exact I]|].
    eapply fine_bind; [apply IHs; lia|]. intros r' H'. cbv beta in H'.
    eapply fine_weaken; [apply IHg; lia|]. intros; cbv beta in *; lia.
Qed.
Lemma skip_field_spec num typ b : fine (pb_skip_field num typ b) (fun r => (length r <= length b)%nat).
Proof. unfold pb_skip_field, skip_fuel. apply skip_group_spec. lia. Qed.

Ltac fin IH := repeat first
  [ exact I
  | solve [apply IH; cbn [length fst snd] in *; lia]
  | match goal with
    | |- fine (if ?c then _ else _) _ => destruct c
    | |- fine (bind (pb_bytes _) _) _ => eapply fine_bind; [apply bytes_spec|]; intros [? ?] ?; cbn [fst snd] in *
    | |- fine (bind (pb_varint _) _) _ => eapply fine_bind; [apply varint_spec|]; intros [? ?] ?; cbn [fst snd] in *
    | |- fine (bind (pb_fixed 8 _) _) _ => eapply fine_bind; [apply (fixed_spec 8); lia|]; intros [? ?] ?; cbn [fst snd] in *
    | |- fine (bind (pb_skip_field _ _ _) _) _ => eapply fine_bind; [apply skip_field_spec|]; intros ? ?; cbv beta in *
    | |- fine (let '(_, _) := ?p in _) _ => destruct p
    | |- fine (let _ := _ in _) _ => cbv zeta
    end ].

Lemma entry_spec : forall fuel kv b, (length b <= fuel)%nat -> fine (pb_entry fuel kv b) (fun _ => True).
Proof.
  induction fuel as [|f IH]; intros kv b Hf.
  - destruct b; [exact I|cbn in Hf; lia].
  - destruct b as [|x b]; [exact I|]. rewrite pb_entry_S.
    eapply fine_bind; [apply tag_spec|]. intros [[fn t] r] H. cbn [snd length] in *. unfold entry_body. fin IH.
Qed.
Lemma centroid_spec : forall fuel c b, (length b <= fuel)%nat -> fine (pb_centroid fuel c b) (fun _ => True).
Proof.
  induction fuel as [|f IH]; intros c b Hf.
  - destruct b; [exact I|cbn in Hf; lia].
  - destruct b as [|x b]; [exact I|]. rewrite pb_centroid_S.
    eapply fine_bind; [apply tag_spec|]. intros [[fn t] r] H. cbn [snd length] in *. unfold centroid_body. fin IH.
Qed.
Lemma metric_spec v : forall fuel m b, (length b <= fuel)%nat -> fine (pb_metric v fuel m b) (fun _ => True).
Proof.
  induction fuel as [|f IH]; intros m b Hf.
  - destruct b; [exact I|cbn in Hf; lia].
  - destruct b as [|x b]; [exact I|]. rewrite pb_metric_S.
    eapply fine_bind; [apply tag_spec|]. intros [[fn t] r] H. cbn [snd length] in *. unfold metric_body.
    repeat first
    [ exact I
    | solve [apply IH; cbn [length fst snd] in *; lia]
    | match goal with
      | |- fine (if ?c then _ else _) _ => destruct c
      | |- fine (bind (pb_bytes _) _) _ => eapply fine_bind; [apply bytes_spec|]; intros [? ?] ?; cbn [fst snd] in *
      | |- fine (bind (pb_varint _) _) _ => eapply fine_bind; [apply varint_spec|]; intros [? ?] ?; cbn [fst snd] in *
      | |- fine (bind (pb_fixed 8 _) _) _ => eapply fine_bind; [apply (fixed_spec 8); lia|]; intros [? ?] ?; cbn [fst snd] in *
      | |- fine (bind (pb_skip_field _ _ _) _) _ => eapply fine_bind; [apply skip_field_spec|]; intros ? ?; cbv beta in *
      | |- fine (bind (pb_entry _ _ _) _) _ => eapply fine_bind; [apply entry_spec; lia|]; intros ? _
      | |- fine (bind (pb_centroid _ _ _) _) _ => eapply fine_bind; [apply centroid_spec; lia|]; intros ? _
      | |- fine (let '(_, _) := ?p in _) _ => destruct p
      | |- fine (let _ := _ in _) _ => cbv zeta
      | |- fine (pb_metric _ _ _ (if ?c then _ else _)) _ => destruct c
      end ].
Qed.

Theorem pb_batch_total v : forall fuel ms b, (length b <= fuel)%nat -> pb_batch v fuel ms b <> PbNoFuel.
Proof.
  induction fuel as [|f IH]; intros ms b Hf.
  - destruct b; [discriminate|cbn in Hf; lia].
  - destruct b as [|x b]; [discriminate|]. rewrite pb_batch_S.
    pose proof (tag_spec (x :: b)) as T. destruct (pb_tag (x :: b)) as [[[fn t] r]| | |]; cbn [fine snd length] in T; try contradiction; try discriminate.
    destruct ((fn =? 13337) && (t =? 2)).
    + pose proof (bytes_spec r) as B. destruct (pb_bytes r) as [[d r']| | |]; cbn [fine fst snd] in B; try contradiction; try discriminate.
      pose proof (metric_spec v (length d) dzero d (le_n _)) as M.
      destruct (pb_metric v (length d) dzero d); cbn [fine] in M; try contradiction; try discriminate.
      apply IH. cbn [length] in *. lia.
    + pose proof (skip_field_spec fn t r) as S. destruct (pb_skip_field fn t r); cbn [fine] in S; try contradiction; try discriminate.
      apply IH. cbn [length] in *. lia.
Qed.

(* ---------- parser.parse: the Protobuf, JSON, legacy and empty branches never run out of fuel ---------- *)
Section ParseTotal.
  Variable parse_f64 parse_u32 parse_i64 : bool -> bytes -> option Z.
  Variable lex : bytes -> option jv.
  Theorem parse_total_pb_json : forall v pkt,
    detect pkt <> FTL -> detect pkt <> FMsgpack ->
    o_end (parse parse_f64 parse_u32 parse_i64 lex v pkt) <> ENoFuel /\
    o_end (parse parse_f64 parse_u32 parse_i64 lex v pkt) <> ECrash.
  Proof.
    intros v pkt H1 H2. unfold parse. destruct (detect pkt); try congruence; cbn [o_end]; try (split; congruence).
    - destruct (lex pkt); [destruct (j_batch _ _ _ _)|]; cbn [o_end]; unfold report; destruct (zlen pkt =? 0); split; congruence.
    - pose proof (pb_batch_total v (length pkt) [] pkt (le_n _)) as T.
      destruct (pb_batch v (length pkt) [] pkt); cbn [o_end]; try congruence; unfold report;
        try match goal with |- context [if (zlen ?c =? 0) then _ else _] => destruct (zlen c =? 0) end; split; congruence.
  Qed.
End ParseTotal.

(* ---------- TCP framing: every iteration of receiveLoop's inner loop consumes at least the 4 header bytes,
   so the model's fuel (the stream length) is never the reason it stops ---------- *)
Lemma frames_fuel_any : forall f1 f2 s, (length s <= f1)%nat -> (length s <= f2)%nat -> frames f1 s = frames f2 s.
Proof.
  induction f1 as [|f1 IH]; intros f2 s H1 H2.
  - destruct s; [destruct f2; reflexivity|cbn in H1; lia].
  - destruct f2 as [|f2]; [destruct s; [reflexivity|cbn in H2; lia]|].
    cbn [frames].
    destruct (takez 4 s) as [[h r]|] eqn:E4; [|reflexivity].
    destruct (max_frame_body <? le_dec h); [reflexivity|].
    destruct (takez (le_dec h) r) as [[body r']|] eqn:Eb; [|reflexivity].
    pose proof (takez_len _ _ _ _ E4) as [_ L4]. specialize (L4 ltac:(lia)).
    pose proof (takez_len _ _ _ _ Eb) as [Lb _].
    rewrite (IH f2 r') by lia. reflexivity.
Qed.
Theorem frames_fuel_enough : forall fuel s, (length s <= fuel)%nat -> frames fuel s = frames (length s) s.
Proof. intros. apply frames_fuel_any; lia. Qed.
