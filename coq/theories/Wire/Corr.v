(* Correspondence cases for C13: packets given to the real parser.parse (through a recording Handler) with what it
   did, replayed through the model. *)
From Coq Require Import ZArith List Bool.
From SH Require Import Common.Wrap Common.Corr TL.Model Wire.Model.
Import ListNotations.
Open Scope Z_scope.

(* bytes as ONE hexadecimal number literal 0x1<hex digits> (the cheapest form to parse; the leading 1 keeps
   leading zero bytes) *)
Fixpoint hx_go (fuel : nat) (z : Z) (acc : bytes) : bytes :=
  match fuel with
  | O => acc
  | S f => if z <=? 1 then acc else hx_go f (z / 256) ((z mod 256) :: acc)
  end.
Definition hx (z : Z) : bytes := hx_go (Z.to_nat (Z.log2 z / 8 + 1)) z [].
(* a packet: chunks of at most 200 bytes *)
Definition hxs (l : list Z) : bytes := flat_map hx l.

Definition list_eqb {A} (e : A -> A -> bool) : list A -> list A -> bool :=
  fix go a b := match a, b with [] , [] => true | x :: a', y :: b' => e x y && go a' b' | _, _ => false end.
Definition pair_eqb {A B} (ea : A -> A -> bool) (eb : B -> B -> bool) (x y : A * B) : bool := ea (fst x) (fst y) && eb (snd x) (snd y).
Definition dmetric_eqb (a b : dmetric) : bool :=
  (d_mask a =? d_mask b) && bytes_eqb (d_name a) (d_name b)
  && list_eqb (pair_eqb bytes_eqb bytes_eqb) (d_tags a) (d_tags b)
  && (d_counter a =? d_counter b) && (d_ts a =? d_ts b)
  && list_eqb Z.eqb (d_value a) (d_value b) && list_eqb Z.eqb (d_unique a) (d_unique b)
  && list_eqb (pair_eqb Z.eqb Z.eqb) (d_hist a) (d_hist b).
Definition wfmt_eqb (a b : wfmt) : bool :=
  match a, b with
  | FEmpty, FEmpty | FTL, FTL | FJSON, FJSON | FLegacy, FLegacy | FMsgpack, FMsgpack | FProtobuf, FProtobuf => true
  | _, _ => false
  end.
Definition ending_eqb (a b : ending) : bool :=
  match a, b with
  | EDone, EDone | ESilent, ESilent | ECrash, ECrash => true
  | EParseError x, EParseError y => x =? y
  | _, _ => false
  end.

(* compact constructors for the printed terms *)
Definition D (mask : Z) (name : Z) (tags : list (Z * Z)) (c ts : Z) (vs us : list Z) (hs : list (Z * Z)) : dmetric :=
  {| d_mask := mask; d_name := hx name; d_tags := map (fun kv => (hx (fst kv), hx (snd kv))) tags;
     d_counter := c; d_ts := ts; d_value := vs; d_unique := us; d_hist := hs |}.
Definition M (name : Z) (tags : list (Z * Z)) (c ts : option Z) (vs us : option (list Z)) (hs : option (list (Z * Z))) : metric :=
  {| m_name := hx name; m_tags := map (fun kv => (hx (fst kv), hx (snd kv))) tags;
     m_counter := c; m_ts := ts; m_value := vs; m_unique := us; m_hist := hs |}.

Inductive efmt := ETL | EMP | EPB (packed : bool) | EPBMin.
(* what the real decoder delivered, relative to the reference canon(b) computed on the Go side as well *)
Inductive obs := OCanon | OList (ms : list dmetric).

(* JSON number table: (kind 0 float64 / 1 uint32 / 2 int64, quoted, text as hex, strconv's result) *)
Definition numtab := list (Z * bool * Z * option Z).
Definition dtab := list (Z * bool * bytes * option Z).
Definition decode_tab (tab : numtab) : dtab := map (fun e => match e with (k, q, s, r) => (k, q, hx s, r) end) tab.
Definition lookup (tab : dtab) (kind : Z) (quoted : bool) (t : bytes) : option Z :=
  match find (fun e => match e with (k, q, s, _) => (k =? kind) && Bool.eqb q quoted && bytes_eqb s t end) tab with
  | Some (_, _, _, r) => r
  | None => None
  end.
(* JSON tree with hex strings *)
Inductive jt := TNum (s : Z) | TStr (s : Z) | TArr (l : list jt) | TObj (l : list (Z * jt)) | TOther.
Fixpoint jv_of (t : jt) : jv :=
  match t with
  | TNum s => JNum (hx s) | TStr s => JStr (hx s) | TOther => JOther
  | TArr l => JArr (map jv_of l)
  | TObj l => JObj (map (fun kv => (hx (fst kv), jv_of (snd kv))) l)
  end.

Inductive piece := PB (z : Z) | PF (n b : Z).
Definition stream_of (l : list piece) : bytes :=
  flat_map (fun p => match p with PB z => hx z | PF n b => repeat b (Z.to_nat n) end) l.

Inductive case :=
(* b encoded by the reference encoder of the format on the Go side (the real TL writer, msgp appenders, protowire appenders)
   into pkt, pkt parsed by the real parser.parse *)
| CEnc (f : efmt) (b : list metric) (pkt : list Z) (o_fmt : wfmt) (o : obs) (o_end : ending)
(* any packet (Go-library encodings, malformed, hostile); limit = address space the process had *)
| CPkt (limit : Z) (pkt : list Z) (o_fmt : wfmt) (o_ms : list dmetric) (o_end : ending)
(* a JSON packet: the tree its text lexes to, strconv's verdicts on its number texts *)
| CJson (tab : numtab) (first : Z) (t : jt) (b : option (list metric)) (o : obs) (o_err : bool)
(* TCP framing: the stream written to the real receive loop (pieces: literal bytes / n copies of a byte), the body
   lengths of the frames handed on, whether a framing error was accounted *)
| CFrames (s : list piece) (lens : list Z) (err : bool).

Definition no_lex (_ : bytes) : option jv := None.
Definition no_num (_ : bool) (_ : bytes) : option Z := None.
Definition run (v : variant) (pkt : bytes) : outcome := parse no_num no_num no_num no_lex v pkt.

Definition outcome_is (r : outcome) (f : wfmt) (ms : list dmetric) (e : ending) : bool :=
  wfmt_eqb (o_fmt r) f && list_eqb dmetric_eqb (o_metrics r) ms && ending_eqb (o_end r) e.

Definition big_limit : Z := 2 ^ 40.

Definition ok (c : case) : bool :=
  match c with
  | CEnc f b pkt ofmt o oend =>
      let bs := hxs pkt in
      let enc := match f with ETL => enc_tl b | EMP => enc_mp b | EPB p => enc_pb p b | EPBMin => enc_pb_min b end in
      let ms := match o with OCanon => map canon b | OList l => l end in
      bytes_eqb enc bs
      && (outcome_is (run (faithful big_limit) bs) ofmt ms oend || outcome_is (run repaired bs) ofmt ms oend)
  | CPkt limit pkt ofmt ms oend =>
      let bs := hxs pkt in
      outcome_is (run (faithful limit) bs) ofmt ms oend || outcome_is (run repaired bs) ofmt ms oend
  | CJson tab first t b o oerr =>
      let tree := jv_of t in
      let tab := decode_tab tab in
      let ms := match o, b with OCanon, Some b' => map canon b' | OList l, _ => l | _, _ => [] end in
      wfmt_eqb (detect [first]) FJSON
      && match j_batch (lookup tab 0) (lookup tab 1) (lookup tab 2) tree with
         | Ok r => negb oerr && list_eqb dmetric_eqb r ms
         | _ => oerr
         end
      && match b with
         | Some b' => (* the tree is what the model's JSON encoder yields, up to the number printer *)
             match enc_json (fun _ => []) (fun _ => []) (fun _ => []) b', tree with
             | JObj [(k1, JArr l1)], JObj [(k2, JArr l2)] => bytes_eqb k1 k2 && Nat.eqb (List.length l1) (List.length l2)
             | _, _ => false
             end
         | None => true
         end
  | CFrames s lens err =>
      let bs := stream_of s in
      let '(fs, e) := frames (List.length bs) bs in
      list_eqb Z.eqb (map (fun f => zlen f) fs) lens && Bool.eqb e err
  end.

Definition mism := mismatches ok.
