(* C13 — Protobuf: the decoder of protobuf.go (over the protowire readers) applied to the model encoders
   (explicit fields packed / unpacked, proto3-minimal) returns the encoded batch. *)
From Coq Require Import ZArith List Bool Lia ZifyBool.
From SH Require Import Common.Wrap TL.Model TL.Proofs Wire.Model Wire.Proofs.
Import ListNotations.
Open Scope Z_scope.

(* ---------- protowire primitives ---------- *)
Lemma pb_varint_go_enc : forall n x shift r, 0 <= shift -> 0 <= x < 2 * 128 ^ Z.of_nat n ->
  pb_varint_go (S n) shift (pbe_varint_go n x ++ r) = Ok (x * 2 ^ shift, r).
Proof.
  induction n as [|n IH]; intros x shift r Hs Hx.
  - cbn [pbe_varint_go app pb_varint_go]. change (128 ^ Z.of_nat 0) with 1 in Hx.
    rewrite Z.mod_small by lia. destruct (x <? 2) eqn:E; [reflexivity|lia].
  - cbn [pbe_varint_go]. destruct (x <? 128) eqn:E.
    + cbn [app pb_varint_go]. rewrite E. reflexivity.
    + cbn [app]. change (pb_varint_go (S (S n)) shift ((128 + x mod 128) :: pbe_varint_go n (x / 128) ++ r))
        with (if 128 + x mod 128 <? 128 then Ok ((128 + x mod 128) * 2 ^ shift, pbe_varint_go n (x / 128) ++ r)
              else do '(hi, r') <- pb_varint_go (S n) (shift + 7) (pbe_varint_go n (x / 128) ++ r);
                   Ok ((128 + x mod 128 - 128) * 2 ^ shift + hi, r')).
      pose proof (Z.mod_pos_bound x 128 ltac:(lia)).
      destruct (128 + x mod 128 <? 128) eqn:E2; [lia|].
      rewrite IH.
      * cbn [bind]. f_equal. f_equal. rewrite Z.pow_add_r by lia. change (2 ^ 7) with 128.
        pose proof (Z.div_mod x 128 ltac:(lia)). nia.
      * lia.
      * split; [apply Z.div_pos; lia|]. apply Z.div_lt_upper_bound; [lia|].
        rewrite Nat2Z.inj_succ, Z.pow_succ_r in Hx by lia. lia.
Qed.

Lemma pb_varint_enc x r : 0 <= x < two64 -> pb_varint (pbe_varint x ++ r) = Ok (x, r).
Proof.
  intros H. unfold pb_varint, pbe_varint. rewrite pb_varint_go_enc; [|lia|].
  - rewrite Z.mul_1_r. reflexivity.
  - unfold two64 in H. change (2 * 128 ^ Z.of_nat 9) with 18446744073709551616. lia.
Qed.

Lemma pbe_varint_nonempty x : exists y l, pbe_varint x = y :: l.
Proof. unfold pbe_varint. cbn [pbe_varint_go]. destruct (x <? 128); eauto. Qed.

Lemma pb_tag_enc fn t r : 1 <= fn <= 2147483647 -> 0 <= t < 8 -> pb_tag (pbe_tag fn t ++ r) = Ok ((fn, t), r).
Proof.
  intros Hf Ht. unfold pb_tag, pbe_tag. rewrite pb_varint_enc by (unfold two64; lia). cbn [bind].
  replace ((fn * 8 + t) / 8) with fn by (apply Z.div_unique with t; lia).
  replace ((fn * 8 + t) mod 8) with t by (apply Z.mod_unique with fn; lia).
  destruct (2147483647 <? fn) eqn:E; [lia|]. destruct (fn <? 1) eqn:E2; [lia|]. reflexivity.
Qed.

Lemma pb_bytes_enc d r : zlen d < two64 -> pb_bytes (pbe_varint (zlen d) ++ d ++ r) = Ok (d, r).
Proof.
  intros H. unfold pb_bytes. pose proof (zlen_nonneg d). rewrite pb_varint_enc by lia. cbn [bind].
  rewrite takez_app. reflexivity.
Qed.

Lemma pb_fixed8_enc x r : 0 <= x < two64 -> pb_fixed 8 (le_enc 8 x ++ r) = Ok (x, r).
Proof. intros H. unfold pb_fixed. rewrite takez_le8. rewrite le8 by assumption. reflexivity. Qed.

Lemma pbe_len_eq fn d : pbe_len fn d = pbe_tag fn 2 ++ pbe_varint (zlen d) ++ d.
Proof. reflexivity. Qed.

Lemma pbe_tag_nonempty fn t : exists y l, pbe_tag fn t = y :: l.
Proof. apply pbe_varint_nonempty. Qed.

(* ---------- one loop iteration of each message reader ---------- *)
Definition entry_body (k : bytes * bytes -> bytes -> res (bytes * bytes)) (kv : bytes * bytes) (fn t : Z) (r : bytes) :=
  if (fn =? 1) && (t =? 2) then do '(s, r') <- pb_bytes r; k (s, snd kv) r'
  else if (fn =? 2) && (t =? 2) then do '(s, r') <- pb_bytes r; k (fst kv, s) r'
  else do r' <- pb_skip_field fn t r; k kv r'.
Lemma pb_entry_S f kv x b : pb_entry (S f) kv (x :: b) = (do '((fn, t), r) <- pb_tag (x :: b); entry_body (pb_entry f) kv fn t r).
Proof. reflexivity. Qed.
Lemma pb_entry_nil f kv : pb_entry f kv [] = Ok kv.
Proof. destruct f; reflexivity. Qed.

Definition centroid_body (k : Z * Z -> bytes -> res (Z * Z)) (c : Z * Z) (fn t : Z) (r : bytes) :=
  if (fn =? 1) && (t =? 1) then do '(x, r') <- pb_fixed 8 r; k (x, snd c) r'
  else if (fn =? 2) && (t =? 1) then do '(x, r') <- pb_fixed 8 r; k (fst c, x) r'
  else do r' <- pb_skip_field fn t r; k c r'.
Lemma pb_centroid_S f c x b : pb_centroid (S f) c (x :: b) = (do '((fn, t), r) <- pb_tag (x :: b); centroid_body (pb_centroid f) c fn t r).
Proof. reflexivity. Qed.
Lemma pb_centroid_nil f c : pb_centroid f c [] = Ok c.
Proof. destruct f; reflexivity. Qed.

Definition metric_body (v : variant) (k : dmetric -> bytes -> res dmetric) (m : dmetric) (fn t : Z) (r : bytes) : res dmetric :=
  if (fn =? 1) && (t =? 2) then do '(s, r') <- pb_bytes r; k (set_name s m) r'
  else if (fn =? 2) && (t =? 2) then
    do '(d, r') <- pb_bytes r; do kv <- pb_entry (length d) ([], []) d;
    k (set_tags (d_tags m ++ [kv]) m) r'
  else if (fn =? 3) && (t =? 1) then do '(x, r') <- pb_fixed 8 r; k (set_counter x m) r'
  else if (fn =? 4) && (t =? 0) then
    do '(x, r') <- pb_varint r;
    let ts := i64 x in if (ts <? 0) || (4294967295 <? ts) then Err else k (set_ts ts m) r'
  else if (fn =? 5) && (t =? 2) then
    do '(d, r') <- pb_bytes r;
    if negb (zlen d mod 8 =? 0) then Err
    else k (set_value (d_value m ++ pb_packed_f64 (length d) d) m) r'
  else if (fn =? 5) && (t =? 1) then do '(x, r') <- pb_fixed 8 r; k (set_value (d_value m ++ [x]) m) r'
  else if (fn =? 6) && (t =? 2) then
    do '(d, r') <- pb_bytes r;
    let '(xs, ok) := pb_packed_varint (length d) d in
    k (set_unique (d_unique m ++ xs) m) (if ok then r' else r)
  else if (fn =? 6) && (t =? v_pb_unique_wt v) then
    do '(x, r') <- pb_varint r; k (set_unique (d_unique m ++ [i64 x]) m) r'
  else if (fn =? 7) && (t =? 2) then
    do '(d, r') <- pb_bytes r; do c <- pb_centroid (length d) (0, 0) d;
    k (set_hist (d_hist m ++ [c]) m) r'
  else do r' <- pb_skip_field fn t r; k m r'.
Lemma pb_metric_S v f m x b : pb_metric v (S f) m (x :: b) = (do '((fn, t), r) <- pb_tag (x :: b); metric_body v (pb_metric v f) m fn t r).
Proof. reflexivity. Qed.
Lemma pb_metric_nil v f m : pb_metric v f m [] = Ok m.
Proof. destruct f; reflexivity. Qed.

(* a field: tag ++ payload; stepping over it *)
Lemma step_tag {A} (rd : bytes -> res A) fn t payload rest (body : Z -> Z -> bytes -> res A) :
  1 <= fn <= 2147483647 -> 0 <= t < 8 ->
  (forall x b, rd (x :: b) = (do '((fn', t'), r) <- pb_tag (x :: b); body fn' t' r)) ->
  rd ((pbe_tag fn t ++ payload) ++ rest) = body fn t (payload ++ rest).
Proof.
  intros Hf Ht Hrd. rewrite <- app_assoc. destruct (pbe_tag_nonempty fn t) as (y & l & E).
  rewrite E at 1. cbn [app]. rewrite Hrd. rewrite app_comm_cons, <- E.
  rewrite pb_tag_enc by assumption. reflexivity.
Qed.

(* ---------- packed payloads ---------- *)
Lemma pb_packed_f64_enc : forall l fuel, Forall (fun x => 0 <= x < two64) l -> (length l <= fuel)%nat ->
  pb_packed_f64 fuel (flat_map (le_enc 8) l) = l.
Proof.
  induction l as [|x l IH]; intros fuel HP Hf.
  - destruct fuel; reflexivity.
  - inversion HP; subst. destruct fuel as [|f]; [cbn in Hf; lia|].
    cbn [flat_map pb_packed_f64]. rewrite takez_le8. rewrite le8 by assumption. rewrite IH by (try assumption; cbn in Hf; lia).
    reflexivity.
Qed.
Lemma flat_le8_len l : length (flat_map (le_enc 8) l) = (8 * length l)%nat.
Proof. induction l; cbn [flat_map length]; [reflexivity|]. rewrite app_length, le_enc_length. lia. Qed.

Lemma pb_packed_varint_enc : forall l fuel, Forall (fun x => - two63 <= x < two63) l -> (length l <= fuel)%nat ->
  pb_packed_varint fuel (flat_map (fun x => pbe_varint (u64 x)) l) = (l, true).
Proof.
  induction l as [|x l IH]; intros fuel HP Hf.
  - destruct fuel; reflexivity.
  - inversion HP; subst. destruct fuel as [|f]; [cbn in Hf; lia|].
    cbn [flat_map]. destruct (pbe_varint_nonempty (u64 x)) as (y & t & E).
    assert (Hu : 0 <= u64 x < two64) by (unfold u64; apply Z.mod_pos_bound; unfold two64; lia).
    rewrite E at 1. cbn [app pb_packed_varint]. rewrite app_comm_cons, <- E. rewrite pb_varint_enc by assumption.
    rewrite IH by (try assumption; cbn in Hf; lia). rewrite i64_u64 by assumption. reflexivity.
Qed.
Lemma flat_varint_len l : (length l <= length (flat_map (fun x => pbe_varint (u64 x)) l))%nat.
Proof.
  induction l; cbn [flat_map length]; [lia|]. rewrite app_length.
  destruct (pbe_varint_nonempty (u64 a)) as (y & t & E). rewrite E. cbn [length]. lia.
Qed.

(* ---------- map entries and centroids ---------- *)
Lemma pbe_len_len2 fn d rest : exists n, length (pbe_len fn d ++ rest) = S (S n).
Proof.
  rewrite pbe_len_eq. destruct (pbe_tag_nonempty fn 2) as (y & l & E). destruct (pbe_varint_nonempty (zlen d)) as (y' & l' & E').
  rewrite E, E'. cbn [app length]. rewrite !app_length. cbn [length]. eexists. rewrite <- plus_n_Sm. reflexivity.
Qed.

Lemma entry_step1 f kv s rest : zlen s < two64 -> pb_entry (S f) kv (pbe_len 1 s ++ rest) = pb_entry f (s, snd kv) rest.
Proof.
  intros H. change (pbe_len 1 s) with (pbe_tag 1 2 ++ (pbe_varint (zlen s) ++ s)).
  rewrite (step_tag (pb_entry (S f) kv) 1 2 _ rest (entry_body (pb_entry f) kv)) by (try lia; intros; apply pb_entry_S).
  unfold entry_body. cbn [Z.eqb Pos.eqb andb]. rewrite <- app_assoc. rewrite pb_bytes_enc by assumption. reflexivity.
Qed.
Lemma entry_step2 f kv s rest : zlen s < two64 -> pb_entry (S f) kv (pbe_len 2 s ++ rest) = pb_entry f (fst kv, s) rest.
Proof.
  intros H. change (pbe_len 2 s) with (pbe_tag 2 2 ++ (pbe_varint (zlen s) ++ s)).
  rewrite (step_tag (pb_entry (S f) kv) 2 2 _ rest (entry_body (pb_entry f) kv)) by (try lia; intros; apply pb_entry_S).
  unfold entry_body. cbn [Z.eqb Pos.eqb andb]. rewrite <- app_assoc. rewrite pb_bytes_enc by assumption. reflexivity.
Qed.

Definition enc_entry (minimal : bool) (kv : bytes * bytes) : bytes :=
  if minimal then pbe_str 1 (fst kv) ++ pbe_str 2 (snd kv) else pbe_len 1 (fst kv) ++ pbe_len 2 (snd kv).

Lemma pb_entry_enc minimal kv : zlen (fst kv) < two64 -> zlen (snd kv) < two64 ->
  pb_entry (length (enc_entry minimal kv)) ([], []) (enc_entry minimal kv) = Ok kv.
Proof.
  destruct kv as [k v]. cbn [fst snd]. intros Hk Hv. unfold enc_entry.
  assert (Full : pb_entry (length (pbe_len 1 k ++ pbe_len 2 v)) ([], []) (pbe_len 1 k ++ pbe_len 2 v) = Ok (k, v)).
  { destruct (pbe_len_len2 1 k (pbe_len 2 v)) as (n & E). rewrite E. rewrite entry_step1 by assumption.
    rewrite <- (app_nil_r (pbe_len 2 v)). rewrite entry_step2 by assumption. apply pb_entry_nil. }
  destruct minimal; [|exact Full].
  destruct k as [|k0 k'], v as [|v0 v']; unfold pbe_str; cbn [fst snd].
  - reflexivity.
  - cbn [app]. destruct (pbe_len_len2 2 (v0 :: v') []) as (n & E). rewrite app_nil_r in E. rewrite E.
    rewrite <- (app_nil_r (pbe_len 2 (v0 :: v'))). rewrite entry_step2 by assumption. apply pb_entry_nil.
  - rewrite app_nil_r. destruct (pbe_len_len2 1 (k0 :: k') []) as (n & E). rewrite app_nil_r in E. rewrite E.
    rewrite <- (app_nil_r (pbe_len 1 (k0 :: k'))). rewrite entry_step1 by assumption. apply pb_entry_nil.
  - exact Full.
Qed.

Lemma centroid_step1 f c x rest : 0 <= x < two64 ->
  pb_centroid (S f) c ((pbe_tag 1 1 ++ le_enc 8 x) ++ rest) = pb_centroid f (x, snd c) rest.
Proof.
  intros H. rewrite (step_tag (pb_centroid (S f) c) 1 1 _ rest (centroid_body (pb_centroid f) c)) by (try lia; intros; apply pb_centroid_S).
  unfold centroid_body. cbn [Z.eqb Pos.eqb andb]. rewrite pb_fixed8_enc by assumption. reflexivity.
Qed.
Lemma centroid_step2 f c x rest : 0 <= x < two64 ->
  pb_centroid (S f) c ((pbe_tag 2 1 ++ le_enc 8 x) ++ rest) = pb_centroid f (fst c, x) rest.
Proof.
  intros H. rewrite (step_tag (pb_centroid (S f) c) 2 1 _ rest (centroid_body (pb_centroid f) c)) by (try lia; intros; apply pb_centroid_S).
  unfold centroid_body. cbn [Z.eqb Pos.eqb andb]. rewrite pb_fixed8_enc by assumption. reflexivity.
Qed.

Definition enc_centroid (minimal : bool) (p : Z * Z) : bytes :=
  if minimal then pbe_f64nz 1 (fst p) ++ pbe_f64nz 2 (snd p)
  else pbe_tag 1 1 ++ le_enc 8 (fst p) ++ pbe_tag 2 1 ++ le_enc 8 (snd p).

Lemma f64_field_len fn x rest : exists n, length ((pbe_tag fn 1 ++ le_enc 8 x) ++ rest) = S (S n).
Proof.
  destruct (pbe_tag_nonempty fn 1) as (y & l & E). rewrite E. cbn [app length]. rewrite !app_length, le_enc_length.
  eexists. rewrite <- !plus_n_Sm. reflexivity.
Qed.

Lemma pb_centroid_enc minimal p : 0 <= fst p < two64 -> 0 <= snd p < two64 ->
  pb_centroid (length (enc_centroid minimal p)) (0, 0) (enc_centroid minimal p) = Ok p.
Proof.
  destruct p as [a b]. cbn [fst snd]. intros Ha Hb. unfold enc_centroid. cbn [fst snd].
  assert (Full : forall a b, 0 <= a < two64 -> 0 <= b < two64 ->
            pb_centroid (length ((pbe_tag 1 1 ++ le_enc 8 a) ++ (pbe_tag 2 1 ++ le_enc 8 b))) (0, 0)
                        ((pbe_tag 1 1 ++ le_enc 8 a) ++ (pbe_tag 2 1 ++ le_enc 8 b)) = Ok (a, b)).
  { intros a' b' Ha' Hb'. destruct (f64_field_len 1 a' (pbe_tag 2 1 ++ le_enc 8 b')) as (n & E). rewrite E.
    rewrite centroid_step1 by assumption. rewrite <- (app_nil_r (pbe_tag 2 1 ++ le_enc 8 b')).
    rewrite centroid_step2 by assumption. apply pb_centroid_nil. }
  destruct minimal.
  - unfold pbe_f64nz. destruct (a =? 0) eqn:Ea, (b =? 0) eqn:Eb.
    + assert (a = 0) by lia. assert (b = 0) by lia. subst. reflexivity.
    + assert (a = 0) by lia. subst. cbn [app]. destruct (f64_field_len 2 b []) as (n & E). rewrite app_nil_r in E. rewrite E.
      rewrite <- (app_nil_r (pbe_tag 2 1 ++ le_enc 8 b)). rewrite centroid_step2 by assumption. apply pb_centroid_nil.
    + assert (b = 0) by lia. subst. rewrite app_nil_r. destruct (f64_field_len 1 a []) as (n & E). rewrite app_nil_r in E. rewrite E.
      rewrite <- (app_nil_r (pbe_tag 1 1 ++ le_enc 8 a)). rewrite centroid_step1 by assumption. apply pb_centroid_nil.
    + apply Full; assumption.
  - rewrite app_assoc. apply Full; assumption.
Qed.

(* ---------- metric fields ---------- *)
Definition pitem := (bytes * (dmetric -> dmetric))%type.
Definition pitem_ok (v : variant) (it : pitem) : Prop :=
  (exists y l, fst it = y :: l) /\
  forall f m rest, pb_metric v (S f) m (fst it ++ rest) = pb_metric v f (snd it m) rest.

Lemma pb_metric_items v : forall items fuel m, Forall (pitem_ok v) items -> (length items <= fuel)%nat ->
  pb_metric v fuel m (flat_map fst items) = Ok (fold_left (fun m it => snd it m) items m).
Proof.
  induction items as [|it items IH]; intros fuel m HP Hf.
  - apply pb_metric_nil.
  - inversion HP as [|? ? [_ Hs] HP']; subst. destruct fuel as [|f]; [cbn in Hf; lia|].
    cbn [flat_map fold_left]. rewrite Hs. apply IH; [assumption|cbn in Hf; lia].
Qed.
Lemma pitems_len v items : Forall (pitem_ok v) items -> (length items <= length (flat_map fst items))%nat.
Proof.
  induction 1 as [|it items [(y & l & E) _] _ IH]; cbn [flat_map length]; [lia|].
  rewrite app_length. destruct it as [bs u]. cbn [fst] in *. subst bs. cbn [length]. lia.
Qed.

Ltac mstep v f m fn t rest :=
  rewrite (step_tag (pb_metric v (S f) m) fn t _ rest (metric_body v (pb_metric v f) m)) by (try lia; intros; apply pb_metric_S);
  unfold metric_body; cbn [Z.eqb Pos.eqb andb].
Ltac nonempty_tag fn t := let E := fresh "E" in destruct (pbe_tag_nonempty fn t) as (? & ? & E); rewrite ?pbe_len_eq; rewrite E; cbn [app]; eauto.

Lemma varint_go_zlen : forall n x, zlen (pbe_varint_go n x) <= Z.of_nat n + 1.
Proof.
  induction n; intros x; cbn [pbe_varint_go]; [unfold zlen; cbn; lia|].
  destruct (x <? 128); [unfold zlen; cbn [length]; lia|]. specialize (IHn (x / 128)). unfold zlen in *. cbn [length]. lia.
Qed.
Lemma pbe_len_zlen fn d : zlen (pbe_len fn d) <= zlen d + 20.
Proof.
  rewrite pbe_len_eq, !zlen_app. unfold pbe_tag, pbe_varint.
  pose proof (varint_go_zlen 9%nat (fn * 8 + 2)). pose proof (varint_go_zlen 9%nat (zlen d)). lia.
Qed.
Lemma enc_entry_zlen minimal kv : zlen (enc_entry minimal kv) <= zlen (fst kv) + zlen (snd kv) + 40.
Proof.
  pose proof (pbe_len_zlen 1 (fst kv)). pose proof (pbe_len_zlen 2 (snd kv)).
  pose proof (zlen_nonneg (fst kv)). pose proof (zlen_nonneg (snd kv)).
  unfold enc_entry, pbe_str. destruct minimal; [destruct (fst kv) eqn:E1, (snd kv) eqn:E2|]; rewrite ?zlen_app;
    try (change (zlen (@nil Z)) with 0 in *); lia.
Qed.

Lemma i_name_ok v s : zlen s < two64 -> pitem_ok v (pbe_len 1 s, set_name s).
Proof.
  intros H. split; cbn [fst snd]; [nonempty_tag 1 2|]. intros f m rest.
  change (pbe_len 1 s) with (pbe_tag 1 2 ++ (pbe_varint (zlen s) ++ s)). mstep v f m 1 2 rest.
  rewrite <- app_assoc. rewrite pb_bytes_enc by assumption. reflexivity.
Qed.
Lemma i_tag_ok v minimal kv : zlen (fst kv) < two32 -> zlen (snd kv) < two32 ->
  pitem_ok v (pbe_len 2 (enc_entry minimal kv), fun m => set_tags (d_tags m ++ [kv]) m).
Proof.
  intros Hk Hv. split; cbn [fst snd]; [nonempty_tag 2 2|]. intros f m rest.
  change (pbe_len 2 (enc_entry minimal kv)) with (pbe_tag 2 2 ++ (pbe_varint (zlen (enc_entry minimal kv)) ++ enc_entry minimal kv)).
  mstep v f m 2 2 rest. rewrite <- app_assoc.
  pose proof (enc_entry_zlen minimal kv) as Hlen.
  assert (zlen (enc_entry minimal kv) < two64) by (unfold bytes, two32, two64 in *; lia).
  rewrite pb_bytes_enc by assumption. cbn [bind].
  rewrite pb_entry_enc by (unfold bytes, two32, two64 in *; lia). reflexivity.
Qed.
Lemma i_counter_ok v c : 0 <= c < two64 -> pitem_ok v (pbe_tag 3 1 ++ le_enc 8 c, set_counter c).
Proof.
  intros H. split; cbn [fst snd]; [nonempty_tag 3 1|]. intros f m rest. mstep v f m 3 1 rest.
  rewrite pb_fixed8_enc by assumption. reflexivity.
Qed.
Lemma i64_small t : 0 <= t < two63 -> i64 t = t.
Proof. intros. unfold i64. rewrite Z.mod_small by (unfold two63, two64 in *; lia). destruct (t <? two63) eqn:E; lia. Qed.
Lemma i_ts_ok v t : 0 <= t < two32 -> pitem_ok v (pbe_tag 4 0 ++ pbe_varint t, set_ts t).
Proof.
  intros H. split; cbn [fst snd]; [nonempty_tag 4 0|]. intros f m rest. mstep v f m 4 0 rest.
  rewrite pb_varint_enc by (unfold two32, two64 in *; lia). cbn [bind].
  rewrite i64_small by (unfold two32, two63 in *; lia). unfold two32 in H.
  destruct ((t <? 0) || (4294967295 <? t)) eqn:E; [lia|reflexivity].
Qed.
Lemma i_valp_ok v l : Forall (fun x => 0 <= x < two64) l -> zlen l < two32 ->
  pitem_ok v (pbe_len 5 (flat_map (le_enc 8) l), fun m => set_value (d_value m ++ l) m).
Proof.
  intros HP Hl. split; cbn [fst snd]; [nonempty_tag 5 2|]. intros f m rest.
  change (pbe_len 5 (flat_map (le_enc 8) l)) with (pbe_tag 5 2 ++ (pbe_varint (zlen (flat_map (le_enc 8) l)) ++ flat_map (le_enc 8) l)).
  mstep v f m 5 2 rest. rewrite <- app_assoc.
  assert (E : zlen (flat_map (le_enc 8) l) = 8 * zlen l) by (unfold zlen; rewrite flat_le8_len; lia).
  rewrite pb_bytes_enc by (rewrite E; unfold two32, two64 in *; lia). cbn [bind].
  rewrite E. replace (8 * zlen l mod 8) with 0 by (rewrite Z.mul_comm, Z.mod_mul; lia). cbn [Z.eqb negb].
  rewrite pb_packed_f64_enc by (try assumption; rewrite flat_le8_len; lia). reflexivity.
Qed.
Lemma i_val1_ok v x : 0 <= x < two64 -> pitem_ok v (pbe_tag 5 1 ++ le_enc 8 x, fun m => set_value (d_value m ++ [x]) m).
Proof.
  intros H. split; cbn [fst snd]; [nonempty_tag 5 1|]. intros f m rest. mstep v f m 5 1 rest.
  rewrite pb_fixed8_enc by assumption. reflexivity.
Qed.
Lemma flat_varint_zlen l : zlen (flat_map (fun x => pbe_varint (u64 x)) l) <= 10 * zlen l.
Proof.
  induction l as [|a l IH]; cbn [flat_map]; [unfold zlen; cbn; lia|]. rewrite zlen_app.
  pose proof (varint_go_zlen 9%nat (u64 a)) as V. change (pbe_varint_go 9 (u64 a)) with (pbe_varint (u64 a)) in V.
  replace (zlen (a :: l)) with (zlen l + 1) by (unfold zlen; cbn [length]; lia). lia.
Qed.
Lemma i_unip_ok v l : Forall (fun x => - two63 <= x < two63) l -> zlen l < two32 ->
  pitem_ok v (pbe_len 6 (flat_map (fun x => pbe_varint (u64 x)) l), fun m => set_unique (d_unique m ++ l) m).
Proof.
  intros HP Hl. split; cbn [fst snd]; [nonempty_tag 6 2|]. intros f m rest.
  set (d := flat_map (fun x => pbe_varint (u64 x)) l).
  change (pbe_len 6 d) with (pbe_tag 6 2 ++ (pbe_varint (zlen d) ++ d)).
  mstep v f m 6 2 rest. rewrite <- app_assoc.
  pose proof (flat_varint_zlen l). fold d in H.
  rewrite pb_bytes_enc by (unfold two32, two64 in *; lia). cbn [bind].
  unfold d. rewrite pb_packed_varint_enc by (try assumption; apply flat_varint_len). reflexivity.
Qed.
Lemma i_uni1_ok v x : v_pb_unique_wt v = 0 -> - two63 <= x < two63 ->
  pitem_ok v (pbe_tag 6 0 ++ pbe_varint (u64 x), fun m => set_unique (d_unique m ++ [x]) m).
Proof.
  intros Hwt H. split; cbn [fst snd]; [nonempty_tag 6 0|]. intros f m rest. mstep v f m 6 0 rest.
  rewrite Hwt. cbn [Z.eqb andb].
  rewrite pb_varint_enc by (unfold u64; apply Z.mod_pos_bound; unfold two64; lia). cbn [bind].
  rewrite i64_u64 by assumption. reflexivity.
Qed.
Lemma i_hist_ok v minimal p : 0 <= fst p < two64 -> 0 <= snd p < two64 ->
  pitem_ok v (pbe_len 7 (enc_centroid minimal p), fun m => set_hist (d_hist m ++ [p]) m).
Proof.
  intros Ha Hb. split; cbn [fst snd]; [nonempty_tag 7 2|]. intros f m rest.
  change (pbe_len 7 (enc_centroid minimal p)) with (pbe_tag 7 2 ++ (pbe_varint (zlen (enc_centroid minimal p)) ++ enc_centroid minimal p)).
  mstep v f m 7 2 rest. rewrite <- app_assoc.
  assert (zlen (enc_centroid minimal p) <= 40).
  { unfold enc_centroid, pbe_f64nz, pbe_tag, pbe_varint. cbn [pbe_varint_go Z.mul Z.add Pos.mul Pos.add Z.ltb Z.compare Pos.compare Pos.compare_cont].
    destruct minimal; [destruct (fst p =? 0), (snd p =? 0)|]; rewrite ?zlen_app; unfold zlen; cbn [app length]; rewrite ?app_length, ?le_enc_length; cbn [length]; lia. }
  rewrite pb_bytes_enc by (unfold two64; lia). cbn [bind].
  rewrite pb_centroid_enc by assumption. reflexivity.
Qed.

(* ---------- the encoders as field lists ---------- *)
Definition i_name (s : bytes) : pitem := (pbe_len 1 s, set_name s).
Definition i_tag (minimal : bool) (kv : bytes * bytes) : pitem := (pbe_len 2 (enc_entry minimal kv), fun m => set_tags (d_tags m ++ [kv]) m).
Definition i_counter (c : Z) : pitem := (pbe_tag 3 1 ++ le_enc 8 c, set_counter c).
Definition i_ts (t : Z) : pitem := (pbe_tag 4 0 ++ pbe_varint t, set_ts t).
Definition i_valp (l : list Z) : pitem := (pbe_len 5 (flat_map (le_enc 8) l), fun m => set_value (d_value m ++ l) m).
Definition i_val1 (x : Z) : pitem := (pbe_tag 5 1 ++ le_enc 8 x, fun m => set_value (d_value m ++ [x]) m).
Definition i_unip (l : list Z) : pitem := (pbe_len 6 (flat_map (fun x => pbe_varint (u64 x)) l), fun m => set_unique (d_unique m ++ l) m).
Definition i_uni1 (x : Z) : pitem := (pbe_tag 6 0 ++ pbe_varint (u64 x), fun m => set_unique (d_unique m ++ [x]) m).
Definition i_hist (minimal : bool) (p : Z * Z) : pitem := (pbe_len 7 (enc_centroid minimal p), fun m => set_hist (d_hist m ++ [p]) m).

Definition oitems {A} (o : option A) (f : A -> list pitem) : list pitem := match o with Some x => f x | None => [] end.
Inductive pbform := PExplicit (packed : bool) | PMinimal.

Definition pb_items (fm : pbform) (m : metric) : list pitem :=
  match fm with
  | PExplicit packed =>
      [i_name (m_name m)] ++ map (i_tag false) (m_tags m)
      ++ oitems (m_counter m) (fun c => [i_counter c]) ++ oitems (m_ts m) (fun t => [i_ts t])
      ++ oitems (m_value m) (fun l => if packed then [i_valp l] else map i_val1 l)
      ++ oitems (m_unique m) (fun l => if packed then [i_unip l] else map i_uni1 l)
      ++ oitems (m_hist m) (fun l => map (i_hist false) l)
  | PMinimal =>
      (match m_name m with [] => [] | _ => [i_name (m_name m)] end) ++ map (i_tag true) (m_tags m)
      ++ oitems (m_counter m) (fun c => if c =? 0 then [] else [i_counter c])
      ++ oitems (m_ts m) (fun t => if t =? 0 then [] else [i_ts t])
      ++ oitems (m_value m) (fun l => match l with [] => [] | _ => [i_valp l] end)
      ++ oitems (m_unique m) (fun l => match l with [] => [] | _ => [i_unip l] end)
      ++ oitems (m_hist m) (fun l => map (i_hist true) l)
  end.
Definition enc_pb_form (fm : pbform) (m : metric) : bytes :=
  match fm with PExplicit packed => enc_pb_metric packed m | PMinimal => enc_pb_min_metric m end.

Lemma flat_map_map' {A B C} (f : B -> list C) (g : A -> B) l : flat_map f (map g l) = flat_map (fun x => f (g x)) l.
Proof. induction l; cbn [map flat_map]; [reflexivity|]. rewrite IHl. reflexivity. Qed.

Lemma enc_pb_form_items fm m : enc_pb_form fm m = flat_map fst (pb_items fm m).
Proof.
  destruct fm as [packed|]; unfold enc_pb_form, pb_items, enc_pb_metric, enc_pb_min_metric.
  - rewrite !flat_map_app. rewrite !flat_map_map'.
    destruct packed, (m_counter m), (m_ts m), (m_value m), (m_unique m), (m_hist m);
      cbn [oitems oenc flat_map fst i_name app]; rewrite ?flat_map_map', ?app_nil_r; reflexivity.
  - rewrite !flat_map_app. rewrite !flat_map_map'. unfold pbe_str, pbe_f64nz.
    destruct (m_name m) eqn:En, (m_counter m) as [c|], (m_ts m) as [t|], (m_value m) as [[|? ?]|], (m_unique m) as [[|? ?]|], (m_hist m);
      cbn [oitems oenc flat_map fst i_name app];
      try destruct (c =? 0); try destruct (t =? 0); cbn [flat_map fst app]; rewrite ?flat_map_map', ?app_nil_r; reflexivity.
Qed.

Definition form_ok (v : variant) (fm : pbform) : Prop :=
  match fm with PExplicit false => v_pb_unique_wt v = 0 | _ => True end.

Lemma Forall_map_intro {A B} (P : B -> Prop) (Q : A -> Prop) (g : A -> B) l :
  (forall x, Q x -> P (g x)) -> Forall Q l -> Forall P (map g l).
Proof. intros H HF. induction HF; cbn [map]; constructor; auto. Qed.

Lemma pb_items_ok v fm m : form_ok v fm -> wf_metric m = true -> Forall (pitem_ok v) (pb_items fm m).
Proof.
  intros Hfm H. apply wf_metric_parts in H as (Hn & Ht & Htl & Hc & Hts & Hv' & Hu & Hh).
  assert (Tags : forall minimal, Forall (pitem_ok v) (map (i_tag minimal) (m_tags m))).
  { intros minimal. apply Forall_map_intro with (Q := fun kv => is_tagb kv = true); [|apply forallb_Forall; assumption].
    intros kv Hkv. apply andb_true_iff in Hkv as [H1 H2]. apply is_bytes_len in H1, H2. apply i_tag_ok; unfold bytes in *; lia. }
  assert (Hist : forall minimal l, forallb is_f64p l = true -> Forall (pitem_ok v) (map (i_hist minimal) l)).
  { intros minimal l Hl. apply Forall_map_intro with (Q := fun p => is_f64p p = true); [|apply forallb_Forall; assumption].
    intros p Hp. apply andb_true_iff in Hp as [H1 H2]. apply is_f64_spec in H1, H2. apply i_hist_ok; assumption. }
  assert (Name : pitem_ok v (i_name (m_name m))).
  { apply i_name_ok. apply is_bytes_len in Hn. unfold bytes, two32, two64 in *. lia. }
  assert (F64 : forall l, forallb is_f64 l = true -> Forall (fun x => 0 <= x < two64) l).
  { intros l Hl. apply forallb_Forall in Hl. eapply Forall_impl; [|exact Hl]. intros; apply is_f64_spec; assumption. }
  assert (I64 : forall l, forallb is_i64 l = true -> Forall (fun x => - two63 <= x < two63) l).
  { intros l Hl. apply forallb_Forall in Hl. eapply Forall_impl; [|exact Hl]. intros; apply is_i64_spec; assumption. }
  destruct fm as [packed|]; unfold pb_items;
  (apply Forall_app; split; [|apply Forall_app; split; [apply Tags|apply Forall_app; split; [|apply Forall_app; split; [|apply Forall_app; split; [|apply Forall_app; split]]]]]).
  - constructor; [exact Name|constructor].
  - destruct (m_counter m) as [c|]; cbn [oitems]; [|constructor]. constructor; [|constructor]. apply i_counter_ok. apply is_f64_spec. exact Hc.
  - destruct (m_ts m) as [t|]; cbn [oitems]; [|constructor]. constructor; [|constructor]. apply i_ts_ok. cbn [oall] in Hts. lia.
  - destruct (m_value m) as [l|]; cbn [oitems]; [|constructor]. cbn [oall] in Hv'. apply andb_true_iff in Hv' as [H1 H2].
    destruct packed.
    + constructor; [|constructor]. apply i_valp_ok; [apply F64; assumption|lia].
    + apply Forall_map_intro with (Q := fun x => 0 <= x < two64); [intros; apply i_val1_ok; assumption|apply F64; assumption].
  - destruct (m_unique m) as [l|]; cbn [oitems]; [|constructor]. cbn [oall] in Hu. apply andb_true_iff in Hu as [H1 H2].
    destruct packed.
    + constructor; [|constructor]. apply i_unip_ok; [apply I64; assumption|lia].
    + apply Forall_map_intro with (Q := fun x => - two63 <= x < two63); [intros; apply i_uni1_ok; assumption|apply I64; assumption].
  - destruct (m_hist m) as [l|]; cbn [oitems]; [|constructor]. cbn [oall] in Hh. apply andb_true_iff in Hh as [H1 H2]. apply Hist; assumption.
  - destruct (m_name m) eqn:E; [constructor|]. constructor; [exact Name|constructor].
  - destruct (m_counter m) as [c|]; cbn [oitems]; [|constructor]. destruct (c =? 0); constructor; [|constructor]. apply i_counter_ok. apply is_f64_spec. exact Hc.
  - destruct (m_ts m) as [t|]; cbn [oitems]; [|constructor]. destruct (t =? 0); constructor; [|constructor]. apply i_ts_ok. cbn [oall] in Hts. lia.
  - destruct (m_value m) as [l|]; cbn [oitems]; [|constructor]. cbn [oall] in Hv'. apply andb_true_iff in Hv' as [H1 H2].
    destruct l eqn:El; [constructor|]. rewrite <- El in *. constructor; [|constructor]. apply i_valp_ok; [apply F64; assumption|lia].
  - destruct (m_unique m) as [l|]; cbn [oitems]; [|constructor]. cbn [oall] in Hu. apply andb_true_iff in Hu as [H1 H2].
    destruct l eqn:El; [constructor|]. rewrite <- El in *. constructor; [|constructor]. apply i_unip_ok; [apply I64; assumption|lia].
  - destruct (m_hist m) as [l|]; cbn [oitems]; [|constructor]. cbn [oall] in Hh. apply andb_true_iff in Hh as [H1 H2]. apply Hist; assumption.
Qed.

(* ---------- what the fields add up to ---------- *)
Definition step (m : dmetric) (it : pitem) : dmetric := snd it m.
Definition ne {A} (l : list A) : bool := match l with [] => false | _ => true end.
Definition with_tags l m := {| d_mask := d_mask m; d_name := d_name m; d_tags := d_tags m ++ l; d_counter := d_counter m; d_ts := d_ts m; d_value := d_value m; d_unique := d_unique m; d_hist := d_hist m |}.
Definition with_value (bit : bool) l m := {| d_mask := if bit then Z.lor (d_mask m) 2 else d_mask m; d_name := d_name m; d_tags := d_tags m; d_counter := d_counter m; d_ts := d_ts m; d_value := d_value m ++ l; d_unique := d_unique m; d_hist := d_hist m |}.
Definition with_unique (bit : bool) l m := {| d_mask := if bit then Z.lor (d_mask m) 4 else d_mask m; d_name := d_name m; d_tags := d_tags m; d_counter := d_counter m; d_ts := d_ts m; d_value := d_value m; d_unique := d_unique m ++ l; d_hist := d_hist m |}.
Definition with_hist (bit : bool) l m := {| d_mask := if bit then Z.lor (d_mask m) 8 else d_mask m; d_name := d_name m; d_tags := d_tags m; d_counter := d_counter m; d_ts := d_ts m; d_value := d_value m; d_unique := d_unique m; d_hist := d_hist m ++ l |}.

Lemma lor_idem a b : Z.lor (Z.lor a b) b = Z.lor a b.
Proof. rewrite <- Z.lor_assoc, Z.lor_diag. reflexivity. Qed.

Lemma fold_tags mn : forall l m, fold_left step (map (i_tag mn) l) m = with_tags l m.
Proof.
  induction l as [|x l IH]; intros m.
  - destruct m. unfold with_tags. cbn. rewrite app_nil_r. reflexivity.
  - cbn [map fold_left]. rewrite IH. destruct m. unfold with_tags, step, i_tag. cbn. rewrite <- app_assoc. reflexivity.
Qed.
Lemma fold_val1 : forall l m, fold_left step (map i_val1 l) m = with_value (ne l) l m.
Proof.
  induction l as [|x l IH]; intros m.
  - destruct m. unfold with_value. cbn. rewrite app_nil_r. reflexivity.
  - cbn [map fold_left]. rewrite IH. destruct m. unfold with_value, step, i_val1. cbn.
    rewrite <- app_assoc. destruct l; cbn [ne app]; rewrite ?lor_idem; reflexivity.
Qed.
Lemma fold_uni1 : forall l m, fold_left step (map i_uni1 l) m = with_unique (ne l) l m.
Proof.
  induction l as [|x l IH]; intros m.
  - destruct m. unfold with_unique. cbn. rewrite app_nil_r. reflexivity.
  - cbn [map fold_left]. rewrite IH. destruct m. unfold with_unique, step, i_uni1. cbn.
    rewrite <- app_assoc. destruct l; cbn [ne app]; rewrite ?lor_idem; reflexivity.
Qed.
Lemma fold_hist mn : forall l m, fold_left step (map (i_hist mn) l) m = with_hist (ne l) l m.
Proof.
  induction l as [|x l IH]; intros m.
  - destruct m. unfold with_hist. cbn. rewrite app_nil_r. reflexivity.
  - cbn [map fold_left]. rewrite IH. destruct m. unfold with_hist, step, i_hist. cbn.
    rewrite <- app_assoc. destruct l; cbn [ne app]; rewrite ?lor_idem; reflexivity.
Qed.

(* what the encoding cannot express is read back as absent: the presence bit is not set, the value is the same *)
Definition drop_empty {A} (o : option (list A)) : option (list A) := match o with Some [] => None | _ => o end.
Definition drop_zero (o : option Z) : option Z := match o with Some z => if z =? 0 then None else o | None => None end.
Definition pb_norm (fm : pbform) (m : metric) : metric :=
  match fm with
  | PExplicit true => {| m_name := m_name m; m_tags := m_tags m; m_counter := m_counter m; m_ts := m_ts m; m_value := m_value m; m_unique := m_unique m; m_hist := drop_empty (m_hist m) |}
  | PExplicit false => {| m_name := m_name m; m_tags := m_tags m; m_counter := m_counter m; m_ts := m_ts m; m_value := drop_empty (m_value m); m_unique := drop_empty (m_unique m); m_hist := drop_empty (m_hist m) |}
  | PMinimal => {| m_name := m_name m; m_tags := m_tags m; m_counter := drop_zero (m_counter m); m_ts := drop_zero (m_ts m); m_value := drop_empty (m_value m); m_unique := drop_empty (m_unique m); m_hist := drop_empty (m_hist m) |}
  end.

Lemma pb_fold_canon fm m : fold_left step (pb_items fm m) dzero = canon (pb_norm fm m).
Proof.
  destruct fm as [packed|]; unfold pb_items, pb_norm, canon.
  - destruct packed, (m_counter m), (m_ts m), (m_value m) as [lv|], (m_unique m) as [lu|], (m_hist m) as [lh|];
      cbn [oitems]; rewrite !fold_left_app; cbn [fold_left]; rewrite ?fold_tags, ?fold_val1, ?fold_uni1, ?fold_hist;
      try destruct lv; try destruct lu; try destruct lh; reflexivity.
  - destruct (m_name m) eqn:En, (m_counter m) as [c|], (m_ts m) as [t|], (m_value m) as [[|? ?]|], (m_unique m) as [[|? ?]|], (m_hist m) as [lh|];
      cbn [oitems drop_zero]; try destruct (c =? 0) eqn:Ec; try destruct (t =? 0) eqn:Et;
      rewrite !fold_left_app; cbn [fold_left]; rewrite ?fold_tags, ?fold_hist; try destruct lh; reflexivity.
Qed.

Lemma view_pb_norm fm m : wf_metric m = true -> view (canon (pb_norm fm m)) = view (canon m).
Proof.
  intros _. destruct fm as [[|]|]; unfold pb_norm, canon, view;
  destruct (m_counter m) as [c|], (m_ts m) as [t|], (m_value m) as [[|? ?]|], (m_unique m) as [[|? ?]|], (m_hist m) as [[|? ?]|];
  cbn [drop_empty drop_zero opt_app]; try destruct (c =? 0) eqn:Ec; try destruct (t =? 0) eqn:Et; cbn [opt_app];
  try (assert (c = 0) by lia; subst c); try (assert (t = 0) by lia; subst t); reflexivity.
Qed.

(* ---------- metric, batch, packet ---------- *)
Definition pb_expect (fm : pbform) (m : metric) : dmetric := canon (pb_norm fm m).

Lemma pb_metric_enc v fm m : form_ok v fm -> wf_metric m = true ->
  pb_metric v (length (enc_pb_form fm m)) dzero (enc_pb_form fm m) = Ok (pb_expect fm m).
Proof.
  intros Hfm H. rewrite enc_pb_form_items. pose proof (pb_items_ok v fm m Hfm H) as Hok.
  rewrite pb_metric_items by (try assumption; apply (pitems_len v); assumption).
  apply f_equal. apply pb_fold_canon.
Qed.

Lemma pb_batch_S v f ms x b : pb_batch v (S f) ms (x :: b) =
  match pb_tag (x :: b) with
  | Ok ((fn, t), r) =>
      if (fn =? 13337) && (t =? 2) then
        match pb_bytes r with
        | Ok (d, r') =>
            match pb_metric v (length d) dzero d with
            | Ok m => pb_batch v f (ms ++ [m]) r'
            | NoFuel => PbNoFuel
            | _ => PbErr r'
            end
        | NoFuel => PbNoFuel
        | _ => PbErr r
        end
      else match pb_skip_field fn t r with
           | Ok r' => pb_batch v f ms r'
           | NoFuel => PbNoFuel
           | _ => PbErr r
           end
  | NoFuel => PbNoFuel
  | _ => PbErr (x :: b)
  end.
Proof. reflexivity. Qed.

Lemma pb_batch_step v f ms d rest m : zlen d < two64 -> pb_metric v (length d) dzero d = Ok m ->
  pb_batch v (S f) ms (pbe_len 13337 d ++ rest) = pb_batch v f (ms ++ [m]) rest.
Proof.
  intros Hd Hm. rewrite pbe_len_eq, <- app_assoc. destruct (pbe_tag_nonempty 13337 2) as (y & l & E).
  rewrite E at 1. cbn [app]. rewrite pb_batch_S. rewrite app_comm_cons, <- E.
  rewrite pb_tag_enc by lia. cbn [Z.eqb Pos.eqb andb]. rewrite <- app_assoc. rewrite pb_bytes_enc by assumption.
  rewrite Hm. reflexivity.
Qed.

Definition enc_pb_batch (fm : pbform) (b : list metric) : bytes := flat_map (fun m => pbe_len 13337 (enc_pb_form fm m)) b.
(* every length-delimited field must fit the 64-bit varint of its length prefix *)
Definition pb_sized (fm : pbform) (b : list metric) : Prop := Forall (fun m => zlen (enc_pb_form fm m) < two64) b.

Lemma pb_batch_enc_go v fm : form_ok v fm -> forall b fuel ms, forallb wf_metric b = true -> pb_sized fm b -> (length b <= fuel)%nat ->
  pb_batch v fuel ms (enc_pb_batch fm b) = PbOk (ms ++ map (pb_expect fm) b).
Proof.
  intros Hfm. induction b as [|m b IH]; intros fuel ms Hwf Hs Hf.
  - rewrite app_nil_r. destruct fuel; reflexivity.
  - cbn [forallb] in Hwf. apply andb_true_iff in Hwf as [Hm Hb]. inversion Hs; subst.
    destruct fuel as [|f]; [cbn in Hf; lia|]. unfold enc_pb_batch. cbn [flat_map].
    rewrite (pb_batch_step v f ms _ _ (pb_expect fm m)); [|assumption|apply pb_metric_enc; assumption].
    fold (enc_pb_batch fm b). rewrite IH by (try assumption; cbn in Hf; lia). cbn [map]. rewrite <- app_assoc. reflexivity.
Qed.

Lemma enc_pb_batch_len fm b : (length b <= length (enc_pb_batch fm b))%nat.
Proof.
  unfold enc_pb_batch. induction b; cbn [flat_map length]; [lia|]. rewrite app_length.
  destruct (pbe_len_len2 13337 (enc_pb_form fm a) []) as (n & E). rewrite app_nil_r in E. rewrite E. lia.
Qed.

Theorem pb_batch_enc : forall v fm b, form_ok v fm -> wf_batch b = true -> pb_sized fm b ->
  pb_batch v (length (enc_pb_batch fm b)) [] (enc_pb_batch fm b) = PbOk (map (pb_expect fm) b).
Proof.
  intros v fm b Hfm H Hs. unfold wf_batch in H. apply andb_true_iff in H as [Hb _].
  apply (pb_batch_enc_go v fm Hfm b _ [] Hb Hs). apply enc_pb_batch_len.
Qed.

Lemma enc_pb_batch_explicit packed b : enc_pb_batch (PExplicit packed) b = enc_pb packed b.
Proof. reflexivity. Qed.
Lemma enc_pb_batch_min b : enc_pb_batch PMinimal b = enc_pb_min b.
Proof. reflexivity. Qed.

Lemma enc_pb_batch_head fm m b : exists r, enc_pb_batch fm (m :: b) = 202 :: 193 :: 6 :: r.
Proof. unfold enc_pb_batch. cbn [flat_map]. rewrite pbe_len_eq. eexists. reflexivity. Qed.

Section ParsePB.
  Variable parse_f64 parse_u32 parse_i64 : bool -> bytes -> option Z.
  Variable lex : bytes -> option jv.
  Theorem parse_enc_pb : forall v fm b, form_ok v fm -> wf_batch b = true -> pb_sized fm b -> b <> [] ->
    parse parse_f64 parse_u32 parse_i64 lex v (enc_pb_batch fm b) =
    {| o_fmt := FProtobuf; o_metrics := map (pb_expect fm) b; o_end := EDone |}.
  Proof.
    intros v fm b Hfm H Hs Hne. destruct b as [|m b]; [congruence|].
    unfold parse. rewrite detect_documented. destruct (enc_pb_batch_head fm m b) as (r & E).
    assert (D : doc_format (enc_pb_batch fm (m :: b)) = FProtobuf) by (rewrite E; reflexivity).
    rewrite D. rewrite pb_batch_enc by assumption. reflexivity.
  Qed.
End ParsePB.
