(* C13 — the four decoders on the four encodings of one batch. *)
From Coq Require Import ZArith List Bool Lia.
From SH Require Import Common.Wrap TL.Model Wire.Model Wire.Proofs Wire.ProofsPB Wire.ProofsTL Wire.ProofsJson.
Import ListNotations.
Open Scope Z_scope.

Lemma view_pb_expect fm b : forallb wf_metric b = true -> map view (map (pb_expect fm) b) = map view (map canon b).
Proof.
  intros H. rewrite !map_map. apply map_ext_in. intros m Hin. rewrite forallb_forall in H.
  unfold pb_expect. apply view_pb_norm. apply H. assumption.
Qed.

Section Cross.
  Variable parse_f64 parse_u32 parse_i64 : bool -> bytes -> option Z.
  Variable print_f64 print_u32 print_i64 : Z -> bytes.
  Variable json_f64 : Z -> bool.
  Hypothesis Hf : forall x, json_f64 x = true -> parse_f64 false (print_f64 x) = Some x.
  Hypothesis Hu : forall t, 0 <= t < two32 -> parse_u32 false (print_u32 t) = Some t.
  Hypothesis Hi : forall x, - two63 <= x < two63 -> parse_i64 false (print_i64 x) = Some x.

  Theorem cross_format_equal : forall v fm b,
    roomy v -> form_ok v fm -> wf_batch b = true -> pb_sized fm b -> forallb (json_metric_ok json_f64) b = true ->
    exists d_pb,
      tl_batch (enc_tl b) = Ok (map canon b, []) /\
      mp_batch v (enc_mp b) = Ok (map canon b, []) /\
      j_batch parse_f64 parse_u32 parse_i64 (enc_json print_f64 print_u32 print_i64 b) = Ok (map canon b) /\
      pb_batch v (length (enc_pb_batch fm b)) [] (enc_pb_batch fm b) = PbOk d_pb /\
      map view d_pb = map view (map canon b).
  Proof.
    intros v fm b Hv Hfm H Hs HJ. exists (map (pb_expect fm) b).
    repeat split.
    - rewrite <- (app_nil_r (enc_tl b)). apply tl_batch_enc. assumption.
    - rewrite <- (app_nil_r (enc_mp b)). apply mp_batch_enc; assumption.
    - eapply j_batch_enc; eassumption.
    - apply pb_batch_enc; assumption.
    - apply view_pb_expect. unfold wf_batch in H. apply andb_true_iff in H as [Hb _]. exact Hb.
  Qed.
End Cross.
