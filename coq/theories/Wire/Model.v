(* C13 — client wire formats.  Executable model of
     internal/receiver/receiver.go   parser.parse (format detection, per-format batch loops, handleMetricsBatch)
     internal/receiver/msgpack.go    msgpackUnmarshalStatshouseAddMetricBatch / ...Metric, on top of the
                                     tinylib/msgp v1.6.1 byte readers they call (ReadMapHeaderBytes, ReadMapKeyZC,
                                     ReadStringAsBytes, ReadFloat64Bytes, ReadUint32Bytes, ReadInt64Bytes,
                                     ReadArrayHeaderBytes, Skip)
     internal/receiver/protobuf.go   protobufUnmarshalStatshouseAddMetricBatch / ...Metric / FieldEntry / Centroid on
                                     top of protowire (ConsumeVarint, ConsumeTag, ConsumeBytes, ConsumeFixed64,
                                     ConsumeFieldValue)
     generated TL reader             AddMetricsBatchBytes.ReadTL1Boxed = the generic TL1 reader of TL/Model.v on the
                                     schema entry of statshouse.addMetricsBatch (Gen/TLSchema.v)
     generated JSON reader           AddMetricsBatchBytes.ReadJSONGeneral over a parsed JSON tree (keys in textual
                                     order); number text -> bits is a parameter (strconv)
     internal/receiver/receiver_tcp.go  the 4-byte little-endian framing of receiveLoop.
   Doubles are their IEEE-754 bit patterns (Z in [0,2^64)).  Definitions only. *)
From Coq Require Import ZArith List Bool.
From SH Require Import Common.Wrap TL.Model.
Import ListNotations.
Open Scope Z_scope.

(* ---------- what a decoder fills: tlstatshouse.MetricBytes ---------- *)
Record dmetric := {
  d_mask : Z; d_name : bytes; d_tags : list (bytes * bytes);
  d_counter : Z; d_ts : Z; d_value : list Z; d_unique : list Z; d_hist : list (Z * Z) }.

Definition dzero : dmetric :=   (* MetricBytes.Reset() *)
  {| d_mask := 0; d_name := []; d_tags := []; d_counter := 0; d_ts := 0; d_value := []; d_unique := []; d_hist := [] |}.

Definition set_name s m := {| d_mask := d_mask m; d_name := s; d_tags := d_tags m; d_counter := d_counter m; d_ts := d_ts m; d_value := d_value m; d_unique := d_unique m; d_hist := d_hist m |}.
Definition set_tags t m := {| d_mask := d_mask m; d_name := d_name m; d_tags := t; d_counter := d_counter m; d_ts := d_ts m; d_value := d_value m; d_unique := d_unique m; d_hist := d_hist m |}.
(* SetCounter: FieldsMask |= 1<<0; SetTs: 1<<4; SetValue: 1<<1; SetUnique: 1<<2; SetHistogram: 1<<3 *)
Definition set_counter c m := {| d_mask := Z.lor (d_mask m) 1; d_name := d_name m; d_tags := d_tags m; d_counter := c; d_ts := d_ts m; d_value := d_value m; d_unique := d_unique m; d_hist := d_hist m |}.
Definition set_ts t m := {| d_mask := Z.lor (d_mask m) 16; d_name := d_name m; d_tags := d_tags m; d_counter := d_counter m; d_ts := t; d_value := d_value m; d_unique := d_unique m; d_hist := d_hist m |}.
Definition set_value v m := {| d_mask := Z.lor (d_mask m) 2; d_name := d_name m; d_tags := d_tags m; d_counter := d_counter m; d_ts := d_ts m; d_value := v; d_unique := d_unique m; d_hist := d_hist m |}.
Definition set_unique u m := {| d_mask := Z.lor (d_mask m) 4; d_name := d_name m; d_tags := d_tags m; d_counter := d_counter m; d_ts := d_ts m; d_value := d_value m; d_unique := u; d_hist := d_hist m |}.
Definition set_hist h m := {| d_mask := Z.lor (d_mask m) 8; d_name := d_name m; d_tags := d_tags m; d_counter := d_counter m; d_ts := d_ts m; d_value := d_value m; d_unique := d_unique m; d_hist := h |}.

(* ---------- what a client means: a metric with optional fields ---------- *)
Record metric := {
  m_name : bytes; m_tags : list (bytes * bytes);
  m_counter : option Z; m_ts : option Z; m_value : option (list Z); m_unique : option (list Z); m_hist : option (list (Z * Z)) }.

Definition opt_app {A} (o : option A) (f : A -> dmetric -> dmetric) (m : dmetric) : dmetric :=
  match o with Some x => f x m | None => m end.

(* the MetricBytes every decoder must produce for a metric *)
Definition canon (m : metric) : dmetric :=
  opt_app (m_hist m) set_hist (opt_app (m_unique m) set_unique (opt_app (m_value m) set_value
   (opt_app (m_ts m) set_ts (opt_app (m_counter m) set_counter (set_tags (m_tags m) (set_name (m_name m) dzero)))))).

(* the tuple of the property: (name, tags, counter, timestamp, values, uniques, histogram) *)
Definition view (d : dmetric) := (d_name d, d_tags d, d_counter d, d_ts d, d_value d, d_unique d, d_hist d).

(* ---------- results ---------- *)
Inductive res (A : Type) :=
| Ok (a : A)
| Err            (* the decoder returned an error *)
| Crash          (* the process dies (fatal "out of memory" of make([]T, n)) *)
| NoFuel.        (* the model's loop bound was hit: proved impossible (Proofs.v) *)
Arguments Ok {A} a. Arguments Err {A}. Arguments Crash {A}. Arguments NoFuel {A}.

Definition bind {A B} (r : res A) (f : A -> res B) : res B :=
  match r with Ok a => f a | Err => Err | Crash => Crash | NoFuel => NoFuel end.
Notation "'do' x <- r ; k" := (bind r (fun x => k)) (at level 200, x name, r at level 100, k at level 200).
Notation "'do' ' p <- r ; k" := (bind r (fun x => match x with p => k end)) (at level 200, p strict pattern, r at level 100, k at level 200).

(* which variant of the code is modelled: [faithful] = as written at the pinned commit (with the recorded
   defects), [repaired] = the proposed fixes *)
Record variant := {
  v_alloc_limit : option Z;   (* Some L: make([]T, n) with n*sizeof(T) > L kills the process; None: counts are
                                 checked against the remaining bytes before allocating *)
  v_pb_unique_wt : Z;         (* wire type accepted for an unpacked `unique` element: 1 as written, 0 repaired *)
  v_pb_err_whole : bool       (* protobuf branch passes the whole rest (`was`) to handleMetricsBatch (repaired) or
                                 what the decoder left (`pkt`, as written) *)
}.
Definition faithful (limit : Z) : variant := {| v_alloc_limit := Some limit; v_pb_unique_wt := 1; v_pb_err_whole := false |}.
Definition repaired : variant := {| v_alloc_limit := None; v_pb_unique_wt := 0; v_pb_err_whole := true |}.

(* ---------- big endian ---------- *)
Definition be_dec (bs : bytes) : Z := le_dec (rev bs).
Definition be_enc (n : nat) (z : Z) : bytes := rev (le_enc n z).
Definition sext (bits : Z) (z : Z) : Z := if z <? 2 ^ (bits - 1) then z else z - 2 ^ bits.

(* float64(math.Float32frombits(x)) as bit patterns (CVTSS2SD: exact; a signalling NaN is quieted) *)
Definition f32_to_f64 (x : Z) : Z :=
  let s := x / 2147483648 in let e := (x / 8388608) mod 256 in let m := x mod 8388608 in
  let sb := s * 9223372036854775808 in
  if e =? 255 then (if m =? 0 then sb + 9218868437227405312 else sb + 9218868437227405312 + Z.lor (m * 536870912) 2251799813685248)
  else if e =? 0 then
    (if m =? 0 then sb
     else let k := Z.log2 m in sb + (k + 874) * 4503599627370496 + (m - 2 ^ k) * 2 ^ (52 - k))
  else sb + (e + 896) * 4503599627370496 + m * 536870912.

(* ================= MessagePack (tinylib/msgp read_bytes.go) ================= *)
Definition mp_be (n : Z) (b : bytes) : res (Z * bytes) :=
  match takez n b with Some (x, r) => Ok (be_dec x, r) | None => Err end.

(* ReadMapHeaderBytes *)
Definition mp_map_header (b : bytes) : res (Z * bytes) :=
  match b with
  | [] => Err
  | lead :: r =>
      if (128 <=? lead) && (lead <=? 143) then Ok (lead - 128, r)
      else if lead =? 222 then mp_be 2 r else if lead =? 223 then mp_be 4 r else Err
  end.
(* ReadArrayHeaderBytes *)
Definition mp_array_header (b : bytes) : res (Z * bytes) :=
  match b with
  | [] => Err
  | lead :: r =>
      if (144 <=? lead) && (lead <=? 159) then Ok (lead - 144, r)
      else if lead =? 220 then mp_be 2 r else if lead =? 221 then mp_be 4 r else Err
  end.
Definition mp_take (r : res (Z * bytes)) : res (bytes * bytes) :=
  do '(n, b) <- r; match takez n b with Some p => Ok p | None => Err end.
(* ReadStringZC / ReadStringAsBytes *)
Definition mp_str (b : bytes) : res (bytes * bytes) :=
  match b with
  | [] => Err
  | lead :: r =>
      if (160 <=? lead) && (lead <=? 191) then mp_take (Ok (lead - 160, r))
      else if lead =? 217 then mp_take (mp_be 1 r) else if lead =? 218 then mp_take (mp_be 2 r)
      else if lead =? 219 then mp_take (mp_be 4 r) else Err
  end.
(* ReadBytesZC *)
Definition mp_bin (b : bytes) : res (bytes * bytes) :=
  match b with
  | [] => Err
  | lead :: r =>
      if lead =? 196 then mp_take (mp_be 1 r) else if lead =? 197 then mp_take (mp_be 2 r)
      else if lead =? 198 then mp_take (mp_be 4 r) else Err
  end.
(* ReadMapKeyZC: a str, or (when the lead byte is of bin type) a bin *)
Definition mp_key (b : bytes) : res (bytes * bytes) :=
  match b with
  | lead :: _ => if (196 <=? lead) && (lead <=? 198) then mp_bin b else mp_str b
  | [] => Err
  end.
(* ReadFloat64Bytes (accepts float32 as well; integers are a type error) *)
Definition mp_f32 (b : bytes) : res (Z * bytes) :=
  match b with
  | 202 :: r => do '(x, r') <- mp_be 4 r; Ok (f32_to_f64 x, r')
  | _ => Err
  end.
Definition mp_f64 (b : bytes) : res (Z * bytes) :=
  if zlen b <? 9 then (if 5 <=? zlen b then mp_f32 b else Err)
  else match b with
       | 203 :: r => mp_be 8 r
       | _ => mp_f32 b
       end.
(* ReadInt64Bytes *)
Definition mp_i64 (b : bytes) : res (Z * bytes) :=
  match b with
  | [] => Err
  | lead :: r =>
      if lead <? 128 then Ok (lead, r)
      else if 224 <=? lead then Ok (lead - 256, r)
      else if lead =? 208 then do '(x, r') <- mp_be 1 r; Ok (sext 8 x, r')
      else if lead =? 204 then mp_be 1 r
      else if lead =? 209 then do '(x, r') <- mp_be 2 r; Ok (sext 16 x, r')
      else if lead =? 205 then mp_be 2 r
      else if lead =? 210 then do '(x, r') <- mp_be 4 r; Ok (sext 32 x, r')
      else if lead =? 206 then mp_be 4 r
      else if lead =? 211 then do '(x, r') <- mp_be 8 r; Ok (sext 64 x, r')
      else if lead =? 207 then do '(x, r') <- mp_be 8 r; if x <? two63 then Ok (x, r') else Err
      else Err
  end.
(* ReadUint64Bytes *)
Definition mp_u64 (b : bytes) : res (Z * bytes) :=
  let nonneg bits n r := do '(x, r') <- mp_be n r; if sext bits x <? 0 then Err else Ok (x, r') in
  match b with
  | [] => Err
  | lead :: r =>
      if lead <? 128 then Ok (lead, r)
      else if lead =? 208 then nonneg 8 1 r
      else if lead =? 204 then mp_be 1 r
      else if lead =? 209 then nonneg 16 2 r
      else if lead =? 205 then mp_be 2 r
      else if lead =? 210 then nonneg 32 4 r
      else if lead =? 206 then mp_be 4 r
      else if lead =? 211 then nonneg 64 8 r
      else if lead =? 207 then mp_be 8 r
      else Err
  end.
(* ReadUint32Bytes *)
Definition mp_u32 (b : bytes) : res (Z * bytes) :=
  do '(x, r) <- mp_u64 b; if two32 <=? x then Err else Ok (x, r).

(* getSize: (bytes to skip, objects to skip) *)
Definition mp_get_size (b : bytes) : res (Z * Z) :=
  match b with
  | [] => Err
  | lead :: r =>
      let ext sz n := if zlen b <? sz then Err else Ok (sz + be_dec (firstn n r), 0) in
      let cnt sz n mul := if zlen b <? sz then Err else Ok (sz, mul * be_dec (firstn n r)) in
      if lead <? 128 then Ok (1, 0)
      else if lead <? 144 then Ok (1, 2 * (lead - 128))
      else if lead <? 160 then Ok (1, lead - 144)
      else if lead <? 192 then Ok (1 + (lead - 160), 0)
      else if lead =? 192 then Ok (1, 0) else if lead =? 193 then Err
      else if lead <=? 195 then Ok (1, 0)
      else if lead =? 196 then ext 2 1%nat else if lead =? 197 then ext 3 2%nat else if lead =? 198 then ext 5 4%nat
      else if lead =? 199 then ext 3 1%nat else if lead =? 200 then ext 4 2%nat else if lead =? 201 then ext 6 4%nat
      else if lead =? 202 then Ok (5, 0) else if lead =? 203 then Ok (9, 0)
      else if lead =? 204 then Ok (2, 0) else if lead =? 205 then Ok (3, 0) else if lead =? 206 then Ok (5, 0) else if lead =? 207 then Ok (9, 0)
      else if lead =? 208 then Ok (2, 0) else if lead =? 209 then Ok (3, 0) else if lead =? 210 then Ok (5, 0) else if lead =? 211 then Ok (9, 0)
      else if lead =? 212 then Ok (3, 0) else if lead =? 213 then Ok (4, 0) else if lead =? 214 then Ok (6, 0)
      else if lead =? 215 then Ok (10, 0) else if lead =? 216 then Ok (18, 0)
      else if lead =? 217 then ext 2 1%nat else if lead =? 218 then ext 3 2%nat else if lead =? 219 then ext 5 4%nat
      else if lead =? 220 then cnt 3 2%nat 1 else if lead =? 221 then cnt 5 4%nat 1
      else if lead =? 222 then cnt 3 2%nat 2 else if lead =? 223 then cnt 5 4%nat 2
      else Ok (1, 0)
  end.

Definition mp_recursion_limit : Z := 100000.

(* skipDepth; the nested objects are skipped by the inner loop (asz--) *)
Fixpoint mp_skip (fuel : nat) (depth : Z) (b : bytes) {struct fuel} : res bytes :=
  match fuel with
  | O => NoFuel
  | S f =>
      if mp_recursion_limit <=? depth then Err
      else do '(sz, asz) <- mp_get_size b;
           if zlen b <? sz then Err else mp_skip_n f (depth + 1) asz (skipn (Z.to_nat sz) b)
  end
with mp_skip_n (fuel : nat) (depth : Z) (n : Z) (b : bytes) {struct fuel} : res bytes :=
  match fuel with
  | O => NoFuel
  | S f => if n <=? 0 then Ok b else do b' <- mp_skip f depth b; mp_skip_n f depth (n - 1) b'
  end.
Definition skip_fuel (b : bytes) : nat := S (S (2 * length b)).
Definition mp_skip_top (b : bytes) : res bytes := mp_skip (skip_fuel b) 0 b.

(* `if cap(x) >= n { x = x[:n] } else { x = make([]T, n) }`, T of esz bytes, followed by `for i := range x { read }`:
   as written the count is not compared with the bytes that are left *)
Definition mp_alloc (v : variant) (n esz minb : Z) (b : bytes) : res unit :=
  match v_alloc_limit v with
  | Some limit => if limit <? n * esz then Crash else Ok tt
  | None => if zlen b <? n * minb then Err else Ok tt
  end.

Section MpRepeat.
  Context {A : Type}.
  Variable rd : bytes -> res (A * bytes).
  (* n reads; the fuel is the number of bytes left + 1 (every read consumes at least one byte or fails) *)
  Fixpoint mp_repeat (fuel : nat) (n : Z) (b : bytes) : res (list A * bytes) :=
    if n <=? 0 then Ok ([], b)
    else match fuel with
         | O => NoFuel
         | S f => do '(x, b1) <- rd b; do '(xs, b2) <- mp_repeat f (n - 1) b1; Ok (x :: xs, b2)
         end.
End MpRepeat.
Definition rep_fuel (b : bytes) : nat := S (length b).

Definition mp_tag (b : bytes) : res ((bytes * bytes) * bytes) :=
  do '(k, b1) <- mp_str b; do '(x, b2) <- mp_str b1; Ok ((k, x), b2).
Definition mp_centroid (b : bytes) : res ((Z * Z) * bytes) :=
  do '(n2, b1) <- mp_array_header b;
  if negb (n2 =? 2) then Err
  else do '(x, b2) <- mp_f64 b1; do '(c, b3) <- mp_f64 b2; Ok ((x, c), b3).

Definition bytes_eqb (a b : bytes) : bool := (fix go (a b : bytes) := match a, b with [] , [] => true | x :: a', y :: b' => (x =? y) && go a' b' | _, _ => false end) a b.

Definition k_name : bytes := [110;97;109;101].
Definition k_tags : bytes := [116;97;103;115].
Definition k_counter : bytes := [99;111;117;110;116;101;114].
Definition k_ts : bytes := [116;115].
Definition k_value : bytes := [118;97;108;117;101].
Definition k_unique : bytes := [117;110;105;113;117;101].
Definition k_histogram : bytes := [104;105;115;116;111;103;114;97;109].
Definition k_metrics : bytes := [109;101;116;114;105;99;115].
Definition k_fields_mask : bytes := [102;105;101;108;100;115;95;109;97;115;107].

(* sizeof: DictFieldStringStringBytes 48, float64 8, int64 8, [2]float64 16, MetricBytes 144;
   least encoded size msgpackCheckCount assumes per element: tag 2, float64 1, int64 1, centroid 3, metric 1 *)
Definition mp_field (v : variant) (key : bytes) (m : dmetric) (b : bytes) : res (dmetric * bytes) :=
  if bytes_eqb key k_name then do '(s, b1) <- mp_str b; Ok (set_name s m, b1)
  else if bytes_eqb key k_tags then
    do '(n, b1) <- mp_map_header b; do _ <- mp_alloc v n 48 2 b1;
    do '(ts, b2) <- mp_repeat mp_tag (rep_fuel b1) n b1; Ok (set_tags ts m, b2)
  else if bytes_eqb key k_counter then do '(x, b1) <- mp_f64 b; Ok (set_counter x m, b1)
  else if bytes_eqb key k_ts then do '(x, b1) <- mp_u32 b; Ok (set_ts x m, b1)
  else if bytes_eqb key k_value then
    do '(n, b1) <- mp_array_header b; do _ <- mp_alloc v n 8 1 b1;
    do '(xs, b2) <- mp_repeat mp_f64 (rep_fuel b1) n b1; Ok (set_value xs m, b2)
  else if bytes_eqb key k_unique then
    do '(n, b1) <- mp_array_header b; do _ <- mp_alloc v n 8 1 b1;
    do '(xs, b2) <- mp_repeat mp_i64 (rep_fuel b1) n b1; Ok (set_unique xs m, b2)
  else if bytes_eqb key k_histogram then
    do '(n, b1) <- mp_array_header b; do _ <- mp_alloc v n 16 3 b1;
    do '(xs, b2) <- mp_repeat mp_centroid (rep_fuel b1) n b1; Ok (set_hist xs m, b2)
  else do b1 <- mp_skip_top b; Ok (m, b1).

(* `for numFields > 0 { numFields--; key; switch }` *)
Fixpoint mp_fields (v : variant) (fuel : nat) (n : Z) (m : dmetric) (b : bytes) : res (dmetric * bytes) :=
  if n <=? 0 then Ok (m, b)
  else match fuel with
       | O => NoFuel
       | S f => do '(key, b1) <- mp_key b; do '(m', b2) <- mp_field v key m b1; mp_fields v f (n - 1) m' b2
       end.
(* msgpackUnmarshalStatshouseMetric *)
Definition mp_metric (v : variant) (b : bytes) : res (dmetric * bytes) :=
  do '(n, b1) <- mp_map_header b; mp_fields v (rep_fuel b1) n dzero b1.

Fixpoint mp_batch_fields (v : variant) (fuel : nat) (n : Z) (ms : list dmetric) (b : bytes) : res (list dmetric * bytes) :=
  if n <=? 0 then Ok (ms, b)
  else match fuel with
       | O => NoFuel
       | S f =>
           do '(key, b1) <- mp_key b;
           do '(ms', b2) <- (if bytes_eqb key k_metrics then
                               do '(c, b2) <- mp_array_header b1; do _ <- mp_alloc v c 144 1 b2;
                               mp_repeat (mp_metric v) (rep_fuel b2) c b2
                             else do b2 <- mp_skip_top b1; Ok (ms, b2));
           mp_batch_fields v f (n - 1) ms' b2
       end.
(* msgpackUnmarshalStatshouseAddMetricBatch *)
Definition mp_batch (v : variant) (b : bytes) : res (list dmetric * bytes) :=
  do '(n, b1) <- mp_map_header b; mp_batch_fields v (rep_fuel b1) n [] b1.
(* msgpackLooksLikeMap *)
Definition mp_looks_like_map (b : bytes) : bool := match mp_map_header b with Ok _ => true | _ => false end.

(* ================= Protobuf (protowire + protobuf.go) ================= *)
(* ConsumeVarint: at most 10 bytes, the 10th must be 0 or 1; padded encodings are accepted *)
Fixpoint pb_varint_go (k : nat) (shift : Z) (b : bytes) : res (Z * bytes) :=
  match k, b with
  | O, _ => Err
  | _, [] => Err                                  (* errCodeTruncated *)
  | S O, x :: r => if x <? 2 then Ok (x * 2 ^ shift, r) else Err   (* errCodeOverflow *)
  | S k', x :: r =>
      if x <? 128 then Ok (x * 2 ^ shift, r)
      else do '(hi, r') <- pb_varint_go k' (shift + 7) r; Ok ((x - 128) * 2 ^ shift + hi, r')
  end.
Definition pb_varint (b : bytes) : res (Z * bytes) := pb_varint_go 10 0 b.
(* ConsumeTag + DecodeTag: (field number, wire type) *)
Definition pb_tag (b : bytes) : res ((Z * Z) * bytes) :=
  do '(x, r) <- pb_varint b;
  let num := if 2147483647 <? x / 8 then -1 else x / 8 in
  if num <? 1 then Err else Ok ((num, x mod 8), r).
(* ConsumeBytes *)
Definition pb_bytes (b : bytes) : res (bytes * bytes) :=
  do '(n, r) <- pb_varint b; match takez n r with Some p => Ok p | None => Err end.
Definition pb_fixed (n : Z) (b : bytes) : res (Z * bytes) :=
  match takez n b with Some (x, r) => Ok (le_dec x, r) | None => Err end.

Definition pb_recursion_limit : Z := 10000.
(* consumeFieldValueD; returns what is left *)
Fixpoint pb_skip (fuel : nat) (depth : Z) (num typ : Z) (b : bytes) {struct fuel} : res bytes :=
  match fuel with
  | O => NoFuel
  | S f =>
      if typ =? 0 then do '(_, r) <- pb_varint b; Ok r
      else if typ =? 5 then do '(_, r) <- pb_fixed 4 b; Ok r
      else if typ =? 1 then do '(_, r) <- pb_fixed 8 b; Ok r
      else if typ =? 2 then do '(_, r) <- pb_bytes b; Ok r
      else if typ =? 3 then (if depth <? 0 then Err else pb_group f depth num b)
      else Err
  end
with pb_group (fuel : nat) (depth : Z) (num : Z) (b : bytes) {struct fuel} : res bytes :=
  match fuel with
  | O => NoFuel
  | S f =>
      do '((num2, typ2), r) <- pb_tag b;
      if typ2 =? 4 then (if num =? num2 then Ok r else Err)
      else do r' <- pb_skip f (depth - 1) num2 typ2 r; pb_group f depth num r'
  end.
Definition pb_skip_field (num typ : Z) (b : bytes) : res bytes := pb_skip (skip_fuel b) pb_recursion_limit num typ b.

(* protobufUnmarshalFieldEntry *)
Fixpoint pb_entry (fuel : nat) (kv : bytes * bytes) (b : bytes) : res (bytes * bytes) :=
  match b with
  | [] => Ok kv
  | _ =>
      match fuel with
      | O => NoFuel
      | S f =>
          do '((fn, t), r) <- pb_tag b;
          if (fn =? 1) && (t =? 2) then do '(s, r') <- pb_bytes r; pb_entry f (s, snd kv) r'
          else if (fn =? 2) && (t =? 2) then do '(s, r') <- pb_bytes r; pb_entry f (fst kv, s) r'
          else do r' <- pb_skip_field fn t r; pb_entry f kv r'
      end
  end.
(* protobufUnmarshalCentroid *)
Fixpoint pb_centroid (fuel : nat) (c : Z * Z) (b : bytes) : res (Z * Z) :=
  match b with
  | [] => Ok c
  | _ =>
      match fuel with
      | O => NoFuel
      | S f =>
          do '((fn, t), r) <- pb_tag b;
          if (fn =? 1) && (t =? 1) then do '(x, r') <- pb_fixed 8 r; pb_centroid f (x, snd c) r'
          else if (fn =? 2) && (t =? 1) then do '(x, r') <- pb_fixed 8 r; pb_centroid f (fst c, x) r'
          else do r' <- pb_skip_field fn t r; pb_centroid f c r'
      end
  end.
(* the loop of protoReadPackedFixedFloat64 over data (len%8 = 0 checked by the caller) *)
Fixpoint pb_packed_f64 (fuel : nat) (d : bytes) : list Z :=
  match fuel with
  | O => []
  | S f => match takez 8 d with Some (x, r) => le_dec x :: pb_packed_f64 f r | None => [] end
  end.
(* the loop of protoReadPackedVarInt64: (values read, whether a varint was malformed) *)
Fixpoint pb_packed_varint (fuel : nat) (d : bytes) : list Z * bool :=
  match d with
  | [] => ([], true)
  | _ => match fuel with
         | O => ([], true)
         | S f => match pb_varint d with
                  | Ok (x, r) => let '(xs, ok) := pb_packed_varint f r in (i64 x :: xs, ok)
                  | _ => ([], false)
                  end
         end
  end.

(* protobufUnmarshalStatshouseMetric *)
Fixpoint pb_metric (v : variant) (fuel : nat) (m : dmetric) (b : bytes) : res dmetric :=
  match b with
  | [] => Ok m
  | _ =>
      match fuel with
      | O => NoFuel
      | S f =>
          do '((fn, t), r) <- pb_tag b;
          if (fn =? 1) && (t =? 2) then do '(s, r') <- pb_bytes r; pb_metric v f (set_name s m) r'
          else if (fn =? 2) && (t =? 2) then
            do '(d, r') <- pb_bytes r; do kv <- pb_entry (length d) ([], []) d;
            pb_metric v f (set_tags (d_tags m ++ [kv]) m) r'
          else if (fn =? 3) && (t =? 1) then do '(x, r') <- pb_fixed 8 r; pb_metric v f (set_counter x m) r'
          else if (fn =? 4) && (t =? 0) then
            do '(x, r') <- pb_varint r;
            let ts := i64 x in if (ts <? 0) || (4294967295 <? ts) then Err else pb_metric v f (set_ts ts m) r'
          else if (fn =? 5) && (t =? 2) then
            do '(d, r') <- pb_bytes r;
            if negb (zlen d mod 8 =? 0) then Err
            else pb_metric v f (set_value (d_value m ++ pb_packed_f64 (length d) d) m) r'
          else if (fn =? 5) && (t =? 1) then do '(x, r') <- pb_fixed 8 r; pb_metric v f (set_value (d_value m ++ [x]) m) r'
          else if (fn =? 6) && (t =? 2) then
            do '(d, r') <- pb_bytes r;
            let '(xs, ok) := pb_packed_varint (length d) d in
            (* a malformed element: `return buf, nil` — what was read is kept, the payload is NOT consumed *)
            pb_metric v f (set_unique (d_unique m ++ xs) m) (if ok then r' else r)
          else if (fn =? 6) && (t =? v_pb_unique_wt v) then
            do '(x, r') <- pb_varint r; pb_metric v f (set_unique (d_unique m ++ [i64 x]) m) r'
          else if (fn =? 7) && (t =? 2) then
            do '(d, r') <- pb_bytes r; do c <- pb_centroid (length d) (0, 0) d;
            pb_metric v f (set_hist (d_hist m ++ [c]) m) r'
          else do r' <- pb_skip_field fn t r; pb_metric v f m r'
      end
  end.

(* protobufUnmarshalStatshouseAddMetricBatch: Ok metrics (everything consumed) or the buffer returned with the error *)
Inductive pbres := PbOk (ms : list dmetric) | PbErr (rest : bytes) | PbNoFuel.
Fixpoint pb_batch (v : variant) (fuel : nat) (ms : list dmetric) (b : bytes) : pbres :=
  match b with
  | [] => PbOk ms
  | _ =>
      match fuel with
      | O => PbNoFuel
      | S f =>
          match pb_tag b with
          | Ok ((fn, t), r) =>
              if (fn =? 13337) && (t =? 2) then
                match pb_bytes r with
                | Ok (d, r') =>
                    match pb_metric v (length d) dzero d with
                    | Ok m => pb_batch v f (ms ++ [m]) r'
                    | NoFuel => PbNoFuel
                    | _ => PbErr r'
                    end
                | NoFuel => PbNoFuel
                | _ => PbErr r
                end
              else match pb_skip_field fn t r with
                   | Ok r' => pb_batch v f ms r'
                   | NoFuel => PbNoFuel
                   | _ => PbErr r
                   end
          | NoFuel => PbNoFuel
          | _ => PbErr b
          end
      end
  end.

(* ================= TL ================= *)
Definition tl_batch_tag : Z := 1448608313.   (* 0x56580239 *)
Definition hist_desc : desc := DVector false (DStruct [(None, DTuple (NConst 2) (DPrim PDouble))]).
Definition tags_desc : desc := DVector false (DStruct [(None, DPrim PString); (None, DPrim PString)]).
Definition metric_desc : desc :=
  DStruct [(None, DPrim PNat); (None, DPrim PString); (None, tags_desc);
           (Some (NVar 1%nat, 0), DPrim PDouble); (Some (NVar 1%nat, 4), DPrim PNat);
           (Some (NVar 1%nat, 1), DVector false (DPrim PDouble)); (Some (NVar 1%nat, 2), DVector false (DPrim PLong));
           (Some (NVar 1%nat, 3), hist_desc)].
(* statshouse.addMetricsBatch in its Bytes form: tags are a slice (any order, duplicates kept), not a map *)
Definition batch_desc : desc := DStruct [(None, DPrim PNat); (None, DVector false metric_desc)].

(* the schema entry with the `dictionary` (Go map) marking of vectors dropped *)
Fixpoint unsort (d : desc) : desc :=
  match d with
  | DPrim p => DPrim p
  | DBool a b => DBool a b
  | DVector _ t => DVector false (unsort t)
  | DTuple n t => DTuple n (unsort t)
  | DStruct fs => DStruct (map (fun cf => (fst cf, unsort (snd cf))) fs)
  | DUnion cs => DUnion (map (fun c => (fst c, unsort (snd c))) cs)
  | DBoxed tag t => DBoxed tag (unsort t)
  end.

Definition vint (x : value) : Z := match x with VInt z => z | _ => 0 end.
Definition vstr (x : value) : bytes := match x with VStr s => s | _ => [] end.
Definition vlist (x : value) : list value := match x with VList l => l | _ => [] end.
Definition vopt {A} (f : value -> A) (dflt : A) (x : value) : A := match x with VOpt (Some y) => f y | _ => dflt end.
Definition vpair {A} (f : value -> A) (dflt : A) (x : value) : A * A :=
  match x with VList (a :: b :: _) => (f a, f b) | _ => (dflt, dflt) end.

(* MetricBytes as filled by ReadTL1 (absent fields are cleared) *)
Definition metric_of_value (x : value) : dmetric :=
  match x with
  | VList [mk; nm; tg; c; t; vs; us; hs] =>
      {| d_mask := vint mk; d_name := vstr nm;
         d_tags := map (fun e => vpair vstr [] e) (vlist tg);
         d_counter := vopt vint 0 c; d_ts := vopt vint 0 t;
         d_value := vopt (fun l => map vint (vlist l)) [] vs;
         d_unique := vopt (fun l => map vint (vlist l)) [] us;
         d_hist := vopt (fun l => map (fun e => match e with VList [p] => vpair vint 0 p | _ => (0, 0) end) (vlist l)) [] hs |}
  | _ => dzero
  end.
Definition batch_of_value (x : value) : list dmetric :=
  match x with VList [_; ms] => map metric_of_value (vlist ms) | _ => [] end.

(* batch.ReadTL1Boxed *)
Definition tl_batch (b : bytes) : res (list dmetric * bytes) :=
  match read [] (DBoxed tl_batch_tag batch_desc) b with
  | Some (x, r) => Ok (batch_of_value x, r)
  | None => Err
  end.

(* ================= JSON (over the parsed tree, keys in textual order) ================= *)
Inductive jv :=
| JNum (text : bytes)            (* a number token, its text *)
| JStr (s : bytes)               (* a string token, unescaped *)
| JArr (l : list jv)
| JObj (l : list (bytes * jv))
| JOther.                        (* true / false / null *)

Section Json.
  (* strconv: number text -> value; [quoted] = the number came as a JSON string (Json2Read* accept both) *)
  Variable parse_f64 : bool -> bytes -> option Z.
  Variable parse_u32 : bool -> bytes -> option Z.
  Variable parse_i64 : bool -> bytes -> option Z.

  Definition j_num (p : bool -> bytes -> option Z) (x : jv) : res Z :=
    match x with
    | JNum t => match p false t with Some z => Ok z | None => Err end
    | JStr t => match p true t with Some z => Ok z | None => Err end
    | _ => Err
    end.
  Definition j_str (x : jv) : res bytes := match x with JStr s => Ok s | _ => Err end.
  Fixpoint j_map {A B} (f : A -> res B) (l : list A) : res (list B) :=
    match l with [] => Ok [] | x :: l' => do y <- f x; do ys <- j_map f l'; Ok (y :: ys) end.
  Definition j_arr {B} (f : jv -> res B) (x : jv) : res (list B) := match x with JArr l => j_map f l | _ => Err end.
  Definition j_tags (x : jv) : res (list (bytes * bytes)) :=
    match x with JObj l => j_map (fun kv => do s <- j_str (snd kv); Ok (fst kv, s)) l | _ => Err end.
  Definition j_centroid (x : jv) : res (Z * Z) :=
    match x with JArr [a; b] => do x <- j_num parse_f64 a; do c <- j_num parse_f64 b; Ok (x, c) | _ => Err end.

  (* StatshouseMetricBytes.ReadJSONGeneral: a duplicate or unknown key is an error; the presence bits are or-ed
     into fields_mask at the end *)
  Fixpoint j_fields (seen : list bytes) (m : dmetric) (l : list (bytes * jv)) : res dmetric :=
    match l with
    | [] => Ok m
    | (k, x) :: l' =>
        if existsb (bytes_eqb k) seen then Err
        else
          do m' <- (if bytes_eqb k k_fields_mask then do z <- j_num parse_u32 x;
                      Ok {| d_mask := Z.lor (d_mask m) z; d_name := d_name m; d_tags := d_tags m; d_counter := d_counter m; d_ts := d_ts m; d_value := d_value m; d_unique := d_unique m; d_hist := d_hist m |}
                    else if bytes_eqb k k_name then do s <- j_str x; Ok (set_name s m)
                    else if bytes_eqb k k_tags then do t <- j_tags x; Ok (set_tags t m)
                    else if bytes_eqb k k_counter then do z <- j_num parse_f64 x; Ok (set_counter z m)
                    else if bytes_eqb k k_ts then do z <- j_num parse_u32 x; Ok (set_ts z m)
                    else if bytes_eqb k k_value then do zs <- j_arr (j_num parse_f64) x; Ok (set_value zs m)
                    else if bytes_eqb k k_unique then do zs <- j_arr (j_num parse_i64) x; Ok (set_unique zs m)
                    else if bytes_eqb k k_histogram then do zs <- j_arr j_centroid x; Ok (set_hist zs m)
                    else Err);
          j_fields (k :: seen) m' l'
    end.
  Definition j_metric (x : jv) : res dmetric := match x with JObj l => j_fields [] dzero l | _ => Err end.

  Fixpoint j_batch_fields (seen : list bytes) (ms : list dmetric) (l : list (bytes * jv)) : res (list dmetric) :=
    match l with
    | [] => Ok ms
    | (k, x) :: l' =>
        if existsb (bytes_eqb k) seen then Err
        else do ms' <- (if bytes_eqb k k_fields_mask then do _ <- j_num parse_u32 x; Ok ms
                        else if bytes_eqb k k_metrics then j_arr j_metric x
                        else Err);
             j_batch_fields (k :: seen) ms' l'
    end.
  (* AddMetricsBatchBytes.UnmarshalJSON *)
  Definition j_batch (x : jv) : res (list dmetric) := match x with JObj l => j_batch_fields [] [] l | _ => Err end.
End Json.

(* ================= parser.parse ================= *)
Inductive wfmt := FEmpty | FTL | FJSON | FLegacy | FMsgpack | FProtobuf.

(* the documented prefixes: "{" JSON, "SH" legacy, 39 02 58 56 TL, 8x/DE/DF MessagePack map, anything else Protobuf *)
Definition is_prefix (p b : bytes) : bool := bytes_eqb p (firstn (length p) b).
Definition detect (pkt : bytes) : wfmt :=
  match pkt with
  | [] => FEmpty
  | _ => if is_prefix [57; 2; 88; 86] pkt then FTL
         else if is_prefix [123] pkt then FJSON
         else if is_prefix [83; 72] pkt then FLegacy
         else if mp_looks_like_map pkt then FMsgpack
         else FProtobuf
  end.

(* what parse did, as seen by the Handler: the metrics handed to HandleMetrics in order, and how it ended *)
Inductive ending :=
| EDone                       (* returned nil *)
| EParseError (pkt_len : Z)   (* HandleParseError(pkt of that length, err), err returned *)
| ESilent                     (* err returned, HandleParseError not called (pkt passed to handleMetricsBatch empty) *)
| ECrash | ENoFuel.
Record outcome := { o_fmt : wfmt; o_metrics : list dmetric; o_end : ending }.

(* handleMetricsBatch with a parse error *)
Definition report (pkt : bytes) : ending := if zlen pkt =? 0 then ESilent else EParseError (zlen pkt).

(* `for len(pkt) > 0 { was := pkt; pkt, err = decode(batch, pkt); handleMetricsBatch(.., was, err) }` *)
Fixpoint loop_batches (dec : bytes -> res (list dmetric * bytes)) (fuel : nat) (acc : list dmetric) (pkt : bytes) : list dmetric * ending :=
  match pkt with
  | [] => (acc, EDone)
  | _ => match fuel with
         | O => (acc, ENoFuel)
         | S f => match dec pkt with
                  | Ok (ms, r) => loop_batches dec f (acc ++ ms) r
                  | Err => (acc, report pkt)
                  | Crash => (acc, ECrash)
                  | NoFuel => (acc, ENoFuel)
                  end
         end
  end.

Section Parse.
  Variable parse_f64 parse_u32 parse_i64 : bool -> bytes -> option Z.
  (* the JSON branch works on the tree the lexer yields for the packet (None: not lexable) *)
  Variable lex : bytes -> option jv.

  Definition parse (v : variant) (pkt : bytes) : outcome :=
    let f := detect pkt in
    match f with
    | FEmpty | FLegacy => {| o_fmt := f; o_metrics := []; o_end := EDone |}
    | FTL => let '(ms, e) := loop_batches tl_batch (length pkt) [] pkt in {| o_fmt := f; o_metrics := ms; o_end := e |}
    | FMsgpack => let '(ms, e) := loop_batches (mp_batch v) (length pkt) [] pkt in {| o_fmt := f; o_metrics := ms; o_end := e |}
    | FJSON =>
        match lex pkt with
        | Some t => match j_batch parse_f64 parse_u32 parse_i64 t with
                    | Ok ms => {| o_fmt := f; o_metrics := ms; o_end := EDone |}
                    | _ => {| o_fmt := f; o_metrics := []; o_end := report pkt |}
                    end
        | None => {| o_fmt := f; o_metrics := []; o_end := report pkt |}
        end
    | FProtobuf =>
        (* one call consumes everything or fails: the loop body runs once *)
        match pb_batch v (length pkt) [] pkt with
        | PbOk ms => {| o_fmt := f; o_metrics := ms; o_end := EDone |}
        | PbErr rest => {| o_fmt := f; o_metrics := []; o_end := report (if v_pb_err_whole v then pkt else rest) |}
        | PbNoFuel => {| o_fmt := f; o_metrics := []; o_end := ENoFuel |}
        end
    end.
End Parse.

(* ================= TCP framing (receiveLoop over a buffered stream) ================= *)
Definition max_frame_body : Z := 65535.
(* frames handed to parse; true = the loop ended with a framing error; the incomplete tail is kept waiting *)
Fixpoint frames (fuel : nat) (s : bytes) : list bytes * bool :=
  match fuel with
  | O => ([], false)
  | S f =>
      match takez 4 s with
      | None => ([], false)
      | Some (h, r) =>
          let n := le_dec h in
          if max_frame_body <? n then ([], true)
          else match takez n r with
               | None => ([], false)
               | Some (body, r') => let '(fs, e) := frames f r' in (body :: fs, e)
               end
      end
  end.

(* ================= encoders (what a conforming client sends) ================= *)
(* --- TL: the generic writer on the value of the batch --- *)
Definition mask_of (m : metric) : Z := d_mask (canon m).
Definition vo {A} (f : A -> value) (o : option A) : value := VOpt (match o with Some x => Some (f x) | None => None end).
Definition value_of_metric (m : metric) : value :=
  VList [VInt (mask_of m); VStr (m_name m);
         VList (map (fun kv => VList [VStr (fst kv); VStr (snd kv)]) (m_tags m));
         vo VInt (m_counter m); vo VInt (m_ts m);
         vo (fun l => VList (map VInt l)) (m_value m);
         vo (fun l => VList (map VInt l)) (m_unique m);
         vo (fun l => VList (map (fun p => VList [VList [VInt (fst p); VInt (snd p)]]) l)) (m_hist m)].
Definition value_of_batch (b : list metric) : value := VList [VInt 0; VList (map value_of_metric b)].
Definition enc_tl (b : list metric) : bytes := write [] (DBoxed tl_batch_tag batch_desc) (value_of_batch b).

(* --- MessagePack: the shortest headers, as msgp.Append* choose them --- *)
Definition mpe_str (s : bytes) : bytes :=
  let n := zlen s in
  (if n <? 32 then [160 + n] else if n <? 256 then 217 :: be_enc 1 n else if n <? 65536 then 218 :: be_enc 2 n else 219 :: be_enc 4 n) ++ s.
Definition mpe_map (n : Z) : bytes := if n <? 16 then [128 + n] else if n <? 65536 then 222 :: be_enc 2 n else 223 :: be_enc 4 n.
Definition mpe_arr (n : Z) : bytes := if n <? 16 then [144 + n] else if n <? 65536 then 220 :: be_enc 2 n else 221 :: be_enc 4 n.
Definition mpe_f64 (x : Z) : bytes := 203 :: be_enc 8 x.
(* msgp.AppendInt64 *)
Definition mpe_i64 (x : Z) : bytes :=
  if 0 <=? x then
    (if x <=? 127 then [x] else if x <=? 32767 then 209 :: be_enc 2 x
     else if x <=? 2147483647 then 210 :: be_enc 4 x else 211 :: be_enc 8 x)
  else if -32 <=? x then [x + 256]
  else if -128 <=? x then 208 :: be_enc 1 (x + 256)
  else if -32768 <=? x then 209 :: be_enc 2 (x + 65536)
  else if -2147483648 <=? x then 210 :: be_enc 4 (x + two32)
  else 211 :: be_enc 8 (x + two64).
(* msgp.AppendUint32 *)
Definition mpe_u32 (x : Z) : bytes :=
  if x <=? 127 then [x] else if x <=? 255 then 204 :: be_enc 1 x
  else if x <=? 65535 then 205 :: be_enc 2 x else 206 :: be_enc 4 x.
Definition oenc {A} (o : option A) (f : A -> bytes) : bytes := match o with Some x => f x | None => [] end.
Definition ocount {A} (o : option A) : Z := match o with Some _ => 1 | None => 0 end.
Definition enc_mp_metric (m : metric) : bytes :=
  mpe_map (2 + ocount (m_counter m) + ocount (m_ts m) + ocount (m_value m) + ocount (m_unique m) + ocount (m_hist m))
  ++ mpe_str k_name ++ mpe_str (m_name m)
  ++ mpe_str k_tags ++ mpe_map (zlen (m_tags m)) ++ flat_map (fun kv => mpe_str (fst kv) ++ mpe_str (snd kv)) (m_tags m)
  ++ oenc (m_counter m) (fun c => mpe_str k_counter ++ mpe_f64 c)
  ++ oenc (m_ts m) (fun t => mpe_str k_ts ++ mpe_u32 t)
  ++ oenc (m_value m) (fun l => mpe_str k_value ++ mpe_arr (zlen l) ++ flat_map mpe_f64 l)
  ++ oenc (m_unique m) (fun l => mpe_str k_unique ++ mpe_arr (zlen l) ++ flat_map mpe_i64 l)
  ++ oenc (m_hist m) (fun l => mpe_str k_histogram ++ mpe_arr (zlen l) ++ flat_map (fun p => 146 :: mpe_f64 (fst p) ++ mpe_f64 (snd p)) l).
Definition enc_mp (b : list metric) : bytes :=
  mpe_map 1 ++ mpe_str k_metrics ++ mpe_arr (zlen b) ++ flat_map enc_mp_metric b.

(* --- Protobuf: canonical varints; repeated scalars packed or not (both are valid encodings) --- *)
Fixpoint pbe_varint_go (fuel : nat) (x : Z) : bytes :=
  match fuel with
  | O => [x mod 128]
  | S f => if x <? 128 then [x] else (128 + x mod 128) :: pbe_varint_go f (x / 128)
  end.
Definition pbe_varint (x : Z) : bytes := pbe_varint_go 9 x.
Definition pbe_tag (fn t : Z) : bytes := pbe_varint (fn * 8 + t).
Definition pbe_len (fn : Z) (d : bytes) : bytes := pbe_tag fn 2 ++ pbe_varint (zlen d) ++ d.
Definition enc_pb_metric (packed : bool) (m : metric) : bytes :=
  pbe_len 1 (m_name m)
  ++ flat_map (fun kv => pbe_len 2 (pbe_len 1 (fst kv) ++ pbe_len 2 (snd kv))) (m_tags m)
  ++ oenc (m_counter m) (fun c => pbe_tag 3 1 ++ le_enc 8 c)
  ++ oenc (m_ts m) (fun t => pbe_tag 4 0 ++ pbe_varint t)
  ++ oenc (m_value m) (fun l => if packed then pbe_len 5 (flat_map (le_enc 8) l) else flat_map (fun x => pbe_tag 5 1 ++ le_enc 8 x) l)
  ++ oenc (m_unique m) (fun l => if packed then pbe_len 6 (flat_map (fun x => pbe_varint (u64 x)) l) else flat_map (fun x => pbe_tag 6 0 ++ pbe_varint (u64 x)) l)
  ++ oenc (m_hist m) (fun l => flat_map (fun p => pbe_len 7 (pbe_tag 1 1 ++ le_enc 8 (fst p) ++ pbe_tag 2 1 ++ le_enc 8 (snd p))) l).
Definition enc_pb (packed : bool) (b : list metric) : bytes := flat_map (fun m => pbe_len 13337 (enc_pb_metric packed m)) b.

(* proto3 as C++/Java/protocute write it: fields holding the default value (empty string, 0, empty list) are omitted *)
Definition pbe_str (fn : Z) (s : bytes) : bytes := match s with [] => [] | _ => pbe_len fn s end.
Definition pbe_f64nz (fn x : Z) : bytes := if x =? 0 then [] else pbe_tag fn 1 ++ le_enc 8 x.
Definition enc_pb_min_metric (m : metric) : bytes :=
  pbe_str 1 (m_name m)
  ++ flat_map (fun kv => pbe_len 2 (pbe_str 1 (fst kv) ++ pbe_str 2 (snd kv))) (m_tags m)
  ++ oenc (m_counter m) (pbe_f64nz 3)
  ++ oenc (m_ts m) (fun t => if t =? 0 then [] else pbe_tag 4 0 ++ pbe_varint t)
  ++ oenc (m_value m) (fun l => match l with [] => [] | _ => pbe_len 5 (flat_map (le_enc 8) l) end)
  ++ oenc (m_unique m) (fun l => match l with [] => [] | _ => pbe_len 6 (flat_map (fun x => pbe_varint (u64 x)) l) end)
  ++ oenc (m_hist m) (fun l => flat_map (fun p => pbe_len 7 (pbe_f64nz 1 (fst p) ++ pbe_f64nz 2 (snd p))) l).
Definition enc_pb_min (b : list metric) : bytes := flat_map (fun m => pbe_len 13337 (enc_pb_min_metric m)) b.

(* --- JSON: the tree a client serialises; numbers through a printer given as parameter --- *)
Section JsonEnc.
  Variable print_f64 print_u32 print_i64 : Z -> bytes.
  Definition jo {A} (k : bytes) (o : option A) (f : A -> jv) : list (bytes * jv) := match o with Some x => [(k, f x)] | None => [] end.
  Definition enc_json_metric (m : metric) : jv :=
    JObj ([(k_name, JStr (m_name m)); (k_tags, JObj (map (fun kv => (fst kv, JStr (snd kv))) (m_tags m)))]
          ++ jo k_counter (m_counter m) (fun c => JNum (print_f64 c))
          ++ jo k_ts (m_ts m) (fun t => JNum (print_u32 t))
          ++ jo k_value (m_value m) (fun l => JArr (map (fun x => JNum (print_f64 x)) l))
          ++ jo k_unique (m_unique m) (fun l => JArr (map (fun x => JNum (print_i64 x)) l))
          ++ jo k_histogram (m_hist m) (fun l => JArr (map (fun p => JArr [JNum (print_f64 (fst p)); JNum (print_f64 (snd p))]) l))).
  Definition enc_json (b : list metric) : jv := JObj [(k_metrics, JArr (map enc_json_metric b))].
End JsonEnc.

(* ---------- well-formed batches: what the Go types and the formats can hold ---------- *)
Definition is_bytes (s : bytes) : bool := forallb byte_ok s && (zlen s <? two32).
Definition is_f64 (x : Z) : bool := (0 <=? x) && (x <? two64).
Definition is_i64 (x : Z) : bool := (- two63 <=? x) && (x <? two63).
Definition oall {A} (p : A -> bool) (o : option A) : bool := match o with Some x => p x | None => true end.
Definition wf_metric (m : metric) : bool :=
  is_bytes (m_name m)
  && forallb (fun kv => is_bytes (fst kv) && is_bytes (snd kv)) (m_tags m) && (zlen (m_tags m) <? two32)
  && oall is_f64 (m_counter m)
  && oall (fun t => (0 <=? t) && (t <? two32)) (m_ts m)
  && oall (fun l => forallb is_f64 l && (zlen l <? two32)) (m_value m)
  && oall (fun l => forallb is_i64 l && (zlen l <? two32)) (m_unique m)
  && oall (fun l => forallb (fun p => is_f64 (fst p) && is_f64 (snd p)) l && (zlen l <? two32)) (m_hist m).
Definition wf_batch (b : list metric) : bool := forallb wf_metric b && (zlen b <? two32).
