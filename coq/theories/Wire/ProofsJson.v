(* C13 — JSON at tree level: the generated reader applied to the tree a client serialises, under the round-trip
   hypotheses about the number printer/parser (strconv). *)
From Coq Require Import ZArith List Bool Lia ZifyBool.
From SH Require Import Common.Wrap TL.Model Wire.Model Wire.Proofs.
Import ListNotations.
Open Scope Z_scope.

Section JsonProofs.
  Variable parse_f64 parse_u32 parse_i64 : bool -> bytes -> option Z.
  Variable print_f64 print_u32 print_i64 : Z -> bytes.
  (* the doubles whose shortest decimal text parses back to the same bits (all but NaN payloads) *)
  Variable json_f64 : Z -> bool.
  Hypothesis Hf : forall x, json_f64 x = true -> parse_f64 false (print_f64 x) = Some x.
  Hypothesis Hu : forall t, 0 <= t < two32 -> parse_u32 false (print_u32 t) = Some t.
  Hypothesis Hi : forall x, - two63 <= x < two63 -> parse_i64 false (print_i64 x) = Some x.

  Definition json_metric_ok (m : metric) : bool :=
    oall json_f64 (m_counter m) && oall (forallb json_f64) (m_value m)
    && oall (forallb (fun p => json_f64 (fst p) && json_f64 (snd p))) (m_hist m).

  Notation jb := (j_batch parse_f64 parse_u32 parse_i64).
  Notation jm := (j_metric parse_f64 parse_u32 parse_i64).

  Lemma j_map_enc {A B} (f : jv -> res B) (g : A -> jv) (h : A -> B) (P : A -> Prop) l :
    (forall x, P x -> f (g x) = Ok (h x)) -> Forall P l -> j_map f (map g l) = Ok (map h l).
  Proof.
    intros H HF. induction HF as [|x l Hx _ IH]; cbn [map j_map]; [reflexivity|].
    rewrite H by assumption. cbn [bind]. rewrite IH. reflexivity.
  Qed.

  Lemma j_tags_enc l : j_tags (JObj (map (fun kv => (fst kv, JStr (snd kv))) l)) = Ok l.
  Proof.
    unfold j_tags. induction l as [|[k v] l IH]; cbn [map j_map]; [reflexivity|].
    cbn [snd fst j_str bind]. rewrite IH. reflexivity.
  Qed.
  Lemma j_f64s_enc l : forallb json_f64 l = true ->
    j_arr (j_num parse_f64) (JArr (map (fun x => JNum (print_f64 x)) l)) = Ok l.
  Proof.
    intros H. unfold j_arr. rewrite (j_map_enc _ _ (fun x => x) (fun x => json_f64 x = true)).
    - rewrite map_id. reflexivity.
    - intros x Hx. cbn [j_num]. rewrite Hf by assumption. reflexivity.
    - apply forallb_Forall. assumption.
  Qed.
  Lemma j_i64s_enc l : forallb is_i64 l = true ->
    j_arr (j_num parse_i64) (JArr (map (fun x => JNum (print_i64 x)) l)) = Ok l.
  Proof.
    intros H. unfold j_arr. rewrite (j_map_enc _ _ (fun x => x) (fun x => is_i64 x = true)).
    - rewrite map_id. reflexivity.
    - intros x Hx. cbn [j_num]. rewrite Hi by (apply is_i64_spec; assumption). reflexivity.
    - apply forallb_Forall. assumption.
  Qed.
  Lemma j_hist_enc l : forallb (fun p => json_f64 (fst p) && json_f64 (snd p)) l = true ->
    j_arr (j_centroid parse_f64) (JArr (map (fun p => JArr [JNum (print_f64 (fst p)); JNum (print_f64 (snd p))]) l)) = Ok l.
  Proof.
    intros H. unfold j_arr. rewrite (j_map_enc _ _ (fun x => x) (fun p => json_f64 (fst p) && json_f64 (snd p) = true)).
    - rewrite map_id. reflexivity.
    - intros [a b] Hx. cbn [fst snd] in *. apply andb_true_iff in Hx as [H1 H2]. cbn [j_centroid j_num].
      rewrite !Hf by assumption. reflexivity.
    - apply forallb_Forall. assumption.
  Qed.

  Lemma j_metric_enc m : wf_metric m = true -> json_metric_ok m = true ->
    jm (enc_json_metric print_f64 print_u32 print_i64 m) = Ok (canon m).
  Proof.
    intros H HJ. apply wf_metric_parts in H as (Hn & Ht & Htl & Hc & Hts & Hv & Hu' & Hh).
    unfold json_metric_ok in HJ. apply andb_true_iff in HJ as [HJ J3]. apply andb_true_iff in HJ as [J1 J2].
    unfold enc_json_metric, j_metric, canon.
    destruct (m_counter m) as [c|], (m_ts m) as [t|], (m_value m) as [lv|], (m_unique m) as [lu|], (m_hist m) as [lh|];
      cbn [oall] in *; cbn [jo app opt_app];
      repeat match goal with H : _ && _ = true |- _ => apply andb_true_iff in H as [? ?] end;
      cbn [j_fields existsb]; repeat (cbv beta iota; match goal with
        | |- context [bytes_eqb ?a ?b] => let r := eval vm_compute in (bytes_eqb a b) in change (bytes_eqb a b) with r
        end); cbn [orb j_str bind j_num];
      rewrite ?j_tags_enc; cbn [bind];
      rewrite ?Hf by assumption; rewrite ?Hu by lia; cbn [bind];
      rewrite ?j_f64s_enc by assumption; cbn [bind];
      rewrite ?j_i64s_enc by assumption; cbn [bind];
      rewrite ?j_hist_enc by assumption; cbn [bind]; reflexivity.
  Qed.

  Theorem j_batch_enc : forall b, wf_batch b = true -> forallb json_metric_ok b = true ->
    jb (enc_json print_f64 print_u32 print_i64 b) = Ok (map canon b).
  Proof.
    intros b H HJ. unfold wf_batch in H. apply andb_true_iff in H as [Hb _].
    unfold enc_json, j_batch. cbn [j_batch_fields existsb].
    replace (bytes_eqb k_metrics k_fields_mask) with false by reflexivity.
    replace (bytes_eqb k_metrics k_metrics) with true by reflexivity.
    unfold j_arr. rewrite (j_map_enc _ _ canon (fun m => wf_metric m = true /\ json_metric_ok m = true)).
    - reflexivity.
    - intros m [H1 H2]. apply j_metric_enc; assumption.
    - apply Forall_forall. intros m Hin. split.
      + rewrite forallb_forall in Hb. apply Hb. assumption.
      + rewrite forallb_forall in HJ. apply HJ. assumption.
  Qed.
End JsonProofs.
