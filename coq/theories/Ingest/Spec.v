(* C12 — the vocabulary of the property, stated independently of the code's control flow:
   which events are valid, which reasons may be named, what the documented aggregates of an accepted event are. *)
From Coq Require Import ZArith QArith List Bool.
From SH Require Import Common.Wrap Gen.TagValueUnicode TagValue.Model Gen.IngestConsts Ingest.Model.
Import ListNotations.
Open Scope Z_scope.

(* "finite, within +/-MaxFloat32" *)
Definition valid_value (f : fval) : Prop := exists q, f = Fin q /\ (- maxf <= q)%Q /\ (q <= maxf)%Q.
(* "... counters are non-negative" *)
Definition valid_counter (f : fval) : Prop := exists q, f = Fin q /\ (0 <= q)%Q /\ (q <= maxf)%Q.

(* a tag the metric does not have: its name is what gets recorded, so the name must be valid;
   a tag the metric has: its value must be valid UTF-8 (AppendValidStringValue succeeds — by C11 that is exactly
   "the bytes are valid UTF-8") and must not carry the corrupted-balancer marker *)
Definition tag_known (t : tag) : bool :=
  match t_res t with RNone _ => false | RTag idx _ _ => negb (max_tags <=? idx) end.
Definition tag_ok (t : tag) : Prop :=
  if tag_known t then append_valid false (t_value t) <> None /\ corrupted (t_value t) = false
  else append_valid false (t_name t) <> None.

Definition has_values (e : event) : Prop := e_values e <> [] \/ e_hist e <> [].
Definition is_empty (e : event) : Prop :=
  e_values e = [] /\ e_hist e = [] /\ e_uniq e = [] /\ (fq (e_counter e) == 0)%Q.

(* the property's list: counter, values and histogram entries finite and in range, counters non-negative,
   values and uniques not both present, not empty, tag names and values valid *)
Definition valid_event (e : event) : Prop :=
  valid_counter (e_counter e)
  /\ Forall valid_value (e_values e)
  /\ Forall (fun h => valid_value (fst h) /\ valid_counter (snd h)) (e_hist e)
  /\ ~ (has_values e /\ e_uniq e <> [])
  /\ ~ is_empty e
  /\ Forall tag_ok (e_tags e).

(* the histogram-of-weight-zero corner (finding F-C12a): the repaired validation treats it as empty *)
Definition zero_weight_only (e : event) : Prop :=
  e_values e = [] /\ e_hist e <> [] /\ (hist_weight (e_hist e) <= 0)%Q.
Definition valid_event' (e : event) : Prop := valid_event e /\ ~ zero_weight_only e.

(* the reasons an ingestion-status record may name, and when each of them is true of the event *)
Definition reason_holds (fixed : bool) (code : Z) (m : meta) (e : event) : Prop :=
  (code = st_err_metric_disabled /\ m_disabled m = true)
  \/ (code = st_err_value_unique_both_set /\ has_values e /\ e_uniq e <> [])
  \/ (code = st_err_zero_counter /\ is_empty e)
  \/ (code = st_err_zero_counter /\ fixed = true /\ zero_weight_only e)
  \/ (code = st_err_nan_inf_counter /\ (e_counter e = NaN \/ exists h, In h (e_hist e) /\ snd h = NaN))
  \/ (code = st_err_negative_counter /\ (f_lt0 (e_counter e) = true \/ exists h, In h (e_hist e) /\ f_lt0 (snd h) = true))
  \/ (code = st_err_too_big_counter /\ (f_gt_max (e_counter e) = true \/ exists h, In h (e_hist e) /\ f_gt_max (snd h) = true))
  \/ (code = st_err_nan_inf_value /\ exists v, (In v (e_values e) \/ In v (map fst (e_hist e))) /\ v = NaN)
  \/ (code = st_err_too_big_value /\ exists v, (In v (e_values e) \/ In v (map fst (e_hist e)))
                                               /\ (f_gt_max v = true \/ f_lt_negmax v = true))
  \/ (code = st_err_tag_name_encoding /\ exists t, In t (e_tags e) /\ tag_known t = false /\ append_valid false (t_name t) = None)
  \/ (code = st_err_tag_value_encoding /\ exists t, In t (e_tags e) /\ tag_known t = true /\ append_valid false (t_value t) = None)
  \/ (code = st_err_tag_value_corrupted /\ exists t, In t (e_tags e) /\ tag_known t = true /\ corrupted (t_value t) = true).

(* documented aggregates: every value counts once, every histogram entry with its weight *)
Definition samples (e : event) : list (Q * Q) :=
  map (fun v => (fq v, 1%Q)) (e_values e) ++ map (fun h => (fq (fst h), fq (snd h))) (e_hist e)
  ++ map (fun u => (inject_Z u, 1%Q)) (e_uniq e).
Definition wsum (f : Q -> Q) (l : list (Q * Q)) : Q := fold_right (fun s acc => (f (fst s) * snd s + acc)%Q) 0%Q l.
Definition total_weight (e : event) : Q := wsum (fun _ => 1%Q) (samples e).
Definition weighted_sum (e : event) : Q := wsum (fun v => v) (samples e).
Definition weighted_sumsq (e : event) : Q := wsum (fun v => (v * v)%Q) (samples e).

(* the rows a rejected event leaves: one ingestion-status record per target shard (the secondary shard only once it
   has started), naming [code]/[key]/[str] *)
Definition reject_rows (c : cache) (cur : Z) (m : meta) (rt : route) (tag0 code key : Z) (str : bytes) : list row :=
  status_row c (rt_sh1 rt) cur 0 metric_ingestion_status [tag0; m_id m; code; key; component_agent] str
  ++ match rt_sh2 rt with
     | Some s => status_row c s cur (rt_drop rt) metric_ingestion_status [tag0; m_id m; code; key; component_agent] str
     | None => []
     end.
