(* C12 — an accepted event leaves exactly one OK record in its primary shard. *)
From Coq Require Import ZArith QArith List Bool Lia.
From SH Require Import Common.Wrap Gen.TagValueUnicode TagValue.Model Gen.IngestConsts Ingest.Model Ingest.Spec Ingest.Proofs Ingest.ProofsApply.
Import ListNotations.
Open Scope Z_scope.

Definition is_ok_record (sh : Z) (r : row) : bool :=
  (r_shard r =? sh) && (r_metric r =? metric_ingestion_status) && (fst (r_key r 2) =? st_ok_cached).

Lemma filter_none : forall {A} (f : A -> bool) l, (forall x, In x l -> f x = false) -> filter f l = [].
Proof.
  induction l; simpl; intros; auto. rewrite (H a) by auto. apply IHl. auto.
Qed.

Definition warn_codes : list Z :=
  [st_warn_tag_name_not_found; st_warn_tag_name_found_draft; st_warn_tag_set_twice;
   st_warn_invalid_raw_tag_value; st_warn_deprecated_key_name; st_warn_ts_clamped_future].

Lemma warn_not_ok : forall cd, In cd warn_codes -> (cd =? st_ok_cached) = false.
Proof.
  assert (H : forallb (fun cd => negb (cd =? st_ok_cached)) warn_codes = true) by (vm_compute; reflexivity).
  intros cd Hin. rewrite forallb_forall in H. apply negb_true_iff. auto.
Qed.

Lemma status_row_not_ok : forall c sh0 sh ts drop tag0 mid cd key str r,
  In cd warn_codes ->
  In r (status_row c sh ts drop metric_ingestion_status [tag0; mid; cd; key; component_agent] str) ->
  is_ok_record sh0 r = false.
Proof.
  intros. apply status_row_in in H0. destruct H0 as [-> _]. unfold is_ok_record. simpl.
  rewrite (warn_not_ok _ H). apply andb_false_r.
Qed.

Lemma data_rows_not_ok : forall c cur m e h top ts sh drop sh0 r,
  0 < m_id m -> In r (data_rows c cur m e h top ts sh drop) -> is_ok_record sh0 r = false.
Proof.
  intros. apply data_rows_in in H0. destruct H0 as [_ [E|(_ & _ & E)]]; unfold is_ok_record.
  - destruct (neg_metric_ne m H) as [N _]. rewrite E. replace (m_id m =? metric_ingestion_status) with false
      by (symmetry; apply Z.eqb_neq; auto). rewrite andb_false_r. reflexivity.
  - rewrite E. rewrite warn_not_ok by (unfold warn_codes; simpl; tauto). apply andb_false_r.
Qed.

Theorem accepted_exactly_one_ok : forall fixed fixb c cur m rt e,
  rt_sh1ok rt = true -> 0 <= cur -> 0 < m_id m ->
  h_status (header_of fixed c m e) = 0 ->
  (forall s, rt_sh2 rt = Some s -> s <> rt_sh1 rt) ->
  length (filter (is_ok_record (rt_sh1 rt)) (handle fixed fixb c cur m rt e)) = 1%nat.
Proof.
  intros fixed fixb c cur m rt e Hok Hcur Hm Hs Hne.
  unfold handle, apply_metric. rewrite Hok, Hs. simpl.
  set (h := header_of fixed c m e).
  rewrite !filter_app. rewrite status_row_drop0 by auto. simpl filter at 1.
  assert (OKR : is_ok_record (rt_sh1 rt)
            (status_record c (rt_sh1 rt) cur metric_ingestion_status
               [fst (lookup (h_key h) 0); m_id m; st_ok_cached; h_tagkey h; component_agent] []) = true).
  { unfold is_ok_record. simpl. rewrite !Z.eqb_refl. reflexivity. }
  rewrite OKR.
  assert (W : forall sh drop,
    filter (is_ok_record (rt_sh1 rt))
      (match h_notfound h with Some s => status_row c sh cur drop metric_ingestion_status [fst (lookup (h_key h) 0); m_id m; st_warn_tag_name_not_found; 0; component_agent] s | None => [] end) = []
    /\ filter (is_ok_record (rt_sh1 rt))
      (match h_draft h with Some s => status_row c sh cur drop metric_ingestion_status [fst (lookup (h_key h) 0); m_id m; st_warn_tag_name_found_draft; 0; component_agent] s | None => [] end) = []
    /\ filter (is_ok_record (rt_sh1 rt))
      (if h_twice h =? 0 then [] else status_row c sh cur drop metric_ingestion_status [fst (lookup (h_key h) 0); m_id m; st_warn_tag_set_twice; h_twice h; component_agent] []) = []
    /\ filter (is_ok_record (rt_sh1 rt))
      (if h_rawkey h =? 0 then [] else status_row c sh cur drop metric_ingestion_status [fst (lookup (h_key h) 0); m_id m; st_warn_invalid_raw_tag_value; h_rawkey h; component_agent] (h_rawval h)) = []
    /\ filter (is_ok_record (rt_sh1 rt))
      (if h_legacy h =? 0 then [] else status_row c sh cur drop metric_ingestion_status [fst (lookup (h_key h) 0); m_id m; st_warn_deprecated_key_name; h_legacy h; component_agent] []) = []).
  { intros sh drop. repeat split.
    - destruct (h_notfound h); auto. apply filter_none. intros r Hin. eapply status_row_not_ok; [|exact Hin]. unfold warn_codes; simpl; tauto.
    - destruct (h_draft h); auto. apply filter_none. intros r Hin. eapply status_row_not_ok; [|exact Hin]. unfold warn_codes; simpl; tauto.
    - destruct (h_twice h =? 0); auto. apply filter_none. intros r Hin. eapply status_row_not_ok; [|exact Hin]. unfold warn_codes; simpl; tauto.
    - destruct (h_rawkey h =? 0); auto. apply filter_none. intros r Hin. eapply status_row_not_ok; [|exact Hin]. unfold warn_codes; simpl; tauto.
    - destruct (h_legacy h =? 0); auto. apply filter_none. intros r Hin. eapply status_row_not_ok; [|exact Hin]. unfold warn_codes; simpl; tauto. }
  assert (D : forall top ts sh drop, filter (is_ok_record (rt_sh1 rt)) (data_rows c cur m e h top ts sh drop) = []).
  { intros. apply filter_none. intros r Hin. eapply data_rows_not_ok; eauto. }
  destruct (W (rt_sh1 rt) 0) as (W1 & W2 & W3 & W4 & W5). rewrite W1, W2, W3, W4, W5. simpl.
  rewrite D. simpl.
  destruct (rt_sh2 rt) as [s|] eqn:E2; simpl; auto.
  rewrite !filter_app.
  destruct (W s (rt_drop rt)) as (V1 & V2 & V3 & V4 & V5). rewrite V1, V2, V3, V4, V5. simpl.
  assert (ST : filter (is_ok_record (rt_sh1 rt))
                 (status_row c s cur (rt_drop rt) metric_ingestion_status
                    [fst (lookup (h_key h) 0); m_id m; st_ok_cached; h_tagkey h; component_agent] []) = []).
  { apply filter_none. intros r Hin. apply status_row_metric in Hin. destruct Hin as (_ & Hsh & _).
    unfold is_ok_record. rewrite Hsh.
    replace (s =? rt_sh1 rt) with false by (symmetry; apply Z.eqb_neq; apply Hne; reflexivity). reflexivity. }
  rewrite ST. destruct fixb; simpl; rewrite D; reflexivity.
Qed.
