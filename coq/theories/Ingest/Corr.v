(* Correspondence cases for C12: one case = one event handled by the real code
   (worker dispatch replicated by the harness: disabled check, Agent.Map or Agent.MapEnvironment, Agent.shard observed,
   Agent.ApplyMetric) on a fresh agent, with every row read back from every shard's buckets.
   Byte strings are printed as TagValue.Corr segments (Coq.Strings.Byte constructors, run-length encoded);
   float64 values as exact rationals [I n] / [D num den]. *)
From Coq Require Import ZArith QArith Qabs List Bool.
From Coq Require Strings.Byte.
From SH Require Import Common.Wrap Common.Corr Gen.TagValueUnicode TagValue.Model TagValue.Corr Gen.IngestConsts Ingest.Model.
Import ListNotations.
Open Scope Z_scope.

(* printed float64: integer, exact rational num/den, +Inf, -Inf, NaN (constructors parse fast) *)
Inductive pf := I (n : Z) | D (n : Z) (d : positive) | Pi | Ni | Nn.
Definition fv (x : pf) : fval :=
  match x with I n => Fin (inject_Z n) | D n d => Fin (Qmake n d) | Pi => PInf | Ni => NInf | Nn => NaN end.
Definition qv (x : pf) : Q := fq (fv x).

Definition bstr := list seg.

Inductive otag := OT (name value : bstr) (res : tres).

Inductive oagg := ONone | OA (mn mx sum sumsq : pf).
Inductive okv := K (i x : Z) (s : bstr).
Inductive ocache := CE (s : bstr) (id : Z).
Inductive ohist := H (v w : pf).

(* one row as read from a bucket: shard, metric, key.Timestamp, non-empty (index, Tags[i], STags[i]) entries,
   top entry key ((0,[]) = tail), MaxCounterHostTag, counter, value aggregates (ONone = ValueSet false),
   HLL items, ValueTDigest != nil *)
Inductive orow :=
| OR (sh metric ts : Z) (key : list okv) (topI : Z) (topS : bstr) (hostI : Z) (hostS : bstr)
     (count : pf) (a : oagg) (uniq : Z) (digest : bool)
| OS (sh metric ts tag0 mid code key comp topI : Z) (topS : bstr) (count : pf).

Inductive case :=
| CEv (c : list ocache) (cur : Z) (m : meta) (rt : route)
      (counter : pf) (values : list pf) (hist : list ohist) (uniq : list Z)
      (tags : list otag) (ts : Z) (host : bstr) (obs : list orow).

Definition tagv_eqb (a : tagv) (i : Z) (s : bstr) : bool := (fst a =? i) && list_eqb (snd a) (expand s).

Fixpoint okey (k : list okv) (i : Z) : Z * bstr :=
  match k with
  | [] => (0, [])
  | K j x s :: t => if j =? i then (x, s) else okey t i
  end.

(* equal, or equal up to float64 rounding of the final multiplication/division (relative 2^-40) *)
Definition qclose (m o : Q) : bool :=
  Qeq_bool m o || Qle_bool (Qabs (m - o) * inject_Z (2 ^ 40)) (Qabs m).

Definition agg_match (a : agg) (o : oagg) : bool :=
  match o with
  | ONone => negb (a_set a)
  | OA mn mx sum sumsq =>
      a_set a && Qeq_bool (a_min a) (qv mn) && Qeq_bool (a_max a) (qv mx) && qclose (a_sum a) (qv sum) && qclose (a_sumsq a) (qv sumsq)
  end.

Definition all_indices : list Z := map Z.of_nat (seq 0 (Z.to_nat max_tags)).

(* an ingestion-status record in its usual shape, abbreviated by the harness (lossless): metric, shard, second,
   Tags[0..4] = tag0, metric id, code, tag key, component; top entry; count; no string tags, no host, no values *)
Definition expand_row (o : orow) : orow :=
  match o with
  | OS sh metric ts tag0 mid code key comp topI topS count =>
      OR sh metric ts
         (filter (fun k => match k with K _ x _ => negb (x =? 0) end) [K 0 tag0 []; K 1 mid []; K 2 code []; K 3 key []; K 4 comp []])
         topI topS 0 [] count ONone 0 false
  | _ => o
  end.

(* written with [if] so that vm_compute (call by value) skips the key sweep when the cheap fields already differ *)
Definition row_match (r : row) (o : orow) : bool :=
  match expand_row o with
  | OR sh metric ts key topI topS hostI hostS count a uq dg =>
      if (r_shard r =? sh) && (r_metric r =? metric) && (r_ts r =? ts) && (r_uniq r =? uq) && Bool.eqb (r_digest r) dg then
        if tagv_eqb (r_top r) topI topS && tagv_eqb (r_host r) hostI hostS && qclose (r_count r) (qv count) && agg_match (r_agg r) a
        then forallb (fun i => let '(x, s) := okey key i in tagv_eqb (r_key r i) x s) all_indices
        else false
      else false
  | OS _ _ _ _ _ _ _ _ _ _ _ => false
  end.

Definition rows_match (rs : list row) (os : list orow) : bool :=
  (length rs =? length os)%nat
  && forallb (fun r => existsb (row_match r) os) rs
  && forallb (fun o => existsb (fun r => row_match r o) rs) os.

Definition ok (c : case) : bool :=
  match c with
  | CEv ch cur m rt counter values hist uniq tags ts host obs =>
      let c' := map (fun kv => match kv with CE s id => (expand s, id) end) ch in
      let e := mkEv (fv counter) (map fv values) (map (fun h => match h with H v w => (fv v, fv w) end) hist) uniq
                    (map (fun t => match t with OT n v r => mkTag (expand n) (expand v) r end) tags) ts (expand host) in
      (* dual model: the code as it is, or with finding F-C12a and/or F-C12b repaired *)
      existsb (fun v => rows_match (handle (fst v) (snd v) c' cur m rt e) obs)
              [(false, false); (true, false); (false, true); (true, true)]
  end.

Definition mism := mismatches ok.
