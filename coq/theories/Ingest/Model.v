(* C12 — ingestion accepts only valid events and accounts for every rejected one.
   Executable model of
     internal/format/format.go        ValidateCounter, ValidateValue, ContainsCorruptedBalancerValue, AppendHexStringValue
     internal/data_model/validation.go ValidateMetricData, MapValidateTag
     internal/data_model/mapped_metric_header.go  SetTag, SetInvalidString
     internal/agent/agent_mapping.go  Map, mapAllTags, MapEnvironment/mapEnvironmentTag
     cmd/statshouse/worker.go         the dispatch of HandleMetrics for a metric that was found (disabled -> MapEnvironment)
     internal/agent/agent.go          ApplyMetric (which status rows, which shard, which Apply function)
     internal/agent/agent_shard.go    ApplyUnique/ApplyValues/ApplyCounter (count defaulting, timestamp clamp, secondary
                                      shard start time), AddCounterHost(StringBytes)SrcIngestionStatus
     internal/data_model/bucket.go    MultiValue.ApplyValues/ApplyUnique, ItemValue.addOnlyValue/Merge into an empty row,
                                      RemoveStringTopTag/MapStringTop (tail vs top entry)
   Reused: TagValue.Model (C11) append_valid (= AppendValidStringValue), raw32/raw64 (= ContainsRawTagValue(64)Bytes).
   float64 is [fval]: an exact rational, +-Inf or NaN, with the IEEE comparison table; aggregates are exact over Q.
   [fixed] / [fixb] select the repaired variants of findings F-C12a / F-C12b (see Props/C12.v); [false] is the code as it is.
   Executable definitions only. *)
From Coq Require Import ZArith QArith List Bool.
From SH Require Import Common.Wrap Gen.TagValueUnicode TagValue.Model Gen.IngestConsts.
Import ListNotations.
Open Scope Z_scope.

(* ------------------------------------------------------------------ float64 values *)

Inductive fval := Fin (q : Q) | PInf | NInf | NaN.

Definition qlt (a b : Q) : bool := negb (Qle_bool b a).
Definition maxf : Q := inject_Z max_float32.

Definition f_is_nan (f : fval) : bool := match f with NaN => true | _ => false end.
(* f < 0, f > MaxFloat32, f < -MaxFloat32, f == 0 as Go evaluates them (every comparison with NaN is false) *)
Definition f_lt0 (f : fval) : bool := match f with Fin q => qlt q 0 | NInf => true | _ => false end.
Definition f_gt_max (f : fval) : bool := match f with Fin q => qlt maxf q | PInf => true | _ => false end.
Definition f_lt_negmax (f : fval) : bool := match f with Fin q => qlt q (- maxf) | NInf => true | _ => false end.
Definition f_is0 (f : fval) : bool := match f with Fin q => Qeq_bool q 0 | _ => false end.
(* the rational a validated value stands for *)
Definition fq (f : fval) : Q := match f with Fin q => q | _ => 0%Q end.

(* format.ValidateCounter / ValidateValue; 0 = ok *)
Definition validate_counter (f : fval) : Z :=
  if f_is_nan f then st_err_nan_inf_counter
  else if f_lt0 f then st_err_negative_counter
  else if f_gt_max f then st_err_too_big_counter
  else 0.

Definition validate_value (f : fval) : Z :=
  if f_is_nan f then st_err_nan_inf_value
  else if f_gt_max f then st_err_too_big_value
  else if f_lt_negmax f then st_err_too_big_value
  else 0.

(* ------------------------------------------------------------------ events *)

Definition bytes := list Z.
Definition tagv := (Z * bytes)%type.          (* data_model.TagUnion: (I, S) *)
Definition tagv0 : tagv := (0, []).

Inductive tkind := KPlain | KRaw | KRaw64.
(* what MetricMetaValue.Name2TagAgentFastBytes answers for the tag's name (observed, C12 does not model the name
   tables): not a tag of the metric ([draft] = GetTagDraft finds the normalised name), or tag [index] of [kind];
   [legacy] = the name was a deprecated "keyN" name *)
Inductive tres := RNone (draft : bool) | RTag (index : Z) (kind : tkind) (legacy : bool).
Record tag := mkTag { t_name : bytes; t_value : bytes; t_res : tres }.

Record event := mkEv {
  e_counter : fval;
  e_values : list fval;
  e_hist : list (fval * fval);     (* (value, weight) *)
  e_uniq : list Z;                 (* int64 *)
  e_tags : list tag;
  e_ts : Z;                        (* h.Key.Timestamp as filled by the receiver *)
  e_host : bytes                   (* HandlerArgs.Host *)
}.

Definition is_nil {A} (l : list A) : bool := match l with [] => true | _ => false end.

Fixpoint first_err {A} (f : A -> Z) (l : list A) : Z :=
  match l with
  | [] => 0
  | x :: t => let e := f x in if e =? 0 then first_err f t else e
  end.

Definition validate_hist_entry (h : fval * fval) : Z :=
  let e := validate_value (fst h) in if e =? 0 then validate_counter (snd h) else e.

Definition hist_weight (hs : list (fval * fval)) : Q := fold_right (fun h acc => (fq (snd h) + acc)%Q) 0%Q hs.

(* data_model.ValidateMetricData.  The repaired variant additionally rejects an event whose only payload is a
   histogram of total weight 0. *)
Definition validate_metric_data (fixed : bool) (e : event) : Z :=
  let nv := len (e_values e) + len (e_hist e) in
  let nu := len (e_uniq e) in
  if negb (nv =? 0) && negb (nu =? 0) then st_err_value_unique_both_set
  else if (nv =? 0) && (nu =? 0) && f_is0 (e_counter e) then st_err_zero_counter
  else
    let e1 := validate_counter (e_counter e) in
    if negb (e1 =? 0) then e1 else
    let e2 := first_err validate_value (e_values e) in
    if negb (e2 =? 0) then e2 else
    let e3 := first_err validate_hist_entry (e_hist e) in
    if negb (e3 =? 0) then e3 else
    if fixed && is_nil (e_values e) && negb (is_nil (e_hist e)) && Qle_bool (hist_weight (e_hist e)) 0
    then st_err_zero_counter else 0.

(* ------------------------------------------------------------------ mapping header *)

Record hdr := mkH {
  h_key : list (Z * tagv);      (* h.Key.Tags/STags as an association list, newest first *)
  h_set : list Z;               (* indices with IsTagSet *)
  h_hset : bool;                (* IsHKeySet *)
  h_host : tagv;                (* HostTag *)
  h_status : Z;                 (* IngestionStatus *)
  h_tagkey : Z;                 (* IngestionTagKey *)
  h_invalid : bytes;            (* InvalidString *)
  h_notfound : option bytes;    (* NotFoundTagName (nil = None) *)
  h_draft : option bytes;       (* FoundDraftTagName *)
  h_twice : Z;                  (* TagSetTwiceKey *)
  h_legacy : Z;                 (* LegacyCanonicalTagKey *)
  h_rawval : bytes;             (* InvalidRawValue *)
  h_rawkey : Z                  (* InvalidRawTagKey *)
}.

Definition hdr0 : hdr := mkH [] [] false tagv0 0 0 [] None None 0 0 [] 0.

Fixpoint lookup (k : list (Z * tagv)) (i : Z) : tagv :=
  match k with
  | [] => tagv0
  | (j, v) :: t => if j =? i then v else lookup t i
  end.

Fixpoint memz (x : Z) (l : list Z) : bool :=
  match l with [] => false | y :: t => (x =? y) || memz x t end.

(* MappedMetricHeader.SetTag *)
Definition set_tag (h : hdr) (idx : Z) (v : tagv) (key : Z) : hdr :=
  if idx =? host_tag_index then
    mkH (h_key h) (h_set h) true v (h_status h) (h_tagkey h) (h_invalid h) (h_notfound h) (h_draft h)
        (if h_hset h then key else h_twice h) (h_legacy h) (h_rawval h) (h_rawkey h)
  else
    mkH ((idx, v) :: h_key h) (idx :: h_set h) (h_hset h) (h_host h) (h_status h) (h_tagkey h) (h_invalid h)
        (h_notfound h) (h_draft h) (if memz idx (h_set h) then key else h_twice h) (h_legacy h) (h_rawval h) (h_rawkey h).

(* MappedMetricHeader.SetInvalidString *)
Definition set_invalid (h : hdr) (status key : Z) (s : bytes) : hdr :=
  mkH (h_key h) (h_set h) (h_hset h) (h_host h) status key s (h_notfound h) (h_draft h) (h_twice h) (h_legacy h)
      (h_rawval h) (h_rawkey h).
Definition set_status (h : hdr) (status : Z) : hdr :=
  mkH (h_key h) (h_set h) (h_hset h) (h_host h) status (h_tagkey h) (h_invalid h) (h_notfound h) (h_draft h) (h_twice h)
      (h_legacy h) (h_rawval h) (h_rawkey h).
Definition set_notfound (h : hdr) (s : bytes) : hdr :=
  mkH (h_key h) (h_set h) (h_hset h) (h_host h) (h_status h) (h_tagkey h) (h_invalid h) (Some s) (h_draft h) (h_twice h)
      (h_legacy h) (h_rawval h) (h_rawkey h).
Definition set_draft (h : hdr) (s : bytes) : hdr :=
  mkH (h_key h) (h_set h) (h_hset h) (h_host h) (h_status h) (h_tagkey h) (h_invalid h) (h_notfound h) (Some s) (h_twice h)
      (h_legacy h) (h_rawval h) (h_rawkey h).
Definition set_legacy (h : hdr) (key : Z) : hdr :=
  mkH (h_key h) (h_set h) (h_hset h) (h_host h) (h_status h) (h_tagkey h) (h_invalid h) (h_notfound h) (h_draft h) (h_twice h)
      key (h_rawval h) (h_rawkey h).
Definition set_rawinvalid (h : hdr) (s : bytes) (key : Z) : hdr :=
  mkH (h_key h) (h_set h) (h_hset h) (h_host h) (h_status h) (h_tagkey h) (h_invalid h) (h_notfound h) (h_draft h) (h_twice h)
      (h_legacy h) s key.
Definition set_host (h : hdr) (v : tagv) : hdr :=
  mkH (h_key h) (h_set h) (h_hset h) v (h_status h) (h_tagkey h) (h_invalid h) (h_notfound h) (h_draft h) (h_twice h)
      (h_legacy h) (h_rawval h) (h_rawkey h).

(* ------------------------------------------------------------------ byte string helpers *)

Fixpoint bytes_eqb (a b : bytes) : bool :=
  match a, b with
  | [], [] => true
  | x :: a', y :: b' => (x =? y) && bytes_eqb a' b'
  | _, _ => false
  end.

Fixpoint prefix (p s : bytes) : bool :=
  match p, s with
  | [], _ => true
  | x :: p', y :: s' => (x =? y) && prefix p' s'
  | _ :: _, [] => false
  end.
Fixpoint contains (p s : bytes) : bool :=
  prefix p s || match s with [] => false | _ :: t => contains p t end.

(* format.ContainsCorruptedBalancerValue *)
Definition corrupted (s : bytes) : bool := contains [57; 2; 88; 86] s.

(* format.AppendHexStringValue(dst[:0], src) *)
Definition is_trim (c : Z) : bool := (c =? 32) || ((9 <=? c) && (c <=? 13)).
Fixpoint trim_left (s : bytes) : bytes :=
  match s with c :: t => if is_trim c then trim_left t else s | [] => [] end.
Definition hexd (n : Z) : Z := if n <? 10 then 48 + n else 87 + n.
Definition hex_string (s : bytes) : bytes :=
  flat_map (fun c => [hexd (c / 16); hexd (c mod 16)]) (firstn (Z.to_nat hex_max_src) (trim_left s)).

(* the agent's mapping cache: string -> int32 (observed content; misses stay strings) *)
Definition cache := list (bytes * Z).
Fixpoint cache_get (c : cache) (s : bytes) : option Z :=
  match c with
  | [] => None
  | (k, v) :: t => if bytes_eqb k s then Some v else cache_get t s
  end.
Definition map_value (c : cache) (s : bytes) : tagv :=
  match cache_get c s with Some id => (id, []) | None => (0, s) end.

(* ------------------------------------------------------------------ MapValidateTag + the body of mapAllTags' loop *)

(* result: (header, stop) — stop = "invalid tag, drop the whole event" *)
Definition map_tag (c : cache) (h : hdr) (t : tag) : hdr * bool :=
  let not_found (draft : bool) :=
    match append_valid false (t_name t) with
    | None => (set_invalid h st_err_tag_name_encoding 0 (hex_string (t_name t)), true)
    | Some vk => (if draft then set_draft h vk else set_notfound h vk, false)
    end in
  match t_res t with
  | RNone draft => not_found draft
  | RTag idx kind legacy =>
      if max_tags <=? idx then not_found false else
      let key := idx + tag_id_shift in
      let h := if legacy then set_legacy h key else h in
      match append_valid false (t_value t) with
      | None => (set_invalid h st_err_tag_value_encoding key (hex_string (t_value t)), true)
      | Some vv =>
          if corrupted (t_value t) then (set_invalid h st_err_tag_value_corrupted key vv, true) else
          if is_nil vv then (set_tag h idx tagv0 key, false) else
          match kind with
          | KRaw64 =>
              let '(lo, hi, ok) := raw64 vv in
              if ok then (set_tag (set_tag h (idx + 1) (hi, []) (key + 1)) idx (lo, []) key, false)
              else (set_rawinvalid h vv key, false)
          | KRaw =>
              let '(id, ok) := raw32 vv in
              if ok then (set_tag h idx (id, []) key, false) else (set_rawinvalid h vv key, false)
          | KPlain => (set_tag h idx (map_value c vv) key, false)
          end
      end
  end.

Fixpoint map_tags (c : cache) (h : hdr) (ts : list tag) : hdr * bool :=
  match ts with
  | [] => (h, false)
  | t :: rest => let '(h1, stop) := map_tag c h t in if stop then (h1, true) else map_tags c h1 rest
  end.

(* Agent.mapAllTags *)
Definition map_all_tags (c : cache) (e : event) : hdr :=
  let '(h, stop) := map_tags c hdr0 (e_tags e) in
  if stop then h
  else if negb (h_hset h) && negb (is_nil (e_host e)) then set_host h (map_value c (e_host e)) else h.

(* Agent.Map *)
Definition map_event (fixed : bool) (c : cache) (e : event) : hdr :=
  let h := map_all_tags c e in
  if negb (h_status h =? 0) then h else set_status h (validate_metric_data fixed e).

(* Agent.MapEnvironment: only a tag literally named "0" *)
Fixpoint map_environment (c : cache) (ts : list tag) : hdr :=
  match ts with
  | [] => hdr0
  | t :: rest =>
      if bytes_eqb (t_name t) [48] then
        match append_valid false (t_value t) with
        | None => hdr0
        | Some vv => if is_nil vv then hdr0 else
                     mkH [(0, map_value c vv)] [] false tagv0 0 0 [] None None 0 0 [] 0
        end
      else map_environment c rest
  end.

(* ------------------------------------------------------------------ rows *)

Record agg := mkAgg { a_set : bool; a_min : Q; a_max : Q; a_sum : Q; a_sumsq : Q }.
Definition agg0 : agg := mkAgg false 0 0 0 0.

(* ItemValue.addOnlyValue *)
Definition add_only (a : agg) (v w : Q) : agg :=
  mkAgg true
        (if negb (a_set a) || qlt v (a_min a) then v else a_min a)
        (if negb (a_set a) || qlt (a_max a) v then v else a_max a)
        (a_sum a + v * w) (a_sumsq a + v * v * w).

Definition add_values (a : agg) (vs : list fval) : agg := fold_left (fun a v => add_only a (fq v) 1) vs a.
Definition add_hist (a : agg) (hs : list (fval * fval)) : agg := fold_left (fun a h => add_only a (fq (fst h)) (fq (snd h))) hs a.

(* `if count != totalCount { sum *= count; if totalCount != 1 { sum /= totalCount } }` *)
Definition scale (a : agg) (count total : Q) : agg :=
  if Qeq_bool count total then a
  else mkAgg (a_set a) (a_min a) (a_max a) (a_sum a * count / total) (a_sumsq a * count / total).

Record row := mkRow {
  r_shard : Z;
  r_metric : Z;
  r_ts : Z;                  (* key.Timestamp as stored *)
  r_key : Z -> tagv;         (* Key.Tags[i], Key.STags[i] for 0 <= i < max_tags *)
  r_top : tagv;              (* tagv0 = the tail, otherwise the entry of MultiItem.Top *)
  r_host : tagv;             (* MaxCounterHostTag *)
  r_count : Q;
  r_agg : agg;
  r_uniq : Z;                (* HLL.ItemsCount *)
  r_digest : bool            (* ValueTDigest != nil *)
}.

Definition key_of_list (l : list Z) : Z -> tagv := fun i => if (0 <=? i) then (nth (Z.to_nat i) l 0, []) else tagv0.

(* TagUnion.Normalize *)
Definition normalize (v : tagv) : tagv := if fst v =? 0 then v else (fst v, []).

(* Shard.AddCounterHostStringBytesSrcIngestionStatus / AddCounterHostSrcIngestionStatus with count 1; written at
   second [ts]; on the secondary shard dropped when ts < dropBefore *)
Definition status_row (c : cache) (sh ts drop metric : Z) (tags : list Z) (str : bytes) : list row :=
  if ts <? drop then [] else
  [mkRow sh metric ts (key_of_list tags) (if is_nil str then tagv0 else map_value c str) tagv0 1 agg0 0 false].

(* key.Timestamp after `if 0 then CurrentTime` and the future clamp of resolutionShardFromHashLocked
   (the same function as AgentQueue.Model.clamp_ts of C08, which proves the placement properties) *)
Definition clamp_ts (cur ts : Z) : Z * bool :=
  let ts0 := if ts =? 0 then cur else ts in
  let lim := u32 (cur + ingest_future_slots) in
  if lim <? ts0 then (lim, true) else (ts0, false).

Fixpoint distinct (l : list Z) : list Z :=
  match l with [] => [] | x :: t => if memz x t then distinct t else x :: distinct t end.

Record meta := mkMeta { m_id : Z; m_disabled : bool; m_percentiles : bool }.
(* result of Agent.shard on the mapped key (C10) and ShardFixedKey2Timestamp *)
Record route := mkRoute { rt_sh1 : Z; rt_sh1ok : bool; rt_sh2 : option Z; rt_drop : Z }.

(* what the event itself adds to shard [sh]: Shard.ApplyUnique / ApplyValues / ApplyCounter.
   [top_in], [ts_in]: string-top tag and timestamp of the key *as the call receives it* (see [apply_metric]). *)
Definition data_rows (c : cache) (cur : Z) (m : meta) (e : event) (h : hdr) (top_in : tagv) (ts_in : Z) (sh drop : Z) : list row :=
  let top := normalize top_in in
  let key := fun i => if i =? string_top_index then tagv0 else lookup (h_key h) i in
  let '(ts, clamped) := clamp_ts cur ts_in in
  let cnt := fq (e_counter e) in
  let mk count a uq dg hst := mkRow sh (m_id m) ts key top hst count a uq dg in
  let warn := if clamped then
                status_row c sh ts drop metric_ingestion_status
                  [fst (lookup (h_key h) 0); m_id m; st_warn_ts_clamped_future; 0; component_agent] []
              else [] in
  if negb (is_nil (e_uniq e)) then
    let total := inject_Z (len (e_uniq e)) in
    let count := if Qeq_bool cnt 0 then total else cnt in
    if Qle_bool count 0 then [] else
    if ts <? drop then [] else
    let a := scale (fold_left (fun a u => add_only a (inject_Z u) 1) (e_uniq e) agg0) count total in
    mk count a (len (distinct (e_uniq e))) false (h_host h) :: warn
  else if negb (is_nil (e_values e)) || negb (is_nil (e_hist e)) then
    let total := (inject_Z (len (e_values e)) + hist_weight (e_hist e))%Q in
    let count := if Qeq_bool cnt 0 then total else cnt in
    if Qle_bool count 0 then [] else
    if ts <? drop then [] else
    if Qle_bool total 0 then mk 0%Q agg0 0 false tagv0 :: warn    (* row created, MultiValue.ApplyValues returns early *)
    else
      let a := scale (add_hist (add_values agg0 (e_values e)) (e_hist e)) count total in
      mk count a 0 (m_percentiles m && negb (Qeq_bool (a_min a) (a_max a))) (h_host h) :: warn
  else
    if Qle_bool cnt 0 then [] else
    if ts <? drop then [] else
    mk cnt agg0 0 false (h_host h) :: warn.

(* Agent.ApplyMetric for an event whose metric was found *)
Definition apply_metric (fixb : bool) (c : cache) (cur : Z) (m : meta) (rt : route) (e : event) (h : hdr) : list row :=
  let tag0 := fst (lookup (h_key h) 0) in
  let on_shards (f : bool -> Z -> Z -> list row) :=
    f false (rt_sh1 rt) 0 ++ match rt_sh2 rt with Some s => f true s (rt_drop rt) | None => [] end in
  (* ApplyMetric hands &h.Key to the primary shard's Apply function and then the same pointer to the secondary
     shard's: the first call has already removed the string-top tag from the key and rewritten its timestamp
     (finding F-C12b).  The repaired variant gives both shards the key as mapped. *)
  let top0 := lookup (h_key h) string_top_index in
  let data (second : bool) sh drop :=
    if second && negb fixb
    then data_rows c cur m e h tagv0 (fst (clamp_ts cur (e_ts e))) sh drop
    else data_rows c cur m e h top0 (e_ts e) sh drop in
  let st sh drop code key str :=
    status_row c sh cur drop metric_ingestion_status [tag0; m_id m; code; key; component_agent] str in
  if negb (rt_sh1ok rt) then
    status_row c (rt_sh1 rt) cur 0 metric_ingestion_status_no_shard [tag0; m_id m; st_err_sharding_failed; 0] []
  else if negb (h_status h =? 0) then
    on_shards (fun _ sh drop => st sh drop (h_status h) (h_tagkey h) (h_invalid h))
  else
    on_shards (fun second sh drop =>
      st sh drop st_ok_cached (h_tagkey h) []
      ++ match h_notfound h with Some s => st sh drop st_warn_tag_name_not_found 0 s | None => [] end
      ++ match h_draft h with Some s => st sh drop st_warn_tag_name_found_draft 0 s | None => [] end
      ++ (if h_twice h =? 0 then [] else st sh drop st_warn_tag_set_twice (h_twice h) [])
      ++ (if h_rawkey h =? 0 then [] else st sh drop st_warn_invalid_raw_tag_value (h_rawkey h) (h_rawval h))
      ++ (if h_legacy h =? 0 then [] else st sh drop st_warn_deprecated_key_name (h_legacy h) [])
      ++ data second sh drop).

(* worker.HandleMetrics for a metric that exists: fillMetricMeta's disabled check, Map or MapEnvironment, ApplyMetric.
   [rt] is what Agent.shard answers for the mapped key. *)
Definition header_of (fixed : bool) (c : cache) (m : meta) (e : event) : hdr :=
  if m_disabled m then set_status (map_environment c (e_tags e)) st_err_metric_disabled
  else map_event fixed c e.

Definition handle (fixed fixb : bool) (c : cache) (cur : Z) (m : meta) (rt : route) (e : event) : list row :=
  apply_metric fixb c cur m rt e (header_of fixed c m e).
