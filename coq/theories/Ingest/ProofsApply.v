(* C12 — ApplyMetric: which rows an event leaves (status accounting) and what an accepted event adds
   (counter/value weighting). *)
From Coq Require Import ZArith QArith List Bool Lia.
From SH Require Import Common.Wrap Gen.TagValueUnicode TagValue.Model Gen.IngestConsts Ingest.Model Ingest.Spec Ingest.Proofs.
Import ListNotations.
Open Scope Z_scope.

(* ------------------------------------------------------------------ status rows *)

Definition status_record (c : cache) (sh ts metric : Z) (tags : list Z) (str : bytes) : row :=
  mkRow sh metric ts (key_of_list tags) (if is_nil str then tagv0 else map_value c str) tagv0 1 agg0 0 false.

Lemma status_row_eq : forall c sh ts drop metric tags str,
  status_row c sh ts drop metric tags str = if ts <? drop then [] else [status_record c sh ts metric tags str].
Proof. reflexivity. Qed.

Lemma status_row_in : forall c sh ts drop metric tags str r,
  In r (status_row c sh ts drop metric tags str) ->
  r = status_record c sh ts metric tags str /\ drop <= ts.
Proof.
  intros. rewrite status_row_eq in H. destruct (ts <? drop) eqn:E; simpl in H; try tauto.
  destruct H as [<-|[]]. split; auto. apply Z.ltb_ge in E. auto.
Qed.

Lemma status_row_metric : forall c sh ts drop metric tags str r,
  In r (status_row c sh ts drop metric tags str) -> r_metric r = metric /\ r_shard r = sh /\ (r_count r == 1)%Q.
Proof. intros. apply status_row_in in H. destruct H as [-> _]. simpl. repeat split; reflexivity. Qed.

Lemma status_row_drop0 : forall c sh ts metric tags str, 0 <= ts ->
  status_row c sh ts 0 metric tags str = [status_record c sh ts metric tags str].
Proof. intros. rewrite status_row_eq. replace (ts <? 0) with false; auto. symmetry. apply Z.ltb_ge. auto. Qed.

(* ------------------------------------------------------------------ data rows: where they go *)

Lemma clamp_ts_nonneg : forall cur ts, 0 <= cur -> 0 <= ts -> 0 <= fst (clamp_ts cur ts).
Proof.
  intros. unfold clamp_ts. destruct (ts =? 0); destruct (_ <? _); simpl; auto; unfold u32; apply Z.mod_pos_bound; reflexivity.
Qed.

Lemma data_rows_in : forall c cur m e h top ts sh drop r,
  In r (data_rows c cur m e h top ts sh drop) ->
  r_shard r = sh /\ (r_metric r = m_id m \/ (r_metric r = metric_ingestion_status /\ (r_count r == 1)%Q
                                          /\ fst (r_key r 2) = st_warn_ts_clamped_future)).
Proof.
  intros c cur m e h top ts sh drop r. unfold data_rows.
  destruct (clamp_ts cur ts) as [ts' cl].
  set (warn := if cl then _ else []).
  assert (W : In r warn -> r_shard r = sh /\ (r_metric r = m_id m \/ (r_metric r = metric_ingestion_status /\ (r_count r == 1)%Q
                                          /\ fst (r_key r 2) = st_warn_ts_clamped_future))).
  { unfold warn. destruct cl; simpl; try tauto. intro Hin. apply status_row_in in Hin. destruct Hin as [-> _].
    simpl. split; auto. right. repeat split; reflexivity. }
  destruct (negb (is_nil (e_uniq e))).
  { destruct (Qle_bool _ 0); simpl; try tauto. destruct (ts' <? drop); simpl; try tauto.
    intros [<-|Hin]; auto. }
  destruct (negb (is_nil (e_values e)) || negb (is_nil (e_hist e))).
  { destruct (Qle_bool _ 0); simpl; try tauto. destruct (ts' <? drop); simpl; try tauto.
    destruct (Qle_bool _ 0); simpl; intros [<-|Hin]; auto. }
  destruct (Qle_bool _ 0); simpl; try tauto. destruct (ts' <? drop); simpl; try tauto.
  intros [<-|Hin]; auto.
Qed.

Lemma neg_metric_ne : forall m, 0 < m_id m -> m_id m <> metric_ingestion_status /\ m_id m <> metric_ingestion_status_no_shard.
Proof. intros. destruct IngestConsts_ok as (_ & A & B & _). lia. Qed.

(* ------------------------------------------------------------------ "contributes only if valid" *)

Theorem contributes_only_if_valid : forall fixed fixb c cur m rt e r,
  0 < m_id m ->
  In r (handle fixed fixb c cur m rt e) -> r_metric r = m_id m ->
  m_disabled m = false /\ rt_sh1ok rt = true /\ valid_event e /\ (fixed = true -> ~ zero_weight_only e).
Proof.
  intros fixed fixb c cur m rt e r Hm Hin Hr.
  destruct (neg_metric_ne m Hm) as [N1 N2].
  unfold handle, apply_metric in Hin.
  destruct (rt_sh1ok rt) eqn:Eok; simpl in Hin.
  2:{ apply status_row_metric in Hin. destruct Hin as [E _]. congruence. }
  destruct (h_status (header_of fixed c m e) =? 0) eqn:Es; simpl in Hin.
  - apply Z.eqb_eq in Es. apply header_status_zero in Es. tauto.
  - exfalso. apply in_app_or in Hin. destruct Hin as [Hin|Hin].
    + apply status_row_metric in Hin. destruct Hin as [E _]. congruence.
    + destruct (rt_sh2 rt); simpl in Hin; try tauto. apply status_row_metric in Hin. destruct Hin as [E _]. congruence.
Qed.

(* ------------------------------------------------------------------ "every other event ... one ingestion-status record" *)

Theorem rejected_rows : forall fixed fixb c cur m rt e,
  rt_sh1ok rt = true ->
  ~ (m_disabled m = false /\ valid_event e /\ (fixed = true -> ~ zero_weight_only e)) ->
  exists tag0 code key str,
    reason_holds fixed code m e /\ code <> 0 /\ code <> st_ok_cached
    /\ handle fixed fixb c cur m rt e = reject_rows c cur m rt tag0 code key str.
Proof.
  intros fixed fixb c cur m rt e Hok Hnv.
  assert (Hs : h_status (header_of fixed c m e) <> 0).
  { intro H0. apply header_status_zero in H0. auto. }
  pose proof (header_reason _ _ _ _ Hs) as R.
  destruct (reason_is_error _ _ _ _ R) as [NZ NOK].
  exists (fst (lookup (h_key (header_of fixed c m e)) 0)), (h_status (header_of fixed c m e)),
         (h_tagkey (header_of fixed c m e)), (h_invalid (header_of fixed c m e)).
  split; [exact R|]. split; [exact NZ|]. split; [exact NOK|].
  unfold handle, apply_metric, reject_rows. rewrite Hok. simpl.
  replace (h_status (header_of fixed c m e) =? 0) with false by (symmetry; apply Z.eqb_neq; auto).
  simpl. reflexivity.
Qed.

Theorem sharding_failed_rows : forall fixed fixb c cur m rt e,
  rt_sh1ok rt = false -> 0 <= cur ->
  handle fixed fixb c cur m rt e =
  [status_record c (rt_sh1 rt) cur metric_ingestion_status_no_shard
     [fst (lookup (h_key (header_of fixed c m e)) 0); m_id m; st_err_sharding_failed; 0] []].
Proof.
  intros. unfold handle, apply_metric. rewrite H. simpl. apply status_row_drop0; auto.
Qed.

(* the shape of what a rejected event leaves: one record in the primary shard, one in the secondary shard once it
   has started, nothing else *)
Lemma reject_rows_shape : forall c cur m rt tag0 code key str, 0 <= cur ->
  reject_rows c cur m rt tag0 code key str =
  status_record c (rt_sh1 rt) cur metric_ingestion_status [tag0; m_id m; code; key; component_agent] str
  :: match rt_sh2 rt with
     | Some s => if cur <? rt_drop rt then []
                 else [status_record c s cur metric_ingestion_status [tag0; m_id m; code; key; component_agent] str]
     | None => []
     end.
Proof.
  intros. unfold reject_rows. rewrite status_row_drop0; auto.
Qed.

(* ------------------------------------------------------------------ accepted events: status records *)

Definition accept_codes : list Z :=
  [st_ok_cached; st_warn_tag_name_not_found; st_warn_tag_name_found_draft; st_warn_tag_set_twice;
   st_warn_invalid_raw_tag_value; st_warn_deprecated_key_name; st_warn_ts_clamped_future].

Lemma accept_codes_not_errors : forall c, In c accept_codes -> ~ In c error_codes.
Proof.
  assert (H : forallb (fun c => negb (existsb (Z.eqb c) error_codes)) accept_codes = true) by (vm_compute; reflexivity).
  intros c Hin Herr. rewrite forallb_forall in H. specialize (H c Hin). apply negb_true_iff in H.
  assert (existsb (Z.eqb c) error_codes = true) by (apply existsb_exists; exists c; split; auto; apply Z.eqb_refl).
  congruence.
Qed.

Theorem accepted_records : forall fixed fixb c cur m rt e,
  rt_sh1ok rt = true -> 0 <= cur -> 0 < m_id m ->
  h_status (header_of fixed c m e) = 0 ->
  (* the OK record is in the primary shard ... *)
  In (status_record c (rt_sh1 rt) cur metric_ingestion_status
        [fst (lookup (h_key (header_of fixed c m e)) 0); m_id m; st_ok_cached; h_tagkey (header_of fixed c m e); component_agent] [])
     (handle fixed fixb c cur m rt e)
  (* ... and every ingestion-status record the event leaves is "ok" or a warning, with count 1 *)
  /\ forall r, In r (handle fixed fixb c cur m rt e) -> r_metric r <> m_id m ->
       r_metric r = metric_ingestion_status /\ (r_count r == 1)%Q /\ In (fst (r_key r 2)) accept_codes.
Proof.
  intros fixed fixb c cur m rt e Hok Hcur Hm Hs.
  unfold handle, apply_metric. rewrite Hok, Hs. simpl.
  set (h := header_of fixed c m e).
  split.
  - apply in_or_app. left. apply in_or_app. left. rewrite status_row_drop0; auto. left. reflexivity.
  - intros r Hin Hne.
    assert (ST : forall sh drop code key str, In code accept_codes ->
              In r (status_row c sh cur drop metric_ingestion_status [fst (lookup (h_key h) 0); m_id m; code; key; component_agent] str) ->
              r_metric r = metric_ingestion_status /\ (r_count r == 1)%Q /\ In (fst (r_key r 2)) accept_codes).
    { intros sh drop code key str Hc Hi. apply status_row_in in Hi. destruct Hi as [-> _]. simpl. split; [reflexivity|]. split; [reflexivity|]. exact Hc. }
    assert (DT : forall top ts sh drop, In r (data_rows c cur m e h top ts sh drop) ->
              r_metric r = metric_ingestion_status /\ (r_count r == 1)%Q /\ In (fst (r_key r 2)) accept_codes).
    { intros top ts sh drop Hi. apply data_rows_in in Hi. destruct Hi as [_ [E|(E1 & E2 & E3)]]; [congruence|].
      repeat split; auto. rewrite E3. unfold accept_codes. simpl. tauto. }
    assert (ONE : forall second sh drop,
      In r (status_row c sh cur drop metric_ingestion_status [fst (lookup (h_key h) 0); m_id m; st_ok_cached; h_tagkey h; component_agent] []
        ++ match h_notfound h with Some s => status_row c sh cur drop metric_ingestion_status [fst (lookup (h_key h) 0); m_id m; st_warn_tag_name_not_found; 0; component_agent] s | None => [] end
        ++ match h_draft h with Some s => status_row c sh cur drop metric_ingestion_status [fst (lookup (h_key h) 0); m_id m; st_warn_tag_name_found_draft; 0; component_agent] s | None => [] end
        ++ (if h_twice h =? 0 then [] else status_row c sh cur drop metric_ingestion_status [fst (lookup (h_key h) 0); m_id m; st_warn_tag_set_twice; h_twice h; component_agent] [])
        ++ (if h_rawkey h =? 0 then [] else status_row c sh cur drop metric_ingestion_status [fst (lookup (h_key h) 0); m_id m; st_warn_invalid_raw_tag_value; h_rawkey h; component_agent] (h_rawval h))
        ++ (if h_legacy h =? 0 then [] else status_row c sh cur drop metric_ingestion_status [fst (lookup (h_key h) 0); m_id m; st_warn_deprecated_key_name; h_legacy h; component_agent] [])
        ++ (if second && negb fixb
            then data_rows c cur m e h tagv0 (fst (clamp_ts cur (e_ts e))) sh drop
            else data_rows c cur m e h (lookup (h_key h) string_top_index) (e_ts e) sh drop)) ->
      r_metric r = metric_ingestion_status /\ (r_count r == 1)%Q /\ In (fst (r_key r 2)) accept_codes).
    { intros second sh drop Hi.
      repeat (apply in_app_or in Hi; destruct Hi as [Hi|Hi]).
      - eapply ST; [|exact Hi]. unfold accept_codes; simpl; tauto.
      - destruct (h_notfound h); simpl in Hi; try tauto. eapply ST; [|exact Hi]. unfold accept_codes; simpl; tauto.
      - destruct (h_draft h); simpl in Hi; try tauto. eapply ST; [|exact Hi]. unfold accept_codes; simpl; tauto.
      - destruct (h_twice h =? 0); simpl in Hi; try tauto. eapply ST; [|exact Hi]. unfold accept_codes; simpl; tauto.
      - destruct (h_rawkey h =? 0); simpl in Hi; try tauto. eapply ST; [|exact Hi]. unfold accept_codes; simpl; tauto.
      - destruct (h_legacy h =? 0); simpl in Hi; try tauto. eapply ST; [|exact Hi]. unfold accept_codes; simpl; tauto.
      - destruct (second && negb fixb); eapply DT; exact Hi. }
    apply in_app_or in Hin. destruct Hin as [Hin|Hin].
    + apply (ONE false _ _ Hin).
    + destruct (rt_sh2 rt); simpl in Hin; try tauto. apply (ONE true _ _ Hin).
Qed.

(* ------------------------------------------------------------------ aggregates *)

Definition agg_of (l : list (Q * Q)) (a : agg) : agg := fold_left (fun a s => add_only a (fst s) (snd s)) l a.

Lemma fold_left_map : forall {A B C} (f : A -> B -> A) (g : C -> B) l a,
  fold_left f (map g l) a = fold_left (fun a x => f a (g x)) l a.
Proof. induction l; simpl; intros; auto. Qed.

Lemma agg_of_sum : forall l a, (a_sum (agg_of l a) == a_sum a + wsum (fun v => v) l)%Q.
Proof.
  induction l as [|[v w] l IH]; intros a; simpl.
  - ring.
  - unfold agg_of in *. simpl. rewrite IH. simpl. ring.
Qed.

Lemma agg_of_sumsq : forall l a, (a_sumsq (agg_of l a) == a_sumsq a + wsum (fun v => v * v) l)%Q.
Proof.
  induction l as [|[v w] l IH]; intros a; simpl.
  - ring.
  - unfold agg_of in *. simpl. rewrite IH. simpl. ring.
Qed.

Lemma agg_of_set_keep : forall l a, a_set a = true -> a_set (agg_of l a) = true.
Proof.
  induction l as [|s l IH]; intros a Ha.
  - exact Ha.
  - unfold agg_of in *. simpl. apply IH. reflexivity.
Qed.
Lemma agg_of_set : forall l a, l <> [] -> a_set (agg_of l a) = true.
Proof.
  intros l a Hl. destruct l as [|s l]; [congruence|]. unfold agg_of. simpl.
  apply agg_of_set_keep. reflexivity.
Qed.

Lemma wsum_app : forall f l1 l2, (wsum f (l1 ++ l2) == wsum f l1 + wsum f l2)%Q.
Proof. induction l1; simpl; intros. - ring. - rewrite IHl1. ring. Qed.

Lemma wsum_ones : forall {A} (g : A -> Q) (l : list A), (wsum (fun _ => 1) (map (fun x => (g x, 1)) l) == inject_Z (len l))%Q.
Proof.
  induction l; simpl.
  - reflexivity.
  - rewrite IHl. unfold len. simpl length. rewrite Nat2Z.inj_succ. unfold Z.succ. rewrite inject_Z_plus. simpl. ring.
Qed.

Lemma wsum_hist : forall hs, (wsum (fun _ => 1) (map (fun h => (fq (fst h), fq (snd h))) hs) == hist_weight hs)%Q.
Proof. induction hs; simpl. - reflexivity. - rewrite IHhs. ring. Qed.

(* the aggregates ApplyValues / ApplyUnique accumulate before scaling are those of [samples] *)
Lemma values_agg : forall e, e_uniq e = [] ->
  add_hist (add_values agg0 (e_values e)) (e_hist e) = agg_of (samples e) agg0.
Proof.
  intros e Hu. unfold add_hist, add_values, samples, agg_of. rewrite Hu. simpl. rewrite app_nil_r.
  rewrite fold_left_app, !fold_left_map. reflexivity.
Qed.
Lemma uniq_agg : forall e, e_values e = [] -> e_hist e = [] ->
  fold_left (fun a u => add_only a (inject_Z u) 1) (e_uniq e) agg0 = agg_of (samples e) agg0.
Proof.
  intros e Hv Hh. unfold samples, agg_of. rewrite Hv, Hh. simpl. rewrite fold_left_map. reflexivity.
Qed.

Lemma values_total : forall e, e_uniq e = [] ->
  (inject_Z (len (e_values e)) + hist_weight (e_hist e) == total_weight e)%Q.
Proof.
  intros e Hu. unfold total_weight, samples. rewrite Hu. simpl. rewrite app_nil_r, wsum_app, wsum_ones, wsum_hist. reflexivity.
Qed.
Lemma uniq_total : forall e, e_values e = [] -> e_hist e = [] -> (inject_Z (len (e_uniq e)) == total_weight e)%Q.
Proof.
  intros e Hv Hh. unfold total_weight, samples. rewrite Hv, Hh. simpl. apply Qeq_sym, wsum_ones.
Qed.

Lemma scale_sum : forall a count total, ~ (total == 0)%Q -> (a_sum (scale a count total) == a_sum a * count / total)%Q.
Proof.
  intros a count total Ht. unfold scale. destruct (Qeq_bool count total) eqn:E; simpl.
  - apply Qeq_bool_iff in E. rewrite E. field. auto.
  - reflexivity.
Qed.
Lemma scale_sumsq : forall a count total, ~ (total == 0)%Q -> (a_sumsq (scale a count total) == a_sumsq a * count / total)%Q.
Proof.
  intros a count total Ht. unfold scale. destruct (Qeq_bool count total) eqn:E; simpl.
  - apply Qeq_bool_iff in E. rewrite E. field. auto.
  - reflexivity.
Qed.
Lemma scale_set : forall a count total, a_set (scale a count total) = a_set a.
Proof. intros. unfold scale. destruct (Qeq_bool count total); reflexivity. Qed.

Lemma hist_weight_nonneg : forall hs, Forall (fun h => valid_value (fst h) /\ valid_counter (snd h)) hs -> (0 <= hist_weight hs)%Q.
Proof.
  induction 1; simpl.
  - apply Qle_refl.
  - destruct H as [_ (q & Eq & Hq0 & _)]. rewrite Eq. simpl. replace 0%Q with (0 + 0)%Q by reflexivity. apply Qplus_le_compat; auto.
Qed.

Lemma len_pos : forall {A} (l : list A), l <> [] -> (1 <= inject_Z (len l))%Q.
Proof.
  intros A l Hl. destruct l; [congruence|]. unfold len. simpl length. rewrite Nat2Z.inj_succ.
  change 1%Q with (inject_Z 1). rewrite <- Zle_Qle. lia.
Qed.

(* total weight of a valid event that is not the zero-weight-histogram corner is positive *)
Lemma total_weight_pos : forall e, valid_event e -> ~ zero_weight_only e ->
  (has_values e \/ e_uniq e <> []) -> (0 < total_weight e)%Q.
Proof.
  intros e (Vc & Vv & Vh & Hnb & Hne & _) Hz Hsome.
  destruct (e_uniq e) eqn:Eu.
  - destruct Hsome as [Hv|]; [|congruence].
    rewrite <- values_total; auto.
    pose proof (hist_weight_nonneg _ Vh) as Hw.
    destruct (e_values e) eqn:Ev.
    + destruct Hv as [Hv|Hv]; [congruence|].
      unfold len; simpl. assert (~ (hist_weight (e_hist e) <= 0)%Q).
      { intro Hle. apply Hz. unfold zero_weight_only. auto. }
      apply Qnot_le_lt in H. rewrite Qplus_0_l. auto.
    + assert (1 <= inject_Z (len (f :: l)))%Q by (apply len_pos; discriminate).
      apply Qlt_le_trans with (y := 1%Q); [reflexivity|].
      rewrite <- (Qplus_0_r 1). apply Qplus_le_compat; auto.
  - assert (Hvals : e_values e = [] /\ e_hist e = []).
    { destruct (e_values e) eqn:Ev; destruct (e_hist e) eqn:Eh; auto; exfalso; apply Hnb; unfold has_values; rewrite ?Ev, ?Eh;
        split; try discriminate; auto; try (left; discriminate); right; discriminate. }
    destruct Hvals as [Ev Eh]. rewrite <- uniq_total; auto. rewrite Eu.
    apply Qlt_le_trans with (y := 1%Q); [reflexivity|]. apply len_pos. discriminate.
Qed.

(* ------------------------------------------------------------------ the event's own row *)

(* count as Shard.ApplyValues/ApplyUnique/ApplyCounter default it *)
Definition event_count (e : event) : Q :=
  if Qeq_bool (fq (e_counter e)) 0 then total_weight e else fq (e_counter e).

Lemma valid_counter_fq : forall f, valid_counter f -> (0 <= fq f)%Q.
Proof. intros f (q & -> & H & _). auto. Qed.

Lemma event_count_pos : forall e, valid_event e -> ~ zero_weight_only e -> (0 < event_count e)%Q.
Proof.
  intros e V Hz. unfold event_count.
  destruct (Qeq_bool (fq (e_counter e)) 0) eqn:E0.
  - apply Qeq_bool_iff in E0. apply total_weight_pos; auto.
    destruct V as (Vc & _ & _ & _ & Hne & _).
    destruct (e_values e) eqn:Ev; [|left; left; rewrite Ev; discriminate].
    destruct (e_hist e) eqn:Eh; [|left; right; rewrite Eh; discriminate].
    destruct (e_uniq e) eqn:Eu; [|right; discriminate].
    exfalso. apply Hne. unfold is_empty. auto.
  - destruct V as (Vc & _). pose proof (valid_counter_fq _ Vc) as Hc.
    apply Qle_lt_or_eq in Hc. destruct Hc as [Hc|Hc]; auto.
    assert (Qeq_bool (fq (e_counter e)) 0 = true) by (apply Qeq_bool_iff; symmetry; auto). congruence.
Qed.

(* the first row of data_rows for an accepted event, when the call is not cut off by the secondary shard's start *)
Theorem data_row_of_accepted : forall c cur m e h top ts sh drop,
  valid_event e -> ~ zero_weight_only e ->
  drop <= fst (clamp_ts cur ts) ->
  exists r rest,
    data_rows c cur m e h top ts sh drop = r :: rest
    /\ r_shard r = sh /\ r_metric r = m_id m /\ r_top r = normalize top
    /\ (r_count r == event_count e)%Q
    /\ ((has_values e \/ e_uniq e <> []) ->
          a_set (r_agg r) = true
          /\ (a_sum (r_agg r) == weighted_sum e * event_count e / total_weight e)%Q
          /\ (a_sumsq (r_agg r) == weighted_sumsq e * event_count e / total_weight e)%Q)
    /\ (~ (has_values e \/ e_uniq e <> []) -> r_agg r = agg0).
Proof.
  intros c cur m e h top ts sh drop V Hz Hdrop.
  pose proof (event_count_pos e V Hz) as Hpos.
  pose proof V as (Vc & Vv & Vh & Hnb & Hne & _).
  unfold data_rows. destruct (clamp_ts cur ts) as [ts' cl] eqn:Ecl. simpl in Hdrop.
  assert (Edrop : (ts' <? drop) = false) by (apply Z.ltb_ge; auto).
  set (warn := if cl then _ else []).
  destruct (e_uniq e) as [|u us] eqn:Eu; simpl is_nil; simpl negb.
  - destruct (negb (is_nil (e_values e)) || negb (is_nil (e_hist e))) eqn:Ehv.
    + (* values / histogram *)
      assert (Hv : has_values e).
      { unfold has_values. apply orb_true_iff in Ehv. destruct Ehv as [Ehv|Ehv]; apply negb_true_iff in Ehv;
          [left|right]; intro Hn; rewrite Hn in Ehv; discriminate. }
      assert (Htot : (0 < total_weight e)%Q) by (apply total_weight_pos; auto).
      assert (Et : (inject_Z (len (e_values e)) + hist_weight (e_hist e) == total_weight e)%Q) by (apply values_total; auto).
      set (total := (inject_Z (len (e_values e)) + hist_weight (e_hist e))%Q) in *.
      set (count := if Qeq_bool (fq (e_counter e)) 0 then total else fq (e_counter e)).
      assert (Ec : (count == event_count e)%Q).
      { unfold count, event_count. destruct (Qeq_bool (fq (e_counter e)) 0); auto. reflexivity. }
      assert (Ecp : Qle_bool count 0 = false).
      { destruct (Qle_bool count 0) eqn:E; auto. apply Qle_bool_iff in E. rewrite Ec in E. exfalso. exact (Qlt_not_le _ _ Hpos E). }
      assert (Etp : Qle_bool total 0 = false).
      { destruct (Qle_bool total 0) eqn:E; auto. apply Qle_bool_iff in E. rewrite Et in E. exfalso. exact (Qlt_not_le _ _ Htot E). }
      rewrite Ecp, Edrop, Etp.
      eexists. eexists. split; [reflexivity|]. simpl.
      assert (Hne0 : ~ (total == 0)%Q). { rewrite Et. intro H0. rewrite H0 in Htot. discriminate. }
      repeat split; auto.
      * rewrite scale_set, values_agg; auto. apply agg_of_set. unfold samples. rewrite Eu.
        destruct Hv as [Hv|Hv]; destruct (e_values e); destruct (e_hist e); simpl; try congruence; discriminate.
      * rewrite scale_sum; auto. rewrite values_agg, agg_of_sum; auto. simpl. unfold weighted_sum.
        rewrite Ec, Et. field. rewrite <- Et. auto.
      * rewrite scale_sumsq; auto. rewrite values_agg, agg_of_sumsq; auto. simpl. unfold weighted_sumsq.
        rewrite Ec, Et. field. rewrite <- Et. auto.
      * intros Hno. exfalso. apply Hno. auto.
    + (* counter only *)
      apply orb_false_iff in Ehv. destruct Ehv as [Ev Eh]. apply negb_false_iff in Ev, Eh.
      apply is_nil_true in Ev, Eh.
      assert (Ec : (fq (e_counter e) == event_count e)%Q).
      { unfold event_count. destruct (Qeq_bool (fq (e_counter e)) 0) eqn:E0; [|reflexivity].
        exfalso. apply Hne. unfold is_empty. apply Qeq_bool_iff in E0. auto. }
      assert (Ecp : Qle_bool (fq (e_counter e)) 0 = false).
      { destruct (Qle_bool (fq (e_counter e)) 0) eqn:E; auto. apply Qle_bool_iff in E. rewrite Ec in E. exfalso. exact (Qlt_not_le _ _ Hpos E). }
      rewrite Ecp, Edrop.
      eexists. eexists. split; [reflexivity|]. simpl.
      split; [reflexivity|]. split; [reflexivity|]. split; [reflexivity|]. split; [exact Ec|]. split.
      * intros [[Hv|Hv]|Hu]; exfalso; [apply Hv; exact Ev | apply Hv; exact Eh | apply Hu; reflexivity].
      * intros _. reflexivity.
  - (* uniques *)
    assert (Hvals : e_values e = [] /\ e_hist e = []).
    { destruct (e_values e) eqn:Ev; destruct (e_hist e) eqn:Eh; auto; exfalso; apply Hnb; unfold has_values; rewrite ?Ev, ?Eh, ?Eu;
        split; try discriminate; auto; try (left; discriminate); right; discriminate. }
    destruct Hvals as [Ev Eh].
    assert (Hsome : has_values e \/ e_uniq e <> []) by (right; rewrite Eu; discriminate).
    assert (Htot : (0 < total_weight e)%Q) by (apply total_weight_pos; auto).
    assert (Et : (inject_Z (len (e_uniq e)) == total_weight e)%Q) by (apply uniq_total; auto).
    rewrite <- Eu in *.
    set (total := inject_Z (len (e_uniq e))) in *.
    set (count := if Qeq_bool (fq (e_counter e)) 0 then total else fq (e_counter e)).
    assert (Ec : (count == event_count e)%Q).
    { unfold count, event_count. destruct (Qeq_bool (fq (e_counter e)) 0); auto. reflexivity. }
    assert (Ecp : Qle_bool count 0 = false).
    { destruct (Qle_bool count 0) eqn:E; auto. apply Qle_bool_iff in E. rewrite Ec in E. exfalso. exact (Qlt_not_le _ _ Hpos E). }
    rewrite Ecp, Edrop.
    eexists. eexists. split; [reflexivity|]. simpl.
    assert (Hne0 : ~ (total == 0)%Q). { rewrite Et. intro H0. rewrite H0 in Htot. discriminate. }
    repeat split; auto.
    + rewrite scale_set, uniq_agg; auto. apply agg_of_set. unfold samples. rewrite Ev, Eh, Eu. simpl. discriminate.
    + rewrite scale_sum; auto. rewrite uniq_agg, agg_of_sum; auto. simpl. unfold weighted_sum.
      rewrite Ec, Et. field. rewrite <- Et. auto.
    + rewrite scale_sumsq; auto. rewrite uniq_agg, agg_of_sumsq; auto. simpl. unfold weighted_sumsq.
      rewrite Ec, Et. field. rewrite <- Et. auto.
    + intros Hno. exfalso. apply Hno. auto.
Qed.

(* ------------------------------------------------------------------ accepted events end to end *)

(* what the documented semantics say the event's row must hold *)
Definition row_as_documented (e : event) (r : row) : Prop :=
  (r_count r == event_count e)%Q /\ (0 < r_count r)%Q
  /\ ((has_values e \/ e_uniq e <> []) ->
        a_set (r_agg r) = true
        /\ (a_sum (r_agg r) == weighted_sum e * event_count e / total_weight e)%Q
        /\ (a_sumsq (r_agg r) == weighted_sumsq e * event_count e / total_weight e)%Q)
  /\ (~ (has_values e \/ e_uniq e <> []) -> r_agg r = agg0).

Lemma in_first_shard : forall (f : bool -> Z -> Z -> list row) rt r,
  In r (f false (rt_sh1 rt) 0) ->
  In r (f false (rt_sh1 rt) 0 ++ match rt_sh2 rt with Some s => f true s (rt_drop rt) | None => [] end).
Proof. intros. apply in_or_app. auto. Qed.

Theorem accepted_row : forall fixed fixb c cur m rt e,
  rt_sh1ok rt = true -> 0 <= cur -> 0 <= e_ts e ->
  h_status (header_of fixed c m e) = 0 ->
  (fixed = false -> ~ zero_weight_only e) ->
  exists r, In r (handle fixed fixb c cur m rt e)
            /\ r_shard r = rt_sh1 rt /\ r_metric r = m_id m
            /\ r_top r = normalize (lookup (h_key (header_of fixed c m e)) string_top_index)
            /\ row_as_documented e r.
Proof.
  intros fixed fixb c cur m rt e Hok Hcur Hts Hs Hzw.
  pose proof (proj1 (header_status_zero _ _ _ _) Hs) as (_ & V & Hz).
  assert (Hz' : ~ zero_weight_only e) by (destruct fixed; auto).
  set (h := header_of fixed c m e) in *.
  destruct (data_row_of_accepted c cur m e h (lookup (h_key h) string_top_index) (e_ts e) (rt_sh1 rt) 0 V Hz')
    as (r & rest & Hd & Hsh & Hm & Htop & Hc & Hagg & Hnone).
  { apply clamp_ts_nonneg; auto. }
  exists r. split.
  - unfold handle, apply_metric. fold h. rewrite Hok, Hs. simpl.
    apply in_or_app. left.
    repeat (apply in_or_app; right). rewrite Hd. left. reflexivity.
  - split; [exact Hsh|]. split; [exact Hm|]. split; [exact Htop|].
    unfold row_as_documented. split; [exact Hc|]. split; [rewrite Hc; apply event_count_pos; auto|].
    split; [exact Hagg | exact Hnone].
Qed.

(* the secondary shard, once started, receives the same contribution (repaired variant of F-C12b) *)
Theorem secondary_row : forall fixed c cur m rt e s,
  rt_sh1ok rt = true -> rt_sh2 rt = Some s ->
  h_status (header_of fixed c m e) = 0 ->
  (fixed = false -> ~ zero_weight_only e) ->
  rt_drop rt <= fst (clamp_ts cur (e_ts e)) ->
  exists r, In r (handle fixed true c cur m rt e)
            /\ r_shard r = s /\ r_metric r = m_id m
            /\ r_top r = normalize (lookup (h_key (header_of fixed c m e)) string_top_index)
            /\ row_as_documented e r.
Proof.
  intros fixed c cur m rt e s Hok Hs2 Hs Hzw Hdrop.
  pose proof (proj1 (header_status_zero _ _ _ _) Hs) as (_ & V & Hz).
  assert (Hz' : ~ zero_weight_only e) by (destruct fixed; auto).
  set (h := header_of fixed c m e) in *.
  destruct (data_row_of_accepted c cur m e h (lookup (h_key h) string_top_index) (e_ts e) s (rt_drop rt) V Hz' Hdrop)
    as (r & rest & Hd & Hsh & Hm & Htop & Hc & Hagg & Hnone).
  exists r. split.
  - unfold handle, apply_metric. fold h. rewrite Hok, Hs, Hs2. simpl.
    apply in_or_app. right.
    repeat (apply in_or_app; right). rewrite Hd. left. reflexivity.
  - split; [exact Hsh|]. split; [exact Hm|]. split; [exact Htop|].
    unfold row_as_documented. split; [exact Hc|]. split; [rewrite Hc; apply event_count_pos; auto|].
    split; [exact Hagg | exact Hnone].
Qed.

(* rejected: exactly one record in the primary shard, one in the secondary shard once it has started, nothing else *)
Theorem rejected_exactly_one_status_row : forall fixed fixb c cur m rt e,
  rt_sh1ok rt = true -> 0 <= cur ->
  ~ (m_disabled m = false /\ valid_event e /\ (fixed = true -> ~ zero_weight_only e)) ->
  exists tag0 code key str,
    reason_holds fixed code m e /\ code <> 0 /\ code <> st_ok_cached
    /\ handle fixed fixb c cur m rt e =
       status_record c (rt_sh1 rt) cur metric_ingestion_status [tag0; m_id m; code; key; component_agent] str
       :: match rt_sh2 rt with
          | Some s => if cur <? rt_drop rt then []
                      else [status_record c s cur metric_ingestion_status [tag0; m_id m; code; key; component_agent] str]
          | None => []
          end.
Proof.
  intros fixed fixb c cur m rt e Hok Hcur Hnv.
  destruct (rejected_rows fixed fixb c cur m rt e Hok Hnv) as (tag0 & code & key & str & R & NZ & NOK & E).
  exists tag0, code, key, str. repeat split; auto.
  rewrite E. apply reject_rows_shape; auto.
Qed.
