(* C12 — validation: the header's ingestion status is 0 exactly for valid events, and a non-zero status names a
   reason that is true of the event. *)
From Coq Require Import ZArith QArith List Bool Lia.
From SH Require Import Common.Wrap Gen.TagValueUnicode TagValue.Model Gen.IngestConsts Ingest.Model Ingest.Spec.
Import ListNotations.
Open Scope Z_scope.

(* ------------------------------------------------------------------ generated constants: side conditions *)

Definition error_codes : list Z :=
  [st_err_nan_inf_value; st_err_nan_inf_counter; st_err_negative_counter; st_err_tag_value_encoding;
   st_err_metric_disabled; st_err_tag_name_encoding; st_err_value_unique_both_set; st_err_sharding_failed;
   st_err_too_big_counter; st_err_too_big_value; st_err_zero_counter; st_err_tag_value_corrupted].

Lemma IngestConsts_ok :
  forallb (fun c => negb (c =? 0) && negb (c =? st_ok_cached)) error_codes = true
  /\ metric_ingestion_status < 0 /\ metric_ingestion_status_no_shard < 0
  /\ 0 < max_float32.
Proof. vm_compute. repeat split; reflexivity. Qed.

Lemma err_code_facts : forall c, In c error_codes -> c <> 0 /\ c <> st_ok_cached.
Proof.
  intros c Hin. destruct IngestConsts_ok as [H _].
  rewrite forallb_forall in H. specialize (H c Hin).
  apply andb_true_iff in H. destruct H as [H1 H2].
  apply negb_true_iff in H1, H2. apply Z.eqb_neq in H1, H2. auto.
Qed.

Ltac code_in := unfold error_codes; simpl; tauto.
Ltac code_nz :=
  match goal with
  | |- ?c <> 0 => apply (err_code_facts c); code_in
  | |- ?c = 0 -> False => change (c <> 0); apply (err_code_facts c); code_in
  end.

(* ------------------------------------------------------------------ Q comparisons *)

Lemma qlt_false : forall a b, qlt a b = false <-> (b <= a)%Q.
Proof. intros. unfold qlt. rewrite negb_false_iff. apply Qle_bool_iff. Qed.
Lemma qlt_true : forall a b, qlt a b = true <-> (a < b)%Q.
Proof.
  intros. unfold qlt. rewrite negb_true_iff. split; intro H.
  - apply Qnot_le_lt. intro Hle. apply Qle_bool_iff in Hle. congruence.
  - destruct (Qle_bool b a) eqn:E; auto. apply Qle_bool_iff in E. exfalso. eapply Qlt_not_le; eauto.
Qed.

Lemma len_nil : forall {A} (l : list A), (len l =? 0) = true <-> l = [].
Proof. intros. unfold len. destruct l; simpl; split; intro H; auto; try discriminate. Qed.
Lemma len_nonneg : forall {A} (l : list A), 0 <= len l.
Proof. intros. unfold len. lia. Qed.
Lemma is_nil_true : forall {A} (l : list A), is_nil l = true <-> l = [].
Proof. destruct l; simpl; split; intro; auto; discriminate. Qed.

(* ------------------------------------------------------------------ ValidateCounter / ValidateValue *)

Lemma validate_counter_cases : forall f,
  (validate_counter f = 0 /\ valid_counter f)
  \/ (validate_counter f = st_err_nan_inf_counter /\ f = NaN)
  \/ (validate_counter f = st_err_negative_counter /\ f_lt0 f = true)
  \/ (validate_counter f = st_err_too_big_counter /\ f_gt_max f = true).
Proof.
  intros f. unfold validate_counter.
  destruct f as [q| | |]; simpl; auto 6.
  destruct (qlt q 0) eqn:E1; auto 6.
  destruct (qlt maxf q) eqn:E2; auto 6.
  left. split; auto. exists q. apply qlt_false in E1, E2. auto.
Qed.

Lemma validate_value_cases : forall f,
  (validate_value f = 0 /\ valid_value f)
  \/ (validate_value f = st_err_nan_inf_value /\ f = NaN)
  \/ (validate_value f = st_err_too_big_value /\ (f_gt_max f = true \/ f_lt_negmax f = true)).
Proof.
  intros f. unfold validate_value.
  destruct f as [q| | |]; simpl; auto 6.
  destruct (qlt maxf q) eqn:E1; auto 6.
  destruct (qlt q (- maxf)) eqn:E2; auto 6.
  left. split; auto. exists q. apply qlt_false in E1, E2. auto.
Qed.

Lemma valid_counter_zero : forall f, valid_counter f -> validate_counter f = 0.
Proof.
  intros f (q & -> & H0 & H1). unfold validate_counter. simpl.
  apply qlt_false in H0, H1. rewrite H0, H1. reflexivity.
Qed.
Lemma valid_value_zero : forall f, valid_value f -> validate_value f = 0.
Proof.
  intros f (q & -> & H0 & H1). unfold validate_value. simpl.
  apply qlt_false in H0, H1. rewrite H0, H1. reflexivity.
Qed.

Lemma validate_counter_zero_inv : forall f, validate_counter f = 0 -> valid_counter f.
Proof.
  intros f H. destruct (validate_counter_cases f) as [[_ V]|[[E _]|[[E _]|[E _]]]]; auto;
    rewrite E in H; exfalso; revert H; code_nz.
Qed.
Lemma validate_value_zero_inv : forall f, validate_value f = 0 -> valid_value f.
Proof.
  intros f H. destruct (validate_value_cases f) as [[_ V]|[[E _]|[E _]]]; auto;
    rewrite E in H; exfalso; revert H; code_nz.
Qed.

Lemma first_err_zero : forall {A} (f : A -> Z) l, first_err f l = 0 <-> Forall (fun x => f x = 0) l.
Proof.
  induction l; simpl; split; intro H; auto.
  - destruct (f a =? 0) eqn:E.
    + apply Z.eqb_eq in E. constructor; auto. apply IHl; auto.
    + apply Z.eqb_neq in E. congruence.
  - inversion H; subst. rewrite H2. simpl. apply IHl; auto.
Qed.

Lemma first_err_nonzero : forall {A} (f : A -> Z) l, first_err f l <> 0 -> exists x, In x l /\ f x = first_err f l.
Proof.
  induction l; simpl; intro H; try congruence.
  destruct (f a =? 0) eqn:E.
  - destruct (IHl H) as (x & Hin & Hx). exists x. auto.
  - exists a. auto.
Qed.

Lemma hist_entry_zero : forall h, validate_hist_entry h = 0 <-> valid_value (fst h) /\ valid_counter (snd h).
Proof.
  intros h. unfold validate_hist_entry. split.
  - destruct (validate_value (fst h) =? 0) eqn:E; intro H.
    + apply Z.eqb_eq in E. split; [apply validate_value_zero_inv | apply validate_counter_zero_inv]; auto.
    + apply Z.eqb_neq in E. congruence.
  - intros [V C]. rewrite (valid_value_zero _ V). simpl. apply valid_counter_zero; auto.
Qed.

(* ------------------------------------------------------------------ ValidateMetricData *)

Definition numeric_valid (e : event) : Prop :=
  valid_counter (e_counter e)
  /\ Forall valid_value (e_values e)
  /\ Forall (fun h => valid_value (fst h) /\ valid_counter (snd h)) (e_hist e)
  /\ ~ (has_values e /\ e_uniq e <> [])
  /\ ~ is_empty e.

Lemma nv_zero : forall e, (len (e_values e) + len (e_hist e) =? 0) = true <-> e_values e = [] /\ e_hist e = [].
Proof.
  intros e. pose proof (len_nonneg (e_values e)). pose proof (len_nonneg (e_hist e)).
  rewrite Z.eqb_eq. split.
  - intro Hs. split; apply len_nil; apply Z.eqb_eq; lia.
  - intros [-> ->]. reflexivity.
Qed.

Lemma has_values_dec : forall e, (len (e_values e) + len (e_hist e) =? 0) = false <-> has_values e.
Proof.
  intros e. unfold has_values. split.
  - intro Hf. destruct (e_values e) eqn:Ev; [|left; discriminate].
    destruct (e_hist e) eqn:Eh; [|right; discriminate].
    assert (Ht : (len (e_values e) + len (e_hist e) =? 0) = true) by (apply nv_zero; auto). congruence.
  - intro Hv. destruct (len (e_values e) + len (e_hist e) =? 0) eqn:E; auto.
    apply nv_zero in E. destruct E. tauto.
Qed.

Lemma Forall_impl_iff : forall {A} (P Q : A -> Prop) l, (forall x, P x <-> Q x) -> (Forall P l <-> Forall Q l).
Proof. intros. split; apply Forall_impl; intros; apply H; auto. Qed.

Lemma f_is0_fq : forall q, f_is0 (Fin q) = true <-> (fq (Fin q) == 0)%Q.
Proof. intros. simpl. apply Qeq_bool_iff. Qed.

Lemma zero_weight_dec : forall e,
  (is_nil (e_values e) && negb (is_nil (e_hist e)) && Qle_bool (hist_weight (e_hist e)) 0) = true <-> zero_weight_only e.
Proof.
  intros e. unfold zero_weight_only. rewrite !andb_true_iff, negb_true_iff, is_nil_true, Qle_bool_iff.
  split.
  - intros [[H1 H2] H3]. repeat split; auto. intro Hn. apply is_nil_true in Hn. congruence.
  - intros (H1 & H2 & H3). repeat split; auto. destruct (e_hist e); simpl; auto. congruence.
Qed.

(* what a non-zero result of ValidateMetricData says about the event *)
Lemma validate_metric_data_reason : forall fixed m e,
  validate_metric_data fixed e <> 0 -> reason_holds fixed (validate_metric_data fixed e) m e.
Proof.
  intros fixed m e. unfold validate_metric_data, reason_holds.
  destruct (len (e_values e) + len (e_hist e) =? 0) eqn:Env.
  - (* no values *)
    apply nv_zero in Env. destruct Env as [Ev Eh].
    destruct (len (e_uniq e) =? 0) eqn:Enu; simpl.
    + apply len_nil in Enu.
      destruct (f_is0 (e_counter e)) eqn:E0.
      * intros _. right. right. left. split; auto. unfold is_empty. repeat split; auto.
        destruct (e_counter e); simpl in *; try discriminate. apply Qeq_bool_iff; auto.
      * rewrite Ev, Eh. simpl.
        destruct (validate_counter_cases (e_counter e)) as [[E _]|[[E R]|[[E R]|[E R]]]]; rewrite E; simpl.
        -- rewrite !andb_false_r. simpl. congruence.
        -- replace (negb (st_err_nan_inf_counter =? 0)) with true
             by (symmetry; apply negb_true_iff, Z.eqb_neq; code_nz). intros _. auto 10.
        -- replace (negb (st_err_negative_counter =? 0)) with true
             by (symmetry; apply negb_true_iff, Z.eqb_neq; code_nz). intros _. auto 10.
        -- replace (negb (st_err_too_big_counter =? 0)) with true
             by (symmetry; apply negb_true_iff, Z.eqb_neq; code_nz). intros _. auto 10.
    + rewrite Ev, Eh. simpl.
      destruct (validate_counter_cases (e_counter e)) as [[E _]|[[E R]|[[E R]|[E R]]]]; rewrite E; simpl.
      * rewrite !andb_false_r. simpl. congruence.
      * replace (negb (st_err_nan_inf_counter =? 0)) with true
          by (symmetry; apply negb_true_iff, Z.eqb_neq; code_nz). intros _. auto 10.
      * replace (negb (st_err_negative_counter =? 0)) with true
          by (symmetry; apply negb_true_iff, Z.eqb_neq; code_nz). intros _. auto 10.
      * replace (negb (st_err_too_big_counter =? 0)) with true
          by (symmetry; apply negb_true_iff, Z.eqb_neq; code_nz). intros _. auto 10.
  - (* values present *)
    pose proof (proj1 (has_values_dec e) Env) as Hv.
    destruct (len (e_uniq e) =? 0) eqn:Enu; simpl.
    2:{ intros _. right. left. split; auto. split; auto. intro Hn. rewrite Hn in Enu. discriminate. }
    destruct (validate_counter (e_counter e) =? 0) eqn:Ec; simpl.
    2:{ apply Z.eqb_neq in Ec.
        destruct (validate_counter_cases (e_counter e)) as [[E _]|[[E R]|[[E R]|[E R]]]];
          try congruence; rewrite E; intros _; auto 10. }
    destruct (first_err validate_value (e_values e) =? 0) eqn:E2; simpl.
    2:{ apply Z.eqb_neq in E2. intros _.
        destruct (first_err_nonzero _ _ E2) as (v & Hin & Hv').
        rewrite <- Hv' in *.
        destruct (validate_value_cases v) as [[E _]|[[E R]|[E R]]]; try congruence; rewrite E.
        - do 7 right. left. split; auto. exists v. auto.
        - do 8 right. left. split; auto. exists v. auto. }
    destruct (first_err validate_hist_entry (e_hist e) =? 0) eqn:E3; simpl.
    2:{ apply Z.eqb_neq in E3. intros _.
        destruct (first_err_nonzero _ _ E3) as (h & Hin & Hh).
        rewrite <- Hh in *. unfold validate_hist_entry in *.
        destruct (validate_value (fst h) =? 0) eqn:Ev.
        - destruct (validate_counter_cases (snd h)) as [[E _]|[[E R]|[[E R]|[E R]]]]; try congruence; rewrite E.
          + do 4 right. left. split; auto. right. exists h. auto.
          + do 5 right. left. split; auto. right. exists h. auto.
          + do 6 right. left. split; auto. right. exists h. auto.
        - assert (Hm : In (fst h) (map fst (e_hist e))) by (apply in_map; auto).
          destruct (validate_value_cases (fst h)) as [[E _]|[[E R]|[E R]]]; try congruence; rewrite E.
          + do 7 right. left. split; auto. exists (fst h). auto.
          + do 8 right. left. split; auto. exists (fst h). auto. }
    destruct fixed; simpl; try congruence.
    destruct (is_nil (e_values e) && negb (is_nil (e_hist e)) && Qle_bool (hist_weight (e_hist e)) 0) eqn:Ez; try congruence.
    intros _. apply zero_weight_dec in Ez. right. right. right. left. auto.
Qed.

Lemma validate_metric_data_zero : forall fixed e,
  validate_metric_data fixed e = 0 <-> numeric_valid e /\ (fixed = true -> ~ zero_weight_only e).
Proof.
  intros fixed e. unfold validate_metric_data, numeric_valid. split.
  - (* status 0 -> valid *)
    destruct (len (e_values e) + len (e_hist e) =? 0) eqn:Env;
    destruct (len (e_uniq e) =? 0) eqn:Enu; simpl.
    + destruct (f_is0 (e_counter e)) eqn:E0; [intro H; exfalso; revert H; code_nz|].
      apply nv_zero in Env. destruct Env as [Ev Eh]. apply len_nil in Enu.
      rewrite Ev, Eh. simpl.
      destruct (validate_counter (e_counter e) =? 0) eqn:Ec; simpl; [|intro H; apply Z.eqb_neq in Ec; congruence].
      apply Z.eqb_eq in Ec. apply validate_counter_zero_inv in Ec.
      rewrite !andb_false_r. simpl. intros _. repeat split; auto.
      * intros [[Hv|Hv] _]; congruence.
      * intros (_ & _ & _ & Hz). destruct Ec as (q & Eq & _). rewrite Eq in *. apply f_is0_fq in Hz. congruence.
      * intros _ (_ & Hh & _). congruence.
    + apply nv_zero in Env. destruct Env as [Ev Eh]. rewrite Ev, Eh. simpl.
      destruct (validate_counter (e_counter e) =? 0) eqn:Ec; simpl; [|intro H; apply Z.eqb_neq in Ec; congruence].
      apply Z.eqb_eq in Ec. apply validate_counter_zero_inv in Ec.
      rewrite !andb_false_r. simpl. intros _. repeat split; auto.
      * intros [[Hv|Hv] _]; congruence.
      * intros (_ & _ & Hu & _). rewrite Hu in Enu. discriminate.
      * intros _ (_ & Hh & _). congruence.
    + apply len_nil in Enu. pose proof (proj1 (has_values_dec e) Env) as Hv.
      destruct (validate_counter (e_counter e) =? 0) eqn:Ec; simpl; [|intro H; apply Z.eqb_neq in Ec; congruence].
      destruct (first_err validate_value (e_values e) =? 0) eqn:E2; simpl; [|intro H; apply Z.eqb_neq in E2; congruence].
      destruct (first_err validate_hist_entry (e_hist e) =? 0) eqn:E3; simpl; [|intro H; apply Z.eqb_neq in E3; congruence].
      apply Z.eqb_eq in Ec, E2, E3. apply validate_counter_zero_inv in Ec.
      apply first_err_zero in E2, E3.
      intro Hz. repeat split; auto.
      * eapply Forall_impl; [|exact E2]. intros. apply validate_value_zero_inv; auto.
      * eapply Forall_impl; [|exact E3]. intros a Ha. apply hist_entry_zero in Ha. auto.
      * intros [_ Hu]. congruence.
      * intros (Hve & Hhe & _). destruct Hv; congruence.
      * intros -> Hzw. apply zero_weight_dec in Hzw. simpl in Hz. rewrite Hzw in Hz. revert Hz. code_nz.
    + intro H. exfalso. revert H. code_nz.
  - (* valid -> status 0 *)
    intros [(Vc & Vv & Vh & Hnb & Hne) Hzw].
    destruct (len (e_values e) + len (e_hist e) =? 0) eqn:Env;
    destruct (len (e_uniq e) =? 0) eqn:Enu; simpl.
    + apply nv_zero in Env. destruct Env as [Ev Eh]. apply len_nil in Enu.
      destruct (f_is0 (e_counter e)) eqn:E0.
      * exfalso. apply Hne. unfold is_empty. repeat split; auto.
        destruct Vc as (q & Eq & _). rewrite Eq in *. apply f_is0_fq; auto.
      * rewrite (valid_counter_zero _ Vc), Ev, Eh. simpl. rewrite !andb_false_r. reflexivity.
    + apply nv_zero in Env. destruct Env as [Ev Eh].
      rewrite (valid_counter_zero _ Vc), Ev, Eh. simpl. rewrite !andb_false_r. reflexivity.
    + rewrite (valid_counter_zero _ Vc). simpl.
      assert (E2 : first_err validate_value (e_values e) = 0).
      { apply first_err_zero. eapply Forall_impl; [|exact Vv]. intros. apply valid_value_zero; auto. }
      assert (E3 : first_err validate_hist_entry (e_hist e) = 0).
      { apply first_err_zero. eapply Forall_impl; [|exact Vh]. intros a Ha. apply hist_entry_zero; auto. }
      rewrite E2, E3. simpl.
      destruct fixed; simpl; auto.
      destruct (is_nil (e_values e) && negb (is_nil (e_hist e)) && Qle_bool (hist_weight (e_hist e)) 0) eqn:Ez; auto.
      apply zero_weight_dec in Ez. exfalso. apply Hzw; auto.
    + exfalso. apply Hnb. split.
      * apply has_values_dec; auto.
      * intro Hn. rewrite Hn in Enu. discriminate.
Qed.

(* ------------------------------------------------------------------ tags *)

Lemma set_tag_status : forall h i v k, h_status (set_tag h i v k) = h_status h.
Proof. intros. unfold set_tag. destruct (i =? host_tag_index); reflexivity. Qed.

Definition tag_reason (code : Z) (t : tag) : Prop :=
  (code = st_err_tag_name_encoding /\ tag_known t = false /\ append_valid false (t_name t) = None)
  \/ (code = st_err_tag_value_encoding /\ tag_known t = true /\ append_valid false (t_value t) = None)
  \/ (code = st_err_tag_value_corrupted /\ tag_known t = true /\ corrupted (t_value t) = true).

Lemma tag_reason_not_ok : forall code t, tag_reason code t -> ~ tag_ok t /\ code <> 0.
Proof.
  intros code t [(-> & K & E)|[(-> & K & E)|(-> & K & E)]]; unfold tag_ok; rewrite K; split; try code_nz.
  - congruence.
  - intros [H _]. congruence.
  - intros [_ H]. congruence.
Qed.

Lemma map_tag_spec : forall c h t h' stop,
  map_tag c h t = (h', stop) ->
  (stop = false -> tag_ok t /\ h_status h' = h_status h)
  /\ (stop = true -> tag_reason (h_status h') t).
Proof.
  intros c h t h' stop H. unfold map_tag in H. unfold tag_ok, tag_reason, tag_known.
  destruct (t_res t) as [d|idx kind legacy].
  - destruct (append_valid false (t_name t)) eqn:E; inversion H; subst; clear H; split; intro Hs; try discriminate.
    + split; [congruence | destruct d; reflexivity].
    + left; auto.
  - destruct (max_tags <=? idx) eqn:Em; simpl.
    + destruct (append_valid false (t_name t)) eqn:E; inversion H; subst; clear H; split; intro Hs; try discriminate.
      * split; [congruence | reflexivity].
      * left; auto.
    + destruct (append_valid false (t_value t)) as [vv|] eqn:Ea.
      2:{ inversion H; subst. split; [discriminate|]. intros _. right. left. auto. }
      destruct (corrupted (t_value t)) eqn:Ec.
      { inversion H; subst. split; [discriminate|]. intros _. right. right. auto. }
      assert (SL : h_status (if legacy then set_legacy h (idx + tag_id_shift) else h) = h_status h)
        by (destruct legacy; reflexivity).
      assert (FIN : forall hh, h_status hh = h_status h -> (hh, false) = (h', stop) ->
                (stop = false -> h_status h' = h_status h) /\ stop = false).
      { intros hh Hst Heq; inversion Heq; subst. auto. }
      assert (G : (stop = false -> h_status h' = h_status h) /\ stop = false).
      { destruct (is_nil vv).
        { eapply FIN; [|exact H]. rewrite set_tag_status. exact SL. }
        destruct kind.
        * eapply FIN; [|exact H]. rewrite set_tag_status. exact SL.
        * destruct (raw32 vv) as [id ok]. destruct ok; (eapply FIN; [|exact H]); [rewrite set_tag_status|]; exact SL.
        * destruct (raw64 vv) as [[lo hi] ok]. destruct ok; (eapply FIN; [|exact H]); [rewrite !set_tag_status|]; exact SL. }
      destruct G as [G1 G2]. subst stop. split; [|discriminate].
      intros _. split; [split; [congruence|reflexivity]|auto].
Qed.

Lemma map_tags_spec : forall c ts h h' stop,
  map_tags c h ts = (h', stop) ->
  (stop = false -> Forall tag_ok ts /\ h_status h' = h_status h)
  /\ (stop = true -> exists t, In t ts /\ tag_reason (h_status h') t).
Proof.
  induction ts as [|t rest IH]; simpl; intros h h' stop H.
  - inversion H; subst. split; [auto|discriminate].
  - destruct (map_tag c h t) as [h1 s1] eqn:E1.
    destruct (map_tag_spec _ _ _ _ _ E1) as [A B].
    destruct s1.
    + inversion H; subst. split; [discriminate|]. intros _. exists t. auto.
    + destruct (A eq_refl) as [Ht Hs]. destruct (IH _ _ _ H) as [C D]. split.
      * intro Hf. destruct (C Hf). split; [constructor; auto | congruence].
      * intro Hs'. destruct (D Hs') as (t' & Hin & R). exists t'. auto.
Qed.

Lemma map_all_tags_spec : forall c e,
  (h_status (map_all_tags c e) = 0 /\ Forall tag_ok (e_tags e))
  \/ (exists t, In t (e_tags e) /\ tag_reason (h_status (map_all_tags c e)) t).
Proof.
  intros c e. unfold map_all_tags.
  destruct (map_tags c hdr0 (e_tags e)) as [h stop] eqn:E.
  destruct (map_tags_spec _ _ _ _ _ E) as [A B].
  destruct stop.
  - right. apply B; auto.
  - left. destruct (A eq_refl) as [F S]. split; auto.
    destruct (negb (h_hset h) && negb (is_nil (e_host e))); simpl; rewrite S; reflexivity.
Qed.

Lemma tag_reason_exists_not_all : forall code ts t, In t ts -> tag_reason code t -> ~ Forall tag_ok ts.
Proof.
  intros code ts t Hin R F. rewrite Forall_forall in F. destruct (tag_reason_not_ok _ _ R) as [N _]. apply N, F, Hin.
Qed.

(* ------------------------------------------------------------------ Agent.Map *)

Lemma set_status_status : forall h s, h_status (set_status h s) = s.
Proof. reflexivity. Qed.

Theorem map_event_status_zero : forall fixed c e,
  h_status (map_event fixed c e) = 0 <-> valid_event e /\ (fixed = true -> ~ zero_weight_only e).
Proof.
  intros fixed c e. unfold map_event, valid_event.
  destruct (map_all_tags_spec c e) as [[S F]|(t & Hin & R)].
  - rewrite S. simpl. rewrite validate_metric_data_zero. unfold numeric_valid. tauto.
  - destruct (tag_reason_not_ok _ _ R) as [_ NZ].
    replace (negb (h_status (map_all_tags c e) =? 0)) with true
      by (symmetry; apply negb_true_iff, Z.eqb_neq; auto).
    split; [congruence|].
    intros [(_ & _ & _ & _ & _ & F) _]. exfalso. eapply tag_reason_exists_not_all; eauto.
Qed.

Theorem map_event_reason : forall fixed c m e,
  h_status (map_event fixed c e) <> 0 -> reason_holds fixed (h_status (map_event fixed c e)) m e.
Proof.
  intros fixed c m e. unfold map_event.
  destruct (map_all_tags_spec c e) as [[S F]|(t & Hin & R)].
  - rewrite S. simpl. apply validate_metric_data_reason.
  - destruct (tag_reason_not_ok _ _ R) as [_ NZ].
    replace (negb (h_status (map_all_tags c e) =? 0)) with true
      by (symmetry; apply negb_true_iff, Z.eqb_neq; auto).
    intros _. unfold reason_holds.
    destruct R as [(-> & K & E)|[(-> & K & E)|(-> & K & E)]].
    + do 9 right. left. split; auto. exists t. auto.
    + do 10 right. left. split; auto. exists t. auto.
    + do 11 right. split; auto. exists t. auto.
Qed.

(* the header the worker hands to ApplyMetric *)
Theorem header_status_zero : forall fixed c m e,
  h_status (header_of fixed c m e) = 0 <->
  m_disabled m = false /\ valid_event e /\ (fixed = true -> ~ zero_weight_only e).
Proof.
  intros. unfold header_of. destruct (m_disabled m).
  - rewrite set_status_status. split.
    + intro H. exfalso. revert H. code_nz.
    + intros [H _]. discriminate.
  - rewrite map_event_status_zero. tauto.
Qed.

Theorem header_reason : forall fixed c m e,
  h_status (header_of fixed c m e) <> 0 -> reason_holds fixed (h_status (header_of fixed c m e)) m e.
Proof.
  intros fixed c m e. unfold header_of. destruct (m_disabled m) eqn:D.
  - rewrite set_status_status. intros _. left. auto.
  - apply map_event_reason.
Qed.

(* every reason is one of the error codes, hence neither 0 nor "ok" *)
Lemma reason_is_error : forall fixed code m e, reason_holds fixed code m e -> code <> 0 /\ code <> st_ok_cached.
Proof.
  intros fixed code m e R. apply err_code_facts. unfold reason_holds in R.
  repeat (destruct R as [(-> & _)|R]; [code_in|]). destruct R as (-> & _). code_in.
Qed.
