(* C12 — the property's clauses in their final form (corollaries of Proofs.v / ProofsApply.v) and the witnesses of the
   recorded findings. *)
From Coq Require Import ZArith QArith List Bool Lia.
From SH Require Import Common.Wrap Gen.TagValueUnicode TagValue.Model Gen.IngestConsts Ingest.Model Ingest.Spec Ingest.Proofs Ingest.ProofsApply.
Import ListNotations.
Open Scope Z_scope.

Lemma accepted_status : forall fixed c m e,
  m_disabled m = false -> valid_event e -> (fixed = true -> ~ zero_weight_only e) ->
  h_status (header_of fixed c m e) = 0.
Proof. intros. apply header_status_zero. auto. Qed.

Theorem status_zero_iff_valid : forall c m e,
  h_status (header_of false c m e) = 0 <-> m_disabled m = false /\ valid_event e.
Proof.
  intros. rewrite header_status_zero. split.
  - intros (A & B & _). auto.
  - intros (A & B). split; [exact A|]. split; [exact B|]. intro H; discriminate H.
Qed.

Lemma has_data_of_zero_counter : forall e, valid_event e -> (fq (e_counter e) == 0)%Q -> has_values e \/ e_uniq e <> [].
Proof.
  intros e (_ & _ & _ & _ & Hne & _) H0.
  destruct (e_values e) eqn:Ev; [|left; left; rewrite Ev; discriminate].
  destruct (e_hist e) eqn:Eh; [|left; right; rewrite Eh; discriminate].
  destruct (e_uniq e) eqn:Eu; [|right; discriminate].
  exfalso. apply Hne. unfold is_empty. auto.
Qed.

(* "an absent counter means one event per value (or the histogram weight)" *)
Theorem absent_counter_counts_values : forall fixed fixb c cur m rt e,
  rt_sh1ok rt = true -> 0 <= cur -> 0 <= e_ts e ->
  m_disabled m = false -> valid_event e -> ~ zero_weight_only e ->
  (fq (e_counter e) == 0)%Q ->
  exists r, In r (handle fixed fixb c cur m rt e) /\ r_shard r = rt_sh1 rt /\ r_metric r = m_id m
    /\ (r_count r == total_weight e)%Q
    /\ a_set (r_agg r) = true
    /\ (a_sum (r_agg r) == weighted_sum e)%Q
    /\ (a_sumsq (r_agg r) == weighted_sumsq e)%Q.
Proof.
  intros fixed fixb c cur m rt e Hok Hcur Hts Hd V Hz H0.
  assert (Hs : h_status (header_of fixed c m e) = 0) by (apply accepted_status; auto).
  destruct (accepted_row fixed fixb c cur m rt e Hok Hcur Hts Hs (fun _ => Hz)) as (r & Hin & Hsh & Hm & _ & Hc & Hp & Hagg & _).
  pose proof (has_data_of_zero_counter e V H0) as Hdata.
  pose proof (total_weight_pos e V Hz Hdata) as Htot.
  assert (Hne : ~ (total_weight e == 0)%Q) by (intro E; rewrite E in Htot; discriminate).
  assert (Ec : (event_count e == total_weight e)%Q).
  { unfold event_count. replace (Qeq_bool (fq (e_counter e)) 0) with true by (symmetry; apply Qeq_bool_iff; auto). reflexivity. }
  destruct (Hagg Hdata) as (Hset & Hsum & Hsq).
  exists r. repeat split; auto.
  - rewrite Hc. exact Ec.
  - rewrite Hsum, Ec. field. auto.
  - rewrite Hsq, Ec. field. auto.
Qed.

(* "a present counter scales the value aggregates so that count and average match" *)
Theorem counter_scales_aggregates : forall fixed fixb c cur m rt e,
  rt_sh1ok rt = true -> 0 <= cur -> 0 <= e_ts e ->
  m_disabled m = false -> valid_event e -> ~ zero_weight_only e ->
  (0 < fq (e_counter e))%Q ->
  exists r, In r (handle fixed fixb c cur m rt e) /\ r_shard r = rt_sh1 rt /\ r_metric r = m_id m
    /\ (r_count r == fq (e_counter e))%Q
    /\ ((has_values e \/ e_uniq e <> []) ->
          a_set (r_agg r) = true
          /\ (a_sum (r_agg r) == weighted_sum e * fq (e_counter e) / total_weight e)%Q
          /\ (a_sumsq (r_agg r) == weighted_sumsq e * fq (e_counter e) / total_weight e)%Q
          (* the average (and the average square) of the row is that of the values sent *)
          /\ (a_sum (r_agg r) / r_count r == weighted_sum e / total_weight e)%Q
          /\ (a_sumsq (r_agg r) / r_count r == weighted_sumsq e / total_weight e)%Q)
    /\ (~ (has_values e \/ e_uniq e <> []) -> r_agg r = agg0).
Proof.
  intros fixed fixb c cur m rt e Hok Hcur Hts Hd V Hz Hpos.
  assert (Hs : h_status (header_of fixed c m e) = 0) by (apply accepted_status; auto).
  destruct (accepted_row fixed fixb c cur m rt e Hok Hcur Hts Hs (fun _ => Hz)) as (r & Hin & Hsh & Hm & _ & Hc & Hp & Hagg & Hnone).
  assert (Ec : (event_count e == fq (e_counter e))%Q).
  { unfold event_count. destruct (Qeq_bool (fq (e_counter e)) 0) eqn:E; [|reflexivity].
    apply Qeq_bool_iff in E. rewrite E in Hpos. discriminate. }
  assert (Hcne : ~ (fq (e_counter e) == 0)%Q) by (intro E; rewrite E in Hpos; discriminate).
  exists r. split; [exact Hin|]. split; [exact Hsh|]. split; [exact Hm|].
  split; [rewrite Hc; exact Ec|]. split; [|exact Hnone].
  intro Hdata. destruct (Hagg Hdata) as (Hset & Hsum & Hsq).
  pose proof (total_weight_pos e V Hz Hdata) as Htot.
  assert (Hne : ~ (total_weight e == 0)%Q) by (intro E; rewrite E in Htot; discriminate).
  split; [exact Hset|].
  split; [rewrite Hsum, Ec; reflexivity|].
  split; [rewrite Hsq, Ec; reflexivity|].
  split.
  - rewrite Hsum, Hc, Ec. field. auto.
  - rewrite Hsq, Hc, Ec. field. auto.
Qed.

(* with F-C12a repaired, "contributes" and "valid" coincide *)
Theorem contributes_iff_valid : forall fixb c cur m rt e,
  0 < m_id m -> rt_sh1ok rt = true -> 0 <= cur -> 0 <= e_ts e ->
  ((exists r, In r (handle true fixb c cur m rt e) /\ r_metric r = m_id m)
   <-> (m_disabled m = false /\ valid_event e /\ ~ zero_weight_only e)).
Proof.
  intros fixb c cur m rt e Hm Hok Hcur Hts. split.
  - intros (r & Hin & Hr). destruct (contributes_only_if_valid true fixb c cur m rt e r Hm Hin Hr) as (A & _ & B & C). auto.
  - intros (Hd & V & Hz).
    assert (Hs : h_status (header_of true c m e) = 0) by (apply accepted_status; auto).
    destruct (accepted_row true fixb c cur m rt e Hok Hcur Hts Hs) as (r & Hin & _ & Hr & _); [discriminate|].
    exists r. auto.
Qed.

(* the converse direction for the code as it is needs the zero-weight-histogram corner excluded *)
Theorem valid_event_contributes : forall fixed fixb c cur m rt e,
  rt_sh1ok rt = true -> 0 <= cur -> 0 <= e_ts e ->
  m_disabled m = false -> valid_event e -> ~ zero_weight_only e ->
  exists r, In r (handle fixed fixb c cur m rt e) /\ r_shard r = rt_sh1 rt /\ r_metric r = m_id m /\ (0 < r_count r)%Q.
Proof.
  intros fixed fixb c cur m rt e Hok Hcur Hts Hd V Hz.
  assert (Hs : h_status (header_of fixed c m e) = 0) by (apply accepted_status; auto).
  destruct (accepted_row fixed fixb c cur m rt e Hok Hcur Hts Hs (fun _ => Hz)) as (r & Hin & Hsh & Hm & _ & Hc & Hp & _).
  exists r. auto.
Qed.

Theorem secondary_shard_same_contribution : forall fixed c cur m rt e s,
  rt_sh1ok rt = true -> rt_sh2 rt = Some s -> 0 <= cur -> 0 <= e_ts e ->
  m_disabled m = false -> valid_event e -> ~ zero_weight_only e ->
  rt_drop rt <= fst (clamp_ts cur (e_ts e)) ->
  exists r1 r2, In r1 (handle fixed true c cur m rt e) /\ In r2 (handle fixed true c cur m rt e)
    /\ r_shard r1 = rt_sh1 rt /\ r_shard r2 = s /\ r_metric r1 = m_id m /\ r_metric r2 = m_id m
    /\ r_top r2 = r_top r1
    /\ row_as_documented e r1 /\ row_as_documented e r2.
Proof.
  intros fixed c cur m rt e s Hok Hs2 Hcur Hts Hd V Hz Hdrop.
  assert (Hs : h_status (header_of fixed c m e) = 0) by (apply accepted_status; auto).
  destruct (accepted_row fixed true c cur m rt e Hok Hcur Hts Hs (fun _ => Hz)) as (r1 & Hin1 & Hsh1 & Hm1 & Ht1 & D1).
  destruct (secondary_row fixed c cur m rt e s Hok Hs2 Hs (fun _ => Hz) Hdrop) as (r2 & Hin2 & Hsh2 & Hm2 & Ht2 & D2).
  exists r1, r2. split; [exact Hin1|]. split; [exact Hin2|]. split; [exact Hsh1|]. split; [exact Hsh2|].
  split; [exact Hm1|]. split; [exact Hm2|]. split; [congruence|]. split; [exact D1 | exact D2].
Qed.

(* ------------------------------------------------------------------ witnesses of the findings (the code as it is) *)

Definition w_meta : meta := mkMeta 77 false false.
Definition w_route1 : route := mkRoute 0 true None 0.
Definition w_route2 : route := mkRoute 0 true (Some 1) 0.
(* F-C12a: counter 5, histogram [(7, weight 0)] *)
Definition w_zero_hist : event := mkEv (Fin 5) [] [(Fin 7, Fin 0)] [] [] 1700000000 [].
(* F-C12b: counter 1, tag _s = "x" *)
Definition w_string_top : event := mkEv (Fin 1) [] [] [] [mkTag [95; 115] [120] (RTag 47 KPlain false)] 1700000000 [].

Lemma w_zero_hist_valid : valid_event w_zero_hist.
Proof. apply (map_event_status_zero false []). vm_compute. reflexivity. Qed.
Lemma w_string_top_valid : valid_event w_string_top /\ ~ zero_weight_only w_string_top.
Proof.
  split.
  - apply (map_event_status_zero false []). vm_compute. reflexivity.
  - intros (_ & H & _). apply H. reflexivity.
Qed.

(* the code accepts the event (status OK) with counter 5 and leaves a row that counts 0 *)
Theorem zero_weight_histogram_lost :
  valid_event w_zero_hist /\ h_status (header_of false [] w_meta w_zero_hist) = 0
  /\ (0 < fq (e_counter w_zero_hist))%Q
  /\ forall r, In r (handle false false [] 1700000000 w_meta w_route1 w_zero_hist) -> r_metric r = m_id w_meta ->
       (r_count r == 0)%Q.
Proof.
  split; [exact w_zero_hist_valid|]. split; [vm_compute; reflexivity|]. split; [reflexivity|].
  intros r Hin Hr. vm_compute in Hin.
  destruct Hin as [<-|[<-|[]]]; [vm_compute in Hr; discriminate | reflexivity].
Qed.

(* the code records the event under its string-top entry in the primary shard and in the tail in the secondary *)
Theorem secondary_shard_loses_string_top :
  valid_event w_string_top /\ ~ zero_weight_only w_string_top
  /\ exists r1 r2, In r1 (handle false false [] 1700000000 w_meta w_route2 w_string_top)
       /\ In r2 (handle false false [] 1700000000 w_meta w_route2 w_string_top)
       /\ r_metric r1 = m_id w_meta /\ r_metric r2 = m_id w_meta /\ r_shard r1 = 0 /\ r_shard r2 = 1
       /\ r_top r1 = (0, [120]) /\ r_top r2 = tagv0.
Proof.
  destruct w_string_top_valid as [A B]. split; [exact A|]. split; [exact B|].
  eexists. eexists. split; [|split].
  - vm_compute. right. left. reflexivity.
  - vm_compute. do 3 right. left. reflexivity.
  - vm_compute. repeat split; reflexivity.
Qed.
