(* C26 — filter values cannot change the structure of storage queries.
   Model of: internal/api/sql_query_series.go (escapeReplacer, writeWhere, writeTimeClause,
             ensurePrimaryKeyPrefix, writeMetricFilter, writeTagFilter, whereIntExpr, raw64),
             internal/api/sql.go (colInt/colIntV3, colStr, raw64Expr, groupedBy),
             internal/data_model/query_filter.go (TagValue flags, TagValue.Empty, TagFilter.Empty).
   Bytes are Z (0..255 in every recorded case; the theorems hold for arbitrary Z).
   The where-clause is produced in three layers:
     filters --build--> condition AST (atoms) --toks--> token list --render--> text
   and the correspondence check compares [render (toks (build …))] with the text the Go code wrote.
   A model of the ClickHouse lexer (string literals with the documented escape set, words, punctuation)
   reads the text back; a row evaluator gives the AST its meaning.
   Executable definitions only. *)
From Coq Require Import ZArith List Bool String Ascii Decimal DecimalZ.
From SH Require Import Common.Wrap.
Import ListNotations.
Open Scope Z_scope.

Definition str := list Z.

Definition txt (s : string) : str := List.map (fun a => Z.of_N (N_of_ascii a)) (list_ascii_of_string s).

Fixpoint str_eqb (a b : str) : bool :=
  match a, b with
  | [], [] => true
  | x :: a', y :: b' => (x =? y) && str_eqb a' b'
  | _, _ => false
  end.

Definition is_nil {A} (l : list A) : bool := match l with [] => true | _ => false end.

(* ---------- decimal printing (fmt.Sprint of int/int32/int64, strconv.Itoa) ---------- *)
Fixpoint uint_digits (u : uint) : str :=
  match u with
  | Nil => []
  | D0 r => 48 :: uint_digits r | D1 r => 49 :: uint_digits r | D2 r => 50 :: uint_digits r
  | D3 r => 51 :: uint_digits r | D4 r => 52 :: uint_digits r | D5 r => 53 :: uint_digits r
  | D6 r => 54 :: uint_digits r | D7 r => 55 :: uint_digits r | D8 r => 56 :: uint_digits r
  | D9 r => 57 :: uint_digits r
  end.

(* digits of |z| *)
Definition dec (z : Z) : str :=
  match Z.to_int z with Pos u => uint_digits u | Neg u => uint_digits u end.

(* ---------- escaping: strings.NewReplacer(`'`, `\'`, `\`, `\\`) is a byte-wise replacer ---------- *)
Definition esc1 (c : Z) : str :=
  if c =? 39 then [92; 39] else if c =? 92 then [92; 92] else [c].
Definition escape (s : str) : str := flat_map esc1 s.

(* ---------- tokens and their text ---------- *)
Inductive token :=
| TW (w : str)   (* word: identifier, keyword or unsigned number *)
| TP (c : Z)     (* one punctuation character *)
| TS (s : str)   (* string literal with DECODED content s *)
| TSp.           (* one space *)

Definition render_tok (t : token) : str :=
  match t with
  | TW w => w
  | TP c => [c]
  | TS s => 39 :: escape s ++ [39]
  | TSp => [32]
  end.
Definition render (ts : list token) : str := flat_map render_tok ts.

(* ---------- model of the ClickHouse lexer ---------- *)
Definition wordchar (c : Z) : bool :=
  ((48 <=? c) && (c <=? 57)) || ((65 <=? c) && (c <=? 90)) || ((97 <=? c) && (c <=? 122)) || (c =? 95).
(* ( ) , = ! < > - + * / % . *)
Definition punct (c : Z) : bool :=
  existsb (Z.eqb c) [40; 41; 44; 61; 33; 60; 62; 45; 43; 42; 47; 37; 46].

Definition unhex (c : Z) : option Z :=
  if (48 <=? c) && (c <=? 57) then Some (c - 48)
  else if (97 <=? c) && (c <=? 102) then Some (c - 87)
  else if (65 <=? c) && (c <=? 70) then Some (c - 55)
  else None.

(* parseEscapeSequence of ClickHouse (ReadHelpers.h) *)
Definition decode_escape (c : Z) : Z :=
  if c =? 97 then 7 else if c =? 98 then 8 else if c =? 101 then 27 else if c =? 102 then 12
  else if c =? 110 then 10 else if c =? 114 then 13 else if c =? 116 then 9 else if c =? 118 then 11
  else if c =? 48 then 0 else c.
(* parseComplexEscapeSequence: unknown escapes keep their backslash *)
Definition keeps_backslash (d : Z) : bool :=
  negb ((d =? 92) || (d =? 39) || (d =? 34) || (d =? 96) || (d =? 47) || ((0 <=? d) && (d <=? 31)) || (d =? 127)).

Definition cons_res (c : Z) (r : option (str * str)) : option (str * str) :=
  match r with Some (s, rest) => Some (c :: s, rest) | None => None end.

(* input: text after the opening quote; output: decoded content and the text after the closing quote.
   Rules: '' inside a literal is a quote; \xHH; \N is nothing; \c by the tables above; anything else
   (control characters, NUL, bytes >= 128 included) stands for itself; end of input = error. *)
Fixpoint lex_body (s : str) : option (str * str) :=
  match s with
  | [] => None
  | c :: r =>
    if c =? 39 then
      match r with
      | c2 :: r2 => if c2 =? 39 then cons_res 39 (lex_body r2) else Some ([], r)
      | [] => Some ([], [])
      end
    else if c =? 92 then
      match r with
      | [] => None
      | e :: r2 =>
        if e =? 120 then
          match r2 with
          | h1 :: h2 :: r3 =>
            match unhex h1, unhex h2 with
            | Some a, Some b => cons_res (16 * a + b) (lex_body r3)
            | _, _ => None
            end
          | _ => None
          end
        else if e =? 78 then lex_body r2
        else
          let d := decode_escape e in
          if keeps_backslash d then cons_res 92 (cons_res d (lex_body r2)) else cons_res d (lex_body r2)
      end
    else cons_res c (lex_body r)
  end.

(* lex_string on text that starts with the opening quote *)
Definition lex_string (s : str) : option (str * str) :=
  match s with
  | c :: r => if c =? 39 then lex_body r else None
  | [] => None
  end.

Fixpoint span_word (s : str) : str * str :=
  match s with
  | c :: r => if wordchar c then let (w, rest) := span_word r in (c :: w, rest) else ([], s)
  | [] => ([], [])
  end.

Definition cons_tok (t : token) (r : option (list token)) : option (list token) :=
  match r with Some ts => Some (t :: ts) | None => None end.

Fixpoint lex_fuel (n : nat) (s : str) : option (list token) :=
  match s with
  | [] => Some []
  | c :: r =>
    match n with
    | O => None
    | S n' =>
      if c =? 32 then cons_tok TSp (lex_fuel n' r)
      else if c =? 39 then
        match lex_body r with
        | Some (lit, rest) => cons_tok (TS lit) (lex_fuel n' rest)
        | None => None
        end
      else if wordchar c then
        let (w, rest) := span_word r in cons_tok (TW (c :: w)) (lex_fuel n' rest)
      else if punct c then cons_tok (TP c) (lex_fuel n' r)
      else None
    end
  end.
Definition lex (s : str) : option (list token) := lex_fuel (List.length s) s.

(* ---------- inputs ---------- *)
(* data_model.TagValue: flags tagHasValue / tagIsMapped, Value, Mapped *)
Record tagval := { tv_has_value : bool; tv_is_mapped : bool; tv_value : str; tv_mapped : Z }.
Definition tv_empty (v : tagval) : bool :=
  tv_has_value v && tv_is_mapped v && is_nil (tv_value v) && (tv_mapped v =? 0).
Record tagfilter := { tf_values : list tagval; tf_re2 : str }.
Definition tf_empty (f : tagfilter) : bool := is_nil (tf_values f) && is_nil (tf_re2 f).

(* what the builder reads besides the filters *)
Record cfg := {
  c_tags : option (list (bool * bool)); (* b.metric == nil -> None; else (Raw(), Raw64()) of b.metric.Tags[i] *)
  c_has_prekey : bool;                   (* lod.HasPreKey *)
  c_prekey : Z;                          (* b.preKeyTagX() *)
  c_by : list Z;                         (* b.by *)
  c_mode : Z                             (* 0 series, 1 tag values, 2 tag value ids *)
}.

Definition tag_info (c : cfg) (x : Z) : bool * bool :=
  match c_tags c with
  | Some l => if x <? 0 then (false, false) else nth (Z.to_nat x) l (false, false)
  | None => (false, false)
  end.
Definition is_raw (c : cfg) (x : Z) : bool := fst (tag_info c x).
Definition is_raw64 (c : cfg) (x : Z) : bool := snd (tag_info c x).
Definition grouped_by (c : cfg) (x : Z) : bool := existsb (Z.eqb x) (c_by c).

(* ---------- column names and integer expressions ---------- *)
(* colIntV3 for 0 <= x < 48 (the only indices a TagFilters array has) *)
Definition col_int (c : cfg) (x : Z) : str :=
  if c_has_prekey c && (x =? c_prekey c) then txt "pre_tag" else txt "tag" ++ dec x.
Definition col_str (x : Z) : str := txt "stag" ++ dec x.

Inductive iexpr :=
| IECol (name : str)
| IERaw64 (hi lo : str)               (* bitOr(bitShiftLeft(toInt64(toUInt32(hi)),32),toUInt32(lo)) *)
| IEAlias (name : str) (hi lo : str). (* SELECT alias of the raw64 expression *)

(* whereIntExpr (modes 0..2) *)
Definition where_int_expr (c : cfg) (x : Z) : iexpr :=
  if (c_mode c =? 0) && c_has_prekey c && (x =? c_prekey c) then IECol (txt "_prekey")
  else if is_raw64 c x then
    if grouped_by c x then IEAlias (txt "_tag" ++ dec x) (col_int c (x + 1)) (col_int c x)
    else IERaw64 (col_int c (x + 1)) (col_int c x)
  else IECol (col_int c x).

(* ---------- condition AST ---------- *)
Inductive atom :=
| AConst (b : bool)                                   (* 0=0 / 0!=0 *)
| AIntIn (neg : bool) (e : iexpr) (vs : list Z)       (* e [NOT] IN (v,…) *)
| AStrIn (neg : bool) (col : str) (vs : list str)     (* col [NOT] IN ('s',…) *)
| AMatch (neg : bool) (col : str) (re : str)          (* [NOT ]match(col,'re') *)
| AEmpty (neg : bool) (e : iexpr) (col : option str). (* [NOT ](e=0[ AND col='']) *)

Record tagcond := { tc_or : bool; tc_atoms : list atom }.  (* " AND (" a sep a … ")" *)

(* writeTagFilter for one tag; pos = (op == IN) *)
Definition build_tag (c : cfg) (pos : bool) (x : Z) (f : tagfilter) : tagcond :=
  let raw := is_raw c x in
  let e := where_int_expr c x in
  let live := filter (fun v => negb (tv_empty v)) (tf_values f) in
  let mapped := List.map tv_mapped (filter tv_is_mapped live) in
  let strs := List.map tv_value (filter tv_has_value live) in
  let has_empty := existsb tv_empty (tf_values f) in
  {| tc_or := pos;
     tc_atoms :=
       [if is_nil mapped then AConst (negb pos) else AIntIn (negb pos) e mapped]
       ++ (if raw then []
           else if negb (is_nil (tf_re2 f)) then [AMatch (negb pos) (col_str x) (tf_re2 f)]
           else if negb (is_nil strs) then [AStrIn (negb pos) (col_str x) strs]
           else [])
       ++ (if has_empty then [AEmpty (negb pos) e (if raw then None else Some (col_str x))] else []) |}.

Definition build_tags (c : cfg) (pos : bool) (fs : list (Z * tagfilter)) : list tagcond :=
  List.map (fun xf => build_tag c pos (fst xf) (snd xf)) (filter (fun xf => negb (tf_empty (snd xf))) fs).

(* writeMetricFilter: metric_id = b.metricID(); ids of filterIn.Metrics / filterNotIn.Metrics *)
Inductive metriccond :=
| MEq (id : Z)
| MIn (ins : list Z) (nots : list Z). (* each part present when non-empty *)
Definition build_metric (metric_id : Z) (ins nots : list Z) : metriccond :=
  if negb (metric_id =? 0) || (is_nil ins && is_nil nots) then MEq metric_id else MIn ins nots.

Record wherec := {
  w_from : Z; w_to : Z;
  w_metric : metriccond;
  w_in : list tagcond;
  w_notin : list tagcond
}.

Record query := {
  q_cfg : cfg;
  q_from : Z; q_to : Z;                 (* lod.FromSec, lod.ToSec *)
  q_metric_id : Z; q_min : list Z; q_mnot : list Z;
  q_in : list (Z * tagfilter);          (* non-listed tags have the zero TagFilter; increasing index *)
  q_notin : list (Z * tagfilter)
}.

Definition build_where (q : query) : wherec :=
  {| w_from := q_from q; w_to := q_to q;
     w_metric := build_metric (q_metric_id q) (q_min q) (q_mnot q);
     w_in := build_tags (q_cfg q) true (q_in q);
     w_notin := build_tags (q_cfg q) false (q_notin q) |}.

(* ---------- AST -> tokens ---------- *)
Definition W (s : string) : token := TW (txt s).
Definition P (s : string) : token := TP (hd 0 (txt s)).

Definition num_toks (z : Z) : list token := if z <? 0 then [TP 45; TW (dec z)] else [TW (dec z)].

Fixpoint sep_list {A} (f : A -> list token) (l : list A) : list token :=
  match l with
  | [] => []
  | [a] => f a
  | a :: r => f a ++ TP 44 :: sep_list f r
  end.

Definition iexpr_toks (e : iexpr) : list token :=
  match e with
  | IECol n => [TW n]
  | IEAlias n _ _ => [TW n]
  | IERaw64 hi lo =>
      [W "bitOr"; P "("; W "bitShiftLeft"; P "("; W "toInt64"; P "("; W "toUInt32"; P "("; TW hi; P ")"; P ")";
       P ","; W "32"; P ")"; P ","; W "toUInt32"; P "("; TW lo; P ")"; P ")"]
  end.

Definition in_op (neg : bool) : list token :=
  if neg then [TSp; W "NOT"; TSp; W "IN"; TSp] else [TSp; W "IN"; TSp].
Definition not_prefix (neg : bool) : list token := if neg then [W "NOT"; TSp] else [].

Definition atom_toks (a : atom) : list token :=
  match a with
  | AConst true => [W "0"; P "="; W "0"]
  | AConst false => [W "0"; P "!"; P "="; W "0"]
  | AIntIn neg e vs => iexpr_toks e ++ in_op neg ++ [P "("] ++ sep_list num_toks vs ++ [P ")"]
  | AStrIn neg col vs => [TW col] ++ in_op neg ++ [P "("] ++ sep_list (fun s => [TS s]) vs ++ [P ")"]
  | AMatch neg col re => not_prefix neg ++ [W "match"; P "("; TW col; P ","; TS re; P ")"]
  | AEmpty neg e col =>
      not_prefix neg ++ [P "("] ++ iexpr_toks e ++ [P "="; W "0"]
      ++ match col with Some c => [TSp; W "AND"; TSp; TW c; P "="; TS []] | None => [] end
      ++ [P ")"]
  end.

Definition sep_toks (is_or : bool) : list token :=
  if is_or then [TSp; W "OR"; TSp] else [TSp; W "AND"; TSp].

Fixpoint atoms_toks (is_or : bool) (l : list atom) : list token :=
  match l with
  | [] => []
  | [a] => atom_toks a
  | a :: r => atom_toks a ++ sep_toks is_or ++ atoms_toks is_or r
  end.

Definition tagcond_toks (t : tagcond) : list token :=
  [TSp; W "AND"; TSp; P "("] ++ atoms_toks (tc_or t) (tc_atoms t) ++ [P ")"].

Definition metric_toks (m : metriccond) : list token :=
  match m with
  | MEq id => [TSp; W "AND"; TSp; W "metric"; P "="] ++ num_toks id
  | MIn ins nots =>
      (if is_nil ins then [] else [TSp; W "AND"; TSp; W "metric"; TSp; W "IN"; TSp; P "("] ++ sep_list num_toks ins ++ [P ")"])
      ++ (if is_nil nots then [] else [TSp; W "AND"; TSp; W "metric"; TSp; W "NOT"; TSp; W "IN"; TSp; P "("] ++ sep_list num_toks nots ++ [P ")"])
  end.

Definition where_toks (w : wherec) : list token :=
  [TSp; W "WHERE"; TSp; W "time"; P ">"; P "="] ++ num_toks (w_from w)
  ++ [TSp; W "AND"; TSp; W "time"; P "<"] ++ num_toks (w_to w)
  ++ [TSp; W "AND"; TSp; W "index_type"; P "="; W "0"; TSp; W "AND"; TSp; W "pre_tag"; P "="; W "0";
      TSp; W "AND"; TSp; W "pre_stag"; P "="; TS []]
  ++ metric_toks (w_metric w)
  ++ flat_map tagcond_toks (w_in w)
  ++ flat_map tagcond_toks (w_notin w).

(* the text writeWhere appends *)
Definition print_where (q : query) : str := render (where_toks (build_where q)).

(* ---------- rows and evaluation ---------- *)
(* a storage row: integer and string columns by name; the regex engine is an argument *)
Record row := { r_int : str -> Z; r_str : str -> str }.

Definition raw64_val (hi lo : Z) : Z := i64 (u32 hi * two32 + u32 lo).

Definition eval_iexpr (r : row) (e : iexpr) : Z :=
  match e with
  | IECol n => r_int r n
  | IERaw64 hi lo => raw64_val (r_int r hi) (r_int r lo)
  | IEAlias _ hi lo => raw64_val (r_int r hi) (r_int r lo)
  end.

Definition eval_atom (mt : str -> str -> bool) (r : row) (a : atom) : bool :=
  match a with
  | AConst b => b
  | AIntIn neg e vs => xorb neg (existsb (Z.eqb (eval_iexpr r e)) vs)
  | AStrIn neg col vs => xorb neg (existsb (str_eqb (r_str r col)) vs)
  | AMatch neg col re => xorb neg (mt (r_str r col) re)
  | AEmpty neg e col =>
      xorb neg ((eval_iexpr r e =? 0) && match col with Some c => is_nil (r_str r c) | None => true end)
  end.

Definition eval_tagcond mt (r : row) (t : tagcond) : bool :=
  if tc_or t then existsb (eval_atom mt r) (tc_atoms t) else forallb (eval_atom mt r) (tc_atoms t).

Definition eval_metric (r : row) (m : metriccond) : bool :=
  let v := r_int r (txt "metric") in
  match m with
  | MEq id => v =? id
  | MIn ins nots => (is_nil ins || existsb (Z.eqb v) ins) && (is_nil nots || negb (existsb (Z.eqb v) nots))
  end.

Definition eval_where mt (r : row) (w : wherec) : bool :=
  (w_from w <=? r_int r (txt "time")) && (r_int r (txt "time") <? w_to w)
  && (r_int r (txt "index_type") =? 0) && (r_int r (txt "pre_tag") =? 0) && is_nil (r_str r (txt "pre_stag"))
  && eval_metric r (w_metric w)
  && forallb (eval_tagcond mt r) (w_in w)
  && forallb (eval_tagcond mt r) (w_notin w).

(* ---------- specification of "matching the requested filter" ---------- *)
(* does the row's value of the tag (integer iv, string sv) equal the requested value v?
   use_str = the tag has string values and they are compared literally *)
Definition val_matches (raw use_str : bool) (iv : Z) (sv : str) (v : tagval) : bool :=
  if tv_empty v then (iv =? 0) && (raw || is_nil sv)
  else (tv_is_mapped v && (iv =? tv_mapped v)) || (use_str && tv_has_value v && str_eqb sv (tv_value v)).

(* a non-empty regular expression supersedes the literal comparison of string values *)
Definition filter_matches mt (raw : bool) (iv : Z) (sv : str) (f : tagfilter) : bool :=
  let has_re := negb raw && negb (is_nil (tf_re2 f)) in
  existsb (val_matches raw (negb raw && is_nil (tf_re2 f)) iv sv) (tf_values f)
  || (has_re && mt sv (tf_re2 f)).

(* the reading one would write down first: every string value is compared literally *)
Definition filter_matches_naive mt (raw : bool) (iv : Z) (sv : str) (f : tagfilter) : bool :=
  existsb (val_matches raw (negb raw) iv sv) (tf_values f)
  || (negb raw && negb (is_nil (tf_re2 f)) && mt sv (tf_re2 f)).

Definition tag_iv (c : cfg) (r : row) (x : Z) : Z := eval_iexpr r (where_int_expr c x).
Definition tag_sv (r : row) (x : Z) : str := r_str r (col_str x).

Definition row_selected mt (q : query) (r : row) : bool :=
  (q_from q <=? r_int r (txt "time")) && (r_int r (txt "time") <? q_to q)
  && (r_int r (txt "index_type") =? 0) && (r_int r (txt "pre_tag") =? 0) && is_nil (r_str r (txt "pre_stag"))
  && eval_metric r (build_metric (q_metric_id q) (q_min q) (q_mnot q))
  && forallb (fun xf => tf_empty (snd xf)
                        || filter_matches mt (is_raw (q_cfg q) (fst xf)) (tag_iv (q_cfg q) r (fst xf)) (tag_sv r (fst xf)) (snd xf)) (q_in q)
  && forallb (fun xf => tf_empty (snd xf)
                        || negb (filter_matches mt (is_raw (q_cfg q) (fst xf)) (tag_iv (q_cfg q) r (fst xf)) (tag_sv r (fst xf)) (snd xf))) (q_notin q).

(* ---------- structure: the token list with every literal's content erased ---------- *)
Definition erase_tok (t : token) : token := match t with TS _ => TS [] | _ => t end.
Definition skeleton (ts : list token) : list token := List.map erase_tok ts.
Definition literals (ts : list token) : list str :=
  flat_map (fun t => match t with TS s => [s] | _ => [] end) ts.

(* the user-supplied strings of a query, in the order the builder visits them *)
Definition tag_strings (c : cfg) (x : Z) (f : tagfilter) : list str :=
  if is_raw c x then []
  else if negb (is_nil (tf_re2 f)) then [tf_re2 f]
  else List.map tv_value (filter tv_has_value (filter (fun v => negb (tv_empty v)) (tf_values f))).

(* the same query with every user string replaced by a harmless one of the same emptiness *)
Definition blank (s : str) : str := if is_nil s then [] else [120].
Definition blank_val (v : tagval) : tagval :=
  {| tv_has_value := tv_has_value v; tv_is_mapped := tv_is_mapped v; tv_value := blank (tv_value v); tv_mapped := tv_mapped v |}.
Definition blank_filter (f : tagfilter) : tagfilter :=
  {| tf_values := List.map blank_val (tf_values f); tf_re2 := blank (tf_re2 f) |}.
Definition blank_filters (fs : list (Z * tagfilter)) : list (Z * tagfilter) :=
  List.map (fun xf => (fst xf, blank_filter (snd xf))) fs.
Definition blank_query (q : query) : query :=
  {| q_cfg := q_cfg q; q_from := q_from q; q_to := q_to q; q_metric_id := q_metric_id q;
     q_min := q_min q; q_mnot := q_mnot q;
     q_in := blank_filters (q_in q); q_notin := blank_filters (q_notin q) |}.
