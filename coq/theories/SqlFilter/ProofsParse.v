(* C26 proofs, part 4: the token list of a condition parses back to exactly that condition. *)
From Coq Require Import ZArith List Bool Lia Decimal DecimalZ DecimalPos String.
From SH Require Import Common.Wrap SqlFilter.Model SqlFilter.ProofsLex SqlFilter.Parser.
Import ListNotations.
Open Scope Z_scope.

Lemma strip_app : forall a b, strip (a ++ b) = strip a ++ strip b.
Proof. intros. unfold strip. apply filter_app. Qed.

Lemma tok_eqb_refl : forall t, tok_eqb t t = true.
Proof. destruct t; simpl; auto using str_eqb_refl, Z.eqb_refl. Qed.

Lemma expect_app : forall pre r, expect pre (pre ++ r) = Some r.
Proof. induction pre; simpl; intros; [reflexivity|]. rewrite tok_eqb_refl. apply IHpre. Qed.

(* ---------- numbers ---------- *)
Lemma uint_digits_rt : forall u, uint_of_digits (uint_digits u) = Some u.
Proof. induction u; simpl; try rewrite IHu; reflexivity. Qed.

Lemma head_digit : forall u, u <> Nil ->
  match uint_digits u with c :: _ => (48 <=? c) && (c <=? 57) = true | [] => False end.
Proof. destruct u; simpl; try reflexivity. congruence. Qed.

Lemma word_num_uint : forall u, u <> Nil -> word_num (uint_digits u) = Some (Z.of_uint u).
Proof.
  intros u H. unfold word_num. pose proof (head_digit u H) as HD.
  destruct (uint_digits u) eqn:E; [contradiction|]. rewrite HD. rewrite <- E, uint_digits_rt. reflexivity.
Qed.

Lemma word_num_dec : forall z, word_num (dec z) = Some (Z.abs z).
Proof.
  intros z. unfold dec. destruct z as [|p|p].
  - reflexivity.
  - change (Z.to_int (Z.pos p)) with (Pos (Pos.to_uint p)). cbv iota.
    rewrite word_num_uint by apply Unsigned.to_uint_nonnil.
    pose proof (DecimalZ.of_to (Z.pos p)) as H. simpl in H. simpl. rewrite H. reflexivity.
  - change (Z.to_int (Z.neg p)) with (Neg (Pos.to_uint p)). cbv iota.
    rewrite word_num_uint by apply Unsigned.to_uint_nonnil.
    pose proof (DecimalZ.of_to (Z.pos p)) as H. simpl in H. simpl. rewrite H. reflexivity.
Qed.

Lemma strip_num : forall z, strip (num_toks z) = num_toks z.
Proof. intros. unfold num_toks. destruct (z <? 0); reflexivity. Qed.

Lemma p_num_rt : forall z rest, p_num (num_toks z ++ rest) = Some (z, rest).
Proof.
  intros. unfold num_toks. destruct (z <? 0) eqn:E; cbn [List.app p_num].
  - change (45 =? 45) with true. cbv iota. rewrite word_num_dec.
    apply Z.ltb_lt in E. rewrite Z.abs_neq by lia. rewrite Z.opp_involutive. reflexivity.
  - rewrite word_num_dec. apply Z.ltb_ge in E. rewrite Z.abs_eq by lia. reflexivity.
Qed.

Lemma p_nums_step : forall z c r,
  p_nums (num_toks z ++ TP c :: r)
  = if c =? 44 then cons_fst z (p_nums r) else if c =? 41 then Some ([z], r) else None.
Proof.
  intros. unfold num_toks. destruct (z <? 0) eqn:E; cbn [List.app p_nums].
  - change (45 =? 45) with true. cbv iota. rewrite word_num_dec.
    apply Z.ltb_lt in E. rewrite Z.abs_neq by lia. rewrite Z.opp_involutive. reflexivity.
  - rewrite word_num_dec. apply Z.ltb_ge in E. rewrite Z.abs_eq by lia. reflexivity.
Qed.

Lemma p_nums_rt : forall l rest, l <> [] ->
  p_nums (sep_list num_toks l ++ TP 41 :: rest) = Some (l, rest).
Proof.
  induction l as [|a l IH]; intros rest H; [congruence|].
  destruct l as [|b l].
  - cbn [sep_list]. rewrite p_nums_step. reflexivity.
  - change (sep_list num_toks (a :: b :: l)) with (num_toks a ++ TP 44 :: sep_list num_toks (b :: l)).
    rewrite <- app_assoc. rewrite <- app_comm_cons. rewrite p_nums_step. change (44 =? 44) with true. cbv iota.
    rewrite IH by congruence. reflexivity.
Qed.

Lemma p_strs_rt : forall l rest, l <> [] ->
  p_strs (sep_list (fun s : str => [TS s]) l ++ TP 41 :: rest) = Some (l, rest).
Proof.
  induction l as [|a l IH]; intros rest H; [congruence|].
  destruct l as [|b l].
  - reflexivity.
  - change (sep_list (fun s : str => [TS s]) (a :: b :: l))
      with ([TS a] ++ TP 44 :: sep_list (fun s : str => [TS s]) (b :: l)).
    rewrite <- app_assoc. cbn [List.app p_strs]. change (44 =? 44) with true. cbv iota.
    rewrite IH by congruence. reflexivity.
Qed.

Lemma strip_nums : forall l, strip (sep_list num_toks l) = sep_list num_toks l.
Proof.
  induction l as [|a l IH]; [reflexivity|]. destruct l as [|b l]; [apply strip_num|].
  change (sep_list num_toks (a :: b :: l)) with (num_toks a ++ TP 44 :: sep_list num_toks (b :: l)).
  rewrite strip_app, strip_num. f_equal. change (strip (TP 44 :: ?x)) with (TP 44 :: strip x).
  cbn [strip filter is_sp negb]. f_equal. exact IH.
Qed.

Lemma strip_strs : forall l, strip (sep_list (fun s : str => [TS s]) l) = sep_list (fun s : str => [TS s]) l.
Proof.
  induction l as [|a l IH]; [reflexivity|]. destruct l as [|b l]; [reflexivity|].
  change (sep_list (fun s : str => [TS s]) (a :: b :: l))
    with (TS a :: TP 44 :: sep_list (fun s : str => [TS s]) (b :: l)).
  cbn [strip filter is_sp negb]. f_equal. f_equal. exact IH.
Qed.

(* ---------- canonical conditions (what the builder produces, after alias erasure) ---------- *)
(* an identifier that cannot be confused with 0 / NOT / match / bitOr *)
Definition ident (w : str) : bool :=
  match w with
  | c :: _ => negb ((c =? 48) || (c =? 78) || (c =? 109) || (c =? 98))
  | [] => false
  end.

Definition iexpr_canon (e : iexpr) : bool :=
  match e with IECol n => ident n | IERaw64 _ _ => true | IEAlias _ _ _ => false end.
Definition atom_canon (a : atom) : bool :=
  match a with
  | AConst _ => true
  | AIntIn _ e vs => iexpr_canon e && negb (is_nil vs)
  | AStrIn _ c vs => ident c && negb (is_nil vs)
  | AMatch _ _ _ => true
  | AEmpty _ e _ => iexpr_canon e
  end.
Definition tc_canon (t : tagcond) : bool :=
  forallb atom_canon (tc_atoms t)
  && match tc_atoms t with
     | [] => false
     | [a] => Bool.eqb (tc_or t) (negb (atom_neg a))
     | _ => true
     end.
Definition metric_canon (m : metriccond) : bool :=
  match m with MEq _ => true | MIn ins nots => negb (is_nil ins && is_nil nots) end.
Definition wcanon (w : wherec) : bool :=
  metric_canon (w_metric w)
  && forallb tc_canon (w_in w) && forallb tc_or (w_in w)
  && forallb tc_canon (w_notin w) && forallb (fun t => negb (tc_or t)) (w_notin w).

Lemma ident_neq : forall w, ident w = true ->
  str_eqb w (txt "0") = false /\ str_eqb w (txt "NOT") = false
  /\ str_eqb w (txt "match") = false /\ str_eqb w (txt "bitOr") = false.
Proof.
  intros w H. destruct w as [|c w]; [discriminate|]. simpl in H.
  apply negb_true_iff in H. repeat (apply orb_false_iff in H; destruct H as [H ?]).
  repeat split; cbn; rewrite ?H, ?H0, ?H1, ?H2; reflexivity.
Qed.

Lemma strip_iexpr : forall e, strip (iexpr_toks e) = iexpr_toks e.
Proof. destruct e; reflexivity. Qed.

Lemma p_iexpr_rt : forall e rest, iexpr_canon e = true ->
  p_iexpr (iexpr_toks e ++ rest) = Some (e, rest).
Proof.
  destruct e; cbn [iexpr_canon]; intros rest H; [| |discriminate].
  - destruct (ident_neq _ H) as [_ [_ [_ H4]]]. cbn [iexpr_toks List.app p_iexpr]. rewrite H4. reflexivity.
  - cbn [iexpr_toks List.app p_iexpr].
    change (str_eqb (txt "bitOr") (txt "bitOr")) with true. cbv iota.
    cbn [expect tok_eqb P W hd]. 
    repeat (match goal with |- context [str_eqb (txt ?a) (txt ?a)] => change (str_eqb (txt a) (txt a)) with true end).
    reflexivity.
Qed.

(* ---------- atoms ---------- *)
Definition in_op_ns (neg : bool) : list token := if neg then [W "NOT"; W "IN"] else [W "IN"].
Definition not_ns (neg : bool) : list token := if neg then [W "NOT"] else [].
Definition colpart (col : option str) : list token :=
  match col with Some c => [W "AND"; TW c; P "="; TS []] | None => [] end.

(* the tokens of an atom without the spaces *)
Definition atom_ntoks (a : atom) : list token :=
  match a with
  | AConst true => [W "0"; P "="; W "0"]
  | AConst false => [W "0"; P "!"; P "="; W "0"]
  | AIntIn neg e vs => iexpr_toks e ++ in_op_ns neg ++ P "(" :: sep_list num_toks vs ++ [P ")"]
  | AStrIn neg col vs => TW col :: in_op_ns neg ++ P "(" :: sep_list (fun s : str => [TS s]) vs ++ [P ")"]
  | AMatch neg col re => not_ns neg ++ [W "match"; P "("; TW col; P ","; TS re; P ")"]
  | AEmpty neg e col => not_ns neg ++ P "(" :: iexpr_toks e ++ [P "="; W "0"] ++ colpart col ++ [P ")"]
  end.

Lemma strip_atom : forall a, strip (atom_toks a) = atom_ntoks a.
Proof.
  destruct a as [b|neg e vs|neg col vs|neg col re|neg e col].
  - destruct b; reflexivity.
  - cbn [atom_toks atom_ntoks]. rewrite !strip_app, strip_iexpr, strip_nums. destruct neg; reflexivity.
  - cbn [atom_toks atom_ntoks]. rewrite !strip_app, strip_strs. destruct neg; reflexivity.
  - destruct neg; reflexivity.
  - cbn [atom_toks atom_ntoks]. rewrite !strip_app, strip_iexpr. destruct neg; destruct col; reflexivity.
Qed.

Lemma p_inop_rt : forall neg r, p_inop (in_op_ns neg ++ P "(" :: r) = Some (neg, r).
Proof. destruct neg; reflexivity. Qed.

Lemma p_atom_else : forall w r,
  str_eqb w (txt "0") = false -> str_eqb w (txt "NOT") = false -> str_eqb w (txt "match") = false ->
  p_atom (TW w :: r) =
    match p_iexpr (TW w :: r) with
    | Some (e, r1) =>
        match p_inop r1 with
        | Some (neg, r2) =>
            match r2 with
            | TS _ :: _ =>
                match e with
                | IECol col => match p_strs r2 with Some (l, r3) => Some (AStrIn neg col l, r3) | None => None end
                | _ => None
                end
            | _ => match p_nums r2 with Some (l, r3) => Some (AIntIn neg e l, r3) | None => None end
            end
        | None => None
        end
    | None => None
    end.
Proof. intros w r H1 H2 H3. cbn [p_atom]. rewrite H1, H2, H3. reflexivity. Qed.

Lemma iexpr_head : forall e, iexpr_canon e = true -> exists w r0,
  iexpr_toks e = TW w :: r0 /\ str_eqb w (txt "0") = false /\ str_eqb w (txt "NOT") = false /\ str_eqb w (txt "match") = false.
Proof.
  destruct e; cbn [iexpr_canon]; intros H; [| |discriminate].
  - destruct (ident_neq _ H) as [H1 [H2 [H3 _]]]. exists name, []. auto.
  - eexists _, _. split; [reflexivity|]. repeat split; reflexivity.
Qed.

Lemma nums_head : forall l r, l <> [] -> exists t r', sep_list num_toks l ++ r = t :: r' /\ (forall s, t <> TS s).
Proof.
  intros l r H. destruct l as [|a l]; [congruence|].
  assert (Hn : exists t r0, num_toks a = t :: r0 /\ forall s, t <> TS s).
  { unfold num_toks. destruct (a <? 0); eexists _, _; split; try reflexivity; intros; discriminate. }
  destruct Hn as [t [r0 [E N]]].
  destruct l as [|b l].
  - cbn [sep_list]. rewrite E. eexists _, _. split; [reflexivity | exact N].
  - change (sep_list num_toks (a :: b :: l)) with (num_toks a ++ TP 44 :: sep_list num_toks (b :: l)).
    rewrite E. eexists _, _. split; [reflexivity | exact N].
Qed.

Lemma strs_head : forall s l r, exists r', sep_list (fun s : str => [TS s]) (s :: l) ++ r = TS s :: r'.
Proof. intros. destruct l; eexists; reflexivity. Qed.

Lemma p_empty_body_rt : forall neg e col rest, iexpr_canon e = true ->
  p_empty_body neg (iexpr_toks e ++ [P "="; W "0"] ++ colpart col ++ P ")" :: rest) = Some (AEmpty neg e col, rest).
Proof.
  intros. unfold p_empty_body. rewrite p_iexpr_rt by assumption.
  destruct col; reflexivity.
Qed.

Lemma p_atom_paren : forall r, p_atom (P "(" :: r) = p_empty_body false r.
Proof. reflexivity. Qed.
Lemma p_atom_not_paren : forall r, p_atom (W "NOT" :: P "(" :: r) = p_empty_body true r.
Proof. reflexivity. Qed.

Lemma p_atom_rt : forall a rest, atom_canon a = true -> p_atom (atom_ntoks a ++ rest) = Some (a, rest).
Proof.
  destruct a as [b|neg e vs|neg col vs|neg col re|neg e col]; cbn [atom_canon]; intros rest H.
  - destruct b; reflexivity.
  - apply andb_true_iff in H. destruct H as [He Hv].
    assert (Hvs : vs <> []) by (destruct vs; [discriminate | congruence]).
    cbn [atom_ntoks]. rewrite <- !app_assoc. rewrite <- app_comm_cons, <- app_assoc.
    destruct (iexpr_head e He) as [w [r0 [E [H1 [H2 H3]]]]].
    rewrite E at 1. rewrite <- app_comm_cons. rewrite p_atom_else by assumption.
    rewrite app_comm_cons, <- E. rewrite p_iexpr_rt by assumption. rewrite p_inop_rt.
    destruct (nums_head vs ([P ")"] ++ rest) Hvs) as [t [r' [Eh Nt]]].
    rewrite Eh. destruct t as [?|?|s|]; try (rewrite <- Eh; change ([P ")"] ++ rest) with (TP 41 :: rest);
      rewrite p_nums_rt by assumption; reflexivity).
    exfalso. eapply Nt. reflexivity.
  - apply andb_true_iff in H. destruct H as [Hc Hv].
    destruct vs as [|s vs]; [discriminate|].
    destruct (ident_neq _ Hc) as [H1 [H2 [H3 H4]]].
    cbn [atom_ntoks]. rewrite <- app_comm_cons. rewrite p_atom_else by assumption.
    change (TW col :: ?x) with (iexpr_toks (IECol col) ++ x).
    rewrite <- !app_assoc. rewrite <- app_comm_cons, <- app_assoc.
    rewrite p_iexpr_rt by exact Hc. rewrite p_inop_rt.
    destruct (strs_head s vs ([P ")"] ++ rest)) as [r' Eh]. rewrite Eh. cbv iota. rewrite <- Eh.
    change ([P ")"] ++ rest) with (TP 41 :: rest). rewrite p_strs_rt by congruence. reflexivity.
  - destruct neg; reflexivity.
  - cbn [atom_ntoks].
    destruct neg; cbn [not_ns List.app]; [rewrite p_atom_not_paren | rewrite p_atom_paren];
      rewrite <- !app_assoc;
      (destruct col as [c|]; [apply (p_empty_body_rt _ e (Some c) rest H) | apply (p_empty_body_rt _ e None rest H)]).
Qed.

(* ---------- groups ---------- *)
Definition sepw (o : bool) : token := if o then W "OR" else W "AND".
Definition rest_ntoks (o : bool) (l : list atom) : list token := flat_map (fun a => sepw o :: atom_ntoks a) l.
Definition atoms_ntoks (o : bool) (l : list atom) : list token :=
  match l with [] => [] | a :: r => atom_ntoks a ++ rest_ntoks o r end.
Definition tc_ntoks (t : tagcond) : list token :=
  W "AND" :: P "(" :: atoms_ntoks (tc_or t) (tc_atoms t) ++ [P ")"].

Lemma strip_sep : forall o, strip (sep_toks o) = [sepw o].
Proof. destruct o; reflexivity. Qed.

Lemma strip_atoms : forall o l, strip (atoms_toks o l) = atoms_ntoks o l.
Proof.
  induction l as [|a l IH]; [reflexivity|].
  destruct l as [|b l].
  - cbn [atoms_toks atoms_ntoks rest_ntoks flat_map]. rewrite app_nil_r. apply strip_atom.
  - change (atoms_toks o (a :: b :: l)) with (atom_toks a ++ sep_toks o ++ atoms_toks o (b :: l)).
    rewrite !strip_app, strip_atom, strip_sep, IH. reflexivity.
Qed.

Lemma strip_tagcond : forall t, strip (tagcond_toks t) = tc_ntoks t.
Proof.
  intros. unfold tagcond_toks, tc_ntoks. rewrite !strip_app, strip_atoms. reflexivity.
Qed.

Lemma strip_tagconds : forall l, strip (flat_map tagcond_toks l) = flat_map tc_ntoks l.
Proof.
  induction l as [|t l IH]; [reflexivity|].
  change (flat_map tagcond_toks (t :: l)) with (tagcond_toks t ++ flat_map tagcond_toks l).
  rewrite strip_app, strip_tagcond, IH. reflexivity.
Qed.

Lemma p_rest_rt : forall o l n rest, forallb atom_canon l = true ->
  (List.length (rest_ntoks o l ++ P ")" :: rest) <= n)%nat ->
  p_rest n o (rest_ntoks o l ++ P ")" :: rest) = Some (l, rest).
Proof.
  induction l as [|a l IH]; intros n rest Hc Hn.
  - destruct n; [simpl in Hn; lia|]. reflexivity.
  - cbn [forallb] in Hc. apply andb_true_iff in Hc. destruct Hc as [Ha Hl].
    assert (E : rest_ntoks o (a :: l) ++ P ")" :: rest
                = sepw o :: atom_ntoks a ++ (rest_ntoks o l ++ P ")" :: rest)).
    { unfold rest_ntoks. cbn [flat_map]. rewrite <- !app_comm_cons, <- app_assoc. reflexivity. }
    rewrite E in *. clear E.
    destruct n as [|n]; [simpl in Hn; lia|].
    assert (Hs : forall r, p_rest (S n) o (sepw o :: r) =
                  match p_atom r with Some (a0, r1) => cons_fst a0 (p_rest n o r1) | None => None end)
      by (intros; destruct o; reflexivity).
    rewrite Hs. rewrite p_atom_rt by assumption.
    rewrite IH; [reflexivity | assumption |].
    simpl in Hn. rewrite app_length in Hn. lia.
Qed.

Lemma p_tagcond_rt : forall t n rest, tc_canon t = true ->
  (List.length (atoms_ntoks (tc_or t) (tc_atoms t) ++ P ")" :: rest) <= n)%nat ->
  p_tagcond n (atoms_ntoks (tc_or t) (tc_atoms t) ++ P ")" :: rest) = Some (t, rest).
Proof.
  intros [o l] n rest Hc Hn. unfold tc_canon in Hc. cbn [tc_or tc_atoms] in *.
  apply andb_true_iff in Hc. destruct Hc as [Hall Hshape].
  destruct l as [|a l]; [discriminate|].
  cbn [forallb] in Hall. apply andb_true_iff in Hall. destruct Hall as [Ha Hl].
  cbn [atoms_ntoks] in *. rewrite <- app_assoc in *.
  unfold p_tagcond. rewrite p_atom_rt by assumption.
  destruct l as [|b l].
  - cbn [rest_ntoks flat_map List.app]. change (P ")") with (TP 41). change (41 =? 41) with true. cbv iota.
    apply eqb_prop in Hshape. rewrite <- Hshape. reflexivity.
  - assert (Ho : forall ts r, ts = sepw o :: r ->
               match ts with
               | TP c :: r1 => if c =? 41 then Some ({| tc_or := negb (atom_neg a); tc_atoms := [a] |}, r1) else None
               | TW s :: _ =>
                   match p_rest n (str_eqb s (txt "OR")) ts with
                   | Some (l0, r2) => Some ({| tc_or := str_eqb s (txt "OR"); tc_atoms := a :: l0 |}, r2)
                   | None => None
                   end
               | _ => None
               end =
               match p_rest n o ts with
               | Some (l0, r2) => Some ({| tc_or := o; tc_atoms := a :: l0 |}, r2)
               | None => None
               end) by (intros ts r ->; destruct o; reflexivity).
    rewrite (Ho _ ((atom_ntoks b ++ rest_ntoks o l) ++ P ")" :: rest)) by reflexivity.
    rewrite p_rest_rt; [reflexivity | assumption |].
    rewrite app_length in Hn. lia.
Qed.

Lemma p_tcs_rt : forall l n, forallb tc_canon l = true ->
  (List.length (flat_map tc_ntoks l) <= n)%nat ->
  p_tcs n (flat_map tc_ntoks l) = Some l.
Proof.
  induction l as [|t l IH]; intros n Hc Hn; [destruct n; reflexivity|].
  cbn [forallb] in Hc. apply andb_true_iff in Hc. destruct Hc as [Ht Hl].
  change (flat_map tc_ntoks (t :: l))
    with ([W "AND"; P "("] ++ (atoms_ntoks (tc_or t) (tc_atoms t) ++ [P ")"]) ++ flat_map tc_ntoks l) in *.
  destruct n as [|n]; [simpl in Hn; lia|].
  assert (Hu : forall r, p_tcs (S n) ([W "AND"; P "("] ++ r) =
             match p_tagcond (S n) r with
             | Some (t0, r1) => match p_tcs n r1 with Some l0 => Some (t0 :: l0) | None => None end
             | None => None end) by reflexivity.
  rewrite Hu. rewrite <- app_assoc. change ([P ")"] ++ flat_map tc_ntoks l) with (P ")" :: flat_map tc_ntoks l).
  rewrite !app_length in Hn. simpl in Hn.
  rewrite p_tagcond_rt; [| assumption | rewrite app_length; simpl; lia].
  rewrite IH; [reflexivity | assumption | lia].
Qed.

Lemma span_or_app : forall a b, forallb tc_or a = true -> forallb (fun t => negb (tc_or t)) b = true ->
  span_or (a ++ b) = (a, b).
Proof.
  induction a as [|t a IH]; intros b Ha Hb.
  - destruct b as [|t b]; [reflexivity|]. cbn in Hb. apply andb_true_iff in Hb. destruct Hb as [Ht _].
    cbn. apply negb_true_iff in Ht. rewrite Ht. reflexivity.
  - cbn in Ha. apply andb_true_iff in Ha. destruct Ha as [Ht Ha].
    cbn [List.app span_or]. rewrite Ht, IH by assumption. reflexivity.
Qed.

(* ---------- metric part ---------- *)
Definition metric_ntoks (m : metriccond) : list token :=
  match m with
  | MEq id => [W "AND"; W "metric"; P "="] ++ num_toks id
  | MIn ins nots =>
      (if is_nil ins then [] else [W "AND"; W "metric"; W "IN"; P "("] ++ sep_list num_toks ins ++ [P ")"])
      ++ (if is_nil nots then [] else [W "AND"; W "metric"; W "NOT"; W "IN"; P "("] ++ sep_list num_toks nots ++ [P ")"])
  end.

Lemma strip_metric : forall m, strip (metric_toks m) = metric_ntoks m.
Proof.
  destruct m as [id|ins nots]; cbn [metric_toks metric_ntoks].
  - rewrite strip_app, strip_num. reflexivity.
  - rewrite strip_app. destruct (is_nil ins); destruct (is_nil nots);
      rewrite ?strip_app, ?strip_nums; reflexivity.
Qed.

Definition tc_start (rest : list token) : Prop := rest = [] \/ exists r, rest = W "AND" :: P "(" :: r.

Lemma tc_start_flat : forall l r, tc_start r -> tc_start (flat_map tc_ntoks l ++ r).
Proof. intros. destruct l; [exact H|]. right. eexists. reflexivity. Qed.

Lemma expect_notin_none : forall rest, tc_start rest ->
  expect [W "AND"; W "metric"; W "NOT"; W "IN"; P "("] rest = None.
Proof. intros rest [->|[r ->]]; reflexivity. Qed.

Lemma p_metric_rt : forall m rest, metric_canon m = true -> tc_start rest ->
  p_metric (metric_ntoks m ++ rest) = Some (m, rest).
Proof.
  destruct m as [id|ins nots]; cbn [metric_canon metric_ntoks]; intros rest Hc Hs.
  - rewrite <- app_assoc.
    assert (Hu : forall r, p_metric ([W "AND"; W "metric"; P "="] ++ r)
                 = match p_num r with Some (z, r1) => Some (MEq z, r1) | None => None end) by reflexivity.
    rewrite Hu, p_num_rt. reflexivity.
  - assert (Hin : forall r, p_metric ([W "AND"; W "metric"; W "IN"; P "("] ++ r)
                 = match p_nums r with
                   | Some (i, r1) =>
                       match expect [W "AND"; W "metric"; W "NOT"; W "IN"; P "("] r1 with
                       | Some r2 => match p_nums r2 with Some (nots, r3) => Some (MIn i nots, r3) | None => None end
                       | None => Some (MIn i [], r1)
                       end
                   | None => None end) by reflexivity.
    assert (Hnot : forall r, p_metric ([W "AND"; W "metric"; W "NOT"; W "IN"; P "("] ++ r)
                 = match p_nums r with Some (n, r2) => Some (MIn [] n, r2) | None => None end) by reflexivity.
    destruct ins as [|i ins]; destruct nots as [|k nots]; cbn [is_nil] in *; try discriminate.
    + rewrite app_nil_l, <- !app_assoc. rewrite Hnot.
      change ([P ")"] ++ rest) with (TP 41 :: rest). rewrite p_nums_rt by congruence. reflexivity.
    + rewrite app_nil_r, <- !app_assoc. rewrite Hin.
      change ([P ")"] ++ rest) with (TP 41 :: rest). rewrite p_nums_rt by congruence.
      rewrite expect_notin_none by assumption. reflexivity.
    + rewrite <- !app_assoc. rewrite Hin.
      change ([P ")"] ++ ?x) with (TP 41 :: x). rewrite p_nums_rt by congruence.
      rewrite expect_app. change ([P ")"] ++ rest) with (TP 41 :: rest).
      rewrite p_nums_rt by congruence. reflexivity.
Qed.

(* ---------- the whole clause ---------- *)
Lemma strip_where : forall w,
  strip (where_toks w) =
    [W "WHERE"; W "time"; P ">"; P "="] ++ num_toks (w_from w)
    ++ [W "AND"; W "time"; P "<"] ++ num_toks (w_to w)
    ++ [W "AND"; W "index_type"; P "="; W "0"; W "AND"; W "pre_tag"; P "="; W "0"; W "AND"; W "pre_stag"; P "="; TS []]
    ++ metric_ntoks (w_metric w) ++ flat_map tc_ntoks (w_in w ++ w_notin w).
Proof.
  intros. unfold where_toks. rewrite !strip_app, !strip_num, strip_metric, !strip_tagconds, flat_map_app. reflexivity.
Qed.

Theorem p_where_rt : forall w, wcanon w = true -> p_where (strip (where_toks w)) = Some w.
Proof.
  intros w H. unfold wcanon in H.
  repeat (apply andb_true_iff in H; destruct H as [H ?]).
  rewrite strip_where. unfold p_where.
  rewrite expect_app, p_num_rt, expect_app, p_num_rt, expect_app.
  rewrite p_metric_rt; [| assumption | rewrite <- (app_nil_r (flat_map _ _)); apply tc_start_flat; left; reflexivity].
  rewrite p_tcs_rt; [| rewrite forallb_app; apply andb_true_iff; split; assumption | lia].
  rewrite span_or_app by assumption. rewrite H0. destruct w; reflexivity.
Qed.

(* ---------- what the builder produces is canonical; aliases print as columns ---------- *)
Lemma syn_iexpr_toks : forall e, iexpr_toks (syn_iexpr e) = iexpr_toks e.
Proof. destruct e; reflexivity. Qed.
Lemma syn_atom_toks : forall a, atom_toks (syn_atom a) = atom_toks a.
Proof. destruct a; cbn [syn_atom atom_toks]; rewrite ?syn_iexpr_toks; reflexivity. Qed.
Lemma syn_atoms_toks : forall o l, atoms_toks o (map syn_atom l) = atoms_toks o l.
Proof.
  induction l as [|a l IH]; [reflexivity|]. destruct l as [|b l]; [apply syn_atom_toks|].
  change (map syn_atom (a :: b :: l)) with (syn_atom a :: syn_atom b :: map syn_atom l).
  change (atoms_toks o (syn_atom a :: syn_atom b :: map syn_atom l))
    with (atom_toks (syn_atom a) ++ sep_toks o ++ atoms_toks o (map syn_atom (b :: l))).
  rewrite syn_atom_toks, IH. reflexivity.
Qed.
Lemma syn_tagconds_toks : forall l, flat_map tagcond_toks (map syn_tagcond l) = flat_map tagcond_toks l.
Proof.
  induction l as [|t l IH]; [reflexivity|]. cbn [map flat_map]. rewrite IH. f_equal.
  unfold tagcond_toks, syn_tagcond. cbn [tc_or tc_atoms]. rewrite syn_atoms_toks. reflexivity.
Qed.
Lemma syn_where_toks : forall w, where_toks (syn_where w) = where_toks w.
Proof. intros. unfold where_toks, syn_where. cbn [w_from w_to w_metric w_in w_notin]. rewrite !syn_tagconds_toks. reflexivity. Qed.

Lemma ident_col_int : forall c x, ident (col_int c x) = true.
Proof. intros. unfold col_int. destruct (c_has_prekey c && (x =? c_prekey c)); reflexivity. Qed.
Lemma ident_col_str : forall x, ident (col_str x) = true.
Proof. reflexivity. Qed.

Lemma where_int_expr_canon : forall c x, iexpr_canon (syn_iexpr (where_int_expr c x)) = true.
Proof.
  intros. unfold where_int_expr.
  destruct ((c_mode c =? 0) && c_has_prekey c && (x =? c_prekey c)); [reflexivity|].
  destruct (is_raw64 c x); [destruct (grouped_by c x); reflexivity|].
  cbn [syn_iexpr iexpr_canon]. apply ident_col_int.
Qed.

Lemma build_tag_canon : forall c pos x f, tc_canon (syn_tagcond (build_tag c pos x f)) = true.
Proof.
  intros. unfold tc_canon, syn_tagcond, build_tag. cbn [tc_or tc_atoms].
  pose proof (where_int_expr_canon c x) as He.
  set (e := where_int_expr c x) in *.
  set (mapped := map tv_mapped _). set (strs := map tv_value _).
  destruct (is_nil mapped) eqn:M; destruct (is_raw c x);
    destruct (negb (is_nil (tf_re2 f))); destruct (negb (is_nil strs)) eqn:S;
    destruct (existsb tv_empty (tf_values f));
    cbn [List.app map syn_atom forallb atom_canon andb atom_neg]; rewrite ?He, ?M, ?S; cbn [negb andb];
    try reflexivity; destruct pos; reflexivity.
Qed.

Lemma build_tags_canon : forall c pos fs,
  forallb tc_canon (map syn_tagcond (build_tags c pos fs)) = true
  /\ forallb (fun t => Bool.eqb (tc_or t) pos) (map syn_tagcond (build_tags c pos fs)) = true.
Proof.
  intros. unfold build_tags. induction (filter _ fs) as [|xf l [IH1 IH2]]; [split; reflexivity|].
  cbn [map forallb]. rewrite build_tag_canon, IH1, IH2. split; [reflexivity|].
  change (tc_or (syn_tagcond (build_tag c pos (fst xf) (snd xf)))) with pos. rewrite eqb_reflx. reflexivity.
Qed.

Lemma build_metric_canon : forall id ins nots, metric_canon (build_metric id ins nots) = true.
Proof.
  intros. unfold build_metric.
  destruct (negb (id =? 0)); cbn [orb]; [reflexivity|].
  destruct (is_nil ins && is_nil nots) eqn:E; cbn [metric_canon]; [reflexivity | rewrite E; reflexivity].
Qed.

Lemma forallb_ext_l : forall A (f g : A -> bool) l, (forall a, f a = g a) -> forallb f l = forallb g l.
Proof. induction l; simpl; intros; [reflexivity|]. rewrite H, IHl by assumption. reflexivity. Qed.

Lemma build_where_canon : forall q, wcanon (syn_where (build_where q)) = true.
Proof.
  intros. unfold wcanon, syn_where, build_where. cbn [w_metric w_in w_notin].
  rewrite build_metric_canon.
  destruct (build_tags_canon (q_cfg q) true (q_in q)) as [A1 A2].
  destruct (build_tags_canon (q_cfg q) false (q_notin q)) as [B1 B2].
  assert (C1 : forallb tc_or (map syn_tagcond (build_tags (q_cfg q) true (q_in q))) = true)
    by (rewrite (forallb_ext_l _ tc_or (fun t => Bool.eqb (tc_or t) true)); [exact A2|]; intros t; destruct (tc_or t); reflexivity).
  assert (C2 : forallb (fun t => negb (tc_or t)) (map syn_tagcond (build_tags (q_cfg q) false (q_notin q))) = true)
    by (rewrite (forallb_ext_l _ (fun t => negb (tc_or t)) (fun t => Bool.eqb (tc_or t) false)); [exact B2|]; intros t; destruct (tc_or t); reflexivity).
  rewrite A1, B1, C1, C2. reflexivity.
Qed.

(* the token list of every where-clause parses back to the condition it was printed from *)
Theorem parse_tokens_roundtrip : forall q,
  p_where (strip (where_toks (build_where q))) = Some (syn_where (build_where q)).
Proof.
  intros. rewrite <- syn_where_toks. apply p_where_rt. apply build_where_canon.
Qed.
