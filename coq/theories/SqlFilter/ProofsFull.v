(* C26 proofs, part 5: text -> tokens -> condition round trip, and the where-clause inside a complete query. *)
From Coq Require Import ZArith List Bool Lia.
From SH Require Import Common.Wrap SqlFilter.Model SqlFilter.ProofsLex SqlFilter.ProofsStruct SqlFilter.Parser SqlFilter.ProofsParse.
Import ListNotations.
Open Scope Z_scope.

(* the text written for any query parses (lexer, then parser) to the condition it was built from *)
Theorem parse_where_roundtrip : forall q,
  parse_where (print_where q) = Some (syn_where (build_where q)).
Proof.
  intros. unfold parse_where. rewrite where_lexes_to_own_tokens. apply parse_tokens_roundtrip.
Qed.

(* hence two queries print the same text only if they build the same condition *)
Corollary print_where_injective : forall q1 q2,
  print_where q1 = print_where q2 -> syn_where (build_where q1) = syn_where (build_where q2).
Proof.
  intros q1 q2 H. pose proof (parse_where_roundtrip q1) as H1. rewrite H, parse_where_roundtrip in H1.
  congruence.
Qed.

Lemma chk_where_any : forall w p, wherec_wf w = true -> exists q, chk p (where_toks w) = Some q.
Proof.
  intros w p H. destruct (chk_where w H) as [q Hq].
  assert (E : exists r, where_toks w = TSp :: r) by (eexists; reflexivity).
  destruct E as [r E]. rewrite E in *. rewrite chk_any_glue by reflexivity. eauto.
Qed.

(* the clause inside a complete query: whatever well-formed token lists surround it (SELECT … FROM t before,
   GROUP BY / HAVING / ORDER BY / LIMIT / SETTINGS after), the whole text lexes to the concatenation, so the
   literals of the query are those of the surroundings plus those of the clause *)
Theorem full_query_lexes : forall pre suf q q1 q2,
  chk true pre = Some q1 -> chk false suf = Some q2 ->
  lex (render (pre ++ where_toks (build_where q) ++ suf)) = Some (pre ++ where_toks (build_where q) ++ suf)
  /\ literals (pre ++ where_toks (build_where q) ++ suf)
     = literals pre ++ literals (where_toks (build_where q)) ++ literals suf.
Proof.
  intros pre suf q q1 q2 Hp Hs. split.
  - destruct (chk_where_any (build_where q) q1 (build_where_wf q)) as [q3 H3].
    assert (Hs' : exists q4, chk q3 suf = Some q4).
    { destruct q3; [|eauto]. destruct suf as [|t r]; [simpl; eauto|].
      simpl in Hs. simpl. destruct (tok_ok t && glue t) eqn:E; [|discriminate].
      apply andb_true_iff in E. destruct E as [E1 E2]. rewrite E1. simpl. eauto. }
    destruct Hs' as [q4 H4].
    eapply lex_render. rewrite chk_app, Hp, chk_app, H3. exact H4.
  - unfold literals. rewrite !flat_map_app. reflexivity.
Qed.
