(* C26 — a parser for the condition grammar that writeWhere emits, over the token type of Model.v.
   Whitespace tokens are dropped first (strip), so the parser is insensitive to spacing.
     where   ::= WHERE time >= num AND time < num AND index_type = 0 AND pre_tag = 0 AND pre_stag = ''
                 metric tagcond*
     metric  ::= AND metric = num
               | AND metric IN ( nums ) [ AND metric NOT IN ( nums ) ]
               | AND metric NOT IN ( nums )
     tagcond ::= AND ( atom ( OR atom )* )  |  AND ( atom ( AND atom )* )
     atom    ::= 0 = 0 | 0 != 0
               | iexpr [NOT] IN ( nums )  |  ident [NOT] IN ( strs )
               | [NOT] match ( ident , literal )
               | [NOT] ( iexpr = 0 [ AND ident = '' ] )
     iexpr   ::= ident | bitOr(bitShiftLeft(toInt64(toUInt32(ident)),32),toUInt32(ident))
     nums    ::= num ( , num )*      num ::= [-] digits      strs ::= literal ( , literal )*
   Executable definitions only. *)
From Coq Require Import ZArith List Bool String Ascii Decimal DecimalZ.
From SH Require Import Common.Wrap SqlFilter.Model.
Import ListNotations.
Open Scope Z_scope.

Definition is_sp (t : token) : bool := match t with TSp => true | _ => false end.
Definition strip (ts : list token) : list token := filter (fun t => negb (is_sp t)) ts.

Definition tok_eqb (a b : token) : bool :=
  match a, b with
  | TW u, TW v => str_eqb u v
  | TP c, TP d => c =? d
  | TS u, TS v => str_eqb u v
  | TSp, TSp => true
  | _, _ => false
  end.

(* remove the given prefix *)
Fixpoint expect (pre ts : list token) : option (list token) :=
  match pre with
  | [] => Some ts
  | p :: pre' => match ts with
                 | t :: r => if tok_eqb p t then expect pre' r else None
                 | [] => None
                 end
  end.

(* ---------- numbers ---------- *)
Fixpoint uint_of_digits (s : str) : option uint :=
  match s with
  | [] => Some Nil
  | c :: r =>
    match uint_of_digits r with
    | None => None
    | Some u =>
      if c =? 48 then Some (D0 u) else if c =? 49 then Some (D1 u) else if c =? 50 then Some (D2 u)
      else if c =? 51 then Some (D3 u) else if c =? 52 then Some (D4 u) else if c =? 53 then Some (D5 u)
      else if c =? 54 then Some (D6 u) else if c =? 55 then Some (D7 u) else if c =? 56 then Some (D8 u)
      else if c =? 57 then Some (D9 u) else None
    end
  end.

Definition word_num (w : str) : option Z :=
  match w with
  | c :: _ => if (48 <=? c) && (c <=? 57)
              then match uint_of_digits w with Some u => Some (Z.of_uint u) | None => None end
              else None
  | [] => None
  end.

Definition p_num (ts : list token) : option (Z * list token) :=
  match ts with
  | TW d :: r => match word_num d with Some z => Some (z, r) | None => None end
  | TP c :: TW d :: r =>
      if c =? 45 then match word_num d with Some z => Some (- z, r) | None => None end else None
  | _ => None
  end.

Definition cons_fst {A B} (a : A) (r : option (list A * B)) : option (list A * B) :=
  match r with Some (l, b) => Some (a :: l, b) | None => None end.

(* num ( , num )* )   — consumes the closing parenthesis *)
Fixpoint p_nums (ts : list token) : option (list Z * list token) :=
  match ts with
  | TW d :: TP c :: r =>
      match word_num d with
      | Some z => if c =? 44 then cons_fst z (p_nums r) else if c =? 41 then Some ([z], r) else None
      | None => None
      end
  | TP m :: TW d :: TP c :: r =>
      if m =? 45 then
        match word_num d with
        | Some z => if c =? 44 then cons_fst (- z) (p_nums r) else if c =? 41 then Some ([- z], r) else None
        | None => None
        end
      else None
  | _ => None
  end.

(* literal ( , literal )* ) *)
Fixpoint p_strs (ts : list token) : option (list str * list token) :=
  match ts with
  | TS s :: TP c :: r =>
      if c =? 44 then cons_fst s (p_strs r) else if c =? 41 then Some ([s], r) else None
  | _ => None
  end.

(* ---------- integer expressions ---------- *)
Definition p_iexpr (ts : list token) : option (iexpr * list token) :=
  match ts with
  | TW w :: r =>
      if str_eqb w (txt "bitOr") then
        match expect [P "("; W "bitShiftLeft"; P "("; W "toInt64"; P "("; W "toUInt32"; P "("] r with
        | Some (TW hi :: r1) =>
            match expect [P ")"; P ")"; P ","; W "32"; P ")"; P ","; W "toUInt32"; P "("] r1 with
            | Some (TW lo :: r2) =>
                match expect [P ")"; P ")"] r2 with
                | Some r3 => Some (IERaw64 hi lo, r3)
                | None => None
                end
            | _ => None
            end
        | _ => None
        end
      else Some (IECol w, r)
  | _ => None
  end.

(* [NOT] IN ( *)
Definition p_inop (ts : list token) : option (bool * list token) :=
  match ts with
  | TW a :: r =>
      if str_eqb a (txt "IN") then
        match expect [P "("] r with Some r' => Some (false, r') | None => None end
      else if str_eqb a (txt "NOT") then
        match expect [W "IN"; P "("] r with Some r' => Some (true, r') | None => None end
      else None
  | _ => None
  end.

(* after "(" :  iexpr = 0 [ AND ident = '' ] ) *)
Definition p_empty_body (neg : bool) (ts : list token) : option (atom * list token) :=
  match p_iexpr ts with
  | Some (e, r) =>
      match expect [P "="; W "0"] r with
      | Some (TP c :: r1) => if c =? 41 then Some (AEmpty neg e None, r1) else None
      | Some (TW a :: TW col :: TP eq :: TS s :: TP c :: r1) =>
          if str_eqb a (txt "AND") && (eq =? 61) && is_nil s && (c =? 41)
          then Some (AEmpty neg e (Some col), r1) else None
      | _ => None
      end
  | None => None
  end.

(* after "match" :  ( ident , literal ) *)
Definition p_match (neg : bool) (ts : list token) : option (atom * list token) :=
  match ts with
  | TP o :: TW col :: TP cm :: TS re :: TP c :: r =>
      if (o =? 40) && (cm =? 44) && (c =? 41) then Some (AMatch neg col re, r) else None
  | _ => None
  end.

Definition p_atom (ts : list token) : option (atom * list token) :=
  match ts with
  | TP c :: r => if c =? 40 then p_empty_body false r else None
  | TW w :: r =>
      if str_eqb w (txt "0") then
        match expect [P "="; W "0"] r with
        | Some r1 => Some (AConst true, r1)
        | None => match expect [P "!"; P "="; W "0"] r with
                  | Some r1 => Some (AConst false, r1)
                  | None => None
                  end
        end
      else if str_eqb w (txt "NOT") then
        match r with
        | TW m :: r1 => if str_eqb m (txt "match") then p_match true r1 else None
        | TP c :: r1 => if c =? 40 then p_empty_body true r1 else None
        | _ => None
        end
      else if str_eqb w (txt "match") then p_match false r
      else
        match p_iexpr ts with
        | Some (e, r1) =>
            match p_inop r1 with
            | Some (neg, r2) =>
                match r2 with
                | TS _ :: _ =>
                    match e with
                    | IECol col => match p_strs r2 with Some (l, r3) => Some (AStrIn neg col l, r3) | None => None end
                    | _ => None
                    end
                | _ => match p_nums r2 with Some (l, r3) => Some (AIntIn neg e l, r3) | None => None end
                end
            | None => None
            end
        | None => None
        end
  | _ => None
  end.

(* ---------- groups ---------- *)
Definition atom_neg (a : atom) : bool :=
  match a with
  | AConst b => b
  | AIntIn n _ _ | AStrIn n _ _ | AMatch n _ _ | AEmpty n _ _ => n
  end.

(* ( sep atom )* )   with the separator fixed by the first one seen; fuel >= number of tokens left *)
Fixpoint p_rest (n : nat) (o : bool) (ts : list token) : option (list atom * list token) :=
  match n with
  | O => None
  | S n' =>
    match ts with
    | TP c :: r => if c =? 41 then Some ([], r) else None
    | TW s :: r =>
        if str_eqb s (if o then txt "OR" else txt "AND") then
          match p_atom r with
          | Some (a, r1) => cons_fst a (p_rest n' o r1)
          | None => None
          end
        else None
    | _ => None
    end
  end.

(* after "AND (" . A group of one atom has no separator: it is an inclusion group (OR) iff its atom is not
   negated — the builder negates every atom of an exclusion group. *)
Definition p_tagcond (n : nat) (ts : list token) : option (tagcond * list token) :=
  match p_atom ts with
  | Some (a, r) =>
      match r with
      | TP c :: r1 => if c =? 41 then Some ({| tc_or := negb (atom_neg a); tc_atoms := [a] |}, r1) else None
      | TW s :: _ =>
          let o := str_eqb s (txt "OR") in
          match p_rest n o r with
          | Some (l, r2) => Some ({| tc_or := o; tc_atoms := a :: l |}, r2)
          | None => None
          end
      | _ => None
      end
  | None => None
  end.

Fixpoint p_tcs (n : nat) (ts : list token) : option (list tagcond) :=
  match ts with
  | [] => Some []
  | _ =>
    match n with
    | O => None
    | S n' =>
      match expect [W "AND"; P "("] ts with
      | Some r =>
          match p_tagcond n r with
          | Some (t, r1) => match p_tcs n' r1 with Some l => Some (t :: l) | None => None end
          | None => None
          end
      | None => None
      end
    end
  end.

Definition p_metric (ts : list token) : option (metriccond * list token) :=
  match expect [W "AND"; W "metric"] ts with
  | Some (TP c :: r) =>
      if c =? 61 then match p_num r with Some (z, r1) => Some (MEq z, r1) | None => None end else None
  | Some (TW w :: r) =>
      if str_eqb w (txt "IN") then
        match expect [P "("] r with
        | Some r0 =>
            match p_nums r0 with
            | Some (ins, r1) =>
                match expect [W "AND"; W "metric"; W "NOT"; W "IN"; P "("] r1 with
                | Some r2 => match p_nums r2 with Some (nots, r3) => Some (MIn ins nots, r3) | None => None end
                | None => Some (MIn ins [], r1)
                end
            | None => None
            end
        | None => None
        end
      else if str_eqb w (txt "NOT") then
        match expect [W "IN"; P "("] r with
        | Some r1 => match p_nums r1 with Some (nots, r2) => Some (MIn [] nots, r2) | None => None end
        | None => None
        end
      else None
  | _ => None
  end.

Fixpoint span_or (l : list tagcond) : list tagcond * list tagcond :=
  match l with
  | t :: r => if tc_or t then let (a, b) := span_or r in (t :: a, b) else ([], l)
  | [] => ([], [])
  end.

Definition p_where (ts : list token) : option wherec :=
  match expect [W "WHERE"; W "time"; P ">"; P "="] ts with
  | Some r0 =>
    match p_num r0 with
    | Some (from, r1) =>
      match expect [W "AND"; W "time"; P "<"] r1 with
      | Some r2 =>
        match p_num r2 with
        | Some (to, r3) =>
          match expect [W "AND"; W "index_type"; P "="; W "0"; W "AND"; W "pre_tag"; P "="; W "0";
                        W "AND"; W "pre_stag"; P "="; TS []] r3 with
          | Some r4 =>
            match p_metric r4 with
            | Some (m, r5) =>
              match p_tcs (List.length r5) r5 with
              | Some tcs =>
                  let (ins, nots) := span_or tcs in
                  if forallb (fun t => negb (tc_or t)) nots
                  then Some {| w_from := from; w_to := to; w_metric := m; w_in := ins; w_notin := nots |}
                  else None
              | None => None
              end
            | None => None
            end
          | None => None
          end
        | None => None
        end
      | None => None
      end
    | None => None
    end
  | None => None
  end.

(* text -> condition *)
Definition parse_where (s : str) : option wherec :=
  match lex s with Some ts => p_where (strip ts) | None => None end.

(* SELECT aliases print as their name: the parser sees a column *)
Definition syn_iexpr (e : iexpr) : iexpr := match e with IEAlias n _ _ => IECol n | _ => e end.
Definition syn_atom (a : atom) : atom :=
  match a with
  | AIntIn n e vs => AIntIn n (syn_iexpr e) vs
  | AEmpty n e c => AEmpty n (syn_iexpr e) c
  | _ => a
  end.
Definition syn_tagcond (t : tagcond) : tagcond := {| tc_or := tc_or t; tc_atoms := List.map syn_atom (tc_atoms t) |}.
Definition syn_where (w : wherec) : wherec :=
  {| w_from := w_from w; w_to := w_to w; w_metric := w_metric w;
     w_in := List.map syn_tagcond (w_in w); w_notin := List.map syn_tagcond (w_notin w) |}.
