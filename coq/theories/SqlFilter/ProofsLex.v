(* C26 proofs, part 1: escaping, the literal lexer, and lexing of rendered token lists. *)
From Coq Require Import ZArith List Bool Lia Decimal DecimalZ.
From SH Require Import Common.Wrap SqlFilter.Model.
Import ListNotations.
Open Scope Z_scope.

Definition not_quote_head (rest : str) : Prop :=
  match rest with c :: _ => c <> 39 | [] => True end.

(* escape then quote: the literal lexer returns exactly the original bytes and stops at the closing quote *)
Lemma lex_body_escape : forall s rest, not_quote_head rest ->
  lex_body (escape s ++ 39 :: rest) = Some (s, rest).
Proof.
  induction s as [|a s IH]; intros rest Hr.
  - simpl. destruct rest as [|c r]; [reflexivity|].
    simpl in Hr. apply Z.eqb_neq in Hr. rewrite Hr. reflexivity.
  - unfold escape in *. simpl flat_map. unfold esc1 at 1.
    destruct (a =? 39) eqn:E1.
    + apply Z.eqb_eq in E1; subst a. simpl. rewrite IH by assumption. reflexivity.
    + destruct (a =? 92) eqn:E2.
      * apply Z.eqb_eq in E2; subst a. simpl. rewrite IH by assumption. reflexivity.
      * simpl. rewrite E1, E2. rewrite IH by assumption. reflexivity.
Qed.

Theorem literal_roundtrip : forall s rest, not_quote_head rest ->
  lex_string ((39 :: escape s) ++ 39 :: rest) = Some (s, rest).
Proof. intros. simpl. apply lex_body_escape; assumption. Qed.

(* the escaped text never ends the literal early: every prefix of it is inside the literal *)
Lemma str_eqb_refl : forall a, str_eqb a a = true.
Proof. induction a; simpl; [reflexivity|]. rewrite Z.eqb_refl. assumption. Qed.
Lemma str_eqb_eq : forall a b, str_eqb a b = true -> a = b.
Proof.
  induction a; destruct b; simpl; intros; try discriminate; [reflexivity|].
  apply andb_true_iff in H. destruct H as [H1 H2]. apply Z.eqb_eq in H1. f_equal; auto.
Qed.

(* ---------- well-formed token lists ---------- *)
Definition glue (t : token) : bool := match t with TP _ | TSp => true | _ => false end.

Definition tok_ok (t : token) : bool :=
  match t with
  | TW w => negb (is_nil w) && forallb wordchar w
  | TP c => punct c
  | _ => true
  end.

(* state machine: [p] = the previous token was glue (or there is none).  Between any two tokens at
   least one is punctuation or a space. Returns the final state. *)
Fixpoint chk (p : bool) (ts : list token) : option bool :=
  match ts with
  | [] => Some p
  | t :: r => if tok_ok t && (p || glue t) then chk (glue t) r else None
  end.

Lemma chk_app : forall a b p, chk p (a ++ b) = match chk p a with Some q => chk q b | None => None end.
Proof.
  induction a; intros; simpl; [reflexivity|].
  destruct (tok_ok a && (p || glue a)); [apply IHa | reflexivity].
Qed.

Lemma punct_facts : forall c, punct c = true -> c <> 32 /\ c <> 39 /\ wordchar c = false.
Proof.
  intros c H. unfold punct in H. simpl in H.
  repeat (apply orb_true_iff in H; destruct H as [H|H]; [apply Z.eqb_eq in H; subst; repeat split; try lia; reflexivity|]).
  discriminate.
Qed.

Lemma wordchar_facts : forall c, wordchar c = true -> c <> 32 /\ c <> 39.
Proof.
  intros c H. split; intro; subst; discriminate.
Qed.

Lemma span_word_app : forall w rest, forallb wordchar w = true ->
  match rest with c :: _ => wordchar c = false | [] => True end ->
  span_word (w ++ rest) = (w, rest).
Proof.
  induction w; intros rest Hw Hr; simpl.
  - destruct rest; [reflexivity|]. simpl. rewrite Hr. reflexivity.
  - simpl in Hw. apply andb_true_iff in Hw. destruct Hw as [Ha Hw]. rewrite Ha.
    rewrite IHw by assumption. reflexivity.
Qed.

Lemma render_app : forall a b, render (a ++ b) = render a ++ render b.
Proof. intros. unfold render. apply flat_map_app. Qed.

(* head of the text of a token list that starts with glue, or after glue *)
Lemma head_after : forall t r p, chk p (t :: r) <> None -> p = false ->
  match render (t :: r) with c :: _ => wordchar c = false /\ c <> 39 | [] => True end.
Proof.
  intros t r p H Hp. simpl in H. subst p. simpl in H.
  destruct (tok_ok t && glue t) eqn:E; [|congruence].
  apply andb_true_iff in E. destruct E as [Ok G].
  destruct t; simpl in G; try discriminate; simpl.
  - simpl in Ok. apply punct_facts in Ok. tauto.
  - split; [reflexivity | lia].
Qed.

Lemma lex_fuel_render : forall ts n p q, chk p ts = Some q -> (List.length (render ts) <= n)%nat ->
  lex_fuel n (render ts) = Some ts.
Proof.
  induction ts as [|t r IH]; intros n p q H Hn.
  - destruct n; reflexivity.
  - simpl in H. destruct (tok_ok t && (p || glue t)) eqn:E; [|discriminate].
    apply andb_true_iff in E. destruct E as [Ok G].
    change (render (t :: r)) with (render_tok t ++ render r) in *.
    rewrite app_length in Hn.
    destruct t as [w|c|s|]; simpl render_tok in *.
    + (* word *)
      simpl in Ok. apply andb_true_iff in Ok. destruct Ok as [Hne Hw].
      destruct w as [|c w]; [discriminate|]. simpl in Hw. apply andb_true_iff in Hw. destruct Hw as [Hc Hw].
      simpl in Hn. destruct n as [|n]; [lia|].
      rewrite <- ?app_comm_cons; rewrite ?app_nil_l; cbn [lex_fuel].
      destruct (wordchar_facts c Hc) as [N1 N2].
      apply Z.eqb_neq in N1. apply Z.eqb_neq in N2. rewrite N1, N2, Hc.
      assert (Hrest : match render r with c0 :: _ => wordchar c0 = false | [] => True end).
      { destruct r as [|t2 r2]; [exact I|].
        pose proof (head_after t2 r2 false) as HA. simpl glue in H.
        assert (chk false (t2 :: r2) <> None) by congruence.
        specialize (HA H0 eq_refl). destruct (render (t2 :: r2)); [exact I | tauto]. }
      rewrite span_word_app by assumption.
      rewrite (IH n _ _ H) by lia. reflexivity.
    + (* punctuation *)
      simpl in Ok. destruct (punct_facts c Ok) as [N1 [N2 N3]].
      simpl in Hn. destruct n as [|n]; [lia|].
      rewrite <- ?app_comm_cons; rewrite ?app_nil_l; cbn [lex_fuel].
      apply Z.eqb_neq in N1. apply Z.eqb_neq in N2. rewrite N1, N2, N3, Ok.
      rewrite (IH n _ _ H) by lia. reflexivity.
    + (* literal *)
      simpl in Hn. destruct n as [|n]; [lia|].
      change ((39 :: escape s ++ [39]) ++ render r) with (39 :: (escape s ++ [39]) ++ render r).
      rewrite <- app_assoc. rewrite <- ?app_comm_cons; rewrite ?app_nil_l; cbn [lex_fuel]. simpl (39 =? 32). simpl (39 =? 39).
      assert (Hrest : not_quote_head (render r)).
      { destruct r as [|t2 r2]; [exact I|].
        pose proof (head_after t2 r2 false) as HA. simpl glue in H.
        assert (chk false (t2 :: r2) <> None) by congruence.
        specialize (HA H0 eq_refl). unfold not_quote_head. destruct (render (t2 :: r2)); [exact I | tauto]. }
      rewrite lex_body_escape by assumption.
      rewrite app_length in Hn. simpl in Hn.
      rewrite (IH n _ _ H) by lia. reflexivity.
    + (* space *)
      simpl in Hn. destruct n as [|n]; [lia|].
      rewrite <- ?app_comm_cons; rewrite ?app_nil_l; cbn [lex_fuel]. simpl (32 =? 32).
      rewrite (IH n _ _ H) by lia. reflexivity.
Qed.

Theorem lex_render : forall ts q, chk true ts = Some q -> lex (render ts) = Some ts.
Proof. intros. unfold lex. eapply lex_fuel_render; eauto. Qed.
