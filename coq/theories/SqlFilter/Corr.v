(* Correspondence cases for C26: inputs given to the Go query builder with the text it wrote. *)
From Coq Require Import ZArith List Bool.
From SH Require Import Common.Wrap Common.Corr SqlFilter.Model SqlFilter.ProofsLex SqlFilter.Parser.
Import ListNotations.
Open Scope Z_scope.

(* short constructors used by the harness *)
Definition V (hv im : bool) (s : str) (m : Z) : tagval :=
  {| tv_has_value := hv; tv_is_mapped := im; tv_value := s; tv_mapped := m |}.
Definition F (vs : list tagval) (re : str) : tagfilter := {| tf_values := vs; tf_re2 := re |}.
Definition Q (tags : option (list (bool * bool))) (hp : bool) (pk : Z) (by_ : list Z) (mode : Z)
           (from to mid : Z) (mins mnots : list Z) (fin fnot : list (Z * tagfilter)) : query :=
  {| q_cfg := {| c_tags := tags; c_has_prekey := hp; c_prekey := pk; c_by := by_; c_mode := mode |};
     q_from := from; q_to := to; q_metric_id := mid; q_min := mins; q_mnot := mnots;
     q_in := fin; q_notin := fnot |}.

(* stand-in for the regular-expression engine, the same on both sides of the comparison: "re is a prefix of sv" *)
Fixpoint prefix_match (sv re : str) : bool :=
  match re, sv with
  | [], _ => true
  | c :: re', d :: sv' => (c =? d) && prefix_match sv' re'
  | _, [] => false
  end.

Fixpoint lookup {A} (d : A) (k : str) (l : list (str * A)) : A :=
  match l with
  | [] => d
  | (k', v) :: r => if str_eqb k k' then v else lookup d k r
  end.
Definition mk_row (ints : list (str * Z)) (strs : list (str * str)) : row :=
  {| r_int := fun k => lookup 0 k ints; r_str := fun k => lookup [] k strs |}.

Definition opt_toks_eqb (a : option (list token)) (b : list token) : bool :=
  match a with
  | Some ts =>
      (fix go (x y : list token) : bool :=
         match x, y with
         | [], [] => true
         | TW u :: x', TW v :: y' => str_eqb u v && go x' y'
         | TP c :: x', TP d :: y' => (c =? d) && go x' y'
         | TS u :: x', TS v :: y' => str_eqb u v && go x' y'
         | TSp :: x', TSp :: y' => go x' y'
         | _, _ => false
         end) ts b
  | None => false
  end.

Inductive case :=
(* writeWhere: the query description, the text written, and for some rows (integer columns, string columns)
   whether the Go-side evaluator of that text selected the row *)
| CWhere (q : query) (o : str) (rows : list (list (str * Z) * list (str * str) * bool))
(* escapeReplacer.Replace *)
| CEsc (s : str) (o : str)
(* a complete series / tag-values / tag-value-ids query: the text before and after the where-clause *)
| CFull (q : query) (pre suf : str).

Definition ok (c : case) : bool :=
  match c with
  | CWhere q o rows =>
      let w := build_where q in
      str_eqb (print_where q) o
      && opt_toks_eqb (lex o) (where_toks w)
      && opt_toks_eqb (option_map where_toks (parse_where o)) (where_toks w)
      && forallb (fun r => match r with (ints, strs, sel) =>
                   let rw := mk_row ints strs in
                   Bool.eqb (eval_where prefix_match rw w) sel && Bool.eqb (row_selected prefix_match q rw) sel end) rows
  | CEsc s o =>
      str_eqb (escape s) o
      && match lex_string (39 :: o ++ [39; 41]) with
         | Some (s', rest) => str_eqb s' s && str_eqb rest [41]
         | None => false
         end
  | CFull q pre suf =>
      match lex pre, lex suf with
      | Some tp, Some tsf =>
          match chk true tp, chk false tsf with Some _, Some _ => true | _, _ => false end
          && str_eqb (render tp) pre && str_eqb (render tsf) suf
          && is_nil (literals tp) && is_nil (literals tsf)
          && opt_toks_eqb (lex (pre ++ print_where q ++ suf)) (tp ++ where_toks (build_where q) ++ tsf)
      | _, _ => false
      end
  end.

Definition mism := mismatches ok.
