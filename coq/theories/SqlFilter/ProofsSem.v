(* C26 proofs, part 3: the condition AST selects exactly the rows the filters ask for. *)
From Coq Require Import ZArith List Bool Lia Btauto.
From SH Require Import Common.Wrap SqlFilter.Model SqlFilter.ProofsLex.
Import ListNotations.
Open Scope Z_scope.

Definition flip_atom (a : atom) : atom :=
  match a with
  | AConst b => AConst (negb b)
  | AIntIn n e vs => AIntIn (negb n) e vs
  | AStrIn n c vs => AStrIn (negb n) c vs
  | AMatch n c re => AMatch (negb n) c re
  | AEmpty n e c => AEmpty (negb n) e c
  end.

Lemma eval_flip : forall mt r a, eval_atom mt r (flip_atom a) = negb (eval_atom mt r a).
Proof.
  intros. destruct a; cbn [flip_atom eval_atom]; try reflexivity;
  match goal with |- xorb (negb ?n) ?b = _ => destruct n; destruct b; reflexivity end.
Qed.

Lemma forallb_flip : forall mt r l,
  forallb (eval_atom mt r) (map flip_atom l) = negb (existsb (eval_atom mt r) l).
Proof.
  induction l; simpl; [reflexivity|]. rewrite eval_flip, IHl, negb_orb. reflexivity.
Qed.

Lemma build_tag_flip : forall c x f,
  tc_atoms (build_tag c false x f) = map flip_atom (tc_atoms (build_tag c true x f)).
Proof.
  intros. unfold build_tag. cbn [tc_atoms]. rewrite !map_app. f_equal; [|f_equal].
  - match goal with |- context [if ?b then _ else _] => destruct b end; reflexivity.
  - destruct (is_raw c x); [reflexivity|].
    destruct (negb (is_nil (tf_re2 f))); [reflexivity|].
    match goal with |- context [if ?b then _ else _] => destruct b end; reflexivity.
  - match goal with |- context [if ?b then _ else _] => destruct b end; reflexivity.
Qed.

(* per-value reading of a value list = the three groups the builder forms *)
Lemma existsb_val_matches : forall raw us iv sv vals,
  existsb (val_matches raw us iv sv) vals =
    existsb (Z.eqb iv) (map tv_mapped (filter tv_is_mapped (filter (fun v => negb (tv_empty v)) vals)))
    || (us && existsb (str_eqb sv) (map tv_value (filter tv_has_value (filter (fun v => negb (tv_empty v)) vals))))
    || (existsb tv_empty vals && ((iv =? 0) && (raw || is_nil sv))).
Proof.
  induction vals as [|a l IH]; [simpl; destruct us; reflexivity|].
  cbn [existsb filter]. rewrite IH. unfold val_matches at 1.
  destruct (tv_empty a) eqn:E; cbn [negb].
  - generalize (existsb (Z.eqb iv) (map tv_mapped (filter tv_is_mapped (filter (fun v => negb (tv_empty v)) l)))).
    generalize (existsb (str_eqb sv) (map tv_value (filter tv_has_value (filter (fun v => negb (tv_empty v)) l)))).
    generalize (existsb tv_empty l). generalize ((iv =? 0) && (raw || is_nil sv)).
    intros. btauto.
  - cbn [filter]. destruct (tv_is_mapped a) eqn:M; destruct (tv_has_value a) eqn:V; cbn [filter map existsb andb orb];
    generalize (existsb (Z.eqb iv) (map tv_mapped (filter tv_is_mapped (filter (fun v => negb (tv_empty v)) l))));
    generalize (existsb (str_eqb sv) (map tv_value (filter tv_has_value (filter (fun v => negb (tv_empty v)) l))));
    generalize (existsb tv_empty l); generalize ((iv =? 0) && (raw || is_nil sv));
    generalize (iv =? tv_mapped a); generalize (str_eqb sv (tv_value a));
    intros; btauto.
Qed.

Lemma existsb_nil_guard : forall A (f : A -> bool) (l : list A) (k : bool),
  (if is_nil l then k else existsb f l) = (if is_nil l then k else existsb f l).
Proof. reflexivity. Qed.

(* inclusion: the OR-condition of a tag holds exactly on the rows matching the filter *)
Theorem eval_build_tag_in : forall mt c x f r,
  eval_tagcond mt r (build_tag c true x f)
  = filter_matches mt (is_raw c x) (tag_iv c r x) (tag_sv r x) f.
Proof.
  intros. unfold eval_tagcond, filter_matches, tag_iv, tag_sv. unfold build_tag. cbn [tc_or tc_atoms].
  rewrite existsb_val_matches. rewrite !existsb_app.
  set (e := where_int_expr c x). set (iv := eval_iexpr r e). set (sv := r_str r (col_str x)).
  set (live := filter (fun v => negb (tv_empty v)) (tf_values f)).
  set (mapped := map tv_mapped (filter tv_is_mapped live)).
  set (strs := map tv_value (filter tv_has_value live)).
  assert (HA : existsb (eval_atom mt r) [if is_nil mapped then AConst (negb true) else AIntIn (negb true) e mapped]
               = existsb (Z.eqb iv) mapped).
  { destruct mapped; [reflexivity|]. cbn [is_nil existsb eval_atom negb]. rewrite xorb_false_l, orb_false_r. reflexivity. }
  rewrite HA. clear HA.
  assert (HC : existsb (eval_atom mt r)
                 (if existsb tv_empty (tf_values f)
                  then [AEmpty (negb true) e (if is_raw c x then None else Some (col_str x))] else [])
               = existsb tv_empty (tf_values f) && ((iv =? 0) && (is_raw c x || is_nil sv))).
  { destruct (existsb tv_empty (tf_values f)); [|reflexivity]. cbn [existsb eval_atom negb andb]. rewrite xorb_false_l, orb_false_r.
    fold iv. destruct (is_raw c x); cbn [orb]; [|reflexivity]. reflexivity. }
  rewrite HC. clear HC.
  destruct (is_raw c x); cbn [negb andb orb existsb].
  - rewrite !orb_false_r. reflexivity.
  - destruct (is_nil (tf_re2 f)) eqn:R; cbn [negb andb orb].
    + assert (HB : existsb (eval_atom mt r) (if negb (is_nil strs) then [AStrIn false (col_str x) strs] else [])
                   = existsb (str_eqb sv) strs).
      { destruct strs; [reflexivity|]. cbn [is_nil negb existsb eval_atom]. rewrite xorb_false_l, orb_false_r. reflexivity. }
      rewrite HB. rewrite orb_false_r. rewrite orb_assoc. reflexivity.
    + cbn [existsb eval_atom]. rewrite xorb_false_l. fold sv. rewrite !orb_false_r.
      generalize (existsb (Z.eqb iv) mapped). generalize (mt sv (tf_re2 f)).
      generalize (existsb tv_empty (tf_values f) && ((iv =? 0) && is_nil sv)). intros; btauto.
Qed.

(* exclusion: the AND-condition holds exactly on the rows NOT matching the filter *)
Theorem eval_build_tag_notin : forall mt c x f r,
  eval_tagcond mt r (build_tag c false x f)
  = negb (filter_matches mt (is_raw c x) (tag_iv c r x) (tag_sv r x) f).
Proof.
  intros. rewrite <- eval_build_tag_in. unfold eval_tagcond.
  change (tc_or (build_tag c false x f)) with false. change (tc_or (build_tag c true x f)) with true.
  cbv iota. rewrite build_tag_flip. apply forallb_flip.
Qed.

Lemma forallb_build_tags : forall mt c r pos fs,
  forallb (eval_tagcond mt r) (build_tags c pos fs)
  = forallb (fun xf => tf_empty (snd xf) || eval_tagcond mt r (build_tag c pos (fst xf) (snd xf))) fs.
Proof.
  intros. unfold build_tags. induction fs as [|xf l IH]; [reflexivity|].
  cbn [filter forallb]. destruct (tf_empty (snd xf)); cbn [negb orb map forallb]; rewrite IH; reflexivity.
Qed.

Lemma forallb_ext' : forall A (f g : A -> bool) l, (forall a, f a = g a) -> forallb f l = forallb g l.
Proof. induction l; simpl; intros; [reflexivity|]. rewrite H, IHl by assumption. reflexivity. Qed.

(* the whole where-clause *)
Theorem where_selects_exactly : forall mt q r,
  eval_where mt r (build_where q) = row_selected mt q r.
Proof.
  intros. unfold eval_where, row_selected, build_where.
  cbn [w_from w_to w_metric w_in w_notin].
  rewrite !forallb_build_tags.
  f_equal; [f_equal|].
  - apply forallb_ext'. intros. rewrite eval_build_tag_in. reflexivity.
  - apply forallb_ext'. intros. rewrite eval_build_tag_notin. reflexivity.
Qed.

(* when every string value of a filter with a regular expression matches that expression (what the
   PromQL front end guarantees: it lists the known values that match), superseding is invisible *)
Theorem filter_matches_naive_eq : forall mt raw iv sv f,
  (forall v, In v (tf_values f) -> tv_has_value v = true -> mt (tv_value v) (tf_re2 f) = true) ->
  filter_matches mt raw iv sv f = filter_matches_naive mt raw iv sv f.
Proof.
  intros mt raw iv sv f H. unfold filter_matches, filter_matches_naive.
  destruct raw; cbn [negb andb]; [reflexivity|].
  destruct (is_nil (tf_re2 f)) eqn:R; cbn [negb andb]; [reflexivity|].
  destruct (mt sv (tf_re2 f)) eqn:M; [rewrite !orb_true_r; reflexivity|].
  rewrite !orb_false_r.
  induction (tf_values f) as [|a l IH]; [reflexivity|].
  cbn [existsb]. rewrite IH by (intros; apply H; [right|]; assumption). f_equal.
  unfold val_matches. destruct (tv_empty a); [reflexivity|]. cbn [andb].
  destruct (tv_has_value a) eqn:V; [|reflexivity].
  destruct (str_eqb sv (tv_value a)) eqn:S; [|reflexivity].
  apply str_eqb_eq in S. subst sv. rewrite (H a (or_introl eq_refl) V) in M. discriminate.
Qed.
