(* C26 proofs, part 2: the token list of every where-clause the builder can produce is well formed
   (so it lexes back to itself), and its structure does not depend on the user's strings. *)
From Coq Require Import ZArith List Bool Lia Decimal DecimalZ DecimalPos String.
From SH Require Import Common.Wrap SqlFilter.Model SqlFilter.ProofsLex.
Import ListNotations.
Open Scope Z_scope.

Definition word_ok (w : str) : bool := negb (is_nil w) && forallb wordchar w.

Lemma digits_word : forall u, forallb wordchar (uint_digits u) = true.
Proof. induction u; simpl; auto. Qed.

Lemma digits_nonnil : forall u, u <> Nil -> is_nil (uint_digits u) = false.
Proof. destruct u; simpl; congruence. Qed.

Lemma dec_word : forall z, word_ok (dec z) = true.
Proof.
  intros z. unfold word_ok, dec.
  destruct z; simpl; try reflexivity;
    rewrite digits_word, digits_nonnil; auto using Unsigned.to_uint_nonnil.
Qed.

Lemma word_ok_app : forall a b, word_ok a = true -> forallb wordchar b = true -> word_ok (a ++ b) = true.
Proof.
  unfold word_ok. intros a b Ha Hb. apply andb_true_iff in Ha. destruct Ha as [H1 H2].
  rewrite forallb_app, H2, Hb. destruct a; [discriminate | reflexivity].
Qed.

Lemma dec_chars : forall z, forallb wordchar (dec z) = true.
Proof. intros. pose proof (dec_word z) as H. unfold word_ok in H. apply andb_true_iff in H. tauto. Qed.

Lemma col_int_word : forall c x, word_ok (col_int c x) = true.
Proof.
  intros. unfold col_int. destruct (c_has_prekey c && (x =? c_prekey c)); [reflexivity|].
  apply word_ok_app; [reflexivity | apply dec_chars].
Qed.
Lemma col_str_word : forall x, word_ok (col_str x) = true.
Proof. intros. unfold col_str. apply word_ok_app; [reflexivity | apply dec_chars]. Qed.

(* ---------- well-formed ASTs ---------- *)
Definition iexpr_wf (e : iexpr) : bool :=
  match e with
  | IECol n => word_ok n
  | IERaw64 hi lo => word_ok hi && word_ok lo
  | IEAlias n hi lo => word_ok n
  end.
Definition atom_wf (a : atom) : bool :=
  match a with
  | AConst _ => true
  | AIntIn _ e _ => iexpr_wf e
  | AStrIn _ col _ => word_ok col
  | AMatch _ col _ => word_ok col
  | AEmpty _ e col => iexpr_wf e && match col with Some c => word_ok c | None => true end
  end.

Lemma where_int_expr_wf : forall c x, iexpr_wf (where_int_expr c x) = true.
Proof.
  intros. unfold where_int_expr.
  destruct ((c_mode c =? 0) && c_has_prekey c && (x =? c_prekey c)); [reflexivity|].
  destruct (is_raw64 c x); [destruct (grouped_by c x)|]; cbn [iexpr_wf].
  - apply word_ok_app; [reflexivity | apply dec_chars].
  - rewrite !col_int_word. reflexivity.
  - apply col_int_word.
Qed.

Lemma build_tag_wf : forall c pos x f, forallb atom_wf (tc_atoms (build_tag c pos x f)) = true.
Proof.
  intros. unfold build_tag. cbn [tc_atoms]. rewrite !forallb_app.
  pose proof (where_int_expr_wf c x) as He. pose proof (col_str_word x) as Hs.
  apply andb_true_iff; split; [|apply andb_true_iff; split].
  - match goal with |- context [if ?b then _ else _] => destruct b end; cbn [forallb atom_wf]; rewrite ?He; reflexivity.
  - destruct (is_raw c x); [reflexivity|].
    destruct (negb (is_nil (tf_re2 f))); [cbn [forallb atom_wf]; rewrite ?Hs; reflexivity|].
    match goal with |- context [if ?b then _ else _] => destruct b end; cbn [forallb atom_wf]; rewrite ?Hs; reflexivity.
  - match goal with |- context [if ?b then _ else _] => destruct b end; [|reflexivity].
    cbn [forallb atom_wf]. rewrite He. destruct (is_raw c x); rewrite ?Hs; reflexivity.
Qed.

(* ---------- chk of the segments ---------- *)
Lemma chk_word : forall w p, word_ok w = true -> chk true [TW w] = Some false /\ (p = true -> chk p [TW w] = Some false).
Proof. intros. unfold word_ok in H. simpl. rewrite H. split; [reflexivity | intros ->; reflexivity]. Qed.

Lemma chk_num : forall z, chk true (num_toks z) = Some false.
Proof.
  intros. unfold num_toks. pose proof (dec_word z) as H. unfold word_ok in H.
  destruct (z <? 0); simpl; rewrite H; reflexivity.
Qed.

Lemma chk_sep_list : forall A (f : A -> list token), (forall a, chk true (f a) = Some false) ->
  forall l, exists q, chk true (sep_list f l) = Some q.
Proof.
  intros A f Hf. induction l as [|a l IH]; [eexists; reflexivity|].
  destruct l as [|b l]; [simpl; eauto|].
  change (sep_list f (a :: b :: l)) with (f a ++ TP 44 :: sep_list f (b :: l)).
  rewrite chk_app, Hf. cbn [chk tok_ok glue]. simpl. exact IH.
Qed.

(* a segment that is fine after glue, followed by a closing parenthesis *)
Lemma chk_close : forall ts q, chk true ts = Some q -> chk true (ts ++ [P ")"]) = Some true.
Proof. intros. rewrite chk_app, H. destruct q; reflexivity. Qed.

Lemma chk_TW : forall w r, word_ok w = true -> chk true (TW w :: r) = chk false r.
Proof. intros. unfold word_ok in H. cbn [chk tok_ok glue]. rewrite H. reflexivity. Qed.

Lemma chk_iexpr : forall e, iexpr_wf e = true -> exists q, chk true (iexpr_toks e) = Some q.
Proof.
  destruct e; cbn [iexpr_wf]; intros H.
  - cbn [iexpr_toks]. rewrite chk_TW by assumption. eexists; reflexivity.
  - apply andb_true_iff in H. destruct H as [H1 H2].
    change (iexpr_toks (IERaw64 hi lo)) with
      ([W "bitOr"; P "("; W "bitShiftLeft"; P "("; W "toInt64"; P "("; W "toUInt32"; P "("] ++ TW hi ::
       [P ")"; P ")"; P ","; W "32"; P ")"; P ","; W "toUInt32"; P "("] ++ TW lo :: [P ")"; P ")"]).
    rewrite chk_app.
    match goal with |- context [chk true ?l] => change (chk true l) with (Some true) end.
    cbv iota. rewrite chk_TW by assumption. rewrite chk_app.
    match goal with |- context [chk false ?l] => change (chk false l) with (Some true) end.
    cbv iota. rewrite chk_TW by assumption. eexists; reflexivity.
  - cbn [iexpr_toks]. rewrite chk_TW by assumption. eexists; reflexivity.
Qed.

Lemma chk_any_glue : forall t r q, glue t = true -> chk q (t :: r) = chk true (t :: r).
Proof. intros. simpl. rewrite H. rewrite !orb_true_r. reflexivity. Qed.

Lemma chk_in_op : forall neg q, chk q (in_op neg) = Some true.
Proof. destruct neg, q; reflexivity. Qed.

Lemma chk_in_list : forall (pre : list token) neg (body : list token) q0,
  chk true pre = Some q0 -> (exists q, chk true body = Some q) ->
  chk true (pre ++ in_op neg ++ [P "("] ++ body ++ [P ")"]) = Some true.
Proof.
  intros pre neg body q0 Hp [q Hb].
  rewrite chk_app, Hp, chk_app, chk_in_op.
  change ([P "("] ++ body ++ [P ")"]) with (P "(" :: body ++ [P ")"]).
  cbn [chk]. change (tok_ok (P "(") && (true || glue (P "("))) with true. cbn iota.
  change (glue (P "(")) with true. eapply chk_close; eauto.
Qed.

Lemma chk_atom : forall a, atom_wf a = true -> exists q, chk true (atom_toks a) = Some q.
Proof.
  destruct a as [b|neg e vs|neg col vs|neg col re|neg e col]; simpl atom_wf; intros H.
  - destruct b; eexists; reflexivity.
  - destruct (chk_iexpr e H) as [q0 Hq]. eexists. unfold atom_toks.
    eapply chk_in_list; eauto. apply chk_sep_list. apply chk_num.
  - eexists. unfold atom_toks. eapply chk_in_list.
    + apply (proj1 (chk_word col true H)).
    + apply chk_sep_list. intros; reflexivity.
  - unfold atom_toks.
    assert (Hp : forall r, chk true (not_prefix neg ++ W "match" :: P "(" :: r) = chk true r)
      by (intros; destruct neg; reflexivity).
    change (not_prefix neg ++ [W "match"; P "("; TW col; P ","; TS re; P ")"])
      with (not_prefix neg ++ W "match" :: P "(" :: TW col :: [P ","; TS re; P ")"]).
    rewrite Hp, chk_TW by assumption. eexists; reflexivity.
  - apply andb_true_iff in H. destruct H as [He Hc].
    destruct (chk_iexpr e He) as [q0 Hq]. unfold atom_toks.
    assert (Hpre : chk true (not_prefix neg ++ [P "("]) = Some true) by (destruct neg; reflexivity).
    rewrite app_assoc, chk_app, Hpre, chk_app, Hq.
    assert (Hmid : forall r, chk q0 ([P "="; W "0"] ++ r) = chk false r) by (intros; destruct q0; reflexivity).
    rewrite Hmid.
    destruct col as [c|].
    + change (chk false ([TSp; W "AND"; TSp; TW c; P "="; TS []] ++ [P ")"]))
        with (chk true (TW c :: [P "="; TS []; P ")"])).
      rewrite chk_TW by assumption. eexists; reflexivity.
    + eexists; reflexivity.
Qed.

Lemma chk_sep_toks : forall o q, chk q (sep_toks o) = Some true.
Proof. destruct o, q; reflexivity. Qed.

Lemma chk_atoms : forall o l, forallb atom_wf l = true -> exists q, chk true (atoms_toks o l) = Some q.
Proof.
  induction l as [|a l IH]; intros H; [eexists; reflexivity|].
  simpl in H. apply andb_true_iff in H. destruct H as [Ha Hl].
  destruct (chk_atom a Ha) as [q Hq].
  destruct l as [|b l]; [simpl; eauto|].
  change (atoms_toks o (a :: b :: l)) with (atom_toks a ++ sep_toks o ++ atoms_toks o (b :: l)).
  rewrite chk_app, Hq, chk_app, chk_sep_toks. apply IH. exact Hl.
Qed.

Definition tagcond_wf (t : tagcond) : bool := forallb atom_wf (tc_atoms t).

Lemma chk_tagcond : forall t q, tagcond_wf t = true -> chk q (tagcond_toks t) = Some true.
Proof.
  intros t q H. unfold tagcond_toks.
  destruct (chk_atoms (tc_or t) (tc_atoms t) H) as [q1 Hq].
  assert (Hpre : chk q [TSp; W "AND"; TSp; P "("] = Some true) by (destruct q; reflexivity).
  rewrite chk_app, Hpre. eapply chk_close; eauto.
Qed.

Lemma chk_tagconds : forall l q, forallb tagcond_wf l = true -> exists q', chk q (flat_map tagcond_toks l) = Some q'.
Proof.
  induction l as [|t l IH]; intros q H; [simpl; eauto|].
  simpl in H. apply andb_true_iff in H. destruct H as [Ht Hl].
  change (flat_map tagcond_toks (t :: l)) with (tagcond_toks t ++ flat_map tagcond_toks l).
  rewrite chk_app, chk_tagcond by assumption. apply IH; assumption.
Qed.

Lemma chk_metric : forall m q, exists q', chk q (metric_toks m) = Some q'.
Proof.
  intros m q. destruct m as [id|ins nots]; unfold metric_toks.
  - assert (Hpre : chk q [TSp; W "AND"; TSp; W "metric"; P "="] = Some true) by (destruct q; reflexivity).
    rewrite chk_app, Hpre, chk_num. eauto.
  - assert (Hpart : forall (pre l : list Z) q (hd : list token), chk q hd = Some true ->
              chk q (hd ++ sep_list num_toks l ++ [P ")"]) = Some true).
    { intros _ l q0 hd Hh. rewrite chk_app, Hh.
      destruct (chk_sep_list _ num_toks chk_num l) as [q1 Hq1]. eapply chk_close; eauto. }
    destruct (is_nil ins); destruct (is_nil nots).
    + simpl. eauto.
    + rewrite app_nil_l. rewrite Hpart; [eauto | exact nots | destruct q; reflexivity].
    + rewrite app_nil_r. rewrite Hpart; [eauto | exact ins | destruct q; reflexivity].
    + rewrite chk_app. rewrite Hpart; [| exact ins | destruct q; reflexivity].
      rewrite Hpart; [eauto | exact nots | reflexivity].
Qed.

Definition wherec_wf (w : wherec) : bool := forallb tagcond_wf (w_in w) && forallb tagcond_wf (w_notin w).

Lemma chk_where : forall w, wherec_wf w = true -> exists q, chk true (where_toks w) = Some q.
Proof.
  intros w H. unfold wherec_wf in H. apply andb_true_iff in H. destruct H as [Hi Hn].
  unfold where_toks.
  rewrite chk_app. change (chk true [TSp; W "WHERE"; TSp; W "time"; P ">"; P "="]) with (Some true).
  cbv beta iota. rewrite chk_app, chk_num, chk_app.
  change (chk false [TSp; W "AND"; TSp; W "time"; P "<"]) with (Some true).
  cbv beta iota. rewrite chk_app, chk_num, chk_app.
  match goal with |- context [chk false ?l] => change (chk false l) with (Some false) end.
  cbv beta iota. rewrite chk_app. destruct (chk_metric (w_metric w) false) as [q1 ->].
  rewrite chk_app. destruct (chk_tagconds (w_in w) q1 Hi) as [q2 ->].
  apply chk_tagconds. exact Hn.
Qed.

Lemma build_tags_wf : forall c pos fs, forallb tagcond_wf (build_tags c pos fs) = true.
Proof.
  intros. unfold build_tags. induction (filter _ fs) as [|xf l IH]; [reflexivity|].
  simpl. unfold tagcond_wf at 1. rewrite build_tag_wf. exact IH.
Qed.

Lemma build_where_wf : forall q, wherec_wf (build_where q) = true.
Proof. intros. unfold wherec_wf, build_where. cbn [w_in w_notin]. rewrite !build_tags_wf. reflexivity. Qed.

(* the text written for ANY query lexes to exactly the token list derived from the condition AST *)
Theorem where_lexes_to_own_tokens : forall q, lex (print_where q) = Some (where_toks (build_where q)).
Proof.
  intros q. destruct (chk_where (build_where q) (build_where_wf q)) as [s Hs].
  unfold print_where. eapply lex_render; eauto.
Qed.

(* ---------- the structure does not depend on the user's strings ---------- *)
Definition atom_skel (a : atom) : atom :=
  match a with
  | AStrIn n c vs => AStrIn n c (map (fun _ => []) vs)
  | AMatch n c _ => AMatch n c []
  | _ => a
  end.

Lemma skeleton_app : forall a b, skeleton (a ++ b) = skeleton a ++ skeleton b.
Proof. intros. unfold skeleton. apply map_app. Qed.

Lemma skeleton_strlist : forall vs,
  skeleton (sep_list (fun s : str => [TS s]) vs) = skeleton (sep_list (fun s : str => [TS s]) (map (fun _ => []) vs)).
Proof.
  induction vs as [|a l IH]; [reflexivity|].
  destruct l as [|b l]; [reflexivity|].
  change (sep_list (fun s : str => [TS s]) (a :: b :: l)) with ([TS a] ++ TP 44 :: sep_list (fun s : str => [TS s]) (b :: l)).
  change (map (fun _ : str => @nil Z) (a :: b :: l)) with ([] :: map (fun _ : str => @nil Z) (b :: l)).
  change (map (fun _ : str => @nil Z) (b :: l)) with ([] :: map (fun _ : str => @nil Z) l) in *.
  change (sep_list (fun s : str => [TS s]) ([] :: [] :: map (fun _ : str => []) l))
    with ([TS []] ++ TP 44 :: sep_list (fun s : str => [TS s]) ([] :: map (fun _ : str => []) l)).
  unfold skeleton in *. rewrite !map_app. cbn [map erase_tok]. rewrite IH. reflexivity.
Qed.

Lemma skeleton_atom : forall a, skeleton (atom_toks a) = skeleton (atom_toks (atom_skel a)).
Proof.
  destruct a; try reflexivity.
  - cbn [atom_skel atom_toks]. rewrite !skeleton_app. rewrite skeleton_strlist. reflexivity.
  - cbn [atom_skel atom_toks]. rewrite !skeleton_app. reflexivity.
Qed.

Lemma skeleton_atoms : forall o l, skeleton (atoms_toks o l) = skeleton (atoms_toks o (map atom_skel l)).
Proof.
  induction l as [|a l IH]; [reflexivity|].
  destruct l as [|b l]; [apply skeleton_atom|].
  change (atoms_toks o (a :: b :: l)) with (atom_toks a ++ sep_toks o ++ atoms_toks o (b :: l)).
  change (map atom_skel (a :: b :: l)) with (atom_skel a :: atom_skel b :: map atom_skel l).
  change (atoms_toks o (atom_skel a :: atom_skel b :: map atom_skel l))
    with (atom_toks (atom_skel a) ++ sep_toks o ++ atoms_toks o (map atom_skel (b :: l))).
  rewrite !skeleton_app, skeleton_atom, IH. reflexivity.
Qed.

Lemma is_nil_blank : forall s, is_nil (blank s) = is_nil s.
Proof. destruct s; reflexivity. Qed.
Lemma is_nil_map : forall A B (g : A -> B) l, is_nil (map g l) = is_nil l.
Proof. destruct l; reflexivity. Qed.
Lemma tv_empty_blank : forall v, tv_empty (blank_val v) = tv_empty v.
Proof. intros. unfold tv_empty, blank_val. cbn. rewrite is_nil_blank. reflexivity. Qed.
Lemma filter_map_comm : forall A B (g : A -> B) (p : B -> bool) l,
  filter p (map g l) = map g (filter (fun a => p (g a)) l).
Proof. induction l; simpl; [reflexivity|]. destruct (p (g a)); simpl; rewrite IHl; reflexivity. Qed.
Lemma filter_ext' : forall A (p q : A -> bool) l, (forall a, p a = q a) -> filter p l = filter q l.
Proof. induction l; simpl; intros; [reflexivity|]. rewrite H, IHl by assumption. reflexivity. Qed.
Lemma existsb_map_blank : forall l, existsb tv_empty (map blank_val l) = existsb tv_empty l.
Proof. induction l; simpl; [reflexivity|]. rewrite tv_empty_blank, IHl. reflexivity. Qed.

Lemma build_tag_blank : forall c pos x f,
  map atom_skel (tc_atoms (build_tag c pos x (blank_filter f))) = map atom_skel (tc_atoms (build_tag c pos x f)).
Proof.
  intros. unfold build_tag. cbn [tc_atoms blank_filter tf_values tf_re2].
  rewrite existsb_map_blank, is_nil_blank.
  rewrite !filter_map_comm.
  rewrite (filter_ext' _ (fun a => negb (tv_empty (blank_val a))) (fun v => negb (tv_empty v)))
    by (intros; rewrite tv_empty_blank; reflexivity).
  rewrite !map_map. cbn [blank_val tv_is_mapped tv_has_value tv_mapped tv_value].
  set (live := filter (fun v => negb (tv_empty v)) (tf_values f)).
  rewrite !map_app. f_equal. f_equal.
  destruct (is_raw c x); [reflexivity|].
  destruct (negb (is_nil (tf_re2 f))); [reflexivity|].
  rewrite <- (map_map tv_value blank), is_nil_map.
  destruct (negb (is_nil (map tv_value (filter tv_has_value live)))); [|reflexivity].
  cbn [map atom_skel]. rewrite map_map. reflexivity.
Qed.

Lemma tf_empty_blank : forall f, tf_empty (blank_filter f) = tf_empty f.
Proof. intros. unfold tf_empty, blank_filter. cbn. rewrite is_nil_map, is_nil_blank. reflexivity. Qed.

Lemma skeleton_tagconds_blank : forall c pos fs,
  skeleton (flat_map tagcond_toks (build_tags c pos (blank_filters fs)))
  = skeleton (flat_map tagcond_toks (build_tags c pos fs)).
Proof.
  intros. unfold build_tags, blank_filters. induction fs as [|xf l IH]; [reflexivity|].
  cbn [map filter fst snd]. rewrite tf_empty_blank.
  destruct (tf_empty (snd xf)); cbn [negb]; [exact IH|].
  cbn [map flat_map fst snd]. rewrite !skeleton_app. rewrite IH. f_equal.
  unfold tagcond_toks. rewrite !skeleton_app. f_equal. f_equal.
  change (tc_or (build_tag c pos (fst xf) (blank_filter (snd xf)))) with pos.
  change (tc_or (build_tag c pos (fst xf) (snd xf))) with pos.
  rewrite skeleton_atoms, build_tag_blank, <- skeleton_atoms. reflexivity.
Qed.

Theorem skeleton_blank : forall q,
  skeleton (where_toks (build_where q)) = skeleton (where_toks (build_where (blank_query q))).
Proof.
  intros. unfold where_toks, build_where, blank_query.
  cbn [w_from w_to w_metric w_in w_notin q_cfg q_from q_to q_metric_id q_min q_mnot q_in q_notin].
  rewrite !skeleton_app, !skeleton_tagconds_blank. reflexivity.
Qed.
