(* C27 — lemmas about the PromQL evaluation model. *)
From Coq Require Import ZArith QArith Qround List Bool Lia.
From SH Require Import PromEval.Model.
Import ListNotations.
Open Scope Z_scope.

(* ---------------------------------------------------------------- helpers *)
Lemma qlt_true : forall a b, qlt a b = true -> (a < b)%Q.
Proof.
  unfold qlt. intros a b H. apply negb_true_iff in H.
  apply Qnot_le_lt. intro C. apply Qle_bool_iff in C. congruence.
Qed.
Lemma qlt_false : forall a b, qlt a b = false -> (b <= a)%Q.
Proof.
  unfold qlt. intros a b H. apply negb_false_iff in H. apply Qle_bool_iff. exact H.
Qed.

Lemma present_cons_some : forall x l, present (Some x :: l) = x :: present l.
Proof. reflexivity. Qed.
Lemma present_cons_none : forall l, present (None :: l) = present l.
Proof. reflexivity. Qed.

(* ---------------------------------------------------------------- sum *)
Lemma sum_acc : forall l a, exists s, fold_left step_sum l (Some a) = Some s /\ (s == a + qsum (present l))%Q.
Proof.
  induction l as [|v l IH]; intros a; simpl.
  - exists a. split; auto. ring.
  - destruct v as [x|].
    + destruct (IH (a + x)%Q) as [s [H1 H2]]. exists s. split; auto.
      rewrite H2. simpl. ring.
    + apply IH.
Qed.

Lemma f_sum_empty : forall l, present l = [] -> f_sum l = None.
Proof.
  unfold f_sum. induction l as [|v l IH]; simpl; auto.
  destruct v; simpl; [discriminate|auto].
Qed.

Lemma f_sum_nonempty : forall l, present l <> [] -> exists s, f_sum l = Some s /\ (s == qsum (present l))%Q.
Proof.
  unfold f_sum. induction l as [|v l IH]; simpl; intros H; [congruence|].
  destruct v as [x|].
  - destruct (sum_acc l x) as [s [H1 H2]]. exists s. split; auto.
  - apply IH. exact H.
Qed.

(* ---------------------------------------------------------------- min / max *)
Lemma min_acc : forall l a, exists m, fold_left step_min l (Some a) = Some m /\
  (m = a \/ In m (present l)) /\ (m <= a)%Q /\ (forall x, In x (present l) -> (m <= x)%Q).
Proof.
  induction l as [|v l IH]; intros a; simpl.
  - exists a. repeat split; auto. apply Qle_refl. intros x [].
  - destruct v as [x|]; simpl.
    + destruct (qlt x a) eqn:E.
      * destruct (IH x) as [m [H1 [H2 [H3 H4]]]]. exists m. repeat split; auto.
        -- destruct H2; [right; left; congruence | right; right; auto].
        -- apply Qle_trans with x; auto. apply Qlt_le_weak. apply qlt_true; auto.
        -- intros y [Hy|Hy]; [subst; auto | auto].
      * destruct (IH a) as [m [H1 [H2 [H3 H4]]]]. exists m. repeat split; auto.
        -- destruct H2; auto.
        -- intros y [Hy|Hy]; [subst | auto]. apply Qle_trans with a; auto. apply qlt_false; auto.
    + apply IH.
Qed.

Lemma f_min_empty : forall l, present l = [] -> f_min l = None.
Proof.
  unfold f_min. induction l as [|v l IH]; simpl; auto. destruct v; simpl; [discriminate|auto].
Qed.

Lemma f_min_nonempty : forall l, present l <> [] ->
  exists m, f_min l = Some m /\ In m (present l) /\ forall x, In x (present l) -> (m <= x)%Q.
Proof.
  unfold f_min. induction l as [|v l IH]; simpl; intros H; [congruence|].
  destruct v as [x|]; simpl.
  - destruct (min_acc l x) as [m [H1 [H2 [H3 H4]]]]. exists m. repeat split; auto.
    + destruct H2; [left; congruence | right; auto].
    + intros y [Hy|Hy]; [subst; auto | auto].
  - apply IH; auto.
Qed.

Lemma max_acc : forall l a, exists m, fold_left step_max l (Some a) = Some m /\
  (m = a \/ In m (present l)) /\ (a <= m)%Q /\ (forall x, In x (present l) -> (x <= m)%Q).
Proof.
  induction l as [|v l IH]; intros a; simpl.
  - exists a. repeat split; auto. apply Qle_refl. intros x [].
  - destruct v as [x|]; simpl.
    + destruct (qlt a x) eqn:E.
      * destruct (IH x) as [m [H1 [H2 [H3 H4]]]]. exists m. repeat split; auto.
        -- destruct H2; [right; left; congruence | right; right; auto].
        -- apply Qle_trans with x; auto. apply Qlt_le_weak. apply qlt_true; auto.
        -- intros y [Hy|Hy]; [subst; auto | auto].
      * destruct (IH a) as [m [H1 [H2 [H3 H4]]]]. exists m. repeat split; auto.
        -- destruct H2; auto.
        -- intros y [Hy|Hy]; [subst | auto]. apply Qle_trans with a; auto. apply qlt_false; auto.
    + apply IH.
Qed.

Lemma f_max_empty : forall l, present l = [] -> f_max l = None.
Proof.
  unfold f_max. induction l as [|v l IH]; simpl; auto. destruct v; simpl; [discriminate|auto].
Qed.

Lemma f_max_nonempty : forall l, present l <> [] ->
  exists m, f_max l = Some m /\ In m (present l) /\ forall x, In x (present l) -> (x <= m)%Q.
Proof.
  unfold f_max. induction l as [|v l IH]; simpl; intros H; [congruence|].
  destruct v as [x|]; simpl.
  - destruct (max_acc l x) as [m [H1 [H2 [H3 H4]]]]. exists m. repeat split; auto.
    + destruct H2; [left; congruence | right; auto].
    + intros y [Hy|Hy]; [subst; auto | auto].
  - apply IH; auto.
Qed.

(* ---------------------------------------------------------------- (sum, count), avg, count *)
Lemma sc_acc : forall l s c,
  (fst (fold_left step_sc l (s, c)) == s + qsum (present l))%Q /\
  snd (fold_left step_sc l (s, c)) = c + zlen (present l).
Proof.
  induction l as [|v l IH]; intros s c; simpl.
  - split; [ring | unfold zlen; simpl; lia].
  - destruct v as [x|]; simpl.
    + destruct (IH (s + x)%Q (c + 1)) as [H1 H2]. split.
      * rewrite H1. ring.
      * rewrite H2. unfold zlen. simpl length. lia.
    + apply IH.
Qed.

Lemma sum_cnt_spec : forall l,
  (fst (sum_cnt l) == qsum (present l))%Q /\ snd (sum_cnt l) = zlen (present l).
Proof.
  intros l. unfold sum_cnt. destruct (sc_acc l 0%Q 0) as [H1 H2]. split.
  - rewrite H1. ring.
  - rewrite H2. lia.
Qed.

Lemma zlen_zero : forall {A} (l : list A), zlen l = 0 <-> l = [].
Proof. intros A l. unfold zlen. destruct l; simpl; split; intros; try reflexivity; try discriminate; lia. Qed.

Lemma f_count_spec : forall l, f_count l = Some (inject_Z (zlen (present l))).
Proof. intros l. unfold f_count. destruct (sum_cnt_spec l) as [_ H]. rewrite H. reflexivity. Qed.

Lemma f_avg_empty : forall l, present l = [] -> f_avg l = None.
Proof.
  intros l H. unfold f_avg. destruct (sum_cnt l) as [s c] eqn:E.
  destruct (sum_cnt_spec l) as [_ H2]. rewrite E in H2. simpl in H2. rewrite H in H2.
  unfold zlen in H2. simpl in H2. subst c. reflexivity.
Qed.

Lemma f_avg_nonempty : forall l, present l <> [] ->
  exists a, f_avg l = Some a /\ (a == qsum (present l) / inject_Z (zlen (present l)))%Q.
Proof.
  intros l H. unfold f_avg. destruct (sum_cnt l) as [s c] eqn:E.
  destruct (sum_cnt_spec l) as [H1 H2]. rewrite E in H1, H2. simpl in H1, H2.
  destruct (c =? 0) eqn:Ec.
  - apply Z.eqb_eq in Ec. rewrite Ec in H2. symmetry in H2. apply zlen_zero in H2. contradiction.
  - eexists. split; [reflexivity|]. rewrite H1, H2. reflexivity.
Qed.

(* ---------------------------------------------------------------- stdvar *)
Definition sqdev (m : Q) (n : Z) (x : Q) : Q := ((x - m) * (x - m) / inject_Z n)%Q.

Lemma var_acc : forall m c l a,
  (fold_left (step_var m c) l a == a + qsum (map (sqdev m c) (present l)))%Q.
Proof.
  induction l as [|v l IH]; intros a; simpl.
  - ring.
  - destruct v as [x|]; simpl.
    + rewrite IH. unfold sqdev. ring.
    + apply IH.
Qed.

Lemma qsum_sqdev_compat : forall m m' n l, (m == m')%Q ->
  (qsum (map (sqdev m n) l) == qsum (map (sqdev m' n) l))%Q.
Proof.
  induction l as [|x l IH]; intros H; simpl; [reflexivity|].
  rewrite (IH H). unfold sqdev. rewrite H. reflexivity.
Qed.

(* population variance of the present points: sum of (x - mean)^2 / n *)
Lemma f_stdvar_spec : forall l, present l <> [] ->
  exists v, f_stdvar l = Some v /\
    let n := zlen (present l) in
    let mean := (qsum (present l) / inject_Z n)%Q in
    (v == qsum (map (sqdev mean n) (present l)))%Q.
Proof.
  intros l H. unfold f_stdvar. destruct (sum_cnt l) as [s c] eqn:E.
  destruct (sum_cnt_spec l) as [H1 H2]. rewrite E in H1, H2. simpl in H1, H2.
  eexists. split; [reflexivity|]. simpl.
  rewrite var_acc. rewrite Qplus_0_l. subst c.
  apply qsum_sqdev_compat. rewrite H1. reflexivity.
Qed.

Lemma f_stdvar_empty : forall l, present l = [] -> f_stdvar l = Some 0%Q.
Proof.
  intros l H. unfold f_stdvar. destruct (sum_cnt l) as [s c].
  assert (G : forall m c a, fold_left (step_var m c) l a = a).
  { clear -H. induction l as [|v l IH]; intros; simpl; auto. destruct v; simpl in *; [discriminate|auto]. }
  rewrite G. reflexivity.
Qed.

(* ---------------------------------------------------------------- quantile (repaired definition) *)
Lemma quantile_def_excludes_missing : forall q col,
  quantile_def q col = quantile_def q (map Some (present col)).
Proof.
  intros q col. unfold quantile_def.
  assert (E : present (map Some (present col)) = present col).
  { induction (present col) as [|x l IH]; simpl; auto. unfold present in *. simpl. rewrite IH. reflexivity. }
  rewrite E. reflexivity.
Qed.

Lemma quantile_def_empty : forall q col, present col = [] -> quantile_def q col = None.
Proof. intros q col H. unfold quantile_def. rewrite H. reflexivity. Qed.

(* the code as it is: one missing point poisons the result although a present point exists *)
Lemma quantile_refuted : exists q col,
  present col <> [] /\ snd (quantile_faithful q (seq 0 (length col)) col) = None /\ quantile_def q col <> None.
Proof.
  exists 0%Q, [Some 3%Q; None]. split; [discriminate|]. split; [vm_compute; reflexivity | vm_compute; discriminate].
Qed.

(* ---------------------------------------------------------------- reductions: merging rows vs aggregating series *)
(* value equivalence: both missing or equal rationals *)
Definition veq (a b : val) : Prop :=
  match a, b with Some x, Some y => (x == y)%Q | None, None => True | _, _ => False end.

Lemma qsum_app : forall a b, (qsum (a ++ b) == qsum a + qsum b)%Q.
Proof. induction a as [|x a IH]; intros b; simpl; [ring | rewrite IH; ring]. Qed.

(* per-second sum of a row *)
Definition sumsec (lod : Z) (ev : list Z) : Q := (qsum (map inject_Z ev) / inject_Z lod)%Q.

Lemma row_value_sumsec : forall q lod ev, ev <> [] -> row_value WSumSec q lod ev = Some (sumsec lod ev).
Proof. intros q lod ev H. destruct ev; [congruence | reflexivity]. Qed.

Lemma present_rows_sumsec : forall q lod evs,
  present (map (row_value WSumSec q lod) evs) = map (sumsec lod) (filter (fun ev => negb (Nat.eqb (length ev) 0)) evs).
Proof.
  induction evs as [|ev evs IH]; simpl; auto.
  destruct ev as [|e ev]; simpl; [apply IH|]. unfold present in *. simpl. rewrite IH. reflexivity.
Qed.

Lemma qsum_sumsec_concat : forall lod evs,
  (qsum (map (sumsec lod) (filter (fun ev => negb (Nat.eqb (length ev) 0)) evs)) == sumsec lod (concat evs))%Q.
Proof.
  induction evs as [|ev evs IH]; simpl.
  - unfold sumsec. simpl. unfold Qdiv. ring.
  - destruct ev as [|e ev]; simpl.
    + exact IH.
    + rewrite IH. unfold sumsec. simpl. rewrite map_app, qsum_app. unfold Qdiv. ring.
Qed.

Lemma concat_nil_filter : forall (evs : list (list Z)),
  concat evs = [] <-> filter (fun ev => negb (Nat.eqb (length ev) 0)) evs = [].
Proof.
  induction evs as [|ev evs IH]; simpl; [tauto|].
  destruct ev as [|e ev]; simpl; [exact IH|]. split; discriminate.
Qed.

(* SUM pushed down as "sumsec": the value of the merged row (all events of the group in that slot) equals
   funcSum over the per-series values, missing rows excluded *)
Lemma merge_sum_preserves : forall q lod (evs : list (list Z)),
  veq (row_value WSumSec q lod (concat evs)) (f_sum (map (row_value WSumSec q lod) evs)).
Proof.
  intros q lod evs.
  destruct (concat evs) as [|e0 r] eqn:E.
  - assert (P : present (map (row_value WSumSec q lod) evs) = []).
    { rewrite present_rows_sumsec. apply concat_nil_filter in E. rewrite E. reflexivity. }
    rewrite (f_sum_empty _ P). simpl. exact I.
  - assert (NE : present (map (row_value WSumSec q lod) evs) <> []).
    { rewrite present_rows_sumsec. intro C.
      assert (C' : filter (fun ev : list Z => negb (Nat.eqb (length ev) 0)) evs = []).
      { destruct (filter (fun ev : list Z => negb (Nat.eqb (length ev) 0)) evs); [reflexivity | discriminate C]. }
      apply concat_nil_filter in C'. congruence. }
    destruct (f_sum_nonempty _ NE) as [s [H1 H2]]. rewrite H1.
    rewrite <- E. rewrite row_value_sumsec by (rewrite E; discriminate). simpl.
    rewrite H2, present_rows_sumsec. symmetry. apply qsum_sumsec_concat.
Qed.

(* AVG pushed down: sum/count of the merged row is not the mean of the per-series averages *)
Lemma merge_avg_refuted : exists q lod (evs : list (list Z)),
  ~ veq (row_value WAvg q lod (concat evs)) (f_avg (map (row_value WAvg q lod) evs)).
Proof.
  exists 60, 60, [[1;1;1];[5]]. vm_compute. intros H. discriminate H.
Qed.

(* with equal per-series counts the two agree (the only case in which the avg pushdown is harmless): two series *)
Lemma merge_avg_equal_counts_2 : forall q lod a b : Z, forall ea eb : list Z,
  length ea = length eb ->
  veq (row_value WAvg q lod ((a :: ea) ++ (b :: eb)))
      (f_avg [row_value WAvg q lod (a :: ea); row_value WAvg q lod (b :: eb)]).
Proof.
  intros q lod a b ea eb L. unfold f_avg, sum_cnt. cbn [fold_left step_sc row_value fst snd map app].
  change (0 + 1 + 1 =? 0) with false. cbv [veq].
  assert (Hm : zlen (a :: ea ++ b :: eb) = 2 * zlen (a :: ea)).
  { unfold zlen. simpl length. rewrite app_length. simpl length. rewrite L. lia. }
  assert (Hn : zlen (b :: eb) = zlen (a :: ea)).
  { unfold zlen. simpl length. rewrite L. reflexivity. }
  assert (Npos : 0 < zlen (a :: ea)) by (unfold zlen; simpl length; lia).
  rewrite Hm, Hn. set (n := zlen (a :: ea)) in *.
  change (0 + 1 + 1) with 2.
  rewrite map_app. simpl qsum. rewrite qsum_app. simpl qsum.
  rewrite inject_Z_mult.
  assert (Q1 : ~ (inject_Z n == 0)%Q). { unfold inject_Z, Qeq. simpl. lia. }
  field. exact Q1.
Qed.

(* COUNT pushed down: events per second of the merged row is not the number of series *)
Lemma merge_count_refuted : exists q lod (evs : list (list Z)),
  ~ veq (row_value WCountSec q lod (concat evs)) (f_count (map (row_value WCountSec q lod) evs)).
Proof.
  exists 60, 60, [[1;1;1];[5]]. vm_compute. intros H. discriminate H.
Qed.

(* ---------------------------------------------------------------- whole-query witnesses *)
Definition wq : query :=
  {| q_counter := false; q_ntags := 3%nat; q_t := [0; 60; 120; 180]; q_step := 60; q_lods := [(60, 4%nat)]; q_startx := 1; q_vs := 1; q_ve := 4 |}.
Definition wdata : list raw :=
  [ {| r_tags := [0; 1; 1]; r_slots := [[1;1;1]; [1;1;1]; [1;1;1]; [1;1;1]] |};
    {| r_tags := [0; 2; 1]; r_slots := [[5]; [5]; []; [5]] |} ].
Definition sel_plain (w : what) := {| s_what := w; s_by := None |}.
Definition sel_by (w : what) := {| s_what := w; s_by := Some [0; 1; 2]%nat |}.

Definition same_result (a b : list series) : bool :=
  Nat.eqb (length a) (length b) &&
  forallb (fun x => existsb (fun y => tags_eqb (fst x) (fst y) &&
     forallb (fun p => match p with (Some u, Some v) => Qeq_bool u v | (None, None) => true | _ => false end)
             (combine (snd x) (snd y)) && Nat.eqb (length (snd x)) (length (snd y))) b) a.

(* F-C27a: max(m{__what__="min"}): the code pushes the aggregate down although the selector's what is "min"
   (the compatibility check reads sel.What, which nothing sets) *)
Lemma reduction_what_refuted :
  same_result (exec false wq wdata (sel_plain WMin) [NAgg AMax 0%Q false []])
              (exec false wq wdata (sel_by WMin) [NAgg AMax 0%Q false []]) = false.
Proof. vm_compute. reflexivity. Qed.

(* the repaired variant evaluates the same on this and on the other witnesses *)
Lemma repaired_agrees_on_witnesses :
  forallb (fun c : what * list node =>
     same_result (exec true wq wdata (sel_plain (fst c)) (snd c)) (exec true wq wdata (sel_by (fst c)) (snd c)))
   [ (WMin, [NAgg AMax 0%Q false []]); (WAvg, [NAgg AAvg 0%Q false []]); (WCountSec, [NAgg ACount 0%Q false []]);
     (WSumSec, [NAgg ASum 0%Q false [1%nat]]); (WMax, [NAgg AMax 0%Q true [1%nat]]);
     (WSum, [NMatrix 60; NCall OSum]); (WSum, [NMatrix 20; NCall OSum]); (WSum, [NMatrix 60; NCall OSum; NAgg ASum 0%Q false []]);
     (WNone, [NAgg ASum 0%Q false []; NSubquery 60; NCall OMax]) ] = true.
Proof. vm_compute. reflexivity. Qed.

(* ... while the faithful variant differs on the avg, count, range<step witnesses *)
Lemma faithful_differs_on_witnesses :
  forallb (fun c : what * list node =>
     negb (same_result (exec false wq wdata (sel_plain (fst c)) (snd c)) (exec false wq wdata (sel_by (fst c)) (snd c))))
   [ (WMin, [NAgg AMax 0%Q false []]); (WAvg, [NAgg AAvg 0%Q false []]); (WCountSec, [NAgg ACount 0%Q false []]);
     (WSum, [NMatrix 20; NCall OSum]); (WNone, [NAgg ASum 0%Q false []]) ] = true.
Proof. vm_compute. reflexivity. Qed.

(* reductions that the faithful code applies and that do preserve the result (non-vacuity of the above) *)
Lemma faithful_agrees_on_sound_pushdowns :
  forallb (fun c : what * list node =>
     same_result (exec false wq wdata (sel_plain (fst c)) (snd c)) (exec false wq wdata (sel_by (fst c)) (snd c))
     && negb (Nat.eqb (length (exec false wq wdata (sel_plain (fst c)) (snd c))) 0))
   [ (WSumSec, [NAgg ASum 0%Q false [1%nat]]); (WMax, [NAgg AMax 0%Q true [1%nat]]); (WMin, [NAgg AMin 0%Q false []]);
     (WSum, [NMatrix 60; NCall OSum]) ] = true.
Proof. vm_compute. reflexivity. Qed.

(* ---------------------------------------------------------------- over-time windows, bounded sweep *)
(* closed form on a uniform axis: the window of point i is the trailing c points; c = ceil(w/s) (non-strict) or
   max(1, floor(w/s)) (strict, no window when w < s); windows must start at an index >= 1 *)
Definition ot_closed (fn : otfn) (w s : Z) (v : list val) : list val :=
  let strict := ot_strict fn in
  let c := if strict then Z.max 1 (w / s) else (w + s - 1) / s in
  map (fun i => let i := Z.of_nat i in
         if i <? c then None
         else if strict && (w <? s) then ot_nil fn
         else let win := slice v (i - c + 1) i in
              if existsb is_some win then ot_kernel fn win else ot_nil fn)
      (seq 0 (length v)).

(* all series of length <= 6 whose present points carry the values 2^i (so that a sum identifies its addends) *)
Fixpoint patterns (n : nat) (i : Z) : list (list val) :=
  match n with
  | O => [[]]
  | S m => flat_map (fun r => [Some (inject_Z (2 ^ i)) :: r; None :: r]) (patterns m (i + 1))
  end.
Definition vals_same (a b : list val) : bool :=
  Nat.eqb (length a) (length b) &&
  forallb (fun p => match p with (Some u, Some v) => Qeq_bool u v | (None, None) => true | _ => false end) (combine a b).
Definition axis (n : nat) (s : Z) : list Z := map (fun i => 1000 + Z.of_nat i * s) (seq 0 n).

Definition window_sweep : bool :=
  forallb (fun n => forallb (fun s => forallb (fun w => forallb (fun fn =>
    forallb (fun v => vals_same (over_time fn (axis n s) w s v) (ot_closed fn w s v)) (patterns n 0))
    [OSum; OCount; OAvg; OMin; OMax; OLast; OStdVar]) (map Z.of_nat (seq 1 13))) [1; 2; 3; 5]) (seq 0 7).

Lemma window_sweep_ok : window_sweep = true.
Proof. vm_compute. reflexivity. Qed.

(* ---------------------------------------------------------------- present_over_time *)
(* points at 0, 60, 120 s, only the first one present, range 60 s: the second point has a sample within the range
   (definition: 1), the third one has none (definition: missing); the code answers the other way round *)
Lemma present_over_time_refuted :
  present_run false [0; 60; 120] [Some 5%Q; None; None] 60 None = [Some 1%Q; None; Some 1%Q] /\
  present_run true  [0; 60; 120] [Some 5%Q; None; None] 60 None = [Some 1%Q; Some 1%Q; None].
Proof. vm_compute. split; reflexivity. Qed.

