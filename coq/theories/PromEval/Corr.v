(* Correspondence cases for C27: what the real Engine.Exec returned (over a storage stub serving the
   generated rows) against the model; either variant of the dual model is accepted. *)
From Coq Require Import ZArith QArith Qabs List Bool.
From SH Require Import Common.Corr PromEval.Model.
Import ListNotations.
Open Scope Z_scope.

(* compact literals used by the harness *)
Definition I (z : Z) : val := Some (inject_Z z).
Definition F (n : Z) (d : positive) : val := Some (n # d).
Definition NA : val := None.
Definition R (tg : list Z) (sl : list (list Z)) : raw := {| r_tags := tg; r_slots := sl |}.
Definition S_ (w : what) (by_ : option (list nat)) : sel := {| s_what := w; s_by := by_ |}.
(* axis made of LODs (t0, step, n): t0, t0+step, ... (n points) each; tsstep = Timescale.Step *)
Definition Y (counter : bool) (ntags : nat) (tsstep : Z) (lods : list (Z * Z * nat)) (startx vs ve : Z) : query :=
  {| q_counter := counter; q_ntags := ntags;
     q_t := flat_map (fun l => map (fun i => fst (fst l) + Z.of_nat i * snd (fst l)) (seq 0 (snd l))) lods;
     q_step := tsstep; q_lods := map (fun l => (snd (fst l), snd l)) lods;
     q_startx := startx; q_vs := vs; q_ve := ve |}.
Definition T (l : list Z) : tags := combine (seq 0 (length l)) l.      (* all tags present *)
Definition K (l : list (nat * Z)) : tags := l.

(* observed float64 values are printed exactly when they are short dyadic rationals and rounded to 2^-40
   otherwise; they are compared with the exact result of the model within 2^-30 (relative above 1) *)
Definition qclose (x y : Q) : bool :=
  let d := Qabs (x - y) in
  let m := Qabs x in
  Qle_bool d (1 # 1073741824) || Qle_bool d (m * (1 # 1073741824)).
Definition val_eqb (a b : val) : bool :=
  match a, b with Some x, Some y => qclose x y | None, None => true | _, _ => false end.
Fixpoint vals_eqb (a b : list val) : bool :=
  match a, b with
  | [], [] => true
  | x :: a', y :: b' => val_eqb x y && vals_eqb a' b'
  | _, _ => false
  end.
Definition series_eqb (a b : series) : bool := tags_eqb (fst a) (fst b) && vals_eqb (snd a) (snd b).
(* results are sets of series with distinct tags *)
Definition set_eqb (a b : list series) : bool :=
  Nat.eqb (length a) (length b) && forallb (fun x => existsb (series_eqb x) b) a && forallb (fun y => existsb (series_eqb y) a) b.

Inductive case :=
(* Engine.Exec of  chain(selector)  over [data]; obs = returned series *)
| CExec (qy : query) (data : list raw) (s : sel) (chain : list node) (obs : list series)
(* topk/bottomk(k, chain(selector)) by/without g; obs = returned series *)
| CTopK (qy : query) (data : list raw) (s : sel) (chain : list node) (desc : bool) (k : Z) (without : bool) (g : list nat)
        (obs : list series).

(* admissible outcome of funcTopK for one group (series untrimmed): n = min(k, |group|) members are returned
   (identified by their tags) and no member is beaten by a non-member *)
Definition has_tags (obs : list series) (s : series) : bool := existsb (fun o => tags_eqb (fst o) (fst s)) obs.
Definition topk_group_ok (qy : query) (desc : bool) (k : Z) (grp : list series) (obs : list series) : bool :=
  let ws := weights (lodsteps qy) (q_vs qy) (q_ve qy) (map snd grp) in
  let gw := combine grp ws in
  let chosen := filter (fun sw => has_tags obs (fst sw)) gw in
  let rest := filter (fun sw => negb (has_tags obs (fst sw))) gw in
  (zlen chosen =? Z.min k (zlen grp)) &&
  forallb (fun c => forallb (fun u => if desc then wle (snd u) (snd c) else wle (snd c) (snd u)) rest) chosen.

Definition topk_ok (fixed : bool) (qy : query) (data : list raw) (s : sel) (chain : list node) (desc : bool) (k : Z)
           (without : bool) (g : list nat) (obs : list series) : bool :=
  let '(w, gb, range, rest) := plan fixed (q_counter qy) (q_ntags qy) s (chain ++ [NAgg AGroup 0%Q without g]) (stepmin qy) in
  let inner := eval_chain fixed (q_t qy) (stepmin qy) (removelast rest) 0 (storage w gb range (q_step qy) (lodsteps qy) data) in
  (* removeEmptySeries *)
  let inner := filter (fun s => existsb is_some (slice (snd s) (q_vs qy) (q_ve qy - 1))) inner in
  if k <=? 0 then match obs with [] => true | _ => false end
  else
    let groups := fold_left (fun gs s => let key := group_key without g (fst s) in
                               if existsb (fun kg => tags_eqb (fst kg) key) gs
                               then map (fun kg => if tags_eqb (fst kg) key then (fst kg, snd kg ++ [s]) else kg) gs
                               else gs ++ [(key, [s])]) inner [] in
    let trim := fun s : series => (fst s, skipn (Z.to_nat (q_startx qy)) (snd s)) in
    (* every observed series is one of the inner series, values untouched *)
    forallb (fun o => existsb (fun i => series_eqb o (trim i)) inner) obs &&
    forallb (fun kg => topk_group_ok qy desc k (snd kg) obs) groups &&
    (zlen obs =? fold_left (fun acc kg => acc + Z.min k (zlen (snd kg))) groups 0).

Definition ok (c : case) : bool :=
  match c with
  | CExec qy data s chain obs =>
      set_eqb (exec false qy data s chain) obs || set_eqb (exec true qy data s chain) obs
  | CTopK qy data s chain desc k wo g obs =>
      topk_ok false qy data s chain desc k wo g obs || topk_ok true qy data s chain desc k wo g obs
  end.

Definition mism := mismatches ok.
